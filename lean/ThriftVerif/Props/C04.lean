import ThriftVerif.Lib.Diag
import ThriftVerif.Lib.DiagLemmas
import ThriftVerif.Generated.C04
/-
  C04 — invalid input is diagnosed: non-zero exit, message, no output, no crash (DESIGN.md §5.4).
  Property theorems only; helper lemmas are in Lib/DiagLemmas.lean.

  `cfg` is the regenerated description of the current source (order of the five checks, whether
  CheckUnions assigns hasDefault, the categories ResolveType accepts, whether handlePanic exits
  non-zero); the theorems are about `run cfg`, so `lake build` re-checks them against what the
  code says on every run.  Every rule theorem has the shape

      for every program `p` the parser can hand over (`WF`), every file `i` reachable from the
      main file through includes, every position inside that file:  the run is rejected.

  `Rejected` = exits non-zero at a named stage; by `reject_writes_nothing` nothing was persisted.
  History: the defects this property exposed on the original tree (getEnum's unbounded recursion,
  CheckUnions never setting hasDefault, unchecked argument / throws lists, unresolved argument
  defaults, handlePanic exiting 0) are repaired in /repo; the former `…_partial` theorems and negative
  witnesses are now full theorems plus regression items (end of this file; the harness runs the same
  inputs first).
-/
namespace Props.C04
open Diag Generated.C04

/-- the run exits non-zero at a named stage -/
def Rejected (env : Env) (p : Program) : Prop := ∃ s, (run cfg env p).outcome = .reject s

/-! ## obligations on the regenerated facts -/

/-- InvokeThriftgo still calls its stages in the order `run` hard-codes, Persist last, and every
stage that can fail is followed by a returning error test. -/
theorem pipeline_order : pipeline = modelPipeline ∧ everyStageGuarded = true := by decide

/-- the repairs the model relies on are still in the source: CheckUnions assigns hasDefault,
CheckFunctions checks argument and throws lists (the throws list of a non-void function seeded with
field 0 `success`), ResolveFunction resolves their defaults, getEnum's recursion is guarded,
handlePanic exits non-zero. -/
theorem code_facts :
    cfg.unionSetsHasDefault = true ∧ functionFieldsChecked = true ∧ functionDefaultsResolved = true ∧
    getEnumGuarded = true ∧ cfg.handlePanicExits = true ∧ throwsCountSuccess = true := by decide

/-- CheckAll still runs all five checks. -/
theorem check_order_complete : ∀ c : CheckFn, c ∈ cfg.checkOrder := by
  intro c; cases c <;> decide

/-- ResolveType accepts typedefs, enums and struct-likes as types and refuses constants and services. -/
theorem type_categories :
    isTypeCat cfg .typedef = true ∧ isTypeCat cfg .enum = true ∧ isTypeCat cfg .struct = true ∧
    isTypeCat cfg .union = true ∧ isTypeCat cfg .exception = true ∧
    isTypeCat cfg .constant = false ∧ isTypeCat cfg .service = false := by decide

/-! ## anywhere in the include graph -/

/-- **anywhere_in_graph** (checker rules): a file reachable through includes — at any depth, through
diamonds — that breaks a checker rule makes the run end in a rejection.  (DepthFirstSearch visits
every reachable file: induction over the include graph with the visited-set invariant.) -/
theorem anywhere_in_graph (env : Env) (p : Program) (w : WF p) (hpp : env.parsePanics = false)
    (i : Nat) (f : File) (hr : Reach p i) (hf : p.files[i]? = some f) (c : CheckFn)
    (hv : runCheck cfg c f ≠ none) : Rejected env p :=
  run_reject_of_check w hpp (checkAll_err_of_violation w hr hf (checkFile_of_check (check_order_complete c) hv))

/-- **anywhere_in_graph** (resolver rules): a reachable file on which ResolveAST fails ends the run. -/
theorem anywhere_in_graph_resolve (env : Env) (p : Program) (w : WF p) (hpp : env.parsePanics = false)
    (i : Nat) (hr : Reach p i) (hv : resolveFile cfg p (programTables p) i ≠ .ok) : Rejected env p :=
  run_of_resolve_bad hpp (resolveAll_of_file w hr hv) (run_no_crash w)

/-! ## checker rules -/

/-- two typedefs / constants / struct-likes / services of one file with the same name, whatever lies
before, between and after them -/
theorem dup_global_rejected (env : Env) (p : Program) (w : WF p) (hpp : env.parsePanics = false)
    (i : Nat) (f : File) (hr : Reach p i) (hf : p.files[i]? = some f)
    (x : Name) (a b c : List Name) (h : f.globalNames = a ++ x :: (b ++ x :: c)) : Rejected env p :=
  anywhere_in_graph env p w hpp i f hr hf .globals (by simp [runCheck, checkGlobals, h, dupScan_dup])

/-- … and when one of the two is an enum (CheckGlobals does not look at enums) RegisterNames refuses it -/
theorem dup_symbol_rejected (env : Env) (p : Program) (w : WF p) (hpp : env.parsePanics = false)
    (i : Nat) (f : File) (hr : Reach p i) (hf : p.files[i]? = some f)
    (n : Name) (c1 c2 : Cat) (a b r : List (Name × Cat)) (h : f.symbols = a ++ (n, c1) :: (b ++ (n, c2) :: r)) : Rejected env p :=
  anywhere_in_graph_resolve env p w hpp i hr
    (resolveFile_of_dup hf (by simp [registerNames, h, addAll_dup]))

theorem dup_field_name_rejected (env : Env) (p : Program) (w : WF p) (hpp : env.parsePanics = false)
    (i : Nat) (f : File) (hr : Reach p i) (hf : p.files[i]? = some f)
    (s : StructLike) (hs : s ∈ f.structLikes) (f1 f2 : Field) (a b c : List Field)
    (h : s.fields = a ++ f1 :: (b ++ f2 :: c)) (hn : f1.name = f2.name) : Rejected env p :=
  anywhere_in_graph env p w hpp i f hr hf .structLikes
    (findSome?_ne_none hs (by rw [h]; exact fieldLoop_dup f1 f2 (Or.inr hn) a b c [] []))

theorem dup_field_id_rejected (env : Env) (p : Program) (w : WF p) (hpp : env.parsePanics = false)
    (i : Nat) (f : File) (hr : Reach p i) (hf : p.files[i]? = some f)
    (s : StructLike) (hs : s ∈ f.structLikes) (f1 f2 : Field) (a b c : List Field)
    (h : s.fields = a ++ f1 :: (b ++ f2 :: c)) (hn : f1.id = f2.id) : Rejected env p :=
  anywhere_in_graph env p w hpp i f hr hf .structLikes
    (findSome?_ne_none hs (by rw [h]; exact fieldLoop_dup f1 f2 (Or.inl hn) a b c [] []))

theorem dup_function_rejected (env : Env) (p : Program) (w : WF p) (hpp : env.parsePanics = false)
    (i : Nat) (f : File) (hr : Reach p i) (hf : p.files[i]? = some f)
    (s : Service) (hs : s ∈ f.services) (g1 g2 : Func) (a b c : List Func)
    (h : s.funcs = a ++ g1 :: (b ++ g2 :: c)) (hn : g1.name = g2.name) : Rejected env p :=
  anywhere_in_graph env p w hpp i f hr hf .functions
    (findSome?_ne_none hs (by rw [h]; exact funcLoop_dup g1 g2 hn a b c))

/-- a duplicated id or name among the arguments of a function, or among its throws entries -/
theorem dup_argument_rejected (env : Env) (p : Program) (w : WF p) (hpp : env.parsePanics = false)
    (i : Nat) (f : File) (hr : Reach p i) (hf : p.files[i]? = some f)
    (s : Service) (hs : s ∈ f.services) (g : Func) (pre post : List Func) (hg : s.funcs = pre ++ g :: post)
    (f1 f2 : Field) (a b c : List Field)
    (h : g.args = a ++ f1 :: (b ++ f2 :: c) ∨ g.throws = a ++ f1 :: (b ++ f2 :: c))
    (hn : f1.id = f2.id ∨ f1.name = f2.name) : Rejected env p :=
  anywhere_in_graph env p w hpp i f hr hf .functions
    (findSome?_ne_none hs (by
      rw [hg]
      refine funcLoop_fields g ?_ pre post
      rcases h with h | h
      · exact Or.inl (by rw [h]; exact fieldLoop_dup f1 f2 hn a b c [] [])
      · exact Or.inr (by rw [h]; exact fieldLoop_dup f1 f2 hn a b c _ _)))

/-- a throws member of a function that returns a value may not reuse the id 0 or the name `success`
of the return value (both sit in the synthesized `<func>_result` struct) — since ef66a8a -/
theorem throws_reuses_success_rejected (env : Env) (p : Program) (w : WF p) (hpp : env.parsePanics = false)
    (i : Nat) (f : File) (hr : Reach p i) (hf : p.files[i]? = some f)
    (s : Service) (hs : s ∈ f.services) (g : Func) (pre post : List Func) (hg : s.funcs = pre ++ g :: post)
    (hv : g.void = false) (t : Field) (a c : List Field) (h : g.throws = a ++ t :: c)
    (hn : t.id = 0 ∨ t.name = successName) : Rejected env p :=
  anywhere_in_graph env p w hpp i f hr hf .functions
    (findSome?_ne_none hs (by
      rw [hg]
      refine funcLoop_fields g (Or.inr ?_) pre post
      rw [h]
      apply fieldLoop_seeded
      simp only [throwsSeedIds, throwsSeedNames, hv]
      rcases hn with hn | hn
      · exact Or.inl (by simp [hn])
      · exact Or.inr (by simp [hn])))

theorem dup_enum_value_name_rejected (env : Env) (p : Program) (w : WF p) (hpp : env.parsePanics = false)
    (i : Nat) (f : File) (hr : Reach p i) (hf : p.files[i]? = some f)
    (e : EnumDef) (he : e ∈ f.enums) (n : Name) (v1 v2 : Int) (a b c : List (Name × Int))
    (h : e.values = a ++ (n, v1) :: (b ++ (n, v2) :: c)) : Rejected env p :=
  anywhere_in_graph env p w hpp i f hr hf .enums
    (findSome?_ne_none he (by rw [h]; exact enumLoop_dup_name n v1 v2 a b c))

/-- two values with the same number: refused whether or not their names differ -/
theorem dup_enum_number_rejected (env : Env) (p : Program) (w : WF p) (hpp : env.parsePanics = false)
    (i : Nat) (f : File) (hr : Reach p i) (hf : p.files[i]? = some f)
    (e : EnumDef) (he : e ∈ f.enums) (n1 n2 : Name) (v : Int) (a b c : List (Name × Int))
    (h : e.values = a ++ (n1, v) :: (b ++ (n2, v) :: c)) : Rejected env p :=
  anywhere_in_graph env p w hpp i f hr hf .enums
    (findSome?_ne_none he (by rw [h]; exact enumLoop_dup_number n1 n2 v a b c))

theorem enum_out_of_int32_rejected (env : Env) (p : Program) (w : WF p) (hpp : env.parsePanics = false)
    (i : Nat) (f : File) (hr : Reach p i) (hf : p.files[i]? = some f)
    (e : EnumDef) (he : e ∈ f.enums) (n : Name) (v : Int) (a c : List (Name × Int))
    (h : e.values = a ++ (n, v) :: c) (hv : v < -2147483648 ∨ v > 2147483647) : Rejected env p :=
  anywhere_in_graph env p w hpp i f hr hf .enums
    (findSome?_ne_none he (by rw [h]; exact enumLoop_range n v hv a c))

theorem oneway_nonvoid_rejected (env : Env) (p : Program) (w : WF p) (hpp : env.parsePanics = false)
    (i : Nat) (f : File) (hr : Reach p i) (hf : p.files[i]? = some f)
    (s : Service) (hs : s ∈ f.services) (g : Func) (a c : List Func)
    (h : s.funcs = a ++ g :: c) (ho : g.oneway = true) (hv : g.void = false) : Rejected env p :=
  anywhere_in_graph env p w hpp i f hr hf .functions
    (findSome?_ne_none hs (by rw [h]; exact funcLoop_oneway g ⟨ho, Or.inl hv⟩ a c))

theorem oneway_throws_rejected (env : Env) (p : Program) (w : WF p) (hpp : env.parsePanics = false)
    (i : Nat) (f : File) (hr : Reach p i) (hf : p.files[i]? = some f)
    (s : Service) (hs : s ∈ f.services) (g : Func) (a c : List Func)
    (h : s.funcs = a ++ g :: c) (ho : g.oneway = true) (ht : g.throws ≠ []) : Rejected env p :=
  anywhere_in_graph env p w hpp i f hr hf .functions
    (findSome?_ne_none hs (by rw [h]; exact funcLoop_oneway g ⟨ho, Or.inr ht⟩ a c))

/-- a second defaulted member in a union (full since `fix: a union with two defaulted members is
rejected`: the regenerated fact `unionSetsHasDefault` is `true`, see `code_facts`).  For **any
requiredness** of the members: the model's `Field` carries none because CheckUnions only warns about
`required` and goes on to the default bookkeeping — `f1`, `f2` range over all members, and the
correspondence compares the real CheckUnions with this on unions whose default-carrying members are
required / optional / plain in every combination (seeded change C04-m9 skipped the bookkeeping for
`required` members). -/
theorem union_second_default_rejected (env : Env) (p : Program) (w : WF p) (hpp : env.parsePanics = false)
    (i : Nat) (f : File) (hr : Reach p i) (hf : p.files[i]? = some f)
    (u : StructLike) (hu : u ∈ f.unions) (f1 f2 : Field) (a b c : List Field)
    (h : u.fields = a ++ f1 :: (b ++ f2 :: c)) (h1 : f1.hasDefault = true) (h2 : f2.hasDefault = true) :
    Rejected env p :=
  anywhere_in_graph env p w hpp i f hr hf .unions
    (findSome?_ne_none hu (by rw [h, code_facts.1]; exact unionLoop_sets_dup f1 f2 h1 h2 a b c false))

/-- what a regression would mean: without the assignment CheckUnions accepts every union -/
theorem union_check_never_fires (c : Cfg) (hnofix : c.unionSetsHasDefault = false) (f : File) : checkUnions c f = none := by
  simp only [checkUnions, hnofix, List.findSome?_eq_none_iff]
  exact fun u _ => unionLoop_never u.fields

/-! ## resolver rules -/

/-- a name used as a type, at any type position and at any depth inside containers, that the file
does not define -/
theorem undefined_type_rejected (env : Env) (p : Program) (w : WF p) (hpp : env.parsePanics = false)
    (i : Nat) (f : File) (hr : Reach p i) (hf : p.files[i]? = some f) (tbl : Table) (ht : registerNames f = some tbl)
    (t : Ty) (hsite : TypeSite f t) (n a : Name) (hm : Mentions n t)
    (hs : splitType n = .one a) (hu : tlookup a tbl = none) : Rejected env p := by
  obtain ⟨tgt, hw⟩ := typeSite_work hsite
  exact anywhere_in_graph_resolve env p w hpp i hr
    (resolveFile_of_work hf ht hw (resolveType_mentions (badRef_undefined hs hu) hm tgt))

/-- `inc.Name` where no include called `inc` defines `Name` as a type (no such include, no such
name, or the name is a constant or a service there) -/
theorem undefined_qualified_type_rejected (env : Env) (p : Program) (w : WF p) (hpp : env.parsePanics = false)
    (i : Nat) (f : File) (hr : Reach p i) (hf : p.files[i]? = some f) (tbl : Table) (ht : registerNames f = some tbl)
    (t : Ty) (hsite : TypeSite f t) (n pre nm : Name) (hm : Mentions n t)
    (hs : splitType n = .two pre nm)
    (hu : ∀ v ∈ incViews (programTables p) f, v.pfx = pre → ∀ c, tlookup nm v.tbl = some c → isTypeCat cfg c = false) : Rejected env p := by
  obtain ⟨tgt, hw⟩ := typeSite_work hsite
  exact anywhere_in_graph_resolve env p w hpp i hr
    (resolveFile_of_work hf ht hw (resolveType_mentions (badRef_qualified hs hu) hm tgt))

/-- a constant or a service used as a type -/
theorem nontype_symbol_as_type_rejected (env : Env) (p : Program) (w : WF p) (hpp : env.parsePanics = false)
    (i : Nat) (f : File) (hr : Reach p i) (hf : p.files[i]? = some f) (tbl : Table) (ht : registerNames f = some tbl)
    (t : Ty) (hsite : TypeSite f t) (n a : Name) (hm : Mentions n t)
    (hs : splitType n = .one a) (c : Cat) (hc : c = .constant ∨ c = .service) (hu : tlookup a tbl = some c) : Rejected env p := by
  obtain ⟨tgt, hw⟩ := typeSite_work hsite
  have h3 : isTypeCat cfg c = false := by
    rcases hc with rfl | rfl
    · exact type_categories.2.2.2.2.2.1
    · exact type_categories.2.2.2.2.2.2
  exact anywhere_in_graph_resolve env p w hpp i hr
    (resolveFile_of_work hf ht hw (resolveType_mentions (badRef_nontype hs hu h3) hm tgt))

/-- `extends` naming something that is not a service of this file / of the include with that prefix -/
theorem unknown_base_service_rejected (env : Env) (p : Program) (w : WF p) (hpp : env.parsePanics = false)
    (i : Nat) (f : File) (hr : Reach p i) (hf : p.files[i]? = some f) (tbl : Table) (ht : registerNames f = some tbl)
    (s : Service) (hs : s ∈ f.services)
    (hb : (∃ a, splitType s.ext = .one a ∧ tlookup a tbl ≠ some .service) ∨
          (∃ pre nm, splitType s.ext = .two pre nm ∧
            ∀ v ∈ incViews (programTables p) f, v.pfx = pre → ∀ c, tlookup nm v.tbl = some c → (c == Cat.service) = false)) : Rejected env p := by
  have hbase : resolveBase tbl (incViews (programTables p) f) s = false := by
    rcases hb with ⟨a, h1, h2⟩ | ⟨pre, nm, h1, h2⟩
    · simp [resolveBase, h1, h2]
    · have := findExt_none (good := fun c => decide (c = Cat.service)) (incViews (programTables p) f) 0
        (fun v hv hp c hc => by simpa using h2 v hv hp c hc)
      simp [resolveBase, h1, this]
  exact anywhere_in_graph_resolve env p w hpp i hr (resolveFile_of_work hf ht (base_work hs) hbase)

/-- **typedef cycles of any length** (and any other knot): a non-empty set `C` of typedefs of one
file, each written as an alias of a member of `C`.  A cycle `A₁ → A₂ → … → Aₙ → A₁` is the case
`C = [k₁, …, kₙ]`; `n = 1` is `typedef A A`. -/
theorem typedef_cycle_rejected (env : Env) (p : Program) (w : WF p) (hpp : env.parsePanics = false)
    (i : Nat) (f : File) (hr : Reach p i) (hf : p.files[i]? = some f)
    (C : List Nat) (hk : TypedefKnot f C) : Rejected env p :=
  anywhere_in_graph_resolve env p w hpp i hr (resolveFile_of_knot type_categories.1 hf hk)

/-- a plain identifier (no dot, not true/false) in a constant or in the default of a struct-like
field, of an argument or of a throws entry (`IdentSite`) that is not a constant of the file -/
theorem undefined_const_rejected (env : Env) (p : Program) (w : WF p) (hpp : env.parsePanics = false)
    (i : Nat) (f : File) (hr : Reach p i) (hf : p.files[i]? = some f) (tbl : Table) (ht : registerNames f = some tbl)
    (ids : List Name) (hsite : IdentSite f ids) (a b : List Name) (id : Name) (hids : ids = a ++ id :: b)
    (hplain : splitValue id = [[id]]) (hnb : isBoolIdent id = false)
    (hu : tlookup id (tableOf (programTables p) i) ≠ some .constant) : Rejected env p := by
  refine anywhere_in_graph_resolve env p w hpp i hr (resolveFile_of_work hf ht (identSite_work hsite) ?_)
  have hid : resolveIdent cfg p (programTables p) (enumFuel p) i f id = .undefined := by
    simp [resolveIdent, hnb, countIdent, hplain, countSplit, hu, addCounts]
  subst hids
  exact resolveIdents_bad (by rw [hid]; simp) b a

/-- any identifier — dotted or not — for which the resolver finds no or more than one reading -/
theorem undefined_or_ambiguous_const_rejected (env : Env) (p : Program) (w : WF p) (hpp : env.parsePanics = false)
    (i : Nat) (f : File) (hr : Reach p i) (hf : p.files[i]? = some f) (tbl : Table) (ht : registerNames f = some tbl)
    (ids : List Name) (hsite : IdentSite f ids) (a b : List Name) (id : Name) (hids : ids = a ++ id :: b)
    (hbad : resolveIdent cfg p (programTables p) (enumFuel p) i f id = .undefined ∨
            resolveIdent cfg p (programTables p) (enumFuel p) i f id = .ambiguous) : Rejected env p := by
  refine anywhere_in_graph_resolve env p w hpp i hr (resolveFile_of_work hf ht (identSite_work hsite) ?_)
  subst hids
  exact resolveIdents_bad (by rcases hbad with h | h <;> rw [h] <;> simp) b a

/-! ## the include graph -/

/-- **include cycles of any length**, through the main file or not: some reachable file `i`
includes `k` and `k` leads back to `i` (`k = i`: a file including itself). -/
theorem include_cycle_rejected (env : Env) (p : Program) (w : WF p) (hpp : env.parsePanics = false)
    (i k : Nat) (hr : Reach p i) (e : Edge p i k) (hback : Path p k i) : Rejected env p :=
  run_reject_of_circle hpp (circleDetect_complete w hr e hback)

/-! ## stages abstracted by predicates: command line, syntax / missing include, backend constant typing -/

theorem abstract_stage_rejected (env : Env) (p : Program) (w : WF p)
    (h : env.flagsBad = true ∨
      (env.parsePanics = false ∧ env.syntaxBad = true) ∨
      (env.parsePanics = false ∧ env.backendPanics = false ∧ (env.targetsBad = true ∨ env.backendBad = true))) :
    Rejected env p := by
  rcases h with h | h | ⟨h1, h2, h3⟩
  · exact run_abstract (Or.inl h)
  · exact run_abstract (Or.inr (Or.inl h))
  · exact run_abstract (Or.inr (Or.inr ⟨h1, h2, h3, run_no_crash w⟩))

/-! ## nothing is written unless the run succeeds; no crash; no silent success -/

/-- **reject_writes_nothing**: Generator.Persist is reached only by an accepted run (Persist is the
last call of InvokeThriftgo: `pipeline_order`). -/
theorem reject_writes_nothing (env : Env) (p : Program) :
    ((run cfg env p).persisted = true ↔ (run cfg env p).outcome = .ok) ∧
    (∀ s, (run cfg env p).outcome = .reject s → (run cfg env p).persisted = false) := by
  refine ⟨run_persisted_iff cfg env p, fun s h => ?_⟩
  cases hp : (run cfg env p).persisted with
  | false => rfl
  | true => rw [(run_persisted_iff cfg env p).mp hp] at h; cases h

/-- **no_crash** (full since `fix: getEnum terminates on cyclic typedefs`): no run dies of a Go
fatal error.  No recursion of the pipeline is unbounded: DepthFirstSearch and CircleDetect
(pigeonhole on the visited set / the path), getEnum (pigeonhole on its `seen` set of typedef keys),
ResolveTypedefs (every round that goes on removes a pair). -/
theorem no_crash (env : Env) (p : Program) (w : WF p) : (run cfg env p).outcome ≠ .crash :=
  run_no_crash w

/-- **no_exit0_without_output_partial**: the only way to leave with status 0 and no output is a Go
panic reaching `main.handlePanic` while that function does not exit non-zero.  No modelled stage
produces such a panic; the parser (C03) and the backend are the predicates `parsePanics`,
`backendPanics`. -/
theorem no_exit0_without_output_partial (env : Env) (p : Program)
    (h : cfg.handlePanicExits = true ∨ (env.parsePanics = false ∧ env.backendPanics = false)) :
    (run cfg env p).outcome ≠ .exit0NoOutput := by
  intro he
  have := run_exit0 he
  rcases h with h | ⟨h1, h2⟩
  · rw [h] at this; exact absurd this.1 (by simp)
  · rcases this.2 with h' | h' <;> simp_all

/-- **no_exit0_without_output** (full since `fix: thriftgo exits non-zero after recovering from a
panic`): `handlePanic` now leaves with a non-zero status — regenerated fact, re-checked on every run —
so no run at all, whatever panics in the parser or the backend, exits 0 without its output. -/
theorem no_exit0_without_output (env : Env) (p : Program) : (run cfg env p).outcome ≠ .exit0NoOutput :=
  no_exit0_without_output_partial env p (Or.inl (by decide))

/-! ## regression items: the inputs on which the property was false before the repairs -/

private def env0 : Env := ⟨false, false, false, false, false, false⟩
private def file0 : File := ⟨[109], [], [], [], [], [], [], [], []⟩

/-- `union U { 1: i32 a = 1, 2: i32 b = 2 }` (was accepted) -/
def unionRegression : Program :=
  ⟨[{ file0 with unions := [⟨[85], [⟨1, [97], .base, true, []⟩, ⟨2, [98], .base, true, []⟩]⟩] }], 0⟩

theorem union_second_default_regression : (run cfg env0 unionRegression).outcome = .reject .check := by decide

/-- `typedef B A  typedef A B  const i32 x = A.foo` (getEnum overflowed the stack) -/
def typedefCycleIdentRegression : Program :=
  ⟨[{ file0 with typedefs := [⟨[65], .ref [66]⟩, ⟨[66], .ref [65]⟩], consts := [⟨[120], .base, [[65, 46, 102]]⟩] }], 0⟩

theorem typedef_cycle_ident_regression : (run cfg env0 typedefCycleIdentRegression).outcome = .reject .resolve := by decide

/-- `service S { void f(1: i32 a, 1: i32 a) throws (1: … e, 1: … e) }` (was accepted) -/
def dupArgRegression : Program :=
  ⟨[{ file0 with services := [⟨[83], [], [⟨[102], false, true, .base,
      [⟨1, [97], .base, false, []⟩, ⟨1, [97], .base, false, []⟩],
      [⟨1, [101], .base, false, []⟩, ⟨1, [101], .base, false, []⟩]⟩]⟩] }], 0⟩

theorem dup_argument_regression : (run cfg env0 dupArgRegression).outcome = .reject .check := by decide

/-- `service S { void f(1: i32 a = NoSuchConst) }` (the default was never resolved; the backend died of a nil dereference) -/
def argDefaultRegression : Program :=
  ⟨[{ file0 with services := [⟨[83], [], [⟨[102], false, true, .base,
      [⟨1, [97], .base, true, [[78, 111]]⟩], []⟩]⟩] }], 0⟩

theorem argument_default_regression : (run cfg env0 argDefaultRegression).outcome = .reject .resolve := by decide

/-- `i32 g() throws (1: … success)` and `i32 h() throws (0: … e)` are rejected; the same members in a
void function and in an argument list stay accepted -/
def successThrowsRegression (void : Bool) (id : Int) (nm : Name) : Program :=
  ⟨[{ file0 with services := [⟨[83], [], [⟨[103], false, void, .base, [⟨0, successName, .base, false, []⟩],
      [⟨id, nm, .base, false, []⟩]⟩]⟩] }], 0⟩

theorem throws_reuses_success_regression :
    (run cfg env0 (successThrowsRegression false 1 successName)).outcome = .reject .check ∧
    (run cfg env0 (successThrowsRegression false 0 [101])).outcome = .reject .check ∧
    (run cfg env0 (successThrowsRegression true 1 successName)).outcome = .ok ∧
    (run cfg env0 (successThrowsRegression true 0 [101])).outcome = .ok ∧
    (run cfg env0 (successThrowsRegression false 1 [101])).outcome = .ok := by decide

/-- `m: include "a.b.thrift" include "a.thrift" const i32 x = a.b.c`, `a.b.thrift: const i32 c = 1`,
`a.thrift: enum b { c }` — the identifier has two readings (constant `c` of include `a.b`, value `c` of
enum `b` of include `a`): both are counted, whatever reading comes first (seeded change C04-m4 stopped
after the first reading that resolved). -/
def ambiguousMain : File :=
  { file0 with
      includes := [⟨[97, 46, 98, 46, 116, 104, 114, 105, 102, 116], 1⟩, ⟨[97, 46, 116, 104, 114, 105, 102, 116], 2⟩],
      consts := [⟨[120], .base, [[97, 46, 98, 46, 99]]⟩] }

def ambiguousDottedInclude : Program :=
  ⟨[ambiguousMain,
    { file0 with filename := [97, 46, 98], consts := [⟨[99], .base, []⟩] },
    { file0 with filename := [97], enums := [⟨[98], [([99], 0)]⟩] }], 0⟩

theorem ambiguous_dotted_include_regression :
    resolveIdent cfg ambiguousDottedInclude (programTables ambiguousDottedInclude) (enumFuel ambiguousDottedInclude) 0
      ambiguousMain [97, 46, 98, 46, 99] = .ambiguous ∧
    (run cfg env0 ambiguousDottedInclude).outcome = .reject .resolve := by decide

/-! ## the hypotheses are satisfiable -/

example : WF typedefCycleIdentRegression := (wfb_iff _).mp (by decide)
example : TypedefKnot ⟨[109], [], [⟨[65], .ref [66]⟩, ⟨[66], .ref [67]⟩, ⟨[67], .ref [65]⟩], [], [], [], [], [], []⟩ [0, 1, 2] :=
  ⟨by decide, fun k hk => by
    simp only [List.mem_cons, List.not_mem_nil, or_false] at hk
    rcases hk with rfl | rfl | rfl
    · exact ⟨_, [66], rfl, rfl, by decide, 1, by decide, by decide⟩
    · exact ⟨_, [67], rfl, rfl, by decide, 2, by decide, by decide⟩
    · exact ⟨_, [65], rfl, rfl, by decide, 0, by decide, by decide⟩⟩
example : Reach typedefCycleIdentRegression 0 := .refl 0

end Props.C04
