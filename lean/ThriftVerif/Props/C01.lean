/- C01 property theorems (stub: not built yet) -/
