/-
  C01 — every accepted IDL yields Go code that compiles (DESIGN.md §5.1).

  What is proved here is the part of C01 a theorem can carry: the identifiers thriftgo's namespaces hand out
  (package level, struct members, method parameters) and the import table, for EVERY naming style (`ident` is
  universally quantified) and every program.  That the template TEXT around those identifiers is well-typed Go is
  outside Lean: the Go toolchain (go/parser, go build, go vet) is the oracle of checks/c01.py.
-/
import ThriftVerif.Lib.NamesLemmas
import ThriftVerif.Generated.C01

namespace Props.C01
open Names

/-- `Add` never returns a name that is bound to a different id. -/
theorem ns_add_fresh (rn : Bytes → Nat → Bytes) (ns ns' : NS) (name id res : Bytes)
    (h : ns.add rn name id = .ok (res, ns')) :
    (∀ id', lk res ns.n2i = some id' → id' = id) ∧ lk res ns'.n2i = some id ∧ lk id ns'.i2n = some res :=
  Names.add_fresh rn ns ns' name id res h

/-- After any history of Add / Reserve (any rename function) the id→name table is injective, and ID ∘ Get is the
    identity on live ids. -/
theorem ns_inj (rn : Bytes → Nat → Bytes) (ops : List Op) (ns : NS) (tr : List (Bytes × Bytes))
    (h : runOps rn NS.empty ops = .ok (ns, tr)) :
    (∀ i1 i2 n, lk i1 ns.i2n = some n → lk i2 ns.i2n = some n → i1 = i2) ∧
    (∀ id n, lk id ns.i2n = some n → ns.idOf (ns.get id) = id) :=
  Names.runOps_inj rn ops ns tr h

/-- In any history the relation name ↦ id is functional: a name is never handed out for two different ids;
    hence distinct ids get distinct names. -/
theorem ns_names_distinct (rn : Bytes → Nat → Bytes) (ops : List Op) (ns : NS) (tr : List (Bytes × Bytes))
    (h : runOps rn NS.empty ops = .ok (ns, tr)) :
    (∀ n i j, (n, i) ∈ tr → (n, j) ∈ tr → i = j) ∧ ((ops.map Op.id).Nodup → (tr.map (·.1)).Nodup) :=
  Names.runOps_distinct rn ops ns tr h

/-- For EVERY naming function: the package-level identifiers bound by installNames are pairwise distinct, provided
    the ids they are bound under are (raw definition names are unique by semantic.CheckGlobals; the synthesized
    `<fn>_args` / `<fn>_result` ids are NOT service-qualified in buildStructLike, so the hypothesis also asks for
    function names that are unique in the file — see docs/C01.md). -/
theorem scope_globals_nodup (ft : Feat) (kw : List Bytes) (f : File) (ident : Bytes → Bytes) (s : ScopeNames)
    (h : buildScope ft kw f ident = .ok s) (hid : (globalIds ft ident f).Nodup) :
    (declaredGlobals s).Nodup :=
  Names.buildScope_nodup ft kw f ident s h hid

example : ∃ (f : File), f.structs ≠ [] ∧ (globalIds {} id f).Nodup :=
  ⟨{ structs := [{ name := [83], cat := .struct, fields := [] }] }, by decide, by decide⟩

/-- Method names and field names handed out by the namespace of one struct-like are pairwise distinct
    (field names and field ids are unique by semantic.CheckStructLikes; that is what `memberIds … Nodup` says).
    `hraw`: field names are IDL identifiers, so they do not start with '$' (the prefix of the internal method ids);
    without it the statement is false on the model: with gen_setter off, a field literally named `$set:x` next to
    a field `x` is read back as the "setter" of `x` by `scope.Get("$set:x")`. -/
theorem struct_members_nodup (ft : Feat) (ident : Bytes → Bytes) (raw : Bytes) (goName : Bytes) (cat : Cat)
    (fields : List Fld)
    (ns : NS) (fs : List FieldNames) (h : buildMembers ft ident raw goName cat fields = .ok (ns, fs))
    (hid : (memberIds ft ident raw goName cat fields).Nodup)
    (hraw : ∀ f ∈ fields, hasDollar f.name = false) :
    (reservedFuncs ft cat raw goName ++ fs.flatMap fieldMethodNames ++ fs.map (·.name)).Nodup :=
  Names.buildMembers_nodup ft ident raw goName cat fields ns fs h hid hraw

/-- the hypotheses are satisfiable: `struct S {1: i32 a, -2: optional i32 b}` with setters and DeepEqual -/
example : (memberIds { setter := true, deq := true, resV2 := true } id [83] [83] .struct
      [{ name := [97], id := 1, isset := false }, { name := [98], id := -2, isset := true }]).Nodup ∧
    (∀ f ∈ ([{ name := [97], id := 1, isset := false }, { name := [98], id := -2, isset := true }] : List Fld),
      hasDollar f.name = false) := by
  decide

/-- Parameter names are pairwise distinct, differ from the names the templates use in a method body
    (`p, err, ctx` and, for non-void functions, `r, _result`) and are not keywords (of the table in types.go). -/
theorem func_params_safe (ft : Feat) (ident : Bytes → Bytes) (kw : List Bytes) (f : Fn) (ns : NS)
    (h : buildFunction ft ident kw f = .ok ns)
    (hargs : ((f.args ++ f.throws).map (·.name)).Nodup)
    (hraw : ∀ a ∈ f.args ++ f.throws, hasDollar a.name = false)
    (hkw : ∀ k ∈ kw, 95 ∉ k) :
    let ps := f.args.map (fun a => ns.get a.name)
    ps.Nodup ∧ (∀ p ∈ ps, p ∉ fnReserved ft f.void) ∧ (∀ p ∈ ps, p ∉ kw) :=
  Names.buildFunction_safe ft ident kw f ns h hargs hraw hkw

/-- the hypotheses are satisfiable: `void f(1: i32 type, 2: i32 p) throws (1: X e)` with the regenerated keyword table -/
example : ∃ ns, buildFunction {} id Generated.C01.isKeywords
      { name := [102], oneway := false, void := true,
        args := [{ name := [116, 121, 112, 101], id := 1, isset := false }, { name := [112], id := 2, isset := false }],
        throws := [{ name := [101], id := 1, isset := true }] } = .ok ns := ⟨_, rfl⟩

/-- the regenerated keyword table of types.go covers the keywords of the Go toolchain, and no keyword has a '_' -/
theorem keywords_cover :
    (∀ k ∈ Generated.C01.goKeywords, k ∈ Generated.C01.isKeywords) ∧ (∀ k ∈ Generated.C01.isKeywords, 95 ∉ k) := by
  decide

/-- ResolveImports returns exactly: every alias ever bound (std libs at init, includes of other go namespaces)
    except the std libs on which UseStdLibrary was NOT called; aliases are pairwise distinct. -/
theorem imports_exact (std repl : Table) (incs : List (Bytes × Bytes × Bool)) (libs : List Bytes)
    (im0 im1 : ImportMgr) (pkgs : List Bytes)
    (h0 : ImportMgr.init std repl = .ok im0) (h1 : includeLoop im0 incs = .ok (im1, pkgs)) :
    let im2 := im1.useStd libs
    (∀ path a, (path, a) ∈ im2.resolve ↔
        ∃ alias, (alias, path) ∈ im1.ns.n2i ∧ ¬ (alias ∈ im1.notUsed ∧ alias ∉ libs) ∧
          a = (if alias = path || isSuffix (47 :: alias) path then [] else alias)) ∧
    (im1.ns.n2i.map (·.1)).Nodup ∧
    (∀ l, l ∈ im1.notUsed → l ∈ std.map (·.1)) :=
  Names.imports_exact std repl incs libs im0 im1 pkgs h0 h1

/-
  FULL STATEMENT (false on the model and on the code — see the witness below):
    buildScope ft kw f ident = .ok s → (globalIds ft ident f).Nodup → (fileGlobals ft s).Nodup
  i.e. "no package-level identifier is declared twice".  The templates mint identifiers outside the namespace
  (`<T>_<F>_DEFAULT`, `<Enum>_<Value>`, `<Enum>FromString`, `<Enum>Ptr`, `New<Svc>Client…`, `<svc>Processor<Fn>`).
-/
/-- partial: under the decidable hypothesis `noMintClash` every package-level identifier of the generated file is
    declared once. -/
theorem scope_globals_complete_partial (ft : Feat) (kw : List Bytes) (f : File) (ident : Bytes → Bytes)
    (s : ScopeNames) (h : buildScope ft kw f ident = .ok s) (hid : (globalIds ft ident f).Nodup)
    (hm : noMintClash ft s = true) : (fileGlobals ft s).Nodup :=
  Names.fileGlobals_nodup ft kw f ident s h hid hm

/-- `noMintClash` is satisfiable: `enum A {B}` + `struct S {}` -/
example : ∃ s, buildScope {} [] { structs := [{ name := [83], cat := .struct, fields := [] }],
                                  enums := [{ name := [65], values := [[66]] }] } id = .ok s ∧ noMintClash {} s = true :=
  ⟨_, rfl, by decide⟩

/-- the thriftgo naming style on the two names of the witness: `a__b` ↦ `A_B`, `A` ↦ `A` -/
def witnessIdent (raw : Bytes) : Bytes := if raw = [97, 95, 95, 98] then [65, 95, 66] else raw

def witnessFile : File :=
  { structs := [{ name := [97, 95, 95, 98], cat := .struct, fields := [] }],
    enums := [{ name := [65], values := [[66]] }] }

/-- `noMintClash` cannot be discharged for the shipped styles: `enum A {B}` + `struct a__b {}` under the default
    style declares `A_B` twice (replayed on the implementation by checks/c01.py, unit `X1`). -/
theorem mint_clash_witness :
    ∃ s, buildScope {} [] witnessFile witnessIdent = .ok s ∧ noMintClash {} s = false ∧
      ¬ (fileGlobals {} s).Nodup :=
  Names.mint_clash_witness_proof

/-- members: with the minted method names (`InitDefault`, `CountSetFields<T>`, fastgo's `BLength` …) kept apart by
    the decidable hypothesis `noMemberMintClash`, every member of the generated struct is declared once. -/
theorem struct_members_complete_partial (ft : Feat) (ident : Bytes → Bytes) (g g' : NS) (v : SL) (nn : Bytes)
    (s : StructNames) (synth : Bool) (h : buildStructLike ft ident g v nn = .ok (g', s))
    (hid : (memberIds ft ident v.name s.goName v.cat v.fields).Nodup)
    (hraw : ∀ f ∈ v.fields, hasDollar f.name = false)
    (hm : noMemberMintClash ft synth s = true) : (managedMembers ft s ++ mintedMembers ft synth s).Nodup :=
  Names.members_complete ft ident g g' v nn s synth h hid hraw hm

end Props.C01
