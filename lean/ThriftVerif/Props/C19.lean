/-
  C19 — concurrent persist: all files written or an error, under every schedule.

  Property theorems about the LTS `AsyncPP.step F cfg` (Lib/AsyncPP.lean) instantiated with the
  skeleton facts extracted from the working tree (`Generated.C19.facts`).  Every theorem is for
  every job list, every concurrency, every failure oracle (`cfg`), and every reachable state,
  i.e. every schedule — no bound.  Helper lemmas and the inductive invariant: Lib/AsyncPPLemmas.lean.
-/
import ThriftVerif.Lib.AsyncPPLemmas
import ThriftVerif.Generated.C19

namespace Props.C19
open AsyncPP

abbrev F : Facts := Generated.C19.facts

/-- the skeleton extracted from the working tree (channel capacities, select cases, `wg.Wait()`
    before the early return, `wg.Add` before `go`, order of the worker's operations incl. deferred
    `wg.Done(); <-processing`, final `wg.Wait()` then non-blocking receive) is the one the proofs use -/
theorem facts_match : Generated.C19.facts = AsyncPP.expected := by decide

/-- the inductive invariant: `processing` = #workers that have not released (+1 while the dispatcher
    holds a fresh token), `wg` = #workers before `wg.Done()` (+1 between Add and go),
    `|errs| + #workers that may still send ≤ #dispatched ≤ N`, every worker is in one of the phases of
    the code with its own path/content, errors in `errs` are genuine and none is lost, … -/
theorem inv (cfg : Cfg) (s : State) (h : Reach F cfg s) : Inv cfg s := by
  rw [show F = expected from facts_match] at h; exact reach_inv h

/-- `wg.Done()` never drives the WaitGroup counter negative -/
theorem no_panic (cfg : Cfg) (s : State) (h : Reach F cfg s) : s.panicked = false :=
  (inv cfg s h).noPanic

/-- every reachable state in which the call has not both returned and seen all its goroutines exit
    has an enabled transition: workers never block (`errs` has room, they hold a token), the dispatcher
    blocks only while some worker still runs -/
theorem no_deadlock (cfg : Cfg) (s : State) (h : Reach F cfg s) (hnf : s.final = false) :
    ∃ l s', step F cfg s l = some s' := by
  have := no_deadlock_inv (inv cfg s h) hnf
  rwa [show F = expected from facts_match]

/-- every transition strictly decreases `variant` — under any schedule, fair or not -/
theorem termination (cfg : Cfg) (s s' : State) (l : Label) (h : Reach F cfg s)
    (hs : step F cfg s l = some s') : variant cfg s' < variant cfg s := by
  have I := inv cfg s h
  rw [show F = expected from facts_match] at hs
  exact variant_decreases I hs

/-- hence every execution from the initial state has at most `10·N + 4` transitions; together with
    `no_deadlock`: every maximal execution ends in a final state (returned, all goroutines exited) -/
theorem terminates_within (cfg : Cfg) (ls : List Label) (s : State) (hp : Path F cfg init ls s) :
    ls.length ≤ 10 * cfg.jobs.length + 4 := by
  rw [show F = expected from facts_match] at hp
  have := path_length hp Reach.init
  simp [variant, init, rank, sumW] at this
  omega

/-- once the return value is set, every spawned worker is past `wg.Done()`: no PostProcess or write
    of this call is in flight (it may still be before `<-processing`, which performs no I/O) -/
theorem return_means_quiescent (cfg : Cfg) (s : State) (h : Reach F cfg s) (hr : s.ret ≠ none) :
    ∀ w ∈ s.workers, w.quiescent = true :=
  fun _ hw => quiescent_of_returned (inv cfg s h) hr hw

/-- `nil` is returned only if all jobs were dispatched, none failed at any stage, and every job was
    written under its own path with its own post-processed content -/
theorem success_means_all_written (cfg : Cfg) (s : State) (h : Reach F cfg s) (hr : s.ret = some none) :
    s.idx = cfg.jobs.length ∧ (∀ k, k < cfg.jobs.length → cfg.jobFails k = false) ∧
    ∀ k p c, cfg.jobs[k]? = some (p, c) → (k, p, cfg.ppf p c) ∈ s.written :=
  have I := inv cfg s h
  ⟨(nil_no_failure I hr).1, (nil_no_failure I hr).2, fun _ _ _ hj => nil_written I hr hj⟩

/-- … and the list of writes is exactly a permutation of the job list (each exactly once) -/
theorem success_written_perm (cfg : Cfg) (s : State) (h : Reach F cfg s) (hr : s.ret = some none) :
    (s.written.map (·.2)).Perm (cfg.jobs.map (fun j => (j.1, cfg.ppf j.1 j.2))) :=
  written_perm (inv cfg s h) hr

/-- if any stage of any dispatched job fails, the return value is an error (errors are never lost) -/
theorem failure_reported (cfg : Cfg) (s : State) (h : Reach F cfg s) (r : Option Nat) (hr : s.ret = some r)
    (hf : ∃ k, k < s.idx ∧ cfg.jobFails k = true) : ∃ e, r = some e ∧ cfg.jobFails e = true := by
  have I := inv cfg s h
  cases r with
  | some e => exact ⟨e, rfl, (I.retErr e hr).2⟩
  | none =>
    obtain ⟨k, hk, hkf⟩ := hf
    have := nil_no_failure I hr
    rw [this.2 k (by omega)] at hkf
    contradiction

/-- a returned error is the error of a dispatched job that did fail -/
theorem returned_error_genuine (cfg : Cfg) (s : State) (h : Reach F cfg s) (e : Nat)
    (hr : s.ret = some (some e)) : e < s.idx ∧ cfg.jobFails e = true :=
  (inv cfg s h).retErr e hr

/-- no job is written twice -/
theorem no_double_write (cfg : Cfg) (s : State) (h : Reach F cfg s) : (s.written.map (·.1)).Nodup :=
  (inv cfg s h).wrNodup

/-- every write carries the job's own path and its own (post-processed) content — in every state,
    also on the error paths -/
theorem written_own_content (cfg : Cfg) (s : State) (h : Reach F cfg s) :
    ∀ x ∈ s.written, ∃ c0, cfg.jobs[x.1]? = some (x.2.1, c0) ∧ x.2.2 = cfg.ppf x.2.1 c0 :=
  (inv cfg s h).wrOwn

/-- at most `concurrency` (≥ 1) tokens are ever held -/
theorem semaphore_bound (cfg : Cfg) (s : State) (h : Reach F cfg s) :
    s.processing ≤ conc F cfg ∧ 1 ≤ conc F cfg := by
  rw [show F = expected from facts_match] at h ⊢
  exact ⟨reach_processing_le h, conc_pos cfg⟩

/-! the hypotheses are satisfiable: a run that returns nil with everything written, and a run in
    which a failing job's error is returned -/

def cfgOk : Cfg := { jobs := [([97], [1]), ([98], [2])], conc := 1, failPP := fun _ => false,
                     failWr := fun _ => false, ppf := fun p c => c ++ p }
def cfgBad : Cfg := { cfgOk with failWr := fun k => k == 1 }

def runOk : List Label :=
  [.acquire, .add, .spawn, .work 0, .work 0, .work 0, .work 0, .acquire, .add, .spawn,
   .work 1, .work 1, .work 1, .work 1, .finalWait, .finalRecv]
def runBad : List Label :=
  [.acquire, .add, .spawn, .work 0, .work 0, .work 0, .work 0, .acquire, .add, .spawn,
   .work 1, .work 1, .work 1, .work 1, .work 1, .finalWait, .finalRecv]

example : ∃ s, Reach F cfgOk s ∧ s.ret = some none ∧ s.final = true ∧ s.written.length = 2 := by
  refine ⟨(runLabels F cfgOk init runOk).get (by decide), runLabels_reach Reach.init (Option.some_get _).symm, ?_⟩
  decide

example : ∃ s, Reach F cfgBad s ∧ s.ret = some (some 1) ∧ s.final = true ∧ s.written.length = 1 := by
  refine ⟨(runLabels F cfgBad init runBad).get (by decide), runLabels_reach Reach.init (Option.some_get _).symm, ?_⟩
  decide

end Props.C19
