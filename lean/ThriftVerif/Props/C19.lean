/- C19 property theorems (stub: not built yet) -/
