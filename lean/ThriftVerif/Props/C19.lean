/- C19 property theorems -/
import ThriftVerif.Lib.AsyncPP
import ThriftVerif.Generated.C19

namespace Props.C19
open AsyncPP

/-- the skeleton extracted from the working tree is the one the proofs are about -/
theorem facts_match : Generated.C19.facts = AsyncPP.expected := by decide

end Props.C19
