/- C02 property theorems (stub: not built yet) -/
