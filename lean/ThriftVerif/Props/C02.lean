import ThriftVerif.Gen.Std
import ThriftVerif.Gen.StdLemmas
import ThriftVerif.Gen.SchemaCheck
import ThriftVerif.Core.WireLemmas
import ThriftVerif.Generated.C02
/-
  C02 — generated Read/Write implement the Thrift wire format of the IDL.
  Property theorems over `Gen.Std` (the model of the default go templates) and `Core.Wire`.
  `WT` = the Go object is one a Go program can hold for that IDL type; `SchemaOK` = what the semantic
  checker guarantees (distinct field ids, union members optional) plus two explicit exclusions
  (optional fields with a default have a base type; such a default is not NaN).
-/
namespace Props.C02
open Wire Gen Gen.Std

/-- regenerated obligation: for every IDL category, the TType constant the templates emit in
`WriteFieldBegin` / compare in `Read` (extracted from /repo on every run) is the wire type the model
(and the Thrift specification) assigns to that category: enum → i32, binary → string, struct-likes → struct. -/
theorem typeid_table_sound :
    Generated.C02.typeIdTable =
      [("bool", Ty.bool.ttype.code), ("byte", Ty.i8.ttype.code), ("i16", Ty.i16.ttype.code),
       ("i32", Ty.i32.ttype.code), ("i64", Ty.i64.ttype.code), ("double", Ty.dbl.ttype.code),
       ("string", Ty.str.ttype.code), ("binary", Ty.bin.ttype.code), ("enum", Ty.enum.ttype.code),
       ("list", (Ty.list .bool).ttype.code), ("set", (Ty.set .bool).ttype.code),
       ("map", (Ty.map .bool .bool).ttype.code), ("struct", (Ty.struct 0).ttype.code),
       ("union", (Ty.struct 0).ttype.code), ("exception", (Ty.struct 0).ttype.code)] := by
  decide

/-- the binary protocol round trip, untyped: every well-formed wire value decodes from its encoding
(any trailing bytes untouched), at any fuel ≥ its depth. -/
theorem wire_roundtrip (w : WVal) (f : Nat) (r : Bytes) (h : WF w) (hd : w.depth ≤ f) :
    decW f w.ttype (encW w ++ r) = some (w, r) := decW_encW w f r h hd

/-- **Write emits a well-formed encoding of the right shape**: whatever a generated `Write` emits for
a well-typed object is the encoding of a well-formed struct value — every container header count equals
the number of elements that follow, every field carries the wire type of its IDL type — and a strict
untyped decoder reads exactly that value back with nothing left over. -/
theorem write_wellformed (P : Prog) (sidx : Nat) (obj : GoVal) (bs : Bytes)
    (hwt : WT P.structs (.struct sidx) obj) (h : write P sidx obj = .ok bs) :
    ∃ w, toW P (.struct sidx) obj = .ok w ∧ WF w ∧ w.ttype = .struct ∧ bs = encW w ∧
      decW w.depth .struct bs = some (w, []) := by
  simp only [write, Res.bind_eq_ok] at h
  obtain ⟨w, hw, hb⟩ := h
  cases hb
  obtain ⟨hwf, htt⟩ := toW_WF P obj (.struct sidx) w hwt hw
  refine ⟨w, hw, hwf, htt, rfl, ?_⟩
  have := decW_encW w w.depth [] hwf (Nat.le_refl _)
  rw [htt] at this
  simpa [Ty.ttype] using this

/-- **Read ∘ Write preserves the value**: for every schema the checker accepts, every struct-like and
every well-typed object, the generated `Read` accepts the bytes the generated `Write` produced, and
the object it builds encodes (set-uniqueness validation aside) to exactly the same bytes: field ids,
wire types, optional-present-iff-set, required/default always present, nested containers, all
preserved. Unbounded in nesting depth, container sizes and number of fields. -/
theorem read_write_roundtrip (P : Prog) (hP : SchemaOK P) (sidx : Nat) (obj : GoVal) (bs : Bytes)
    (hwt : WT P.structs (.struct sidx) obj) (h : write P sidx obj = .ok bs) :
    ∃ obj', read P sidx bs = some obj' ∧ write (noVal P) sidx obj' = .ok bs := by
  simp only [write, Res.bind_eq_ok] at h
  obtain ⟨w, hw, hb⟩ := h
  cases hb
  have hw0 := toW_noVal P obj (.struct sidx) w hw
  have hd : w.depth ≤ (encW w).length + 1 := by have := depth_le_len w; omega
  obtain ⟨v', hr, ht, _, _⟩ := rt (noVal P) hP rfl obj (.struct sidx) w ((encW w).length + 1) [] hwt hw0 hd
  refine ⟨v', ?_, ?_⟩
  · unfold Gen.Std.read
    simp only [List.append_nil] at hr
    have : (noVal P).structs = P.structs := rfl
    rw [this] at hr
    simp [hr]
  · simp [write, ht, bind]

/-- **Read skips unknown field ids** wherever they occur: at any state of the Read loop (i.e. at any
position of the field stream), a well-formed field (depth ≤ 64, the protocol's Skip limit) whose id is
not in the schema is consumed without changing the object under construction or the required-field
bookkeeping. -/
theorem read_skips_unknown (rd : Ty → Bytes → Option (GoVal × Bytes)) (defs : List FieldDef) (g id : Nat)
    (u : WVal) (rest : Bytes) (cur : List GoVal) (seen : List Bool) (hid : id < 256 ^ 2)
    (hnf : findField defs id = none) (hwf : WF u) (hd : u.depth ≤ 64) :
    readFieldsWith rd defs (g + 1) (u.ttype.code :: (be 2 id ++ (encW u ++ rest))) cur seen =
      readFieldsWith rd defs g rest cur seen :=
  read_step_unknown rd defs g id u rest cur seen hid hnf hwf hd

/-- **Read skips a known id carrying a different wire type** (retagged field), leaving that field at
its initial value and everything else undisturbed. -/
theorem read_retag_skips (rd : Ty → Bytes → Option (GoVal × Bytes)) (defs : List FieldDef) (g id j : Nat)
    (f : FieldDef) (u : WVal) (rest : Bytes) (cur : List GoVal) (seen : List Bool) (hid : id < 256 ^ 2)
    (hf : findField defs id = some (j, f)) (hne : f.ty.ttype.code ≠ u.ttype.code) (hwf : WF u) (hd : u.depth ≤ 64) :
    readFieldsWith rd defs (g + 1) (u.ttype.code :: (be 2 id ++ (encW u ++ rest))) cur seen =
      readFieldsWith rd defs g rest cur seen :=
  read_step_mistyped rd defs g id j f u rest cur seen hid hf hne hwf hd

/-- **Unknown fields anywhere do not disturb Read** (the schema-evolution core shared with C09):
for every accepted schema, every struct-like and every well-typed object with written fields `ws`,
there is ONE object that the generated Read produces from `ws` interleaved with any number of
unknown-id fields at any positions (each well-formed, nesting ≤ 64) — in particular the same object
as from the undisturbed encoding — and that object re-encodes to exactly `ws`. -/
theorem read_skips_unknown_anywhere (P : Prog) (hP : SchemaOK P) (hv : P.validateSet = false) (i : Nat)
    (sd : StructDef) (fs : List GoVal) (ws : List (Nat × WVal)) (f : Nat) (hsd : P.structs[i]? = some sd)
    (hwt : WTFields P.structs sd.fields fs) (hw : toWFields P sd.fields fs = .ok ws) (hd : depthFields ws ≤ f) :
    ∃ fs', toWFields P sd.fields fs' = .ok ws ∧
      ∀ (ms : List (Nat × WVal)) (r : Bytes), Mixed sd.fields ws ms →
        readTy P.structs (f + 1) (.struct i) (encFields ms ++ 0 :: r) = some (.strct fs', r) ∧
        readTy P.structs (f + 1) (.struct i) (encFields ws ++ 0 :: r) = some (.strct fs', r) := by
  obtain ⟨fs', h1, h2⟩ := struct_read_mixed P hP hv i sd fs ws f hsd hwt hw hd
  exact ⟨fs', h1, fun ms r hm => ⟨h2 ms r hm, h2 ws r (Mixed.refl _ ws)⟩⟩

/-- **Read fails when a required field is absent**: at STOP the loop succeeds iff every required
field's isset flag is up (and a flag is only ever raised by reading that field with its own type). -/
theorem read_required_missing (rd : Ty → Bytes → Option (GoVal × Bytes)) (defs : List FieldDef) (g : Nat)
    (r : Bytes) (cur : List GoVal) (seen : List Bool) :
    readFieldsWith rd defs (g + 1) (0 :: r) cur seen = (if requiredOk defs seen then some (cur, r) else none) := by
  simp [readFieldsWith]

/-- a union is written only when exactly one member is set -/
theorem union_write_refuses (P : Prog) (sidx : Nat) (sd : StructDef) (fs : List GoVal) (bs : Bytes)
    (hsd : P.struct? sidx = some sd) (hu : sd.kind = 1) (h : write P sidx (.strct fs) = .ok bs) :
    countSet sd.fields fs = 1 := by
  simp only [write, Res.bind_eq_ok, toW, hsd] at h
  obtain ⟨w, hw, _⟩ := h
  split at hw
  · cases hw
  · rename_i hc
    simp [hu] at hc
    exact hc

/-- presentation-only options cannot change a wire byte: the model's `write`/`read` depend on the
program only through its schema and the two semantic switches (`keep_unknown_fields`,
`validate_set`); the tie to the code for every other option is the correspondence run. -/
theorem presentation_options_irrelevant (P Q : Prog) (h1 : P.structs = Q.structs) (h2 : P.keepUnknown = Q.keepUnknown)
    (h3 : P.validateSet = Q.validateSet) : P = Q := by
  cases P; cases Q; simp_all

/- non-vacuity: a concrete schema satisfies SchemaOK and a concrete object is well-typed and written -/
def exProg : Prog := { structs := [{ kind := 0, fields := [
  { id := 1, req := .required, ty := .i32, dflt := none },
  { id := 2, req := .optional, ty := .str, dflt := some (.bytes [104, 105]) },
  { id := 3, req := .default, ty := .list .i64, dflt := none }] }] }

example : write exProg 0 (.strct [.int 5, .bytes [97], .list [.int 7]]) =
    .ok [8, 0, 1, 0, 0, 0, 5, 11, 0, 2, 0, 0, 0, 1, 97, 15, 0, 3, 10, 0, 0, 0, 1, 0, 0, 0, 0, 0, 0, 0, 7, 0] := by
  rfl

end Props.C02

namespace Props.C02
open Gen Gen.Std
/- non-vacuity of the round-trip theorem's premises: the example schema is accepted by the checker -/
example : SchemaOK exProg := schemaOkB_sound exProg (by decide)
end Props.C02
