/- C03 property theorems (stub: not built yet) -/
