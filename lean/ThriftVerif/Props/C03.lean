import ThriftVerif.Lib.PegLemmas
import ThriftVerif.Lib.WalkerLemmas
import ThriftVerif.Lib.PegTree
import ThriftVerif.Lib.WalkerSafe
import ThriftVerif.Lib.WalkerLayout
import ThriftVerif.Lib.PegTokens
import ThriftVerif.Generated.C03Grammar
/-
  C03 — the parser is total and the AST is faithful to the source text.  Property theorems only
  (helper lemmas: Lib/PegLemmas.lean, Lib/WalkerLemmas.lean).  `G`, `ids` are regenerated from parser/thrift.peg.
-/
namespace Props.C03
open Peg Walker

abbrev G := Generated.C03.grammar
abbrev ids := Generated.C03.ids

/-- ASCII text as runes, for the witnesses below -/
def txt (s : String) : List Nat := s.toList.map Char.toNat

/-! ## the generated parser terminates -/

/-- The grammar regenerated from parser/thrift.peg has no left recursion (the rank table strictly decreases along
every call in head position), no `*`/`+` over an expression that can succeed on the empty string, calls only
existing rules, and the nullable table is closed. -/
theorem grammar_wf : wf G Generated.C03.nul Generated.C03.rank = true := by decide

/-- For every well-formed grammar and every input, the matcher stops with `ok` or `fail`: the fuel
`(|input|+1)·(rules+2)·(maxsize+2)+1` is never exhausted. -/
theorem peg_total (g : Grammar) (nul : List Bool) (rank : List Nat) (h : wf g nul rank = true) (rs : List Nat) :
    parseRunes g rs ≠ .oof :=
  parseRunes_no_oof (wf_unpack h) rs

/-- `p.Parse()` of the regenerated grammar terminates on every byte string. -/
theorem parse_total (content : Bytes) : parseRunes G (Utf8.decode content) ≠ .oof :=
  peg_total G _ _ grammar_wf _

/-! ## the tree handed to the walker, and the walker on it -/

/-- The capture-at-start table is closed and says the start rule cannot begin with a capture. -/
theorem grammar_captures : capOK G Generated.C03.nul Generated.C03.capTab = true := by decide

/-- Every tree the matcher can return for the regenerated grammar, pruned as `tokens32.AST()` does, is a tree of the
grammar read as a tree grammar: a node per non-empty rule call / capture in grammar order, a node for every call of a
rule that cannot match the empty string, each node's children described by its rule's body over the node's own span
(`Peg.Kids`). -/
theorem tree_conforms (rs : List Nat) (p' : Nat) (s' : List Nat) (t : T) (h : parseRunes G rs = .ok p' s' t) :
    Kids G Generated.C03.nul (.call 0) 0 p' (prune t) :=
  run_kids (wf_unpack grammar_wf).nulSound _ _ _ _ _ _ _ h

/-- … every node is non-empty and lies inside the input, and no `<…>` node begins at offset 0 (`pegText` reads
`buffer[begin-1]`). -/
theorem tree_in_bounds (rs : List Nat) (p' : Nat) (s' : List Nat) (t : T) (h : parseRunes G rs = .ok p' s' t) :
    Safe G.pegText rs.length (prune t) :=
  parse_safe (wf_unpack grammar_wf) (capOK_unpack grammar_captures) rs p' s' t h

/-- `parser.ParseString` (model: decode, match, prune, walk) ends with a parse error, a walker error or an AST on
EVERY byte string: no `node.next` / `node.up` / `node.pegRule` is taken of a nil pointer, no buffer index is out of range,
no recursion runs out of fuel.  Proved for all rules: each walker function is shown panic-free on every node whose
children conform to its rule (`Lib/WalkerSafe.lean`), and `tree_conforms` / `tree_in_bounds` say all nodes do. -/
theorem walker_no_panic (content : Bytes) :
    C03.parseString G ids content = .parseError ∨ C03.parseString G ids content = .walkError ∨
    ∃ t, C03.parseString G ids content = .ok t :=
  C03.parseString_safe grammar_wf grammar_captures content

/-! ## numbering -/

/-- Field numbering, for every sibling chain of a struct / union / exception / argument list / throws list:
if the loop succeeds, the Field nodes parsed in order are `fs`, and the ids of the result follow the rule
"written ids as written, otherwise previous + 1, the first 1" (`numberSpec`, int32 arithmetic), everything but
the id is untouched.  `written f = none` iff the FieldId text parsed to -999999 or there was no FieldId
(`NOTSET` is the code's sentinel; see the witness below). -/
theorem field_ids (buf : Array Nat) (fuel : Nat) (post : Field → Field) (t : T) (r : List Field)
    (h : fieldsLoop ids buf fuel post [] t = .ok r) :
    ∃ fs, collectFields ids buf fuel t = .ok fs ∧
      r.map (·.id) = numberSpec none ((fs.map post).map written) ∧
      r.map (fun x => { x with id := 0 }) = (fs.map post).map (fun x => { x with id := 0 }) := by
  rw [fieldsLoop_eq] at h
  cases hc : collectFields ids buf fuel t with
  | ok fs =>
    rw [hc] at h
    simp only [W.ok.injEq] at h
    subst h
    refine ⟨fs, rfl, ?_, ?_⟩
    · have := foldl_addField_ids (fs.map post) []
      simpa using this
    · have := foldl_addField_rest (fs.map post) []
      simpa using this
  | err => rw [hc] at h; cases h
  | panic => rw [hc] at h; cases h
  | crash => rw [hc] at h; cases h

example : numberSpec none [none, none, some 7, none, some 3, none] = [1, 2, 7, 8, 3, 4] := by decide

/-- An explicit field id is read by `fieldIdOf` (parseField after fix d36828f: `ParseInt(text, 10, 32)`, on error
`ParseInt(text, 0, 32)`, error when both fail).  Written ids are read as written in every spelling the grammar allows:
decimal numerals (zero-padded ones stay decimal), optionally signed; `0x…` with hex digits of either case; `0o…` —
whenever the value fits int32. -/
theorem field_ids_written :
    (∀ ds, ds ≠ [] → digitsOK ds → decVal ds < 2 ^ 31 → fieldIdOf (ds.map (· + 48)) = some (decVal ds : Int)) ∧
    (∀ ds, ds ≠ [] → digitsOK ds → decVal ds < 2 ^ 31 → fieldIdOf (43 :: ds.map (· + 48)) = some (decVal ds : Int)) ∧
    (∀ ds, ds ≠ [] → digitsOK ds → decVal ds ≤ 2 ^ 31 → fieldIdOf (45 :: ds.map (· + 48)) = some (-(decVal ds : Int))) ∧
    (∀ c cs ds, Spells 16 (c :: cs) ds → valIn 16 ds < 2 ^ 31 → fieldIdOf (48 :: 120 :: c :: cs) = some (valIn 16 ds : Int)) ∧
    (∀ c cs ds, Spells 8 (c :: cs) ds → valIn 8 ds < 2 ^ 31 → fieldIdOf (48 :: 111 :: c :: cs) = some (valIn 8 ds : Int)) :=
  ⟨fieldIdOf_decimal,
   fun ds hne hd h => by simpa using fieldIdOf_decimal_signed false ds hne hd (by simpa using h),
   fun ds hne hd h => by simpa using fieldIdOf_decimal_signed true ds hne hd (by simpa using h),
   fieldIdOf_hex, fieldIdOf_octal⟩

example : digitsOK [4, 2] ∧ decVal [4, 2] = 42 := by decide
example : Spells 16 (txt "1F") [1, 15] ∧ valIn 16 [1, 15] = 31 := by decide

/- regression items (defects `fieldid-nondecimal`, `fieldid-range`, fixed by d36828f): -/
example : fieldIdOf (txt "0x10") = some 16 := by decide
example : fieldIdOf (txt "0o17") = some 15 := by decide
example : fieldIdOf (txt "010") = some 10 := by decide
example : fieldIdOf (txt "08") = some 8 := by decide
example : fieldIdOf (txt "99999999999") = none := by decide      -- parseField returns an error
example : fieldIdOf (txt "-99999999999") = none := by decide
/- still true: -999999 is the NOTSET sentinel, such a field is renumbered -/
example : (fieldIdOf (txt "-999999")).map (fun v => written { emptyField with id := v }) = some none := by decide

/-- Enum numbering: folding the loop's step over the members gives "written values as written, otherwise
previous + 1 (int64 arithmetic), the first 0". -/
theorem enum_values (ws : List (Bytes × Option Int)) :
    (ws.foldl (fun a w => enumStep a w.1 w.2) []).map (·.value) = enumSpec none (ws.map (·.2)) := by
  simpa using foldl_enumStep_values ws []

example : enumSpec none [none, none, some 10, none, some 1, none] = [0, 1, 10, 11, 1, 2] := by decide

/- Explicit enum values (`enumValueOf`, parseEnum after fix 1a143d7): `ParseInt(text, 0, 64)`, on error
`ParseInt(text, 10, 64)`, error when both fail.  Regression items: -/
example : enumValueOf (txt "08") = some 8 := by decide
example : enumValueOf (txt "010") = some 8 := by decide
example : enumValueOf (txt "0x1F") = some 31 := by decide
example : enumValueOf (txt "0o17") = some 15 := by decide
example : enumValueOf (txt "-5") = some (-5) := by decide
example : enumValueOf (txt "0xZZ") = none := by decide
example : enumValueOf (txt "99999999999999999999") = none := by decide

/-! ## annotations -/

/-- `Get k` after appending the written `(key, value)` pairs in order is the list of values written with key `k`,
in source order. -/
theorem annotations_append (kvs : List (Bytes × Bytes)) (k : Bytes) :
    annGet (annFold [] kvs) k = (kvs.filter (fun kv => kv.1 = k)).map (·.2) := by
  simpa [annGet] using annGet_annFold kvs [] k

/-- Keys appear once each, in the order of their first occurrence. -/
theorem annotations_keys_first_occurrence (kvs : List (Bytes × Bytes)) :
    keysOf (annFold [] kvs) = (kvs.map (·.1)).foldl addKey [] ∧ (keysOf (annFold [] kvs)).Nodup := by
  have h := keysOf_annFold kvs []
  simp only [keysOf, List.map_nil] at h
  refine ⟨by simpa [keysOf] using h, ?_⟩
  simp only [keysOf]
  rw [h]
  exact foldl_addKey_nodup _ [] List.nodup_nil

/-! ## literals -/

/-- For `q ∈ {', "}` and every content `s` that has no backslash immediately before a quote `q` or before another
backslash and does not end in a backslash, the copy loop of `pegText` applied to the spelling `esc q s`
(a backslash before every `q`) gives back `s`. -/
theorem literal_unescape (q : Nat) (hq : q = 34 ∨ q = 39) (s : List Nat) (hs : Plain q s) :
    unescLoop q (esc q s) = s :=
  unescLoop_esc q (by cases hq <;> omega) s hs

example : Plain 34 (txt "a'b\"c\\td") := by decide

/- Exactly the excluded shapes misbehave (spelling → what the loop returns): -/
-- content `\"` spelled `\\"`: the loop keeps both backslashes
example : unescLoop 34 (esc 34 (txt "\\\"")) = txt "\\\\\"" := by decide
-- content ending in `\\` : the final character is copied twice
example : unescLoop 34 (txt "a\\\\") = txt "a\\\\\\" := by decide

/-! ## layout (partial: per token rule; the composition over whole documents is covered by the oracle only)

FULL STATEMENT (not proved): for every document `d` and layouts `ℓ₁ ℓ₂` (a Skip-string at every token boundary, a
separator `,` `;` or none at every list position, a quote kind per literal, decimal spellings of integers),
`parseString (render d ℓ₁)` and `parseString (render d ℓ₂)` are equal up to ReservedComments.  Exponent doubles and non-decimal field ids, for which it was false, are repaired (regression items below). -/

/-- The value of a literal does not depend on the quote kind it is written with. -/
theorem quote_kind_independent (s : List Nat) (h1 : Plain 34 s) (h2 : Plain 39 s) :
    unescLoop 34 (esc 34 s) = unescLoop 39 (esc 39 s) := by
  rw [literal_unescape 34 (.inl rfl) s h1, literal_unescape 39 (.inr rfl) s h2]

/-- `Skip` absorbs any run of blanks (space, tab, vertical tab, CR, LF in any mix): on `ws ++ rest` it consumes exactly
`ws` when `rest` is empty or starts with a character that is neither blank nor `/` nor `#`.  (`Peg.Runs` is the
fuel-free view of the matcher; by `Runs.unique` it is the result `p.Parse()` computes.) -/
theorem skip_absorbs_ws (ws rest : List Nat) (pos : Nat) (hws : ∀ c ∈ ws, PegTokens.isWs c) (hrest : PegTokens.StopsSkip rest) :
    ∃ t, Runs G (.call Generated.C03.R.Skip) pos (ws ++ rest) (.ok (pos + ws.length) rest t) :=
  PegTokens.skip_absorbs_ws ws rest pos hws hrest

/-- `Skip` absorbs every whitespace / comment string (`PegTokens.SkipStr`: blanks in any mix, `/* … */` with a body free
of `*/`, `// …` and `# …` up to a line end, in any order and number) and stops at the first character that cannot
continue it. -/
theorem skip_absorbs (w rest : List Nat) (pos : Nat) (hw : PegTokens.SkipStr w) (hrest : PegTokens.StopsSkip rest) :
    ∃ t, Runs G (.call Generated.C03.R.Skip) pos (w ++ rest) (.ok (pos + w.length) rest t) :=
  PegTokens.skip_absorbs w rest pos hw hrest

-- " /* c */// x⏎# y⏎⇥" is such a string
example : PegTokens.SkipStr
    (32 :: (47 :: 42 :: [32, 99, 32] ++ 42 :: 47 :: (47 :: 47 :: [32, 120] ++ (10 :: (35 :: [32, 121] ++ (10 :: 9 :: [])))))) :=
  .ws (by decide) (.long (body := [32, 99, 32]) (by decide) (.line (body := [32, 120]) (w := 10 :: (35 :: [32, 121] ++ (10 :: 9 :: [])))
    (by decide) (by decide) (by decide)
    (.ws (by decide) (.unix (body := [32, 121]) (w := 10 :: 9 :: []) (by decide) (by decide) (by decide)
      (.ws (by decide) (.ws (by decide) .nil))))))

example : PegTokens.StopsSkip (txt "struct") ∧ ∀ c ∈ txt " \t\r\n ", PegTokens.isWs c := by decide

/-- A ListSeparator node (`,` and `;` alike: the walker never looks inside) is invisible to every loop of the walker. -/
theorem list_separator_ignored (buf : Array Nat) (fuel b e : Nat) (up next : T) :
    (∀ acc, annLoop ids buf acc (.node ids.rListSeparator b e up next) = annLoop ids buf acc next) ∧
    (∀ f, fieldLoop ids buf fuel f (.node ids.rListSeparator b e up next) = fieldLoop ids buf fuel f next) ∧
    (∀ post acc, fieldsLoop ids buf fuel post acc (.node ids.rListSeparator b e up next) = fieldsLoop ids buf fuel post acc next) ∧
    (∀ f, functionLoop ids buf fuel f (.node ids.rListSeparator b e up next) = functionLoop ids buf fuel f next) ∧
    (∀ acc, functionsLoop ids buf fuel acc (.node ids.rListSeparator b e up next) = functionsLoop ids buf fuel acc next) ∧
    constListLoop ids buf (fuel + 1) (.node ids.rListSeparator b e up next) = constListLoop ids buf fuel next ∧
    constMapLoop ids buf (fuel + 1) (.node ids.rListSeparator b e up next) = constMapLoop ids buf fuel next :=
  ⟨fun acc => annLoop_sep buf acc b e up next, fun f => fieldLoop_sep buf fuel f b e up next,
   fun post acc => fieldsLoop_sep buf fuel post acc b e up next, fun f => functionLoop_sep buf fuel f b e up next,
   fun acc => functionsLoop_sep buf fuel acc b e up next, constListLoop_sep buf fuel b e up next,
   constMapLoop_sep buf fuel b e up next⟩

/-- Skip and SkipLine nodes are invisible to the field loop and to the document loop. -/
theorem skip_nodes_ignored (buf : Array Nat) (fuel r b e : Nat) (up next : T) (h : r = ids.rSkip ∨ r = ids.rSkipLine) :
    (∀ f, fieldLoop ids buf fuel f (.node r b e up next) = fieldLoop ids buf fuel f next) ∧
    (∀ t, docLoop ids buf fuel t (.node r b e up next) = docLoop ids buf fuel t next) :=
  ⟨fun f => fieldLoop_skip buf fuel f r b e up next h, fun t => docLoop_skip buf fuel t r b e up next h⟩

/-! ## witnesses on the whole pipeline (decode → match → prune → walk) for the spellings the theorems exclude -/

def dblTexts (o : C03.Outcome) : List Bytes :=
  match o with
  | .ok t => t.constants.map (fun c => match c.value with | .dbl s => s | _ => [0])
  | _ => [[1]]

def defCount (o : C03.Outcome) : Option Nat :=
  match o with
  | .ok t => some (t.includes.length + t.cppIncludes.length + t.namespaces.length + t.typedefs.length + t.constants.length
      + t.enums.length + t.structs.length + t.unions.length + t.exceptions.length + t.services.length)
  | _ => none

def structFieldSummary (o : C03.Outcome) : List (Int × Bytes × Nat × Bytes) :=
  match o with
  | .ok t => (t.structs.map (fun s => s.fields.map (fun f => (f.id, f.name, f.req,
      match f.ty with | .mk n _ _ _ _ => n | .none => [])))).flatten
  | _ => [(0, [1], 0, [])]

/-- For every DoubleConstant node of a parse tree (children conforming to the rule, inside the buffer), the text handed
to `strconv.ParseFloat` is the node's own capture `buffer[b1:e1]` — the whole literal, trailing blanks trimmed — wherever
blanks or comments precede or follow it; never the exponent's IntConstant (fixes 5d7ef08, 5914c39 and the trim). -/
theorem double_text (buf : Array Nat) (n : Nat) (hn : n ≤ buf.size) (fuel b0 e0 b e : Nat) (u next : T)
    (hs : Safe ids.rPegText n u) (hk : Kids G Generated.C03.nul (ruleBody ids.rDoubleConstant) b e u) :
    ∃ b1 e1, b ≤ b1 ∧ b1 < e1 ∧ e1 ≤ e ∧
      parseConstValue ids buf (fuel + 1) (.node ids.rConstValue b0 e0 (.node ids.rDoubleConstant b e u .nil) next) =
        .ok (.dbl (trimRightBlank (Utf8.encode (slice buf b1 e1)))) :=
  Walker.double_text buf n hn fuel b0 e0 b e u next hs hk

/- regression items for `double-exponent` (whole pipeline): -/
set_option maxRecDepth 100000 in
example : dblTexts (C03.parseString G ids (txt "const double d = 1e5")) = [txt "1e5"] := by decide
set_option maxRecDepth 100000 in
example : dblTexts (C03.parseString G ids (txt "const double d =\n1.5e3 // c")) = [txt "1.5e3"] := by decide
set_option maxRecDepth 100000 in
example : dblTexts (C03.parseString G ids (txt "const double d = 1e5 ,")) = [txt "1e5"] := by decide
set_option maxRecDepth 100000 in
example : dblTexts (C03.parseString G ids (txt "const double d = 1.5")) = [txt "1.5"] := by decide

/- regression item for `fieldid-nondecimal`: `0x10:` is id 16 and the next unnumbered field is 17. -/
set_option maxRecDepth 100000 in
example : structFieldSummary (C03.parseString G ids (txt "struct S { 0x10: i32 a; i32 b }")) =
    [(16, txt "a", 0, txt "i32"), (17, txt "b", 0, txt "i32")] := by decide

/- regression item for `fieldid-range`: a parse (walker) error -/
set_option maxRecDepth 100000 in
example : structFieldSummary (C03.parseString G ids (txt "struct S { 99999999999: i32 a }")) = [(0, [1], 0, [])] := by decide

/- regression item for `empty-document` (fix 809bbec): the empty input is an empty AST -/
set_option maxRecDepth 100000 in
example : defCount (C03.parseString G ids []) = some 0 := by decide
set_option maxRecDepth 100000 in
example : defCount (C03.parseString G ids (txt " // c\n")) = some 0 := by decide

/- KNOWN FINDING "fieldreq-prefix" (not fixed: needs a regenerated thrift.peg.go): FieldReq has no `!LetterOrDigit` guard, a type named `requiredness` is split. -/
set_option maxRecDepth 100000 in
example : structFieldSummary (C03.parseString G ids (txt "struct S { 1: requiredness x }")) =
    [(1, txt "x", 1, txt "ness")] := by decide

end Props.C03
