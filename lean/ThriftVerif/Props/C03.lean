import ThriftVerif.Lib.PegLemmas
import ThriftVerif.Lib.Walker
import ThriftVerif.Generated.C03Grammar
/-
  C03 — the parser is total and the AST is faithful to the source text.  Property theorems only.
-/
namespace Props.C03
open Peg Walker

/-- The grammar regenerated from parser/thrift.peg has no left recursion (the rank table strictly decreases along
every call in head position), no `*`/`+` over an expression that can succeed on the empty string, calls only
existing rules, and the nullable table is closed. -/
theorem grammar_wf : wf Generated.C03.grammar Generated.C03.nul Generated.C03.rank = true := by decide

end Props.C03
