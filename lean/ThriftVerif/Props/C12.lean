import ThriftVerif.Lib.FileManager
import ThriftVerif.Lib.FileManagerLemmas
import ThriftVerif.Generated.C12
/-
  C12 — output assembly loses nothing: insertion points and file-name conflicts.
  Property theorems only; the model is Lib/FileManager.lean (generator/file_manager.go),
  helper lemmas are in Lib/FileManagerLemmas.lean.  `cfg` is the regenerated description of the
  insertion-point regexp and of plugin.InsertionPointFormat.

  Histories: `calls : List (List Item)` is an arbitrary sequence of Feed calls, of any length,
  `feedAll St.init calls` the manager after them, `build cfg st` the response of BuildResponse.
  A state `st` "reached" means `st = feedAll St.init calls`; theorems about one step of the loop
  take `last` and `skip` arbitrary, so they also cover every point inside a call.
-/
namespace Props.C12
open FileManager Generated.C12

/-- the manager after an arbitrary history -/
abbrev after (calls : List (List Item)) : St := feedAll St.init calls

/-- regenerated obligation: the patch key format and the regexp agree on prefix and closing byte,
and the closing byte is outside the class (so the class run of a marker is delimited). -/
theorem marker_cfg_facts : CfgOK cfg := by decide

/-! ### files are never overwritten, merged or reordered -/

/-- one Feed call only appends to `files`: every stored (name, content) keeps its position, name and content. -/
theorem first_content_kept (st : St) (items : List Item) :
    ∃ ex, (feed st items).1.files = st.files ++ ex := feedLoop_files_prefix items st [] false

/-- … and so over any continuation of any history. -/
theorem first_content_kept_history (calls more : List (List Item)) :
    ∃ ex, (after (calls ++ more)).files = (after calls).files ++ ex := by
  unfold after; rw [feedAll_append]; exact feedAll_files_prefix more _

/-- the patches recorded for a name are only ever appended to (submission order is kept). -/
theorem patches_only_appended (st : St) (items : List Item) (n : Bytes) :
    ∃ ex, (feed st items).1.patch n = st.patch n ++ ex := feedLoop_patch_prefix items st [] false n

/-! ### a later file with an existing name -/

/-- identical content (to the file of that name or to any file on its chain `name_1, name_2, …` of
taken names, `siblings`): the item and the unnamed patches directly following it change nothing. -/
theorem dup_dropped (calls : List (List Item)) (last : Bytes) (skip : Bool) (f : Item) (name : Bytes) (idx : Nat)
    (ups rest : List Item)
    (hn : f.name = some name) (hi : (after calls).index name = some idx) (hip : f.ip = [])
    (hd : ∃ i ∈ siblings (after calls) name idx, contentAt (after calls) i = some f.content)
    (hu : ∀ u ∈ ups, u.name = none) :
    feedLoop (after calls) last skip (f :: (ups ++ rest)) = feedLoop (after calls) last true rest :=
  feedLoop_dup _ last skip f name idx ups rest hn hi hip
    (siblings_valid (Inv.feedAll calls Inv.init) name idx hi) hd hu

/-- different content from all of them: stored as a new file under the first name `name_k`, k ≥ 1, that
the index does not know (so it cannot collide), the earlier files untouched, and `last` becomes the
new name (its unnamed patches follow the renamed file). -/
theorem conflict_renamed (calls : List (List Item)) (last : Bytes) (skip : Bool) (f : Item) (name : Bytes) (idx : Nat)
    (rest : List Item)
    (hn : f.name = some name) (hi : (after calls).index name = some idx) (hip : f.ip = [])
    (hd : ¬ ∃ i ∈ siblings (after calls) name idx, contentAt (after calls) i = some f.content) :
    ∃ k, 1 ≤ k ∧ (after calls).index (sib name k) = none ∧
      (∀ j, 1 ≤ j → j < k → (after calls).index (sib name j) ≠ none) ∧
      feedLoop (after calls) last skip (f :: rest) =
        feedLoop (renameSt (after calls) name (sib name k) f.content) (sib name k) false rest :=
  feedLoop_conflict _ (Inv.feedAll calls Inv.init) last skip f name idx rest hn hi hip hd

/-- the positions compared above (the index chain) are those of files named `name` or `name_j`, all existing. -/
theorem siblings_are_family (calls : List (List Item)) (name : Bytes) (idx : Nat)
    (hi : (after calls).index name = some idx) :
    ∀ i ∈ siblings (after calls) name idx, ∃ m c, (after calls).files[i]? = some (m, c) ∧ Fam name m :=
  siblings_fam (Inv.feedAll calls Inv.init) name idx hi

/-- renamed names are injective in (name, k): `a_j` = `b_k` only if `a = b` and `j = k`. -/
theorem sib_injective (a b : Bytes) (j k : Nat) (h : sib a j = sib b k) : a = b ∧ j = k := sib_inj a b j k h

/-! ### patches -/

/-- an unnamed patch goes to the list of `last`; a named item with an insertion point whose name
exists goes to the list of that name and makes it `last`. -/
theorem patch_goes_to_last (st : St) (last : Bytes) (skip : Bool) (f : Item) (rest : List Item) :
    (f.name = none → last ≠ [] →
      feedLoop st last false (f :: rest) = feedLoop (addPatch st last f) last false rest) ∧
    (∀ name idx, f.name = some name → st.index name = some idx → f.ip ≠ [] →
      feedLoop st last skip (f :: rest) = feedLoop (addPatch st name f) name false rest) :=
  ⟨fun hn hl => feedLoop_unnamed_patch st last f rest hn hl,
   fun name idx hn hi hip => feedLoop_named_patch st last skip f rest name idx hn hi hip⟩

/-- a call that starts with an unnamed item fails and leaves the manager as it was. -/
theorem unnamed_first_is_error (st : St) (f : Item) (rest : List Item) (hn : f.name = none) :
    feed st (f :: rest) = (st, .err) := feedLoop_unnamed_err st f rest hn

/-- … and (no file being named "") that is the only way a call fails. -/
theorem feed_error_iff (st : St) (items : List Item) (hne : ∀ f ∈ items, f.name ≠ some []) :
    (feed st items).2 = .err ↔ ∃ f rest, items = f :: rest ∧ f.name = none := feed_err_iff st items hne

example : ∀ f ∈ [(⟨some [97], [], [88]⟩ : Item)], f.name ≠ some [] := by decide

/-- no history makes Feed index `files` out of range, and the (unbounded) probe loop always
terminates: it never needs more than `len(files) + 1` rounds. -/
theorem feed_never_panics_or_hangs (calls : List (List Item)) :
    Outcome.panic ∉ outcomes St.init calls ∧ Outcome.hang ∉ outcomes St.init calls :=
  outcomes_no_panic calls St.init Inv.init

/-! ### nothing is lost -/

/-- after any history, a successful call leaves every named file item (no insertion point) it
contains stored — under its name or a name derived from it, with exactly its content — and it
stays stored whatever is fed later. -/
theorem nothing_lost (calls : List (List Item)) (items : List Item) (more : List (List Item))
    (hok : (feed (after calls) items).2 = .ok) :
    ∀ f ∈ items, ∀ n, f.name = some n → f.ip = [] → Stored (after (calls ++ [items] ++ more)) n f.content := by
  intro f hf n hn hip
  have h1 := feedLoop_nothing_lost items (after calls) [] false (Inv.feedAll calls Inv.init) hok f hf n hn hip
  have e : after (calls ++ [items] ++ more) = feedAll (feed (after calls) items).1 more := by
    unfold after; rw [feedAll_append, feedAll_append]; rfl
  rw [e]
  exact h1.mono (feedAll_files_prefix more _)

/-! ### unique names -/

/-- after every history the response names are pairwise distinct: a conflicting file is only ever
stored under a name the index does not know, and the index knows every stored name.
(False before /repo 54c21d0, where the loop trusted `count[name]`; see `old_witness_repaired`.) -/
theorem names_unique (calls : List (List Item)) : ((build cfg (after calls)).map (·.1)).Nodup := by
  rw [build_names]
  exact (InvU.feedAll calls InvU.init).nodup

/-- regression item: the history `a.go:X, a_1.go:X, a.go:Y` that used to answer `a.go, a_1.go, a_1.go`
now answers `a.go, a_1.go, a_2.go` (also replayed on the implementation by every run). -/
def oldWitness : List (List Item) :=
  [[⟨some [97, 46, 103, 111], [], [88]⟩, ⟨some [97, 95, 49, 46, 103, 111], [], [88]⟩, ⟨some [97, 46, 103, 111], [], [89]⟩]]

theorem old_witness_repaired : (build cfg (after oldWitness)).map (·.1) =
    [[97, 46, 103, 111], [97, 95, 49, 46, 103, 111], [97, 95, 50, 46, 103, 111]] := by decide

/-! ### insertion points -/

/-- the scan cuts a content into literal bytes and markers and loses nothing. -/
theorem scan_lossless (content : Bytes) : flatten (scan cfg content) = content := by
  unfold scan; simpa using flatten_segment (markerLen cfg) content 0

/-- BuildResponse keeps names and order and rewrites each content by `render`: literal bytes stay,
every occurrence of a marker is replaced by the texts of the file's patches for that point,
concatenated in submission order (`patchText`) — for files whose patch points lie in the marker
alphabet. -/
theorem patches_in_order (st : St) (h : ∀ nc ∈ st.files, WordPoints cfg (st.patch nc.1)) :
    build cfg st = st.files.map fun nc => (nc.1, render cfg (st.patch nc.1) (scan cfg nc.2)) := by
  unfold build
  apply List.map_congr_left
  intro nc hnc
  obtain ⟨n, c⟩ := nc
  simp only
  rw [replace_eq_render cfg marker_cfg_facts c (st.patch n) (h (n, c) hnc)]

example : WordPoints cfg [⟨[105, 109, 112, 111, 114, 116, 115], [80]⟩] := by decide

/-- a marker never survives as such: with no patch text at all the result is the literal bytes only. -/
theorem markers_removed (content : Bytes) (ps : List Patch) (hw : WordPoints cfg ps) (h : ∀ p ∈ ps, p.content = []) :
    replace (replacerOf cfg content ps) content = lits (scan cfg content) := by
  rw [replace_eq_render cfg marker_cfg_facts content ps hw, render_no_text cfg ps h]

/-- the bytes outside markers appear in the result unchanged and in order. -/
theorem text_preserved (content : Bytes) (ps : List Patch) (hw : WordPoints cfg ps) :
    (lits (scan cfg content)).Sublist (replace (replacerOf cfg content ps) content) := by
  rw [replace_eq_render cfg marker_cfg_facts content ps hw]
  exact lits_sublist_render cfg ps _

/-- BuildResponse hands the replacer's pairs over in Go map order; whatever that order is, the
result is the same (points in the marker alphabet). -/
theorem replacer_order_irrelevant (content : Bytes) (ps : List Patch) (hw : WordPoints cfg ps)
    (m' : List (Bytes × Bytes)) (hp : m'.Perm (replacerOf cfg content ps)) :
    replace m' content = replace (replacerOf cfg content ps) content :=
  replace_perm cfg marker_cfg_facts content ps hw m' hp

/-! ### patch points with arbitrary characters: the literal-key path

`Add` puts `plugin.InsertionPoint(p)` into the replacer's map whatever bytes `p` has (`-`, `/`, space,
non-ASCII, parentheses, `@`): such a marker is not found by the regexp, the patch itself supplies the key. -/

/-- for every content and every list of patches (no restriction on the points): the result is the
rendering of the content cut by the replacer's key set — regexp markers of the content and the literal
marker texts of all patch points — each key occurrence replaced by its patches in submission order. -/
theorem literal_keys_rendered (content : Bytes) (ps : List Patch) :
    replace (replacerOf cfg content ps) content = render cfg ps (keyScan cfg content ps) :=
  replace_eq_renderKeys cfg marker_cfg_facts content ps

/-- … and wherever that scan stands before the literal marker text of a patched point `p` (any bytes),
it takes exactly this key and resumes after it: the patch is applied there (prefix-free key set). -/
theorem patch_applied_at_literal_marker (content : Bytes) (ps : List Patch)
    (hpf : PrefixFreeKeys (replacerOf cfg content ps)) (p : Patch) (hp : p ∈ ps) (b : Bytes) :
    segment (keyLen (replacerOf cfg content ps)) 0 (pointKey cfg p.ip ++ b) =
      .chunk (pointKey cfg p.ip) :: segment (keyLen (replacerOf cfg content ps)) 0 b :=
  keyScan_at_literal_marker cfg marker_cfg_facts content ps hpf p hp b

/-- the hypothesis is decidable on the key list and satisfiable with a point outside the alphabet:
content `x@@thriftgo_insertion_point(a-b)y`, patch for `a-b` -/
example : PrefixFreeKeys (replacerOf cfg
    ([120] ++ cfg.pre ++ [97, 45, 98, 41, 121]) [⟨[97, 45, 98], [80]⟩]) :=
  prefixFreeKeys_of_list _ (by decide)

/-- Go map order is irrelevant for every prefix-free key set, also with points outside the alphabet. -/
theorem replacer_order_irrelevant_literal (content : Bytes) (ps : List Patch)
    (hpf : PrefixFreeKeys (replacerOf cfg content ps))
    (m' : List (Bytes × Bytes)) (hp : m'.Perm (replacerOf cfg content ps)) :
    replace m' content = replace (replacerOf cfg content ps) content :=
  replace_perm_prefixFree _ m' hp (replacerOf_keys_nodup cfg content ps) hpf content

/-! ### the Go backend as producer of Feed's input -/

/-- regenerated obligation (generator/golang/backend.go, renderByTemplate): per rendered file the backend
appends a named item without insertion point, then a *nameless* item with an insertion point. -/
theorem backend_emits_file_then_nameless_patch : backendItems = [(true, false), (false, true)] := by decide

/-- for such a pair, after any history: either the file is a duplicate and both items change nothing,
or the file is stored (under its name or a fresh derived one) and the patch goes to exactly that file. -/
theorem backend_pair_targets_own_file (calls : List (List Item)) (last : Bytes) (skip : Bool) (f u : Item) (n : Bytes)
    (rest : List Item) (hn : f.name = some n) (hne : n ≠ []) (hip : f.ip = []) (hu : u.name = none) :
    feedLoop (after calls) last skip (f :: u :: rest) = feedLoop (after calls) last true rest ∨
    ∃ m st', Fam n m ∧ st'.files = (after calls).files ++ [(m, f.content)] ∧ st'.patch = (after calls).patch ∧
      feedLoop (after calls) last skip (f :: u :: rest) = feedLoop (addPatch st' m u) m false rest :=
  feedLoop_file_then_patch _ (Inv.feedAll calls Inv.init) last skip f u n rest hn hne hip hu

end Props.C12
