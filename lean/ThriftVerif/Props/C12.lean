/- C12 property theorems (stub: not built yet) -/
