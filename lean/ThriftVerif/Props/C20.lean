import ThriftVerif.Lib.Options
import ThriftVerif.Lib.OptionsLemmas
import ThriftVerif.Lib.OptionsCmdLemmas
import ThriftVerif.Generated.C20
/-
  C20 — every documented backend option switches exactly its own feature.
  Property theorems only; helper lemmas live in Lib/OptionsLemmas.lean.
  `env` below is the regenerated table: these theorems are re-checked against
  what /repo's option table, defaults and README say on every run.
-/
namespace Props.C20
open Options Generated.C20

/-- first-match lookup with a prefix test finds an entry's own row whenever no
earlier row's name is a prefix of a later row's name (generic, any table). -/
theorem prefix_safe_lookup (t : List Entry) (h : PrefixSafe t) (e : Entry) (he : e ∈ t) :
    lookup t e.name = some e := Options.lookup_of_prefixSafe t h e he

/-- regenerated obligation: the current table has that property
(`code_ref_slim` before `code_ref`, etc.). -/
theorem table_prefix_safe : PrefixSafe env.table := by decide

/-- regenerated obligation: every row of the README option table is a row of the
option table, every boolean row documents the default the code has, and every
table row except the deprecated `always_gen_json_tag` is documented. -/
theorem documented_accepted :
    (documented.all fun (n, d) =>
      match env.table.find? (fun e => e.name == n), d with
      | some ⟨_, .feature i⟩, some b => env.defaults.getD i (!b) == b
      | some ⟨_, .feature _⟩, none => false
      | some ⟨_, .ignoreInitialisms⟩, some b => b == false
      | some _, none => true
      | some _, some _ => false
      | none, _ => false) = true ∧
    (env.table.all fun e =>
      documented.any (fun (n, _) => n == e.name) ||
      e.name == [97, 108, 119, 97, 121, 115, 95, 103, 101, 110, 95, 106, 115, 111, 110, 95, 116, 97, 103]) = true := by
  decide

/-- every feature row points inside the defaults vector and rows are pairwise distinct features -/
theorem table_wellformed : TableWF env = true := by decide

/-- **sets exactly its own** (unbounded in the length of the option list, any
names, documented or not): when the list is accepted, boolean feature `i` holds
the value of the last option of the list that *resolves* to feature `i`, or its
default when there is none; the single cross effect is the slim rule. -/
theorem sets_exactly_own (args : List Bytes) (c : Cfg) (h : handle env args = some c) (i : Nat)
    (hi : i < env.defaults.length) :
    feat c i =
      if c.template = env.slimName ∧ i = env.iDeepEqual then false
      else (lastSetting env i args).getD (env.defaults.getD i false) :=
  Options.handle_feat env args c h i hi

/-- … and for a documented name given exactly, resolution is the identity: the
option `name`, `name=true`, `name=false` is a setting of its own feature and of
no other one, wherever it stands and whatever names extend or prefix it. -/
theorem documented_name_resolves (e : Entry) (he : e ∈ env.table) (v : Option Bytes) :
    resolve env (joinEq e.name v) = some (e.kind, v.getD []) := by
  have := prefix_safe_lookup env.table table_prefix_safe e he
  exact Options.resolve_joinEq env e v this (name_no_eq e he)
where
  name_no_eq (e : Entry) (he : e ∈ env.table) : (61 : Nat) ∉ e.name := by
    revert e; decide

/-- slim disables deep-equal -/
theorem slim_disables_deep_equal (args : List Bytes) (c : Cfg) (h : handle env args = some c)
    (hs : c.template = env.slimName) : feat c env.iDeepEqual = false :=
  Options.handle_slim env args c h hs (by decide)

/-- **reject iff**: the list is rejected exactly when some option in it is
rejected by its own action in the state reached so far (non-boolean value for a
boolean option, unknown naming style / template, `use_package` without `=`), or
the final configuration is one of the four documented invalid combinations. -/
theorem reject_iff (args : List Bytes) :
    handle env args = none ↔
      (run env (init env) args = none ∨
       ∃ c, run env (init env) args = some c ∧ invalid env (slimRule env c) = true) :=
  Options.handle_none_iff env args

/-- the rejection of a single option depends only on that option's own text
(never on what precedes it) -/
theorem step_reject_local (c c' : Cfg) (a : Bytes) :
    (step env c a = none) ↔ (step env c' a = none) := Options.step_none_local env c c' a

/-- the naming style and the initialisms switch: `naming_style=…` alone leaves
the initialisms correction at its documented default (on).  Needs
`env.doInit0 = true`, a regenerated fact. -/
theorem naming_style_keeps_initialisms :
    ∀ s ∈ env.styles,
      (handle env [joinEq [110, 97, 109, 105, 110, 103, 95, 115, 116, 121, 108, 101] (some s)]).map
        (fun c => (c.style, c.effInit)) = some (s, true) := by
  decide

/-! ### the command-line path `-g go:<a,b,c>` (args.Arguments.Targets → plugin.Pack → HandleOptions) -/

/-- the option appended by checkOptions -/
def slimOpt : Bytes := cmdEnv.templateName ++ 61 :: env.slimName

/-- what checkOptions appends to the list `as` -/
def appended (as : List Bytes) : List Bytes :=
  if feat (probe env as) cmdEnv.iNested && !(as.any fun a => optName a == cmdEnv.templateName) then [slimOpt] else []

/-- **the command line is transparent**: for any non-empty list of comma-free option texts, `-g go:` followed by
their comma-join hands the backend's HandleOptions a list that acts exactly like the list written (a bare name
arrives as `name=`, a value keeps everything after its first `=`), followed by `template=slim` exactly when the
list switches nested structs on and names no template.  The backend's CodeUtils starts from the naming-style
flags the scratch run of checkOptions left in the process-wide style objects. -/
theorem cmdline_transparent (as : List Bytes) (hne : as ≠ []) (hc : ∀ a ∈ as, (44 : Nat) ∉ a) :
    cmdline env cmdEnv (joinComma as) =
      if (handle env as).isNone then none    -- the scratch run of checkOptions rejects the list: nothing is generated
      else handleFrom env { init env with styleFlags := (probe env as).styleFlags } (as ++ appended as) := by
  have hs := splitComma_joinComma as hne hc
  have hp : pack (parseOpts (joinComma as)) = as.map repack := by rw [pack_parseOpts, hs]
  have hn : (parseOpts (joinComma as)).any (fun p => p.1 == cmdEnv.templateName)
      = as.any (fun a => optName a == cmdEnv.templateName) := by rw [parseOpts_names, hs]
  have hh : handle env (as.map repack) = handle env as := handleFrom_repack env _ as
  have hE : cmdEnv.probeErrReturned = true := rfl
  have key : ∀ (c : Cfg) (bs : List Bytes), handleFrom env c (as.map repack ++ bs) = handleFrom env c (as ++ bs) := by
    intro c bs
    simp only [handleFrom, run_append, run_repack]
  unfold cmdline checkOptions appended
  simp only [hp, probe_repack, hn, hh, hE, Bool.true_and]
  by_cases h0 : (handle env as).isNone = true
  · simp [h0]
  · have h0' : (handle env as).isNone = false := by
      cases hx : (handle env as).isNone with
      | true => exact absurd hx h0
      | false => rfl
    simp only [h0', Bool.false_eq_true, if_false]
    by_cases h1 : feat (probe env as) cmdEnv.iNested = true
    · by_cases h2 : (as.any fun a => optName a == cmdEnv.templateName) = true
      · simp only [h1, h2, if_true, Bool.not_true, Bool.and_false, Bool.false_eq_true, if_false, List.append_nil, hp]
        exact handleFrom_repack env _ as
      · have h2' : (as.any fun a => optName a == cmdEnv.templateName) = false := by simpa using h2
        simp only [h1, h2', if_true, Bool.false_eq_true, if_false, Bool.not_false, Bool.and_true]
        have : pack (parseOpts (joinComma as) ++ [(cmdEnv.templateName, env.slimName)]) = as.map repack ++ [slimOpt] := by
          simp [pack, slimOpt] at hp ⊢
          exact hp
        rw [this]
        exact key _ _
    · have h1' : feat (probe env as) cmdEnv.iNested = false := by simpa using h1
      simp only [h1', Bool.false_eq_true, if_false, Bool.false_and, List.append_nil, hp]
      exact handleFrom_repack env _ as

/-- **sets exactly its own, through the command line**: feature `i` of the accepted configuration holds the last
setting the written list (plus the appended `template=slim`, which sets no feature) gives for it, else its default;
the single cross effect is the slim rule. -/
theorem cmdline_sets_exactly_own (as : List Bytes) (hne : as ≠ []) (hc : ∀ a ∈ as, (44 : Nat) ∉ a)
    (c : Cfg) (h : cmdline env cmdEnv (joinComma as) = some c) (i : Nat) (hi : i < env.defaults.length) :
    feat c i =
      if c.template = env.slimName ∧ i = env.iDeepEqual then false
      else (lastSetting env i (as ++ appended as)).getD (env.defaults.getD i false) := by
  rw [cmdline_transparent as hne hc] at h
  split at h
  · simp at h
  · exact handleFrom_feat env _ rfl _ c h i hi

/-- **the command line changes nothing else**: everything the backend's HandleOptions leaves behind except the
process-wide naming-style flags (features, naming style, initialisms switch, package prefix, template, import
replacements) is exactly what HandleOptions gives for the written list plus what checkOptions appended — the scratch
run of checkOptions cannot leak into it. -/
theorem cmdline_outcome_is_handle (as : List Bytes) (hne : as ≠ []) (hc : ∀ a ∈ as, (44 : Nat) ∉ a) :
    (cmdline env cmdEnv (joinComma as)).map Cfg.core =
      if (handle env as).isNone then none else (handle env (as ++ appended as)).map Cfg.core := by
  rw [cmdline_transparent as hne hc]
  split
  · rfl
  · exact handleFrom_core env { init env with styleFlags := (probe env as).styleFlags } (init env) rfl (as ++ appended as)

/-- nothing is appended unless the list itself switches nested structs on (`enable_nested_struct=false` included) -/
theorem cmdline_adds_nothing_unless_nested (as : List Bytes) (h : feat (probe env as) cmdEnv.iNested = false) :
    appended as = [] := by simp [appended, h]

/-- a value keeps everything after its first `=`: `use_package=a/b=c/d` reaches the backend as written -/
theorem cmdline_value_keeps_equals (n v : Bytes) (hn : (61 : Nat) ∉ n) (hn' : (44 : Nat) ∉ n) (hv : (44 : Nat) ∉ v) :
    pack (parseOpts (n ++ 61 :: v)) = [n ++ 61 :: v] := by
  have hc : (44 : Nat) ∉ n ++ 61 :: v := by
    intro hm
    rcases List.mem_append.mp hm with e | e
    · exact hn' e
    · rcases List.mem_cons.mp e with e | e
      · cases e
      · exact hv e
  have := splitEq_joinEq n (some v) hn
  simp only [joinEq] at this
  simp [pack_parseOpts, splitComma_noComma _ hc, repack, this]

/-- **nested structs force the slim template** (documented implication): when the list switches nested structs on
and names no template, the accepted configuration has the slim template and no deep-equal. -/
theorem nested_forces_slim (as : List Bytes) (hne : as ≠ []) (hc : ∀ a ∈ as, (44 : Nat) ∉ a)
    (hnest : feat (probe env as) cmdEnv.iNested = true)
    (hnt : (as.any fun a => optName a == cmdEnv.templateName) = false)
    (c : Cfg) (h : cmdline env cmdEnv (joinComma as) = some c) :
    c.template = env.slimName ∧ feat c env.iDeepEqual = false := by
  rw [cmdline_transparent as hne hc] at h
  have happ : appended as = [slimOpt] := by simp [appended, hnest, hnt]
  rw [happ] at h
  split at h
  · simp at h
  unfold handleFrom at h
  rw [run_append] at h
  cases hr : run env { init env with styleFlags := (probe env as).styleFlags } as with
  | none => simp [hr] at h
  | some c1 =>
    have hstep : run env c1 [slimOpt] = some { c1 with template := env.slimName } := by
      have hres : resolve env slimOpt = some (.template, env.slimName) := by decide
      have hmem : env.slimName ∈ env.templates := by decide
      simp [run, step, hres, act, hmem]
    simp only [hr, Option.bind_some, hstep] at h
    have hlen : c1.features.length = env.defaults.length :=
      (run_feat env as _ c1 hr env.iDeepEqual (by show env.iDeepEqual < env.defaults.length; decide)).1
    split at h
    · simp at h
    · simp only [Option.some.injEq] at h
      subst h
      constructor
      · simp [slimRule]
      · simp only [slimRule, if_true, feat]
        rw [getD_setAt _ _ _ _ (by rw [hlen]; decide)]
        simp

/- non-vacuity of the command-line theorems: a list that switches nested structs on and names no template -/
example : feat (probe env [VL.ofAscii "enable_nested_struct", VL.ofAscii "gen_deep_equal"]) cmdEnv.iNested = true ∧
    ([VL.ofAscii "enable_nested_struct", VL.ofAscii "gen_deep_equal"].any fun a => optName a == cmdEnv.templateName) = false ∧
    (cmdline env cmdEnv (joinComma [VL.ofAscii "enable_nested_struct", VL.ofAscii "gen_deep_equal"])).isSome = true := by decide

/- non-vacuity: a concrete accepted list, its outcome is what `sets_exactly_own` says -/
example : (handle env [VL.ofAscii "gen_setter", VL.ofAscii "code_ref_slim=false", VL.ofAscii "code_ref"]).isSome = true := by decide

end Props.C20
