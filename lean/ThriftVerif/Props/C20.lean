import ThriftVerif.Lib.Options
import ThriftVerif.Lib.OptionsLemmas
import ThriftVerif.Generated.C20
/-
  C20 — every documented backend option switches exactly its own feature.
  Property theorems only; helper lemmas live in Lib/OptionsLemmas.lean.
  `env` below is the regenerated table: these theorems are re-checked against
  what /repo's option table, defaults and README say on every run.
-/
namespace Props.C20
open Options Generated.C20

/-- first-match lookup with a prefix test finds an entry's own row whenever no
earlier row's name is a prefix of a later row's name (generic, any table). -/
theorem prefix_safe_lookup (t : List Entry) (h : PrefixSafe t) (e : Entry) (he : e ∈ t) :
    lookup t e.name = some e := Options.lookup_of_prefixSafe t h e he

/-- regenerated obligation: the current table has that property
(`code_ref_slim` before `code_ref`, etc.). -/
theorem table_prefix_safe : PrefixSafe env.table := by decide

/-- regenerated obligation: every row of the README option table is a row of the
option table, every boolean row documents the default the code has, and every
table row except the deprecated `always_gen_json_tag` is documented. -/
theorem documented_accepted :
    (documented.all fun (n, d) =>
      match env.table.find? (fun e => e.name == n), d with
      | some ⟨_, .feature i⟩, some b => env.defaults.getD i (!b) == b
      | some ⟨_, .feature _⟩, none => false
      | some ⟨_, .ignoreInitialisms⟩, some b => b == false
      | some _, none => true
      | some _, some _ => false
      | none, _ => false) = true ∧
    (env.table.all fun e =>
      documented.any (fun (n, _) => n == e.name) ||
      e.name == [97, 108, 119, 97, 121, 115, 95, 103, 101, 110, 95, 106, 115, 111, 110, 95, 116, 97, 103]) = true := by
  decide

/-- every feature row points inside the defaults vector and rows are pairwise distinct features -/
theorem table_wellformed : TableWF env = true := by decide

/-- **sets exactly its own** (unbounded in the length of the option list, any
names, documented or not): when the list is accepted, boolean feature `i` holds
the value of the last option of the list that *resolves* to feature `i`, or its
default when there is none; the single cross effect is the slim rule. -/
theorem sets_exactly_own (args : List Bytes) (c : Cfg) (h : handle env args = some c) (i : Nat)
    (hi : i < env.defaults.length) :
    feat c i =
      if c.template = env.slimName ∧ i = env.iDeepEqual then false
      else (lastSetting env i args).getD (env.defaults.getD i false) :=
  Options.handle_feat env args c h i hi

/-- … and for a documented name given exactly, resolution is the identity: the
option `name`, `name=true`, `name=false` is a setting of its own feature and of
no other one, wherever it stands and whatever names extend or prefix it. -/
theorem documented_name_resolves (e : Entry) (he : e ∈ env.table) (v : Option Bytes) :
    resolve env (joinEq e.name v) = some (e.kind, v.getD []) := by
  have := prefix_safe_lookup env.table table_prefix_safe e he
  exact Options.resolve_joinEq env e v this (name_no_eq e he)
where
  name_no_eq (e : Entry) (he : e ∈ env.table) : (61 : Nat) ∉ e.name := by
    revert e; decide

/-- slim disables deep-equal -/
theorem slim_disables_deep_equal (args : List Bytes) (c : Cfg) (h : handle env args = some c)
    (hs : c.template = env.slimName) : feat c env.iDeepEqual = false :=
  Options.handle_slim env args c h hs (by decide)

/-- **reject iff**: the list is rejected exactly when some option in it is
rejected by its own action in the state reached so far (non-boolean value for a
boolean option, unknown naming style / template, `use_package` without `=`), or
the final configuration is one of the four documented invalid combinations. -/
theorem reject_iff (args : List Bytes) :
    handle env args = none ↔
      (run env (init env) args = none ∨
       ∃ c, run env (init env) args = some c ∧ invalid env (slimRule env c) = true) :=
  Options.handle_none_iff env args

/-- the rejection of a single option depends only on that option's own text
(never on what precedes it) -/
theorem step_reject_local (c c' : Cfg) (a : Bytes) :
    (step env c a = none) ↔ (step env c' a = none) := Options.step_none_local env c c' a

/-- the naming style and the initialisms switch: `naming_style=…` alone leaves
the initialisms correction at its documented default (on).  Needs
`env.doInit0 = true`, a regenerated fact. -/
theorem naming_style_keeps_initialisms :
    ∀ s ∈ env.styles,
      (handle env [joinEq [110, 97, 109, 105, 110, 103, 95, 115, 116, 121, 108, 101] (some s)]).map
        (fun c => (c.style, c.effInit)) = some (s, true) := by
  decide

/- non-vacuity: a concrete accepted list, its outcome is what `sets_exactly_own` says -/
example : (handle env [VL.ofAscii "gen_setter", VL.ofAscii "code_ref_slim=false", VL.ofAscii "code_ref"]).isSome = true := by decide

end Props.C20
