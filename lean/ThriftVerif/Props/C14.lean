/- C14 property theorems (stub: not built yet) -/
