import ThriftVerif.Lib.FieldMask
import ThriftVerif.Lib.FieldMaskSpec
import ThriftVerif.Lib.FieldMaskLemmas
import ThriftVerif.Generated.C14
/-
  C14 — field-mask library: queries and JSON transport agree with path semantics.
  Property theorems only; the model is Lib/FieldMask.lean, the specification (`Sel`, `shadow`,
  `NoStarConflict`) is Lib/FieldMaskSpec.lean, helper lemmas are in Lib/FieldMaskLemmas.lean.

  All theorems hold for EVERY panic-site configuration `cfg : Sites` (the tree as found, the tree
  with any subset of the proposed repairs); `Generated.C14.sites` is the configuration probed on
  the tree under test, used by the driver and quoted in the evidence.
-/
namespace Props.C14
open FieldMask

/-! ## queries answer as the path set prescribes -/

/-- **queries_match_paths.**  Let the path strings have the meanings `ts` for the descriptor
(`meaning` reads the strings with the tokenizer and the descriptor only — never a mask), let the
denoted path set `expandAll ts` be free of '*' conflicts, and — in black-list mode, while the isAll branch of
Field/Int/Str still answers `self.hasChild()` (`cfg.blackStar`) — let no path end in '*'.  Then NewFieldMask succeeds, and every non-empty sequence of `Field/Int/Str` calls that
does not panic answers exactly `Sel black (expandAll ts)`.  No bound on the number or length of
paths, the schema, or the query. -/
theorem queries_match_paths (cfg : Sites) (sch : Schema) (huniq : sch.uniqueIds = true)
    (desc : Ty) (black : Bool) (paths : List Bytes) (ts : List ATree)
    (hmean : meaning cfg sch desc paths = .ok ts)
    (hnc : NoStarConflict (expandAll ts) = true)
    (hnts : black = true → cfg.blackStar = true → NoTerminalStar (expandAll ts) = true) :
    ∃ m, newFieldMask cfg sch desc black paths = .ok m ∧
      ∀ (q : List QStep) (b : Bool), q ≠ [] → walk cfg (.some m) q = .ok b → b = Sel black (expandAll ts) q := by
  unfold meaning at hmean
  rw [Res.bind_eq_ok] at hmean
  obtain ⟨d, hd, hmean⟩ := hmean
  have hd' := liftO_eq_ok.mp hd
  obtain ⟨m, hm, hrep⟩ := newMask_rep (cfg := cfg) (black := black) huniq hd' paths (Mask.zero.setIsBlack black) [] ts
    (Or.inl ⟨rfl, Mask.zero_fresh black⟩) hmean (by simpa using (NoStarConflict_iff _).mp hnc)
  refine ⟨m, hm, ?_⟩
  intro q b hq hw
  simp only [List.nil_append] at hrep
  cases hrep with
  | inl hf =>
    -- no path at all: the untyped root passes everything
    obtain ⟨he, _⟩ := hf
    have hts : paths = [] := by
      cases paths with
      | nil => rfl
      | cons p ps =>
        simp only [pathsMeaning] at hmean
        rw [Res.bind_eq_ok] at hmean
        obtain ⟨t, ht, hmean⟩ := hmean
        rw [Res.bind_eq_ok] at hmean
        obtain ⟨ts', _, hmean⟩ := hmean
        simp only [Res.ok.injEq] at hmean
        subst hmean
        rw [expandAll_cons] at he
        exact absurd (List.append_eq_nil_iff.mp he).1 ((addLoop_recOK (cfg := cfg) (black := black) huniq _).ne _ _ _ _ ht)
    subst hts
    simp only [newFieldMask, newMask, Res.ok.injEq] at hm
    subst hm
    rw [walk_untyped (by rfl)] at hw
    simp only [Res.ok.injEq] at hw
    subst hw
    rw [he]
    cases black <;> rfl
  | inr hr =>
    rw [Sel_eq_SelN hr.ne_nil]
    exact walk_rep q d m _ b hr hnts (Or.inl hq) hw

/-- the hypotheses of `queries_match_paths` are satisfiable: `$.a` and `$.l[1,3]` on the witness schema
`wS` = `struct S {-1: string neg, 1: string a, 2: list<string> l, 3: map<string,S> m, 4: S s}` -/
example : wS.uniqueIds = true ∧
    ((meaning Sites.asFound wS rS [[36, 46, 97], [36, 46, 108, 91, 49, 44, 51, 93]]).get?.map
      fun ts => (expandAll ts, NoStarConflict (expandAll ts), NoTerminalStar (expandAll ts))) =
      some (([[.field 1], [.field 2, .idx 1], [.field 2, .idx 3]] : List APath), true, true) := by decide

/-- black list, final '*': the full statement is FALSE on the code (and on the model).
`$.l[*]` in black-list mode: `Field(2)` then `Int(3)` answers true, the path set rejects it. -/
example :
    ((newFieldMask Sites.asFound wS rS true [[36, 46, 108, 91, 42, 93]]).get?.map
      fun m => (walk Sites.asFound (.some m) ([.field 2, .int 3] : List QStep)).get?) = some (some true) ∧
    Sel true ([[.field 2, .any]] : List APath) ([.field 2, .int 3] : List QStep) = false := by decide

/-! ## order and grouping -/

/-- **order_independent.**  Two path lists (any order, any grouping of indices/keys into brackets)
that denote the same conflict-free path SET build masks that answer every query identically. -/
theorem order_independent (cfg : Sites) (sch : Schema) (huniq : sch.uniqueIds = true)
    (desc : Ty) (black : Bool) (paths paths' : List Bytes) (ts ts' : List ATree)
    (hmean : meaning cfg sch desc paths = .ok ts) (hmean' : meaning cfg sch desc paths' = .ok ts')
    (hsame : ∀ p, p ∈ expandAll ts ↔ p ∈ expandAll ts')
    (hnc : NoStarConflict (expandAll ts) = true) (hnc' : NoStarConflict (expandAll ts') = true)
    (hnts : black = true → cfg.blackStar = true → NoTerminalStar (expandAll ts) = true ∧ NoTerminalStar (expandAll ts') = true) :
    ∃ m m', newFieldMask cfg sch desc black paths = .ok m ∧ newFieldMask cfg sch desc black paths' = .ok m' ∧
      ∀ (q : List QStep) (b b' : Bool), q ≠ [] →
        walk cfg (.some m) q = .ok b → walk cfg (.some m') q = .ok b' → b = b' := by
  obtain ⟨m, hm, h1⟩ := queries_match_paths cfg sch huniq desc black paths ts hmean hnc (fun h h' => (hnts h h').1)
  obtain ⟨m', hm', h2⟩ := queries_match_paths cfg sch huniq desc black paths' ts' hmean' hnc' (fun h h' => (hnts h h').2)
  refine ⟨m, m', hm, hm', ?_⟩
  intro q b b' hq hw hw'
  rw [h1 q b hq hw, h2 q b' hq hw']
  have hany : ∀ f : APath → Bool, (expandAll ts).any f = (expandAll ts').any f := by
    intro f
    rw [Bool.eq_iff_iff, List.any_eq_true, List.any_eq_true]
    constructor
    · rintro ⟨p, hp, h⟩; exact ⟨p, (hsame p).mp hp, h⟩
    · rintro ⟨p, hp, h⟩; exact ⟨p, (hsame p).mpr hp, h⟩
  have hemp : (expandAll ts).isEmpty = (expandAll ts').isEmpty := by
    cases h1 : expandAll ts with
    | nil =>
      cases h2 : expandAll ts' with
      | nil => rfl
      | cons p l => have := (hsame p).mpr (by simp [h2]); simp [h1] at this
    | cons p l =>
      cases h2 : expandAll ts' with
      | nil => have := (hsame p).mp (by simp [h1]); simp [h2] at this
      | cons p' l' => rfl
  unfold Sel
  rw [hany, hany, hemp]

/-- `$.l[1,3]` and `$.l[3]`,`$.l[1]` denote the same set -/
example :
    ((meaning Sites.asFound wS rS [[36, 46, 108, 91, 49, 44, 51, 93]]).get?.map expandAll,
     (meaning Sites.asFound wS rS [[36, 46, 108, 91, 51, 93], [36, 46, 108, 91, 49, 93]]).get?.map expandAll) =
    (some ([[.field 2, .idx 1], [.field 2, .idx 3]] : List APath), some ([[.field 2, .idx 3], [.field 2, .idx 1]] : List APath)) := by decide

/-! ## errors -/

/-- **error_iff** (the provable half).  For path strings of the regular fragment (`meaning` defined):
a conflict-free list is accepted; hence a rejection — or a panic, or non-termination — of a regular
list implies a '*' conflict.  The classes of strings `meaning` rejects are those of `shadow`:
token error, `$`/literal out of place, unknown field, wrong container kind, key kind mismatch, empty
index/key set, unsupported element type, plus the three irregular spellings listed in Lib/FieldMaskSpec.lean.
The converse ("every conflict is rejected") is FALSE on the code: see the witnesses below. -/
theorem error_iff (cfg : Sites) (sch : Schema) (huniq : sch.uniqueIds = true)
    (desc : Ty) (black : Bool) (paths : List Bytes) (ts : List ATree)
    (hmean : meaning cfg sch desc paths = .ok ts) :
    (NoStarConflict (expandAll ts) = true → ∃ m, newFieldMask cfg sch desc black paths = .ok m) ∧
    ((∀ m, newFieldMask cfg sch desc black paths ≠ .ok m) → NoStarConflict (expandAll ts) = false) := by
  have key : NoStarConflict (expandAll ts) = true → ∃ m, newFieldMask cfg sch desc black paths = .ok m := by
    intro hnc
    unfold meaning at hmean
    rw [Res.bind_eq_ok] at hmean
    obtain ⟨d, hd, hmean⟩ := hmean
    obtain ⟨m, hm, _⟩ := newMask_rep (cfg := cfg) (black := black) huniq (liftO_eq_ok.mp hd) paths
      (Mask.zero.setIsBlack black) [] ts (Or.inl ⟨rfl, Mask.zero_fresh black⟩) hmean
      (by simpa using (NoStarConflict_iff _).mp hnc)
    exact ⟨m, hm⟩
  refine ⟨key, ?_⟩
  intro h
  cases hc : NoStarConflict (expandAll ts) with
  | false => rfl
  | true => obtain ⟨m, hm⟩ := key hc; exact absurd hm (h m)

/-- a conflict is rejected or not depending on the order: `$.s.a`,`$.s` is accepted, `$.s`,`$.s.a` is an error -/
example :
    (newFieldMask Sites.asFound wS rS false [[36, 46, 115, 46, 97], [36, 46, 115]]).get?.isSome = true ∧
    (newFieldMask Sites.asFound wS rS false [[36, 46, 115], [36, 46, 115, 46, 97]]).isErr = true := by decide

/-- irregular spelling accepted by the code: `$.l[,]` selects the list and nothing in it -/
example : (newFieldMask Sites.asFound wS rS false [[36, 46, 108, 91, 44, 93]]).get?.isSome = true ∧
    (meaning Sites.asFound wS rS [[36, 46, 108, 91, 44, 93]]).isErr = true := by decide


/-! ## JSON transport -/

/-- **json_roundtrip.**  For a mask built from a regular, conflict-free, non-empty path list whose keys are
`JsonSafe` (field ids fit int32 — and are non-negative while `head[f]` is unguarded —, indices fit int64, no
string key is `"*"`): MarshalJSON succeeds, UnmarshalJSON of that tree (`JOut.toIn`: the stated assumption
about strconv.Itoa/Quote followed by encoding/json) succeeds, and the new mask answers every query exactly as
the path set prescribes — hence exactly as the original.  (Text stability — marshal twice, marshal after a
round trip — is checked on the implementation by the harness oracle.) -/
theorem json_roundtrip (cfg : Sites) (sch : Schema) (huniq : sch.uniqueIds = true)
    (desc : Ty) (black : Bool) (paths : List Bytes) (ts : List ATree)
    (hmean : meaning cfg sch desc paths = .ok ts)
    (hnc : NoStarConflict (expandAll ts) = true)
    (hnts : black = true → cfg.blackStar = true → NoTerminalStar (expandAll ts) = true)
    (hne : expandAll ts ≠ [])
    (hsafe : JsonSafe cfg (expandAll ts) = true) :
    ∃ m j m', newFieldMask cfg sch desc black paths = .ok m ∧ marshal m = .ok j ∧
      unmarshal cfg (some j.toIn) = .ok m' ∧
      ∀ (q : List QStep), q ≠ [] →
        (∀ b, walk cfg (.some m) q = .ok b → b = Sel black (expandAll ts) q) ∧
        (∀ b, walk cfg (.some m') q = .ok b → b = Sel black (expandAll ts) q) := by
  unfold meaning at hmean
  rw [Res.bind_eq_ok] at hmean
  obtain ⟨d, hd, hmean⟩ := hmean
  obtain ⟨m, hm, hrep⟩ := newMask_rep (cfg := cfg) (black := black) huniq (liftO_eq_ok.mp hd) paths
    (Mask.zero.setIsBlack black) [] ts (Or.inl ⟨rfl, Mask.zero_fresh black⟩) hmean
    (by simpa using (NoStarConflict_iff _).mp hnc)
  simp only [List.nil_append] at hrep
  have hr := hrep.rep hne
  obtain ⟨j, hj, m', hm', hr'⟩ := json_roundtrip_rep (cfg := cfg) hr hsafe
  refine ⟨m, j, m', hm, hj, hm', ?_⟩
  intro q hq
  constructor
  · intro b hw
    rw [Sel_eq_SelN hne]
    exact walk_rep q d m _ b hr hnts (Or.inl hq) hw
  · intro b hw
    rw [Sel_eq_SelN hne]
    exact walk_rep q d m' _ b hr' hnts (Or.inl hq) hw

/-- the string key `"*"` is read back as the wildcard: `$.m{"*"}` selects one key before the round trip and
every key after it (`Str("a")` under field 3: false before, true after) -/
example :
    ((newFieldMask Sites.asFound wS rS false [[36, 46, 109, 123, 34, 42, 34, 125]]).get?.map fun m =>
      ((walk Sites.asFound (.some m) ([.field 3, .str [97]] : List QStep)).get?,
       (marshal m).get?.map fun j => (unmarshal Sites.asFound (some j.toIn)).get?.map fun m' =>
         (walk Sites.asFound (.some m') ([.field 3, .str [97]] : List QStep)).get?)) =
    some (some false, some (some (some true))) := by decide

/-- a mask built from no path marshals to type "Invalid", which UnmarshalJSON rejects -/
example :
    ((newFieldMask Sites.asFound wS rS false []).get?.map fun m =>
      (marshal m).get?.map fun j => (unmarshal Sites.asFound (some j.toIn)).isErr) = some (some true) := by decide

/-! ## panics -/

/- **no_panic** — the full statement, FALSE on the tree as found (9 sites, witnesses below):

   theorem no_panic (sch desc black paths q gp doc) (s : Site) :
       newFieldMask Sites.asFound sch desc black paths ≠ .panic s ∧
       (∀ m, walk Sites.asFound m q ≠ .panic s) ∧ (∀ m, forEachChild Sites.asFound m ≠ .panic s) ∧
       (∀ m, getPath Sites.asFound sch m desc gp ≠ .panic s) ∧ unmarshal Sites.asFound doc ≠ .panic s
-/

/-- **no_panic_partial.**  With the panic sites as found (any `cfg`):
* NewFieldMask does not panic when field ids are non-negative and every path is `tokSafe`;
* a query sequence does not panic when it holds no negative field id and `Field()` is not asked of a
  node without field map (`fieldNilFd`: the only way is a `Field` call on a list/map node);
* UnmarshalJSON does not panic when no child path of the document is a negative int32;
* every panic of GetPath/PathInMask and ForEachChild happens at a site that is still enabled. -/
theorem no_panic_partial (cfg : Sites) (sch : Schema) (s : Site) :
    (∀ desc black paths, (cfg.headNeg = true → idsNonneg sch = true) → (∀ p ∈ paths, tokSafe cfg p = true) →
        newFieldMask cfg sch desc black paths ≠ .panic s) ∧
    (∀ cur q, (∀ id, QStep.field id ∈ q → 0 ≤ id) → cfg.fieldNilFd = false → walk cfg cur q ≠ .panic s) ∧
    (∀ doc, (∀ j, doc = some j → j.negId = false) → unmarshal cfg doc ≠ .panic s) ∧
    (∀ m desc gp, getPath cfg sch m desc gp = .panic s → cfg.enabled s = true) ∧
    (∀ m, forEachChild cfg m = .panic s → cfg.enabled s = true) := by
  refine ⟨?_, ?_, ?_, ?_, ?_⟩
  · intro desc black paths hids htok h
    obtain ⟨p, hp, hc⟩ := newMask_panic paths _ h
    exact cause_absurd hids (htok p hp) hc
  · intro cur q hq hnil h
    rcases walk_panic q cur h with ⟨_, _, id, hmem, hneg⟩ | ⟨_, hc⟩
    · have := hq id hmem; omega
    · simp [hnil] at hc
  · intro doc hdoc h
    obtain ⟨_, _, j, hj, hneg⟩ := unmarshal_panic h
    simp [hdoc j hj] at hneg
  · intro m desc gp h; exact getPath_panic h
  · intro m h; exact (forEachChild_panic h).1

example : idsNonneg { structs := [([83], [⟨1, [97], .named [115, 116, 114, 105, 110, 103]⟩])], typedefs := [], enums := [] } = true ∧
    tokSafe Sites.asFound [36, 46, 108, 91, 49, 44, 51, 93] = true := by decide

/-- **no_panic_repaired.**  With every proposed repair applied (`Sites.repaired`) no operation of the
library panics, for every schema, descriptor, path list, query sequence and document. -/
theorem no_panic_repaired (sch : Schema) (s : Site) :
    (∀ desc black paths, newFieldMask Sites.repaired sch desc black paths ≠ .panic s) ∧
    (∀ cur q, walk Sites.repaired cur q ≠ .panic s) ∧
    (∀ doc, unmarshal Sites.repaired doc ≠ .panic s) ∧
    (∀ m desc gp, getPath Sites.repaired sch m desc gp ≠ .panic s) ∧
    (∀ m, forEachChild Sites.repaired m ≠ .panic s) := by
  refine ⟨?_, ?_, ?_, ?_, ?_⟩
  · intro desc black paths h
    obtain ⟨p, _, hc⟩ := newMask_panic paths _ h
    have := hc.enabled
    cases s <;> simp [Sites.enabled, Sites.repaired] at this
  · intro cur q h
    rcases walk_panic q cur h with ⟨_, hc, _⟩ | ⟨_, hc⟩ <;> simp [Sites.repaired] at hc
  · intro doc h
    obtain ⟨_, hc, _⟩ := unmarshal_panic h
    simp [Sites.repaired] at hc
  · intro m desc gp h
    have := getPath_panic h
    cases s <;> simp [Sites.enabled, Sites.repaired] at this
  · intro m h
    obtain ⟨hc, hs⟩ := forEachChild_panic h
    rcases hs with rfl | rfl <;> simp [Sites.enabled, Sites.repaired] at hc


/-- the nine panic sites of the tree as found, each with a minimal input (all replayed on the real code by
the harness, see `seeded()` in harness/cmd/c14): -/
example :
    -- NewFieldMask(S, "$.neg")                      head[-1]
    (newFieldMask Sites.asFound wS rS false [[36, 46, 110, 101, 103]]).panicSite = some .headNeg ∧
    -- NewFieldMask(S, "$.99999999999999999999")     strconv.Atoi error -> panic(err)
    (newFieldMask Sites.asFound wS rS false [[36, 46] ++ List.replicate 20 57]).panicSite = some .atoi ∧
    -- NewFieldMask(S, "$.3000000000")               Int32(): "integer overflow"
    (newFieldMask Sites.asFound wS rS false [[36, 46, 51, 48, 48, 48, 48, 48, 48, 48, 48, 48]]).panicSite = some .int32 ∧
    -- NewFieldMask(S, `$.m{"a}`)                    newPathToken(pathTypeERR): "unspported pathType"
    (newFieldMask Sites.asFound wS rS false [[36, 46, 109, 123, 34, 97, 125]]).panicSite = some .errTok ∧
    -- NewFieldMask(S, `$.m{"a\`)                    src[pos:len+1]
    (newFieldMask Sites.asFound wS rS false [[36, 46, 109, 123, 34, 97, 92]]).panicSite = some .strSlice := by decide

example :
    -- m := NewFieldMask(S, "$.*"); m.PathInMask(S, "$.*")       f.GetID() on a nil field descriptor
    ((newFieldMask Sites.asFound wS rS false [[36, 46, 42]]).get?.map
      fun m => (getPath Sites.asFound wS (.some m) rS [36, 46, 42]).panicSite) = some (some .getPathStar) ∧
    -- m := NewFieldMask(S, "$.l[1]"); l, _ := m.Field(2); l.Field(0)     (*fieldMap)(nil).Get
    ((newFieldMask Sites.asFound wS rS false [[36, 46, 108, 91, 49, 93]]).get?.map
      fun m => (walk Sites.asFound (.some m) ([.field 2, .field 0] : List QStep)).panicSite) = some (some .fieldNilFd) ∧
    -- NewFieldMask(S, "$").ForEachChild(..)          fm.tail with fm == nil
    ((newFieldMask Sites.asFound wS rS false [[36]]).get?.map
      fun m => (forEachChild Sites.asFound (.some m)).panicSite) = some (some .foreachNilFd) ∧
    -- NewFieldMask(S).ForEachChild(..)               explicit panic for typ == 0
    ((newFieldMask Sites.asFound wS rS false []).get?.map
      fun m => (forEachChild Sites.asFound (.some m)).panicSite) = some (some .foreachInvalid) ∧
    -- UnmarshalJSON(`{"path":"$","type":"Struct","children":[{"path":-1,"type":"Scalar"}]}`)    head[-1]
    (unmarshal Sites.asFound (some (.mk ⟨true, false, none, none, some [36]⟩ .struct false
      (.cons (.mk ⟨false, false, some (-1), some (-1), none⟩ .scalar false .nil) .nil)))).panicSite = some .headNeg := by
  decide

/-! ## termination of GetPath -/

/-- **getpath_terminates_partial.**  GetPath/PathInMask return when every token read at a non-empty suffix
of the path consumes input (`progressB`, decidable).  The full statement is false: a backslash outside a
quoted string yields an empty literal token without advancing, and the index/key loops `continue` on
any token when the node is "all" — witness below (`$.m{*}` then PathInMask(`$.m{\`), non-termination
observed on the real code by the harness). -/
theorem getpath_terminates_partial (cfg : Sites) (sch : Schema) (m : MaskOpt) (desc : Ty) (path : Bytes)
    (h : progressB cfg path = true) : getPath cfg sch m desc path ≠ .crash :=
  getPath_total (progress_of_progressB h)

example : progressB Sites.asFound [36, 46, 109, 123, 34, 97, 34, 125] = true ∧
    progressB Sites.asFound [36, 46, 109, 123, 92] = false ∧
    ((newFieldMask Sites.asFound wS rS false [[36, 46, 109, 123, 42, 125]]).get?.map
      fun m => (getPath Sites.asFound wS (.some m) rS [36, 46, 109, 123, 92]).isCrash) = some true := by decide


/-- **getpath_terminates_repaired.**  Once `lit()` always makes progress (`cfg.litStall = false`, repair D10)
GetPath/PathInMask return for every mask, descriptor and path. -/
theorem getpath_terminates_repaired (cfg : Sites) (hfix : cfg.litStall = false) (sch : Schema) (m : MaskOpt)
    (desc : Ty) (path : Bytes) : getPath cfg sch m desc path ≠ .crash :=
  getPath_total (progress_of_repaired hfix path)

end Props.C14
