/-
  VL: the line protocol shared by the Go harness and the Lean driver.
  One operation per line, tokens separated by single spaces, every Go string
  hex-encoded byte-wise ("-" is the empty string).  Go strings are modelled as
  `Bytes = List Nat` (each element < 256) everywhere in the models.
-/
abbrev Bytes := List Nat

namespace VL

def hexVal (c : Char) : Option Nat :=
  if '0' ≤ c ∧ c ≤ '9' then some (c.toNat - '0'.toNat)
  else if 'a' ≤ c ∧ c ≤ 'f' then some (c.toNat - 'a'.toNat + 10)
  else none

def hexDecodeAux : List Char → Option Bytes
  | [] => some []
  | [_] => none
  | a :: b :: r => do
    let x ← hexVal a
    let y ← hexVal b
    let t ← hexDecodeAux r
    pure ((x * 16 + y) :: t)

def hexDecode (s : String) : Option Bytes :=
  if s = "-" then some [] else hexDecodeAux s.toList

def hexDigit (n : Nat) : Char :=
  if n < 10 then Char.ofNat (n + 48) else Char.ofNat (n + 87)

def hexEncode (b : Bytes) : String :=
  if b.isEmpty then "-"
  else String.ofList (b.flatMap fun x => [hexDigit (x / 16), hexDigit (x % 16)])

/-- ASCII text of a byte string, for messages only. -/
def ascii (b : Bytes) : String := String.ofList (b.map Char.ofNat)

def ofAscii (s : String) : Bytes := s.toList.map Char.toNat

def toks (line : String) : List String :=
  (line.trimAscii.toString.splitOn " ").filter (· ≠ "")

def boolStr (b : Bool) : String := if b then "1" else "0"

end VL
