import ThriftVerif.Core.VL
/-
  Core/Wire: the Thrift binary protocol on untyped wire values.
-/

namespace Wire

inductive TType | bool | i8 | dbl | i16 | i32 | i64 | str | struct | map | set | list
  deriving DecidableEq, Repr, Inhabited

def TType.code : TType → Nat
  | .bool => 2 | .i8 => 3 | .dbl => 4 | .i16 => 6 | .i32 => 8 | .i64 => 10
  | .str => 11 | .struct => 12 | .map => 13 | .set => 14 | .list => 15

def TType.ofCode (n : Nat) : Option TType :=
  if n = 2 then some .bool else if n = 3 then some .i8 else if n = 4 then some .dbl
  else if n = 6 then some .i16 else if n = 8 then some .i32 else if n = 10 then some .i64
  else if n = 11 then some .str else if n = 12 then some .struct else if n = 13 then some .map
  else if n = 14 then some .set else if n = 15 then some .list else none

theorem TType.ofCode_code (t : TType) : TType.ofCode t.code = some t := by cases t <;> rfl
theorem TType.code_pos (t : TType) : 0 < t.code := by cases t <;> decide
theorem TType.code_lt (t : TType) : t.code < 256 := by cases t <;> decide

/-- integers are carried as unsigned bit patterns of their width -/
inductive WVal
  | bool (b : Bool)
  | i8 (v : Nat) | dbl (bits : Nat) | i16 (v : Nat) | i32 (v : Nat) | i64 (v : Nat)
  | bin (bs : Bytes)
  | struct (fs : List (Nat × WVal))
  | map (kt vt : TType) (kvs : List (WVal × WVal))
  | set (et : TType) (xs : List WVal)
  | list (et : TType) (xs : List WVal)
  deriving Repr, Inhabited

def WVal.ttype : WVal → TType
  | .bool _ => .bool | .i8 _ => .i8 | .dbl _ => .dbl | .i16 _ => .i16 | .i32 _ => .i32
  | .i64 _ => .i64 | .bin _ => .str | .struct _ => .struct | .map .. => .map
  | .set .. => .set | .list .. => .list

/-- n bytes, big endian, of v mod 256^n -/
def be : Nat → Nat → Bytes
  | 0, _ => []
  | n+1, v => be n (v / 256) ++ [v % 256]

def unbe (bs : Bytes) : Nat := bs.foldl (fun a b => a * 256 + b) 0

theorem be_length (n v : Nat) : (be n v).length = n := by
  induction n generalizing v with
  | zero => rfl
  | succ n ih => simp [be, ih]

theorem unbe_append (a : Bytes) (b : Nat) : unbe (a ++ [b]) = unbe a * 256 + b := by
  simp [unbe, List.foldl_append]

theorem unbe_be (n v : Nat) (h : v < 256 ^ n) : unbe (be n v) = v := by
  induction n generalizing v with
  | zero => simp [be, unbe]; omega
  | succ n ih =>
    rw [be, unbe_append, ih (v / 256)]
    · omega
    · rw [Nat.pow_succ] at h; omega

def readN (n : Nat) (bs : Bytes) : Option (Nat × Bytes) :=
  if bs.length < n then none else some (unbe (bs.take n), bs.drop n)

theorem readN_be (n v : Nat) (r : Bytes) (h : v < 256 ^ n) : readN n (be n v ++ r) = some (v, r) := by
  have hl := be_length n v
  unfold readN
  have : ¬ (be n v ++ r).length < n := by simp [hl]
  simp only [this, if_false]
  rw [List.take_left' hl, List.drop_left' hl, unbe_be n v h]

def readBytes (n : Nat) (bs : Bytes) : Option (Bytes × Bytes) :=
  if bs.length < n then none else some (bs.take n, bs.drop n)

mutual
def encW : WVal → Bytes
  | .bool b => [if b then 1 else 0]
  | .i8 v => be 1 v
  | .dbl v => be 8 v
  | .i16 v => be 2 v
  | .i32 v => be 4 v
  | .i64 v => be 8 v
  | .bin bs => be 4 bs.length ++ bs
  | .struct fs => encFields fs ++ [0]
  | .map kt vt kvs => [kt.code, vt.code] ++ be 4 kvs.length ++ encPairs kvs
  | .set et xs => [et.code] ++ be 4 xs.length ++ encList xs
  | .list et xs => [et.code] ++ be 4 xs.length ++ encList xs
def encFields : List (Nat × WVal) → Bytes
  | [] => []
  | (id, v) :: r => [v.ttype.code] ++ be 2 id ++ encW v ++ encFields r
def encPairs : List (WVal × WVal) → Bytes
  | [] => []
  | (k, v) :: r => encW k ++ encW v ++ encPairs r
def encList : List WVal → Bytes
  | [] => []
  | x :: r => encW x ++ encList r
end

mutual
def WVal.depth : WVal → Nat
  | .struct fs => depthFields fs + 1
  | .map _ _ kvs => depthPairs kvs + 1
  | .set _ xs => depthList xs + 1
  | .list _ xs => depthList xs + 1
  | _ => 1
def depthFields : List (Nat × WVal) → Nat
  | [] => 0
  | (_, v) :: r => max v.depth (depthFields r)
def depthPairs : List (WVal × WVal) → Nat
  | [] => 0
  | (k, v) :: r => max (max k.depth v.depth) (depthPairs r)
def depthList : List WVal → Nat
  | [] => 0
  | x :: r => max x.depth (depthList r)
end

def maxSize : Nat := 2147483648  -- sizes are int32 ≥ 0

mutual
def WF : WVal → Prop
  | .bool _ => True
  | .i8 v => v < 256 ^ 1
  | .dbl v => v < 256 ^ 8
  | .i16 v => v < 256 ^ 2
  | .i32 v => v < 256 ^ 4
  | .i64 v => v < 256 ^ 8
  | .bin bs => bs.length < maxSize
  | .struct fs => WFFields fs
  | .map kt vt kvs => kvs.length < maxSize ∧ WFPairs kt vt kvs
  | .set et xs => xs.length < maxSize ∧ WFList et xs
  | .list et xs => xs.length < maxSize ∧ WFList et xs
def WFFields : List (Nat × WVal) → Prop
  | [] => True
  | (id, v) :: r => id < 256 ^ 2 ∧ WF v ∧ WFFields r
def WFPairs (kt vt : TType) : List (WVal × WVal) → Prop
  | [] => True
  | (k, v) :: r => k.ttype = kt ∧ v.ttype = vt ∧ WF k ∧ WF v ∧ WFPairs kt vt r
def WFList (et : TType) : List WVal → Prop
  | [] => True
  | x :: r => x.ttype = et ∧ WF x ∧ WFList et r
end

/-! decoder: fuel = nesting depth; element loops are structural on the announced count,
the field loop on a gas bounded by the input length -/

def decListWith (d : Bytes → Option (WVal × Bytes)) : Nat → Bytes → Option (List WVal × Bytes)
  | 0, bs => some ([], bs)
  | n+1, bs => match d bs with
    | none => none
    | some (x, r) => match decListWith d n r with
      | none => none
      | some (xs, r') => some (x :: xs, r')

def decPairsWith (dk dv : Bytes → Option (WVal × Bytes)) : Nat → Bytes → Option (List (WVal × WVal) × Bytes)
  | 0, bs => some ([], bs)
  | n+1, bs => match dk bs with
    | none => none
    | some (k, r) => match dv r with
      | none => none
      | some (v, r') => match decPairsWith dk dv n r' with
        | none => none
        | some (kvs, r'') => some ((k, v) :: kvs, r'')

def decFieldsWith (d : TType → Bytes → Option (WVal × Bytes)) : Nat → Bytes → Option (List (Nat × WVal) × Bytes)
  | 0, _ => none
  | _, [] => none
  | g+1, c :: bs =>
    if c = 0 then some ([], bs) else
    match TType.ofCode c with
    | none => none
    | some t => match readN 2 bs with
      | none => none
      | some (id, r) => match d t r with
        | none => none
        | some (v, r') => match decFieldsWith d g r' with
          | none => none
          | some (fs, r'') => some ((id, v) :: fs, r'')

def decW : Nat → TType → Bytes → Option (WVal × Bytes)
  | 0, _, _ => none
  | f+1, t, bs =>
    match t with
    | .bool => match readN 1 bs with | none => none | some (x, r) => some (.bool (x == 1), r)
    | .i8 => match readN 1 bs with | none => none | some (x, r) => some (.i8 x, r)
    | .dbl => match readN 8 bs with | none => none | some (x, r) => some (.dbl x, r)
    | .i16 => match readN 2 bs with | none => none | some (x, r) => some (.i16 x, r)
    | .i32 => match readN 4 bs with | none => none | some (x, r) => some (.i32 x, r)
    | .i64 => match readN 8 bs with | none => none | some (x, r) => some (.i64 x, r)
    | .str => match readN 4 bs with
      | none => none
      | some (n, r) => if n ≥ maxSize then none else
        match readBytes n r with | none => none | some (b, r') => some (.bin b, r')
    | .struct => match decFieldsWith (decW f) (bs.length + 1) bs with
      | none => none
      | some (fs, r) => some (.struct fs, r)
    | .map => match bs with
      | kc :: vc :: r => match TType.ofCode kc, TType.ofCode vc with
        | some kt, some vt => match readN 4 r with
          | none => none
          | some (n, r') => if n ≥ maxSize then none else
            match decPairsWith (decW f kt) (decW f vt) n r' with
            | none => none
            | some (kvs, r'') => some (.map kt vt kvs, r'')
        | _, _ => none
      | _ => none
    | .set => match bs with
      | ec :: r => match TType.ofCode ec with
        | some et => match readN 4 r with
          | none => none
          | some (n, r') => if n ≥ maxSize then none else
            match decListWith (decW f et) n r' with
            | none => none
            | some (xs, r'') => some (.set et xs, r'')
        | none => none
      | _ => none
    | .list => match bs with
      | ec :: r => match TType.ofCode ec with
        | some et => match readN 4 r with
          | none => none
          | some (n, r') => if n ≥ maxSize then none else
            match decListWith (decW f et) n r' with
            | none => none
            | some (xs, r'') => some (.list et xs, r'')
        | none => none
      | _ => none

end Wire
