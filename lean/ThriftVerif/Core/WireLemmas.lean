import ThriftVerif.Core.Wire
namespace Wire

theorem pow_facts : (256:Nat)^1 = 256 ∧ (256:Nat)^2 = 65536 ∧ (256:Nat)^4 = 4294967296 ∧ (256:Nat)^8 = 18446744073709551616 := by decide

theorem encFields_length (fs : List (Nat × WVal)) : fs.length ≤ (encFields fs).length := by
  induction fs with
  | nil => simp [encFields]
  | cons a r ih => obtain ⟨id, v⟩ := a; simp [encFields]; omega

theorem readBytes_append (bs r : Bytes) : readBytes bs.length (bs ++ r) = some (bs, r) := by
  unfold readBytes
  simp [List.take_left', List.drop_left']

mutual
theorem decW_encW (w : WVal) : ∀ (f : Nat) (r : Bytes), WF w → w.depth ≤ f →
    decW f w.ttype (encW w ++ r) = some (w, r) := by
  intro f r hwf hd
  cases f with
  | zero => cases w <;> simp [WVal.depth] at hd
  | succ f =>
    cases w with
    | bool b =>
      cases b
      · have := readN_be 1 0 r (by decide)
        simp [be] at this
        simp [decW, WVal.ttype, encW, this]
      · have := readN_be 1 1 r (by decide)
        simp [be] at this
        simp [decW, WVal.ttype, encW, this]
    | i8 v => simp only [WF] at hwf; simp [decW, WVal.ttype, encW, readN_be 1 v r hwf]
    | dbl v => simp only [WF] at hwf; simp [decW, WVal.ttype, encW, readN_be 8 v r hwf]
    | i16 v => simp only [WF] at hwf; simp [decW, WVal.ttype, encW, readN_be 2 v r hwf]
    | i32 v => simp only [WF] at hwf; simp [decW, WVal.ttype, encW, readN_be 4 v r hwf]
    | i64 v => simp only [WF] at hwf; simp [decW, WVal.ttype, encW, readN_be 8 v r hwf]
    | bin bs =>
      simp only [WF, maxSize] at hwf
      have h4 : bs.length < 256 ^ 4 := by have := pow_facts.2.2.1; omega
      have hn : ¬ bs.length ≥ maxSize := by simp [maxSize]; omega
      simp only [decW, WVal.ttype, encW, List.append_assoc, readN_be 4 bs.length (bs ++ r) h4, hn, if_false,
        readBytes_append]
    | struct fs =>
      simp only [WF] at hwf
      simp only [WVal.depth] at hd
      have hlen : fs.length < (encFields fs ++ [0] ++ r).length + 1 := by
        have := encFields_length fs; simp; omega
      have := decFields_enc fs f ((encFields fs ++ [0] ++ r).length + 1) r hwf (by omega) hlen
      simp only [decW, WVal.ttype, encW]
      simp only [List.append_assoc, List.singleton_append] at this ⊢
      rw [this]
    | map kt vt kvs =>
      simp only [WF, maxSize] at hwf
      simp only [WVal.depth] at hd
      have h4 : kvs.length < 256 ^ 4 := by have := pow_facts.2.2.1; omega
      have hn : ¬ kvs.length ≥ maxSize := by simp [maxSize]; omega
      have := decPairs_enc kvs f kt vt r hwf.2 (by omega)
      simp only [decW, WVal.ttype, encW, List.append_assoc, List.cons_append, List.nil_append,
        TType.ofCode_code, readN_be 4 kvs.length _ h4, hn, if_false, this]
    | set et xs =>
      simp only [WF, maxSize] at hwf
      simp only [WVal.depth] at hd
      have h4 : xs.length < 256 ^ 4 := by have := pow_facts.2.2.1; omega
      have hn : ¬ xs.length ≥ maxSize := by simp [maxSize]; omega
      have := decList_enc xs f et r hwf.2 (by omega)
      simp only [decW, WVal.ttype, encW, List.append_assoc, List.cons_append, List.nil_append,
        TType.ofCode_code, readN_be 4 xs.length _ h4, hn, if_false, this]
    | list et xs =>
      simp only [WF, maxSize] at hwf
      simp only [WVal.depth] at hd
      have h4 : xs.length < 256 ^ 4 := by have := pow_facts.2.2.1; omega
      have hn : ¬ xs.length ≥ maxSize := by simp [maxSize]; omega
      have := decList_enc xs f et r hwf.2 (by omega)
      simp only [decW, WVal.ttype, encW, List.append_assoc, List.cons_append, List.nil_append,
        TType.ofCode_code, readN_be 4 xs.length _ h4, hn, if_false, this]

theorem decFields_enc (fs : List (Nat × WVal)) : ∀ (f g : Nat) (r : Bytes), WFFields fs → depthFields fs ≤ f →
    fs.length < g → decFieldsWith (decW f) g (encFields fs ++ 0 :: r) = some (fs, r) := by
  intro f g r hwf hd hg
  cases fs with
  | nil =>
    cases g with
    | zero => simp at hg
    | succ g => simp [encFields, decFieldsWith]
  | cons a rest =>
    obtain ⟨id, v⟩ := a
    simp only [WFFields] at hwf
    simp only [depthFields] at hd
    cases g with
    | zero => simp at hg
    | succ g =>
      have hv := decW_encW v f (encFields rest ++ 0 :: r) hwf.2.1 (by omega)
      have hr := decFields_enc rest f g r hwf.2.2 (by omega) (by simp at hg; omega)
      have hc : v.ttype.code ≠ 0 := by have := TType.code_pos v.ttype; omega
      simp only [encFields, List.append_assoc, List.cons_append, List.nil_append, decFieldsWith, hc, if_false,
        TType.ofCode_code, readN_be 2 id _ hwf.1, hv, hr]

theorem decPairs_enc (kvs : List (WVal × WVal)) : ∀ (f : Nat) (kt vt : TType) (r : Bytes), WFPairs kt vt kvs →
    depthPairs kvs ≤ f →
    decPairsWith (decW f kt) (decW f vt) kvs.length (encPairs kvs ++ r) = some (kvs, r) := by
  intro f kt vt r hwf hd
  cases kvs with
  | nil => simp [encPairs, decPairsWith]
  | cons a rest =>
    obtain ⟨k, v⟩ := a
    simp only [WFPairs] at hwf
    simp only [depthPairs] at hd
    obtain ⟨hk, hv, hwk, hwv, hwr⟩ := hwf
    have h1 := decW_encW k f (encW v ++ (encPairs rest ++ r)) hwk (by omega)
    have h2 := decW_encW v f (encPairs rest ++ r) hwv (by omega)
    have h3 := decPairs_enc rest f kt vt r hwr (by omega)
    rw [hk] at h1; rw [hv] at h2
    simp only [encPairs, List.append_assoc, List.length_cons, decPairsWith, h1, h2, h3]

theorem decList_enc (xs : List WVal) : ∀ (f : Nat) (et : TType) (r : Bytes), WFList et xs → depthList xs ≤ f →
    decListWith (decW f et) xs.length (encList xs ++ r) = some (xs, r) := by
  intro f et r hwf hd
  cases xs with
  | nil => simp [encList, decListWith]
  | cons x rest =>
    simp only [WFList] at hwf
    simp only [depthList] at hd
    obtain ⟨hx, hwx, hwr⟩ := hwf
    have h1 := decW_encW x f (encList rest ++ r) hwx (by omega)
    have h3 := decList_enc rest f et r hwr (by omega)
    rw [hx] at h1
    simp only [encList, List.append_assoc, List.length_cons, decListWith, h1, h3]
end

end Wire
