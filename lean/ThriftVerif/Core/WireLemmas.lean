import ThriftVerif.Core.Wire
namespace Wire

theorem pow_facts : (256:Nat)^1 = 256 ∧ (256:Nat)^2 = 65536 ∧ (256:Nat)^4 = 4294967296 ∧ (256:Nat)^8 = 18446744073709551616 := by decide

theorem encFields_length (fs : List (Nat × WVal)) : fs.length ≤ (encFields fs).length := by
  induction fs with
  | nil => simp [encFields]
  | cons a r ih => obtain ⟨id, v⟩ := a; simp [encFields]; omega

theorem readBytes_append (bs r : Bytes) : readBytes bs.length (bs ++ r) = some (bs, r) := by
  unfold readBytes
  simp [List.take_left', List.drop_left']

mutual
theorem decW_encW (w : WVal) : ∀ (f : Nat) (r : Bytes), WF w → w.depth ≤ f →
    decW f w.ttype (encW w ++ r) = some (w, r) := by
  intro f r hwf hd
  cases f with
  | zero => cases w <;> simp [WVal.depth] at hd
  | succ f =>
    cases w with
    | bool b =>
      cases b
      · have := readN_be 1 0 r (by decide)
        simp [be] at this
        simp [decW, WVal.ttype, encW, this]
      · have := readN_be 1 1 r (by decide)
        simp [be] at this
        simp [decW, WVal.ttype, encW, this]
    | i8 v => simp only [WF] at hwf; simp [decW, WVal.ttype, encW, readN_be 1 v r hwf]
    | dbl v => simp only [WF] at hwf; simp [decW, WVal.ttype, encW, readN_be 8 v r hwf]
    | i16 v => simp only [WF] at hwf; simp [decW, WVal.ttype, encW, readN_be 2 v r hwf]
    | i32 v => simp only [WF] at hwf; simp [decW, WVal.ttype, encW, readN_be 4 v r hwf]
    | i64 v => simp only [WF] at hwf; simp [decW, WVal.ttype, encW, readN_be 8 v r hwf]
    | bin bs =>
      simp only [WF, maxSize] at hwf
      have h4 : bs.length < 256 ^ 4 := by have := pow_facts.2.2.1; omega
      have hn : ¬ bs.length ≥ maxSize := by simp [maxSize]; omega
      simp only [decW, WVal.ttype, encW, List.append_assoc, readN_be 4 bs.length (bs ++ r) h4, hn, if_false,
        readBytes_append]
    | struct fs =>
      simp only [WF] at hwf
      simp only [WVal.depth] at hd
      have hlen : fs.length < (encFields fs ++ [0] ++ r).length + 1 := by
        have := encFields_length fs; simp; omega
      have := decFields_enc fs f ((encFields fs ++ [0] ++ r).length + 1) r hwf (by omega) hlen
      simp only [decW, WVal.ttype, encW]
      simp only [List.append_assoc, List.singleton_append] at this ⊢
      rw [this]
    | map kt vt kvs =>
      simp only [WF, maxSize] at hwf
      simp only [WVal.depth] at hd
      have h4 : kvs.length < 256 ^ 4 := by have := pow_facts.2.2.1; omega
      have hn : ¬ kvs.length ≥ maxSize := by simp [maxSize]; omega
      have := decPairs_enc kvs f kt vt r hwf.2 (by omega)
      simp only [decW, WVal.ttype, encW, List.append_assoc, List.cons_append, List.nil_append,
        TType.ofCode_code, readN_be 4 kvs.length _ h4, hn, if_false, this]
    | set et xs =>
      simp only [WF, maxSize] at hwf
      simp only [WVal.depth] at hd
      have h4 : xs.length < 256 ^ 4 := by have := pow_facts.2.2.1; omega
      have hn : ¬ xs.length ≥ maxSize := by simp [maxSize]; omega
      have := decList_enc xs f et r hwf.2 (by omega)
      simp only [decW, WVal.ttype, encW, List.append_assoc, List.cons_append, List.nil_append,
        TType.ofCode_code, readN_be 4 xs.length _ h4, hn, if_false, this]
    | list et xs =>
      simp only [WF, maxSize] at hwf
      simp only [WVal.depth] at hd
      have h4 : xs.length < 256 ^ 4 := by have := pow_facts.2.2.1; omega
      have hn : ¬ xs.length ≥ maxSize := by simp [maxSize]; omega
      have := decList_enc xs f et r hwf.2 (by omega)
      simp only [decW, WVal.ttype, encW, List.append_assoc, List.cons_append, List.nil_append,
        TType.ofCode_code, readN_be 4 xs.length _ h4, hn, if_false, this]

theorem decFields_enc (fs : List (Nat × WVal)) : ∀ (f g : Nat) (r : Bytes), WFFields fs → depthFields fs ≤ f →
    fs.length < g → decFieldsWith (decW f) g (encFields fs ++ 0 :: r) = some (fs, r) := by
  intro f g r hwf hd hg
  cases fs with
  | nil =>
    cases g with
    | zero => simp at hg
    | succ g => simp [encFields, decFieldsWith]
  | cons a rest =>
    obtain ⟨id, v⟩ := a
    simp only [WFFields] at hwf
    simp only [depthFields] at hd
    cases g with
    | zero => simp at hg
    | succ g =>
      have hv := decW_encW v f (encFields rest ++ 0 :: r) hwf.2.1 (by omega)
      have hr := decFields_enc rest f g r hwf.2.2 (by omega) (by simp at hg; omega)
      have hc : v.ttype.code ≠ 0 := by have := TType.code_pos v.ttype; omega
      simp only [encFields, List.append_assoc, List.cons_append, List.nil_append, decFieldsWith, hc, if_false,
        TType.ofCode_code, readN_be 2 id _ hwf.1, hv, hr]

theorem decPairs_enc (kvs : List (WVal × WVal)) : ∀ (f : Nat) (kt vt : TType) (r : Bytes), WFPairs kt vt kvs →
    depthPairs kvs ≤ f →
    decPairsWith (decW f kt) (decW f vt) kvs.length (encPairs kvs ++ r) = some (kvs, r) := by
  intro f kt vt r hwf hd
  cases kvs with
  | nil => simp [encPairs, decPairsWith]
  | cons a rest =>
    obtain ⟨k, v⟩ := a
    simp only [WFPairs] at hwf
    simp only [depthPairs] at hd
    obtain ⟨hk, hv, hwk, hwv, hwr⟩ := hwf
    have h1 := decW_encW k f (encW v ++ (encPairs rest ++ r)) hwk (by omega)
    have h2 := decW_encW v f (encPairs rest ++ r) hwv (by omega)
    have h3 := decPairs_enc rest f kt vt r hwr (by omega)
    rw [hk] at h1; rw [hv] at h2
    simp only [encPairs, List.append_assoc, List.length_cons, decPairsWith, h1, h2, h3]

theorem decList_enc (xs : List WVal) : ∀ (f : Nat) (et : TType) (r : Bytes), WFList et xs → depthList xs ≤ f →
    decListWith (decW f et) xs.length (encList xs ++ r) = some (xs, r) := by
  intro f et r hwf hd
  cases xs with
  | nil => simp [encList, decListWith]
  | cons x rest =>
    simp only [WFList] at hwf
    simp only [depthList] at hd
    obtain ⟨hx, hwx, hwr⟩ := hwf
    have h1 := decW_encW x f (encList rest ++ r) hwx (by omega)
    have h3 := decList_enc rest f et r hwr (by omega)
    rw [hx] at h1
    simp only [encList, List.append_assoc, List.length_cons, decListWith, h1, h3]
end

theorem readN_append (n : Nat) (bs y : Bytes) (x : Nat) (r : Bytes) (h : readN n bs = some (x, r)) :
    readN n (bs ++ y) = some (x, r ++ y) := by
  unfold readN at h ⊢
  split at h
  · cases h
  · rename_i hl
    simp only [Option.some.injEq, Prod.mk.injEq] at h
    have hl' : ¬ (bs ++ y).length < n := by simp; omega
    have hn : n ≤ bs.length := by omega
    simp only [hl', if_false, Option.some.injEq, Prod.mk.injEq]
    rw [List.take_append_of_le_length hn, List.drop_append_of_le_length hn]
    exact ⟨h.1, by rw [h.2]⟩

theorem readBytes_app (n : Nat) (bs y b r : Bytes) (h : readBytes n bs = some (b, r)) :
    readBytes n (bs ++ y) = some (b, r ++ y) := by
  unfold readBytes at h ⊢
  split at h
  · cases h
  · rename_i hl
    simp only [Option.some.injEq, Prod.mk.injEq] at h
    have hl' : ¬ (bs ++ y).length < n := by simp; omega
    have hn : n ≤ bs.length := by omega
    simp only [hl', if_false, Option.some.injEq, Prod.mk.injEq]
    rw [List.take_append_of_le_length hn, List.drop_append_of_le_length hn]
    exact ⟨h.1, by rw [h.2]⟩

/-- a decoder that is insensitive to appended input -/
def AppOK {α} (d : Bytes → Option (α × Bytes)) : Prop :=
  ∀ bs x r y, d bs = some (x, r) → d (bs ++ y) = some (x, r ++ y)

theorem decListWith_append (d : Bytes → Option (WVal × Bytes)) (hd : AppOK d) :
    ∀ n, AppOK (decListWith d n) := by
  intro n
  induction n with
  | zero => intro bs x r y h; simp [decListWith] at h ⊢; exact ⟨h.1, by rw [h.2]⟩
  | succ n ih =>
    intro bs x r y h
    simp only [decListWith] at h ⊢
    cases h1 : d bs with
    | none => simp [h1] at h
    | some p =>
      obtain ⟨a, r1⟩ := p
      simp only [h1] at h
      rw [hd bs a r1 y h1]
      cases h2 : decListWith d n r1 with
      | none => simp [h2] at h
      | some q =>
        obtain ⟨xs, r2⟩ := q
        simp only [h2, Option.some.injEq, Prod.mk.injEq] at h
        simp only [ih r1 xs r2 y h2, Option.some.injEq, Prod.mk.injEq]
        exact ⟨h.1, by rw [h.2]⟩

theorem decPairsWith_append (dk dv : Bytes → Option (WVal × Bytes)) (hk : AppOK dk) (hv : AppOK dv) :
    ∀ n, AppOK (decPairsWith dk dv n) := by
  intro n
  induction n with
  | zero => intro bs x r y h; simp [decPairsWith] at h ⊢; exact ⟨h.1, by rw [h.2]⟩
  | succ n ih =>
    intro bs x r y h
    simp only [decPairsWith] at h ⊢
    cases h1 : dk bs with
    | none => simp [h1] at h
    | some p =>
      obtain ⟨a, r1⟩ := p
      simp only [h1] at h
      rw [hk bs a r1 y h1]
      cases h1' : dv r1 with
      | none => simp [h1'] at h
      | some p' =>
        obtain ⟨b, r1'⟩ := p'
        simp only [h1'] at h
        simp only [hv r1 b r1' y h1']
        cases h2 : decPairsWith dk dv n r1' with
        | none => simp [h2] at h
        | some q =>
          obtain ⟨xs, r2⟩ := q
          simp only [h2, Option.some.injEq, Prod.mk.injEq] at h
          simp only [ih r1' xs r2 y h2, Option.some.injEq, Prod.mk.injEq]
          exact ⟨h.1, by rw [h.2]⟩

theorem decFieldsWith_append (d : TType → Bytes → Option (WVal × Bytes)) (hd : ∀ t, AppOK (d t)) :
    ∀ g bs fs r y g', decFieldsWith d g bs = some (fs, r) → g ≤ g' →
      decFieldsWith d g' (bs ++ y) = some (fs, r ++ y) := by
  intro g
  induction g with
  | zero => intro bs fs r y g' h; simp [decFieldsWith] at h
  | succ g ih =>
    intro bs fs r y g' h hg
    cases g' with
    | zero => omega
    | succ g' =>
    cases bs with
    | nil => simp [decFieldsWith] at h
    | cons c bs =>
      simp only [decFieldsWith, List.cons_append] at h ⊢
      split at h
      · rename_i hc
        simp only [Option.some.injEq, Prod.mk.injEq] at h
        simp only [hc, if_true, Option.some.injEq, Prod.mk.injEq]
        exact ⟨h.1, by rw [h.2]⟩
      · rename_i hc
        simp only [hc, if_false]
        cases ht : TType.ofCode c with
        | none => simp [ht] at h
        | some t =>
          simp only [ht] at h ⊢
          cases h1 : readN 2 bs with
          | none => simp [h1] at h
          | some p =>
            obtain ⟨id, r1⟩ := p
            simp only [h1] at h
            simp only [readN_append 2 bs y id r1 h1]
            cases h2 : d t r1 with
            | none => simp [h2] at h
            | some q =>
              obtain ⟨v, r2⟩ := q
              simp only [h2] at h
              simp only [hd t r1 v r2 y h2]
              cases h3 : decFieldsWith d g r2 with
              | none => simp [h3] at h
              | some q' =>
                obtain ⟨fs', r3⟩ := q'
                simp only [h3, Option.some.injEq, Prod.mk.injEq] at h
                simp only [ih r2 fs' r3 y g' h3 (by omega), Option.some.injEq, Prod.mk.injEq]
                exact ⟨h.1, by rw [h.2]⟩

theorem decW_append : ∀ (f : Nat) (t : TType), AppOK (decW f t) := by
  intro f
  induction f with
  | zero => intro t bs x r y h; simp [decW] at h
  | succ f ih =>
    intro t bs x r y h
    cases t with
    | bool | i8 | dbl | i16 | i32 | i64 =>
      simp only [decW] at h ⊢
      split at h
      · cases h
      · rename_i x' r' h1
        simp only [Option.some.injEq, Prod.mk.injEq] at h
        simp only [readN_append _ bs y x' r' h1, Option.some.injEq, Prod.mk.injEq]
        exact ⟨h.1, by rw [h.2]⟩
    | str =>
      simp only [decW] at h ⊢
      cases h1 : readN 4 bs with
      | none => simp [h1] at h
      | some p =>
        obtain ⟨n, r1⟩ := p
        simp only [h1] at h
        simp only [readN_append 4 bs y n r1 h1]
        split at h
        · cases h
        · rename_i hn
          simp only [hn, if_false]
          cases h2 : readBytes n r1 with
          | none => simp [h2] at h
          | some q =>
            obtain ⟨b, r2⟩ := q
            simp only [h2, Option.some.injEq, Prod.mk.injEq] at h
            simp only [readBytes_app n r1 y b r2 h2, Option.some.injEq, Prod.mk.injEq]
            exact ⟨h.1, by rw [h.2]⟩
    | struct =>
      simp only [decW] at h ⊢
      cases h1 : decFieldsWith (decW f) (bs.length + 1) bs with
      | none => simp [h1] at h
      | some p =>
        obtain ⟨fs, r1⟩ := p
        simp only [h1, Option.some.injEq, Prod.mk.injEq] at h
        have := decFieldsWith_append (decW f) ih (bs.length + 1) bs fs r1 y ((bs ++ y).length + 1) h1 (by simp)
        simp only [this, Option.some.injEq, Prod.mk.injEq]
        exact ⟨h.1, by rw [h.2]⟩
    | map =>
      simp only [decW] at h ⊢
      cases bs with
      | nil => simp at h
      | cons kc bs =>
      cases bs with
      | nil => simp at h
      | cons vc bs =>
      simp only [List.cons_append] at h ⊢
      cases hk : TType.ofCode kc with
      | none => simp [hk] at h
      | some kt =>
      cases hv : TType.ofCode vc with
      | none => simp [hk, hv] at h
      | some vt =>
      simp only [hk, hv] at h ⊢
      cases h1 : readN 4 bs with
      | none => simp [h1] at h
      | some p =>
        obtain ⟨n, r1⟩ := p
        simp only [h1] at h
        simp only [readN_append 4 bs y n r1 h1]
        split at h
        · cases h
        · rename_i hn
          simp only [hn, if_false]
          cases h2 : decPairsWith (decW f kt) (decW f vt) n r1 with
          | none => simp [h2] at h
          | some q =>
            obtain ⟨kvs, r2⟩ := q
            simp only [h2, Option.some.injEq, Prod.mk.injEq] at h
            simp only [decPairsWith_append _ _ (ih kt) (ih vt) n r1 kvs r2 y h2, Option.some.injEq, Prod.mk.injEq]
            exact ⟨h.1, by rw [h.2]⟩
    | set | list =>
      simp only [decW] at h ⊢
      cases bs with
      | nil => simp at h
      | cons ec bs =>
      simp only [List.cons_append] at h ⊢
      cases he : TType.ofCode ec with
      | none => simp [he] at h
      | some et =>
      simp only [he] at h ⊢
      cases h1 : readN 4 bs with
      | none => simp [h1] at h
      | some p =>
        obtain ⟨n, r1⟩ := p
        simp only [h1] at h
        simp only [readN_append 4 bs y n r1 h1]
        split at h
        · cases h
        · rename_i hn
          simp only [hn, if_false]
          cases h2 : decListWith (decW f et) n r1 with
          | none => simp [h2] at h
          | some q =>
            obtain ⟨xs, r2⟩ := q
            simp only [h2, Option.some.injEq, Prod.mk.injEq] at h
            simp only [decListWith_append _ (ih et) n r1 xs r2 y h2, Option.some.injEq, Prod.mk.injEq]
            exact ⟨h.1, by rw [h.2]⟩


end Wire
