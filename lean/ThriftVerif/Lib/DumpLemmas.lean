/-
  C17 helper lemmas, part 1: the buffer of `DumpIDL` seen as a list of tokens, and the post-passes of
  `DumpIDL` (`finish`) computed on it.

  Every byte of the buffer is written by `writeString`; the text it holds is a sequence of
    plain c   a byte written as it is (never `&`: `writeString` turns every `&` into `&amp;`)
    oq        one `#OUTQUOTES` written by joinQuotes / replaceQuotes
    q34       one `##34;`      written for a `"` inside a quoted value
    amp       one `&amp;`      written by writeString for a `&`
  `finish` maps the rendering of such a list to its "final" rendering provided no *plain* byte starts an
  accidental occurrence of one of the four patterns (`clean`).
-/
import ThriftVerif.Lib.Dump

namespace Dump

inductive Tok where
  | plain (c : Nat)
  | oq
  | q34
  | amp
  deriving Repr, DecidableEq

/-- the buffer as written -/
def r0 : Tok → Bytes
  | .plain c => [c]
  | .oq => [35, 79, 85, 84, 81, 85, 79, 84, 69, 83]
  | .q34 => [35, 35, 51, 52, 59]
  | .amp => [38, 97, 109, 112, 59]

/-- after pass 1 (`##34;` → `\"`) and pass 2 (`\\"` → `\"`, no effect on clean buffers) -/
def r1 : Tok → Bytes
  | .plain c => [c]
  | .oq => [35, 79, 85, 84, 81, 85, 79, 84, 69, 83]
  | .q34 => [92, 34]
  | .amp => [38, 97, 109, 112, 59]

/-- after pass 3 (`#OUTQUOTES` → `"`) -/
def r3 : Tok → Bytes
  | .plain c => [c]
  | .oq => [34]
  | .q34 => [92, 34]
  | .amp => [38, 97, 109, 112, 59]

/-- after html.UnescapeString -/
def rF : Tok → Bytes
  | .plain c => [c]
  | .oq => [34]
  | .q34 => [92, 34]
  | .amp => [38]

def rend (r : Tok → Bytes) : List Tok → Bytes
  | [] => []
  | t :: ts => r t ++ rend r ts

theorem rend_append (r : Tok → Bytes) (a b : List Tok) : rend r (a ++ b) = rend r a ++ rend r b := by
  induction a with
  | nil => rfl
  | cons t ts ih => simp [rend, ih]

/-- no plain byte starts an occurrence of `old` in the rendering `r` -/
def cleanFor (old : Bytes) (r : Tok → Bytes) : List Tok → Bool
  | [] => true
  | .plain c :: ts => !isPrefix old (c :: rend r ts) && cleanFor old r ts
  | _ :: ts => cleanFor old r ts

def clean (ts : List Tok) : Bool :=
  cleanFor [35, 35, 51, 52, 59] r0 ts && cleanFor [92, 92, 34] r1 ts
    && cleanFor [35, 79, 85, 84, 81, 85, 79, 84, 69, 83] r1 ts && cleanFor [38, 97, 109, 112, 59] r3 ts

theorem pass1_rend (ts : List Tok) (h : cleanFor [35, 35, 51, 52, 59] r0 ts = true) :
    replGo [35, 35, 51, 52, 59] [92, 34] 0 (rend r0 ts) = rend r1 ts := by
  induction ts with
  | nil => simp [rend, replGo]
  | cons t ts ih =>
    cases t with
    | plain c =>
      simp only [cleanFor, Bool.and_eq_true, Bool.not_eq_true'] at h
      simp only [rend, r0, r1, List.cons_append, List.nil_append, replGo, h.1, Bool.false_eq_true, if_false, ih h.2]
    | oq =>
      simp only [cleanFor] at h
      simp [rend, r0, r1, replGo, isPrefix, ih h]
    | q34 =>
      simp only [cleanFor] at h
      simp [rend, r0, r1, replGo, isPrefix, ih h]
    | amp =>
      simp only [cleanFor] at h
      simp [rend, r0, r1, replGo, isPrefix, ih h]

theorem pass2_rend (ts : List Tok) (h : cleanFor [92, 92, 34] r1 ts = true) :
    replGo [92, 92, 34] [92, 34] 0 (rend r1 ts) = rend r1 ts := by
  induction ts with
  | nil => simp [rend, replGo]
  | cons t ts ih =>
    cases t with
    | plain c =>
      simp only [cleanFor, Bool.and_eq_true, Bool.not_eq_true'] at h
      simp only [rend, r1, List.cons_append, List.nil_append, replGo, h.1, Bool.false_eq_true, if_false, ih h.2]
    | oq =>
      simp only [cleanFor] at h
      simp [rend, r1, replGo, isPrefix, ih h]
    | q34 =>
      simp only [cleanFor] at h
      simp [rend, r1, replGo, isPrefix, ih h]
    | amp =>
      simp only [cleanFor] at h
      simp [rend, r1, replGo, isPrefix, ih h]

theorem pass3_rend (ts : List Tok) (h : cleanFor [35, 79, 85, 84, 81, 85, 79, 84, 69, 83] r1 ts = true) :
    replGo [35, 79, 85, 84, 81, 85, 79, 84, 69, 83] [34] 0 (rend r1 ts) = rend r3 ts := by
  induction ts with
  | nil => simp [rend, replGo]
  | cons t ts ih =>
    cases t with
    | plain c =>
      simp only [cleanFor, Bool.and_eq_true, Bool.not_eq_true'] at h
      simp only [rend, r1, r3, List.cons_append, List.nil_append, replGo, h.1, Bool.false_eq_true, if_false, ih h.2]
    | oq =>
      simp only [cleanFor] at h
      simp [rend, r1, r3, replGo, isPrefix, ih h]
    | q34 =>
      simp only [cleanFor] at h
      simp [rend, r1, r3, replGo, isPrefix, ih h]
    | amp =>
      simp only [cleanFor] at h
      simp [rend, r1, r3, replGo, isPrefix, ih h]

theorem pass4_rend (ts : List Tok) (h : cleanFor [38, 97, 109, 112, 59] r3 ts = true) :
    replGo [38, 97, 109, 112, 59] [38] 0 (rend r3 ts) = rend rF ts := by
  induction ts with
  | nil => simp [rend, replGo]
  | cons t ts ih =>
    cases t with
    | plain c =>
      simp only [cleanFor, Bool.and_eq_true, Bool.not_eq_true'] at h
      simp only [rend, r3, rF, List.cons_append, List.nil_append, replGo, h.1, Bool.false_eq_true, if_false, ih h.2]
    | oq =>
      simp only [cleanFor] at h
      simp [rend, r3, rF, replGo, isPrefix, ih h]
    | q34 =>
      simp only [cleanFor] at h
      simp [rend, r3, rF, replGo, isPrefix, ih h]
    | amp =>
      simp only [cleanFor] at h
      simp [rend, r3, rF, replGo, isPrefix, ih h]

/-- the post-passes of `DumpIDL` on a clean buffer -/
theorem finish_rend (ts : List Tok) (h : clean ts = true) : finish stdCfg (rend r0 ts) = rend rF ts := by
  simp only [clean, Bool.and_eq_true] at h
  obtain ⟨⟨⟨h1, h2⟩, h3⟩, h4⟩ := h
  simp only [finish, stdCfg, replaceAll, htmlUnescape]
  rw [pass1_rend ts h1, pass2_rend ts h2, pass3_rend ts h3, pass4_rend ts h4]

end Dump

/-! ## part 2: what `writeString` writes, as tokens -/
namespace Dump

def tk (c : Nat) : Tok := if c = 38 then .amp else .plain c
def tkq (c : Nat) : Tok := if c = 34 then .q34 else if c = 38 then .amp else .plain c

/-- the tokens written for one quoted value (literal constant or annotation value) -/
def litToks (v : Bytes) : List Tok := .oq :: (v.map tkq ++ [.oq])

/-- `"` → `\"`: the final text of a quoted value between its quotes -/
def qEsc (v : Bytes) : Bytes := v.flatMap fun c => if c = 34 then [92, 34] else [c]

theorem replGo_single (k : Nat) (new s : Bytes) :
    replGo [k] new 0 s = s.flatMap (fun c => if c = k then new else [c]) := by
  induction s with
  | nil => simp [replGo]
  | cons c s ih =>
    by_cases h : c = k
    · subst h; simp [replGo, isPrefix, ih]
    · have h' : ¬ k = c := fun e => h e.symm
      simp [replGo, isPrefix, ih, h, h']

theorem contains_single_false (k : Nat) (s : Bytes) (h : contains [k] s = false) :
    s.flatMap (fun c => if c = k then new else [c]) = s := by
  induction s with
  | nil => rfl
  | cons c s ih =>
    simp only [contains, isPrefix, Bool.and_true, Bool.or_eq_false_iff, decide_eq_false_iff_not] at h
    have h' : ¬ c = k := fun e => h.1 e.symm
    simp [h', ih h.2]

theorem ws_flatMap (s : Bytes) : ws stdCfg s = s.flatMap (fun c => if c = 38 then [38, 97, 109, 112, 59] else [c]) := by
  unfold ws
  cases h : contains stdCfg.ampFrom s with
  | true => simp [stdCfg, replaceAll, replGo_single]
  | false =>
    simp only [Bool.false_eq_true, if_false]
    exact (contains_single_false 38 s h).symm

theorem ws_append (a b : Bytes) : ws stdCfg (a ++ b) = ws stdCfg a ++ ws stdCfg b := by
  simp [ws_flatMap]

theorem rend_eq_flatMap (r : Tok → Bytes) (ts : List Tok) : rend r ts = ts.flatMap r := by
  induction ts with
  | nil => rfl
  | cons t ts ih => simp [rend, ih]

theorem ws_plain (s : Bytes) : ws stdCfg s = rend r0 (s.map tk) := by
  rw [ws_flatMap, rend_eq_flatMap, List.flatMap_map]
  congr 1
  funext c
  by_cases h : c = 38 <;> simp [tk, r0, h]

theorem rendF_plain (s : Bytes) : rend rF (s.map tk) = s := by
  induction s with
  | nil => rfl
  | cons c s ih =>
    by_cases h : c = 38 <;> simp [rend, tk, rF, h, ih]

theorem quoteVal_flatMap (v : Bytes) :
    quoteVal stdCfg v =
      [35, 79, 85, 84, 81, 85, 79, 84, 69, 83] ++ v.flatMap (fun c => if c = 34 then [35, 35, 51, 52, 59] else [c])
        ++ [35, 79, 85, 84, 81, 85, 79, 84, 69, 83] := by
  simp [quoteVal, joinQuotes, stdCfg, replaceAll, replGo_single]

theorem ws_quoteVal (v : Bytes) : ws stdCfg (quoteVal stdCfg v) = rend r0 (litToks v) := by
  rw [quoteVal_flatMap, ws_flatMap, rend_eq_flatMap]
  simp only [litToks, List.flatMap_append, List.flatMap_cons, List.flatMap_nil, List.append_nil, List.flatMap_map]
  have hoq : r0 Tok.oq = [35, 79, 85, 84, 81, 85, 79, 84, 69, 83] := rfl
  have : (List.flatMap (fun c => if c = 38 then [38, 97, 109, 112, 59] else [c])
      (List.flatMap (fun c => if c = 34 then [35, 35, 51, 52, 59] else [c]) v)) = List.flatMap (fun c => r0 (tkq c)) v := by
    induction v with
    | nil => rfl
    | cons c v ih =>
      by_cases h1 : c = 34
      · subst h1; simp [tkq, r0, ih]
      · by_cases h2 : c = 38
        · subst h2; simp [tkq, r0, ih]
        · simp [tkq, r0, h1, h2, ih]
  rw [this, hoq]
  simp

theorem rendF_litToks (v : Bytes) : rend rF (litToks v) = 34 :: (qEsc v ++ [34]) := by
  have : rend rF (v.map tkq) = qEsc v := by
    induction v with
    | nil => rfl
    | cons c v ih =>
      by_cases h1 : c = 34
      · subst h1; simp [rend, tkq, rF, qEsc] at ih ⊢; exact ih
      · by_cases h2 : c = 38
        · subst h2; simp [rend, tkq, rF, qEsc] at ih ⊢; exact ih
        · simp [rend, tkq, rF, qEsc, h1, h2] at ih ⊢; exact ih
  simp [litToks, rend, rend_append, rF, this]

end Dump

/-! ## part 3: cleanliness of what the writer produces -/
namespace Dump

theorem isPrefix_cons_cons (h : Nat) (t : Bytes) (c : Nat) (s : Bytes) :
    isPrefix (h :: t) (c :: s) = (decide (h = c) && isPrefix t s) := rfl

/-- tokens none of whose plain bytes can start a pattern (`#`, `\`; `&` is never plain) -/
def inertToks : List Tok → Bool
  | [] => true
  | .plain c :: ts => (c != 35 && c != 92 && c != 38) && inertToks ts
  | _ :: ts => inertToks ts

theorem cleanFor_inert (h : Nat) (t : Bytes) (r : Tok → Bytes) (hh : h = 35 ∨ h = 92 ∨ h = 38)
    (A B : List Tok) (hA : inertToks A = true) : cleanFor (h :: t) r (A ++ B) = cleanFor (h :: t) r B := by
  induction A with
  | nil => rfl
  | cons a A ih =>
    cases a with
    | plain c =>
      simp only [inertToks, Bool.and_eq_true, bne_iff_ne, ne_eq] at hA
      have hne : ¬ h = c := by
        rcases hh with e | e | e <;> subst e <;> intro e' <;> simp [← e'] at hA
      simp [cleanFor, isPrefix, hne, ih hA.2]
    | oq => simpa [cleanFor, inertToks] using ih hA
    | q34 => simpa [cleanFor, inertToks] using ih hA
    | amp => simpa [cleanFor, inertToks] using ih hA

theorem clean_inert (A B : List Tok) (hA : inertToks A = true) : clean (A ++ B) = clean B := by
  simp only [clean]
  rw [cleanFor_inert 35 _ r0 (Or.inl rfl) A B hA, cleanFor_inert 92 _ r1 (Or.inr (Or.inl rfl)) A B hA,
    cleanFor_inert 35 _ r1 (Or.inl rfl) A B hA, cleanFor_inert 38 _ r3 (Or.inr (Or.inr rfl)) A B hA]

/-- text without `#` and `\` -/
def textInert (s : Bytes) : Bool := s.all fun c => c != 35 && c != 92

theorem inertToks_map_tk (s : Bytes) (h : textInert s = true) : inertToks (s.map tk) = true := by
  induction s with
  | nil => rfl
  | cons c s ih =>
    simp only [textInert, List.all_cons, Bool.and_eq_true, bne_iff_ne, ne_eq] at h
    have ih' := ih (by simpa [textInert] using h.2)
    by_cases h38 : c = 38
    · simp [tk, h38, inertToks, ih']
    · simp [tk, h38, inertToks, ih', h.1.1, h.1.2]

/-- look-ahead into the body of a quoted value: a pattern made of bytes that start no token reads the
    same in the written text as in the value itself -/
theorem lookP (r : Tok → Bytes) (hq : Nat) (q' o' a' : Bytes)
    (hp : ∀ c, r (.plain c) = [c]) (ho : r .oq = 35 :: o') (hq34 : r .q34 = hq :: q') (ha : r .amp = 38 :: a')
    (p : Bytes) (hpc : ∀ x ∈ p, x ≠ 34 ∧ x ≠ 38 ∧ x ≠ 35 ∧ x ≠ hq) (w : Bytes) (B : List Tok) :
    isPrefix p (rend r (w.map tkq ++ .oq :: B)) = isPrefix p w := by
  induction p generalizing w with
  | nil => simp [isPrefix]
  | cons x p ih =>
    have hx := hpc x (by simp)
    have ih' := ih (fun y hy => hpc y (by simp [hy]))
    cases w with
    | nil => simp [rend, ho, isPrefix, hx.2.2.1]
    | cons c w =>
      by_cases h1 : c = 34
      · subst h1; simp [rend, tkq, hq34, isPrefix, hx.2.2.2, hx.1]
      · by_cases h2 : c = 38
        · subst h2; simp [rend, tkq, ha, isPrefix, hx.2.1]
        · simp [rend, tkq, h1, h2, hp, isPrefix, ih']

theorem look1 (w : Bytes) (B : List Tok) :
    isPrefix [35, 51, 52, 59] (rend r0 (w.map tkq ++ .oq :: B)) = isPrefix [35, 51, 52, 59] w := by
  have P := lookP r0 35 [35, 51, 52, 59] [79, 85, 84, 81, 85, 79, 84, 69, 83] [97, 109, 112, 59]
    (fun _ => rfl) rfl rfl rfl [51, 52, 59] (by decide)
  cases w with
  | nil => simp [rend, r0, isPrefix]
  | cons c w =>
    by_cases h1 : c = 34
    · subst h1; simp [rend, tkq, r0, isPrefix]
    · by_cases h2 : c = 38
      · subst h2; simp [rend, tkq, r0, isPrefix]
      · simp [rend, tkq, h1, h2, r0, isPrefix_cons_cons, P w B]

theorem look2 (w : Bytes) (B : List Tok) :
    isPrefix [92, 34] (rend r1 (w.map tkq ++ .oq :: B)) = isPrefix [34] w := by
  cases w with
  | nil => simp [rend, r1, isPrefix]
  | cons c w =>
    by_cases h1 : c = 34
    · subst h1; simp [rend, tkq, r1, isPrefix]
    · by_cases h2 : c = 38
      · subst h2; simp [rend, tkq, r1, isPrefix]
      · have h1' : ¬ 34 = c := fun e => h1 e.symm
        by_cases h3 : c = 92
        · subst h3
          -- after a plain backslash the next written byte is never a bare quote
          cases w with
          | nil => simp [rend, tkq, r1, isPrefix]
          | cons d w =>
            by_cases g1 : d = 34
            · subst g1; simp [rend, tkq, r1, isPrefix]
            · by_cases g2 : d = 38
              · subst g2; simp [rend, tkq, r1, isPrefix]
              · have g1' : ¬ 34 = d := fun e => g1 e.symm
                simp [rend, tkq, g1, g2, r1, isPrefix, g1']
        · have h3' : ¬ 92 = c := fun e => h3 e.symm
          simp [rend, tkq, h1, h2, r1, isPrefix, h3', h1']

theorem look3 (w : Bytes) (B : List Tok) :
    isPrefix [79, 85, 84, 81, 85, 79, 84, 69, 83] (rend r1 (w.map tkq ++ .oq :: B))
      = isPrefix [79, 85, 84, 81, 85, 79, 84, 69, 83] w :=
  lookP r1 92 [34] [79, 85, 84, 81, 85, 79, 84, 69, 83] [97, 109, 112, 59]
    (fun _ => rfl) rfl rfl rfl _ (by decide) w B

theorem contains_cons_false {p : Bytes} {c : Nat} {w : Bytes} (h : contains p (c :: w) = false) :
    isPrefix p (c :: w) = false ∧ contains p w = false := by
  simpa [contains] using h

theorem body1 (v : Bytes) (B : List Tok) (h : contains [35, 35, 51, 52, 59] v = false) :
    cleanFor [35, 35, 51, 52, 59] r0 (v.map tkq ++ .oq :: B) = cleanFor [35, 35, 51, 52, 59] r0 B := by
  induction v with
  | nil => simp [cleanFor]
  | cons c w ih =>
    obtain ⟨hp, hw⟩ := contains_cons_false h
    by_cases h1 : c = 34
    · subst h1; simpa [tkq, cleanFor] using ih hw
    · by_cases h2 : c = 38
      · subst h2; simpa [tkq, cleanFor] using ih hw
      · have : isPrefix [35, 35, 51, 52, 59] (c :: rend r0 (w.map tkq ++ .oq :: B)) = false := by
          rw [isPrefix_cons_cons, look1, ← isPrefix_cons_cons]; exact hp
        simp [tkq, h1, h2, cleanFor, this, ih hw]

theorem body2 (v : Bytes) (B : List Tok) (h : contains [92, 34] v = false) :
    cleanFor [92, 92, 34] r1 (v.map tkq ++ .oq :: B) = cleanFor [92, 92, 34] r1 B := by
  induction v with
  | nil => simp [cleanFor]
  | cons c w ih =>
    obtain ⟨hp, hw⟩ := contains_cons_false h
    by_cases h1 : c = 34
    · subst h1; simpa [tkq, cleanFor] using ih hw
    · by_cases h2 : c = 38
      · subst h2; simpa [tkq, cleanFor] using ih hw
      · have : isPrefix [92, 92, 34] (c :: rend r1 (w.map tkq ++ .oq :: B)) = false := by
          rw [isPrefix_cons_cons, look2, ← isPrefix_cons_cons]; exact hp
        simp [tkq, h1, h2, cleanFor, this, ih hw]

theorem body3 (v : Bytes) (B : List Tok) (h : contains [35, 79, 85, 84, 81, 85, 79, 84, 69, 83] v = false) :
    cleanFor [35, 79, 85, 84, 81, 85, 79, 84, 69, 83] r1 (v.map tkq ++ .oq :: B)
      = cleanFor [35, 79, 85, 84, 81, 85, 79, 84, 69, 83] r1 B := by
  induction v with
  | nil => simp [cleanFor]
  | cons c w ih =>
    obtain ⟨hp, hw⟩ := contains_cons_false h
    by_cases h1 : c = 34
    · subst h1; simpa [tkq, cleanFor] using ih hw
    · by_cases h2 : c = 38
      · subst h2; simpa [tkq, cleanFor] using ih hw
      · have : isPrefix [35, 79, 85, 84, 81, 85, 79, 84, 69, 83] (c :: rend r1 (w.map tkq ++ .oq :: B)) = false := by
          rw [isPrefix_cons_cons, look3, ← isPrefix_cons_cons]; exact hp
        simp [tkq, h1, h2, cleanFor, this, ih hw]

theorem body4 (v : Bytes) (B : List Tok) :
    cleanFor [38, 97, 109, 112, 59] r3 (v.map tkq ++ .oq :: B) = cleanFor [38, 97, 109, 112, 59] r3 B := by
  induction v with
  | nil => simp [cleanFor]
  | cons c w ih =>
    by_cases h1 : c = 34
    · subst h1; simpa [tkq, cleanFor] using ih
    · by_cases h2 : c = 38
      · subst h2; simpa [tkq, cleanFor] using ih
      · have h2' : ¬ 38 = c := fun e => h2 e.symm
        simp [tkq, h1, h2, cleanFor, isPrefix, h2', ih]

def endsBs : Bytes → Bool
  | [] => false
  | [c] => c == 92
  | _ :: t => endsBs t

/-- the literal values for which the dump is proved to read back: no `\"`, no placeholder text, and not
    ending in a backslash (the last shape cannot come out of the parser). -/
def DumpSafe (v : Bytes) : Bool :=
  !contains [92, 34] v && !contains [35, 35, 51, 52, 59] v
    && !contains [35, 79, 85, 84, 81, 85, 79, 84, 69, 83] v && !endsBs v

theorem clean_lit (v : Bytes) (B : List Tok) (h : DumpSafe v = true) : clean (litToks v ++ B) = clean B := by
  simp only [DumpSafe, Bool.and_eq_true, Bool.not_eq_true'] at h
  obtain ⟨⟨⟨h2, h1⟩, h3⟩, _⟩ := h
  simp only [clean, litToks, List.cons_append, List.append_assoc, List.nil_append, cleanFor]
  rw [body1 v B h1, body2 v B h2, body3 v B h3, body4 v B]

theorem finish_lit (v : Bytes) (h : DumpSafe v = true) : dumpLiteral stdCfg v = 34 :: (qEsc v ++ [34]) := by
  have hc : clean (litToks v) = true := by
    have := clean_lit v [] h
    simpa [clean, cleanFor] using this
  rw [dumpLiteral, ws_quoteVal, finish_rend _ hc, rendF_litToks]

end Dump

/-! ## part 4: the reader on the final text of a quoted value -/
namespace Dump

theorem lexBody_close (t : Bytes) : lexBody 34 (34 :: t) = some ([], t) := by
  cases t with
  | nil => simp [lexBody]
  | cons d s => rw [lexBody]; simp

theorem lexBody_esc (d : Nat) (s : Bytes) (hd : d = 34 ∨ d = 39) :
    lexBody 34 (92 :: d :: s) = (lexBody 34 s).map fun (b, r) => (92 :: d :: b, r) := by
  rw [lexBody]; simp [hd]

theorem lexBody_plain (c d : Nat) (s : Bytes) (h : ¬ (c = 92 ∧ (d = 34 ∨ d = 39))) (hq : c ≠ 34) :
    lexBody 34 (c :: d :: s) = (lexBody 34 (d :: s)).map fun (b, r) => (c :: b, r) := by
  rw [lexBody]; simp [h, hq]

theorem qEsc_cons (c : Nat) (w : Bytes) : qEsc (c :: w) = (if c = 34 then [92, 34] else [c]) ++ qEsc w := by
  simp [qEsc]

theorem endsBs_cons {c : Nat} {w : Bytes} (hw : w ≠ []) : endsBs (c :: w) = endsBs w := by
  cases w with
  | nil => exact absurd rfl hw
  | cons d w => rfl

/-- the part of `DumpSafe` the reader needs -/
def LexSafe (v : Bytes) : Prop := contains [92, 34] v = false ∧ endsBs v = false

theorem LexSafe.tail {c : Nat} {w : Bytes} (h : LexSafe (c :: w)) : LexSafe w := by
  refine ⟨(contains_cons_false h.1).2, ?_⟩
  cases w with
  | nil => rfl
  | cons d w => simpa [endsBs] using h.2

theorem lex_qEsc (n : Nat) : ∀ v : Bytes, v.length ≤ n → LexSafe v → ∀ rest,
    lexBody 34 (qEsc v ++ 34 :: rest) = some (qEsc v, rest) := by
  induction n with
  | zero =>
    intro v hl _ rest
    have : v = [] := List.eq_nil_of_length_eq_zero (Nat.le_zero.mp hl)
    subst this; simp [qEsc, lexBody_close]
  | succ n ih =>
    intro v hl hs rest
    cases v with
    | nil => simp [qEsc, lexBody_close]
    | cons c w =>
      have hw : LexSafe w := hs.tail
      have hlw : w.length ≤ n := by simpa using hl
      rw [qEsc_cons]
      by_cases h1 : c = 34
      · subst h1
        simp only [if_true, List.cons_append, List.nil_append]
        rw [lexBody_esc 34 _ (Or.inl rfl), ih w hlw hw rest]; rfl
      · simp only [h1, if_false, List.cons_append, List.nil_append]
        by_cases h2 : c = 92
        · subst h2
          -- a backslash of the value: the next byte of the value exists and is not a quote
          cases w with
          | nil => simp [LexSafe, endsBs] at hs
          | cons d w' =>
            have hd34 : d ≠ 34 := by
              intro e; subst e
              have := (contains_cons_false hs.1).1
              simp [isPrefix] at this
            have hw' : LexSafe w' := hw.tail
            have hlw' : w'.length ≤ n := by simp at hlw; omega
            rw [qEsc_cons]; simp only [hd34, if_false, List.cons_append, List.nil_append]
            by_cases h39 : d = 39
            · subst h39
              rw [lexBody_esc 39 _ (Or.inr rfl), ih w' hlw' hw' rest]
              simp [qEsc]
            · rw [lexBody_plain 92 d _ (by simp [hd34, h39]) (by decide)]
              have := ih (d :: w') hlw hw rest
              rw [qEsc_cons] at this; simp only [hd34, if_false, List.cons_append, List.nil_append] at this
              rw [this]; simp [qEsc]
        · -- an ordinary byte: the rest of the text is not empty (at least the closing quote)
          have hne : ∃ d s, qEsc w ++ 34 :: rest = d :: s := by
            cases h : qEsc w ++ 34 :: rest with
            | nil => simp at h
            | cons d s => exact ⟨d, s, rfl⟩
          obtain ⟨d, s, hds⟩ := hne
          rw [hds, lexBody_plain c d s (by simp [h2]) h1, ← hds, ih w hlw hw rest]; rfl

theorem pegLoop_single (r : Nat) : pegLoop 34 [r] = [r] := by simp [pegLoop]

theorem pegLoop_plain (r : Nat) (t : Bytes) (hr : r ≠ 92) (ht : t ≠ []) : pegLoop 34 (r :: t) = r :: pegLoop 34 t := by
  cases t with
  | nil => exact absurd rfl ht
  | cons n t =>
    cases t with
    | nil => simp [pegLoop, hr]
    | cons m t => rw [pegLoop]; simp [hr]

theorem pegLoop_escq (t : Bytes) : pegLoop 34 (92 :: 34 :: t) = pegLoop 34 (34 :: t) := by
  cases t with
  | nil => simp [pegLoop]
  | cons m t => rw [pegLoop]; simp

theorem pegLoop_bs_plain (n : Nat) (t : Bytes) (h1 : n ≠ 92) (h2 : n ≠ 34) :
    pegLoop 34 (92 :: n :: t) = 92 :: pegLoop 34 (n :: t) := by
  cases t with
  | nil => simp [pegLoop, h1, h2]
  | cons m t => rw [pegLoop]; simp [h1, h2]

theorem pegLoop_bs_bs (t : Bytes) (ht : t ≠ []) : pegLoop 34 (92 :: 92 :: t) = 92 :: 92 :: pegLoop 34 t := by
  cases t with
  | nil => exact absurd rfl ht
  | cons m t => rw [pegLoop]; simp

theorem qEsc_ne_nil {w : Bytes} (h : w ≠ []) : qEsc w ≠ [] := by
  cases w with
  | nil => exact absurd rfl h
  | cons c w => rw [qEsc_cons]; by_cases h1 : c = 34 <;> simp [h1]

theorem peg_qEsc (n : Nat) : ∀ v : Bytes, v.length ≤ n → v ≠ [] → LexSafe v → pegLoop 34 (qEsc v) = v := by
  induction n with
  | zero =>
    intro v hl hne
    exact absurd (List.eq_nil_of_length_eq_zero (Nat.le_zero.mp hl)) hne
  | succ n ih =>
    intro v hl _ hs
    cases v with
    | nil => contradiction
    | cons c w =>
      have hw : LexSafe w := hs.tail
      have hlw : w.length ≤ n := by simpa using hl
      rw [qEsc_cons]
      by_cases h1 : c = 34
      · subst h1
        simp only [if_true, List.cons_append, List.nil_append]
        rw [pegLoop_escq]
        cases hwn : w with
        | nil => simp [qEsc, pegLoop_single]
        | cons d w' =>
          rw [← hwn]
          have hne : w ≠ [] := by simp [hwn]
          rw [pegLoop_plain 34 _ (by decide) (qEsc_ne_nil hne), ih w hlw hne hw]
      · simp only [h1, if_false, List.cons_append, List.nil_append]
        by_cases h2 : c = 92
        · subst h2
          cases w with
          | nil => simp [LexSafe, endsBs] at hs
          | cons d w' =>
            have hd34 : d ≠ 34 := by
              intro e; subst e
              have := (contains_cons_false hs.1).1
              simp [isPrefix] at this
            have hw' : LexSafe w' := hw.tail
            have hlw' : w'.length ≤ n := by simp at hlw; omega
            rw [qEsc_cons]; simp only [hd34, if_false, List.cons_append, List.nil_append]
            by_cases hd92 : d = 92
            · subst hd92
              have hne' : w' ≠ [] := by
                intro e; subst e; simp [LexSafe, endsBs] at hs
              rw [pegLoop_bs_bs _ (qEsc_ne_nil hne'), ih w' hlw' hne' hw']
            · rw [pegLoop_bs_plain d _ hd92 hd34]
              have := ih (d :: w') hlw (by simp) hw
              rw [qEsc_cons] at this; simp only [hd34, if_false, List.cons_append, List.nil_append] at this
              rw [this]
        · cases hwn : w with
          | nil => simp [qEsc, pegLoop_single]
          | cons d w' =>
            rw [← hwn]
            have hne : w ≠ [] := by simp [hwn]
            rw [pegLoop_plain c _ h2 (qEsc_ne_nil hne), ih w hlw hne hw]

theorem pegText_qEsc (v : Bytes) (h : LexSafe v) : pegText 34 (qEsc v) = v := by
  cases v with
  | nil => simp [pegText, qEsc]
  | cons c w =>
    have hne : qEsc (c :: w) ≠ [] := qEsc_ne_nil (by simp)
    have : (qEsc (c :: w)).isEmpty = false := by
      cases h' : qEsc (c :: w) with
      | nil => exact absurd h' hne
      | cons _ _ => rfl
    simp only [pegText, this, Bool.false_eq_true, if_false]
    exact peg_qEsc _ _ (Nat.le_refl _) (by simp) h

theorem DumpSafe.lexSafe {v : Bytes} (h : DumpSafe v = true) : LexSafe v := by
  simp only [DumpSafe, Bool.and_eq_true, Bool.not_eq_true'] at h
  exact ⟨h.1.1.1, h.2⟩

theorem readLiteral_final (v rest : Bytes) (h : LexSafe v) :
    readLiteral (34 :: (qEsc v ++ [34]) ++ rest) = some (v, rest) := by
  have : 34 :: (qEsc v ++ [34]) ++ rest = 34 :: (qEsc v ++ 34 :: rest) := by simp
  rw [this]
  simp [readLiteral, lex_qEsc _ v (Nat.le_refl _) h rest, pegText_qEsc v h]

end Dump

/-! ## part 5: `&` escaping, annotation regrouping -/
namespace Dump

/-- the buffer is a concatenation of `writeString` arguments -/
theorem unescape_ws_concat (l : List Bytes) : htmlUnescape ((l.map (ws stdCfg)).flatten) = l.flatten := by
  have hcat : (l.map (ws stdCfg)).flatten = ws stdCfg l.flatten := by
    induction l with
    | nil => simp [ws_flatMap]
    | cons a l ih => simp [ih, ws_append]
  rw [hcat, ws_plain]
  have hc : cleanFor [38, 97, 109, 112, 59] r3 (l.flatten.map tk) = true := by
    generalize l.flatten = s
    induction s with
    | nil => rfl
    | cons c s ih =>
      by_cases h : c = 38
      · subst h; simpa [tk, cleanFor] using ih
      · have h' : ¬ 38 = c := fun e => h e.symm
        simp [tk, h, cleanFor, isPrefix, h', ih]
  have h03 : rend r0 (l.flatten.map tk) = rend r3 (l.flatten.map tk) := by
    generalize l.flatten = s
    induction s with
    | nil => rfl
    | cons c s ih => by_cases h : c = 38 <;> simp [rend, tk, h, r0, r3, ih]
  rw [h03, htmlUnescape, replaceAll, pass4_rend _ hc, rendF_plain]

def annKeys (l : List Ann) : List Bytes := l.map (·.key)

def WFAnn (l : List Ann) : Prop := (annKeys l).Nodup ∧ ∀ a ∈ l, a.vals ≠ []

theorem annAppend_new (acc : List Ann) (k v : Bytes) (h : k ∉ annKeys acc) :
    annAppend acc k v = acc ++ [⟨k, [v]⟩] := by
  induction acc with
  | nil => rfl
  | cons a acc ih =>
    simp only [annKeys, List.map_cons, List.mem_cons, not_or] at h
    have hne : ¬ a.key = k := fun e => h.1 e.symm
    simp [annAppend, hne, ih (by simpa [annKeys] using h.2)]

theorem annAppend_last (acc : List Ann) (k : Bytes) (vs : List Bytes) (v : Bytes) (h : k ∉ annKeys acc) :
    annAppend (acc ++ [⟨k, vs⟩]) k v = acc ++ [⟨k, vs ++ [v]⟩] := by
  induction acc with
  | nil => simp [annAppend]
  | cons a acc ih =>
    simp only [annKeys, List.map_cons, List.mem_cons, not_or] at h
    have hne : ¬ a.key = k := fun e => h.1 e.symm
    simp [annAppend, hne, ih (by simpa [annKeys] using h.2)]

theorem foldl_same_key (acc : List Ann) (k : Bytes) (vs ws' : List Bytes) (h : k ∉ annKeys acc) :
    (ws'.map fun v => (k, v)).foldl (fun acc kv => annAppend acc kv.1 kv.2) (acc ++ [⟨k, vs⟩]) = acc ++ [⟨k, vs ++ ws'⟩] := by
  induction ws' generalizing vs with
  | nil => simp
  | cons w ws' ih => simp [annAppend_last acc k vs w h, ih]

theorem regroup_go (acc l : List Ann) (hwf : WFAnn l) (hd : ∀ a ∈ l, a.key ∉ annKeys acc) :
    (annFlatten l).foldl (fun acc kv => annAppend acc kv.1 kv.2) acc = acc ++ l := by
  induction l generalizing acc with
  | nil => simp [annFlatten]
  | cons a l ih =>
    obtain ⟨hnd, hne⟩ := hwf
    simp only [annKeys, List.map_cons, List.nodup_cons] at hnd
    have ha : a.key ∉ annKeys acc := hd a (by simp)
    have hvals : a.vals ≠ [] := hne a (by simp)
    obtain ⟨k, vals⟩ := a
    cases vals with
    | nil => exact absurd rfl hvals
    | cons v vs =>
      simp only [annFlatten, List.map_cons, List.cons_append, List.foldl_cons, List.foldl_append]
      rw [annAppend_new acc k v ha, foldl_same_key acc k [v] vs ha]
      have e1 : acc ++ [Ann.mk k ([v] ++ vs)] = acc ++ [Ann.mk k (v :: vs)] := by simp
      rw [e1]
      have hd' : ∀ b ∈ l, b.key ∉ annKeys (acc ++ [Ann.mk k (v :: vs)]) := by
        intro b hb
        simp only [annKeys, List.map_append, List.map_cons, List.map_nil, List.mem_append, List.mem_singleton, not_or]
        refine ⟨by simpa [annKeys] using hd b (by simp [hb]), ?_⟩
        intro e
        have hm : b.key ∈ List.map (fun x : Ann => x.key) l := List.mem_map_of_mem (f := fun x : Ann => x.key) hb
        rw [e] at hm
        exact hnd.1 hm
      rw [ih (acc ++ [Ann.mk k (v :: vs)]) ⟨hnd.2, fun b hb => hne b (by simp [hb])⟩ hd']
      simp

theorem regroup_flatten (l : List Ann) (h : WFAnn l) : annRegroup (annFlatten l) = l := by
  have := regroup_go [] l h (by simp [annKeys])
  simpa [annRegroup] using this

end Dump
