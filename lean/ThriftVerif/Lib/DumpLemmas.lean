/-
  C17 helper lemmas, part 1: `quoteLiteral` and the `Literal` rule + `pegText`.

  A value v is written between q…q (q = `"` or `'`) with every q written `\q` (`esc q v`).  It is read back as v
  provided v does not end in a backslash and no q of v is preceded by an odd number of backslashes
  (`oddGo q false v = false`): `pegText` keeps `\\` pairs and drops one backslash in front of q.
-/
import ThriftVerif.Lib.Dump

namespace Dump

theorem replGo_single (k : Nat) (new s : Bytes) :
    replGo [k] new 0 s = s.flatMap (fun c => if c = k then new else [c]) := by
  induction s with
  | nil => simp [replGo]
  | cons c s ih =>
    by_cases h : c = k
    · subst h; simp [replGo, isPrefix, ih]
    · have h' : ¬ k = c := fun e => h e.symm
      simp [replGo, isPrefix, ih, h, h']

/-- every q written `\q` -/
def esc (q : Nat) (v : Bytes) : Bytes := v.flatMap fun c => if c = q then [92, q] else [c]

theorem esc_cons (q c : Nat) (w : Bytes) : esc q (c :: w) = (if c = q then [92, q] else [c]) ++ esc q w := by
  simp [esc]

theorem esc_ne_nil {q : Nat} {w : Bytes} (h : w ≠ []) : esc q w ≠ [] := by
  cases w with
  | nil => exact absurd rfl h
  | cons c w => rw [esc_cons]; by_cases h1 : c = q <;> simp [h1]

theorem quoteVal_std (v : Bytes) :
    quoteVal stdCfg v = if oddGo 34 false v then 39 :: (esc 39 v ++ [39]) else 34 :: (esc 34 v ++ [34]) := by
  unfold quoteVal
  split <;> simp [stdCfg, replaceAll, replGo_single, esc]

def endsBs : Bytes → Bool
  | [] => false
  | [c] => c == 92
  | _ :: t => endsBs t

theorem endsBs_tail {c : Nat} {w : Bytes} (h : endsBs (c :: w) = false) (hw : w ≠ []) : endsBs w = false := by
  cases w with
  | nil => exact absurd rfl hw
  | cons d w => simpa [endsBs] using h

/-! ### the `Literal` rule -/

theorem lexBody_close (q : Nat) (t : Bytes) (hq : q ≠ 92) : lexBody q (q :: t) = some ([], t) := by
  cases t with
  | nil => simp [lexBody]
  | cons d s => rw [lexBody]; simp [hq]

theorem lexBody_esc (q d : Nat) (s : Bytes) (hd : d = 34 ∨ d = 39) :
    lexBody q (92 :: d :: s) = (lexBody q s).map fun (b, r) => (92 :: d :: b, r) := by
  rw [lexBody]; simp [hd]

theorem lexBody_plain (q c d : Nat) (s : Bytes) (h : ¬ (c = 92 ∧ (d = 34 ∨ d = 39))) (hq : c ≠ q) :
    lexBody q (c :: d :: s) = (lexBody q (d :: s)).map fun (b, r) => (c :: b, r) := by
  rw [lexBody]; simp [h, hq]

/-- lexing needs only that the value does not end in a backslash -/
theorem lex_esc (q : Nat) (hq : q = 34 ∨ q = 39) (n : Nat) : ∀ v : Bytes, v.length ≤ n → endsBs v = false → ∀ rest,
    lexBody q (esc q v ++ q :: rest) = some (esc q v, rest) := by
  have hq92 : q ≠ 92 := by rcases hq with h | h <;> omega
  induction n with
  | zero =>
    intro v hl _ rest
    have : v = [] := List.eq_nil_of_length_eq_zero (Nat.le_zero.mp hl)
    subst this; simp [esc, lexBody_close q rest hq92]
  | succ n ih =>
    intro v hl he rest
    cases v with
    | nil => simp [esc, lexBody_close q rest hq92]
    | cons c w =>
      have hlw : w.length ≤ n := by simpa using hl
      rw [esc_cons]
      by_cases h1 : c = q
      · subst h1
        have hw : endsBs w = false := by
          cases w with
          | nil => rfl
          | cons d w => simpa [endsBs] using he
        simp only [if_true, List.cons_append, List.nil_append]
        rw [lexBody_esc c c _ hq, ih w hlw hw rest]; rfl
      · simp only [h1, if_false, List.cons_append, List.nil_append]
        by_cases h2 : c = 92
        · subst h2
          cases w with
          | nil => simp [endsBs] at he
          | cons d w' =>
            have hw : endsBs (d :: w') = false := by simpa [endsBs] using he
            have hlw' : w'.length ≤ n := by simp at hlw; omega
            rw [esc_cons]
            by_cases hdq : d = q
            · -- the next byte of the value is the delimiter: written `\q`, the backslash of the value is an ordinary byte
              subst hdq
              simp only [if_true, List.cons_append, List.nil_append]
              rw [lexBody_plain d 92 92 _ (by simp) hq92.symm]
              have := ih (d :: w') hlw hw rest
              rw [esc_cons] at this; simp only [if_true, List.cons_append, List.nil_append] at this
              rw [this]; simp [esc]
            · simp only [hdq, if_false, List.cons_append, List.nil_append]
              by_cases hdo : d = 34 ∨ d = 39
              · -- the other quote kind: backslash + quote is one escape of the grammar
                have hw' : endsBs w' = false := by
                  cases w' with
                  | nil => rfl
                  | cons e w'' => simpa [endsBs] using hw
                rw [lexBody_esc q d _ hdo, ih w' hlw' hw' rest]
                simp [esc]
              · rw [lexBody_plain q 92 d _ (by simp [hdo]) hq92.symm]
                have := ih (d :: w') hlw hw rest
                rw [esc_cons] at this; simp only [hdq, if_false, List.cons_append, List.nil_append] at this
                rw [this]; simp [esc]
        · have hw : endsBs w = false := by
            cases w with
            | nil => rfl
            | cons d w => simpa [endsBs] using he
          have hne : ∃ d s, esc q w ++ q :: rest = d :: s := by
            cases h : esc q w ++ q :: rest with
            | nil => simp at h
            | cons d s => exact ⟨d, s, rfl⟩
          obtain ⟨d, s, hds⟩ := hne
          rw [hds, lexBody_plain q c d s (by simp [h2]) h1, ← hds, ih w hlw hw rest]; rfl

/-! ### `pegText` -/

theorem pegLoop_single (q r : Nat) : pegLoop q [r] = [r] := by simp [pegLoop]

theorem pegLoop_plain (q r : Nat) (t : Bytes) (hr : r ≠ 92) (ht : t ≠ []) : pegLoop q (r :: t) = r :: pegLoop q t := by
  cases t with
  | nil => exact absurd rfl ht
  | cons n t =>
    cases t with
    | nil => simp [pegLoop, hr]
    | cons m t => rw [pegLoop]; simp [hr]

theorem pegLoop_escq (q : Nat) (t : Bytes) (hq : q ≠ 92) : pegLoop q (92 :: q :: t) = pegLoop q (q :: t) := by
  cases t with
  | nil => simp [pegLoop, hq]
  | cons m t => rw [pegLoop]; simp [hq]

theorem pegLoop_bs_plain (q n : Nat) (t : Bytes) (h1 : n ≠ 92) (h2 : n ≠ q) :
    pegLoop q (92 :: n :: t) = 92 :: pegLoop q (n :: t) := by
  cases t with
  | nil => simp [pegLoop, h1, h2]
  | cons m t => rw [pegLoop]; simp [h1, h2]

theorem pegLoop_bs_bs (q : Nat) (t : Bytes) (ht : t ≠ []) : pegLoop q (92 :: 92 :: t) = 92 :: 92 :: pegLoop q t := by
  cases t with
  | nil => exact absurd rfl ht
  | cons m t => rw [pegLoop]; simp

/-- `pegLoop` on the written text: at the start of a backslash run (`even`), and after one unpaired
    backslash of the value (`odd`) -/
theorem peg_esc (q : Nat) (hq : q = 34 ∨ q = 39) (n : Nat) : ∀ v : Bytes, v.length ≤ n →
    (v ≠ [] → endsBs v = false → oddGo q false v = false → pegLoop q (esc q v) = v)
    ∧ (endsBs (92 :: v) = false → oddGo q true v = false → pegLoop q (92 :: esc q v) = 92 :: v) := by
  have hq92 : q ≠ 92 := by rcases hq with h | h <;> omega
  induction n with
  | zero =>
    intro v hl
    have : v = [] := List.eq_nil_of_length_eq_zero (Nat.le_zero.mp hl)
    subst this
    exact ⟨fun h => absurd rfl h, fun h => by simp [endsBs] at h⟩
  | succ n ih =>
    intro v hl
    cases v with
    | nil => exact ⟨fun h => absurd rfl h, fun h => by simp [endsBs] at h⟩
    | cons c w =>
      have hlw : w.length ≤ n := by simpa using hl
      obtain ⟨ihE, ihO⟩ := ih w hlw
      have tailE : endsBs (c :: w) = false → w ≠ [] → endsBs w = false := fun h hw => endsBs_tail h hw
      refine ⟨fun _ he ho => ?_, fun he ho => ?_⟩
      · -- at the start of a run
        rw [esc_cons]
        by_cases h1 : c = q
        · subst h1
          have ho' : oddGo c false w = false := by simpa [oddGo, hq92] using ho
          simp only [if_true, List.cons_append, List.nil_append]
          rw [pegLoop_escq c _ hq92]
          cases hwn : w with
          | nil => simp [esc, pegLoop_single]
          | cons d w' =>
            rw [← hwn]
            have hne : w ≠ [] := by simp [hwn]
            rw [pegLoop_plain c c _ hq92 (esc_ne_nil hne), ihE hne (tailE he hne) ho']
        · simp only [h1, if_false, List.cons_append, List.nil_append]
          by_cases h2 : c = 92
          · subst h2
            have ho' : oddGo q true w = false := by simpa [oddGo] using ho
            exact ihO he ho'
          · have ho' : oddGo q false w = false := by simpa [oddGo, h1, h2] using ho
            cases hwn : w with
            | nil => simp [esc, pegLoop_single]
            | cons d w' =>
              rw [← hwn]
              have hne : w ≠ [] := by simp [hwn]
              rw [pegLoop_plain q c _ h2 (esc_ne_nil hne), ihE hne (tailE he hne) ho']
      · -- after an unpaired backslash of the value
        have he' : endsBs (c :: w) = false := by simpa [endsBs] using he
        rw [esc_cons]
        by_cases h1 : c = q
        · subst h1; simp [oddGo, hq92] at ho
        · simp only [h1, if_false, List.cons_append, List.nil_append]
          by_cases h2 : c = 92
          · subst h2
            have hne : w ≠ [] := by intro e; subst e; simp [endsBs] at he'
            have ho' : oddGo q false w = false := by simpa [oddGo] using ho
            rw [pegLoop_bs_bs q _ (esc_ne_nil hne), ihE hne (tailE he' hne) ho']
          · have ho' : oddGo q false w = false := by simpa [oddGo, h1, h2] using ho
            rw [pegLoop_bs_plain q c _ h2 h1]
            cases hwn : w with
            | nil => simp [esc, pegLoop_single]
            | cons d w' =>
              rw [← hwn]
              have hne : w ≠ [] := by simp [hwn]
              rw [pegLoop_plain q c _ h2 (esc_ne_nil hne), ihE hne (tailE he' hne) ho']

theorem pegText_esc (q : Nat) (hq : q = 34 ∨ q = 39) (v : Bytes) (he : endsBs v = false) (ho : oddGo q false v = false) :
    pegText q (esc q v) = v := by
  cases v with
  | nil => simp [pegText, esc]
  | cons c w =>
    have hne : esc q (c :: w) ≠ [] := esc_ne_nil (by simp)
    have : (esc q (c :: w)).isEmpty = false := by
      cases h' : esc q (c :: w) with
      | nil => exact absurd h' hne
      | cons _ _ => rfl
    simp only [pegText, this, Bool.false_eq_true, if_false]
    exact (peg_esc q hq _ _ (Nat.le_refl _)).1 (by simp) he ho

/-- the reader on a value written between q…q -/
theorem readLiteral_esc (q : Nat) (hq : q = 34 ∨ q = 39) (v rest : Bytes) (he : endsBs v = false)
    (ho : oddGo q false v = false) : readLiteral (q :: (esc q v ++ [q]) ++ rest) = some (v, rest) := by
  have : q :: (esc q v ++ [q]) ++ rest = q :: (esc q v ++ q :: rest) := by simp
  rw [this]
  simp [readLiteral, hq, lex_esc q hq _ v (Nat.le_refl _) he rest, pegText_esc q hq v he ho]

/-- the values `quoteLiteral` writes back correctly: not ending in a backslash, and for at least one of the
    two quote kinds no quote preceded by an odd number of backslashes.  (Every value the parser produces is
    of this kind; that fact is exercised by the oracle, not proved here.) -/
def Representable (v : Bytes) : Bool := !endsBs v && (!oddGo 34 false v || !oddGo 39 false v)

theorem readLiteral_quoteVal (v rest : Bytes) (h : Representable v = true) :
    readLiteral (quoteVal stdCfg v ++ rest) = some (v, rest) := by
  simp only [Representable, Bool.and_eq_true, Bool.not_eq_true', Bool.or_eq_true] at h
  obtain ⟨he, ho⟩ := h
  rw [quoteVal_std]
  cases h34 : oddGo 34 false v with
  | false => simp only [Bool.false_eq_true, if_false]; exact readLiteral_esc 34 (Or.inl rfl) v rest he h34
  | true =>
    simp only [if_true]
    have h39 : oddGo 39 false v = false := by
      rcases ho with h | h
      · rw [h34] at h; cases h
      · exact h
    exact readLiteral_esc 39 (Or.inr rfl) v rest he h39


/-! ### every value `pegText` produces can be written back -/

theorem oddGo_cons_bs (q : Nat) (b : Bool) (s : Bytes) : oddGo q b (92 :: s) = oddGo q (!b) s := by
  simp [oddGo]

theorem oddGo_false_bs (q : Nat) (s : Bytes) : oddGo q false (92 :: s) = oddGo q true s := by
  simp [oddGo]

theorem oddGo_cons_other (q c : Nat) (s : Bytes) (h1 : c ≠ 92) : oddGo q false (c :: s) = oddGo q false s := by
  by_cases h2 : c = q
  · subst h2; simp [oddGo, h1]
  · simp [oddGo, h1, h2]

theorem oddGo_true_plain (q c : Nat) (s : Bytes) (h1 : c ≠ 92) (h2 : c ≠ q) : oddGo q true (c :: s) = oddGo q false s := by
  simp [oddGo, h1, h2]

/-- the output of `pegLoop q` never has a `q` preceded by an odd number of backslashes — for any input -/
theorem oddGo_pegLoop (q : Nat) (hq : q ≠ 92) (n : Nat) : ∀ raw : Bytes, raw.length ≤ n → oddGo q false (pegLoop q raw) = false := by
  induction n with
  | zero =>
    intro raw hl
    have : raw = [] := List.eq_nil_of_length_eq_zero (Nat.le_zero.mp hl)
    subst this; simp [pegLoop, oddGo]
  | succ n ih =>
    intro raw hl
    match raw, hl with
    | [], _ => simp [pegLoop, oddGo]
    | [r], _ =>
      rw [pegLoop_single]
      by_cases h : r = 92
      · subst h; simp [oddGo]
      · rw [oddGo_cons_other q r [] h]; simp [oddGo]
    | r :: m :: t, hl =>
      have hlt : (m :: t).length ≤ n := by simp at hl ⊢; omega
      by_cases hr : r = 92
      · subst hr
        by_cases hm : m = 92
        · subst hm
          cases t with
          | nil => simp [pegLoop, oddGo]
          | cons x t' =>
            rw [pegLoop_bs_bs q _ (by simp), oddGo_cons_bs, oddGo_cons_bs]
            exact ih (x :: t') (by simp at hl ⊢; omega)
        · by_cases hmq : m = q
          · subst hmq
            rw [pegLoop_escq m t hq]
            exact ih (m :: t) hlt
          · rw [pegLoop_bs_plain q m t hm hmq, oddGo_false_bs]
            cases t with
            | nil => rw [pegLoop_single]; simp [oddGo, hm, hmq]
            | cons x t' =>
              rw [pegLoop_plain q m _ hm (by simp), oddGo_true_plain q m _ hm hmq]
              exact ih (x :: t') (by simp at hl ⊢; omega)
      · rw [pegLoop_plain q r _ hr (by simp), oddGo_cons_other q r _ hr]
        exact ih (m :: t) hlt

theorem endsBs_cons_cons (c d : Nat) (s : Bytes) : endsBs (c :: d :: s) = endsBs (d :: s) := rfl

/-- the output of `pegLoop` ends as its input ends -/
theorem endsBs_pegLoop (q : Nat) (hq : q ≠ 92) (n : Nat) : ∀ raw : Bytes, raw.length ≤ n → endsBs raw = false →
    endsBs (pegLoop q raw) = false := by
  induction n with
  | zero =>
    intro raw hl _
    have : raw = [] := List.eq_nil_of_length_eq_zero (Nat.le_zero.mp hl)
    subst this; simp [pegLoop, endsBs]
  | succ n ih =>
    intro raw hl he
    match raw, hl, he with
    | [], _, _ => simp [pegLoop, endsBs]
    | [r], _, he => rw [pegLoop_single]; exact he
    | r :: m :: t, hl, he =>
      have hlt : (m :: t).length ≤ n := by simp at hl ⊢; omega
      have he' : endsBs (m :: t) = false := by rw [endsBs_cons_cons] at he; exact he
      have key : ∀ (x : Nat) (X : Bytes), X ≠ [] → endsBs (x :: X) = endsBs X := by
        intro x X hX; cases X with
        | nil => exact absurd rfl hX
        | cons _ _ => rfl
      have pne : ∀ X : Bytes, X ≠ [] → pegLoop q X ≠ [] := by
        intro X hX
        match X, hX with
        | [a], _ => simp [pegLoop_single]
        | a :: b :: u, _ =>
          by_cases ha : a = 92
          · subst ha
            by_cases hb : b = 92
            · subst hb
              cases u with
              | nil => simp [pegLoop]
              | cons _ _ => rw [pegLoop_bs_bs q _ (by simp)]; simp
            · by_cases hbq : b = q
              · subst hbq
                cases u with
                | nil => simp [pegLoop, hq]
                | cons y u' =>
                  rw [pegLoop_escq b _ hq, pegLoop_plain b b _ hq (by simp)]; simp
              · rw [pegLoop_bs_plain q b u hb hbq]; simp
          · rw [pegLoop_plain q a _ ha (by simp)]; simp
      by_cases hr : r = 92
      · subst hr
        by_cases hm : m = 92
        · subst hm
          cases t with
          | nil => simp [endsBs] at he
          | cons x t' =>
            rw [pegLoop_bs_bs q _ (by simp), key 92 _ (by simp), key 92 _ (pne _ (by simp))]
            exact ih (x :: t') (by simp at hl ⊢; omega) (by simpa [endsBs] using he')
        · by_cases hmq : m = q
          · subst hmq
            rw [pegLoop_escq m t hq]
            exact ih (m :: t) hlt he'
          · rw [pegLoop_bs_plain q m t hm hmq, key 92 _ (pne _ (by simp))]
            exact ih (m :: t) hlt he'
      · rw [pegLoop_plain q r _ hr (by simp), key r _ (pne _ (by simp))]
        exact ih (m :: t) hlt he'

/-- a text captured by the `Literal` rule does not end in a backslash -/
theorem lexBody_capture_endsBs (q : Nat) (hq : q = 34 ∨ q = 39) (n : Nat) : ∀ raw : Bytes, raw.length ≤ n → ∀ rest,
    lexBody q (raw ++ q :: rest) = some (raw, rest) → endsBs raw = false := by
  have hq92 : q ≠ 92 := by rcases hq with h | h <;> omega
  induction n with
  | zero =>
    intro raw hl _ _
    have : raw = [] := List.eq_nil_of_length_eq_zero (Nat.le_zero.mp hl)
    subst this; rfl
  | succ n ih =>
    intro raw hl rest h
    match raw, hl, h with
    | [], _, _ => rfl
    | [c], _, h =>
      by_cases hc : c = 92
      · subst hc
        simp only [List.cons_append, List.nil_append] at h
        rw [lexBody_esc q q rest hq] at h
        cases hh : lexBody q rest with
        | none => simp [hh] at h
        | some p => simp [hh] at h
      · simp [endsBs, hc]
    | c :: d :: s, hl, h =>
      rw [endsBs_cons_cons]
      simp only [List.cons_append] at h
      by_cases he : c = 92 ∧ (d = 34 ∨ d = 39)
      · obtain ⟨hc, hd⟩ := he
        subst hc
        rw [lexBody_esc q d _ hd] at h
        cases hh : lexBody q (s ++ q :: rest) with
        | none => simp [hh] at h
        | some p =>
          simp only [hh, Option.map_some, Option.some.injEq, Prod.mk.injEq, List.cons.injEq, true_and] at h
          have hs : lexBody q (s ++ q :: rest) = some (s, rest) := by rw [hh]; cases p; simp_all
          have := ih s (by simp at hl ⊢; omega) rest hs
          cases s with
          | nil => rcases hd with hd | hd <;> subst hd <;> rfl
          | cons x s' => exact this
      · by_cases hcq : c = q
        · subst hcq
          rw [lexBody] at h
          simp [he] at h
        · rw [lexBody_plain q c d _ he hcq] at h
          cases hh : lexBody q (d :: (s ++ q :: rest)) with
          | none => simp [hh] at h
          | some p =>
            simp only [hh, Option.map_some, Option.some.injEq, Prod.mk.injEq, List.cons.injEq, true_and] at h
            have hs : lexBody q ((d :: s) ++ q :: rest) = some (d :: s, rest) := by
              rw [List.cons_append, hh]; cases p; simp_all
            exact ih (d :: s) (by simp at hl ⊢; omega) rest hs

/-- every value the parser reads from a literal is `Representable` -/
theorem pegText_representable (q : Nat) (hq : q = 34 ∨ q = 39) (raw rest : Bytes)
    (h : lexBody q (raw ++ q :: rest) = some (raw, rest)) : Representable (pegText q raw) = true := by
  have hq92 : q ≠ 92 := by rcases hq with h | h <;> omega
  have he := lexBody_capture_endsBs q hq _ raw (Nat.le_refl _) rest h
  unfold pegText
  cases hr : raw.isEmpty with
  | true => simp [Representable, endsBs, oddGo]
  | false =>
    simp only [Bool.false_eq_true, if_false]
    have h1 := endsBs_pegLoop q hq92 _ raw (Nat.le_refl _) he
    have h2 := oddGo_pegLoop q hq92 _ raw (Nat.le_refl _)
    rcases hq with hq | hq <;> subst hq <;> simp [Representable, h1, h2]

/-- the first byte of a written value is a quote -/
theorem quoteVal_head (v : Bytes) : ∃ c t, quoteVal stdCfg v = c :: t ∧ (c = 34 ∨ c = 39) := by
  rw [quoteVal_std]; split
  · exact ⟨39, _, rfl, Or.inr rfl⟩
  · exact ⟨34, _, rfl, Or.inl rfl⟩

/-! ## annotation regrouping -/

def annKeys (l : List Ann) : List Bytes := l.map (·.key)

def WFAnn (l : List Ann) : Prop := (annKeys l).Nodup ∧ ∀ a ∈ l, a.vals ≠ []

theorem annAppend_new (acc : List Ann) (k v : Bytes) (h : k ∉ annKeys acc) :
    annAppend acc k v = acc ++ [⟨k, [v]⟩] := by
  induction acc with
  | nil => rfl
  | cons a acc ih =>
    simp only [annKeys, List.map_cons, List.mem_cons, not_or] at h
    have hne : ¬ a.key = k := fun e => h.1 e.symm
    simp [annAppend, hne, ih (by simpa [annKeys] using h.2)]

theorem annAppend_last (acc : List Ann) (k : Bytes) (vs : List Bytes) (v : Bytes) (h : k ∉ annKeys acc) :
    annAppend (acc ++ [⟨k, vs⟩]) k v = acc ++ [⟨k, vs ++ [v]⟩] := by
  induction acc with
  | nil => simp [annAppend]
  | cons a acc ih =>
    simp only [annKeys, List.map_cons, List.mem_cons, not_or] at h
    have hne : ¬ a.key = k := fun e => h.1 e.symm
    simp [annAppend, hne, ih (by simpa [annKeys] using h.2)]

theorem foldl_same_key (acc : List Ann) (k : Bytes) (vs ws' : List Bytes) (h : k ∉ annKeys acc) :
    (ws'.map fun v => (k, v)).foldl (fun acc kv => annAppend acc kv.1 kv.2) (acc ++ [⟨k, vs⟩]) = acc ++ [⟨k, vs ++ ws'⟩] := by
  induction ws' generalizing vs with
  | nil => simp
  | cons w ws' ih => simp [annAppend_last acc k vs w h, ih]

theorem regroup_go (acc l : List Ann) (hwf : WFAnn l) (hd : ∀ a ∈ l, a.key ∉ annKeys acc) :
    (annFlatten l).foldl (fun acc kv => annAppend acc kv.1 kv.2) acc = acc ++ l := by
  induction l generalizing acc with
  | nil => simp [annFlatten]
  | cons a l ih =>
    obtain ⟨hnd, hne⟩ := hwf
    simp only [annKeys, List.map_cons, List.nodup_cons] at hnd
    have ha : a.key ∉ annKeys acc := hd a (by simp)
    have hvals : a.vals ≠ [] := hne a (by simp)
    obtain ⟨k, vals⟩ := a
    cases vals with
    | nil => exact absurd rfl hvals
    | cons v vs =>
      simp only [annFlatten, List.map_cons, List.cons_append, List.foldl_cons, List.foldl_append]
      rw [annAppend_new acc k v ha, foldl_same_key acc k [v] vs ha]
      have e1 : acc ++ [Ann.mk k ([v] ++ vs)] = acc ++ [Ann.mk k (v :: vs)] := by simp
      rw [e1]
      have hd' : ∀ b ∈ l, b.key ∉ annKeys (acc ++ [Ann.mk k (v :: vs)]) := by
        intro b hb
        simp only [annKeys, List.map_append, List.map_cons, List.map_nil, List.mem_append, List.mem_singleton, not_or]
        refine ⟨by simpa [annKeys] using hd b (by simp [hb]), ?_⟩
        intro e
        have hm : b.key ∈ List.map (fun x : Ann => x.key) l := List.mem_map_of_mem (f := fun x : Ann => x.key) hb
        rw [e] at hm
        exact hnd.1 hm
      rw [ih (acc ++ [Ann.mk k (v :: vs)]) ⟨hnd.2, fun b hb => hne b (by simp [hb])⟩ hd']
      simp

theorem regroup_flatten (l : List Ann) (h : WFAnn l) : annRegroup (annFlatten l) = l := by
  have := regroup_go [] l h (by simp [annKeys])
  simpa [annRegroup] using this


end Dump
