import ThriftVerif.Core.VL
/-
  Model of generator/golang/option.go : HandleOptions / validateOptions and of
  the CodeUtils setters it calls (util.go).  Go strings are `Bytes`.
  The option table, the defaults and the indices of the features mentioned by
  the slim rule and by validateOptions are parameters (`Env`), instantiated by
  the regenerated `Generated.C20.env`.
-/
namespace Options

inductive Kind
  | thriftImportPath | usePackage | namingStyle | ignoreInitialisms | packagePrefix | template
  | feature (idx : Nat)
  deriving DecidableEq, Repr

structure Entry where
  name : Bytes
  kind : Kind
  deriving DecidableEq, Repr

structure Env where
  table : List Entry
  defaults : List Bool          -- defaultFeatures, by struct field index
  styles : List Bytes           -- styles.NamingStyles()
  templates : List Bytes        -- "default" and the keys of templates.Alternative()
  defaultStyle : Bytes
  defaultTemplate : Bytes
  slimName : Bytes
  thriftLib : Bytes
  doInit0 : Bool                -- initial CodeUtils.doInitialisms
  iDeepEqual : Nat
  iApacheWarning : Nat
  iApacheAdaptor : Nat
  iWithFieldMask : Nat
  iWithReflection : Nat
  iSnake : Nat
  iLowerCamel : Nat
  iGenJSON : Nat
  iAlwaysJSON : Nat

/-- CodeUtils state touched by HandleOptions.  `styleFlags` is the per-style
`UseInitialisms` flag: the style objects are process-wide singletons. -/
structure Cfg where
  features : List Bool
  style : Bytes
  doInit : Bool
  styleFlags : List (Bytes × Bool)
  pkgPrefix : Bytes
  template : Bytes
  repl : List (Bytes × Bytes)
  deriving DecidableEq, Repr

def assocSet {α} (k : Bytes) (v : α) : List (Bytes × α) → List (Bytes × α)
  | [] => [(k, v)]
  | (k', v') :: r => if k' = k then (k, v) :: r else (k', v') :: assocSet k v r

def assocGet {α} (k : Bytes) : List (Bytes × α) → Option α
  | [] => none
  | (k', v') :: r => if k' = k then some v' else assocGet k r

def init (env : Env) : Cfg :=
  { features := env.defaults, style := env.defaultStyle, doInit := env.doInit0,
    styleFlags := env.styles.map (·, true), pkgPrefix := [], template := env.defaultTemplate, repl := [] }

/-- the initialisms switch of the active naming style (what `Identify` obeys) -/
def Cfg.effInit (c : Cfg) : Bool := (assocGet c.style c.styleFlags).getD true

/-- strings.SplitN(a, "=", 2) -/
def splitEq : Bytes → Bytes × Option Bytes
  | [] => ([], none)
  | x :: r => if x = 61 then ([], some r) else
      let (n, v) := splitEq r
      (x :: n, v)

def isPrefix : Bytes → Bytes → Bool
  | [], _ => true
  | _ :: _, [] => false
  | a :: p, b :: s => a == b && isPrefix p s

def lookup (t : List Entry) (name : Bytes) : Option Entry :=
  t.find? (fun e => isPrefix e.name name)

def bTrue : Bytes := [116, 114, 117, 101]
def bFalse : Bytes := [102, 97, 108, 115, 101]

def checkBool (v : Bytes) : Option Bool :=
  if v = [] ∨ v = bTrue then some true
  else if v = bFalse then some false
  else none

def setAt (l : List Bool) (i : Nat) (b : Bool) : List Bool := l.set i b

def act (env : Env) (c : Cfg) (k : Kind) (value : Bytes) : Option Cfg :=
  match k with
  | .thriftImportPath => some { c with repl := assocSet env.thriftLib value c.repl }
  | .usePackage =>
      match splitEq value with
      | (p, some r) => some { c with repl := assocSet p r c.repl }
      | (_, none) => none
  | .namingStyle =>
      if env.styles.contains value then
        some { c with style := value, styleFlags := assocSet value c.doInit c.styleFlags }
      else none
  | .ignoreInitialisms =>
      match checkBool value with
      | some ig => some { c with doInit := !ig, styleFlags := assocSet c.style (!ig) c.styleFlags }
      | none => none
  | .packagePrefix => some { c with pkgPrefix := value }
  | .template =>
      if env.templates.contains value then some { c with template := value } else none
  | .feature i =>
      match checkBool value with
      | some b => some { c with features := setAt c.features i b }
      | none => none

/-- name/value split and first-match table lookup of one option -/
def resolve (env : Env) (a : Bytes) : Option (Kind × Bytes) :=
  match lookup env.table (splitEq a).1 with
  | some e => some (e.kind, (splitEq a).2.getD [])
  | none => none

/-- one iteration of the `for _, a := range args` loop; `none` = error return -/
def step (env : Env) (c : Cfg) (a : Bytes) : Option Cfg :=
  match resolve env a with
  | some (k, v) => act env c k v
  | none => some c

def run (env : Env) : Cfg → List Bytes → Option Cfg
  | c, [] => some c
  | c, a :: r => match step env c a with
      | some c' => run env c' r
      | none => none

def feat (c : Cfg) (i : Nat) : Bool := c.features.getD i false

def slimRule (env : Env) (c : Cfg) : Cfg :=
  if c.template = env.slimName then { c with features := setAt c.features env.iDeepEqual false } else c

def invalid (env : Env) (c : Cfg) : Bool :=
  (feat c env.iApacheWarning && feat c env.iApacheAdaptor) ||
  (feat c env.iWithFieldMask && !feat c env.iWithReflection) ||
  (feat c env.iSnake && feat c env.iLowerCamel) ||
  (!feat c env.iGenJSON && feat c env.iAlwaysJSON)

/-- HandleOptions on a CodeUtils whose visible state is `c0` -/
def handleFrom (env : Env) (c0 : Cfg) (args : List Bytes) : Option Cfg :=
  match run env c0 args with
  | none => none
  | some c =>
      let c := slimRule env c
      if invalid env c then none else some c

def handle (env : Env) (args : List Bytes) : Option Cfg := handleFrom env (init env) args

/-! ### the command-line path: `-g go:<opts>` → plugin.ParseCompactArguments → args.checkOptions →
plugin.Pack → HandleOptions (args/args.go, plugin/plugin.go) -/

/-- strings.Split(s, ",") -/
def splitComma : Bytes → List Bytes
  | [] => [[]]
  | x :: r =>
      if x = 44 then [] :: splitComma r
      else match splitComma r with
        | h :: t => (x :: h) :: t
        | [] => [[x]]

/-- the options of plugin.ParseCompactArguments("go:" ++ s): `kv := strings.SplitN(a, "=", 2)`, Name = kv[0],
Desc = kv[1] when present -/
def parseOpts (s : Bytes) : List (Bytes × Bytes) :=
  (splitComma s).map fun a => ((splitEq a).1, (splitEq a).2.getD [])

/-- plugin.Pack: `o.Name + "=" + o.Desc` -/
def pack (o : List (Bytes × Bytes)) : List Bytes := o.map fun p => p.1 ++ 61 :: p.2

/-- the option loop of HandleOptions keeping the state reached when an option is rejected
(before repair 4394ad6 checkOptions ignored the error and read the features anyway) -/
def runP (env : Env) : Cfg → List Bytes → Cfg × Bool
  | c, [] => (c, true)
  | c, a :: r => match step env c a with
      | some c' => runP env c' r
      | none => (c, false)

/-- the scratch CodeUtils of checkOptions after `cu.HandleOptions(params)` -/
def probe (env : Env) (args : List Bytes) : Cfg :=
  match runP env (init env) args with
  | (c, true) => slimRule env c
  | (c, false) => c

structure CmdEnv where
  iNested : Nat          -- index of EnableNestedStruct
  templateName : Bytes   -- "template"
  probeErrReturned : Bool -- checkOptions returns the error of its scratch HandleOptions (regenerated from args.go)

/-- args.checkOptions: with nested structs on and no option NAMED `template`, `template=slim` is appended
(an option named `template` is left as it is: the loop assigns to a copy).  `none` = the error of the scratch run
is returned (Targets fails, nothing is generated). -/
def checkOptions (env : Env) (ce : CmdEnv) (o : List (Bytes × Bytes)) : Option (List (Bytes × Bytes)) :=
  if ce.probeErrReturned && (handle env (pack o)).isNone then none
  else if feat (probe env (pack o)) ce.iNested then
    if o.any (fun p => p.1 == ce.templateName) then some o else some (o ++ [(ce.templateName, env.slimName)])
  else some o

/-- what the go backend's HandleOptions ends with for `-g go:<s>`.  The probe run of checkOptions shares the
process-wide naming-style objects with the backend's run: the latter starts from their flags. -/
def cmdline (env : Env) (ce : CmdEnv) (s : Bytes) : Option Cfg :=
  let o := parseOpts s
  let flags := (probe env (pack o)).styleFlags
  match checkOptions env ce o with
  | none => none
  | some o' => handleFrom env { init env with styleFlags := flags } (pack o')

end Options
