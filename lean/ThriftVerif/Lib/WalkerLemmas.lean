import ThriftVerif.Lib.Walker
/-
  Lemmas about the pure parts of the walker: Annotations.Append, field / enum numbering, the unescape loop,
  strconv.ParseInt on decimal numerals.
-/
namespace Walker
open Peg

/-! ### Annotations.Append -/

theorem annGet_annAppend (a : Anns) (k' v k : Bytes) :
    annGet (annAppend a k' v) k = if k' = k then annGet a k ++ [v] else annGet a k := by
  induction a with
  | nil =>
    by_cases h : k' = k <;> simp [annAppend, annGet, h]
  | cons x r ih =>
    obtain ⟨k0, vs⟩ := x
    simp only [annAppend]
    by_cases h0 : k0 = k'
    · subst h0
      by_cases h : k0 = k <;> simp [annGet, h]
    · simp only [h0, if_false, annGet]
      by_cases h1 : k0 = k
      · subst h1
        have : ¬ k' = k0 := fun e => h0 e.symm
        simp [this]
      · simp only [h1, if_false]; exact ih

/-- folding `Append` over the written pairs -/
def annFold (a : Anns) (kvs : List (Bytes × Bytes)) : Anns := kvs.foldl (fun a kv => annAppend a kv.1 kv.2) a

theorem annGet_annFold (kvs : List (Bytes × Bytes)) (a : Anns) (k : Bytes) :
    annGet (annFold a kvs) k = annGet a k ++ (kvs.filter (fun kv => kv.1 = k)).map (·.2) := by
  induction kvs generalizing a with
  | nil => simp [annFold]
  | cons kv r ih =>
    simp only [annFold, List.foldl_cons] at ih ⊢
    rw [ih, annGet_annAppend]
    by_cases h : kv.1 = k <;> simp [h]

def keysOf (a : Anns) : List Bytes := a.map (·.1)

def addKey (ks : List Bytes) (k : Bytes) : List Bytes := if k ∈ ks then ks else ks ++ [k]

theorem keysOf_annAppend (a : Anns) (k v : Bytes) : keysOf (annAppend a k v) = addKey (keysOf a) k := by
  induction a with
  | nil => simp [annAppend, keysOf, addKey]
  | cons x r ih =>
    obtain ⟨k0, vs⟩ := x
    simp only [annAppend]
    by_cases h0 : k0 = k
    · subst h0; simp [keysOf, addKey]
    · simp only [h0, if_false]
      simp only [keysOf, List.map_cons] at ih ⊢
      rw [ih]
      have hne : ¬ k = k0 := fun e => h0 e.symm
      simp only [addKey, List.mem_cons, hne, false_or]
      split <;> simp

theorem keysOf_annFold (kvs : List (Bytes × Bytes)) (a : Anns) :
    keysOf (annFold a kvs) = (kvs.map (·.1)).foldl addKey (keysOf a) := by
  induction kvs generalizing a with
  | nil => simp [annFold]
  | cons kv r ih =>
    simp only [annFold, List.foldl_cons, List.map_cons] at ih ⊢
    rw [ih, keysOf_annAppend]

theorem addKey_nodup (ks : List Bytes) (k : Bytes) (h : ks.Nodup) : (addKey ks k).Nodup := by
  unfold addKey
  split
  · exact h
  · rename_i hk
    rw [List.nodup_append]
    refine ⟨h, by simp, ?_⟩
    intro a ha b hb
    simp at hb; subst hb
    intro e; subst e; exact hk ha

theorem foldl_addKey_nodup (l ks : List Bytes) (h : ks.Nodup) : (l.foldl addKey ks).Nodup := by
  induction l generalizing ks with
  | nil => exact h
  | cons x r ih => exact ih _ (addKey_nodup ks x h)

/-! ### field numbering -/

/-- the id a field carries before numbering, as the property sees it: `none` = not written.
A field written with id -999999 (the NOTSET sentinel) is indistinguishable from an unnumbered one. -/
def written (f : Field) : Option Int := if f.id = NOTSET then none else some f.id

/-- the numbering rule of the property: written ids as written, otherwise previous + 1 (int32 arithmetic), first 1 -/
def numberSpec : Option Int → List (Option Int) → List Int
  | _, [] => []
  | _, some v :: r => v :: numberSpec (some v) r
  | none, none :: r => 1 :: numberSpec (some 1) r
  | some p, none :: r => wrap32 (p + 1) :: numberSpec (some (wrap32 (p + 1))) r

theorem getLast?_append_singleton {α} (l : List α) (x : α) : (l ++ [x]).getLast? = some x := by
  simp

theorem addField_ids (acc : List Field) (f : Field) :
    (addField acc f).map (·.id) = acc.map (·.id) ++
      [match written f with
       | some v => v
       | none => match acc.getLast? with
         | some l => wrap32 (l.id + 1)
         | none => 1] := by
  unfold addField written
  by_cases h : f.id = NOTSET
  · simp only [h, if_true]
    cases acc.getLast? <;> simp
  · simp [h]

theorem foldl_addField_ids (fs acc : List Field) :
    (fs.foldl addField acc).map (·.id) =
      acc.map (·.id) ++ numberSpec (acc.getLast?.map (·.id)) (fs.map written) := by
  induction fs generalizing acc with
  | nil => simp [numberSpec]
  | cons f r ih =>
    simp only [List.foldl_cons, List.map_cons]
    rw [ih, addField_ids]
    have hl : (addField acc f).getLast?.map (·.id) = some (match written f with
       | some v => v
       | none => match acc.getLast? with
         | some l => wrap32 (l.id + 1)
         | none => 1) := by
      have := addField_ids acc f
      have h2 : ((addField acc f).map (·.id)).getLast? = ((addField acc f).getLast?).map (·.id) := by
        simp [List.getLast?_map]
      rw [← h2, this]; simp
    rw [hl]
    cases hw : written f with
    | some v => simp [numberSpec]
    | none =>
      cases hg : acc.getLast? with
      | none => simp [numberSpec]
      | some l => simp [numberSpec]

/-- numbering changes nothing but ids -/
theorem addField_rest (acc : List Field) (f : Field) :
    (addField acc f).map (fun x => { x with id := 0 }) = (acc ++ [f]).map (fun x => { x with id := 0 }) := by
  unfold addField
  by_cases h : f.id = NOTSET
  · simp only [h, if_true]
    cases acc.getLast? <;> simp
  · simp [h]

theorem foldl_addField_rest (fs acc : List Field) :
    (fs.foldl addField acc).map (fun x => { x with id := 0 }) = (acc ++ fs).map (fun x => { x with id := 0 }) := by
  induction fs generalizing acc with
  | nil => simp
  | cons f r ih =>
    simp only [List.foldl_cons]
    rw [ih]
    simp only [List.map_append]
    rw [addField_rest]
    simp

/-! ### enum numbering -/

/-- the rule of the property for enums: written values as written, otherwise previous + 1 (int64), first 0 -/
def enumSpec : Option Int → List (Option Int) → List Int
  | _, [] => []
  | _, some v :: r => v :: enumSpec (some v) r
  | none, none :: r => 0 :: enumSpec (some 0) r
  | some p, none :: r => wrap64 (p + 1) :: enumSpec (some (wrap64 (p + 1))) r

/-- one step of the enum loop: append a member whose value is the written one or the implicit one -/
def enumStep (values : List EnumValue) (name : Bytes) (w : Option Int) : List EnumValue :=
  values ++ [{ name := name, value := (match w with | some v => v | none => implicitEnumValue values), anns := [], comments := [] }]

theorem foldl_enumStep_values (ws : List (Bytes × Option Int)) (acc : List EnumValue) :
    (ws.foldl (fun a w => enumStep a w.1 w.2) acc).map (·.value) =
      acc.map (·.value) ++ enumSpec (acc.getLast?.map (·.value)) (ws.map (·.2)) := by
  induction ws generalizing acc with
  | nil => simp [enumSpec]
  | cons w r ih =>
    simp only [List.foldl_cons, List.map_cons]
    rw [ih]
    obtain ⟨nm, wv⟩ := w
    cases wv with
    | some v => simp [enumStep, enumSpec]
    | none =>
      cases hg : acc.getLast? with
      | none => simp [enumStep, enumSpec, implicitEnumValue, hg]
      | some l => simp [enumStep, enumSpec, implicitEnumValue, hg]

/-! ### literal unescaping -/

/-- the spelling of a literal's content: a backslash in front of every occurrence of the enclosing quote -/
def esc (q : Nat) : List Nat → List Nat
  | [] => []
  | c :: r => if c = q then 92 :: q :: esc q r else c :: esc q r

/-- contents for which the doc's rule ("only the enclosing quote is unescaped") and the code can be compared:
no backslash immediately before the quote character or before another backslash, none at the very end -/
def Plain (q : Nat) : List Nat → Prop
  | [] => True
  | [c] => c ≠ 92
  | c :: d :: r => (c = 92 → d ≠ q ∧ d ≠ 92) ∧ Plain q (d :: r)

instance decPlain (q : Nat) : (s : List Nat) → Decidable (Plain q s)
  | [] => isTrue trivial
  | [c] => inferInstanceAs (Decidable (c ≠ 92))
  | c :: d :: r =>
    have := decPlain q (d :: r)
    inferInstanceAs (Decidable ((c = 92 → d ≠ q ∧ d ≠ 92) ∧ Plain q (d :: r)))

theorem esc_ne_nil (q c : Nat) (r : List Nat) : esc q (c :: r) ≠ [] := by
  simp only [esc]; split <;> simp

theorem esc_head (q : Nat) (d : Nat) (r : List Nat) (hd : d ≠ q) : ∃ tl, esc q (d :: r) = d :: tl ∧ tl = esc q r := by
  simp [esc, hd]

theorem unescLoop_drop (q : Nat) (hq : q ≠ 92) (rest : List Nat) :
    unescLoop q (92 :: q :: rest) = unescLoop q (q :: rest) := by
  simp [unescLoop, hq]

theorem unescLoop_keep (q c d : Nat) (rest : List Nat) (hc : c ≠ 92) :
    unescLoop q (c :: d :: rest) = c :: unescLoop q (d :: rest) := by
  simp [unescLoop, hc]

theorem unescLoop_keep_bs (q d : Nat) (rest : List Nat) (h1 : d ≠ 92) (h2 : d ≠ q) :
    unescLoop q (92 :: d :: rest) = 92 :: unescLoop q (d :: rest) := by
  simp [unescLoop, h1, h2]

theorem unescLoop_esc (q : Nat) (hq : q ≠ 92) : ∀ s : List Nat, Plain q s → unescLoop q (esc q s) = s := by
  intro s
  induction s with
  | nil => intro _; simp [esc, unescLoop]
  | cons c r ih =>
    intro hp
    have hr : Plain q r := by
      cases r with
      | nil => trivial
      | cons d r' => exact hp.2
    have ihr := ih hr
    by_cases hc : c = q
    · subst hc
      simp only [esc, if_true]
      rw [unescLoop_drop c hq]
      cases r with
      | nil => simp [esc, unescLoop]
      | cons d r' =>
        cases hr' : esc c (d :: r') with
        | nil => exact absurd hr' (esc_ne_nil c d r')
        | cons d' tl =>
          rw [hr'] at ihr
          rw [unescLoop_keep c c d' tl hq, ihr]
    · simp only [esc, hc, if_false]
      cases r with
      | nil => simp [esc, unescLoop]
      | cons d r' =>
        obtain ⟨hcd, _⟩ := hp
        cases hr' : esc q (d :: r') with
        | nil => exact absurd hr' (esc_ne_nil q d r')
        | cons d' tl =>
          rw [hr'] at ihr
          by_cases h92 : c = 92
          · obtain ⟨hdq, hd92⟩ := hcd h92
            have : d' = d := by
              obtain ⟨tl', h1, _⟩ := esc_head q d r' hdq
              rw [h1] at hr'; injection hr' with h2 _; exact h2.symm
            subst this
            subst h92
            rw [unescLoop_keep_bs q d' tl hd92 hdq, ihr]
          · rw [unescLoop_keep q c d' tl h92, ihr]

/-! ### strconv.ParseInt on decimal numerals -/

open GoStrconv

/-- value of a list of decimal digits -/
def decVal : List Nat → Nat := List.foldl (fun n d => n * 10 + d) 0

def digitsOK (ds : List Nat) : Prop := ∀ d ∈ ds, d < 10

instance (ds : List Nat) : Decidable (digitsOK ds) := by unfold digitsOK; infer_instance

theorem digitVal_dec (d : Nat) (h : d < 10) : digitVal (d + 48) = some d := by
  unfold digitVal
  have : 48 ≤ d + 48 ∧ d + 48 ≤ 57 := by omega
  simp [this]

theorem uintLoop_dec (maxVal : Nat) : ∀ (ds : List Nat) (n : Nat), digitsOK ds →
    ds.foldl (fun n d => n * 10 + d) n ≤ maxVal →
    uintLoop 10 maxVal n (ds.map (· + 48)) = .ok (ds.foldl (fun n d => n * 10 + d) n) := by
  intro ds
  induction ds with
  | nil => intro n _ _; simp [uintLoop]
  | cons d r ih =>
    intro n hd hmax
    have hd10 : d < 10 := hd d (by simp)
    have hr : digitsOK r := fun x hx => hd x (by simp [hx])
    simp only [List.map_cons, uintLoop, digitVal_dec d hd10, List.foldl_cons] at hmax ⊢
    have hmono : ∀ (l : List Nat) (a : Nat), a ≤ l.foldl (fun n d => n * 10 + d) a := by
      intro l
      induction l with
      | nil => intro a; simp
      | cons x xs ihx => intro a; simp only [List.foldl_cons]; have := ihx (a * 10 + x); omega
    have h1 : n * 10 + d ≤ maxVal := Nat.le_trans (hmono r _) hmax
    have h2 : ¬ d ≥ 10 := by omega
    have h3 : ¬ n * 10 + d > maxVal := by omega
    simp only [h2, h3, if_false]
    exact ih (n * 10 + d) hr hmax

theorem parseInt_decimal (ds : List Nat) (hne : ds ≠ []) (hd : digitsOK ds) (h : decVal ds < 2 ^ 31) :
    parseInt (ds.map (· + 48)) 10 32 = ((decVal ds : Int), false) := by
  cases ds with
  | nil => exact absurd rfl hne
  | cons d r =>
    have hd10 : d < 10 := hd d (by simp)
    have hu := uintLoop_dec (2 ^ 32 - 1) (d :: r) 0 hd (by unfold decVal at h; omega)
    simp only [List.map_cons] at hu
    have h43 : ¬ (d + 48 = 43 ∨ d + 48 = 45) := by omega
    have h45 : ¬ (d + 48 = 45) := by omega
    unfold decVal at h ⊢
    generalize List.foldl (fun n d => n * 10 + d) 0 (d :: r) = V at hu h ⊢
    simp only [parseInt, List.map_cons, h43, if_false, parseUint]
    simp only [reduceCtorEq, if_false, show ¬ (10 : Nat) = 0 by decide, ne_eq, not_false_eq_true, if_true]
    rw [hu]
    have hc : ¬ (V ≥ 2 ^ (32 - 1)) := by simp; omega
    simp [h45, hc]

theorem parseInt_decimal_signed (neg : Bool) (ds : List Nat) (hne : ds ≠ []) (hd : digitsOK ds)
    (h : if neg then decVal ds ≤ 2 ^ 31 else decVal ds < 2 ^ 31) :
    parseInt ((if neg then 45 else 43) :: ds.map (· + 48)) 10 32 =
      ((if neg then -(decVal ds : Int) else (decVal ds : Int)), false) := by
  cases ds with
  | nil => exact absurd rfl hne
  | cons d r =>
    have hle : decVal (d :: r) ≤ 2 ^ 32 - 1 := by cases neg <;> simp at h <;> omega
    have hu := uintLoop_dec (2 ^ 32 - 1) (d :: r) 0 hd (by unfold decVal at hle; exact hle)
    simp only [List.map_cons] at hu
    unfold decVal at h ⊢
    generalize List.foldl (fun n d => n * 10 + d) 0 (d :: r) = V at hu h ⊢
    cases neg with
    | false =>
      simp only [Bool.false_eq_true, if_false] at h ⊢
      simp only [parseInt, true_or, if_true, parseUint]
      simp only [reduceCtorEq, if_false, show ¬ (10 : Nat) = 0 by decide, ne_eq, not_false_eq_true, if_true, List.map_cons]
      rw [hu]
      have hc : ¬ (V ≥ 2 ^ (32 - 1)) := by simp; omega
      simp [hc]
    | true =>
      simp only [if_true] at h ⊢
      simp only [parseInt, or_true, if_true, parseUint]
      simp only [reduceCtorEq, if_false, show ¬ (10 : Nat) = 0 by decide, ne_eq, not_false_eq_true, if_true, List.map_cons]
      rw [hu]
      have hc : ¬ (V > 2 ^ (32 - 1)) := by simp; omega
      simp [hc]

/-! ### the field loops number with `addField` -/

variable (ids : Ids) (buf : Array Nat)

/-- the Field nodes of a sibling chain, parsed in order, before numbering -/
def collectFields (fuel : Nat) : T → W (List Field)
  | .nil => .ok []
  | .node r b e up next =>
    if r = ids.rField then
      match parseField ids buf fuel (.node r b e up next) with
      | .ok f =>
        match collectFields fuel next with
        | .ok fs => .ok (f :: fs)
        | .err => .err | .panic => .panic | .crash => .crash
      | .err => .err | .panic => .panic | .crash => .crash
    else collectFields fuel next

theorem fieldsLoop_eq (fuel : Nat) (post : Field → Field) : ∀ (t : T) (acc : List Field),
    fieldsLoop ids buf fuel post acc t =
      match collectFields ids buf fuel t with
      | .ok fs => .ok ((fs.map post).foldl addField acc)
      | .err => .err | .panic => .panic | .crash => .crash := by
  intro t
  induction t with
  | nil => intro acc; simp [fieldsLoop, collectFields]
  | node r b e up next _ ihn =>
    intro acc
    simp only [fieldsLoop, collectFields]
    split
    · cases hp : parseField ids buf fuel (.node r b e up next) with
      | ok f =>
        simp only []
        rw [ihn]
        cases collectFields ids buf fuel next <;> simp
      | err => simp
      | panic => simp
      | crash => simp
    · exact ihn acc

/-! ### explicit field ids and enum values (ParseInt with a fallback base) -/

open GoStrconv

/-- `cs` spells the digits `ds` in base `base` (any mix of upper / lower case letters) -/
def Spells (base : Nat) : List Nat → List Nat → Prop
  | [], [] => True
  | c :: cs, d :: ds => digitVal c = some d ∧ d < base ∧ Spells base cs ds
  | _, _ => False

instance decSpells (base : Nat) : (cs ds : List Nat) → Decidable (Spells base cs ds)
  | [], [] => isTrue trivial
  | [], _ :: _ => isFalse (fun h => h)
  | _ :: _, [] => isFalse (fun h => h)
  | c :: cs, d :: ds =>
    have := decSpells base cs ds
    inferInstanceAs (Decidable (digitVal c = some d ∧ d < base ∧ Spells base cs ds))

def valIn (base : Nat) (ds : List Nat) : Nat := ds.foldl (fun n d => n * base + d) 0

theorem foldl_ge (base : Nat) : ∀ (l : List Nat) (a : Nat), 1 ≤ base → a ≤ l.foldl (fun n d => n * base + d) a := by
  intro l
  induction l with
  | nil => intro a _; simp
  | cons x xs ih =>
    intro a hb
    simp only [List.foldl_cons]
    have := ih (a * base + x) hb
    have h2 : a ≤ a * base := Nat.le_mul_of_pos_right a hb
    omega

theorem uintLoop_spells (base maxVal : Nat) (hb : 1 ≤ base) : ∀ (cs ds : List Nat) (n : Nat), Spells base cs ds →
    ds.foldl (fun n d => n * base + d) n ≤ maxVal →
    uintLoop base maxVal n cs = .ok (ds.foldl (fun n d => n * base + d) n) := by
  intro cs
  induction cs with
  | nil =>
    intro ds n h _
    cases ds with
    | nil => simp [uintLoop]
    | cons d r => simp [Spells] at h
  | cons c r ih =>
    intro ds n h hmax
    cases ds with
    | nil => simp [Spells] at h
    | cons d ds' =>
      obtain ⟨h1, h2, h3⟩ := h
      simp only [List.foldl_cons] at hmax ⊢
      have hle := foldl_ge base ds' (n * base + d) hb
      have c1 : ¬ d ≥ base := by omega
      have c2 : ¬ n * base + d > maxVal := by omega
      simp only [uintLoop, h1, c1, c2, if_false]
      exact ih ds' (n * base + d) h3 hmax

/-- a field id spelled `0x…` (hex digits in either case) that fits int32 is read as its value -/
theorem fieldIdOf_hex (c : Nat) (cs ds : List Nat) (h : Spells 16 (c :: cs) ds) (hv : valIn 16 ds < 2 ^ 31) :
    fieldIdOf (48 :: 120 :: c :: cs) = some (valIn 16 ds : Int) := by
  have hu := uintLoop_spells 16 (2 ^ 32 - 1) (by decide) (c :: cs) ds 0 h (by unfold valIn at hv; omega)
  unfold valIn at hv ⊢
  generalize List.foldl (fun n d => n * 16 + d) 0 ds = V at hu hv ⊢
  have h10 : parseInt (48 :: 120 :: c :: cs) 10 32 = (0, true) := by
    simp [parseInt, parseUint, uintLoop, digitVal, lower]
  have hc : ¬ (V ≥ 2 ^ (32 - 1)) := by simp; omega
  have h0 : parseInt (48 :: 120 :: c :: cs) 0 32 = ((V : Int), false) := by
    simp [parseInt, parseUint, lower, hu, hc]
  simp [fieldIdOf, h10, h0]

/-- a field id spelled `0o…` that fits int32 is read as its value -/
theorem fieldIdOf_octal (c : Nat) (cs ds : List Nat) (h : Spells 8 (c :: cs) ds) (hv : valIn 8 ds < 2 ^ 31) :
    fieldIdOf (48 :: 111 :: c :: cs) = some (valIn 8 ds : Int) := by
  have hu := uintLoop_spells 8 (2 ^ 32 - 1) (by decide) (c :: cs) ds 0 h (by unfold valIn at hv; omega)
  unfold valIn at hv ⊢
  generalize List.foldl (fun n d => n * 8 + d) 0 ds = V at hu hv ⊢
  have h10 : parseInt (48 :: 111 :: c :: cs) 10 32 = (0, true) := by
    simp [parseInt, parseUint, uintLoop, digitVal, lower]
  have hc : ¬ (V ≥ 2 ^ (32 - 1)) := by simp; omega
  have h0 : parseInt (48 :: 111 :: c :: cs) 0 32 = ((V : Int), false) := by
    simp [parseInt, parseUint, lower, hu, hc]
  simp [fieldIdOf, h10, h0]

/-- decimal spellings (zero-padded ones too) are read in base 10, as before the fix -/
theorem fieldIdOf_decimal (ds : List Nat) (hne : ds ≠ []) (hd : digitsOK ds) (h : decVal ds < 2 ^ 31) :
    fieldIdOf (ds.map (· + 48)) = some (decVal ds : Int) := by
  simp [fieldIdOf, parseInt_decimal ds hne hd h]

theorem fieldIdOf_decimal_signed (neg : Bool) (ds : List Nat) (hne : ds ≠ []) (hd : digitsOK ds)
    (h : if neg then decVal ds ≤ 2 ^ 31 else decVal ds < 2 ^ 31) :
    fieldIdOf ((if neg then 45 else 43) :: ds.map (· + 48)) = some (if neg then -(decVal ds : Int) else (decVal ds : Int)) := by
  simp [fieldIdOf, parseInt_decimal_signed neg ds hne hd h]

end Walker
