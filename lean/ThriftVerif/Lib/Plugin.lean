import ThriftVerif.Core.VL
/-
  Lib/Plugin: model of plugin/plugin.go (+ the decision logic of generator.Generate around a plugin).

  * include compression  — compressThriftInclude / decompressThriftInclude / collectThriftInclude
  * data trailer         — appendDataTrailer / hasDataTrailerFeature
  * version gate         — supportDataTrailer (strings.Cut, Split, Atoi with ignored errors, literally)
  * option strings       — ParseCompactArguments / Pack
  * plugin execution     — external.Execute + the plugin loop of Generator.Generate + Persist's error check

  Go strings are `Bytes`.  Core Lean only (the driver links this file).
-/
namespace Plugin

/-! ## byte-string helpers (Go `strings`/`bytes` functions used by the code) -/

/-- `strings.HasPrefix` -/
def hasPrefix : Bytes → Bytes → Bool
  | _, [] => true
  | [], _ :: _ => false
  | a :: s, b :: p => a == b && hasPrefix s p

/-- `Some rest` iff `s = p ++ rest` (`strings.TrimPrefix` changed the string, for non-empty `p`) -/
def stripPrefix : Bytes → Bytes → Option Bytes
  | s, [] => some s
  | [], _ :: _ => none
  | a :: s, b :: p => if a = b then stripPrefix s p else none

/-- `bytes.HasSuffix` -/
def hasSuffix (d s : Bytes) : Bool :=
  decide (s.length ≤ d.length) && (d.drop (d.length - s.length) == s)

/-- `strings.Cut(s, sep)` with a one-byte separator: (before, after, found) -/
def cut (sep : Nat) : Bytes → Bytes × Bytes × Bool
  | [] => ([], [], false)
  | c :: r => if c = sep then ([], r, true) else
      let (b, a, f) := cut sep r
      (c :: b, a, f)

/-- `strings.Split(s, sep)` with a one-byte separator (`Split("", sep) = [""]`) -/
def splitOn (sep : Nat) : Bytes → List Bytes
  | [] => [[]]
  | c :: r => if c = sep then [] :: splitOn sep r else
      match splitOn sep r with
      | [] => [[c]]
      | h :: t => (c :: h) :: t

/-- `strings.SplitN(s, sep, 2)` with a one-byte separator: head and, if the separator occurs, the rest -/
def splitN2 (sep : Nat) : Bytes → Bytes × Option Bytes
  | [] => ([], none)
  | c :: r => if c = sep then ([], some r) else
      let (h, t) := splitN2 sep r
      (c :: h, t)

def isDigit (c : Nat) : Bool := 48 ≤ c && c ≤ 57

def maxInt64 : Nat := 9223372036854775807

def maxUint64 : Nat := 18446744073709551615

/-- outcome of `strconv.ParseUint(s, 10, 64)` -/
inductive PU where
  | ok (v : Nat)
  | syntax        -- a byte that is not a decimal digit
  | range         -- the value does not fit 64 bits (detected before any later bad byte is looked at)
  deriving Repr, DecidableEq

/-- the digit loop of `strconv.ParseUint`:
`if n >= cutoff → range; n *= 10; n1 := n + d; if n1 < n || n1 > maxVal → range` -/
def parseUint : Bytes → Nat → PU
  | [], n => .ok n
  | c :: r, n =>
    if !isDigit c then .syntax
    else if n ≥ maxUint64 / 10 + 1 then .range
    else if n * 10 + (c - 48) > maxUint64 then .range
    else parseUint r (n * 10 + (c - 48))

/-- the optional sign of `strconv.Atoi` -/
def signSplit : Bytes → Bool × Bytes
  | 43 :: r => (false, r)
  | 45 :: r => (true, r)
  | s => (false, s)

/-- `n, _ := strconv.Atoi(s)`: optional sign, decimal digits; 0 on a syntax error, the int64 bound on a
range error (the error is ignored by the caller) -/
def atoi (s : Bytes) : Int :=
  let neg := (signSplit s).1
  let ds := (signSplit s).2
  if ds.isEmpty then 0 else
  match parseUint ds 0 with
  | .syntax => 0
  | .range => if neg then -((maxInt64 + 1 : Nat) : Int) else (maxInt64 : Int)
  | .ok v =>
    if neg then (if v > maxInt64 + 1 then -((maxInt64 + 1 : Nat) : Int) else -(v : Int))
    else (if v > maxInt64 then (maxInt64 : Int) else (v : Int))

/-! ## include compression (plugin.go:263-308)

The include graph is a tree of nodes carrying `Thrift.Filename`; a node of the Go pointer graph that is
reachable along several paths appears as several equal subtrees (the unfolding).  The Go memo map
`map[string]*parser.Thrift` holds *pointers*: what `m[fn] != nil` tests is the key set, what a later
dereference sees is the pointee **after** all in-place mutation.  The model therefore keeps the key set
(`vis`) and the pointee contents (`heap`, entered when the recursive call on that node has returned)
side by side. -/

inductive Tree (α : Type) where
  | node (inc : α) (fn : Bytes) (body : α) (kids : List (Tree α))
  deriving Repr, Inhabited, BEq

/- A node is one `*parser.Include` together with the `*parser.Thrift` it references:
   `inc`  = the Include's own members (Path, Used),
   `fn`   = Reference.Filename,
   `body` = every other member of the referenced Thrift (namespaces, definitions, Name2Category, …),
   `kids` = Reference.Includes.
   The root of a request's AST is a node whose `inc` is unused. -/

variable {α : Type}

def Tree.inc : Tree α → α | .node i _ _ _ => i
def Tree.fn : Tree α → Bytes | .node _ f _ _ => f
def Tree.body : Tree α → α | .node _ _ b _ => b
def Tree.kids : Tree α → List (Tree α) | .node _ _ _ k => k

/-- "THRIFGO_REF:" (sic) -/
def refPrefix : Bytes := [84, 72, 82, 73, 70, 71, 79, 95, 82, 69, 70, 58]

abbrev Heap (α : Type) := Bytes → Option (Tree α)

def Heap.empty : Heap α := fun _ => none
def Heap.ins (k : Bytes) (v : Tree α) (h : Heap α) : Heap α := fun x => if x = k then some v else h x

structure CState (α : Type) where
  vis : List Bytes
  heap : Heap α

mutual
/-- `compressThriftInclude(incl.Reference, m)` seen from the caller: the compressed include list of `p` -/
def compressNode (dflt : α) : Tree α → CState α → List (Tree α) × CState α
  | .node _ _ _ ks, s => compressKids dflt ks s
/-- the loop of compressThriftInclude over `p.Includes` (recursion into first occurrences);
`dflt` = the members of `&parser.Thrift{Filename: …}` other than the file name -/
def compressKids (dflt : α) : List (Tree α) → CState α → List (Tree α) × CState α
  | [], s => ([], s)
  | k :: r, s =>
    if s.vis.contains k.fn then
      -- visited, only keep the filename for mapping (the Include itself stays)
      let (r', s') := compressKids dflt r s
      (.node k.inc (refPrefix ++ k.fn) dflt [] :: r', s')
    else
      -- mark it's visited, recurse
      let (ks', s1) := compressNode dflt k { s with vis := k.fn :: s.vis }
      let s2 : CState α := { vis := s1.vis, heap := s1.heap.ins k.fn (.node k.inc k.fn k.body ks') }
      let (r', s3) := compressKids dflt r s2
      (.node k.inc k.fn k.body ks' :: r', s3)
end

/-- `compressThriftInclude(p, nil)`: the compressed AST and the pointees of the memo map -/
def compress (dflt : α) (t : Tree α) : Tree α × Heap α :=
  let (ks', s) := compressKids dflt t.kids { vis := [], heap := Heap.empty }
  (.node t.inc t.fn t.body ks', s.heap)

mutual
def collectNode : Tree α → Heap α → Heap α
  | .node _ _ _ ks, m => collectKids ks m
/-- collectThriftInclude -/
def collectKids : List (Tree α) → Heap α → Heap α
  | [], m => m
  | k :: r, m =>
    if hasPrefix k.fn refPrefix then collectKids r m
    else collectKids r (collectNode k (m.ins k.fn k))
end

inductive DRes (β : Type) where
  | ok (a : β)
  | panic          -- panic("not found ref: " + fn)
  | fuel           -- the model's recursion bound was hit (Go: unbounded recursion)
  deriving Repr, BEq

/-- one level of decompressThriftInclude's loop; `dk` decompresses the includes of a referenced file.
A reference is replaced by the referenced Thrift (`incl.Reference = m[fn]`), the Include stays. -/
def decListWith (dk : List (Tree α) → DRes (List (Tree α))) (m : Heap α) : List (Tree α) → DRes (List (Tree α))
  | [] => .ok []
  | .node inc fn body ks :: r =>
    match stripPrefix fn refPrefix with
    | some fn' =>
      match m fn' with
      | none => .panic
      | some (.node _ g gbody gks) =>
        match dk gks with
        | .ok gks' =>
          match decListWith dk m r with
          | .ok r' => .ok (.node inc g gbody gks' :: r')
          | e => e
        | .panic => .panic
        | .fuel => .fuel
    | none =>
      match dk ks with
      | .ok ks' =>
        match decListWith dk m r with
        | .ok r' => .ok (.node inc fn body ks' :: r')
        | e => e
      | .panic => .panic
      | .fuel => .fuel

/-- decompressThriftInclude's recursion with a non-nil map; fuel = nesting depth of the result -/
def decompressKids : Nat → Heap α → List (Tree α) → DRes (List (Tree α))
  | _, _, [] => .ok []
  | 0, _, _ :: _ => .fuel
  | f+1, m, l => decListWith (decompressKids f m) m l

/-- `decompressThriftInclude(p, m)`; `none` = nil map (the plugin side: collect first) -/
def decompress (fuel : Nat) (m : Option (Heap α)) (t : Tree α) : DRes (Tree α) :=
  let h := match m with
    | some h => h
    | none => collectKids t.kids Heap.empty
  match decompressKids fuel h t.kids with
  | .ok ks => .ok (.node t.inc t.fn t.body ks)
  | .panic => .panic
  | .fuel => .fuel

mutual
def Tree.size : Tree α → Nat
  | .node _ _ _ ks => sizeK ks + 1
def sizeK : List (Tree α) → Nat
  | [] => 0
  | k :: r => k.size + sizeK r
end

mutual
def Tree.depth : Tree α → Nat
  | .node _ _ _ ks => depthK ks
/-- the fuel `decompressKids` needs for a list of includes -/
def depthK : List (Tree α) → Nat
  | [] => 0
  | k :: r => max (k.depth + 1) (depthK r)
end

mutual
/-- all include nodes below (not including) the root, in DFS pre-order -/
def Tree.descs : Tree α → List (Tree α)
  | .node _ _ _ ks => nodesK ks
def nodesK : List (Tree α) → List (Tree α)
  | [] => []
  | k :: r => k :: (k.descs ++ nodesK r)
end

/-- equal filenames ⇒ the same file: equal contents and equal includes (the `Include`s that lead to
it may differ: different path literals, different `Used`) -/
def Consistent (t : Tree α) : Prop :=
  ∀ a b, a ∈ t.descs → b ∈ t.descs → a.fn = b.fn → a.body = b.body ∧ a.kids = b.kids

/-- no included file's name starts with the reference marker -/
def NoRef (t : Tree α) : Prop := ∀ a, a ∈ t.descs → stripPrefix a.fn refPrefix = none

/-! ## data trailer (plugin.go:217-237) -/

/-- "\xffTHRIFTGO_TRAILER_V1\xff" -/
def trailerMagic : Bytes :=
  [255, 84, 72, 82, 73, 70, 84, 71, 79, 95, 84, 82, 65, 73, 76, 69, 82, 95, 86, 49, 255]

def featureCompressInclude : Nat := 1

def appendDataTrailer (data : Bytes) (feature : Nat) : Bytes := (data ++ [feature]) ++ trailerMagic

def hasDataTrailerFeature (data : Bytes) (feature : Nat) : Bool :=
  if data.length < trailerMagic.length + 1 || !hasSuffix data trailerMagic then false
  else (data.getD (data.length - 1 - trailerMagic.length) 0 &&& feature) == feature

/-! ## version gate (plugin.go:239-261) -/

def supportDataTrailer (v0 : Bytes) : Bool :=
  let v := (cut 45 v0).1                        -- v, _, _ = strings.Cut(v, "-")
  if v.length < 6 || v.head? != some 118 then false else   -- len(v) < 6 || v[0] != 'v'
  match splitOn 46 (v.drop 1) with              -- strings.Split(v[1:], ".")
  | [a, b, c] =>
    let major := atoi a
    if major > 0 then true else
    let minor := atoi b
    if minor != 4 then decide (minor > 4) else
    let patch := atoi c
    decide (patch ≥ 2)
  | _ => false

/-- the integer literals of `supportDataTrailer` above, in source order:
`len(v) < 6`, `major > 0`, `minor != 4`, `minor > 4`, `patch >= 2` (compared with the regenerated ones) -/
def gateConsts : List Nat := [6, 0, 4, 4, 2]

/-! ## what `external.Execute` sends and `UnmarshalRequest` makes of it (plugin.go:144-158, marshal.go)

`gate` = `supportDataTrailer(readPluginThriftGoVersion(path)) && enableCompressThriftInclude`:
includes are compressed **iff** the trailer is appended — one condition guards both. -/

/-- the AST on the wire and whether the trailer follows it -/
def sendAst {α : Type} (dflt : α) (gate : Bool) (t : Tree α) : Tree α × Bool :=
  if gate then ((compress dflt t).1, true) else (t, false)

/-- the plugin side: decompress iff the trailer is there -/
def receiveAst {α : Type} (fuel : Nat) (p : Tree α × Bool) : DRes (Tree α) :=
  if p.2 then decompress fuel none p.1 else .ok p.1

/-! ## option strings (plugin.go:43-92) -/

structure Opt where
  name : Bytes
  desc : Bytes
  deriving Repr, BEq, DecidableEq

/-- Pack: `o.Name + "=" + o.Desc` -/
def pack (opts : List Opt) : List Bytes := opts.map fun o => o.name ++ [61] ++ o.desc

def parseOpt (a : Bytes) : Opt :=
  match splitN2 61 a with
  | (k, some v) => { name := k, desc := v }
  | (k, none) => { name := k, desc := [] }

/-- ParseCompactArguments: `none` = the error for the empty string -/
def parseCompact (str : Bytes) : Option (Bytes × List Opt) :=
  if str.isEmpty then none else
  match splitN2 58 str with
  | (name, none) => some (name, [])
  | (name, some rest) => some (name, (splitOn 44 rest).map parseOpt)

/-! ## executing one plugin (plugin.go:144-194, generator.go:160-177, 181-184) -/

inductive RunResult where
  | exited (code : Nat)     -- the process ran to completion with this exit status
  | killed                  -- the context's deadline fired: the process was killed
  | notStarted              -- exec failed
  deriving Repr, DecidableEq

structure Generated where
  content : Bytes
  name : Option Bytes
  point : Option Bytes
  deriving Repr, DecidableEq

structure Response where
  error : Option Bytes
  contents : List Generated
  warnings : List Bytes
  deriving Repr, DecidableEq

/-- what `external.Execute` returns: `decoded` is `UnmarshalResponse(stdout)`, `none` = undecodable;
`errText` stands for the (never empty) text of the two wrapped errors -/
def execute (run : RunResult) (decoded : Option Response) (stdout stderr errText stderrNote : Bytes) : Response :=
  if run ≠ .exited 0 then
    { error := some errText, contents := [], warnings := [stdout, stderr] }
  else match decoded with
    | none => { error := some errText, contents := [], warnings := [] }
    | some res => if stderr.isEmpty then res else { res with warnings := res.warnings ++ [stderrNote ++ stderr] }

inductive Outcome where
  | fail (shown : List Bytes)                              -- non-zero exit; warnings already logged
  | ok (fed : List Generated) (shown : List Bytes)         -- contents handed to the file manager
  deriving Repr, DecidableEq

/-- one iteration of the plugin loop of `Generate` followed by `Persist`'s error check:
warnings are logged first, then a non-empty error (or a Feed error) makes thriftgo fail -/
def step (feedOk : List Generated → Bool) (res : Response) : Outcome :=
  if res.error.getD [] ≠ [] then .fail res.warnings
  else if feedOk res.contents then .ok res.contents res.warnings
  else .fail res.warnings

def executeOutcome (feedOk : List Generated → Bool) (run : RunResult) (decoded : Option Response)
    (stdout stderr errText stderrNote : Bytes) : Outcome :=
  step feedOk (execute run decoded stdout stderr errText stderrNote)

/-! ## which plugins a `Generate` call runs (generator.go: preparePlugins + the plugin loop)

`sdk.InvokeThriftgo` calls `Generate` once per `-g` on one package-level `Generator`; `g.plugins`
survives between the calls. -/

/-- `preparePlugins`: `g.plugins` after the call, from its value before and this call's descriptions.
`reset` = the list is emptied first (`g.plugins = g.plugins[:0]`; before that repair it was not). -/
def preparePlugins {δ : Type} (reset : Bool) (old descs : List δ) : List δ :=
  (if reset then [] else old) ++ descs

/-- `for i, p := range g.plugins { … out.UsedPlugins[i] … }`: which description's parameters plugin
`i` gets; `none` = index out of range (a Go panic) -/
def pluginLoop {δ : Type} : List δ → List δ → Nat → List (δ × Option δ)
  | [], _, _ => []
  | p :: ps, descs, i => (p, descs[i]?) :: pluginLoop ps descs (i + 1)

/-- `n` successive `Generate` calls with the same `-p` list, starting from `g.plugins = st` -/
def generateCalls {δ : Type} (reset : Bool) (descs : List δ) : Nat → List δ → List (List (δ × Option δ))
  | 0, _ => []
  | n + 1, st =>
    let pl := preparePlugins reset st descs
    pluginLoop pl descs 0 :: generateCalls reset descs n pl

/-- what each execution finds in `req.PluginParameters`: the request is ONE object shared by all plugin
executions and all languages; before each execution the loop assigns `Pack(UsedPlugins[i].Options)`.
`cur` = the field's value left behind by whoever ran before (previous plugin, SDK plugin, previous -g). -/
def paramsSeen (descs : List (List Opt)) (cur : List Bytes) : List (List Bytes) × List Bytes :=
  descs.foldl (fun (acc : List (List Bytes) × List Bytes) opts => (acc.1 ++ [pack opts], pack opts)) ([], cur)

/-- the same over `n` successive `Generate` calls (one per `-g`) on the shared request -/
def paramsSeenCalls (descs : List (List Opt)) : Nat → List Bytes → List (List (List Bytes))
  | 0, _ => []
  | n + 1, cur => (paramsSeen descs cur).1 :: paramsSeenCalls descs n (paramsSeen descs cur).2

end Plugin
