import ThriftVerif.Lib.PegMono
import ThriftVerif.Generated.C03Grammar
/-
  Token-level layout lemmas for the regenerated grammar: what `Skip` absorbs.
  All statements are about `Peg.Runs`, i.e. about the result `p.Parse()` computes (fuel-free, see `Runs.unique`).
-/
namespace PegTokens
open Peg Generated.C03

abbrev G := Generated.C03.grammar

/-- the characters of Indent and CarriageReturnLineFeed -/
def isWs (c : Nat) : Prop := c = 32 ∨ c = 9 ∨ c = 11 ∨ c = 13 ∨ c = 10

instance (c : Nat) : Decidable (isWs c) := by unfold isWs; infer_instance

/-- `Indent / CarriageReturnLineFeed`, the body of `Space`'s loop -/
abbrev wsAlt : Expr := .alt (.call R.Indent) (.call R.CarriageReturnLineFeed)

theorem rule_Indent : G.rules[R.Indent]? = some (.alt (.rng 32 32) (.alt (.rng 9 9) (.rng 11 11))) := by decide
theorem rule_CRLF : G.rules[R.CarriageReturnLineFeed]? = some (.alt (.rng 13 13) (.rng 10 10)) := by decide
theorem rule_Space : G.rules[R.Space]? = some (.plus wsAlt) := by decide
theorem rule_Skip : G.rules[R.Skip]? = some (.star (.alt (.call R.Space) (.call R.Comment))) := by decide
theorem rule_Comment : G.rules[R.Comment]? = some (.alt (.call R.LongComment) (.alt (.call R.LineComment) (.call R.UnixComment))) := by decide

theorem indent_ok {c pos : Nat} {r : List Nat} (h : c = 32 ∨ c = 9 ∨ c = 11) :
    ∃ t, Runs G (.call R.Indent) pos (c :: r) (.ok (pos + 1) r t) := by
  rcases h with rfl | rfl | rfl
  · exact ⟨_, Runs.call_ok rule_Indent (Runs.alt_l (Runs.rng_ok (by decide)))⟩
  · exact ⟨_, Runs.call_ok rule_Indent (Runs.alt_r (Runs.rng_fail (by decide)) (Runs.alt_l (Runs.rng_ok (by decide))))⟩
  · exact ⟨_, Runs.call_ok rule_Indent (Runs.alt_r (Runs.rng_fail (by decide)) (Runs.alt_r (Runs.rng_fail (by decide)) (Runs.rng_ok (by decide))))⟩

theorem indent_fail {c pos : Nat} {r : List Nat} (h : ¬ (c = 32 ∨ c = 9 ∨ c = 11)) :
    Runs G (.call R.Indent) pos (c :: r) .fail := by
  refine Runs.call_fail rule_Indent ?_
  exact Runs.alt_r (Runs.rng_fail (by omega)) (Runs.alt_r (Runs.rng_fail (by omega)) (Runs.rng_fail (by omega)))

theorem indent_nil {pos : Nat} : Runs G (.call R.Indent) pos [] .fail :=
  Runs.call_fail rule_Indent (Runs.alt_r Runs.rng_nil (Runs.alt_r Runs.rng_nil Runs.rng_nil))

theorem crlf_ok {c pos : Nat} {r : List Nat} (h : c = 13 ∨ c = 10) :
    ∃ t, Runs G (.call R.CarriageReturnLineFeed) pos (c :: r) (.ok (pos + 1) r t) := by
  rcases h with rfl | rfl
  · exact ⟨_, Runs.call_ok rule_CRLF (Runs.alt_l (Runs.rng_ok (by decide)))⟩
  · exact ⟨_, Runs.call_ok rule_CRLF (Runs.alt_r (Runs.rng_fail (by decide)) (Runs.rng_ok (by decide)))⟩

theorem crlf_fail {c pos : Nat} {r : List Nat} (h : ¬ (c = 13 ∨ c = 10)) :
    Runs G (.call R.CarriageReturnLineFeed) pos (c :: r) .fail :=
  Runs.call_fail rule_CRLF (Runs.alt_r (Runs.rng_fail (by omega)) (Runs.rng_fail (by omega)))

theorem crlf_nil {pos : Nat} : Runs G (.call R.CarriageReturnLineFeed) pos [] .fail :=
  Runs.call_fail rule_CRLF (Runs.alt_r Runs.rng_nil Runs.rng_nil)

theorem wsAlt_ok {c pos : Nat} {r : List Nat} (h : isWs c) : ∃ t, Runs G wsAlt pos (c :: r) (.ok (pos + 1) r t) := by
  by_cases hi : c = 32 ∨ c = 9 ∨ c = 11
  · obtain ⟨t, ht⟩ := indent_ok (pos := pos) (r := r) hi
    exact ⟨t, Runs.alt_l ht⟩
  · have hc : c = 13 ∨ c = 10 := by unfold isWs at h; omega
    obtain ⟨t, ht⟩ := crlf_ok (pos := pos) (r := r) hc
    exact ⟨t, Runs.alt_r (indent_fail hi) ht⟩

/-- empty, or a first character that is not a blank -/
def NoWsHead : List Nat → Prop
  | [] => True
  | c :: _ => ¬ isWs c

/-- empty, or a first character that starts no comment -/
def NoCmHead : List Nat → Prop
  | [] => True
  | c :: _ => c ≠ 47 ∧ c ≠ 35

/-- a string the whitespace / comment loops stop at: empty, or a first character that is neither blank nor `/` nor `#` -/
def StopsSkip : List Nat → Prop
  | [] => True
  | c :: _ => ¬ isWs c ∧ c ≠ 47 ∧ c ≠ 35

instance : (s : List Nat) → Decidable (StopsSkip s)
  | [] => isTrue trivial
  | c :: _ => inferInstanceAs (Decidable (¬ isWs c ∧ c ≠ 47 ∧ c ≠ 35))

theorem wsAlt_fail {pos : Nat} {s : List Nat} (h : NoWsHead s) : Runs G wsAlt pos s .fail := by
  cases s with
  | nil => exact Runs.alt_r indent_nil crlf_nil
  | cons c r =>
    have h' : ¬ isWs c := h
    unfold isWs at h'
    exact Runs.alt_r (indent_fail (by omega)) (crlf_fail (by omega))

/-- `(Indent / CRLF)*` eats a run of blanks -/
theorem wsStar {rest : List Nat} (hrest : NoWsHead rest) :
    ∀ (ws : List Nat) (pos : Nat), (∀ c ∈ ws, isWs c) →
      ∃ t, Runs G (.star wsAlt) pos (ws ++ rest) (.ok (pos + ws.length) rest t) := by
  intro ws
  induction ws with
  | nil => intro pos _; exact ⟨_, by simpa using Runs.star_nil (wsAlt_fail hrest)⟩
  | cons c r ih =>
    intro pos h
    obtain ⟨t1, h1⟩ := wsAlt_ok (pos := pos) (r := r ++ rest) (h c (by simp))
    obtain ⟨t2, h2⟩ := ih (pos + 1) (fun x hx => h x (by simp [hx]))
    have := Runs.star_cons h1 h2
    exact ⟨_, by simpa [Nat.add_assoc, Nat.add_comm 1] using this⟩

theorem rule_Long : G.rules[R.LongComment]? = some (.seq (.seq (.rng 47 47) (.rng 42 42))
    (.seq (.star (.seq (.notP (.seq (.rng 42 42) (.rng 47 47))) .any)) (.seq (.rng 42 42) (.rng 47 47)))) := by decide
theorem rule_Line : G.rules[R.LineComment]? = some (.seq (.seq (.rng 47 47) (.rng 47 47))
    (.star (.seq (.notP (.alt (.rng 13 13) (.rng 10 10))) .any))) := by decide
theorem rule_Unix : G.rules[R.UnixComment]? = some (.seq (.rng 35 35)
    (.star (.seq (.notP (.alt (.rng 13 13) (.rng 10 10))) .any))) := by decide

theorem rng_fail_of {lo hi pos : Nat} {s : List Nat} (h : match s with | [] => True | c :: _ => ¬ (lo ≤ c ∧ c ≤ hi)) :
    Runs G (.rng lo hi) pos s .fail := by
  cases s with
  | nil => exact Runs.rng_nil
  | cons c r => exact Runs.rng_fail h

/-- no comment starts at a character other than `/` and `#` -/
theorem comment_fail {pos : Nat} {s : List Nat} (h : NoCmHead s) :
    Runs G (.call R.Comment) pos s .fail := by
  have h47 : Runs G (.rng 47 47) pos s .fail := rng_fail_of (by cases s with | nil => trivial | cons c r => have := h.1; simp; omega)
  have h35 : Runs G (.rng 35 35) pos s .fail := rng_fail_of (by cases s with | nil => trivial | cons c r => have := h.2; simp; omega)
  refine Runs.call_fail rule_Comment (Runs.alt_r ?_ (Runs.alt_r ?_ ?_))
  · exact Runs.call_fail rule_Long (Runs.seq_fail1 (Runs.seq_fail1 h47))
  · exact Runs.call_fail rule_Line (Runs.seq_fail1 (Runs.seq_fail1 h47))
  · exact Runs.call_fail rule_Unix (Runs.seq_fail1 h35)

theorem space_fail {pos : Nat} {s : List Nat} (h : NoWsHead s) :
    Runs G (.call R.Space) pos s .fail :=
  Runs.call_fail rule_Space (Runs.plus_fail (wsAlt_fail h))

theorem stops_ws {s : List Nat} (h : StopsSkip s) : NoWsHead s := by
  cases s with
  | nil => trivial
  | cons c r => exact h.1

theorem stops_cm {s : List Nat} (h : StopsSkip s) : NoCmHead s := by
  cases s with
  | nil => trivial
  | cons c r => exact h.2

/-- `Space` eats a non-empty run of blanks -/
theorem space_ok {rest : List Nat} (hrest : NoWsHead rest)
    (c : Nat) (ws : List Nat) (pos : Nat) (hc : isWs c) (hws : ∀ x ∈ ws, isWs x) :
    ∃ t, Runs G (.call R.Space) pos (c :: ws ++ rest) (.ok (pos + (ws.length + 1)) rest t) := by
  obtain ⟨t1, h1⟩ := wsAlt_ok (pos := pos) (r := ws ++ rest) hc
  obtain ⟨t2, h2⟩ := wsStar hrest ws (pos + 1) hws
  have := Runs.call_ok rule_Space (Runs.plus_ok h1 h2)
  exact ⟨_, by simpa [Nat.add_assoc, Nat.add_comm 1] using this⟩

/-- **Skip absorbs any run of blanks** (spaces, tabs, vertical tabs, CR, LF in any mix) and stops at the first
character that cannot continue it. -/
theorem skip_absorbs_ws (ws rest : List Nat) (pos : Nat) (hws : ∀ c ∈ ws, isWs c) (hrest : StopsSkip rest) :
    ∃ t, Runs G (.call R.Skip) pos (ws ++ rest) (.ok (pos + ws.length) rest t) := by
  have hstop : Runs G (.star (.alt (.call R.Space) (.call R.Comment))) (pos + ws.length) rest (.ok (pos + ws.length) rest .nil) :=
    Runs.star_nil (Runs.alt_r (space_fail (stops_ws hrest)) (comment_fail (stops_cm hrest)))
  cases ws with
  | nil => exact ⟨_, by simpa using Runs.call_ok rule_Skip (by simpa using hstop)⟩
  | cons c r =>
    obtain ⟨t1, h1⟩ := space_ok (stops_ws hrest) c r pos (hws c (by simp)) (fun x hx => hws x (by simp [hx]))
    have := Runs.call_ok rule_Skip (Runs.star_cons (Runs.alt_l h1) (by simpa using hstop))
    exact ⟨_, by simpa using this⟩

end PegTokens
