import ThriftVerif.Lib.PegMono
import ThriftVerif.Generated.C03Grammar
/-
  Token-level layout lemmas for the regenerated grammar: what `Skip` absorbs.
  All statements are about `Peg.Runs`, i.e. about the result `p.Parse()` computes (fuel-free, see `Runs.unique`).
-/
namespace PegTokens
open Peg Generated.C03

abbrev G := Generated.C03.grammar

/-- the characters of Indent and CarriageReturnLineFeed -/
def isWs (c : Nat) : Prop := c = 32 ∨ c = 9 ∨ c = 11 ∨ c = 13 ∨ c = 10

instance (c : Nat) : Decidable (isWs c) := by unfold isWs; infer_instance

/-- `Indent / CarriageReturnLineFeed`, the body of `Space`'s loop -/
abbrev wsAlt : Expr := .alt (.call R.Indent) (.call R.CarriageReturnLineFeed)

theorem rule_Indent : G.rules[R.Indent]? = some (.alt (.rng 32 32) (.alt (.rng 9 9) (.rng 11 11))) := by decide
theorem rule_CRLF : G.rules[R.CarriageReturnLineFeed]? = some (.alt (.rng 13 13) (.rng 10 10)) := by decide
theorem rule_Space : G.rules[R.Space]? = some (.plus wsAlt) := by decide
theorem rule_Skip : G.rules[R.Skip]? = some (.star (.alt (.call R.Space) (.call R.Comment))) := by decide
theorem rule_Comment : G.rules[R.Comment]? = some (.alt (.call R.LongComment) (.alt (.call R.LineComment) (.call R.UnixComment))) := by decide

theorem indent_ok {c pos : Nat} {r : List Nat} (h : c = 32 ∨ c = 9 ∨ c = 11) :
    ∃ t, Runs G (.call R.Indent) pos (c :: r) (.ok (pos + 1) r t) := by
  rcases h with rfl | rfl | rfl
  · exact ⟨_, Runs.call_ok rule_Indent (Runs.alt_l (Runs.rng_ok (by decide)))⟩
  · exact ⟨_, Runs.call_ok rule_Indent (Runs.alt_r (Runs.rng_fail (by decide)) (Runs.alt_l (Runs.rng_ok (by decide))))⟩
  · exact ⟨_, Runs.call_ok rule_Indent (Runs.alt_r (Runs.rng_fail (by decide)) (Runs.alt_r (Runs.rng_fail (by decide)) (Runs.rng_ok (by decide))))⟩

theorem indent_fail {c pos : Nat} {r : List Nat} (h : ¬ (c = 32 ∨ c = 9 ∨ c = 11)) :
    Runs G (.call R.Indent) pos (c :: r) .fail := by
  refine Runs.call_fail rule_Indent ?_
  exact Runs.alt_r (Runs.rng_fail (by omega)) (Runs.alt_r (Runs.rng_fail (by omega)) (Runs.rng_fail (by omega)))

theorem indent_nil {pos : Nat} : Runs G (.call R.Indent) pos [] .fail :=
  Runs.call_fail rule_Indent (Runs.alt_r Runs.rng_nil (Runs.alt_r Runs.rng_nil Runs.rng_nil))

theorem crlf_ok {c pos : Nat} {r : List Nat} (h : c = 13 ∨ c = 10) :
    ∃ t, Runs G (.call R.CarriageReturnLineFeed) pos (c :: r) (.ok (pos + 1) r t) := by
  rcases h with rfl | rfl
  · exact ⟨_, Runs.call_ok rule_CRLF (Runs.alt_l (Runs.rng_ok (by decide)))⟩
  · exact ⟨_, Runs.call_ok rule_CRLF (Runs.alt_r (Runs.rng_fail (by decide)) (Runs.rng_ok (by decide)))⟩

theorem crlf_fail {c pos : Nat} {r : List Nat} (h : ¬ (c = 13 ∨ c = 10)) :
    Runs G (.call R.CarriageReturnLineFeed) pos (c :: r) .fail :=
  Runs.call_fail rule_CRLF (Runs.alt_r (Runs.rng_fail (by omega)) (Runs.rng_fail (by omega)))

theorem crlf_nil {pos : Nat} : Runs G (.call R.CarriageReturnLineFeed) pos [] .fail :=
  Runs.call_fail rule_CRLF (Runs.alt_r Runs.rng_nil Runs.rng_nil)

theorem wsAlt_ok {c pos : Nat} {r : List Nat} (h : isWs c) : ∃ t, Runs G wsAlt pos (c :: r) (.ok (pos + 1) r t) := by
  by_cases hi : c = 32 ∨ c = 9 ∨ c = 11
  · obtain ⟨t, ht⟩ := indent_ok (pos := pos) (r := r) hi
    exact ⟨t, Runs.alt_l ht⟩
  · have hc : c = 13 ∨ c = 10 := by unfold isWs at h; omega
    obtain ⟨t, ht⟩ := crlf_ok (pos := pos) (r := r) hc
    exact ⟨t, Runs.alt_r (indent_fail hi) ht⟩

/-- empty, or a first character that is not a blank -/
def NoWsHead : List Nat → Prop
  | [] => True
  | c :: _ => ¬ isWs c

/-- empty, or a first character that starts no comment -/
def NoCmHead : List Nat → Prop
  | [] => True
  | c :: _ => c ≠ 47 ∧ c ≠ 35

/-- a string the whitespace / comment loops stop at: empty, or a first character that is neither blank nor `/` nor `#` -/
def StopsSkip : List Nat → Prop
  | [] => True
  | c :: _ => ¬ isWs c ∧ c ≠ 47 ∧ c ≠ 35

instance : (s : List Nat) → Decidable (StopsSkip s)
  | [] => isTrue trivial
  | c :: _ => inferInstanceAs (Decidable (¬ isWs c ∧ c ≠ 47 ∧ c ≠ 35))

theorem wsAlt_fail {pos : Nat} {s : List Nat} (h : NoWsHead s) : Runs G wsAlt pos s .fail := by
  cases s with
  | nil => exact Runs.alt_r indent_nil crlf_nil
  | cons c r =>
    have h' : ¬ isWs c := h
    unfold isWs at h'
    exact Runs.alt_r (indent_fail (by omega)) (crlf_fail (by omega))

/-- `(Indent / CRLF)*` eats a run of blanks -/
theorem wsStar {rest : List Nat} (hrest : NoWsHead rest) :
    ∀ (ws : List Nat) (pos : Nat), (∀ c ∈ ws, isWs c) →
      ∃ t, Runs G (.star wsAlt) pos (ws ++ rest) (.ok (pos + ws.length) rest t) := by
  intro ws
  induction ws with
  | nil => intro pos _; exact ⟨_, by simpa using Runs.star_nil (wsAlt_fail hrest)⟩
  | cons c r ih =>
    intro pos h
    obtain ⟨t1, h1⟩ := wsAlt_ok (pos := pos) (r := r ++ rest) (h c (by simp))
    obtain ⟨t2, h2⟩ := ih (pos + 1) (fun x hx => h x (by simp [hx]))
    have := Runs.star_cons h1 h2
    exact ⟨_, by simpa [Nat.add_assoc, Nat.add_comm 1] using this⟩

theorem rule_Long : G.rules[R.LongComment]? = some (.seq (.seq (.rng 47 47) (.rng 42 42))
    (.seq (.star (.seq (.notP (.seq (.rng 42 42) (.rng 47 47))) .any)) (.seq (.rng 42 42) (.rng 47 47)))) := by decide
theorem rule_Line : G.rules[R.LineComment]? = some (.seq (.seq (.rng 47 47) (.rng 47 47))
    (.star (.seq (.notP (.alt (.rng 13 13) (.rng 10 10))) .any))) := by decide
theorem rule_Unix : G.rules[R.UnixComment]? = some (.seq (.rng 35 35)
    (.star (.seq (.notP (.alt (.rng 13 13) (.rng 10 10))) .any))) := by decide

theorem rng_fail_of {lo hi pos : Nat} {s : List Nat} (h : match s with | [] => True | c :: _ => ¬ (lo ≤ c ∧ c ≤ hi)) :
    Runs G (.rng lo hi) pos s .fail := by
  cases s with
  | nil => exact Runs.rng_nil
  | cons c r => exact Runs.rng_fail h

/-- no comment starts at a character other than `/` and `#` -/
theorem comment_fail {pos : Nat} {s : List Nat} (h : NoCmHead s) :
    Runs G (.call R.Comment) pos s .fail := by
  have h47 : Runs G (.rng 47 47) pos s .fail := rng_fail_of (by cases s with | nil => trivial | cons c r => have := h.1; simp; omega)
  have h35 : Runs G (.rng 35 35) pos s .fail := rng_fail_of (by cases s with | nil => trivial | cons c r => have := h.2; simp; omega)
  refine Runs.call_fail rule_Comment (Runs.alt_r ?_ (Runs.alt_r ?_ ?_))
  · exact Runs.call_fail rule_Long (Runs.seq_fail1 (Runs.seq_fail1 h47))
  · exact Runs.call_fail rule_Line (Runs.seq_fail1 (Runs.seq_fail1 h47))
  · exact Runs.call_fail rule_Unix (Runs.seq_fail1 h35)

theorem space_fail {pos : Nat} {s : List Nat} (h : NoWsHead s) :
    Runs G (.call R.Space) pos s .fail :=
  Runs.call_fail rule_Space (Runs.plus_fail (wsAlt_fail h))

theorem stops_ws {s : List Nat} (h : StopsSkip s) : NoWsHead s := by
  cases s with
  | nil => trivial
  | cons c r => exact h.1

theorem stops_cm {s : List Nat} (h : StopsSkip s) : NoCmHead s := by
  cases s with
  | nil => trivial
  | cons c r => exact h.2

/-- `Space` eats a non-empty run of blanks -/
theorem space_ok {rest : List Nat} (hrest : NoWsHead rest)
    (c : Nat) (ws : List Nat) (pos : Nat) (hc : isWs c) (hws : ∀ x ∈ ws, isWs x) :
    ∃ t, Runs G (.call R.Space) pos (c :: ws ++ rest) (.ok (pos + (ws.length + 1)) rest t) := by
  obtain ⟨t1, h1⟩ := wsAlt_ok (pos := pos) (r := ws ++ rest) hc
  obtain ⟨t2, h2⟩ := wsStar hrest ws (pos + 1) hws
  have := Runs.call_ok rule_Space (Runs.plus_ok h1 h2)
  exact ⟨_, by simpa [Nat.add_assoc, Nat.add_comm 1] using this⟩

/-- **Skip absorbs any run of blanks** (spaces, tabs, vertical tabs, CR, LF in any mix) and stops at the first
character that cannot continue it. -/
theorem skip_absorbs_ws (ws rest : List Nat) (pos : Nat) (hws : ∀ c ∈ ws, isWs c) (hrest : StopsSkip rest) :
    ∃ t, Runs G (.call R.Skip) pos (ws ++ rest) (.ok (pos + ws.length) rest t) := by
  have hstop : Runs G (.star (.alt (.call R.Space) (.call R.Comment))) (pos + ws.length) rest (.ok (pos + ws.length) rest .nil) :=
    Runs.star_nil (Runs.alt_r (space_fail (stops_ws hrest)) (comment_fail (stops_cm hrest)))
  cases ws with
  | nil => exact ⟨_, by simpa using Runs.call_ok rule_Skip (by simpa using hstop)⟩
  | cons c r =>
    obtain ⟨t1, h1⟩ := space_ok (stops_ws hrest) c r pos (hws c (by simp)) (fun x hx => hws x (by simp [hx]))
    have := Runs.call_ok rule_Skip (Runs.star_cons (Runs.alt_l h1) (by simpa using hstop))
    exact ⟨_, by simpa using this⟩

/-! ### comments -/

/-- the body of a `/* … */` comment: no `*/` inside (and none formed with the closing `*`) -/
def NoClose : List Nat → Prop
  | [] => True
  | [_] => True
  | c :: d :: r => ¬ (c = 42 ∧ d = 47) ∧ NoClose (d :: r)

instance decNoClose : (l : List Nat) → Decidable (NoClose l)
  | [] => isTrue trivial
  | [_] => isTrue trivial
  | c :: d :: r =>
    have := decNoClose (d :: r)
    inferInstanceAs (Decidable (¬ (c = 42 ∧ d = 47) ∧ NoClose (d :: r)))

abbrev longStep : Expr := .seq (.notP (.seq (.rng 42 42) (.rng 47 47))) .any

theorem longStar (rest : List Nat) : ∀ (body : List Nat) (pos : Nat), NoClose body →
    Runs G (.star longStep) pos (body ++ 42 :: 47 :: rest) (.ok (pos + body.length) (42 :: 47 :: rest) .nil) := by
  intro body
  induction body with
  | nil =>
    intro pos _
    have hclose : Runs G (.seq (.rng 42 42) (.rng 47 47)) pos (42 :: 47 :: rest) (.ok (pos + 1 + 1) rest (T.append .nil .nil)) :=
      Runs.seq_ok (Runs.rng_ok (by decide)) (Runs.rng_ok (by decide))
    simpa using Runs.star_nil (Runs.seq_fail1 (b := .any) (Runs.not_fail hclose))
  | cons c r ih =>
    intro pos h
    have hr : NoClose r := by
      cases r with
      | nil => trivial
      | cons d r' => exact h.2
    -- the closing pair does not start at `c`
    have hnot : Runs G (.seq (.rng 42 42) (.rng 47 47)) pos (c :: (r ++ 42 :: 47 :: rest)) .fail := by
      by_cases hc : c = 42
      · subst hc
        cases r with
        | nil => exact Runs.seq_fail2 (Runs.rng_ok (by decide)) (Runs.rng_fail (by decide))
        | cons d r' =>
          have hd : d ≠ 47 := fun e => h.1 ⟨rfl, e⟩
          exact Runs.seq_fail2 (Runs.rng_ok (by decide)) (Runs.rng_fail (by omega))
      · exact Runs.seq_fail1 (Runs.rng_fail (by omega))
    have hstep : Runs G longStep pos (c :: (r ++ 42 :: 47 :: rest)) (.ok (pos + 1) (r ++ 42 :: 47 :: rest) (T.append .nil .nil)) :=
      Runs.seq_ok (Runs.not_ok hnot) Runs.any_ok
    have := Runs.star_cons hstep (ih (pos + 1) hr)
    simpa [T.append, Nat.add_assoc, Nat.add_comm 1] using this

/-- a `/* … */` comment is consumed whole -/
theorem long_ok (body rest : List Nat) (pos : Nat) (h : NoClose body) :
    ∃ t, Runs G (.call R.LongComment) pos (47 :: 42 :: body ++ 42 :: 47 :: rest) (.ok (pos + (body.length + 4)) rest t) := by
  have h1 : Runs G (.seq (.rng 47 47) (.rng 42 42)) pos (47 :: 42 :: (body ++ 42 :: 47 :: rest)) (.ok (pos + 1 + 1) (body ++ 42 :: 47 :: rest) (T.append .nil .nil)) :=
    Runs.seq_ok (Runs.rng_ok (by decide)) (Runs.rng_ok (by decide))
  have h2 := longStar rest body (pos + 1 + 1) h
  have h3 : Runs G (.seq (.rng 42 42) (.rng 47 47)) (pos + 1 + 1 + body.length) (42 :: 47 :: rest) (.ok (pos + 1 + 1 + body.length + 1 + 1) rest (T.append .nil .nil)) :=
    Runs.seq_ok (Runs.rng_ok (by decide)) (Runs.rng_ok (by decide))
  have := Runs.call_ok rule_Long (Runs.seq_ok h1 (Runs.seq_ok h2 h3))
  have e : pos + 1 + 1 + body.length + 1 + 1 = pos + (body.length + 4) := by omega
  rw [e] at this
  exact ⟨_, by simpa using this⟩

/-- the body of a `//` or `#` comment: no CR, no LF -/
def NoNL (body : List Nat) : Prop := ∀ c ∈ body, c ≠ 13 ∧ c ≠ 10

/-- empty, or starting with CR or LF -/
def NlHead : List Nat → Prop
  | [] => True
  | c :: _ => c = 13 ∨ c = 10

instance (l : List Nat) : Decidable (NoNL l) := by unfold NoNL; infer_instance

instance : (l : List Nat) → Decidable (NlHead l)
  | [] => isTrue trivial
  | c :: _ => inferInstanceAs (Decidable (c = 13 ∨ c = 10))

abbrev lineStep : Expr := .seq (.notP (.alt (.rng 13 13) (.rng 10 10))) .any

theorem lineStar (rest : List Nat) (hrest : NlHead rest) : ∀ (body : List Nat) (pos : Nat), NoNL body →
    Runs G (.star lineStep) pos (body ++ rest) (.ok (pos + body.length) rest .nil) := by
  intro body
  induction body with
  | nil =>
    intro pos _
    cases rest with
    | nil =>
      have : Runs G lineStep pos [] .fail := Runs.seq_fail2 (Runs.not_ok (Runs.alt_r Runs.rng_nil Runs.rng_nil)) Runs.any_nil
      simpa using Runs.star_nil this
    | cons c r =>
      have hc : c = 13 ∨ c = 10 := hrest
      have hnl : ∃ t, Runs G (.alt (.rng 13 13) (.rng 10 10)) pos (c :: r) (.ok (pos + 1) r t) := by
        rcases hc with rfl | rfl
        · exact ⟨_, Runs.alt_l (Runs.rng_ok (by decide))⟩
        · exact ⟨_, Runs.alt_r (Runs.rng_fail (by decide)) (Runs.rng_ok (by decide))⟩
      obtain ⟨t, ht⟩ := hnl
      simpa using Runs.star_nil (Runs.seq_fail1 (b := .any) (Runs.not_fail ht))
  | cons c r ih =>
    intro pos h
    have hc := h c (by simp)
    have hnot : Runs G (.alt (.rng 13 13) (.rng 10 10)) pos (c :: (r ++ rest)) .fail :=
      Runs.alt_r (Runs.rng_fail (by omega)) (Runs.rng_fail (by omega))
    have hstep : Runs G lineStep pos (c :: (r ++ rest)) (.ok (pos + 1) (r ++ rest) (T.append .nil .nil)) :=
      Runs.seq_ok (Runs.not_ok hnot) Runs.any_ok
    have := Runs.star_cons hstep (ih (pos + 1) (fun x hx => h x (by simp [hx])))
    simpa [T.append, Nat.add_assoc, Nat.add_comm 1] using this

/-- a `// …` comment is consumed up to (not including) the line end -/
theorem line_ok (body rest : List Nat) (pos : Nat) (h : NoNL body) (hrest : NlHead rest) :
    ∃ t, Runs G (.call R.LineComment) pos (47 :: 47 :: body ++ rest) (.ok (pos + (body.length + 2)) rest t) := by
  have h1 : Runs G (.seq (.rng 47 47) (.rng 47 47)) pos (47 :: 47 :: (body ++ rest)) (.ok (pos + 1 + 1) (body ++ rest) (T.append .nil .nil)) :=
    Runs.seq_ok (Runs.rng_ok (by decide)) (Runs.rng_ok (by decide))
  have h2 := lineStar rest hrest body (pos + 1 + 1) h
  have := Runs.call_ok rule_Line (Runs.seq_ok h1 h2)
  have e : pos + 1 + 1 + body.length = pos + (body.length + 2) := by omega
  rw [e] at this
  exact ⟨_, by simpa using this⟩

/-- a `# …` comment is consumed up to (not including) the line end -/
theorem unix_ok (body rest : List Nat) (pos : Nat) (h : NoNL body) (hrest : NlHead rest) :
    ∃ t, Runs G (.call R.UnixComment) pos (35 :: body ++ rest) (.ok (pos + (body.length + 1)) rest t) := by
  have h1 : Runs G (.rng 35 35) pos (35 :: (body ++ rest)) (.ok (pos + 1) (body ++ rest) .nil) := Runs.rng_ok (by decide)
  have h2 := lineStar rest hrest body (pos + 1) h
  have := Runs.call_ok rule_Unix (Runs.seq_ok h1 h2)
  have e : pos + 1 + body.length = pos + (body.length + 1) := by omega
  rw [e] at this
  exact ⟨_, by simpa using this⟩

/-! ### Skip absorbs every whitespace / comment string -/

/-- the strings of the `Skip` language, written piece by piece: blanks, `/*…*/`, `//…` and `#…` up to a line end -/
inductive SkipStr : List Nat → Prop
  | nil : SkipStr []
  | ws {c w} : isWs c → SkipStr w → SkipStr (c :: w)
  | long {body w} : NoClose body → SkipStr w → SkipStr (47 :: 42 :: body ++ 42 :: 47 :: w)
  | line {body w} : NoNL body → NlHead w → w ≠ [] → SkipStr w → SkipStr (47 :: 47 :: body ++ w)
  | unix {body w} : NoNL body → NlHead w → w ≠ [] → SkipStr w → SkipStr (35 :: body ++ w)

/-- split off the leading blanks -/
def blanks : List Nat → List Nat × List Nat
  | [] => ([], [])
  | c :: r => if isWs c then ((blanks r).1 ++ [c] |>.reverse.reverse, (blanks r).2) |> fun p => (c :: (blanks r).1, p.2) else ([], c :: r)

theorem blanks_eq : ∀ w : List Nat, (blanks w).1 ++ (blanks w).2 = w
  | [] => rfl
  | c :: r => by
    simp only [blanks]
    split
    · simp [blanks_eq r]
    · simp

theorem blanks_ws : ∀ w : List Nat, ∀ c ∈ (blanks w).1, isWs c
  | [] => by simp [blanks]
  | c :: r => by
    simp only [blanks]
    split
    · rename_i h
      intro x hx
      simp at hx
      rcases hx with rfl | hx
      · exact h
      · exact blanks_ws r x hx
    · simp

theorem blanks_head : ∀ w : List Nat, NoWsHead (blanks w).2
  | [] => by simp [blanks, NoWsHead]
  | c :: r => by
    simp only [blanks]
    split
    · exact blanks_head r
    · rename_i h; exact h

theorem blanks_len (w : List Nat) : (blanks w).1.length + (blanks w).2.length = w.length := by
  have := congrArg List.length (blanks_eq w)
  simpa using this

theorem SkipStr.after_blanks {w : List Nat} (h : SkipStr w) : SkipStr (blanks w).2 := by
  induction h with
  | nil => simpa [blanks] using SkipStr.nil
  | ws hc _ ih => simpa [blanks, hc] using ih
  | long hb hw _ => simpa [blanks, isWs] using SkipStr.long hb hw
  | line hb hn hne hw _ => simpa [blanks, isWs] using SkipStr.line hb hn hne hw
  | unix hb hn hne hw _ => simpa [blanks, isWs] using SkipStr.unix hb hn hne hw

abbrev skipAlt : Expr := .alt (.call R.Space) (.call R.Comment)

theorem noWsHead_append {a b : List Nat} (ha : NoWsHead a) (hb : NoWsHead b) : NoWsHead (a ++ b) := by
  cases a with
  | nil => simpa using hb
  | cons c r => exact ha

theorem nlHead_append {a b : List Nat} (ha : NlHead a) (hne : a ≠ []) : NlHead (a ++ b) := by
  cases a with
  | nil => exact absurd rfl hne
  | cons c r => exact ha

/-- the loop of `Skip` on a Skip-string followed by something that stops it -/
theorem skipStar (rest : List Nat) (hrest : StopsSkip rest) : ∀ (n : Nat) (w : List Nat), w.length ≤ n → SkipStr w → NoWsHead w →
    ∀ pos, ∃ t, Runs G (.star skipAlt) pos (w ++ rest) (.ok (pos + w.length) rest t) := by
  intro n
  induction n with
  | zero =>
    intro w hlen _ _ pos
    have : w = [] := by cases w with | nil => rfl | cons c r => simp at hlen
    subst this
    exact ⟨_, by simpa using Runs.star_nil (Runs.alt_r (space_fail (stops_ws hrest)) (comment_fail (stops_cm hrest)))⟩
  | succ n ih =>
    intro w hlen hw hhead pos
    -- after one comment: blanks (eaten by Space in one go), then the rest of the string
    have cont : ∀ (w' : List Nat) (p : Nat), w'.length ≤ n → SkipStr w' →
        ∃ t, Runs G (.star skipAlt) p (w' ++ rest) (.ok (p + w'.length) rest t) := by
      intro w' p hl hs
      have hsplit := blanks_eq w'
      have hl2 := blanks_len w'
      obtain ⟨t2, h2⟩ := ih (blanks w').2 (by omega) hs.after_blanks (blanks_head w') (p + (blanks w').1.length)
      cases hb : (blanks w').1 with
      | nil =>
        rw [hb] at hsplit hl2
        simp at hsplit hl2
        rw [← hsplit]
        rw [hb] at h2
        exact ⟨t2, by simpa [hl2] using h2⟩
      | cons c u =>
        rw [hb] at hsplit hl2 h2
        have hws := blanks_ws w'
        rw [hb] at hws
        obtain ⟨t1, h1⟩ := space_ok (rest := (blanks w').2 ++ rest) (noWsHead_append (blanks_head w') (stops_ws hrest))
          c u p (hws c (by simp)) (fun x hx => hws x (by simp [hx]))
        have hcat : c :: u ++ ((blanks w').2 ++ rest) = w' ++ rest := by rw [← List.append_assoc, hsplit]
        rw [hcat] at h1
        have := Runs.star_cons (Runs.alt_l (b := .call R.Comment) h1) (by simpa using h2)
        have e : p + (u.length + 1) + (blanks w').2.length = p + w'.length := by simp at hl2; omega
        rw [e] at this
        exact ⟨_, this⟩
    cases hw with
    | nil => exact ⟨_, by simpa using Runs.star_nil (Runs.alt_r (space_fail (stops_ws hrest)) (comment_fail (stops_cm hrest)))⟩
    | ws hc _ => exact absurd hc hhead
    | @long body w' hb hw' =>
      obtain ⟨t1, h1⟩ := long_ok body (w' ++ rest) pos hb
      have hsp : Runs G (.call R.Space) pos (47 :: 42 :: body ++ 42 :: 47 :: w' ++ rest) .fail := space_fail (by simp [NoWsHead, isWs])
      have hcm : Runs G (.call R.Comment) pos (47 :: 42 :: body ++ 42 :: 47 :: w' ++ rest) _ :=
        Runs.call_ok rule_Comment (Runs.alt_l (by simpa using h1))
      simp at hlen
      obtain ⟨t2, h2⟩ := cont w' (pos + (body.length + 4)) (by omega) hw'
      have := Runs.star_cons (Runs.alt_r hsp hcm) h2
      have e : pos + (body.length + 4) + w'.length = pos + (47 :: 42 :: body ++ 42 :: 47 :: w').length := by simp; omega
      rw [e] at this
      exact ⟨_, this⟩
    | @line body w' hb hn hne hw' =>
      obtain ⟨t1, h1⟩ := line_ok body (w' ++ rest) pos hb (nlHead_append hn hne)
      have hsp : Runs G (.call R.Space) pos (47 :: 47 :: body ++ w' ++ rest) .fail := space_fail (by simp [NoWsHead, isWs])
      have hlong : Runs G (.call R.LongComment) pos (47 :: 47 :: body ++ w' ++ rest) .fail :=
        Runs.call_fail rule_Long (Runs.seq_fail1 (Runs.seq_fail2 (Runs.rng_ok (by decide)) (Runs.rng_fail (by decide))))
      have hcm : Runs G (.call R.Comment) pos (47 :: 47 :: body ++ w' ++ rest) _ :=
        Runs.call_ok rule_Comment (Runs.alt_r hlong (Runs.alt_l (by simpa using h1)))
      simp at hlen
      obtain ⟨t2, h2⟩ := cont w' (pos + (body.length + 2)) (by omega) hw'
      have := Runs.star_cons (Runs.alt_r hsp hcm) h2
      have e : pos + (body.length + 2) + w'.length = pos + (47 :: 47 :: body ++ w').length := by simp; omega
      rw [e] at this
      exact ⟨_, this⟩
    | @unix body w' hb hn hne hw' =>
      obtain ⟨t1, h1⟩ := unix_ok body (w' ++ rest) pos hb (nlHead_append hn hne)
      have hsp : Runs G (.call R.Space) pos (35 :: body ++ w' ++ rest) .fail := space_fail (by simp [NoWsHead, isWs])
      have hlong : Runs G (.call R.LongComment) pos (35 :: body ++ w' ++ rest) .fail :=
        Runs.call_fail rule_Long (Runs.seq_fail1 (Runs.seq_fail1 (Runs.rng_fail (by decide))))
      have hline : Runs G (.call R.LineComment) pos (35 :: body ++ w' ++ rest) .fail :=
        Runs.call_fail rule_Line (Runs.seq_fail1 (Runs.seq_fail1 (Runs.rng_fail (by decide))))
      have hcm : Runs G (.call R.Comment) pos (35 :: body ++ w' ++ rest) _ :=
        Runs.call_ok rule_Comment (Runs.alt_r hlong (Runs.alt_r hline (by simpa using h1)))
      simp at hlen
      obtain ⟨t2, h2⟩ := cont w' (pos + (body.length + 1)) (by omega) hw'
      have := Runs.star_cons (Runs.alt_r hsp hcm) h2
      have e : pos + (body.length + 1) + w'.length = pos + (35 :: body ++ w').length := by simp; omega
      rw [e] at this
      exact ⟨_, this⟩

/-- **Skip absorbs every whitespace / comment string**: blanks in any mix, `/* … */` (body without `*/`), `// …` and
`# …` up to a line end, in any order and number, and stops at the first character that cannot continue it. -/
theorem skip_absorbs (w rest : List Nat) (pos : Nat) (hw : SkipStr w) (hrest : StopsSkip rest) :
    ∃ t, Runs G (.call R.Skip) pos (w ++ rest) (.ok (pos + w.length) rest t) := by
  have hsplit := blanks_eq w
  have hl2 := blanks_len w
  obtain ⟨t2, h2⟩ := skipStar rest hrest _ (blanks w).2 (Nat.le_refl _) hw.after_blanks (blanks_head w) (pos + (blanks w).1.length)
  cases hb : (blanks w).1 with
  | nil =>
    rw [hb] at hsplit hl2 h2
    simp at hsplit hl2 h2
    rw [hsplit] at h2
    exact ⟨_, Runs.call_ok rule_Skip h2⟩
  | cons c u =>
    rw [hb] at hsplit hl2 h2
    have hws := blanks_ws w
    rw [hb] at hws
    obtain ⟨t1, h1⟩ := space_ok (rest := (blanks w).2 ++ rest) (noWsHead_append (blanks_head w) (stops_ws hrest))
      c u pos (hws c (by simp)) (fun x hx => hws x (by simp [hx]))
    have hcat : c :: u ++ ((blanks w).2 ++ rest) = w ++ rest := by rw [← List.append_assoc, hsplit]
    rw [hcat] at h1
    have := Runs.call_ok rule_Skip (Runs.star_cons (Runs.alt_l (b := .call R.Comment) h1) (by simpa using h2))
    have e : pos + (u.length + 1) + (blanks w).2.length = pos + w.length := by simp at hl2; omega
    rw [e] at this
    exact ⟨_, this⟩

end PegTokens
