/-
  NamesLemmas — proofs about the model `ThriftVerif.Lib.Names` (property C01).

  Architecture:
    * `lk` / `put` table lemmas;
    * `addLoop_spec`: the candidate `Add` returns is unbound or bound to the same id;
    * `Ext g g' tr`: `g'` extends `g` by the bindings `tr` (name, id), in order: name→id bindings are never lost,
      the id→name table is only written at the ids of `tr`;
    * `Steps g g' names ids`: `Ext` with the two projections of the trace named;
    * every builder of the model is a `Steps` whose names / ids are the lists `declaredGlobals` / `globalIds`
      (resp. `managedMembers` / `memberIds`) enumerate;
    * distinct ids + functional name→id ⇒ distinct names.
  Core Lean only.
-/
import ThriftVerif.Lib.Names

namespace Names

/-! ## generic list facts -/

theorem flatMap_singleton_eq_map {α β : Type} (f : α → β) (l : List α) : l.flatMap (fun x => [f x]) = l.map f := by
  induction l with
  | nil => rfl
  | cons a r ih => simp [List.flatMap_cons, ih]

theorem nodup_map_inj {α β : Type} (g : α → β) : ∀ (l : List α), (l.map g).Nodup → ∀ a ∈ l, ∀ b ∈ l, g a = g b → a = b
  | [], _, a, ha, _, _, _ => by cases ha
  | x :: r, h, a, ha, b, hb, hab => by
    rw [List.map_cons, List.nodup_cons] at h
    rcases List.mem_cons.1 ha with rfl | ha'
    · rcases List.mem_cons.1 hb with rfl | hb'
      · rfl
      · exact absurd (hab ▸ List.mem_map.2 ⟨b, hb', rfl⟩) h.1
    · rcases List.mem_cons.1 hb with rfl | hb'
      · exact absurd (hab ▸ List.mem_map.2 ⟨a, ha', rfl⟩) h.1
      · exact nodup_map_inj g r h.2 a ha' b hb' hab

/-- distinct second components + functional first→second ⇒ distinct first components -/
theorem nodup_fst_of_functional : ∀ (l : List (Bytes × Bytes)), (l.map (·.2)).Nodup →
    (∀ n i j, (n, i) ∈ l → (n, j) ∈ l → i = j) → (l.map (·.1)).Nodup
  | [], _, _ => List.nodup_nil
  | (n, i) :: r, hn, hf => by
    rw [List.map_cons, List.nodup_cons] at hn ⊢
    refine ⟨?_, nodup_fst_of_functional r hn.2 (fun n i j h1 h2 => hf n i j (List.mem_cons_of_mem _ h1) (List.mem_cons_of_mem _ h2))⟩
    intro hmem
    obtain ⟨⟨n', j⟩, hp, hn'⟩ := List.mem_map.1 hmem
    simp only at hn'
    subst hn'
    have := hf n' i j (List.mem_cons_self) (List.mem_cons_of_mem _ hp)
    subst this
    exact hn.1 (List.mem_map.2 ⟨(n', i), hp, rfl⟩)

/-! ## tables -/

theorem lk_put (k k' v : Bytes) (t : Table) : lk k' (put k v t) = if k' = k then some v else lk k' t := by
  induction t with
  | nil =>
    simp only [put, lk]
    by_cases h : k = k'
    · simp [h]
    · have : ¬ k' = k := fun e => h e.symm
      simp [h, this]
  | cons e r ih =>
    obtain ⟨a, b⟩ := e
    simp only [put]
    by_cases hak : a = k
    · subst hak
      simp only [if_true, lk]
      by_cases h : a = k'
      · simp [h]
      · have : ¬ k' = a := fun e => h e.symm
        simp [h, this]
    · simp only [hak, if_false, lk, ih]
      by_cases h : a = k'
      · subst h
        simp [hak]
      · simp [h]

theorem lk_put_same (k v : Bytes) (t : Table) : lk k (put k v t) = some v := by
  rw [lk_put]; simp

theorem lk_put_other {k k' : Bytes} (v : Bytes) (t : Table) (h : k' ≠ k) : lk k' (put k v t) = lk k' t := by
  rw [lk_put]; simp [h]

theorem lk_none_iff (k : Bytes) (t : Table) : lk k t = none ↔ k ∉ t.map (·.1) := by
  induction t with
  | nil => simp [lk]
  | cons e r ih =>
    obtain ⟨a, b⟩ := e
    simp only [lk, List.map_cons, List.mem_cons]
    by_cases h : a = k
    · subst h; simp
    · have : ¬ k = a := fun e => h e.symm
      simp [h, this, ih]

theorem mem_of_lk {k v : Bytes} {t : Table} (h : lk k t = some v) : (k, v) ∈ t := by
  induction t with
  | nil => simp [lk] at h
  | cons e r ih =>
    obtain ⟨a, b⟩ := e
    simp only [lk] at h
    by_cases hak : a = k
    · subst hak
      simp only [if_true, Option.some.injEq] at h
      subst h
      exact List.mem_cons_self
    · simp only [hak, if_false] at h
      exact List.mem_cons_of_mem _ (ih h)

theorem lk_of_mem_nodup {k v : Bytes} {t : Table} (hn : (t.map (·.1)).Nodup) (h : (k, v) ∈ t) : lk k t = some v := by
  induction t with
  | nil => cases h
  | cons e r ih =>
    obtain ⟨a, b⟩ := e
    rw [List.map_cons, List.nodup_cons] at hn
    simp only [lk]
    rcases List.mem_cons.1 h with heq | hmem
    · cases heq
      simp
    · have hne : ¬ a = k := by
        intro e
        subst e
        exact hn.1 (List.mem_map.2 ⟨(a, v), hmem, rfl⟩)
      simp only [hne, if_false]
      exact ih hn.2 hmem

theorem keys_put (k v : Bytes) (t : Table) :
    (put k v t).map (·.1) = if lk k t = none then t.map (·.1) ++ [k] else t.map (·.1) := by
  induction t with
  | nil => simp [put, lk]
  | cons e r ih =>
    obtain ⟨a, b⟩ := e
    simp only [put, lk]
    by_cases hak : a = k
    · simp [hak]
    · simp only [hak, if_false, List.map_cons, ih]
      split <;> simp

theorem keys_put_nodup (k v : Bytes) (t : Table) (h : (t.map (·.1)).Nodup) : ((put k v t).map (·.1)).Nodup := by
  rw [keys_put]
  split
  · rename_i hnone
    rw [List.nodup_append]
    refine ⟨h, List.nodup_cons.2 ⟨by simp, List.nodup_nil⟩, ?_⟩
    intro a ha b hb hab
    simp only [List.mem_singleton] at hb
    subst hb
    subst hab
    exact (lk_none_iff _ _).1 hnone ha
  · exact h

theorem mem_put {k v a b : Bytes} {t : Table} (h : (a, b) ∈ put k v t) : (a, b) ∈ t ∨ (a = k ∧ b = v) := by
  induction t with
  | nil =>
    simp only [put, List.mem_singleton, Prod.mk.injEq] at h
    exact Or.inr h
  | cons e r ih =>
    obtain ⟨a', b'⟩ := e
    simp only [put] at h
    by_cases hak : a' = k
    · simp only [hak, if_true, List.mem_cons, Prod.mk.injEq] at h
      rcases h with ⟨h1, h2⟩ | h
      · exact Or.inr ⟨h1, h2⟩
      · exact Or.inl (List.mem_cons_of_mem _ h)
    · simp only [hak, if_false, List.mem_cons] at h
      rcases h with h | h
      · exact Or.inl (h ▸ List.mem_cons_self)
      · rcases ih h with h | h
        · exact Or.inl (List.mem_cons_of_mem _ h)
        · exact Or.inr h

/-! ## `Add` -/

theorem addLoop_spec (rn : Bytes → Nat → Bytes) (n2i : Table) (name id : Bytes) :
    ∀ (fuel cnt : Nat) (res : Bytes), addLoop rn n2i name id fuel cnt = some res →
      lk res n2i = none ∨ lk res n2i = some id
  | 0, _, _, h => by simp [addLoop] at h
  | fuel + 1, cnt, res, h => by
    simp only [addLoop] at h
    split at h
    · rename_i hn
      simp only [Option.some.injEq] at h
      subst h
      exact Or.inl hn
    · rename_i cur hc
      split at h
      · rename_i hcur
        simp only [Option.some.injEq] at h
        subst h
        subst hcur
        exact Or.inr hc
      · exact addLoop_spec rn n2i name id fuel (cnt + 1) res h

theorem underscore_zero (name : Bytes) : underscore name 0 = name := by
  simp [underscore]

theorem addLoop_underscore (n2i : Table) (name id : Bytes) :
    ∀ (fuel cnt : Nat) (res : Bytes), addLoop underscore n2i name id fuel cnt = some res →
      ∃ k, res = underscore name k
  | 0, _, _, h => by simp [addLoop] at h
  | fuel + 1, cnt, res, h => by
    simp only [addLoop] at h
    have hcand : (if cnt = 0 then name else underscore name cnt) = underscore name cnt := by
      split
      · rename_i h0; subst h0; exact (underscore_zero name).symm
      · rfl
    rw [hcand] at h
    split at h
    · simp only [Option.some.injEq] at h
      exact ⟨cnt, h.symm⟩
    · split at h
      · simp only [Option.some.injEq] at h
        exact ⟨cnt, h.symm⟩
      · exact addLoop_underscore n2i name id fuel (cnt + 1) res h

/-- what a successful `Add` is -/
theorem add_ok {rn : Bytes → Nat → Bytes} {ns ns' : NS} {name id res : Bytes}
    (h : ns.add rn name id = .ok (res, ns')) :
    (lk res ns.n2i = none ∨ lk res ns.n2i = some id) ∧
    ns' = { n2i := put res id ns.n2i, i2n := put id res ns.i2n } ∧
    addLoop rn ns.n2i name id (fuelOf ns.n2i) 0 = some res := by
  unfold NS.add at h
  split at h
  · cases h
  · rename_i r hr
    simp only [Except.ok.injEq, Prod.mk.injEq] at h
    obtain ⟨h1, h2⟩ := h
    subst h1
    exact ⟨addLoop_spec rn _ _ _ _ _ _ hr, h2.symm, hr⟩

theorem add_fresh (rn : Bytes → Nat → Bytes) (ns ns' : NS) (name id res : Bytes)
    (h : ns.add rn name id = .ok (res, ns')) :
    (∀ id', lk res ns.n2i = some id' → id' = id) ∧ lk res ns'.n2i = some id ∧ lk id ns'.i2n = some res := by
  obtain ⟨hs, he, _⟩ := add_ok h
  subst he
  refine ⟨?_, lk_put_same _ _ _, lk_put_same _ _ _⟩
  intro id' h'
  rcases hs with hs | hs
  · rw [hs] at h'; cases h'
  · rw [hs] at h'; cases h'; rfl

/-- what a successful `Reserve` is -/
theorem reserve_ok {ns ns' : NS} {name id : Bytes} (h : ns.reserve name id = some ns') :
    lk name ns.n2i = none ∧ ns' = { n2i := put name id ns.n2i, i2n := put id name ns.i2n } := by
  unfold NS.reserve at h
  split at h
  · cases h
  · rename_i hn
    simp only [Option.some.injEq] at h
    exact ⟨hn, h.symm⟩

theorem mustReserve_ok {ns ns' : NS} {name id : Bytes} (h : ns.mustReserve name id = .ok ns') :
    ns.reserve name id = some ns' := by
  unfold NS.mustReserve at h
  split at h
  · rename_i x hx
    simp only [Except.ok.injEq] at h
    subst h
    exact hx
  · cases h

/-! ## `Ext`: one namespace extends another by a trace of bindings -/

structure Ext (g g' : NS) (tr : List (Bytes × Bytes)) : Prop where
  mono : ∀ n i, lk n g.n2i = some i → lk n g'.n2i = some i
  bound : ∀ p ∈ tr, lk p.1 g'.n2i = some p.2
  frame : ∀ i, i ∉ tr.map (·.2) → lk i g'.i2n = lk i g.i2n
  back : (tr.map (·.2)).Nodup → ∀ p ∈ tr, lk p.2 g'.i2n = some p.1
  inv : (∀ id n, lk id g.i2n = some n → lk n g.n2i = some id) → (∀ id n, lk id g'.i2n = some n → lk n g'.n2i = some id)
  keys : (g.n2i.map (·.1)).Nodup → (g'.n2i.map (·.1)).Nodup

theorem Ext.refl (g : NS) : Ext g g [] :=
  ⟨fun _ _ h => h, fun _ h => (by cases h), fun _ _ => rfl, fun _ _ h => (by cases h), fun h => h, fun h => h⟩

theorem Ext.trans {g g' g'' : NS} {t1 t2 : List (Bytes × Bytes)} (h1 : Ext g g' t1) (h2 : Ext g' g'' t2) :
    Ext g g'' (t1 ++ t2) := by
  refine ⟨fun n i h => h2.mono n i (h1.mono n i h), ?_, ?_, ?_, fun h => h2.inv (h1.inv h), fun h => h2.keys (h1.keys h)⟩
  · intro p hp
    rcases List.mem_append.1 hp with hp | hp
    · exact h2.mono _ _ (h1.bound p hp)
    · exact h2.bound p hp
  · intro i hi
    rw [List.map_append, List.mem_append] at hi
    rw [h2.frame i (fun h => hi (Or.inr h)), h1.frame i (fun h => hi (Or.inl h))]
  · intro hn p hp
    rw [List.map_append, List.nodup_append] at hn
    obtain ⟨hn1, hn2, hd⟩ := hn
    rcases List.mem_append.1 hp with hp | hp
    · rw [h2.frame p.2 (fun h => hd p.2 (List.mem_map.2 ⟨p, hp, rfl⟩) p.2 h rfl)]
      exact h1.back hn1 p hp
    · exact h2.back hn2 p hp

/-- writing `res ↦ id`, `id ↦ res` where `res` was unbound or bound to `id` -/
theorem Ext.write (ns : NS) (res id : Bytes) (hs : lk res ns.n2i = none ∨ lk res ns.n2i = some id) :
    Ext ns { n2i := put res id ns.n2i, i2n := put id res ns.i2n } [(res, id)] := by
  refine ⟨?_, ?_, ?_, ?_, ?_, fun h => keys_put_nodup _ _ _ h⟩
  · intro n i h
    show lk n (put res id ns.n2i) = some i
    rw [lk_put]
    split
    · rename_i e
      subst e
      rcases hs with hs | hs
      · rw [hs] at h; cases h
      · rw [hs] at h; exact h
    · exact h
  · intro p hp
    simp only [List.mem_singleton] at hp
    subst hp
    exact lk_put_same _ _ _
  · intro i hi
    simp only [List.map_cons, List.map_nil, List.mem_singleton] at hi
    exact lk_put_other _ _ hi
  · intro _ p hp
    simp only [List.mem_singleton] at hp
    subst hp
    exact lk_put_same _ _ _
  · intro hinv id' n h
    show lk n (put res id ns.n2i) = some id'
    have h' : lk id' (put id res ns.i2n) = some n := h
    rw [lk_put] at h' ⊢
    split at h'
    · rename_i e
      subst e
      simp only [Option.some.injEq] at h'
      subst h'
      simp
    · rename_i hne
      have hb := hinv id' n h'
      split
      · rename_i e
        subst e
        rcases hs with hs | hs
        · rw [hs] at hb; cases hb
        · rw [hs] at hb
          simp only [Option.some.injEq] at hb
          exact absurd hb.symm hne
      · exact hb

theorem Ext.add {rn : Bytes → Nat → Bytes} {ns ns' : NS} {name id res : Bytes}
    (h : ns.add rn name id = .ok (res, ns')) : Ext ns ns' [(res, id)] := by
  obtain ⟨hs, he, _⟩ := add_ok h
  subst he
  exact Ext.write ns res id hs

theorem Ext.reserve {ns ns' : NS} {name id : Bytes} (h : ns.reserve name id = some ns') : Ext ns ns' [(name, id)] := by
  obtain ⟨hs, he⟩ := reserve_ok h
  subst he
  exact Ext.write ns name id (Or.inl hs)

theorem Ext.mustReserve {ns ns' : NS} {name id : Bytes} (h : ns.mustReserve name id = .ok ns') :
    Ext ns ns' [(name, id)] :=
  Ext.reserve (mustReserve_ok h)

/-- all bindings of a trace are in the final name→id table, hence the trace is functional -/
theorem Ext.functional {g g' : NS} {tr : List (Bytes × Bytes)} (h : Ext g g' tr) :
    ∀ n i j, (n, i) ∈ tr → (n, j) ∈ tr → i = j := by
  intro n i j hi hj
  have h1 := h.bound _ hi
  have h2 := h.bound _ hj
  simp only at h1 h2
  rw [h1] at h2
  exact Option.some.inj h2

theorem Ext.nodup {g g' : NS} {tr : List (Bytes × Bytes)} (h : Ext g g' tr) (hn : (tr.map (·.2)).Nodup) :
    (tr.map (·.1)).Nodup :=
  nodup_fst_of_functional tr hn h.functional

theorem inv_empty : ∀ id n, lk id NS.empty.i2n = some n → lk n NS.empty.n2i = some id := by
  intro id n h
  simp [NS.empty, lk] at h

/-! ## arbitrary histories -/

theorem runOps_ext (rn : Bytes → Nat → Bytes) : ∀ (ops : List Op) (ns ns' : NS) (tr : List (Bytes × Bytes)),
    runOps rn ns ops = .ok (ns', tr) → Ext ns ns' tr ∧ (tr.map (·.2)).Sublist (ops.map Op.id)
  | [], ns, ns', tr, h => by
    simp only [runOps, Except.ok.injEq, Prod.mk.injEq] at h
    obtain ⟨h1, h2⟩ := h
    subst h1; subst h2
    exact ⟨Ext.refl _, List.Sublist.refl _⟩
  | .add n i :: r, ns, ns', tr, h => by
    simp only [runOps] at h
    split at h
    · cases h
    · rename_i res ns1 hadd
      split at h
      · cases h
      · rename_i ns2 tr' hrest
        simp only [Except.ok.injEq, Prod.mk.injEq] at h
        obtain ⟨h1, h2⟩ := h
        subst h1; subst h2
        obtain ⟨e, s⟩ := runOps_ext rn r ns1 ns2 tr' hrest
        exact ⟨(Ext.add hadd).trans e, by simpa [Op.id] using s.cons_cons i⟩
  | .reserve n i :: r, ns, ns', tr, h => by
    simp only [runOps] at h
    split at h
    · obtain ⟨e, s⟩ := runOps_ext rn r ns ns' tr h
      exact ⟨e, by simpa [Op.id] using s.cons i⟩
    · rename_i ns1 hres
      split at h
      · cases h
      · rename_i ns2 tr' hrest
        simp only [Except.ok.injEq, Prod.mk.injEq] at h
        obtain ⟨h1, h2⟩ := h
        subst h1; subst h2
        obtain ⟨e, s⟩ := runOps_ext rn r ns1 ns2 tr' hrest
        exact ⟨(Ext.reserve hres).trans e, by simpa [Op.id] using s.cons_cons i⟩

theorem runOps_inj (rn : Bytes → Nat → Bytes) (ops : List Op) (ns : NS) (tr : List (Bytes × Bytes))
    (h : runOps rn NS.empty ops = .ok (ns, tr)) :
    (∀ i1 i2 n, lk i1 ns.i2n = some n → lk i2 ns.i2n = some n → i1 = i2) ∧
    (∀ id n, lk id ns.i2n = some n → ns.idOf (ns.get id) = id) := by
  have hinv := (runOps_ext rn ops _ _ _ h).1.inv inv_empty
  constructor
  · intro i1 i2 n h1 h2
    have a := hinv i1 n h1
    have b := hinv i2 n h2
    rw [a] at b
    exact Option.some.inj b
  · intro id n h1
    simp only [NS.idOf, NS.get, h1, Option.getD_some, hinv id n h1]

theorem runOps_distinct (rn : Bytes → Nat → Bytes) (ops : List Op) (ns : NS) (tr : List (Bytes × Bytes))
    (h : runOps rn NS.empty ops = .ok (ns, tr)) :
    (∀ n i j, (n, i) ∈ tr → (n, j) ∈ tr → i = j) ∧ ((ops.map Op.id).Nodup → (tr.map (·.1)).Nodup) := by
  obtain ⟨e, s⟩ := runOps_ext rn ops _ _ _ h
  exact ⟨e.functional, fun hn => e.nodup (hn.sublist s)⟩

/-! ## `Steps`: `Ext` with the projections of the trace named -/

def Steps (g g' : NS) (names ids : List Bytes) : Prop :=
  ∃ tr, Ext g g' tr ∧ tr.map (·.1) = names ∧ tr.map (·.2) = ids

theorem Steps.refl (g : NS) : Steps g g [] [] := ⟨[], Ext.refl g, rfl, rfl⟩

theorem Steps.trans {g g' g'' : NS} {n1 n2 i1 i2 : List Bytes} (h1 : Steps g g' n1 i1) (h2 : Steps g' g'' n2 i2) :
    Steps g g'' (n1 ++ n2) (i1 ++ i2) := by
  obtain ⟨t1, e1, a1, b1⟩ := h1
  obtain ⟨t2, e2, a2, b2⟩ := h2
  exact ⟨t1 ++ t2, e1.trans e2, by rw [List.map_append, a1, a2], by rw [List.map_append, b1, b2]⟩

theorem Steps.add {rn : Bytes → Nat → Bytes} {ns ns' : NS} {name id res : Bytes}
    (h : ns.add rn name id = .ok (res, ns')) : Steps ns ns' [res] [id] :=
  ⟨[(res, id)], Ext.add h, rfl, rfl⟩

theorem Steps.mustReserve {ns ns' : NS} {name id : Bytes} (h : ns.mustReserve name id = .ok ns') :
    Steps ns ns' [name] [id] :=
  ⟨[(name, id)], Ext.mustReserve h, rfl, rfl⟩

theorem Steps.nodup {g g' : NS} {names ids : List Bytes} (h : Steps g g' names ids) (hn : ids.Nodup) : names.Nodup := by
  obtain ⟨tr, e, a, b⟩ := h
  subst a; subst b
  exact e.nodup hn

theorem Steps.cast {g g' : NS} {n1 n2 i1 i2 : List Bytes} (h : Steps g g' n1 i1) (hn : n1 = n2) (hi : i1 = i2) :
    Steps g g' n2 i2 := hn ▸ hi ▸ h

theorem bind_ok {α β : Type} {x : Except Err α} {f : α → Except Err β} {b : β}
    (h : (x >>= f) = .ok b) : ∃ a, x = .ok a ∧ f a = .ok b := by
  cases x with
  | error e => simp [bind, Except.bind] at h
  | ok a => exact ⟨a, rfl, h⟩

theorem pure_ok {α : Type} {a b : α} (h : (pure a : Except Err α) = .ok b) : a = b := by
  simpa [pure, Except.pure] using h

/-! ## the global namespace -/

theorem buildStructLike_spec {ft : Feat} {ident : Bytes → Bytes} {g g' : NS} {v : SL} {nn : Bytes} {s : StructNames}
    (h : buildStructLike ft ident g v nn = .ok (g', s)) :
    Steps g g' (slGlobals s) (slGlobalIds v nn) ∧
    buildMembers ft ident v.name s.goName v.cat v.fields = .ok (s.scope, s.fields) ∧ s.raw = v.name ∧ s.cat = v.cat := by
  unfold buildStructLike at h
  obtain ⟨⟨sn', g1⟩, h1, h⟩ := bind_ok h
  obtain ⟨g2, h2, h⟩ := bind_ok h
  obtain ⟨g3, h3, h⟩ := bind_ok h
  obtain ⟨⟨scope, fs⟩, h4, h⟩ := bind_ok h
  have h := pure_ok h
  simp only [Prod.mk.injEq] at h
  obtain ⟨e1, e2⟩ := h
  subst e1; subst e2
  exact ⟨((Steps.add h1).trans (Steps.mustReserve h2)).trans (Steps.mustReserve h3), h4, rfl, rfl⟩

/-- the global names one function contributes -/
def fnGlobals (f : FnNames) : List Bytes :=
  slGlobals f.argType ++ (match f.resType with | some r => slGlobals r | none => [])

theorem fnTypeLoop_steps (ft : Feat) (ident : Bytes → Bytes) (kw : List Bytes) (svcRaw : Bytes) :
    ∀ (l : List (Fn × Bytes)) (g g' : NS) (fns : List FnNames),
      fnTypeLoop ft ident kw svcRaw g l = .ok (g', fns) →
      Steps g g' (fns.flatMap fnGlobals) ((l.map (·.1)).flatMap (fnGlobalIds ft ident svcRaw))
  | [], g, g', fns, h => by
    simp only [fnTypeLoop, Except.ok.injEq, Prod.mk.injEq] at h
    obtain ⟨h1, h2⟩ := h
    subst h1; subst h2
    exact Steps.refl _
  | (f, goName) :: r, g, g', fns, h => by
    unfold fnTypeLoop at h
    obtain ⟨⟨g1, aty⟩, h1, h⟩ := bind_ok h
    have s1 := (buildStructLike_spec h1).1
    dsimp only at h
    simp only [List.map_cons, List.flatMap_cons, fnGlobalIds]
    split at h
    · rename_i ho
      obtain ⟨⟨g2, rt⟩, h2, h⟩ := bind_ok h
      have h2 := pure_ok h2
      simp only [Prod.mk.injEq] at h2
      obtain ⟨e1, e2⟩ := h2
      subst e1; subst e2
      obtain ⟨scope, _, h⟩ := bind_ok h
      obtain ⟨⟨g3, rest⟩, h4, h⟩ := bind_ok h
      have h := pure_ok h
      simp only [Prod.mk.injEq] at h
      obtain ⟨e1, e2⟩ := h
      subst e1; subst e2
      have ih := fnTypeLoop_steps ft ident kw svcRaw r _ _ rest h4
      simp only [ho, if_true, List.flatMap_cons, fnGlobals, List.append_nil]
      exact s1.trans ih
    · rename_i ho
      obtain ⟨⟨g2, rt⟩, h2, h⟩ := bind_ok h
      have s2 := (buildStructLike_spec h2).1
      obtain ⟨⟨g2', rt'⟩, h3, h⟩ := bind_ok h
      have h3 := pure_ok h3
      simp only [Prod.mk.injEq] at h3
      obtain ⟨e1, e2⟩ := h3
      subst e1; subst e2
      obtain ⟨scope, _, h⟩ := bind_ok h
      obtain ⟨⟨g3, rest⟩, h4, h⟩ := bind_ok h
      have h := pure_ok h
      simp only [Prod.mk.injEq] at h
      obtain ⟨e1, e2⟩ := h
      subst e1; subst e2
      have ih := fnTypeLoop_steps ft ident kw svcRaw r _ _ rest h4
      simp only [ho, List.flatMap_cons, fnGlobals]
      exact (s1.trans s2).trans ih

theorem fnNameLoop_length (ft : Feat) (ident : Bytes → Bytes) :
    ∀ (l : List Fn) (ns : NS) (names : List Bytes), fnNameLoop ft ident ns l = .ok names → names.length = l.length
  | [], _, names, h => by
    simp only [fnNameLoop, Except.ok.injEq] at h
    subst h; rfl
  | f :: r, ns, names, h => by
    unfold fnNameLoop at h
    obtain ⟨⟨fn, ns1⟩, _, h⟩ := bind_ok h
    obtain ⟨rest, h2, h⟩ := bind_ok h
    have h := pure_ok h
    subst h
    simp [fnNameLoop_length ft ident r ns1 rest h2]

theorem buildService_steps {ft : Feat} {ident : Bytes → Bytes} {kw : List Bytes} {g g' : NS} {v : Svc} {s : SvcNames}
    (h : buildService ft ident kw g v = .ok (g', s)) : Steps g g' (svcGlobals s) (svcGlobalIds ft ident v) := by
  unfold buildService at h
  obtain ⟨⟨sn', g1⟩, h1, h⟩ := bind_ok h
  obtain ⟨fnNames, h2, h⟩ := bind_ok h
  obtain ⟨⟨g2, fns⟩, h3, h⟩ := bind_ok h
  obtain ⟨g3, h4, h⟩ := bind_ok h
  obtain ⟨g4, h5, h⟩ := bind_ok h
  have h := pure_ok h
  simp only [Prod.mk.injEq] at h
  obtain ⟨e1, e2⟩ := h
  subst e1; subst e2
  have hl := fnNameLoop_length ft ident _ _ _ h2
  have s3 := fnTypeLoop_steps ft ident kw v.name _ _ _ _ h3
  rw [List.map_fst_zip (by omega)] at s3
  exact ((Steps.add h1).trans s3).trans ((Steps.mustReserve h4).trans (Steps.mustReserve h5))

theorem mapM'_steps {α β : Type} (f : NS → α → Except Err (NS × β)) (N : β → List Bytes) (I : α → List Bytes)
    (hf : ∀ g a g' b, f g a = .ok (g', b) → Steps g g' (N b) (I a)) :
    ∀ (l : List α) (g g' : NS) (bs : List β), mapM' f g l = .ok (g', bs) → Steps g g' (bs.flatMap N) (l.flatMap I)
  | [], g, g', bs, h => by
    simp only [mapM', Except.ok.injEq, Prod.mk.injEq] at h
    obtain ⟨h1, h2⟩ := h
    subst h1; subst h2
    exact Steps.refl _
  | a :: r, g, g', bs, h => by
    unfold mapM' at h
    obtain ⟨⟨g1, b⟩, h1, h⟩ := bind_ok h
    obtain ⟨⟨g2, bs'⟩, h2, h⟩ := bind_ok h
    have h := pure_ok h
    simp only [Prod.mk.injEq] at h
    obtain ⟨e1, e2⟩ := h
    subst e1; subst e2
    simp only [List.flatMap_cons]
    exact (hf _ _ _ _ h1).trans (mapM'_steps f N I hf r g1 g2 bs' h2)

theorem buildEnum_steps {ft : Feat} {ident : Bytes → Bytes} {g g' : NS} {e : Enm} {en : EnumNames}
    (h : buildEnum ft ident g e = .ok (g', en)) : Steps g g' [en.goName] [e.name] := by
  unfold buildEnum at h
  obtain ⟨⟨n, g1⟩, h1, h⟩ := bind_ok h
  obtain ⟨vs, _, h⟩ := bind_ok h
  have h := pure_ok h
  simp only [Prod.mk.injEq] at h
  obtain ⟨e1, e2⟩ := h
  subst e1; subst e2
  exact Steps.add h1

theorem buildTypedef_steps {ft : Feat} {ident : Bytes → Bytes} {g g' : NS} {t : Tdef} {tn : TdefNames}
    (h : buildTypedef ft ident g t = .ok (g', tn)) :
    Steps g g' ([tn.goName] ++ (if tn.structTarget then [sNew ++ tn.goName] else []))
      ([t.alias] ++ (if t.structTarget then [dollar (tNew ++ t.alias)] else [])) := by
  unfold buildTypedef at h
  obtain ⟨⟨n, g1⟩, h1, h⟩ := bind_ok h
  dsimp only at h
  split at h
  · rename_i hst
    obtain ⟨g2, h2, h⟩ := bind_ok h
    have h := pure_ok h
    simp only [Prod.mk.injEq] at h
    obtain ⟨e1, e2⟩ := h
    subst e1; subst e2
    simp only [hst, if_true]
    exact (Steps.add h1).trans (Steps.mustReserve h2)
  · rename_i hst
    obtain ⟨g2, h2, h⟩ := bind_ok h
    have h2 := pure_ok h2
    subst h2
    have h := pure_ok h
    simp only [Prod.mk.injEq] at h
    obtain ⟨e1, e2⟩ := h
    subst e1; subst e2
    simp only [hst]
    exact (Steps.add h1).trans (Steps.refl _)

theorem buildConstant_steps {ft : Feat} {ident : Bytes → Bytes} {g g' : NS} {c cn : Bytes}
    (h : buildConstant ft ident g c = .ok (g', cn)) : Steps g g' [cn] [c] := by
  unfold buildConstant at h
  obtain ⟨⟨n, g1⟩, h1, h⟩ := bind_ok h
  have h := pure_ok h
  simp only [Prod.mk.injEq] at h
  obtain ⟨e1, e2⟩ := h
  subst e1; subst e2
  exact Steps.add h1

theorem buildScope_steps {ft : Feat} {kw : List Bytes} {f : File} {ident : Bytes → Bytes} {s : ScopeNames}
    (h : buildScope ft kw f ident = .ok s) : Steps NS.empty s.globals (declaredGlobals s) (globalIds ft ident f) := by
  unfold buildScope at h
  obtain ⟨⟨g1, svcs⟩, h1, h⟩ := bind_ok h
  obtain ⟨⟨g2, sts⟩, h2, h⟩ := bind_ok h
  obtain ⟨⟨g3, ens⟩, h3, h⟩ := bind_ok h
  obtain ⟨⟨g4, tds⟩, h4, h⟩ := bind_ok h
  obtain ⟨⟨g5, cs⟩, h5, h⟩ := bind_ok h
  have h := pure_ok h
  subst h
  have s1 := mapM'_steps _ svcGlobals (svcGlobalIds ft ident) (fun _ _ _ _ h => buildService_steps h) _ _ _ _ h1
  have s2 := mapM'_steps _ slGlobals (fun v : SL => slGlobalIds v v.name)
    (fun _ _ _ _ h => (buildStructLike_spec h).1) _ _ _ _ h2
  have s3 := mapM'_steps _ (fun e : EnumNames => [e.goName]) (fun e : Enm => [e.name])
    (fun _ _ _ _ h => buildEnum_steps h) _ _ _ _ h3
  have s4 := mapM'_steps _ (fun t : TdefNames => [t.goName] ++ (if t.structTarget then [sNew ++ t.goName] else []))
    (fun t : Tdef => [t.alias] ++ (if t.structTarget then [dollar (tNew ++ t.alias)] else []))
    (fun _ _ _ _ h => buildTypedef_steps h) _ _ _ _ h4
  have s5 := mapM'_steps _ (fun c : Bytes => [c]) (fun c : Bytes => [c])
    (fun _ _ _ _ h => buildConstant_steps h) _ _ _ _ h5
  rw [flatMap_singleton_eq_map, flatMap_singleton_eq_map] at s3
  rw [flatMap_singleton_eq_map, flatMap_singleton_eq_map, List.map_id', List.map_id'] at s5
  exact (((s1.trans s2).trans s3).trans s4).trans s5

theorem buildScope_nodup (ft : Feat) (kw : List Bytes) (f : File) (ident : Bytes → Bytes) (s : ScopeNames)
    (h : buildScope ft kw f ident = .ok s) (hid : (globalIds ft ident f).Nodup) : (declaredGlobals s).Nodup :=
  (buildScope_steps h).nodup hid

/-! ## the member namespace of a struct-like -/

def Op.name : Op → Bytes
  | .add n _ => n
  | .reserve n _ => n

theorem reserveAll_steps : ∀ (l : List Bytes) (ns ns' : NS), reserveAll ns l = .ok ns' → Steps ns ns' l (l.map dollar)
  | [], ns, ns', h => by
    simp only [reserveAll, Except.ok.injEq] at h
    subst h
    exact Steps.refl _
  | fn :: r, ns, ns', h => by
    unfold reserveAll at h
    obtain ⟨ns1, h1, h⟩ := bind_ok h
    exact (Steps.mustReserve h1).trans (reserveAll_steps r ns1 ns' h)

theorem addAll_spec : ∀ (ops : List Op) (ns ns' : NS), addAll underscore ns ops = .ok ns' →
    ∃ tr, Ext ns ns' tr ∧ tr.map (·.2) = ops.map Op.id ∧ ∀ p ∈ tr, ∃ op ∈ ops, ∃ k, p.1 = underscore op.name k
  | [], ns, ns', h => by
    simp only [addAll, Except.ok.injEq] at h
    subst h
    exact ⟨[], Ext.refl _, rfl, fun _ hp => by cases hp⟩
  | .add n i :: r, ns, ns', h => by
    unfold addAll at h
    obtain ⟨⟨res, ns1⟩, h1, h⟩ := bind_ok h
    obtain ⟨tr, e, hi, hn⟩ := addAll_spec r ns1 ns' h
    obtain ⟨k, hk⟩ := addLoop_underscore _ _ _ _ _ _ (add_ok h1).2.2
    refine ⟨(res, i) :: tr, (Ext.add h1).trans e, by simp [hi, Op.id], ?_⟩
    intro p hp
    rcases List.mem_cons.1 hp with rfl | hp
    · exact ⟨.add n i, List.mem_cons_self, k, hk⟩
    · obtain ⟨op, ho, hk⟩ := hn p hp
      exact ⟨op, List.mem_cons_of_mem _ ho, hk⟩
  | .reserve n i :: r, ns, ns', h => by
    unfold addAll at h
    obtain ⟨ns1, h1, h⟩ := bind_ok h
    obtain ⟨tr, e, hi, hn⟩ := addAll_spec r ns1 ns' h
    refine ⟨(n, i) :: tr, (Ext.mustReserve h1).trans e, by simp [hi, Op.id], ?_⟩
    intro p hp
    rcases List.mem_cons.1 hp with rfl | hp
    · exact ⟨.reserve n i, List.mem_cons_self, 0, (underscore_zero n).symm⟩
    · obtain ⟨op, ho, hk⟩ := hn p hp
      exact ⟨op, List.mem_cons_of_mem _ ho, hk⟩

/-- the record `fieldLoop` builds for field `f`, given the namespace after the field's own `Add` -/
def fnOf (ns1 : NS) (f : Fld) (fn' : Bytes) : FieldNames :=
  { raw := f.name, name := fn',
    reader := ns1.get (dollar (tRead ++ id2str f.id)), writer := ns1.get (dollar (tWrite ++ id2str f.id)),
    getter := ns1.get (dollar (tGet ++ f.name)), setter := ns1.get (dollar (tSet ++ f.name)),
    isset := ns1.get (dollar (tIsset ++ f.name)), deepEq := ns1.get (dollar (tDeepequal ++ id2str f.id)) }

theorem fmn_fnOf (ns : NS) (f : Fld) (nm : Bytes) : fieldMethodNames (fnOf ns f nm) =
    [ns.get (dollar (tGet ++ f.name))] ++
    (if ns.get (dollar (tSet ++ f.name)) = [] then [] else [ns.get (dollar (tSet ++ f.name))]) ++
    (if ns.get (dollar (tIsset ++ f.name)) = [] then [] else [ns.get (dollar (tIsset ++ f.name))]) ++
    [ns.get (dollar (tRead ++ id2str f.id))] ++ [ns.get (dollar (tWrite ++ id2str f.id))] ++
    (if ns.get (dollar (tDeepequal ++ id2str f.id)) = [] then [] else [ns.get (dollar (tDeepequal ++ id2str f.id))]) := by
  simp [fieldMethodNames, fnOf]
  rfl

theorem fmn_congr {ns1 ns : NS} (h : ∀ x, ns1.get (dollar x) = ns.get (dollar x)) (f : Fld) (a b : Bytes) :
    fieldMethodNames (fnOf ns1 f a) = fieldMethodNames (fnOf ns f b) := by
  simp only [fmn_fnOf, h]

theorem ne_dollar_of_hasDollar {n : Bytes} (h : hasDollar n = false) (x : Bytes) : dollar x ≠ n := by
  intro e
  subst e
  simp [hasDollar, dollar] at h

theorem fieldLoop_spec (ft : Feat) (ident : Bytes → Bytes) : ∀ (fields : List Fld) (ns ns' : NS) (fs : List FieldNames),
    fieldLoop ft ident ns fields = .ok (ns', fs) → (∀ f ∈ fields, hasDollar f.name = false) →
    Steps ns ns' (fs.map (·.name)) (fields.map (·.name)) ∧
    fs.flatMap fieldMethodNames = fields.flatMap (fun f => fieldMethodNames (fnOf ns f []))
  | [], ns, ns', fs, h, _ => by
    simp only [fieldLoop, Except.ok.injEq, Prod.mk.injEq] at h
    obtain ⟨h1, h2⟩ := h
    subst h1; subst h2
    exact ⟨Steps.refl _, rfl⟩
  | f :: r, ns, ns', fs, h, hd => by
    unfold fieldLoop at h
    obtain ⟨⟨fn', ns1⟩, h1, h⟩ := bind_ok h
    obtain ⟨⟨ns2, rest⟩, h2, h⟩ := bind_ok h
    have h := pure_ok h
    simp only [Prod.mk.injEq] at h
    obtain ⟨e1, e2⟩ := h
    subst e1; subst e2
    obtain ⟨ihs, ihm⟩ := fieldLoop_spec ft ident r ns1 ns2 rest h2 (fun f hf => hd f (List.mem_cons_of_mem _ hf))
    have hget : ∀ x, ns1.get (dollar x) = ns.get (dollar x) := by
      intro x
      have hne := ne_dollar_of_hasDollar (hd f List.mem_cons_self) x
      have := (Ext.add h1).frame (dollar x) (by simpa using hne)
      simp only [NS.get, this]
    refine ⟨(Steps.add h1).trans ihs, ?_⟩
    have hfun : (fun f => fieldMethodNames (fnOf ns1 f [])) = (fun f => fieldMethodNames (fnOf ns f [])) :=
      funext fun f => fmn_congr hget f [] []
    simp only [List.flatMap_cons]
    rw [ihm, hfun]
    exact congrArg (· ++ _) (fmn_congr hget f fn' [])

theorem seg_one {ns : NS} {seg : List (Bytes × Bytes)} {i : Bytes} (hs : seg.map (·.2) = [i])
    (hb : ∀ p ∈ seg, lk p.2 ns.i2n = some p.1) : [ns.get i] = seg.map (·.1) := by
  match seg, hs, hb with
  | [p], hs, hb =>
    simp only [List.map_cons, List.map_nil, List.cons.injEq, and_true] at hs
    have := hb p List.mem_cons_self
    subst hs
    simp [NS.get, this]

theorem seg_opt {ns : NS} {seg : List (Bytes × Bytes)} {i : Bytes} {c : Bool}
    (hs : seg.map (·.2) = if c then [i] else [])
    (hb : ∀ p ∈ seg, lk p.2 ns.i2n = some p.1) (hne : ∀ p ∈ seg, p.1 ≠ [])
    (habs : c = false → lk i ns.i2n = none) :
    (if ns.get i = [] then [] else [ns.get i]) = seg.map (·.1) := by
  cases c with
  | false =>
    simp only [Bool.false_eq_true, if_false, List.map_eq_nil_iff] at hs
    subst hs
    simp [NS.get, habs rfl]
  | true =>
    simp only [if_true] at hs
    match seg, hs, hb, hne with
    | [p], hs, hb, hne =>
      simp only [List.map_cons, List.map_nil, List.cons.injEq, and_true] at hs
      have h1 := hb p List.mem_cons_self
      have h2 := hne p List.mem_cons_self
      subst hs
      simp [NS.get, h1, h2]

theorem methodOps_ids (ft : Feat) (ident : Bytes → Bytes) (f : Fld) : (methodOps ft ident f).map Op.id =
    [dollar (tGet ++ f.name)] ++ (if ft.setter then [dollar (tSet ++ f.name)] else []) ++
    (if f.isset then [dollar (tIsset ++ f.name)] else []) ++
    [dollar (tRead ++ id2str f.id)] ++ [dollar (tWrite ++ id2str f.id)] ++
    (if ft.deq then [dollar (tDeepequal ++ id2str f.id)] else []) := by
  by_cases h1 : ft.setter = true <;> by_cases h2 : f.isset = true <;> by_cases h3 : ft.deq = true <;>
    simp [methodOps, Op.id, h1, h2, h3]

theorem field_of_seg (ft : Feat) (ident : Bytes → Bytes) (ns : NS) (f : Fld) (seg : List (Bytes × Bytes))
    (hs : seg.map (·.2) = (methodOps ft ident f).map Op.id)
    (hb : ∀ p ∈ seg, lk p.2 ns.i2n = some p.1) (hne : ∀ p ∈ seg, p.1 ≠ [])
    (a1 : ft.setter = false → lk (dollar (tSet ++ f.name)) ns.i2n = none)
    (a2 : f.isset = false → lk (dollar (tIsset ++ f.name)) ns.i2n = none)
    (a3 : ft.deq = false → lk (dollar (tDeepequal ++ id2str f.id)) ns.i2n = none) :
    fieldMethodNames (fnOf ns f []) = seg.map (·.1) := by
  rw [methodOps_ids] at hs
  obtain ⟨s5, t6, rfl, hs, h6⟩ := List.map_eq_append_iff.1 hs
  obtain ⟨s4, t5, rfl, hs, h5⟩ := List.map_eq_append_iff.1 hs
  obtain ⟨s3, t4, rfl, hs, h4⟩ := List.map_eq_append_iff.1 hs
  obtain ⟨s2, t3, rfl, hs, h3⟩ := List.map_eq_append_iff.1 hs
  obtain ⟨t1, t2, rfl, h1, h2⟩ := List.map_eq_append_iff.1 hs
  rw [fmn_fnOf]
  simp only [List.map_append]
  rw [seg_one h1 (fun p hp => hb p (by simp [hp])),
      seg_opt h2 (fun p hp => hb p (by simp [hp])) (fun p hp => hne p (by simp [hp])) a1,
      seg_opt h3 (fun p hp => hb p (by simp [hp])) (fun p hp => hne p (by simp [hp])) a2,
      seg_one h4 (fun p hp => hb p (by simp [hp])),
      seg_one h5 (fun p hp => hb p (by simp [hp])),
      seg_opt h6 (fun p hp => hb p (by simp [hp])) (fun p hp => hne p (by simp [hp])) a3]

theorem methods_of_trace (ft : Feat) (ident : Bytes → Bytes) (ns : NS) :
    ∀ (fields : List Fld) (tr : List (Bytes × Bytes)),
      tr.map (·.2) = (fields.flatMap (methodOps ft ident)).map Op.id →
      (∀ p ∈ tr, lk p.2 ns.i2n = some p.1) → (∀ p ∈ tr, p.1 ≠ []) →
      (∀ f ∈ fields, ft.setter = false → lk (dollar (tSet ++ f.name)) ns.i2n = none) →
      (∀ f ∈ fields, f.isset = false → lk (dollar (tIsset ++ f.name)) ns.i2n = none) →
      (∀ f ∈ fields, ft.deq = false → lk (dollar (tDeepequal ++ id2str f.id)) ns.i2n = none) →
      fields.flatMap (fun f => fieldMethodNames (fnOf ns f [])) = tr.map (·.1)
  | [], tr, hs, _, _, _, _, _ => by
    simp only [List.flatMap_nil, List.map_nil, List.map_eq_nil_iff] at hs
    subst hs
    rfl
  | f :: r, tr, hs, hb, hne, a1, a2, a3 => by
    simp only [List.flatMap_cons, List.map_append] at hs
    obtain ⟨seg, rest, rfl, h1, h2⟩ := List.map_eq_append_iff.1 hs
    simp only [List.flatMap_cons, List.map_append]
    rw [field_of_seg ft ident ns f seg h1 (fun p hp => hb p (by simp [hp])) (fun p hp => hne p (by simp [hp]))
          (a1 f List.mem_cons_self) (a2 f List.mem_cons_self) (a3 f List.mem_cons_self),
        methods_of_trace ft ident ns r rest h2 (fun p hp => hb p (by simp [hp])) (fun p hp => hne p (by simp [hp]))
          (fun f hf => a1 f (List.mem_cons_of_mem _ hf)) (fun f hf => a2 f (List.mem_cons_of_mem _ hf))
          (fun f hf => a3 f (List.mem_cons_of_mem _ hf))]

/-- the first byte is an upper-case ASCII letter (or below): no internal method id (`$get:…`, `$set:…`, …) is one -/
def up : Bytes → Bool
  | c :: _ => decide (c ≤ 90)
  | [] => false

theorem up_append {A B : List Bytes} (hA : A.all up = true) (hB : B.all up = true) : (A ++ B).all up = true := by
  simp [List.all_append, hA, hB]

theorem up_ite {c : Prop} [Decidable c] {A B : List Bytes} (hA : A.all up = true) (hB : B.all up = true) :
    (if c then A else B).all up = true := by
  split <;> assumption

/-- every reserved method name starts with an upper-case letter (whatever the feature set) -/
theorem reservedFuncs_up (ft : Feat) (cat : Cat) (raw goName : Bytes) : (reservedFuncs ft cat raw goName).all up = true := by
  unfold reservedFuncs
  repeat' (first | apply up_append | apply up_ite)
  all_goals (first | rfl | simp [up, sCountSetFields])

theorem not_reserved_of_lower {ft : Feat} {cat : Cat} {raw goName : Bytes} {c : Nat} {r : Bytes} (hc : 90 < c) :
    c :: r ∉ reservedFuncs ft cat raw goName := by
  intro hm
  have := List.all_eq_true.1 (reservedFuncs_up ft cat raw goName) _ hm
  simp only [up, decide_eq_true_eq] at this
  omega

theorem mem_methodOps_name {ft : Feat} {ident : Bytes → Bytes} {f : Fld} {op : Op} (h : op ∈ methodOps ft ident f) :
    op.name ≠ [] := by
  unfold methodOps at h
  simp only [List.mem_append, List.mem_cons, List.not_mem_nil, or_false] at h
  rcases h with ((((h | h) | h) | h) | h)
  · subst h; simp [Op.name, sGet]
  · split at h
    · simp only [List.mem_cons, List.not_mem_nil, or_false] at h; subst h; simp [Op.name, sSet]
    · cases h
  · split at h
    · simp only [List.mem_cons, List.not_mem_nil, or_false] at h; subst h; simp [Op.name, sIsSet]
    · cases h
  · rcases h with h | h
    · subst h; simp [Op.name, sReadField]
    · subst h; simp [Op.name, sWriteField]
  · split at h
    · simp only [List.mem_cons, List.not_mem_nil, or_false] at h; subst h; simp [Op.name, sField]
    · cases h

theorem underscore_ne_nil {n : Bytes} (h : n ≠ []) (k : Nat) : underscore n k ≠ [] := by
  simp [underscore, h]

/-- an id `$set:x` is not used when gen_setter is off -/
theorem setId_absent (ft : Feat) (ident : Bytes → Bytes) (raw goName : Bytes) (cat : Cat) (fields : List Fld) (x : Bytes)
    (h : ft.setter = false) :
    dollar (tSet ++ x) ∉ (reservedFuncs ft cat raw goName).map dollar ++ (fields.flatMap (methodOps ft ident)).map Op.id := by
  intro hm
  rcases List.mem_append.1 hm with hm | hm
  · obtain ⟨n, hn', e⟩ := List.mem_map.1 hm
    simp only [dollar, List.cons.injEq, true_and] at e
    subst e
    exact not_reserved_of_lower (by decide) hn'
  · rw [List.map_flatMap] at hm
    obtain ⟨f', _, hi⟩ := List.mem_flatMap.1 hm
    rw [methodOps_ids] at hi
    simp [h, dollar, tSet, tGet, tIsset, tRead, tWrite, tDeepequal] at hi

theorem deqId_absent (ft : Feat) (ident : Bytes → Bytes) (raw goName : Bytes) (cat : Cat) (fields : List Fld) (x : Bytes)
    (h : ft.deq = false) :
    dollar (tDeepequal ++ x) ∉ (reservedFuncs ft cat raw goName).map dollar ++ (fields.flatMap (methodOps ft ident)).map Op.id := by
  intro hm
  rcases List.mem_append.1 hm with hm | hm
  · obtain ⟨n, hn', e⟩ := List.mem_map.1 hm
    simp only [dollar, List.cons.injEq, true_and] at e
    subst e
    exact not_reserved_of_lower (by decide) hn'
  · rw [List.map_flatMap] at hm
    obtain ⟨f', _, hi⟩ := List.mem_flatMap.1 hm
    rw [methodOps_ids] at hi
    simp [h, dollar, tSet, tGet, tIsset, tRead, tWrite, tDeepequal] at hi

theorem issetId_absent (ft : Feat) (ident : Bytes → Bytes) (raw goName : Bytes) (cat : Cat) (fields : List Fld) (f : Fld)
    (hf : f ∈ fields) (hn : (fields.map (·.name)).Nodup) (h : f.isset = false) :
    dollar (tIsset ++ f.name) ∉ (reservedFuncs ft cat raw goName).map dollar ++ (fields.flatMap (methodOps ft ident)).map Op.id := by
  intro hm
  rcases List.mem_append.1 hm with hm | hm
  · obtain ⟨n, hn', e⟩ := List.mem_map.1 hm
    simp only [dollar, List.cons.injEq, true_and] at e
    subst e
    exact not_reserved_of_lower (by decide) hn'
  · rw [List.map_flatMap] at hm
    obtain ⟨f', hf', hi⟩ := List.mem_flatMap.1 hm
    rw [methodOps_ids] at hi
    simp [dollar, tSet, tGet, tIsset, tRead, tWrite, tDeepequal] at hi
    obtain ⟨hi1, hi2⟩ := hi
    have := nodup_map_inj (·.name) fields hn f hf f' hf' hi2
    subst this
    rw [h] at hi1
    cases hi1

theorem buildMembers_steps (ft : Feat) (ident : Bytes → Bytes) (raw goName : Bytes) (cat : Cat) (fields : List Fld)
    (ns : NS) (fs : List FieldNames) (h : buildMembers ft ident raw goName cat fields = .ok (ns, fs))
    (hid : (memberIds ft ident raw goName cat fields).Nodup) (hraw : ∀ f ∈ fields, hasDollar f.name = false) :
    Steps NS.empty ns (reservedFuncs ft cat raw goName ++ fs.flatMap fieldMethodNames ++ fs.map (·.name))
      (memberIds ft ident raw goName cat fields) := by
  unfold buildMembers at h
  obtain ⟨ns0, h0, h⟩ := bind_ok h
  obtain ⟨ns1, h1, h⟩ := bind_ok h
  obtain ⟨trR, eR, nR, iR⟩ := reserveAll_steps _ _ _ h0
  obtain ⟨trM, eM, iM, nM⟩ := addAll_spec _ _ _ h1
  obtain ⟨sF, hm⟩ := fieldLoop_spec ft ident fields ns1 ns fs h hraw
  unfold memberIds at hid ⊢
  have hid' := hid
  rw [List.nodup_append] at hid'
  obtain ⟨hRM, hF, _⟩ := hid'
  have eRM := eR.trans eM
  have hb : ∀ p ∈ trM, lk p.2 ns1.i2n = some p.1 := fun p hp =>
    eRM.back (by rw [List.map_append, iR, iM]; exact hRM) p (List.mem_append_right _ hp)
  have hne : ∀ p ∈ trM, p.1 ≠ [] := by
    intro p hp
    obtain ⟨op, ho, k, hk⟩ := nM p hp
    obtain ⟨f, _, hof⟩ := List.mem_flatMap.1 ho
    rw [hk]
    exact underscore_ne_nil (mem_methodOps_name hof) k
  have habs : ∀ i, i ∉ (reservedFuncs ft cat raw goName).map dollar ++ (fields.flatMap (methodOps ft ident)).map Op.id →
      lk i ns1.i2n = none := by
    intro i hi
    rw [eRM.frame i (by rw [List.map_append, iR, iM]; exact hi)]
    rfl
  have hmeth := methods_of_trace ft ident ns1 fields trM iM hb hne
    (fun f _ hs => habs _ (setId_absent ft ident raw goName cat fields f.name hs))
    (fun f hf hs => habs _ (issetId_absent ft ident raw goName cat fields f hf hF hs))
    (fun f _ hs => habs _ (deqId_absent ft ident raw goName cat fields (id2str f.id) hs))
  rw [hm, hmeth]
  exact (Steps.trans ⟨trR ++ trM, eRM, by rw [List.map_append, nR], by rw [List.map_append, iR, iM]⟩ sF)

theorem buildMembers_nodup (ft : Feat) (ident : Bytes → Bytes) (raw goName : Bytes) (cat : Cat) (fields : List Fld)
    (ns : NS) (fs : List FieldNames) (h : buildMembers ft ident raw goName cat fields = .ok (ns, fs))
    (hid : (memberIds ft ident raw goName cat fields).Nodup) (hraw : ∀ f ∈ fields, hasDollar f.name = false) :
    (reservedFuncs ft cat raw goName ++ fs.flatMap fieldMethodNames ++ fs.map (·.name)).Nodup :=
  (buildMembers_steps ft ident raw goName cat fields ns fs h hid hraw).nodup hid

/-! ## function scopes -/

theorem paramOps_ids (ft : Feat) (ident : Bytes → Bytes) (kw : List Bytes) (fs : List Fld) :
    (paramOps ft ident kw fs).map Op.id = fs.map (·.name) := by
  induction fs with
  | nil => rfl
  | cons a r ih =>
    simp only [paramOps, List.map_cons, Op.id, List.cons.injEq, true_and] at ih ⊢
    exact ih

theorem mem_paramOps {ft : Feat} {ident : Bytes → Bytes} {kw : List Bytes} {fs : List Fld} {op : Op}
    (h : op ∈ paramOps ft ident kw fs) : ∃ x, op.name = keywordFix kw x := by
  unfold paramOps at h
  obtain ⟨a, _, e⟩ := List.mem_map.1 h
  subst e
  exact ⟨_, rfl⟩

theorem map_get_of_trace {α : Type} (ns : NS) (g : α → Bytes) : ∀ (l : List α) (tr : List (Bytes × Bytes)),
    tr.map (·.2) = l.map g → (∀ p ∈ tr, lk p.2 ns.i2n = some p.1) →
    l.map (fun a => ns.get (g a)) = tr.map (·.1)
  | [], [], _, _ => rfl
  | [], _ :: _, h, _ => by simp at h
  | _ :: _, [], h, _ => by simp at h
  | a :: l, p :: tr, h, hb => by
    simp only [List.map_cons, List.cons.injEq] at h ⊢
    refine ⟨?_, map_get_of_trace ns g l tr h.2 (fun q hq => hb q (List.mem_cons_of_mem _ hq))⟩
    have := hb p List.mem_cons_self
    rw [h.1] at this
    simp [NS.get, this]

theorem underscore_keywordFix_not_kw (kw : List Bytes) (hkw : ∀ k ∈ kw, 95 ∉ k) (x : Bytes) (k : Nat) :
    underscore (keywordFix kw x) k ∉ kw := by
  intro hm
  have h95 := hkw _ hm
  cases k with
  | zero =>
    rw [underscore_zero] at hm h95
    unfold keywordFix at hm h95
    by_cases hc : kw.contains x = true
    · rw [if_pos hc] at h95
      exact h95 List.mem_cons_self
    · rw [if_neg hc] at hm
      exact hc (List.contains_iff_mem.2 hm)
  | succ k =>
    apply h95
    simp [underscore, List.mem_append, List.mem_replicate]

theorem fnReserved_ids_nodup (ft : Feat) (void : Bool) : ((fnReserved ft void).map dollar).Nodup := by
  unfold fnReserved
  cases void <;> cases ft.fnV2 <;> decide

theorem buildFunction_safe (ft : Feat) (ident : Bytes → Bytes) (kw : List Bytes) (f : Fn) (ns : NS)
    (h : buildFunction ft ident kw f = .ok ns)
    (hargs : ((f.args ++ f.throws).map (·.name)).Nodup)
    (hraw : ∀ a ∈ f.args ++ f.throws, hasDollar a.name = false)
    (hkw : ∀ k ∈ kw, 95 ∉ k) :
    let ps := f.args.map (fun a => ns.get a.name)
    ps.Nodup ∧ (∀ p ∈ ps, p ∉ fnReserved ft f.void) ∧ (∀ p ∈ ps, p ∉ kw) := by
  show (f.args.map (fun a => ns.get a.name)).Nodup ∧ (∀ p ∈ f.args.map (fun a => ns.get a.name), p ∉ fnReserved ft f.void) ∧
    (∀ p ∈ f.args.map (fun a => ns.get a.name), p ∉ kw)
  unfold buildFunction at h
  obtain ⟨ns0, h0, h⟩ := bind_ok h
  obtain ⟨ns1, h1, h⟩ := bind_ok h
  obtain ⟨trR, eR, nR, iR⟩ := reserveAll_steps _ _ _ h0
  obtain ⟨trA, eA, iA, nA⟩ := addAll_spec _ _ _ h1
  obtain ⟨trT, eT, iT, _⟩ := addAll_spec _ _ _ h
  rw [paramOps_ids] at iA iT
  have e := (eR.trans eA).trans eT
  have hids : (((trR ++ trA) ++ trT).map (·.2)).Nodup := by
    rw [List.map_append, List.map_append, iR, iA, iT, List.append_assoc, ← List.map_append, List.nodup_append]
    refine ⟨fnReserved_ids_nodup _ _, hargs, ?_⟩
    intro a ha b hb hab
    obtain ⟨x, _, rfl⟩ := List.mem_map.1 ha
    obtain ⟨y, hy, rfl⟩ := List.mem_map.1 hb
    exact ne_dollar_of_hasDollar (hraw y hy) x hab
  have hnames := e.nodup hids
  rw [List.map_append, List.map_append, nR, List.nodup_append] at hnames
  obtain ⟨hRA, _, _⟩ := hnames
  rw [List.nodup_append] at hRA
  obtain ⟨_, hA, hdis⟩ := hRA
  have hps : f.args.map (fun a => ns.get a.name) = trA.map (·.1) :=
    map_get_of_trace ns (·.name) f.args trA iA
      (fun p hp => e.back hids p (List.mem_append_left _ (List.mem_append_right _ hp)))
  rw [hps]
  refine ⟨hA, fun p hp hr => hdis p hr p hp rfl, ?_⟩
  intro p hp
  obtain ⟨q, hq, rfl⟩ := List.mem_map.1 hp
  obtain ⟨op, ho, k, hk⟩ := nA q hq
  obtain ⟨x, hx⟩ := mem_paramOps ho
  rw [hk, hx]
  exact underscore_keywordFix_not_kw kw hkw x k

/-! ## imports -/

theorem ImportMgr.add_spec {im im' : ImportMgr} {name path res : Bytes} (h : im.add name path = .ok (res, im')) :
    im'.notUsed = im.notUsed ∧ ((im.ns.n2i.map (·.1)).Nodup → (im'.ns.n2i.map (·.1)).Nodup) := by
  unfold ImportMgr.add at h
  obtain ⟨⟨r, ns1⟩, h1, h⟩ := bind_ok h
  have h := pure_ok h
  simp only [Prod.mk.injEq] at h
  obtain ⟨e1, e2⟩ := h
  subst e1; subst e2
  exact ⟨rfl, (Ext.add h1).keys⟩

theorem initLoop_spec : ∀ (std : Table) (im im0 : ImportMgr), initLoop im std = .ok im0 →
    ((im.ns.n2i.map (·.1)).Nodup → (im0.ns.n2i.map (·.1)).Nodup) ∧
    (∀ l, l ∈ im0.notUsed → l ∈ im.notUsed ∨ l ∈ std.map (·.1))
  | [], im, im0, h => by
    simp only [initLoop, Except.ok.injEq] at h
    subst h
    exact ⟨fun h => h, fun l hl => Or.inl hl⟩
  | (pkg, path) :: r, im, im0, h => by
    unfold initLoop at h
    obtain ⟨⟨x, im1⟩, h1, h⟩ := bind_ok h
    obtain ⟨hn, hk⟩ := ImportMgr.add_spec h1
    obtain ⟨ik, il⟩ := initLoop_spec r _ im0 h
    refine ⟨fun h => ik (hk h), ?_⟩
    intro l hl
    rcases il l hl with h' | h'
    · simp only [hn, List.mem_append, List.mem_singleton] at h'
      rcases h' with h' | h'
      · exact Or.inl h'
      · exact Or.inr (by simp [h'])
    · exact Or.inr (by simp only [List.map_cons, List.mem_cons]; exact Or.inr h')

theorem includeLoop_spec : ∀ (incs : List (Bytes × Bytes × Bool)) (im im1 : ImportMgr) (pkgs : List Bytes),
    includeLoop im incs = .ok (im1, pkgs) →
    ((im.ns.n2i.map (·.1)).Nodup → (im1.ns.n2i.map (·.1)).Nodup) ∧ im1.notUsed = im.notUsed
  | [], im, im1, pkgs, h => by
    simp only [includeLoop, Except.ok.injEq, Prod.mk.injEq] at h
    obtain ⟨h1, _⟩ := h
    subst h1
    exact ⟨fun h => h, rfl⟩
  | (pkg, path, same) :: r, im, im1, pkgs, h => by
    unfold includeLoop at h
    dsimp only at h
    split at h
    · obtain ⟨⟨pkg', im'⟩, h1, h⟩ := bind_ok h
      have h1 := pure_ok h1
      simp only [Prod.mk.injEq] at h1
      obtain ⟨_, e2⟩ := h1
      subst e2
      obtain ⟨⟨im2, rest⟩, h2, h⟩ := bind_ok h
      have h := pure_ok h
      simp only [Prod.mk.injEq] at h
      obtain ⟨e1, _⟩ := h
      subst e1
      exact includeLoop_spec r _ _ rest h2
    · obtain ⟨⟨pkg', im'⟩, h1, h⟩ := bind_ok h
      obtain ⟨⟨im2, rest⟩, h2, h⟩ := bind_ok h
      have h := pure_ok h
      simp only [Prod.mk.injEq] at h
      obtain ⟨e1, _⟩ := h
      subst e1
      obtain ⟨ik, il⟩ := includeLoop_spec r im' im2 rest h2
      obtain ⟨hn, hk⟩ := ImportMgr.add_spec h1
      exact ⟨fun h => ik (hk h), il.trans hn⟩

theorem resolve_mem (im1 : ImportMgr) (libs : List Bytes) (path a : Bytes) :
    (path, a) ∈ (im1.useStd libs).resolve ↔
      ∃ alias, (alias, path) ∈ im1.ns.n2i ∧ ¬ (alias ∈ im1.notUsed ∧ alias ∉ libs) ∧
        a = (if alias = path || isSuffix (47 :: alias) path then [] else alias) := by
  unfold ImportMgr.resolve ImportMgr.useStd
  simp only [List.mem_filterMap]
  have hc : ∀ alias : Bytes, (List.filter (fun l => !libs.contains l) im1.notUsed).contains alias = true ↔
      (alias ∈ im1.notUsed ∧ alias ∉ libs) := by
    intro alias
    simp [List.mem_filter]
  constructor
  · rintro ⟨⟨alias, p'⟩, hmem, hf⟩
    dsimp only at hf
    split at hf
    · cases hf
    · rename_i hnc
      rw [hc] at hnc
      split at hf
      · rename_i hcond
        simp only [Option.some.injEq, Prod.mk.injEq] at hf
        obtain ⟨e1, e2⟩ := hf
        subst e1; subst e2
        exact ⟨alias, hmem, hnc, by rw [if_pos hcond]⟩
      · rename_i hcond
        simp only [Option.some.injEq, Prod.mk.injEq] at hf
        obtain ⟨e1, e2⟩ := hf
        subst e1; subst e2
        exact ⟨alias, hmem, hnc, by rw [if_neg hcond]⟩
  · rintro ⟨alias, hmem, hnc, ha⟩
    refine ⟨(alias, path), hmem, ?_⟩
    dsimp only
    rw [← hc] at hnc
    rw [if_neg hnc]
    subst ha
    split <;> rfl

theorem imports_exact (std repl : Table) (incs : List (Bytes × Bytes × Bool)) (libs : List Bytes)
    (im0 im1 : ImportMgr) (pkgs : List Bytes)
    (h0 : ImportMgr.init std repl = .ok im0) (h1 : includeLoop im0 incs = .ok (im1, pkgs)) :
    let im2 := im1.useStd libs
    (∀ path a, (path, a) ∈ im2.resolve ↔
        ∃ alias, (alias, path) ∈ im1.ns.n2i ∧ ¬ (alias ∈ im1.notUsed ∧ alias ∉ libs) ∧
          a = (if alias = path || isSuffix (47 :: alias) path then [] else alias)) ∧
    (im1.ns.n2i.map (·.1)).Nodup ∧
    (∀ l, l ∈ im1.notUsed → l ∈ std.map (·.1)) := by
  unfold ImportMgr.init at h0
  obtain ⟨k0, l0⟩ := initLoop_spec _ _ _ h0
  obtain ⟨k1, l1⟩ := includeLoop_spec _ _ _ _ h1
  refine ⟨fun path a => resolve_mem im1 libs path a, k1 (k0 List.nodup_nil), ?_⟩
  intro l hl
  rw [l1] at hl
  rcases l0 l hl with h | h
  · cases h
  · exact h

/-! ## identifiers minted by the templates -/

theorem nodup_append_of_noClash (A M : List Bytes) (hA : A.Nodup)
    (hm : (M.all (fun n => !A.contains n) && decide M.Nodup) = true) : (A ++ M).Nodup := by
  rw [Bool.and_eq_true, List.all_eq_true] at hm
  obtain ⟨h1, h2⟩ := hm
  rw [List.nodup_append]
  refine ⟨hA, of_decide_eq_true h2, ?_⟩
  intro a ha b hb hab
  subst hab
  have := h1 a hb
  simp only [Bool.not_eq_true', ← Bool.not_eq_true, List.contains_iff_mem] at this
  exact this ha

theorem fileGlobals_nodup (ft : Feat) (kw : List Bytes) (f : File) (ident : Bytes → Bytes)
    (s : ScopeNames) (h : buildScope ft kw f ident = .ok s) (hid : (globalIds ft ident f).Nodup)
    (hm : noMintClash ft s = true) : (fileGlobals ft s).Nodup := by
  have hd := buildScope_nodup ft kw f ident s h hid
  unfold noMintClash at hm
  have hall := nodup_append_of_noClash _ _ hd hm
  unfold fileGlobals
  rw [List.nodup_append] at hall ⊢
  obtain ⟨_, hM, hdis⟩ := hall
  exact ⟨List.Nodup.sublist List.filter_sublist hd, hM, fun a ha b hb => hdis a (List.mem_filter.1 ha).1 b hb⟩

theorem members_complete (ft : Feat) (ident : Bytes → Bytes) (g g' : NS) (v : SL) (nn : Bytes)
    (s : StructNames) (synth : Bool) (h : buildStructLike ft ident g v nn = .ok (g', s))
    (hid : (memberIds ft ident v.name s.goName v.cat v.fields).Nodup)
    (hraw : ∀ f ∈ v.fields, hasDollar f.name = false)
    (hm : noMemberMintClash ft synth s = true) : (managedMembers ft s ++ mintedMembers ft synth s).Nodup := by
  obtain ⟨_, hb, hr, hc⟩ := buildStructLike_spec h
  have hd := buildMembers_nodup ft ident v.name s.goName v.cat v.fields s.scope s.fields hb hid hraw
  unfold noMemberMintClash at hm
  refine nodup_append_of_noClash _ _ ?_ hm
  unfold managedMembers
  rw [hr, hc]
  exact hd

/-! ## the witness against the full statement (copies of `Props.C01.witnessIdent` / `witnessFile`: the lemma file is
    imported by the property file) -/

def witnessIdent (raw : Bytes) : Bytes := if raw = [97, 95, 95, 98] then [65, 95, 66] else raw

def witnessFile : File :=
  { structs := [{ name := [97, 95, 95, 98], cat := .struct, fields := [] }],
    enums := [{ name := [65], values := [[66]] }] }

theorem mint_clash_witness_proof :
    ∃ s, buildScope {} [] witnessFile witnessIdent = .ok s ∧ noMintClash {} s = false ∧
      ¬ (fileGlobals {} s).Nodup := by
  refine ⟨_, rfl, ?_, ?_⟩
  · decide
  · decide

end Names
