import ThriftVerif.Lib.ResolveLemmas.Basic
import ThriftVerif.Lib.ResolveLemmas.Loop
import ThriftVerif.Lib.ResolveLemmas.Struct
import ThriftVerif.Lib.ResolveLemmas.Trace
import ThriftVerif.Lib.ResolveLemmas.TraceFacts
import ThriftVerif.Lib.ResolveLemmas.Events
import ThriftVerif.Lib.ResolveLemmas.SlotsNodup
import ThriftVerif.Lib.ResolveLemmas.Good
import ThriftVerif.Lib.ResolveLemmas.NodeFacts
import ThriftVerif.Lib.ResolveLemmas.GoodFile
import ThriftVerif.Lib.ResolveLemmas.Prog
import ThriftVerif.Lib.ResolveLemmas.Unique
import ThriftVerif.Lib.ResolveLemmas.Const
import ThriftVerif.Lib.ResolveLemmas.Used
import ThriftVerif.Lib.ResolveLemmas.Deref
/-! Helper lemmas of C05 (model `Lib/Resolve.lean`, specification `Lib/ResolveSpec.lean`). -/
