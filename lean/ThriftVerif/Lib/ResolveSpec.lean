import ThriftVerif.Lib.Resolve
/-
  ResolveSpec — what the IDL *means*, written independently of the resolver's control flow:
  declarative relations over the program text.  No work list, no store, no fuel, no order:
  every premise is a membership (`td ∈ f.typedefs`) or a lookup in the include list, so the
  relations are invariant under permutation of the definitions by construction.

  Shared with the model: only the reading of names (`splitLastDot`, `splitType`, `idlPrefix`),
  which is tied to split.go by the correspondence ops P/Y/Z.
-/
namespace Sem

/-- The base types of the IDL and their categories (Thrift specification; `i8` = `byte`). -/
def specBaseTable : List (Bytes × Cat) :=
  [ ([98, 111, 111, 108], .bool), ([98, 121, 116, 101], .byte), ([105, 56], .byte),
    ([105, 49, 54], .i16), ([105, 51, 50], .i32), ([105, 54, 52], .i64),
    ([100, 111, 117, 98, 108, 101], .double), ([115, 116, 114, 105, 110, 103], .string),
    ([98, 105, 110, 97, 114, 121], .binary) ]

def specBase (n : Bytes) : Option Cat := lookupB n specBaseTable

/-- Categories a type name may denote. -/
def Cat.isConcrete (c : Cat) : Bool :=
  c = .enum || c = .struct || c = .union || c = .exception

def Cat.isTypeLikeSpec (c : Cat) : Bool := c.isConcrete || c = .typedef

/-- File `f` declares the global name `n` with category `c`. -/
inductive Declares (f : File) : Bytes → Cat → Prop
  | typedef {td} : td ∈ f.typedefs → Declares f td.alias .typedef
  | constant {c} : c ∈ f.constants → Declares f c.name .constant
  | enum {e} : e ∈ f.enums → Declares f e.name .enum
  | structLike {s} : s ∈ f.structLikes → Declares f s.name s.kind.cat
  | service {s} : s ∈ f.services → Declares f s.name .service

/-- All global names of a file (with repetitions). -/
def File.names (f : File) : List Bytes := f.declared.map Prod.fst

/-- Include `k` of `f` (which is file `j`) is the first include whose IDL prefix is `a` and whose
file declares `b` with a category accepted by `okc`; `c` is that category.  This is the reading of
a qualified name `a.b` fixed for thriftgo (DESIGN.md §7, "first include whose prefix matches and
defines the name"). -/
def FirstInc (p : Program) (f : File) (okc : Cat → Bool) (a b : Bytes) (k j : Nat) (c : Cat) : Prop :=
  ∃ inc g, f.includes[k]? = some inc ∧ inc.target = j ∧ idlPrefix inc.path = a ∧
    p[j]? = some g ∧ Declares g b c ∧ okc c = true ∧
    ∀ k' inc' g' c', k' < k → f.includes[k']? = some inc' → idlPrefix inc'.path = a →
      p[inc'.target]? = some g' → Declares g' b c' → okc c' = false

/-- What a denotation ends in: the file, `Type.Name` and category of the definition or of the
base/container type expression a typedef chain stops at. -/
structure Target where
  file : Nat
  name : Bytes
  cat : Cat
  deriving DecidableEq, Repr

inductive NameOrType
  | nm (n : Bytes)        -- a global name of the file
  | ty (t : TypeExpr)     -- a type expression written in the file

/-- `Den p j x t`: in file `j`, the name / type expression `x` ultimately denotes `t`
(typedef chains followed to the end, across includes). -/
inductive Den (p : Program) : Nat → NameOrType → Target → Prop
  | concrete {j f b c} : p[j]? = some f → Declares f b c → c.isConcrete = true →
      Den p j (.nm b) ⟨j, b, c⟩
  | typedef {j f td t} : p[j]? = some f → td ∈ f.typedefs → Den p j (.ty td.type) t →
      Den p j (.nm td.alias) t
  | base {j n c} : specBase n = some c → Den p j (.ty (.name n)) ⟨j, n, c⟩
  | list {j v} : Den p j (.ty (.list v)) ⟨j, kwList, .list⟩
  | set {j v} : Den p j (.ty (.set v)) ⟨j, kwSet, .set⟩
  | map {j k v} : Den p j (.ty (.map k v)) ⟨j, kwMap, .map⟩
  | loc {j n t} : specBase n = none → splitLastDot n = none → Den p j (.nm n) t →
      Den p j (.ty (.name n)) t
  | qual {j f n a b k j' c t} : specBase n = none → splitLastDot n = some (a, b) → p[j]? = some f →
      FirstInc p f Cat.isTypeLikeSpec a b k j' c → Den p j' (.nm b) t →
      Den p j (.ty (.name n)) t

/-- The written name of a type node names a typedef. -/
def NamesTypedef (p : Program) (i : Nat) (te : TypeExpr) : Prop :=
  ∃ n f, te = .name n ∧ specBase n = none ∧ p[i]? = some f ∧
    ((splitLastDot n = none ∧ Declares f n .typedef) ∨
     (∃ a b k j, splitLastDot n = some (a, b) ∧ FirstInc p f Cat.isTypeLikeSpec a b k j .typedef))

/-- The written name of a type node is qualified and reaches include `k`, name `b`. -/
def QualRef (p : Program) (i : Nat) (te : TypeExpr) (k : Nat) (b : Bytes) : Prop :=
  ∃ n f a j c, te = .name n ∧ specBase n = none ∧ p[i]? = some f ∧ splitLastDot n = some (a, b) ∧
    FirstInc p f Cat.isTypeLikeSpec a b k j c

/-- `EnumDen p j b (ej, en) idx`: used as `b.VALUE` in file `j`, the name `b` stands for enum `en` of
file `ej` (directly or through typedefs); `idx` is -1 when the chain stays in file `j` up to a local
enum, else the include index of the first qualified typedef of the chain in file `j`. -/
inductive EnumDen (p : Program) : Nat → Bytes → Nat × Bytes → Int → Prop
  | enum {j f b} : p[j]? = some f → Declares f b .enum → EnumDen p j b (j, b) (-1)
  | tdLoc {j f td n e idx} : p[j]? = some f → td ∈ f.typedefs → td.type = .name n →
      specBase n = none → isContainerName n = false → splitLastDot n = none → EnumDen p j n e idx →
      EnumDen p j td.alias e idx
  | tdQual {j f td n a b} {k : Nat} {j' c e idx} : p[j]? = some f → td ∈ f.typedefs → td.type = .name n →
      specBase n = none → splitLastDot n = some (a, b) →
      FirstInc p f Cat.isTypeLikeSpec a b k j' c → EnumDen p j' b e idx →
      EnumDen p j td.alias e (k : Int)

/-- `v` is a value of enum `en` of file `ej`. -/
def EnumHasValue (p : Program) (e : Nat × Bytes) (v : Bytes) : Prop :=
  ∃ g en, p[e.1]? = some g ∧ en ∈ g.enums ∧ en.name = e.2 ∧ v ∈ en.values.map (·.name)

/-- What the identifier `id`, used as a constant value in file `i`, can name, with the binding
(`ConstValueExtra`) each reading gives. -/
inductive ConstCand (p : Program) (i : Nat) (id : Bytes) : Extra → Prop
  | localConst {f} : p[i]? = some f → id ≠ [] → splitLastDot id = none → Declares f id .constant →
      ConstCand p i id ⟨false, -1, id, []⟩
  | enumValue {a v e idx} : splitLastDot id = some (a, v) → EnumDen p i a e idx → EnumHasValue p e v →
      ConstCand p i id ⟨true, idx, v, a⟩
  | incConst {f a v} {k : Nat} {inc : Include} {g} : p[i]? = some f → splitLastDot id = some (a, v) →
      f.includes[k]? = some inc → idlPrefix inc.path = a → p[inc.target]? = some g →
      Declares g v .constant → ConstCand p i id ⟨false, (k : Int), v, a⟩
  | incEnumValue {f ae v a en} {k : Nat} {inc : Include} {e idx} : p[i]? = some f → splitLastDot id = some (ae, v) →
      splitLastDot ae = some (a, en) → f.includes[k]? = some inc → idlPrefix inc.path = a →
      EnumDen p inc.target en e idx → EnumHasValue p e v →
      ConstCand p i id ⟨true, (k : Int), v, en⟩

/-- The type expression written at a slot of file `f`. -/
inductive SlotType (f : File) : Slot → TypeExpr → Prop
  | typedef {td} : td ∈ f.typedefs → SlotType f (.typedef td.alias) td.type
  | const {c} : c ∈ f.constants → SlotType f (.const c.name) c.type
  | field {s k fl} : s ∈ f.structLikes → s.fields[k]? = some fl → SlotType f (.field s.name k) fl.type
  | ret {s k fn te} : s ∈ f.services → s.functions[k]? = some fn → fn.ret = some te →
      SlotType f (.ret s.name k) te
  | arg {s k fn a fl} : s ∈ f.services → s.functions[k]? = some fn → fn.args[a]? = some fl →
      SlotType f (.arg s.name k a) fl.type
  | throw {s k fn a fl} : s ∈ f.services → s.functions[k]? = some fn → fn.throws[a]? = some fl →
      SlotType f (.throw s.name k a) fl.type

/-- A constant value written in file `f` and where its bindings are stored. -/
inductive SlotConst (f : File) : Slot → ConstVal → Prop
  | const {c} : c ∈ f.constants → SlotConst f (.const c.name) c.value
  | field {s k fl d} : s ∈ f.structLikes → s.fields[k]? = some fl → fl.dflt = some d →
      SlotConst f (.field s.name k) d
  | arg {s k fn a fl d} : s ∈ f.services → s.functions[k]? = some fn → fn.args[a]? = some fl →
      fl.dflt = some d → SlotConst f (.arg s.name k a) d
  | throw {s k fn a fl d} : s ∈ f.services → s.functions[k]? = some fn → fn.throws[a]? = some fl →
      fl.dflt = some d → SlotConst f (.throw s.name k a) d

/-- The resolved nodes stored at a slot of a resolved file. -/
def RFile.nodesAt (rf : RFile) (s : Slot) : Option (List RNode) := lookupSlot s rf.types

/-- The bindings stored for the constant value at a slot. -/
def RFile.bindsAt (rf : RFile) (s : Slot) : Option (List (Option Extra)) := lookupSlot s rf.binds

/-- `Service.Reference` of service `s`. -/
def RFile.svcRef (rf : RFile) (s : Bytes) : Option (Option Ref) := lookupB s rf.svcRefs

/-- Something in the file is bound through include `k`: a type node with Reference index `k`, an
identifier value whose Extra has Index `k`, or a service whose base service Reference has index `k`. -/
def RefersTo (f : File) (rf : RFile) (k : Nat) : Prop :=
  (∃ (s : Slot) (te : TypeExpr) (ns : List RNode) (j : Nat) (nd : RNode) (b : Bytes), SlotType f s te ∧ rf.nodesAt s = some ns ∧ ns[j]? = some nd ∧ nd.ref = some ⟨k, b⟩) ∨
  (∃ s cv bs x, SlotConst f s cv ∧ rf.bindsAt s = some bs ∧ some x ∈ bs ∧ x.index = (k : Int)) ∨
  (∃ sv b, sv ∈ f.services ∧ rf.svcRef sv.name = some (some ⟨k, b⟩))

end Sem
