import ThriftVerif.Gen.StdLemmas
/- helper lemmas about Gen.Std used by Props/C11: the writer is total on well-typed objects of a schema
   without unions-with-check and without set validation (what the fast codec of k-AST.go is). -/
namespace Plugin.Codec
open Wire Gen Gen.Std

/-- no struct-like of the schema is written with the union check -/
def noUnionB (P : Prog) : Bool := P.structs.all fun sd => sd.kind != 1

def NoUnion (P : Prog) : Prop := ∀ (i : Nat) (sd : StructDef), P.structs[i]? = some sd → (sd.kind == 1) = false

theorem noUnionB_sound (P : Prog) (h : noUnionB P = true) : NoUnion P := by
  intro i sd hsd
  simp only [noUnionB, List.all_eq_true] at h
  have := h sd (List.mem_of_getElem? hsd)
  simpa using this

mutual
theorem toW_total (P : Prog) (hk : NoUnion P)
    (hv : P.validateSet = false) (v : GoVal) : ∀ (ty : Ty), WT P.structs ty v → ∃ w, toW P ty v = .ok w := by
  intro ty hwt
  cases v with
  | nil =>
    cases ty <;> simp only [WT] at hwt <;> simp [toW, scalarW, Res.ofOption]
  | bool b =>
    cases ty <;> simp only [WT] at hwt <;> simp [toW, scalarW, Res.ofOption]
  | int x =>
    cases ty <;> simp only [WT] at hwt <;> simp [toW, scalarW, Res.ofOption]
  | dbl x =>
    cases ty <;> simp only [WT] at hwt <;> simp [toW, scalarW, Res.ofOption]
  | bytes x =>
    cases ty <;> simp only [WT] at hwt <;> simp [toW, scalarW, Res.ofOption]
  | list xs =>
    cases ty <;> simp only [WT] at hwt
    · rename_i e
      obtain ⟨ws, hws⟩ := toWList_total P hk hv xs e hwt.2
      exact ⟨.list e.ttype ws, by simp [toW, hws, bind]⟩
    · rename_i e
      obtain ⟨ws, hws⟩ := toWList_total P hk hv xs e hwt.2
      exact ⟨.set e.ttype ws, by simp [toW, hv, hws, bind]⟩
  | map kvs =>
    cases ty <;> simp only [WT] at hwt
    rename_i k vt
    obtain ⟨ws, hws⟩ := toWPairs_total P hk hv kvs k vt hwt.2.1
    exact ⟨.map k.ttype vt.ttype ws, by simp [toW, hws, bind]⟩
  | strct fs =>
    cases ty <;> simp only [WT] at hwt
    rename_i i
    obtain ⟨sd, hsd, hf⟩ := hwt
    obtain ⟨ws, hws⟩ := toWFields_total P hk hv fs sd.fields hf
    have hk1 : ¬ sd.kind = 1 := by have := hk i sd hsd; simpa using this
    exact ⟨.struct ws, by simp [toW, Prog.struct?, hsd, hk1, hws, bind]⟩

theorem toWList_total (P : Prog) (hk : NoUnion P)
    (hv : P.validateSet = false) (xs : List GoVal) : ∀ (e : Ty), WTList P.structs e xs → ∃ ws, toWList P e xs = .ok ws := by
  intro e hwt
  cases xs with
  | nil => exact ⟨[], by simp [toWList]⟩
  | cons x r =>
    simp only [WTList] at hwt
    obtain ⟨w, hw⟩ := toW_total P hk hv x e hwt.1
    obtain ⟨ws, hws⟩ := toWList_total P hk hv r e hwt.2
    exact ⟨w :: ws, by simp [toWList, hw, hws, bind]⟩

theorem toWPairs_total (P : Prog) (hk : NoUnion P)
    (hv : P.validateSet = false) (kvs : List (GoVal × GoVal)) : ∀ (k v : Ty), WTPairs P.structs k v kvs →
    ∃ ws, toWPairs P k v kvs = .ok ws := by
  intro k v hwt
  cases kvs with
  | nil => exact ⟨[], by simp [toWPairs]⟩
  | cons x r =>
    obtain ⟨a, b⟩ := x
    simp only [WTPairs] at hwt
    obtain ⟨wa, hwa⟩ := toW_total P hk hv a k hwt.1
    obtain ⟨wb, hwb⟩ := toW_total P hk hv b v hwt.2.1
    obtain ⟨ws, hws⟩ := toWPairs_total P hk hv r k v hwt.2.2
    exact ⟨(wa, wb) :: ws, by simp [toWPairs, hwa, hwb, hws, bind]⟩

theorem toWFields_total (P : Prog) (hk : NoUnion P)
    (hv : P.validateSet = false) (vs : List GoVal) : ∀ (defs : List FieldDef), WTFields P.structs defs vs →
    ∃ ws, toWFields P defs vs = .ok ws := by
  intro defs hwt
  cases vs with
  | nil =>
    cases defs with
    | nil => exact ⟨[], by simp [toWFields]⟩
    | cons f fs => simp [WTFields] at hwt
  | cons v vs' =>
    cases defs with
    | nil => simp [WTFields] at hwt
    | cons f fs =>
      simp only [WTFields] at hwt
      obtain ⟨hopt, hreq, _, hrest⟩ := hwt
      obtain ⟨ws, hws⟩ := toWFields_total P hk hv vs' fs hrest
      by_cases hc : (f.req = .optional && !isSet f v) = true
      · exact ⟨ws, by simp only [toWFields, hc, if_true]; exact hws⟩
      · have hwtv : WT P.structs f.ty v := by
          by_cases ho : f.req = .optional
          · rcases hopt ho with hn | hw
            · simp [ho, hn.2] at hc
            · exact hw
          · exact hreq ho
        obtain ⟨w, hw⟩ := toW_total P hk hv v f.ty hwtv
        exact ⟨(pat 16 f.id, w) :: ws, by simp only [toWFields, hc]; simp [hw, hws, bind]⟩
end

end Plugin.Codec
