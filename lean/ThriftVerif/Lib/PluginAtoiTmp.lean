import ThriftVerif.Core.VL
namespace PluginTmp

def isDigit (c : Nat) : Bool := 48 ≤ c && c ≤ 57
def maxInt64 : Nat := 9223372036854775807
def maxUint64 : Nat := 18446744073709551615

/-- outcome of `strconv.ParseUint(s, 10, 64)` -/
inductive PU where
  | ok (v : Nat)
  | syntax        -- a byte that is not a decimal digit
  | range         -- the value does not fit 64 bits (detected before any later bad byte is looked at)
  deriving Repr, DecidableEq

/-- the digit loop of `strconv.ParseUint`: `if n >= cutoff → range; n *= 10; n1 := n + d; if n1 < n || n1 > maxVal → range` -/
def parseUint : Bytes → Nat → PU
  | [], n => .ok n
  | c :: r, n =>
    if !isDigit c then .syntax
    else if n ≥ maxUint64 / 10 + 1 then .range
    else if n * 10 + (c - 48) > maxUint64 then .range
    else parseUint r (n * 10 + (c - 48))

def signSplit : Bytes → Bool × Bytes
  | 43 :: r => (false, r)
  | 45 :: r => (true, r)
  | s => (false, s)

def atoi (s : Bytes) : Int :=
  let neg := (signSplit s).1
  let ds := (signSplit s).2
  if ds.isEmpty then 0 else
  match parseUint ds 0 with
  | .syntax => 0
  | .range => if neg then -((maxInt64 + 1 : Nat) : Int) else (maxInt64 : Int)
  | .ok v =>
    if neg then (if v > maxInt64 + 1 then -((maxInt64 + 1 : Nat) : Int) else -(v : Int))
    else (if v > maxInt64 then (maxInt64 : Int) else (v : Int))

def digitsFold (d : Bytes) (acc : Nat) : Nat := d.foldl (fun a c => a * 10 + (c - 48)) acc

theorem digitsFold_ge (d : Bytes) (acc : Nat) : acc ≤ digitsFold d acc := by
  induction d generalizing acc with
  | nil => simp [digitsFold]
  | cons c r ih =>
    have := ih (acc * 10 + (c - 48))
    simp only [digitsFold, List.foldl_cons] at this ⊢
    omega

theorem parseUint_digits (d : Bytes) (n : Nat) (h : ∀ c, c ∈ d → isDigit c = true) :
    (parseUint d n = .ok (digitsFold d n) ∧ digitsFold d n ≤ maxUint64) ∨
    (parseUint d n = .range ∧ digitsFold d n > maxUint64) ∨ (d = [] ∧ parseUint d n = .ok n) := by
  induction d generalizing n with
  | nil => exact Or.inr (Or.inr ⟨rfl, rfl⟩)
  | cons c r ih =>
    have hc := h c (List.mem_cons_self ..)
    have hr : ∀ x, x ∈ r → isDigit x = true := fun x hx => h x (List.mem_cons_of_mem _ hx)
    simp only [parseUint, hc, Bool.not_true, Bool.false_eq_true, if_false]
    have hge := digitsFold_ge r (n * 10 + (c - 48))
    have hfold : digitsFold (c :: r) n = digitsFold r (n * 10 + (c - 48)) := by simp [digitsFold]
    by_cases h1 : n ≥ maxUint64 / 10 + 1
    · simp only [h1, if_true]
      refine Or.inr (Or.inl ⟨trivial, ?_⟩)
      rw [hfold]; simp only [maxUint64] at h1 ⊢; omega
    · simp only [h1, if_false]
      by_cases h2 : n * 10 + (c - 48) > maxUint64
      · simp only [h2, if_true]
        exact Or.inr (Or.inl ⟨trivial, by rw [hfold]; omega⟩)
      · simp only [h2, if_false]
        rcases ih (n * 10 + (c - 48)) hr with ⟨a, b⟩ | ⟨a, b⟩ | ⟨a, b⟩
        · exact Or.inl ⟨by rw [a, hfold], by rw [hfold]; exact b⟩
        · exact Or.inr (Or.inl ⟨a, by rw [hfold]; exact b⟩)
        · subst a
          refine Or.inl ⟨by rw [b, hfold]; simp [digitsFold], ?_⟩
          rw [hfold]; simp only [digitsFold, List.foldl_nil]; omega

def IsDigits (d : Bytes) : Prop := d ≠ [] ∧ ∀ c, c ∈ d → isDigit c = true
def digitsNat (d : Bytes) : Nat := d.foldl (fun a c => a * 10 + (c - 48)) 0

theorem atoi_digits (d : Bytes) (h : IsDigits d) :
    atoi d = if digitsNat d > maxInt64 then (maxInt64 : Int) else (digitsNat d : Int) := by
  obtain ⟨hne, hd⟩ := h
  cases d with
  | nil => exact absurd rfl hne
  | cons c r =>
    have hc := hd c (List.mem_cons_self ..)
    simp only [isDigit, Bool.and_eq_true, decide_eq_true_eq] at hc
    have h43 : c ≠ 43 := by omega
    have h45 : c ≠ 45 := by omega
    have hs : signSplit (c :: r) = (false, c :: r) := by
      unfold signSplit
      split
      · rename_i heq; simp at heq; exact absurd heq.1 h43
      · rename_i heq; simp at heq; exact absurd heq.1 h45
      · rfl
    have hfold : digitsFold (c :: r) 0 = digitsNat (c :: r) := rfl
    simp only [atoi, hs, List.isEmpty_cons, Bool.false_eq_true, if_false]
    rcases parseUint_digits (c :: r) 0 hd with ⟨a, b⟩ | ⟨a, b⟩ | ⟨a, _⟩
    · rw [a, hfold]
    · rw [a]
      rw [hfold] at b
      have : digitsNat (c :: r) > maxInt64 := by simp only [maxUint64, maxInt64] at b ⊢; omega
      simp [this]
    · cases a

end PluginTmp
