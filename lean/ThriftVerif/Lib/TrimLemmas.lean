import ThriftVerif.Lib.Trim
/-! Helper lemmas for the C16 theorems (Props/C16.lean). -/
namespace Trim

/-! ### TyRef / Edge are the relational reading of tyTargets / succs -/

theorem tyRef_of_mem (p : Program) (f : Nat) : ∀ (ty : Ty) (n : Node), n ∈ tyTargets p f ty → TyRef p f ty n := by
  intro ty
  induction ty with
  | named h =>
    intro n hn
    unfold tyTargets at hn
    by_cases hp : h.plain = true
    · simp [hp] at hn
    · simp [hp] at hn
      exact TyRef.self (ty := .named h) (by simpa [Ty.hdr] using hp) (by simpa [Ty.hdr] using hn)
  | unary h v ih =>
    intro n hn
    unfold tyTargets at hn
    by_cases hp : h.plain = true
    · simp [hp] at hn
    · simp [hp] at hn
      have hp' : h.plain = false := by simpa using hp
      rcases hn with hn | hn
      · exact TyRef.val1 hp' (ih n hn)
      · exact TyRef.self (ty := .unary h v) (by simpa [Ty.hdr] using hp') (by simpa [Ty.hdr] using hn)
  | binary h k v ihk ihv =>
    intro n hn
    unfold tyTargets at hn
    by_cases hp : h.plain = true
    · simp [hp] at hn
    · simp [hp] at hn
      have hp' : h.plain = false := by simpa using hp
      rcases hn with hn | hn | hn
      · exact TyRef.key hp' (ihk n hn)
      · exact TyRef.val2 hp' (ihv n hn)
      · exact TyRef.self (ty := .binary h k v) (by simpa [Ty.hdr] using hp') (by simpa [Ty.hdr] using hn)

theorem mem_of_tyRef (p : Program) (f : Nat) {ty : Ty} {n : Node} (h : TyRef p f ty n) : n ∈ tyTargets p f ty := by
  induction h with
  | @self ty n hp hn =>
    cases ty <;> simp [tyTargets, Ty.hdr] at * <;> simp [hp, hn]
  | val1 hp _ ih => simp [tyTargets, hp, ih]
  | key hp _ ih => simp [tyTargets, hp, ih]
  | val2 hp _ ih => simp [tyTargets, hp, ih]

theorem tyRef_iff (p : Program) (f : Nat) (ty : Ty) (n : Node) : TyRef p f ty n ↔ n ∈ tyTargets p f ty :=
  ⟨mem_of_tyRef p f, tyRef_of_mem p f ty n⟩

theorem edge_iff (p : Program) (m x : Node) : Edge p m x ↔ x ∈ succs p m := by
  constructor
  · intro h
    cases h with
    | field hs hfd ht =>
      simp only [succs, hs, List.mem_flatMap]
      exact ⟨_, hfd, mem_of_tyRef p _ ht⟩
    | typedef ht hr =>
      simp only [succs, ht]
      exact mem_of_tyRef p _ hr
  · intro h
    cases m with
    | sl f k n =>
      simp only [succs] at h
      cases hs : findSL p f k n with
      | none => simp [hs] at h
      | some s =>
        simp only [hs, List.mem_flatMap] at h
        obtain ⟨fd, hfd, hx⟩ := h
        exact Edge.field hs hfd (tyRef_of_mem p f _ _ hx)
    | td f a =>
      simp only [succs] at h
      cases ht : findTd p f a with
      | none => simp [ht] at h
      | some t =>
        simp only [ht] at h
        exact Edge.typedef ht (tyRef_of_mem p f _ _ h)
    | inc f i => simp [succs] at h
    | enum f n => simp [succs] at h
    | svc f n => simp [succs] at h
    | fn f s n => simp [succs] at h

/-! ### every target is a node of the program -/

theorem file_of_ge (p : Program) {f : Nat} (h : p.files.length ≤ f) : p.file f = emptyFile := by
  simp [Program.file, List.getD, List.getElem?_eq_none h]

theorem fileNodes_sub (p : Program) {f : Nat} {n : Node} (h : n ∈ fileNodes f (p.file f)) : n ∈ allNodes p := by
  by_cases hf : f < p.files.length
  · simp only [allNodes, List.mem_flatMap, List.mem_range]
    exact ⟨f, hf, h⟩
  · rw [file_of_ge p (Nat.le_of_not_lt hf)] at h
    simp [fileNodes, emptyFile] at h

theorem declTargets_sub (p : Program) (base : Nat) (h : TyHdr) {n : Node} (hn : n ∈ declTargets p base h) : n ∈ allNodes p := by
  apply fileNodes_sub p (f := base)
  unfold declTargets at hn
  split at hn
  · split at hn
    · rename_i t ht
      simp only [List.mem_singleton] at hn
      subst hn
      have := List.mem_of_find?_eq_some ht
      simp only [fileNodes, List.mem_append, List.mem_map]
      exact Or.inr ⟨t, this, rfl⟩
    · simp at hn
  · split at hn
    · split at hn
      · rename_i s hs
        simp only [List.mem_singleton] at hn
        subst hn
        have := List.mem_of_find?_eq_some hs
        simp only [fileNodes, List.mem_append, List.mem_map]
        exact Or.inl (Or.inl (Or.inl (Or.inl (Or.inr ⟨s, this, rfl⟩))))
      · simp at hn
    · split at hn
      · split at hn
        · rename_i s hs
          simp only [List.mem_singleton] at hn
          subst hn
          have := List.mem_of_find?_eq_some hs
          simp only [fileNodes, List.mem_append, List.mem_map]
          exact Or.inl (Or.inl (Or.inr ⟨s, this, rfl⟩))
        · simp at hn
      · split at hn
        · split at hn
          · rename_i s hs
            simp only [List.mem_singleton] at hn
            subst hn
            have := List.mem_of_find?_eq_some hs
            simp only [fileNodes, List.mem_append, List.mem_map]
            exact Or.inl (Or.inl (Or.inl (Or.inr ⟨s, this, rfl⟩)))
          · simp at hn
        · split at hn
          · split at hn
            · rename_i e he
              simp only [List.mem_singleton] at hn
              subst hn
              have := List.mem_of_find?_eq_some he
              simp only [fileNodes, List.mem_append, List.mem_map]
              exact Or.inl (Or.inr ⟨e, this, rfl⟩)
            · simp at hn
          · simp at hn

theorem incTarget_lt (p : Program) {f i g : Nat} (h : p.incTarget f i = some g) : i < (p.file f).includes.length := by
  unfold Program.incTarget at h
  cases hi : (p.file f).includes[i]? with
  | none => simp [hi] at h
  | some x =>
    exact (List.getElem?_eq_some_iff.mp hi).1

theorem selfTargets_sub (p : Program) (f : Nat) (h : TyHdr) {n : Node} (hn : n ∈ selfTargets p f h) : n ∈ allNodes p := by
  unfold selfTargets at hn
  cases hr : h.ref with
  | none =>
    simp only [hr] at hn
    exact declTargets_sub p f h hn
  | some r =>
    obtain ⟨rn, i⟩ := r
    simp only [hr] at hn
    cases hg : p.incTarget f i with
    | none => simp [hg] at hn
    | some g =>
      simp only [hg, List.mem_cons] at hn
      rcases hn with hn | hn
      · subst hn
        apply fileNodes_sub p (f := f)
        simp only [fileNodes, List.mem_append, List.mem_map, List.mem_range]
        exact Or.inl (Or.inl (Or.inl (Or.inl (Or.inl ⟨i, incTarget_lt p hg, rfl⟩))))
      · exact declTargets_sub p _ h hn

theorem tyTargets_sub (p : Program) (f : Nat) : ∀ (ty : Ty) {n : Node}, n ∈ tyTargets p f ty → n ∈ allNodes p := by
  intro ty
  induction ty with
  | named h =>
    intro n hn
    unfold tyTargets at hn
    split at hn
    · simp at hn
    · exact selfTargets_sub p f h hn
  | unary h v ih =>
    intro n hn
    unfold tyTargets at hn
    split at hn
    · simp at hn
    · rcases List.mem_append.mp hn with hn | hn
      · exact ih hn
      · exact selfTargets_sub p f h hn
  | binary h k v ihk ihv =>
    intro n hn
    unfold tyTargets at hn
    split at hn
    · simp at hn
    · rcases List.mem_append.mp hn with hn | hn
      · exact ihk hn
      · rcases List.mem_append.mp hn with hn | hn
        · exact ihv hn
        · exact selfTargets_sub p f h hn

theorem succs_sub (p : Program) {m x : Node} (h : x ∈ succs p m) : x ∈ allNodes p := by
  cases m with
  | sl f k n =>
    simp only [succs] at h
    split at h
    · obtain ⟨fd, _, hx⟩ := List.mem_flatMap.mp h
      exact tyTargets_sub p f _ hx
    · simp at h
  | td f a =>
    simp only [succs] at h
    split at h
    · exact tyTargets_sub p f _ h
    · simp at h
  | inc f i => simp [succs] at h
  | enum f n => simp [succs] at h
  | svc f n => simp [succs] at h
  | fn f s n => simp [succs] at h

/-- targets are includes, struct-likes, enums or typedefs — never service or function nodes -/
def Node.isTarget : Node → Bool
  | .svc _ _ => false
  | .fn _ _ _ => false
  | _ => true

theorem allNodes_isTarget (p : Program) {n : Node} (h : n ∈ allNodes p) : n.isTarget = true := by
  simp only [allNodes, List.mem_flatMap, fileNodes, List.mem_append, List.mem_map] at h
  obtain ⟨f, _, h⟩ := h
  rcases h with ((((⟨_, _, rfl⟩ | ⟨_, _, rfl⟩) | ⟨_, _, rfl⟩) | ⟨_, _, rfl⟩) | ⟨_, _, rfl⟩) | ⟨_, _, rfl⟩ <;> rfl

/-! ### the fuel is never exhausted -/

def unmarked (p : Program) (M : Marks) : Nat := (allNodes p).countP (fun n => decide (n ∉ M))

theorem unmarked_le (p : Program) (M : Marks) : unmarked p M ≤ (allNodes p).length :=
  List.countP_le_length

theorem unmarked_lt_fuel (p : Program) (M : Marks) : unmarked p M < fuelN p :=
  Nat.lt_succ_of_le (unmarked_le p M)

theorem unmarked_mono (p : Program) {M M' : Marks} (h : M ⊆ M') : unmarked p M' ≤ unmarked p M := by
  unfold unmarked
  apply List.countP_mono_left
  intro x _ hx
  simp only [decide_eq_true_eq] at *
  exact fun hm => hx (h hm)

theorem countP_cons_lt (n : Node) (M : Marks) (hn : n ∉ M) :
    ∀ l : List Node, n ∈ l → l.countP (fun x => decide (x ∉ n :: M)) < l.countP (fun x => decide (x ∉ M)) := by
  intro l
  induction l with
  | nil => intro h; simp at h
  | cons x xs ih =>
    intro h
    by_cases hx : x = n
    · subst hx
      have h1 : (x :: xs).countP (fun y => decide (y ∉ x :: M)) = xs.countP (fun y => decide (y ∉ x :: M)) := by
        simp
      have h2 : (x :: xs).countP (fun y => decide (y ∉ M)) = xs.countP (fun y => decide (y ∉ M)) + 1 := by
        simp [hn]
      have h3 : xs.countP (fun y => decide (y ∉ x :: M)) ≤ xs.countP (fun y => decide (y ∉ M)) := by
        apply List.countP_mono_left
        intro y _ hy
        simp only [decide_eq_true_eq, List.mem_cons, not_or] at *
        exact hy.2
      omega
    · have hmem : n ∈ xs := by
        rcases List.mem_cons.mp h with h | h
        · exact absurd h.symm hx
        · exact h
      have := ih hmem
      have e : decide (x ∉ n :: M) = decide (x ∉ M) := by
        simp [List.mem_cons, hx]
      simp only [List.countP_cons, e]
      omega

theorem unmarked_cons_lt (p : Program) {n : Node} {M : Marks} (hu : n ∈ allNodes p) (hn : n ∉ M) :
    unmarked p (n :: M) < unmarked p M :=
  countP_cons_lt n M hn (allNodes p) hu

/-- what one `visit` achieves when the fuel exceeds the number of unmarked nodes: it only adds,
it marks the node, and every node it adds has all its successors marked at the end -/
def VisitSpec (p : Program) (M : Marks) (ns : List Node) (R : Marks) : Prop :=
  M ⊆ R ∧ (∀ n ∈ ns, n ∈ R) ∧ (∀ m ∈ R, m ∉ M → ∀ x ∈ succs p m, x ∈ R)

theorem fold_spec (p : Program) (k : Nat)
    (hv : ∀ M n, unmarked p M < k → n ∈ allNodes p → VisitSpec p M [n] (visit p k M n)) :
    ∀ (ns : List Node) (M : Marks), unmarked p M < k → (∀ n ∈ ns, n ∈ allNodes p) →
      VisitSpec p M ns (ns.foldl (visit p k) M) := by
  intro ns
  induction ns with
  | nil =>
    intro M _ _
    exact ⟨fun _ h => h, by simp, fun m hm hnm => absurd hm hnm⟩
  | cons n ns ih =>
    intro M hk hall
    obtain ⟨h1, h2, h3⟩ := hv M n hk (hall n (List.mem_cons_self))
    have hk1 : unmarked p (visit p k M n) < k := Nat.lt_of_le_of_lt (unmarked_mono p h1) hk
    obtain ⟨i1, i2, i3⟩ := ih (visit p k M n) hk1 (fun x hx => hall x (List.mem_cons_of_mem _ hx))
    simp only [List.foldl_cons]
    refine ⟨fun _ h => i1 (h1 h), ?_, ?_⟩
    · intro x hx
      rcases List.mem_cons.mp hx with hx | hx
      · subst hx; exact i1 (h2 _ (List.mem_singleton.mpr rfl))
      · exact i2 x hx
    · intro m hm hnm x hx
      by_cases hm1 : m ∈ visit p k M n
      · exact i1 (h3 m hm1 hnm x hx)
      · exact i3 m hm hm1 x hx

theorem visit_spec (p : Program) : ∀ (k : Nat) (M : Marks) (n : Node), unmarked p M < k → n ∈ allNodes p →
    VisitSpec p M [n] (visit p k M n) := by
  intro k
  induction k with
  | zero => intro M n h; omega
  | succ k ih =>
    intro M n hk hn
    unfold visit
    by_cases hm : n ∈ M
    · simp only [hm, if_true]
      exact ⟨fun _ h => h, by simpa using hm, fun m h hnm => absurd h hnm⟩
    · simp only [hm, if_false]
      have hk0 : unmarked p (n :: M) < k := by
        have := unmarked_cons_lt p hn hm
        omega
      obtain ⟨f1, f2, f3⟩ := fold_spec p k ih (succs p n) (n :: M) hk0 (fun x hx => succs_sub p hx)
      refine ⟨fun _ h => f1 (List.mem_cons_of_mem _ h), ?_, ?_⟩
      · intro x hx
        rw [List.mem_singleton.mp hx]
        exact f1 (List.mem_cons_self)
      · intro m hmR hnm x hx
        by_cases hmn : m = n
        · subst hmn; exact f2 x hx
        · exact f3 m hmR (by simp [List.mem_cons, hmn, hnm]) x hx

/-- `Closed`: every marked node has all its successors marked -/
def Closed (p : Program) (M : Marks) : Prop := ∀ m ∈ M, ∀ x ∈ succs p m, x ∈ M

theorem closed_of_spec (p : Program) {M R : Marks} {ns : List Node} (hc : Closed p M) (h : VisitSpec p M ns R) : Closed p R := by
  intro m hm x hx
  by_cases hmM : m ∈ M
  · exact h.1 (hc m hmM x hx)
  · exact h.2.2 m hm hmM x hx

theorem closed_cons_leaf (p : Program) {M : Marks} {n : Node} (hc : Closed p M) (hn : succs p n = []) : Closed p (n :: M) := by
  intro m hm x hx
  rcases List.mem_cons.mp hm with hm | hm
  · subst hm; simp [hn] at hx
  · exact List.mem_cons_of_mem _ (hc m hm x hx)

/-- the nodes `visit` adds are the node itself and targets of types -/
theorem visit_new (p : Program) : ∀ (k : Nat) (M : Marks) (n m : Node), m ∈ visit p k M n → m ∈ M ∨ m = n ∨ m ∈ allNodes p := by
  intro k
  induction k with
  | zero => intro M n m h; exact Or.inl h
  | succ k ih =>
    intro M n m h
    unfold visit at h
    by_cases hm : n ∈ M
    · simp only [hm, if_true] at h; exact Or.inl h
    · simp only [hm, if_false] at h
      have key : ∀ (ns : List Node) (M0 : Marks), (∀ x ∈ ns, x ∈ allNodes p) → m ∈ ns.foldl (visit p k) M0 → m ∈ M0 ∨ m ∈ allNodes p := by
        intro ns
        induction ns with
        | nil => intro M0 _ h; exact Or.inl h
        | cons a as iha =>
          intro M0 hall h
          simp only [List.foldl_cons] at h
          rcases iha (visit p k M0 a) (fun x hx => hall x (List.mem_cons_of_mem _ hx)) h with h | h
          · rcases ih M0 a m h with h | h | h
            · exact Or.inl h
            · subst h; exact Or.inr (hall _ (List.mem_cons_self))
            · exact Or.inr h
          · exact Or.inr h
      rcases key (succs p n) (n :: M) (fun x hx => succs_sub p hx) h with h | h
      · rcases List.mem_cons.mp h with h | h
        · exact Or.inr (Or.inl h)
        · exact Or.inl h
      · exact Or.inr (Or.inr h)

/-- exactness of one visit: a predicate closed under successors that holds of the visited node
holds of every declaration node added -/
theorem visit_just (p : Program) (Q : Node → Prop) (hQ : ∀ m x, Q m → x ∈ succs p m → Q x) :
    ∀ (k : Nat) (M : Marks) (n : Node), (∀ m ∈ M, m.isDecl = true → Q m) → Q n →
      ∀ m ∈ visit p k M n, m.isDecl = true → Q m := by
  intro k
  induction k with
  | zero => intro M n hM _ m hm; exact hM m hm
  | succ k ih =>
    intro M n hM hn
    unfold visit
    by_cases hm : n ∈ M
    · simp only [hm, if_true]; exact hM
    · simp only [hm, if_false]
      have key : ∀ (ns : List Node) (M0 : Marks), (∀ x ∈ ns, Q x) → (∀ m ∈ M0, m.isDecl = true → Q m) →
          ∀ m ∈ ns.foldl (visit p k) M0, m.isDecl = true → Q m := by
        intro ns
        induction ns with
        | nil => intro M0 _ h; exact h
        | cons a as iha =>
          intro M0 hall h
          simp only [List.foldl_cons]
          exact iha (visit p k M0 a) (fun x hx => hall x (List.mem_cons_of_mem _ hx))
            (ih M0 a h (hall a (List.mem_cons_self)))
      apply key (succs p n) (n :: M) (fun x hx => hQ n x hn hx)
      intro m hm' hd
      rcases List.mem_cons.mp hm' with hm' | hm'
      · subst hm'; exact hn
      · exact hM m hm' hd


/-! ### mark-set invariants through markType / markTypes / markFunction -/

theorem fold_new (p : Program) (k : Nat) : ∀ (ns : List Node) (M0 : Marks) (m : Node), (∀ x ∈ ns, x ∈ allNodes p) →
    m ∈ ns.foldl (visit p k) M0 → m ∈ M0 ∨ m ∈ allNodes p := by
  intro ns
  induction ns with
  | nil => intro M0 m _ h; exact Or.inl h
  | cons a as iha =>
    intro M0 m hall h
    simp only [List.foldl_cons] at h
    rcases iha (visit p k M0 a) m (fun x hx => hall x (List.mem_cons_of_mem _ hx)) h with h | h
    · rcases visit_new p k M0 a m h with h | h | h
      · exact Or.inl h
      · subst h; exact Or.inr (hall _ (List.mem_cons_self))
      · exact Or.inr h
    · exact Or.inr h

theorem fold_just (p : Program) (Q : Node → Prop) (hQ : ∀ m x, Q m → x ∈ succs p m → Q x) (k : Nat) :
    ∀ (ns : List Node) (M0 : Marks), (∀ x ∈ ns, Q x) → (∀ m ∈ M0, m.isDecl = true → Q m) →
      ∀ m ∈ ns.foldl (visit p k) M0, m.isDecl = true → Q m := by
  intro ns
  induction ns with
  | nil => intro M0 _ h; exact h
  | cons a as iha =>
    intro M0 hall h
    simp only [List.foldl_cons]
    exact iha (visit p k M0 a) (fun x hx => hall x (List.mem_cons_of_mem _ hx))
      (visit_just p Q hQ k M0 a h (hall a (List.mem_cons_self)))

/-- closed, and every declaration mark satisfies `Q` -/
structure MInv (p : Program) (Q : Node → Prop) (M : Marks) : Prop where
  closed : Closed p M
  just : ∀ m ∈ M, m.isDecl = true → Q m

/-- the effect of a marking step on the mark set -/
structure Grows (p : Program) (M R : Marks) : Prop where
  sub : M ⊆ R
  new : ∀ m ∈ R, m ∈ M ∨ m ∈ allNodes p

theorem Grows.refl (p : Program) (M : Marks) : Grows p M M := ⟨fun _ h => h, fun _ h => Or.inl h⟩

theorem Grows.trans {p : Program} {A B C : Marks} (h1 : Grows p A B) (h2 : Grows p B C) : Grows p A C :=
  ⟨fun _ h => h2.sub (h1.sub h), fun m h => by
    rcases h2.new m h with h | h
    · exact h1.new m h
    · exact Or.inr h⟩

theorem visitList_inv (p : Program) (Q : Node → Prop) (hQ : ∀ m x, Q m → x ∈ succs p m → Q x)
    (ns : List Node) (M : Marks) (hall : ∀ n ∈ ns, n ∈ allNodes p) (hq : ∀ n ∈ ns, Q n) (h : MInv p Q M) :
    MInv p Q (ns.foldl (visit p (fuelN p)) M) ∧ Grows p M (ns.foldl (visit p (fuelN p)) M) ∧
      (∀ n ∈ ns, n ∈ ns.foldl (visit p (fuelN p)) M) := by
  have sp := fold_spec p (fuelN p) (fun M n _ hn => visit_spec p (fuelN p) M n (unmarked_lt_fuel p M) hn)
    ns M (unmarked_lt_fuel p M) hall
  exact ⟨⟨closed_of_spec p h.closed sp, fold_just p Q hQ _ ns M hq h.just⟩,
    ⟨sp.1, fun m hm => fold_new p _ ns M m hall hm⟩, sp.2.1⟩

theorem markType_inv (p : Program) (Q : Node → Prop) (hQ : ∀ m x, Q m → x ∈ succs p m → Q x)
    (f : Nat) (M : Marks) (ty : Ty) (hq : ∀ x ∈ tyTargets p f ty, Q x) (h : MInv p Q M) :
    MInv p Q (markType p f M ty) ∧ Grows p M (markType p f M ty) ∧ (∀ x ∈ tyTargets p f ty, x ∈ markType p f M ty) :=
  visitList_inv p Q hQ _ M (fun _ hn => tyTargets_sub p f ty hn) hq h

theorem markTypes_inv (p : Program) (Q : Node → Prop) (hQ : ∀ m x, Q m → x ∈ succs p m → Q x) (f : Nat) :
    ∀ (tys : List Ty) (M : Marks), (∀ ty ∈ tys, ∀ x ∈ tyTargets p f ty, Q x) → MInv p Q M →
      MInv p Q (markTypes p f M tys) ∧ Grows p M (markTypes p f M tys) ∧
        (∀ ty ∈ tys, ∀ x ∈ tyTargets p f ty, x ∈ markTypes p f M tys) := by
  intro tys
  induction tys with
  | nil => intro M _ h; exact ⟨h, Grows.refl p M, by simp⟩
  | cons t ts ih =>
    intro M hq h
    obtain ⟨a1, a2, a3⟩ := markType_inv p Q hQ f M t (hq t (List.mem_cons_self)) h
    obtain ⟨b1, b2, b3⟩ := ih (markType p f M t) (fun ty hty => hq ty (List.mem_cons_of_mem _ hty)) a1
    refine ⟨b1, a2.trans b2, ?_⟩
    intro ty hty x hx
    rcases List.mem_cons.mp hty with hty | hty
    · subst hty; exact b2.sub (a3 x hx)
    · exact b3 ty hty x hx

/-- every function mark is the mark of a function of that name all of whose types' targets are marked -/
def FnJust (p : Program) (M : Marks) : Prop :=
  ∀ f s n, Node.fn f s n ∈ M → ∃ svc ∈ (p.file f).services, svc.name = s ∧ ∃ fn ∈ svc.fns, fn.name = n ∧
    ∀ ty ∈ fn.types, ∀ x ∈ tyTargets p f ty, x ∈ M

theorem FnJust.grows {p : Program} {M R : Marks} (h : FnJust p M) (g : Grows p M R) : FnJust p R := by
  intro f s n hn
  rcases g.new _ hn with hn | hn
  · obtain ⟨svc, hs, e1, fn, hf, e2, ht⟩ := h f s n hn
    exact ⟨svc, hs, e1, fn, hf, e2, fun ty hty x hx => g.sub (ht ty hty x hx)⟩
  · have := allNodes_isTarget p hn
    simp [Node.isTarget] at this

theorem MInv.cons_leaf {p : Program} {Q : Node → Prop} {M : Marks} (h : MInv p Q M) (n : Node)
    (hs : succs p n = []) (hd : n.isDecl = false) : MInv p Q (n :: M) :=
  ⟨closed_cons_leaf p h.closed hs, fun m hm hdm => by
    rcases List.mem_cons.mp hm with hm | hm
    · subst hm; rw [hd] at hdm; cases hdm
    · exact h.just m hm hdm⟩

/-- a step that may also add service / function / include marks -/
structure Grows' (p : Program) (M R : Marks) : Prop where
  sub : M ⊆ R
  new : ∀ m ∈ R, m ∈ M ∨ m.isDecl = false ∨ m ∈ allNodes p

theorem markFunction_inv (p : Program) (Q : Node → Prop) (hQ : ∀ m x, Q m → x ∈ succs p m → Q x)
    (f : Nat) (svc : Service) (fn : Function) (M : Marks)
    (hs : svc ∈ (p.file f).services) (hf : fn ∈ svc.fns)
    (hq : ∀ ty ∈ fn.types, ∀ x ∈ tyTargets p f ty, Q x) (h : MInv p Q M) (hj : FnJust p M) :
    MInv p Q (markFunction p f svc.name M fn) ∧ FnJust p (markFunction p f svc.name M fn) ∧
      M ⊆ markFunction p f svc.name M fn ∧ Node.fn f svc.name fn.name ∈ markFunction p f svc.name M fn := by
  unfold markFunction
  have h0 : MInv p Q (Node.fn f svc.name fn.name :: M) := h.cons_leaf _ rfl rfl
  obtain ⟨a1, a2, a3⟩ := markTypes_inv p Q hQ f fn.types _ hq h0
  refine ⟨a1, ?_, fun _ hm => a2.sub (List.mem_cons_of_mem _ hm), a2.sub (List.mem_cons_self)⟩
  intro f' s' n' hn
  rcases a2.new _ hn with hn | hn
  · rcases List.mem_cons.mp hn with hn | hn
    · cases hn
      exact ⟨svc, hs, rfl, fn, hf, rfl, a3⟩
    · obtain ⟨svc', hs', e1, fn', hf', e2, ht⟩ := hj f' s' n' hn
      exact ⟨svc', hs', e1, fn', hf', e2, fun ty hty x hx => a2.sub (List.mem_cons_of_mem _ (ht ty hty x hx))⟩
  · have := allNodes_isTarget p hn
    simp [Node.isTarget] at this


/-! ### plain monotonicity (no hypotheses) -/

theorem fold_sub_of {α : Type} (g : Marks → α → Marks) (hg : ∀ M a, M ⊆ g M a) : ∀ (l : List α) (M : Marks), M ⊆ l.foldl g M := by
  intro l
  induction l with
  | nil => intro M _ h; exact h
  | cons a as ih => intro M x h; exact ih (g M a) (hg M a h)

theorem visit_sub (p : Program) : ∀ (k : Nat) (M : Marks) (n : Node), M ⊆ visit p k M n := by
  intro k
  induction k with
  | zero => intro M n _ h; exact h
  | succ k ih =>
    intro M n x h
    unfold visit
    by_cases hm : n ∈ M
    · simp only [hm, if_true]; exact h
    · simp only [hm, if_false]
      exact fold_sub_of (visit p k) (ih) (succs p n) (n :: M) (List.mem_cons_of_mem _ h)

theorem markType_sub (p : Program) (f : Nat) (M : Marks) (ty : Ty) : M ⊆ markType p f M ty :=
  fold_sub_of _ (visit_sub p _) _ M

theorem markTypes_sub (p : Program) (f : Nat) (M : Marks) (tys : List Ty) : M ⊆ markTypes p f M tys :=
  fold_sub_of _ (markType_sub p f) _ M

theorem markFunction_sub (p : Program) (f : Nat) (s : Bytes) (M : Marks) (fn : Function) : M ⊆ markFunction p f s M fn :=
  fun _ h => markTypes_sub p f _ _ (List.mem_cons_of_mem _ h)

theorem markFunction_mem (p : Program) (f : Nat) (s : Bytes) (M : Marks) (fn : Function) :
    Node.fn f s fn.name ∈ markFunction p f s M fn :=
  markTypes_sub p f _ _ (List.mem_cons_self)

theorem insInc_sub (f i : Nat) (M : Marks) : M ⊆ insInc f i M := by
  intro x h
  unfold insInc
  split
  · exact h
  · exact List.mem_cons_of_mem _ h

theorem insInc_mem (f i : Nat) (M : Marks) : Node.inc f i ∈ insInc f i M := by
  unfold insInc
  split
  · assumption
  · exact List.mem_cons_self

/-! ### state invariants -/

theorem reach_closed (p : Program) (cfg : Cfg) (Mf : Marks) :
    ∀ m x, Reach p cfg Mf m → x ∈ succs p m → Reach p cfg Mf x :=
  fun m x h hx => Reach.step h ((edge_iff p m x).mpr hx)

/-- what markKeptPart leaves marked for file `f` -/
def KeptOK (p : Program) (cfg : Cfg) (f : Nat) (M : Marks) : Prop :=
  (∀ c ∈ (p.file f).consts, ∀ x ∈ tyTargets p f c.ty, x ∈ M) ∧
  (∀ t ∈ (p.file f).typedefs, ∀ x ∈ tyTargets p f t.ty, x ∈ M) ∧
  (∀ ks ∈ (p.file f).sls, checkPreserve cfg ks.2 = true → Node.sl f ks.1 ks.2.name ∈ M)

theorem KeptOK.mono {p : Program} {cfg : Cfg} {f : Nat} {M R : Marks} (h : KeptOK p cfg f M) (hs : M ⊆ R) : KeptOK p cfg f R :=
  ⟨fun c hc x hx => hs (h.1 c hc x hx), fun t ht x hx => hs (h.2.1 t ht x hx), fun ks hk hp => hs (h.2.2 ks hk hp)⟩

structure Inv (p : Program) (cfg : Cfg) (Mf : Marks) (st : St) : Prop where
  m : MInv p (Reach p cfg Mf) st.marks
  fnj : FnJust p st.marks
  kept : ∀ f r, (f, r) ∈ st.cache → KeptOK p cfg f st.marks

theorem Inv.step {p : Program} {cfg : Cfg} {Mf : Marks} {st : St} (h : Inv p cfg Mf st) (st' : St)
    (hc : st'.cache = st.cache) (hsub : st.marks ⊆ st'.marks)
    (hm : MInv p (Reach p cfg Mf) st'.marks) (hj : FnJust p st'.marks) : Inv p cfg Mf st' :=
  ⟨hm, hj, fun f r hfr => (h.kept f r (hc ▸ hfr)).mono hsub⟩

theorem FnJust.cons_other {p : Program} {M : Marks} (h : FnJust p M) (n : Node) (hn : ∀ f s x, n ≠ Node.fn f s x) :
    FnJust p (n :: M) := by
  intro f s x hx
  rcases List.mem_cons.mp hx with hx | hx
  · exact absurd hx.symm (hn f s x)
  · obtain ⟨svc, hs, e1, fn, hf, e2, ht⟩ := h f s x hx
    exact ⟨svc, hs, e1, fn, hf, e2, fun ty hty y hy => List.mem_cons_of_mem _ (ht ty hty y hy)⟩

theorem MInv.insInc {p : Program} {Q : Node → Prop} {M : Marks} (h : MInv p Q M) (f i : Nat) : MInv p Q (insInc f i M) := by
  unfold Trim.insInc
  split
  · exact h
  · exact h.cons_leaf _ rfl rfl

theorem FnJust.insInc {p : Program} {M : Marks} (h : FnJust p M) (f i : Nat) : FnJust p (insInc f i M) := by
  unfold Trim.insInc
  split
  · exact h
  · exact h.cons_other _ (fun _ _ _ => by simp)

theorem fn_targets_reach (p : Program) (cfg : Cfg) (Mf : Marks) {f : Nat} {svc : Service} {fn : Function}
    (hs : svc ∈ (p.file f).services) (hf : fn ∈ svc.fns) (hm : Node.fn f svc.name fn.name ∈ Mf) :
    ∀ ty ∈ fn.types, ∀ x ∈ tyTargets p f ty, Reach p cfg Mf x :=
  fun ty hty x hx => Reach.root (Root.fn hs hf hm hty (tyRef_of_mem p f ty x hx))

/-- `markFunction` on a state (with or without marking the service first) -/
theorem markFn_inv (p : Program) (cfg : Cfg) (Mf : Marks) {f : Nat} {svc : Service} {fn : Function} {st : St}
    (hs : svc ∈ (p.file f).services) (hf : fn ∈ svc.fns) (M0 : Marks)
    (h0 : MInv p (Reach p cfg Mf) M0) (j0 : FnJust p M0) (hsub0 : st.marks ⊆ M0)
    (h : Inv p cfg Mf st) (hMf : markFunction p f svc.name M0 fn ⊆ Mf) :
    Inv p cfg Mf { st with marks := markFunction p f svc.name M0 fn } := by
  have hq := fn_targets_reach p cfg Mf hs hf (hMf (markFunction_mem p f svc.name M0 fn))
  obtain ⟨a1, a2, a3, _⟩ := markFunction_inv p _ (reach_closed p cfg Mf) f svc fn M0 hs hf hq h0 j0
  exact h.step _ rfl (fun _ hx => a3 (hsub0 hx)) a1 a2

theorem markSvcFn_sub (p : Program) (f : Nat) (svc : Service) (st : St) (fn : Function) :
    st.marks ⊆ (markSvcFn p f svc st fn).marks :=
  fun _ h => markFunction_sub p f _ _ fn (List.mem_cons_of_mem _ h)

theorem markSvcFn_inv (p : Program) (cfg : Cfg) (Mf : Marks) {f : Nat} {svc : Service} {fn : Function} {st : St}
    (hs : svc ∈ (p.file f).services) (hf : fn ∈ svc.fns)
    (h : Inv p cfg Mf st) (hMf : (markSvcFn p f svc st fn).marks ⊆ Mf) :
    Inv p cfg Mf (markSvcFn p f svc st fn) :=
  markFn_inv p cfg Mf hs hf (Node.svc f svc.name :: st.marks) (h.m.cons_leaf _ rfl rfl)
    (h.fnj.cons_other _ (fun _ _ _ => by simp)) (fun _ hx => List.mem_cons_of_mem _ hx) h hMf

/-- a step of a fold over (a suffix of) the functions of a service -/
structure StepOK (p : Program) (cfg : Cfg) (Mf : Marks) (svc : Service) (g : St → Function → St) : Prop where
  sub : ∀ st fn, st.marks ⊆ (g st fn).marks
  cache : ∀ st fn, (g st fn).cache = st.cache
  inv : ∀ st fn, fn ∈ svc.fns → Inv p cfg Mf st → (g st fn).marks ⊆ Mf → Inv p cfg Mf (g st fn)

theorem foldFns_sub {g : St → Function → St} (hsub : ∀ st fn, st.marks ⊆ (g st fn).marks)
    (hcache : ∀ st fn, (g st fn).cache = st.cache) :
    ∀ (fns : List Function) (st : St), st.marks ⊆ (fns.foldl g st).marks ∧ (fns.foldl g st).cache = st.cache := by
  intro fns
  induction fns with
  | nil => intro st; exact ⟨fun _ h => h, rfl⟩
  | cons a as ih =>
    intro st
    obtain ⟨i1, i2⟩ := ih (g st a)
    exact ⟨fun _ h => i1 (hsub st a h), by simp only [List.foldl_cons]; rw [i2, hcache]⟩

theorem foldFns_inv {p : Program} {cfg : Cfg} {Mf : Marks} {svc : Service} {g : St → Function → St}
    (ok : StepOK p cfg Mf svc g) :
    ∀ (fns : List Function) (st : St), (∀ fn ∈ fns, fn ∈ svc.fns) → Inv p cfg Mf st →
      (fns.foldl g st).marks ⊆ Mf → Inv p cfg Mf (fns.foldl g st) := by
  intro fns
  induction fns with
  | nil => intro st _ h _; exact h
  | cons a as ih =>
    intro st hall h hMf
    simp only [List.foldl_cons] at hMf ⊢
    have hs1 := (foldFns_sub ok.sub ok.cache as (g st a)).1
    exact ih (g st a) (fun fn hfn => hall fn (List.mem_cons_of_mem _ hfn))
      (ok.inv st a (hall a (List.mem_cons_self)) h (fun _ hx => hMf (hs1 hx))) hMf

theorem traceStep_ok (p : Program) (cfg : Cfg) (Mf : Marks) (ms fathers : List Bytes) {f : Nat} {svc : Service}
    (hs : svc ∈ (p.file f).services) : StepOK p cfg Mf svc (traceStep p cfg ms fathers f svc) := by
  refine ⟨?_, ?_, ?_⟩
  · intro st fn
    unfold traceStep
    split
    · exact markSvcFn_sub p f svc st fn
    · exact fun _ h => h
  · intro st fn
    unfold traceStep
    split <;> rfl
  · intro st fn hf h hMf
    unfold traceStep at hMf ⊢
    split
    · rename_i hh
      simp only [hh, if_true] at hMf
      exact markSvcFn_inv p cfg Mf hs hf h hMf
    · exact h

theorem svcStep_ok (p : Program) (cfg : Cfg) (Mf : Marks) (ms : List Bytes) {f : Nat} {svc : Service}
    (hs : svc ∈ (p.file f).services) : StepOK p cfg Mf svc (svcStep p cfg ms f svc) := by
  refine ⟨?_, ?_, ?_⟩
  · intro st fn
    unfold svcStep
    split
    · exact markFunction_sub p f _ _ fn
    · split
      · exact markSvcFn_sub p f svc st fn
      · exact fun _ h => h
  · intro st fn
    unfold svcStep
    split
    · rfl
    · split <;> rfl
  · intro st fn hf h hMf
    unfold svcStep at hMf ⊢
    split
    · rename_i hh
      simp only [hh, if_true] at hMf
      exact markFn_inv p cfg Mf hs hf st.marks h.m h.fnj (fun _ hx => hx) h hMf
    · rename_i hh
      simp only [hh] at hMf
      split
      · rename_i h2
        simp only [h2, if_true] at hMf
        exact markSvcFn_inv p cfg Mf hs hf h hMf
      · exact h

end Trim
