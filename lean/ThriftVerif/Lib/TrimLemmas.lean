import ThriftVerif.Lib.Trim
/-! Helper lemmas for the C16 theorems (Props/C16.lean). -/
namespace Trim

/-! ### TyRef / Edge are the relational reading of tyTargets / succs -/

theorem tyRef_of_mem (p : Program) (f : Nat) : ∀ (ty : Ty) (n : Node), n ∈ tyTargets p f ty → TyRef p f ty n := by
  intro ty
  induction ty with
  | named h =>
    intro n hn
    unfold tyTargets at hn
    by_cases hp : h.plain = true
    · simp [hp] at hn
    · simp [hp] at hn
      exact TyRef.self (ty := .named h) (by simpa [Ty.hdr] using hp) (by simpa [Ty.hdr] using hn)
  | unary h v ih =>
    intro n hn
    unfold tyTargets at hn
    by_cases hp : h.plain = true
    · simp [hp] at hn
    · simp [hp] at hn
      have hp' : h.plain = false := by simpa using hp
      rcases hn with hn | hn
      · exact TyRef.val1 hp' (ih n hn)
      · exact TyRef.self (ty := .unary h v) (by simpa [Ty.hdr] using hp') (by simpa [Ty.hdr] using hn)
  | binary h k v ihk ihv =>
    intro n hn
    unfold tyTargets at hn
    by_cases hp : h.plain = true
    · simp [hp] at hn
    · simp [hp] at hn
      have hp' : h.plain = false := by simpa using hp
      rcases hn with hn | hn | hn
      · exact TyRef.key hp' (ihk n hn)
      · exact TyRef.val2 hp' (ihv n hn)
      · exact TyRef.self (ty := .binary h k v) (by simpa [Ty.hdr] using hp') (by simpa [Ty.hdr] using hn)

theorem mem_of_tyRef (p : Program) (f : Nat) {ty : Ty} {n : Node} (h : TyRef p f ty n) : n ∈ tyTargets p f ty := by
  induction h with
  | @self ty n hp hn =>
    cases ty <;> simp [tyTargets, Ty.hdr] at * <;> simp [hp, hn]
  | val1 hp _ ih => simp [tyTargets, hp, ih]
  | key hp _ ih => simp [tyTargets, hp, ih]
  | val2 hp _ ih => simp [tyTargets, hp, ih]

theorem tyRef_iff (p : Program) (f : Nat) (ty : Ty) (n : Node) : TyRef p f ty n ↔ n ∈ tyTargets p f ty :=
  ⟨mem_of_tyRef p f, tyRef_of_mem p f ty n⟩

theorem edge_iff (p : Program) (m x : Node) : Edge p m x ↔ x ∈ succs p m := by
  constructor
  · intro h
    cases h with
    | field hs hfd ht =>
      simp only [succs, hs, List.mem_flatMap]
      exact ⟨_, hfd, mem_of_tyRef p _ ht⟩
    | typedef ht hr =>
      simp only [succs, ht]
      exact mem_of_tyRef p _ hr
  · intro h
    cases m with
    | sl f k n =>
      simp only [succs] at h
      cases hs : findSL p f k n with
      | none => simp [hs] at h
      | some s =>
        simp only [hs, List.mem_flatMap] at h
        obtain ⟨fd, hfd, hx⟩ := h
        exact Edge.field hs hfd (tyRef_of_mem p f _ _ hx)
    | td f a =>
      simp only [succs] at h
      cases ht : findTd p f a with
      | none => simp [ht] at h
      | some t =>
        simp only [ht] at h
        exact Edge.typedef ht (tyRef_of_mem p f _ _ h)
    | inc f i => simp [succs] at h
    | enum f n => simp [succs] at h
    | svc f n => simp [succs] at h
    | fn f s n => simp [succs] at h

/-! ### every target is a node of the program -/

theorem file_of_ge (p : Program) {f : Nat} (h : p.files.length ≤ f) : p.file f = emptyFile := by
  simp [Program.file, List.getD, List.getElem?_eq_none h]

theorem fileNodes_sub (p : Program) {f : Nat} {n : Node} (h : n ∈ fileNodes f (p.file f)) : n ∈ allNodes p := by
  by_cases hf : f < p.files.length
  · simp only [allNodes, List.mem_flatMap, List.mem_range]
    exact ⟨f, hf, h⟩
  · rw [file_of_ge p (Nat.le_of_not_lt hf)] at h
    simp [fileNodes, emptyFile] at h

theorem declTargets_sub (p : Program) (base : Nat) (h : TyHdr) {n : Node} (hn : n ∈ declTargets p base h) : n ∈ allNodes p := by
  apply fileNodes_sub p (f := base)
  unfold declTargets at hn
  split at hn
  · split at hn
    · rename_i t ht
      simp only [List.mem_singleton] at hn
      subst hn
      have := List.mem_of_find?_eq_some ht
      simp only [fileNodes, List.mem_append, List.mem_map]
      exact Or.inr ⟨t, this, rfl⟩
    · simp at hn
  · split at hn
    · split at hn
      · rename_i s hs
        simp only [List.mem_singleton] at hn
        subst hn
        have := List.mem_of_find?_eq_some hs
        simp only [fileNodes, List.mem_append, List.mem_map]
        exact Or.inl (Or.inl (Or.inl (Or.inl (Or.inr ⟨s, this, rfl⟩))))
      · simp at hn
    · split at hn
      · split at hn
        · rename_i s hs
          simp only [List.mem_singleton] at hn
          subst hn
          have := List.mem_of_find?_eq_some hs
          simp only [fileNodes, List.mem_append, List.mem_map]
          exact Or.inl (Or.inl (Or.inr ⟨s, this, rfl⟩))
        · simp at hn
      · split at hn
        · split at hn
          · rename_i s hs
            simp only [List.mem_singleton] at hn
            subst hn
            have := List.mem_of_find?_eq_some hs
            simp only [fileNodes, List.mem_append, List.mem_map]
            exact Or.inl (Or.inl (Or.inl (Or.inr ⟨s, this, rfl⟩)))
          · simp at hn
        · split at hn
          · split at hn
            · rename_i e he
              simp only [List.mem_singleton] at hn
              subst hn
              have := List.mem_of_find?_eq_some he
              simp only [fileNodes, List.mem_append, List.mem_map]
              exact Or.inl (Or.inr ⟨e, this, rfl⟩)
            · simp at hn
          · simp at hn

theorem incTarget_lt (p : Program) {f i g : Nat} (h : p.incTarget f i = some g) : i < (p.file f).includes.length := by
  unfold Program.incTarget at h
  cases hi : (p.file f).includes[i]? with
  | none => simp [hi] at h
  | some x =>
    exact (List.getElem?_eq_some_iff.mp hi).1

theorem selfTargets_sub (p : Program) (f : Nat) (h : TyHdr) {n : Node} (hn : n ∈ selfTargets p f h) : n ∈ allNodes p := by
  unfold selfTargets at hn
  cases hr : h.ref with
  | none =>
    simp only [hr] at hn
    exact declTargets_sub p f h hn
  | some r =>
    obtain ⟨rn, i⟩ := r
    simp only [hr] at hn
    cases hg : p.incTarget f i with
    | none => simp [hg] at hn
    | some g =>
      simp only [hg, List.mem_cons] at hn
      rcases hn with hn | hn
      · subst hn
        apply fileNodes_sub p (f := f)
        simp only [fileNodes, List.mem_append, List.mem_map, List.mem_range]
        exact Or.inl (Or.inl (Or.inl (Or.inl (Or.inl ⟨i, incTarget_lt p hg, rfl⟩))))
      · exact declTargets_sub p _ h hn

theorem tyTargets_sub (p : Program) (f : Nat) : ∀ (ty : Ty) {n : Node}, n ∈ tyTargets p f ty → n ∈ allNodes p := by
  intro ty
  induction ty with
  | named h =>
    intro n hn
    unfold tyTargets at hn
    split at hn
    · simp at hn
    · exact selfTargets_sub p f h hn
  | unary h v ih =>
    intro n hn
    unfold tyTargets at hn
    split at hn
    · simp at hn
    · rcases List.mem_append.mp hn with hn | hn
      · exact ih hn
      · exact selfTargets_sub p f h hn
  | binary h k v ihk ihv =>
    intro n hn
    unfold tyTargets at hn
    split at hn
    · simp at hn
    · rcases List.mem_append.mp hn with hn | hn
      · exact ihk hn
      · rcases List.mem_append.mp hn with hn | hn
        · exact ihv hn
        · exact selfTargets_sub p f h hn

theorem succs_sub (p : Program) {m x : Node} (h : x ∈ succs p m) : x ∈ allNodes p := by
  cases m with
  | sl f k n =>
    simp only [succs] at h
    split at h
    · obtain ⟨fd, _, hx⟩ := List.mem_flatMap.mp h
      exact tyTargets_sub p f _ hx
    · simp at h
  | td f a =>
    simp only [succs] at h
    split at h
    · exact tyTargets_sub p f _ h
    · simp at h
  | inc f i => simp [succs] at h
  | enum f n => simp [succs] at h
  | svc f n => simp [succs] at h
  | fn f s n => simp [succs] at h

/-- targets are includes, struct-likes, enums or typedefs — never service or function nodes -/
def Node.isTarget : Node → Bool
  | .svc _ _ => false
  | .fn _ _ _ => false
  | _ => true

theorem allNodes_isTarget (p : Program) {n : Node} (h : n ∈ allNodes p) : n.isTarget = true := by
  simp only [allNodes, List.mem_flatMap, fileNodes, List.mem_append, List.mem_map] at h
  obtain ⟨f, _, h⟩ := h
  rcases h with ((((⟨_, _, rfl⟩ | ⟨_, _, rfl⟩) | ⟨_, _, rfl⟩) | ⟨_, _, rfl⟩) | ⟨_, _, rfl⟩) | ⟨_, _, rfl⟩ <;> rfl

/-! ### the fuel is never exhausted -/

def unmarked (p : Program) (M : Marks) : Nat := (allNodes p).countP (fun n => decide (n ∉ M))

theorem unmarked_le (p : Program) (M : Marks) : unmarked p M ≤ (allNodes p).length :=
  List.countP_le_length

theorem unmarked_lt_fuel (p : Program) (M : Marks) : unmarked p M < fuelN p :=
  Nat.lt_succ_of_le (unmarked_le p M)

theorem unmarked_mono (p : Program) {M M' : Marks} (h : M ⊆ M') : unmarked p M' ≤ unmarked p M := by
  unfold unmarked
  apply List.countP_mono_left
  intro x _ hx
  simp only [decide_eq_true_eq] at *
  exact fun hm => hx (h hm)

theorem countP_cons_lt (n : Node) (M : Marks) (hn : n ∉ M) :
    ∀ l : List Node, n ∈ l → l.countP (fun x => decide (x ∉ n :: M)) < l.countP (fun x => decide (x ∉ M)) := by
  intro l
  induction l with
  | nil => intro h; simp at h
  | cons x xs ih =>
    intro h
    by_cases hx : x = n
    · subst hx
      have h1 : (x :: xs).countP (fun y => decide (y ∉ x :: M)) = xs.countP (fun y => decide (y ∉ x :: M)) := by
        simp
      have h2 : (x :: xs).countP (fun y => decide (y ∉ M)) = xs.countP (fun y => decide (y ∉ M)) + 1 := by
        simp [hn]
      have h3 : xs.countP (fun y => decide (y ∉ x :: M)) ≤ xs.countP (fun y => decide (y ∉ M)) := by
        apply List.countP_mono_left
        intro y _ hy
        simp only [decide_eq_true_eq, List.mem_cons, not_or] at *
        exact hy.2
      omega
    · have hmem : n ∈ xs := by
        rcases List.mem_cons.mp h with h | h
        · exact absurd h.symm hx
        · exact h
      have := ih hmem
      have e : decide (x ∉ n :: M) = decide (x ∉ M) := by
        simp [List.mem_cons, hx]
      simp only [List.countP_cons, e]
      omega

theorem unmarked_cons_lt (p : Program) {n : Node} {M : Marks} (hu : n ∈ allNodes p) (hn : n ∉ M) :
    unmarked p (n :: M) < unmarked p M :=
  countP_cons_lt n M hn (allNodes p) hu

/-- what one `visit` achieves when the fuel exceeds the number of unmarked nodes: it only adds,
it marks the node, and every node it adds has all its successors marked at the end -/
def VisitSpec (p : Program) (M : Marks) (ns : List Node) (R : Marks) : Prop :=
  M ⊆ R ∧ (∀ n ∈ ns, n ∈ R) ∧ (∀ m ∈ R, m ∉ M → ∀ x ∈ succs p m, x ∈ R)

theorem fold_spec (p : Program) (k : Nat)
    (hv : ∀ M n, unmarked p M < k → n ∈ allNodes p → VisitSpec p M [n] (visit p k M n)) :
    ∀ (ns : List Node) (M : Marks), unmarked p M < k → (∀ n ∈ ns, n ∈ allNodes p) →
      VisitSpec p M ns (ns.foldl (visit p k) M) := by
  intro ns
  induction ns with
  | nil =>
    intro M _ _
    exact ⟨fun _ h => h, by simp, fun m hm hnm => absurd hm hnm⟩
  | cons n ns ih =>
    intro M hk hall
    obtain ⟨h1, h2, h3⟩ := hv M n hk (hall n (List.mem_cons_self))
    have hk1 : unmarked p (visit p k M n) < k := Nat.lt_of_le_of_lt (unmarked_mono p h1) hk
    obtain ⟨i1, i2, i3⟩ := ih (visit p k M n) hk1 (fun x hx => hall x (List.mem_cons_of_mem _ hx))
    simp only [List.foldl_cons]
    refine ⟨fun _ h => i1 (h1 h), ?_, ?_⟩
    · intro x hx
      rcases List.mem_cons.mp hx with hx | hx
      · subst hx; exact i1 (h2 _ (List.mem_singleton.mpr rfl))
      · exact i2 x hx
    · intro m hm hnm x hx
      by_cases hm1 : m ∈ visit p k M n
      · exact i1 (h3 m hm1 hnm x hx)
      · exact i3 m hm hm1 x hx

theorem visit_spec (p : Program) : ∀ (k : Nat) (M : Marks) (n : Node), unmarked p M < k → n ∈ allNodes p →
    VisitSpec p M [n] (visit p k M n) := by
  intro k
  induction k with
  | zero => intro M n h; omega
  | succ k ih =>
    intro M n hk hn
    unfold visit
    by_cases hm : n ∈ M
    · simp only [hm, if_true]
      exact ⟨fun _ h => h, by simpa using hm, fun m h hnm => absurd h hnm⟩
    · simp only [hm, if_false]
      have hk0 : unmarked p (n :: M) < k := by
        have := unmarked_cons_lt p hn hm
        omega
      obtain ⟨f1, f2, f3⟩ := fold_spec p k ih (succs p n) (n :: M) hk0 (fun x hx => succs_sub p hx)
      refine ⟨fun _ h => f1 (List.mem_cons_of_mem _ h), ?_, ?_⟩
      · intro x hx
        rw [List.mem_singleton.mp hx]
        exact f1 (List.mem_cons_self)
      · intro m hmR hnm x hx
        by_cases hmn : m = n
        · subst hmn; exact f2 x hx
        · exact f3 m hmR (by simp [List.mem_cons, hmn, hnm]) x hx

/-- `Closed`: every marked node has all its successors marked -/
def Closed (p : Program) (M : Marks) : Prop := ∀ m ∈ M, ∀ x ∈ succs p m, x ∈ M

theorem closed_of_spec (p : Program) {M R : Marks} {ns : List Node} (hc : Closed p M) (h : VisitSpec p M ns R) : Closed p R := by
  intro m hm x hx
  by_cases hmM : m ∈ M
  · exact h.1 (hc m hmM x hx)
  · exact h.2.2 m hm hmM x hx

theorem closed_cons_leaf (p : Program) {M : Marks} {n : Node} (hc : Closed p M) (hn : succs p n = []) : Closed p (n :: M) := by
  intro m hm x hx
  rcases List.mem_cons.mp hm with hm | hm
  · subst hm; simp [hn] at hx
  · exact List.mem_cons_of_mem _ (hc m hm x hx)

/-- the nodes `visit` adds are the node itself and targets of types -/
theorem visit_new (p : Program) : ∀ (k : Nat) (M : Marks) (n m : Node), m ∈ visit p k M n → m ∈ M ∨ m = n ∨ m ∈ allNodes p := by
  intro k
  induction k with
  | zero => intro M n m h; exact Or.inl h
  | succ k ih =>
    intro M n m h
    unfold visit at h
    by_cases hm : n ∈ M
    · simp only [hm, if_true] at h; exact Or.inl h
    · simp only [hm, if_false] at h
      have key : ∀ (ns : List Node) (M0 : Marks), (∀ x ∈ ns, x ∈ allNodes p) → m ∈ ns.foldl (visit p k) M0 → m ∈ M0 ∨ m ∈ allNodes p := by
        intro ns
        induction ns with
        | nil => intro M0 _ h; exact Or.inl h
        | cons a as iha =>
          intro M0 hall h
          simp only [List.foldl_cons] at h
          rcases iha (visit p k M0 a) (fun x hx => hall x (List.mem_cons_of_mem _ hx)) h with h | h
          · rcases ih M0 a m h with h | h | h
            · exact Or.inl h
            · subst h; exact Or.inr (hall _ (List.mem_cons_self))
            · exact Or.inr h
          · exact Or.inr h
      rcases key (succs p n) (n :: M) (fun x hx => succs_sub p hx) h with h | h
      · rcases List.mem_cons.mp h with h | h
        · exact Or.inr (Or.inl h)
        · exact Or.inl h
      · exact Or.inr (Or.inr h)

/-- exactness of one visit: a predicate closed under successors that holds of the visited node
holds of every declaration node added -/
theorem visit_just (p : Program) (Q : Node → Prop) (hQ : ∀ m x, Q m → x ∈ succs p m → Q x) :
    ∀ (k : Nat) (M : Marks) (n : Node), (∀ m ∈ M, m.isDecl = true → Q m) → Q n →
      ∀ m ∈ visit p k M n, m.isDecl = true → Q m := by
  intro k
  induction k with
  | zero => intro M n hM _ m hm; exact hM m hm
  | succ k ih =>
    intro M n hM hn
    unfold visit
    by_cases hm : n ∈ M
    · simp only [hm, if_true]; exact hM
    · simp only [hm, if_false]
      have key : ∀ (ns : List Node) (M0 : Marks), (∀ x ∈ ns, Q x) → (∀ m ∈ M0, m.isDecl = true → Q m) →
          ∀ m ∈ ns.foldl (visit p k) M0, m.isDecl = true → Q m := by
        intro ns
        induction ns with
        | nil => intro M0 _ h; exact h
        | cons a as iha =>
          intro M0 hall h
          simp only [List.foldl_cons]
          exact iha (visit p k M0 a) (fun x hx => hall x (List.mem_cons_of_mem _ hx))
            (ih M0 a h (hall a (List.mem_cons_self)))
      apply key (succs p n) (n :: M) (fun x hx => hQ n x hn hx)
      intro m hm' hd
      rcases List.mem_cons.mp hm' with hm' | hm'
      · subst hm'; exact hn
      · exact hM m hm' hd


/-! ### mark-set invariants through markType / markTypes / markFunction -/

theorem fold_new (p : Program) (k : Nat) : ∀ (ns : List Node) (M0 : Marks) (m : Node), (∀ x ∈ ns, x ∈ allNodes p) →
    m ∈ ns.foldl (visit p k) M0 → m ∈ M0 ∨ m ∈ allNodes p := by
  intro ns
  induction ns with
  | nil => intro M0 m _ h; exact Or.inl h
  | cons a as iha =>
    intro M0 m hall h
    simp only [List.foldl_cons] at h
    rcases iha (visit p k M0 a) m (fun x hx => hall x (List.mem_cons_of_mem _ hx)) h with h | h
    · rcases visit_new p k M0 a m h with h | h | h
      · exact Or.inl h
      · subst h; exact Or.inr (hall _ (List.mem_cons_self))
      · exact Or.inr h
    · exact Or.inr h

theorem fold_just (p : Program) (Q : Node → Prop) (hQ : ∀ m x, Q m → x ∈ succs p m → Q x) (k : Nat) :
    ∀ (ns : List Node) (M0 : Marks), (∀ x ∈ ns, Q x) → (∀ m ∈ M0, m.isDecl = true → Q m) →
      ∀ m ∈ ns.foldl (visit p k) M0, m.isDecl = true → Q m := by
  intro ns
  induction ns with
  | nil => intro M0 _ h; exact h
  | cons a as iha =>
    intro M0 hall h
    simp only [List.foldl_cons]
    exact iha (visit p k M0 a) (fun x hx => hall x (List.mem_cons_of_mem _ hx))
      (visit_just p Q hQ k M0 a h (hall a (List.mem_cons_self)))

/-- closed, and every declaration mark satisfies `Q` -/
structure MInv (p : Program) (Q : Node → Prop) (M : Marks) : Prop where
  closed : Closed p M
  just : ∀ m ∈ M, m.isDecl = true → Q m

/-- the effect of a marking step on the mark set -/
structure Grows (p : Program) (M R : Marks) : Prop where
  sub : M ⊆ R
  new : ∀ m ∈ R, m ∈ M ∨ m ∈ allNodes p

theorem Grows.refl (p : Program) (M : Marks) : Grows p M M := ⟨fun _ h => h, fun _ h => Or.inl h⟩

theorem Grows.trans {p : Program} {A B C : Marks} (h1 : Grows p A B) (h2 : Grows p B C) : Grows p A C :=
  ⟨fun _ h => h2.sub (h1.sub h), fun m h => by
    rcases h2.new m h with h | h
    · exact h1.new m h
    · exact Or.inr h⟩

theorem visitList_inv (p : Program) (Q : Node → Prop) (hQ : ∀ m x, Q m → x ∈ succs p m → Q x)
    (ns : List Node) (M : Marks) (hall : ∀ n ∈ ns, n ∈ allNodes p) (hq : ∀ n ∈ ns, Q n) (h : MInv p Q M) :
    MInv p Q (ns.foldl (visit p (fuelN p)) M) ∧ Grows p M (ns.foldl (visit p (fuelN p)) M) ∧
      (∀ n ∈ ns, n ∈ ns.foldl (visit p (fuelN p)) M) := by
  have sp := fold_spec p (fuelN p) (fun M n _ hn => visit_spec p (fuelN p) M n (unmarked_lt_fuel p M) hn)
    ns M (unmarked_lt_fuel p M) hall
  exact ⟨⟨closed_of_spec p h.closed sp, fold_just p Q hQ _ ns M hq h.just⟩,
    ⟨sp.1, fun m hm => fold_new p _ ns M m hall hm⟩, sp.2.1⟩

theorem markType_inv (p : Program) (Q : Node → Prop) (hQ : ∀ m x, Q m → x ∈ succs p m → Q x)
    (f : Nat) (M : Marks) (ty : Ty) (hq : ∀ x ∈ tyTargets p f ty, Q x) (h : MInv p Q M) :
    MInv p Q (markType p f M ty) ∧ Grows p M (markType p f M ty) ∧ (∀ x ∈ tyTargets p f ty, x ∈ markType p f M ty) :=
  visitList_inv p Q hQ _ M (fun _ hn => tyTargets_sub p f ty hn) hq h

theorem markTypes_inv (p : Program) (Q : Node → Prop) (hQ : ∀ m x, Q m → x ∈ succs p m → Q x) (f : Nat) :
    ∀ (tys : List Ty) (M : Marks), (∀ ty ∈ tys, ∀ x ∈ tyTargets p f ty, Q x) → MInv p Q M →
      MInv p Q (markTypes p f M tys) ∧ Grows p M (markTypes p f M tys) ∧
        (∀ ty ∈ tys, ∀ x ∈ tyTargets p f ty, x ∈ markTypes p f M tys) := by
  intro tys
  induction tys with
  | nil => intro M _ h; exact ⟨h, Grows.refl p M, by simp⟩
  | cons t ts ih =>
    intro M hq h
    obtain ⟨a1, a2, a3⟩ := markType_inv p Q hQ f M t (hq t (List.mem_cons_self)) h
    obtain ⟨b1, b2, b3⟩ := ih (markType p f M t) (fun ty hty => hq ty (List.mem_cons_of_mem _ hty)) a1
    refine ⟨b1, a2.trans b2, ?_⟩
    intro ty hty x hx
    rcases List.mem_cons.mp hty with hty | hty
    · subst hty; exact b2.sub (a3 x hx)
    · exact b3 ty hty x hx

/-- every function mark is the mark of a function of that name all of whose types' targets are marked -/
def FnJust (p : Program) (M : Marks) : Prop :=
  ∀ f s n, Node.fn f s n ∈ M → ∃ svc ∈ (p.file f).services, svc.name = s ∧ ∃ fn ∈ svc.fns, fn.name = n ∧
    ∀ ty ∈ fn.types, ∀ x ∈ tyTargets p f ty, x ∈ M

theorem FnJust.grows {p : Program} {M R : Marks} (h : FnJust p M) (g : Grows p M R) : FnJust p R := by
  intro f s n hn
  rcases g.new _ hn with hn | hn
  · obtain ⟨svc, hs, e1, fn, hf, e2, ht⟩ := h f s n hn
    exact ⟨svc, hs, e1, fn, hf, e2, fun ty hty x hx => g.sub (ht ty hty x hx)⟩
  · have := allNodes_isTarget p hn
    simp [Node.isTarget] at this

theorem MInv.cons_leaf {p : Program} {Q : Node → Prop} {M : Marks} (h : MInv p Q M) (n : Node)
    (hs : succs p n = []) (hd : n.isDecl = false) : MInv p Q (n :: M) :=
  ⟨closed_cons_leaf p h.closed hs, fun m hm hdm => by
    rcases List.mem_cons.mp hm with hm | hm
    · subst hm; rw [hd] at hdm; cases hdm
    · exact h.just m hm hdm⟩

/-- a step that may also add service / function / include marks -/
structure Grows' (p : Program) (M R : Marks) : Prop where
  sub : M ⊆ R
  new : ∀ m ∈ R, m ∈ M ∨ m.isDecl = false ∨ m ∈ allNodes p

theorem markFunction_inv (p : Program) (Q : Node → Prop) (hQ : ∀ m x, Q m → x ∈ succs p m → Q x)
    (f : Nat) (svc : Service) (fn : Function) (M : Marks)
    (hs : svc ∈ (p.file f).services) (hf : fn ∈ svc.fns)
    (hq : ∀ ty ∈ fn.types, ∀ x ∈ tyTargets p f ty, Q x) (h : MInv p Q M) (hj : FnJust p M) :
    MInv p Q (markFunction p f svc.name M fn) ∧ FnJust p (markFunction p f svc.name M fn) ∧
      M ⊆ markFunction p f svc.name M fn ∧ Node.fn f svc.name fn.name ∈ markFunction p f svc.name M fn := by
  unfold markFunction
  have h0 : MInv p Q (Node.fn f svc.name fn.name :: M) := h.cons_leaf _ rfl rfl
  obtain ⟨a1, a2, a3⟩ := markTypes_inv p Q hQ f fn.types _ hq h0
  refine ⟨a1, ?_, fun _ hm => a2.sub (List.mem_cons_of_mem _ hm), a2.sub (List.mem_cons_self)⟩
  intro f' s' n' hn
  rcases a2.new _ hn with hn | hn
  · rcases List.mem_cons.mp hn with hn | hn
    · cases hn
      exact ⟨svc, hs, rfl, fn, hf, rfl, a3⟩
    · obtain ⟨svc', hs', e1, fn', hf', e2, ht⟩ := hj f' s' n' hn
      exact ⟨svc', hs', e1, fn', hf', e2, fun ty hty x hx => a2.sub (List.mem_cons_of_mem _ (ht ty hty x hx))⟩
  · have := allNodes_isTarget p hn
    simp [Node.isTarget] at this


/-! ### plain monotonicity (no hypotheses) -/

theorem fold_sub_of {α : Type} (g : Marks → α → Marks) (hg : ∀ M a, M ⊆ g M a) : ∀ (l : List α) (M : Marks), M ⊆ l.foldl g M := by
  intro l
  induction l with
  | nil => intro M _ h; exact h
  | cons a as ih => intro M x h; exact ih (g M a) (hg M a h)

theorem visit_sub (p : Program) : ∀ (k : Nat) (M : Marks) (n : Node), M ⊆ visit p k M n := by
  intro k
  induction k with
  | zero => intro M n _ h; exact h
  | succ k ih =>
    intro M n x h
    unfold visit
    by_cases hm : n ∈ M
    · simp only [hm, if_true]; exact h
    · simp only [hm, if_false]
      exact fold_sub_of (visit p k) (ih) (succs p n) (n :: M) (List.mem_cons_of_mem _ h)

theorem markType_sub (p : Program) (f : Nat) (M : Marks) (ty : Ty) : M ⊆ markType p f M ty :=
  fold_sub_of _ (visit_sub p _) _ M

theorem markTypes_sub (p : Program) (f : Nat) (M : Marks) (tys : List Ty) : M ⊆ markTypes p f M tys :=
  fold_sub_of _ (markType_sub p f) _ M

theorem markFunction_sub (p : Program) (f : Nat) (s : Bytes) (M : Marks) (fn : Function) : M ⊆ markFunction p f s M fn :=
  fun _ h => markTypes_sub p f _ _ (List.mem_cons_of_mem _ h)

theorem markFunction_mem (p : Program) (f : Nat) (s : Bytes) (M : Marks) (fn : Function) :
    Node.fn f s fn.name ∈ markFunction p f s M fn :=
  markTypes_sub p f _ _ (List.mem_cons_self)

theorem insInc_sub (f i : Nat) (M : Marks) : M ⊆ insInc f i M := by
  intro x h
  unfold insInc
  split
  · exact h
  · exact List.mem_cons_of_mem _ h

theorem insInc_mem (f i : Nat) (M : Marks) : Node.inc f i ∈ insInc f i M := by
  unfold insInc
  split
  · assumption
  · exact List.mem_cons_self

/-! ### state invariants -/

theorem reach_closed (p : Program) (cfg : Cfg) (Mf : Marks) :
    ∀ m x, Reach p cfg Mf m → x ∈ succs p m → Reach p cfg Mf x :=
  fun m x h hx => Reach.step h ((edge_iff p m x).mpr hx)

/-- what markKeptPart leaves marked for file `f` -/
def KeptOK (p : Program) (cfg : Cfg) (f : Nat) (M : Marks) : Prop :=
  (∀ c ∈ (p.file f).consts, ∀ x ∈ tyTargets p f c.ty, x ∈ M) ∧
  (∀ t ∈ (p.file f).typedefs, ∀ x ∈ tyTargets p f t.ty, x ∈ M) ∧
  (∀ ks ∈ (p.file f).sls, checkPreserve cfg ks.2 = true → Node.sl f ks.1 ks.2.name ∈ M)

theorem KeptOK.mono {p : Program} {cfg : Cfg} {f : Nat} {M R : Marks} (h : KeptOK p cfg f M) (hs : M ⊆ R) : KeptOK p cfg f R :=
  ⟨fun c hc x hx => hs (h.1 c hc x hx), fun t ht x hx => hs (h.2.1 t ht x hx), fun ks hk hp => hs (h.2.2 ks hk hp)⟩

structure Inv (p : Program) (cfg : Cfg) (Mf : Marks) (st : St) : Prop where
  m : MInv p (Reach p cfg Mf) st.marks
  fnj : FnJust p st.marks
  kept : ∀ f r, (f, r) ∈ st.cache → KeptOK p cfg f st.marks

theorem Inv.step {p : Program} {cfg : Cfg} {Mf : Marks} {st : St} (h : Inv p cfg Mf st) (st' : St)
    (hc : st'.cache = st.cache) (hsub : st.marks ⊆ st'.marks)
    (hm : MInv p (Reach p cfg Mf) st'.marks) (hj : FnJust p st'.marks) : Inv p cfg Mf st' :=
  ⟨hm, hj, fun f r hfr => (h.kept f r (hc ▸ hfr)).mono hsub⟩

theorem FnJust.cons_other {p : Program} {M : Marks} (h : FnJust p M) (n : Node) (hn : ∀ f s x, n ≠ Node.fn f s x) :
    FnJust p (n :: M) := by
  intro f s x hx
  rcases List.mem_cons.mp hx with hx | hx
  · exact absurd hx.symm (hn f s x)
  · obtain ⟨svc, hs, e1, fn, hf, e2, ht⟩ := h f s x hx
    exact ⟨svc, hs, e1, fn, hf, e2, fun ty hty y hy => List.mem_cons_of_mem _ (ht ty hty y hy)⟩

theorem MInv.insInc {p : Program} {Q : Node → Prop} {M : Marks} (h : MInv p Q M) (f i : Nat) : MInv p Q (insInc f i M) := by
  unfold Trim.insInc
  split
  · exact h
  · exact h.cons_leaf _ rfl rfl

theorem FnJust.insInc {p : Program} {M : Marks} (h : FnJust p M) (f i : Nat) : FnJust p (insInc f i M) := by
  unfold Trim.insInc
  split
  · exact h
  · exact h.cons_other _ (fun _ _ _ => by simp)

theorem fn_targets_reach (p : Program) (cfg : Cfg) (Mf : Marks) {f : Nat} {svc : Service} {fn : Function}
    (hs : svc ∈ (p.file f).services) (hf : fn ∈ svc.fns) (hm : Node.fn f svc.name fn.name ∈ Mf) :
    ∀ ty ∈ fn.types, ∀ x ∈ tyTargets p f ty, Reach p cfg Mf x :=
  fun ty hty x hx => Reach.root (Root.fn hs hf hm hty (tyRef_of_mem p f ty x hx))

/-- `markFunction` on a state (with or without marking the service first) -/
theorem markFn_inv (p : Program) (cfg : Cfg) (Mf : Marks) {f : Nat} {svc : Service} {fn : Function} {st : St}
    (hs : svc ∈ (p.file f).services) (hf : fn ∈ svc.fns) (M0 : Marks)
    (h0 : MInv p (Reach p cfg Mf) M0) (j0 : FnJust p M0) (hsub0 : st.marks ⊆ M0)
    (h : Inv p cfg Mf st) (hMf : markFunction p f svc.name M0 fn ⊆ Mf) :
    Inv p cfg Mf { st with marks := markFunction p f svc.name M0 fn } := by
  have hq := fn_targets_reach p cfg Mf hs hf (hMf (markFunction_mem p f svc.name M0 fn))
  obtain ⟨a1, a2, a3, _⟩ := markFunction_inv p _ (reach_closed p cfg Mf) f svc fn M0 hs hf hq h0 j0
  exact h.step _ rfl (fun _ hx => a3 (hsub0 hx)) a1 a2

theorem markSvcFn_sub (p : Program) (f : Nat) (svc : Service) (st : St) (fn : Function) :
    st.marks ⊆ (markSvcFn p f svc st fn).marks :=
  fun _ h => markFunction_sub p f _ _ fn (List.mem_cons_of_mem _ h)

theorem markSvcFn_inv (p : Program) (cfg : Cfg) (Mf : Marks) {f : Nat} {svc : Service} {fn : Function} {st : St}
    (hs : svc ∈ (p.file f).services) (hf : fn ∈ svc.fns)
    (h : Inv p cfg Mf st) (hMf : (markSvcFn p f svc st fn).marks ⊆ Mf) :
    Inv p cfg Mf (markSvcFn p f svc st fn) :=
  markFn_inv p cfg Mf hs hf (Node.svc f svc.name :: st.marks) (h.m.cons_leaf _ rfl rfl)
    (h.fnj.cons_other _ (fun _ _ _ => by simp)) (fun _ hx => List.mem_cons_of_mem _ hx) h hMf

/-- a step of a fold over (a suffix of) the functions of a service -/
structure StepOK (p : Program) (cfg : Cfg) (Mf : Marks) (svc : Service) (g : St → Function → St) : Prop where
  sub : ∀ st fn, st.marks ⊆ (g st fn).marks
  cache : ∀ st fn, (g st fn).cache = st.cache
  inv : ∀ st fn, fn ∈ svc.fns → Inv p cfg Mf st → (g st fn).marks ⊆ Mf → Inv p cfg Mf (g st fn)

theorem foldFns_sub {g : St → Function → St} (hsub : ∀ st fn, st.marks ⊆ (g st fn).marks)
    (hcache : ∀ st fn, (g st fn).cache = st.cache) :
    ∀ (fns : List Function) (st : St), st.marks ⊆ (fns.foldl g st).marks ∧ (fns.foldl g st).cache = st.cache := by
  intro fns
  induction fns with
  | nil => intro st; exact ⟨fun _ h => h, rfl⟩
  | cons a as ih =>
    intro st
    obtain ⟨i1, i2⟩ := ih (g st a)
    exact ⟨fun _ h => i1 (hsub st a h), by simp only [List.foldl_cons]; rw [i2, hcache]⟩

theorem foldFns_inv {p : Program} {cfg : Cfg} {Mf : Marks} {svc : Service} {g : St → Function → St}
    (ok : StepOK p cfg Mf svc g) :
    ∀ (fns : List Function) (st : St), (∀ fn ∈ fns, fn ∈ svc.fns) → Inv p cfg Mf st →
      (fns.foldl g st).marks ⊆ Mf → Inv p cfg Mf (fns.foldl g st) := by
  intro fns
  induction fns with
  | nil => intro st _ h _; exact h
  | cons a as ih =>
    intro st hall h hMf
    simp only [List.foldl_cons] at hMf ⊢
    have hs1 := (foldFns_sub ok.sub ok.cache as (g st a)).1
    exact ih (g st a) (fun fn hfn => hall fn (List.mem_cons_of_mem _ hfn))
      (ok.inv st a (hall a (List.mem_cons_self)) h (fun _ hx => hMf (hs1 hx))) hMf

theorem traceStep_ok (p : Program) (cfg : Cfg) (Mf : Marks) (ms fathers : List Bytes) {f : Nat} {svc : Service}
    (hs : svc ∈ (p.file f).services) : StepOK p cfg Mf svc (traceStep p cfg ms fathers f svc) := by
  refine ⟨?_, ?_, ?_⟩
  · intro st fn
    unfold traceStep
    split
    · exact markSvcFn_sub p f svc st fn
    · exact fun _ h => h
  · intro st fn
    unfold traceStep
    split <;> rfl
  · intro st fn hf h hMf
    unfold traceStep at hMf ⊢
    split
    · rename_i hh
      simp only [hh, if_true] at hMf
      exact markSvcFn_inv p cfg Mf hs hf h hMf
    · exact h

theorem svcStep_ok (p : Program) (cfg : Cfg) (Mf : Marks) (ms : List Bytes) {f : Nat} {svc : Service}
    (hs : svc ∈ (p.file f).services) : StepOK p cfg Mf svc (svcStep p cfg ms f svc) := by
  refine ⟨?_, ?_, ?_⟩
  · intro st fn
    unfold svcStep
    split
    · exact markFunction_sub p f _ _ fn
    · split
      · exact markSvcFn_sub p f svc st fn
      · exact fun _ h => h
  · intro st fn
    unfold svcStep
    split
    · rfl
    · split <;> rfl
  · intro st fn hf h hMf
    unfold svcStep at hMf ⊢
    split
    · rename_i hh
      simp only [hh, if_true] at hMf
      exact markFn_inv p cfg Mf hs hf st.marks h.m h.fnj (fun _ hx => hx) h hMf
    · rename_i hh
      simp only [hh] at hMf
      split
      · rename_i h2
        simp only [h2, if_true] at hMf
        exact markSvcFn_inv p cfg Mf hs hf h hMf
      · exact h



/-- marks only grow, the cache is untouched -/
def Ext (st st' : St) : Prop := st.marks ⊆ st'.marks ∧ st'.cache = st.cache ∧ (st.crash = true → st'.crash = true)

theorem Ext.refl (st : St) : Ext st st := ⟨fun _ h => h, rfl, fun h => h⟩
theorem Ext.trans {a b c : St} (h1 : Ext a b) (h2 : Ext b c) : Ext a c :=
  ⟨fun _ h => h2.1 (h1.1 h), h2.2.1.trans h1.2.1, fun h => h2.2.2 (h1.2.2 h)⟩

theorem finMarks_sub (cfg : Cfg) (f : Nat) (svc : Service) (back : Bool) (M : Marks) :
    Node.svc f svc.name :: M ⊆ finMarks cfg f svc back M := by
  unfold finMarks
  split
  · split
    · exact fun _ h => h
    · exact insInc_sub _ _ _
  · exact fun _ h => h

theorem finMarks_inv {p : Program} {Q : Node → Prop} {M : Marks} (cfg : Cfg) (f : Nat) (svc : Service) (back : Bool)
    (h : MInv p Q M) (hj : FnJust p M) :
    MInv p Q (finMarks cfg f svc back M) ∧ FnJust p (finMarks cfg f svc back M) := by
  have h1 := h.cons_leaf (Node.svc f svc.name) rfl rfl
  have j1 := hj.cons_other (Node.svc f svc.name) (fun _ _ _ => by simp)
  unfold finMarks
  split
  · split
    · exact ⟨h1, j1⟩
    · exact ⟨h1.insInc _ _, j1.insInc _ _⟩
  · exact ⟨h1, j1⟩

theorem traceFinish_ext (cfg : Cfg) (f : Nat) (svc : Service) (back : Bool) (s : St) (b : Bool) :
    Ext s (traceFinish cfg f svc back (s, b)).1 := by
  unfold traceFinish
  simp only
  split
  · exact ⟨fun x hx => finMarks_sub cfg f svc back _ (List.mem_cons_of_mem _ hx), rfl, fun h => h⟩
  · exact Ext.refl _

theorem traceFinish_inv (p : Program) (cfg : Cfg) (Mf : Marks) (f : Nat) (svc : Service) (back : Bool) (s : St) (b : Bool)
    (h : Inv p cfg Mf s) : Inv p cfg Mf (traceFinish cfg f svc back (s, b)).1 := by
  unfold traceFinish
  simp only
  split
  · obtain ⟨a1, a2⟩ := finMarks_inv cfg f svc back h.m h.fnj
    exact h.step _ rfl (fun x hx => finMarks_sub cfg f svc back _ (List.mem_cons_of_mem _ hx)) a1 a2
  · exact h

theorem traceStep_ext (p : Program) (cfg : Cfg) (ms fathers : List Bytes) (f : Nat) (svc : Service) (st : St) (fn : Function) :
    Ext st (traceStep p cfg ms fathers f svc st fn) := by
  unfold traceStep
  split
  · exact ⟨markSvcFn_sub p f svc st fn, rfl, fun h => h⟩
  · exact Ext.refl _

theorem foldFns_ext {g : St → Function → St} (hg : ∀ st fn, Ext st (g st fn)) :
    ∀ (fns : List Function) (st : St), Ext st (fns.foldl g st) := by
  intro fns
  induction fns with
  | nil => intro st; exact Ext.refl _
  | cons a as ih => intro st; exact (hg st a).trans (ih (g st a))

theorem afterBack_same (cfg : Cfg) (f : Nat) (svc : Service) (r : St × Bool) :
    (afterBack cfg f svc r).marks = r.1.marks ∧ (afterBack cfg f svc r).cache = r.1.cache ∧
      (afterBack cfg f svc r).crash = r.1.crash := by
  unfold afterBack
  split
  · split <;> exact ⟨rfl, rfl, rfl⟩
  · exact ⟨rfl, rfl, rfl⟩

theorem afterBack_ext (cfg : Cfg) (f : Nat) (svc : Service) (r : St × Bool) : Ext r.1 (afterBack cfg f svc r) := by
  obtain ⟨h1, h2, h3⟩ := afterBack_same cfg f svc r
  exact ⟨h1 ▸ fun _ h => h, h2, fun h => h3 ▸ h⟩

theorem trace_ext (p : Program) (cfg : Cfg) (ms : List Bytes) : ∀ (j : Nat) (fathers : List Bytes) (f : Nat) (svc : Service) (st : St),
    Ext st (trace p cfg ms j fathers f svc st).1 := by
  intro j
  induction j with
  | zero => intro fathers f svc st; exact ⟨fun _ h => h, rfl, fun _ => rfl⟩
  | succ j ih =>
    intro fathers f svc st
    have hfold := foldFns_ext (traceStep_ext p cfg ms fathers f svc) svc.fns st
    unfold trace
    simp only
    generalize svc.fns.foldl (traceStep p cfg ms fathers f svc) st = st1 at hfold ⊢
    split
    · split
      · exact hfold.trans (Ext.trans (b := { st1 with crash := true }) ⟨fun _ h => h, rfl, fun _ => rfl⟩ (traceFinish_ext cfg f svc _ _ _))
      · rename_i g b _
        have i := ih (fathers ++ [b.name]) g b st1
        generalize trace p cfg ms j (fathers ++ [b.name]) g b st1 = r at i ⊢
        exact hfold.trans (i.trans ((afterBack_ext cfg f svc r).trans (traceFinish_ext cfg f svc _ _ _)))
    · exact hfold.trans (traceFinish_ext cfg f svc _ _ _)

theorem Inv.same {p : Program} {cfg : Cfg} {Mf : Marks} {st : St} (h : Inv p cfg Mf st) (st' : St)
    (hm : st'.marks = st.marks) (hc : st'.cache = st.cache) : Inv p cfg Mf st' :=
  h.step st' hc (hm ▸ fun _ hx => hx) (hm ▸ h.m) (hm ▸ h.fnj)

theorem findSvc_mem (p : Program) {g : Nat} {n : Bytes} {b : Service} (h : findSvc p g n = some b) : b ∈ (p.file g).services :=
  List.mem_of_find?_eq_some h

theorem nextSvc_mem (p : Program) {f g : Nat} {svc b : Service} (h : nextSvc p f svc = some (g, b)) : b ∈ (p.file g).services := by
  unfold nextSvc at h
  split at h
  · simp only [Option.map_eq_some_iff] at h
    obtain ⟨a, ha, he⟩ := h
    cases he
    exact findSvc_mem p ha
  · split at h
    · cases h
    · simp only [Option.map_eq_some_iff] at h
      obtain ⟨a, ha, he⟩ := h
      cases he
      exact findSvc_mem p ha

theorem trace_inv (p : Program) (cfg : Cfg) (Mf : Marks) (ms : List Bytes) :
    ∀ (j : Nat) (fathers : List Bytes) (f : Nat) (svc : Service) (st : St), svc ∈ (p.file f).services →
      Inv p cfg Mf st → (trace p cfg ms j fathers f svc st).1.marks ⊆ Mf →
      Inv p cfg Mf (trace p cfg ms j fathers f svc st).1 := by
  intro j
  induction j with
  | zero => intro fathers f svc st _ h _; exact h.same _ rfl rfl
  | succ j ih =>
    intro fathers f svc st hs h hMf
    have hfold := foldFns_ext (traceStep_ext p cfg ms fathers f svc) svc.fns st
    have hinv := foldFns_inv (traceStep_ok p cfg Mf ms fathers hs) svc.fns st (fun _ hfn => hfn) h
    revert hMf
    unfold trace
    simp only
    generalize svc.fns.foldl (traceStep p cfg ms fathers f svc) st = st1 at hfold hinv ⊢
    split
    · split
      · intro hMf
        have e := traceFinish_ext cfg f svc false { st1 with crash := true } (svc.fns.any (hitFathers cfg ms fathers))
        exact traceFinish_inv p cfg Mf f svc _ _ _ ((hinv (fun _ hx => hMf (e.1 hx))).same _ rfl rfl)
      · rename_i g b hnext
        have i := ih (fathers ++ [b.name]) g b st1 (nextSvc_mem p hnext)
        have ie := trace_ext p cfg ms j (fathers ++ [b.name]) g b st1
        generalize trace p cfg ms j (fathers ++ [b.name]) g b st1 = r at i ie ⊢
        intro hMf
        have e := traceFinish_ext cfg f svc r.2 (afterBack cfg f svc r) (r.2 || svc.fns.any (hitFathers cfg ms fathers))
        have ea := afterBack_ext cfg f svc r
        obtain ⟨s1, s2, _⟩ := afterBack_same cfg f svc r
        exact traceFinish_inv p cfg Mf f svc _ _ _
          ((i (hinv (fun _ hx => hMf (e.1 (ea.1 (ie.1 hx))))) (fun _ hx => hMf (e.1 (ea.1 hx)))).same _ s1 s2)
    · intro hMf
      have e := traceFinish_ext cfg f svc false st1 (svc.fns.any (hitFathers cfg ms fathers))
      exact traceFinish_inv p cfg Mf f svc _ _ _ (hinv (fun _ hx => hMf (e.1 hx)))

theorem svcStep_ext (p : Program) (cfg : Cfg) (ms : List Bytes) (f : Nat) (svc : Service) (st : St) (fn : Function) :
    Ext st (svcStep p cfg ms f svc st fn) := by
  unfold svcStep
  split
  · exact ⟨markFunction_sub p f _ _ fn, rfl, fun h => h⟩
  · split
    · exact ⟨markSvcFn_sub p f svc st fn, rfl, fun h => h⟩
    · exact Ext.refl _

theorem markService_ext (p : Program) (cfg : Cfg) (ms : List Bytes) : ∀ (j f : Nat) (svc : Service) (st : St),
    Ext st (markService p cfg ms j f svc st) := by
  intro j
  induction j with
  | zero => intro f svc st; exact ⟨fun _ h => h, rfl, fun _ => rfl⟩
  | succ j ih =>
    intro f svc st
    unfold markService
    split
    · exact Ext.refl _
    · simp only
      have e0 : Ext st (if ms.isEmpty = true then { st with marks := Node.svc f svc.name :: st.marks } else st) := by
        split
        · exact ⟨fun _ h => List.mem_cons_of_mem _ h, rfl, fun h => h⟩
        · exact Ext.refl _
      generalize (if ms.isEmpty = true then { st with marks := Node.svc f svc.name :: st.marks } else st) = st0 at e0 ⊢
      have e1 := foldFns_ext (svcStep_ext p cfg ms f svc) svc.fns st0
      generalize svc.fns.foldl (svcStep p cfg ms f svc) st0 = st1 at e1 ⊢
      have e2 : Ext st1 (if (!ms.isEmpty && (decide (svc.ext ≠ []) || svc.ref.isSome)) = true then
          (trace p cfg ms (svcCount p + 1) [svc.name] f svc st1).1 else st1) := by
        split
        · exact trace_ext p cfg ms _ _ f svc st1
        · exact Ext.refl _
      generalize (if (!ms.isEmpty && (decide (svc.ext ≠ []) || svc.ref.isSome)) = true then
          (trace p cfg ms (svcCount p + 1) [svc.name] f svc st1).1 else st1) = st2 at e2 ⊢
      refine e0.trans (e1.trans (e2.trans ?_))
      split
      · split
        · split
          · exact Ext.refl _
          · exact ih _ _ _
        · split
          · exact ⟨fun _ h => h, rfl, fun _ => rfl⟩
          · rename_i i _ _ g _
            have e3 : Ext st2 { st2 with marks := insInc f i st2.marks } := ⟨insInc_sub _ _ _, rfl, fun h => h⟩
            split
            · exact e3
            · exact e3.trans (ih _ _ _)
      · exact Ext.refl _


theorem markService_inv (p : Program) (cfg : Cfg) (Mf : Marks) (ms : List Bytes) : ∀ (j f : Nat) (svc : Service) (st : St),
    svc ∈ (p.file f).services → Inv p cfg Mf st → (markService p cfg ms j f svc st).marks ⊆ Mf →
    Inv p cfg Mf (markService p cfg ms j f svc st) := by
  intro j
  induction j with
  | zero => intro f svc st _ h _; exact h.same _ rfl rfl
  | succ j ih =>
    intro f svc st hs h
    unfold markService
    split
    · intro _; exact h
    · simp only
      have e0 : Ext st (if ms.isEmpty = true then { st with marks := Node.svc f svc.name :: st.marks } else st) := by
        split
        · exact ⟨fun _ h => List.mem_cons_of_mem _ h, rfl, fun h => h⟩
        · exact Ext.refl _
      have i0 : Inv p cfg Mf (if ms.isEmpty = true then { st with marks := Node.svc f svc.name :: st.marks } else st) := by
        split
        · exact h.step _ rfl (fun _ hx => List.mem_cons_of_mem _ hx) (h.m.cons_leaf _ rfl rfl)
            (h.fnj.cons_other _ (fun _ _ _ => by simp))
        · exact h
      generalize (if ms.isEmpty = true then { st with marks := Node.svc f svc.name :: st.marks } else st) = st0 at e0 i0 ⊢
      have e1 := foldFns_ext (svcStep_ext p cfg ms f svc) svc.fns st0
      have i1 := foldFns_inv (svcStep_ok p cfg Mf ms hs) svc.fns st0 (fun _ hfn => hfn) i0
      generalize svc.fns.foldl (svcStep p cfg ms f svc) st0 = st1 at e1 i1 ⊢
      have e2 : Ext st1 (if (!ms.isEmpty && (decide (svc.ext ≠ []) || svc.ref.isSome)) = true then
          (trace p cfg ms (svcCount p + 1) [svc.name] f svc st1).1 else st1) := by
        split
        · exact trace_ext p cfg ms _ _ f svc st1
        · exact Ext.refl _
      have i2 : Inv p cfg Mf st1 → (if (!ms.isEmpty && (decide (svc.ext ≠ []) || svc.ref.isSome)) = true then
          (trace p cfg ms (svcCount p + 1) [svc.name] f svc st1).1 else st1).marks ⊆ Mf →
          Inv p cfg Mf (if (!ms.isEmpty && (decide (svc.ext ≠ []) || svc.ref.isSome)) = true then
          (trace p cfg ms (svcCount p + 1) [svc.name] f svc st1).1 else st1) := by
        split
        · exact fun h1 hm => trace_inv p cfg Mf ms _ _ f svc st1 hs h1 hm
        · exact fun h1 _ => h1
      generalize (if (!ms.isEmpty && (decide (svc.ext ≠ []) || svc.ref.isSome)) = true then
          (trace p cfg ms (svcCount p + 1) [svc.name] f svc st1).1 else st1) = st2 at e2 i2 ⊢
      have fin : st2.marks ⊆ Mf → Inv p cfg Mf st2 := fun hm => i2 (i1 (fun _ hx => hm (e2.1 hx))) hm
      split
      · split
        · split
          · exact fin
          · rename_i b hb
            intro hm
            have e4 := markService_ext p cfg ms j f b st2
            exact ih f b _ (findSvc_mem p hb) (fin (fun _ hx => hm (e4.1 hx))) hm
        · split
          · intro hm; exact (fin hm).same _ rfl rfl
          · rename_i i _ _ g _
            have e3 : Ext st2 { st2 with marks := insInc f i st2.marks } := ⟨insInc_sub _ _ _, rfl, fun h => h⟩
            have i3 : st2.marks ⊆ Mf → Inv p cfg Mf { st2 with marks := insInc f i st2.marks } := fun hm =>
              (fin hm).step _ rfl (insInc_sub _ _ _) ((fin hm).m.insInc _ _) ((fin hm).fnj.insInc _ _)
            split
            · intro hm; exact i3 (fun _ hx => hm (e3.1 hx))
            · rename_i b hb
              intro hm
              have e4 := markService_ext p cfg ms j g b { st2 with marks := insInc f i st2.marks }
              exact ih g b _ (findSvc_mem p hb) (i3 (fun _ hx => hm (e4.1 (e3.1 hx)))) hm
      · exact fin


/-! ### markKeptPart / preProcess -/

theorem mem_sls_iff (file : File) (ks : SLKind × StructLike) : ks ∈ file.sls ↔ ks.2 ∈ file.sl ks.1 := by
  obtain ⟨k, s⟩ := ks
  cases k <;> simp [File.sls, File.sl]

theorem sls_node_mem (p : Program) {f : Nat} {ks : SLKind × StructLike} (h : ks ∈ (p.file f).sls) :
    Node.sl f ks.1 ks.2.name ∈ allNodes p := by
  apply fileNodes_sub p (f := f)
  have := (mem_sls_iff _ ks).mp h
  obtain ⟨k, s⟩ := ks
  simp only [fileNodes, List.mem_append, List.mem_map]
  cases k
  · exact Or.inl (Or.inl (Or.inl (Or.inl (Or.inr ⟨s, this, rfl⟩))))
  · exact Or.inl (Or.inl (Or.inl (Or.inr ⟨s, this, rfl⟩)))
  · exact Or.inl (Or.inl (Or.inr ⟨s, this, rfl⟩))

theorem keptFold_inv (p : Program) (cfg : Cfg) (Q : Node → Prop) (hQ : ∀ m x, Q m → x ∈ succs p m → Q x) (f : Nat) :
    ∀ (l : List (SLKind × StructLike)) (a : Marks × Bool), (∀ ks ∈ l, ks ∈ (p.file f).sls) →
      (∀ ks ∈ l, checkPreserve cfg ks.2 = true → Q (Node.sl f ks.1 ks.2.name)) → MInv p Q a.1 →
      MInv p Q (l.foldl (keptStep p cfg f) a).1 ∧ Grows p a.1 (l.foldl (keptStep p cfg f) a).1 ∧
        (∀ ks ∈ l, checkPreserve cfg ks.2 = true → Node.sl f ks.1 ks.2.name ∈ (l.foldl (keptStep p cfg f) a).1) := by
  intro l
  induction l with
  | nil => intro a _ _ h; exact ⟨h, Grows.refl p _, by simp⟩
  | cons ks l ih =>
    intro a hall hq h
    have hstep : MInv p Q (keptStep p cfg f a ks).1 ∧ Grows p a.1 (keptStep p cfg f a ks).1 ∧
        (checkPreserve cfg ks.2 = true → Node.sl f ks.1 ks.2.name ∈ (keptStep p cfg f a ks).1) := by
      unfold keptStep
      split
      · rename_i hc
        simp only [Bool.and_eq_true] at hc
        have := visitList_inv p Q hQ [Node.sl f ks.1 ks.2.name] a.1
          (fun n hn => by rw [List.mem_singleton.mp hn]; exact sls_node_mem p (hall ks (List.mem_cons_self)))
          (fun n hn => by rw [List.mem_singleton.mp hn]; exact hq ks (List.mem_cons_self) hc.2) h
        simp only [List.foldl_cons, List.foldl_nil] at this
        exact ⟨this.1, this.2.1, fun _ => this.2.2 _ (List.mem_singleton.mpr rfl)⟩
      · rename_i hc
        refine ⟨h, Grows.refl p _, fun hp => ?_⟩
        simp only [Bool.and_eq_true, hp, and_true, Bool.not_eq_true', Bool.not_eq_false] at hc
        exact List.contains_iff_mem.mp hc
    obtain ⟨s1, s2, s3⟩ := hstep
    obtain ⟨t1, t2, t3⟩ := ih (keptStep p cfg f a ks) (fun x hx => hall x (List.mem_cons_of_mem _ hx))
      (fun x hx => hq x (List.mem_cons_of_mem _ hx)) s1
    simp only [List.foldl_cons]
    refine ⟨t1, s2.trans t2, ?_⟩
    intro x hx hp
    rcases List.mem_cons.mp hx with hx | hx
    · subst hx; exact t2.sub (s3 hp)
    · exact t3 x hx hp

theorem cacheGet_mem : ∀ (c : List (Nat × Bool)) (f : Nat) (r : Bool), cacheGet c f = some r → (f, r) ∈ c := by
  intro c
  induction c with
  | nil => intro f r h; simp [cacheGet] at h
  | cons x c ih =>
    intro f r h
    obtain ⟨g, b⟩ := x
    unfold cacheGet at h
    split at h
    · rename_i hg
      cases h
      subst hg
      exact List.mem_cons_self
    · exact List.mem_cons_of_mem _ (ih f r h)

/-- marks and cache only grow -/
def Mono (st st' : St) : Prop := st.marks ⊆ st'.marks ∧ st.cache ⊆ st'.cache ∧ (st.crash = true → st'.crash = true)

theorem Mono.refl (st : St) : Mono st st := ⟨fun _ h => h, fun _ h => h, fun h => h⟩
theorem Mono.trans {a b c : St} (h1 : Mono a b) (h2 : Mono b c) : Mono a c :=
  ⟨fun _ h => h2.1 (h1.1 h), fun _ h => h2.2.1 (h1.2.1 h), fun h => h2.2.2 (h1.2.2 h)⟩
theorem Ext.mono {a b : St} (h : Ext a b) : Mono a b := ⟨h.1, fun _ hx => h.2.1 ▸ hx, h.2.2⟩

theorem keptFold_sub (p : Program) (cfg : Cfg) (f : Nat) : ∀ (l : List (SLKind × StructLike)) (a : Marks × Bool),
    a.1 ⊆ (l.foldl (keptStep p cfg f) a).1 := by
  intro l
  induction l with
  | nil => intro a _ h; exact h
  | cons ks l ih =>
    intro a x hx
    apply ih (keptStep p cfg f a ks)
    unfold keptStep
    split
    · exact visit_sub p _ _ _ hx
    · exact hx

theorem markKeptPart_mono (p : Program) (cfg : Cfg) (f : Nat) (st : St) : Mono st (markKeptPart p cfg f st).1 := by
  unfold markKeptPart
  split
  · exact Mono.refl _
  · simp only
    refine ⟨?_, fun _ h => List.mem_cons_of_mem _ h, fun h => h⟩
    intro x hx
    have h1 := markTypes_sub p f _ ((p.file f).typedefs.map (·.ty)) (markTypes_sub p f st.marks ((p.file f).consts.map (·.ty)) hx)
    split
    · exact h1
    · exact keptFold_sub p cfg f _ _ h1

theorem markKeptPart_cached (p : Program) (cfg : Cfg) (f : Nat) (st : St) : ∃ r, (f, r) ∈ (markKeptPart p cfg f st).1.cache := by
  unfold markKeptPart
  split
  · rename_i r hr
    exact ⟨r, cacheGet_mem _ _ _ hr⟩
  · exact ⟨_, List.mem_cons_self⟩

theorem checkPreserve_force {cfg : Cfg} (h : cfg.force = true) (s : StructLike) : checkPreserve cfg s = false := by
  simp [checkPreserve, h]

theorem markKeptPart_inv (p : Program) (cfg : Cfg) (Mf : Marks) (f : Nat) (st : St) (hr : InclReach p f)
    (h : Inv p cfg Mf st) : Inv p cfg Mf (markKeptPart p cfg f st).1 := by
  unfold markKeptPart
  split
  · exact h
  · simp only
    have hQ := reach_closed p cfg Mf
    obtain ⟨a1, a2, a3⟩ := markTypes_inv p _ hQ f ((p.file f).consts.map (·.ty)) st.marks
      (fun ty hty x hx => by
        obtain ⟨c, hc, rfl⟩ := List.mem_map.mp hty
        exact Reach.root (Root.const hr hc (tyRef_of_mem p f _ _ hx))) h.m
    obtain ⟨b1, b2, b3⟩ := markTypes_inv p _ hQ f ((p.file f).typedefs.map (·.ty)) _
      (fun ty hty x hx => by
        obtain ⟨t, ht, rfl⟩ := List.mem_map.mp hty
        exact Reach.root (Root.typedef hr ht (tyRef_of_mem p f _ _ hx))) a1
    generalize markTypes p f (markTypes p f st.marks ((p.file f).consts.map (·.ty))) ((p.file f).typedefs.map (·.ty)) = M1 at b1 b2 b3
    have g01 : Grows p st.marks M1 := a2.trans b2
    have hfin : ∀ (R : Marks) (b : Bool), MInv p (Reach p cfg Mf) R → Grows p M1 R →
        (∀ ks ∈ (p.file f).sls, checkPreserve cfg ks.2 = true → Node.sl f ks.1 ks.2.name ∈ R) →
        Inv p cfg Mf { st with marks := R, cache := (f, b) :: st.cache } := by
      intro R b mR gR hpres
      have g := g01.trans gR
      refine ⟨mR, h.fnj.grows g, ?_⟩
      intro f' r' hfr
      rcases List.mem_cons.mp hfr with hfr | hfr
      · cases hfr
        refine ⟨?_, ?_, hpres⟩
        · intro c hc x hx
          exact gR.sub (b2.sub (a3 _ (List.mem_map.mpr ⟨c, hc, rfl⟩) x hx))
        · intro t ht x hx
          exact gR.sub (b3 _ (List.mem_map.mpr ⟨t, ht, rfl⟩) x hx)
      · exact (h.kept f' r' hfr).mono g.sub
    split
    · rename_i hforce
      exact hfin M1 _ b1 (Grows.refl p _) (fun ks _ hp => by rw [checkPreserve_force hforce] at hp; cases hp)
    · obtain ⟨c1, c2, c3⟩ := keptFold_inv p cfg _ hQ f (p.file f).sls
        (M1, !(p.file f).consts.isEmpty || !(p.file f).typedefs.isEmpty) (fun _ hk => hk)
        (fun ks hk hp => Reach.root (Root.preserved hr ((mem_sls_iff _ ks).mp hk) hp)) b1
      exact hfin _ _ c1 c2 c3


inductive Path (p : Program) : Nat → Nat → Prop
  | refl (f : Nat) : Path p f f
  | step {f i g h : Nat} : p.incTarget f i = some g → Path p g h → Path p f h

theorem Path.snoc {p : Program} {a b c i : Nat} (h : Path p a b) (hi : p.incTarget b i = some c) : Path p a c := by
  induction h with
  | refl f => exact Path.step hi (Path.refl _)
  | step h1 _ ih => exact Path.step h1 (ih hi)

theorem path_of_inclReach {p : Program} {g : Nat} (h : InclReach p g) : Path p 0 g := by
  induction h with
  | root => exact Path.refl 0
  | step _ hi ih => exact ih.snoc hi

theorem inclReach_of_path {p : Program} {f g : Nat} (hf : InclReach p f) (h : Path p f g) : InclReach p g := by
  induction h with
  | refl f => exact hf
  | step hi _ ih => exact ih (InclReach.step hf hi)

theorem zipIdx_incTarget (p : Program) {f : Nat} {ii : Include × Nat} (h : ii ∈ (p.file f).includes.zipIdx) :
    p.incTarget f ii.2 = some ii.1.target := by
  have := List.mem_zipIdx_iff_getElem?.mp h
  simp [Program.incTarget, this]

theorem preStep_mono {rec : Nat → St → St × Bool} (hrec : ∀ g st, Mono st (rec g st).1) (f : Nat) (a : St × Bool) (ii : Include × Nat) :
    Mono a.1 (preStep rec f a ii).1 := by
  unfold preStep
  simp only
  split
  · exact (hrec ii.1.target a.1).trans ⟨fun _ h => List.mem_cons_of_mem _ h, fun _ h => h, fun h => h⟩
  · exact hrec ii.1.target a.1

theorem foldPre_mono {rec : Nat → St → St × Bool} (hrec : ∀ g st, Mono st (rec g st).1) (f : Nat) :
    ∀ (l : List (Include × Nat)) (a : St × Bool), Mono a.1 (l.foldl (preStep rec f) a).1 := by
  intro l
  induction l with
  | nil => intro a; exact Mono.refl _
  | cons x l ih => intro a; exact (preStep_mono hrec f a x).trans (ih _)

theorem preProcess_mono (p : Program) (cfg : Cfg) : ∀ (j f : Nat) (st : St), Mono st (preProcess p cfg j f st).1 := by
  intro j
  induction j with
  | zero => intro f st; exact ⟨fun _ h => h, fun _ h => h, fun _ => rfl⟩
  | succ j ih =>
    intro f st
    unfold preProcess
    exact (markKeptPart_mono p cfg f st).trans (foldPre_mono ih f _ _)

theorem preProcess_inv (p : Program) (cfg : Cfg) (Mf : Marks) : ∀ (j f : Nat) (st : St), InclReach p f →
    Inv p cfg Mf st → Inv p cfg Mf (preProcess p cfg j f st).1 := by
  intro j
  induction j with
  | zero => intro f st _ h; exact h.same _ rfl rfl
  | succ j ih =>
    intro f st hr h
    unfold preProcess
    have key : ∀ (l : List (Include × Nat)) (a : St × Bool), (∀ ii ∈ l, ii ∈ (p.file f).includes.zipIdx) →
        Inv p cfg Mf a.1 → Inv p cfg Mf (l.foldl (preStep (preProcess p cfg j) f) a).1 := by
      intro l
      induction l with
      | nil => intro a _ ha; exact ha
      | cons ii l ihl =>
        intro a hall ha
        simp only [List.foldl_cons]
        apply ihl _ (fun x hx => hall x (List.mem_cons_of_mem _ hx))
        have hi := ih ii.1.target a.1 (InclReach.step hr (zipIdx_incTarget p (hall ii (List.mem_cons_self)))) ha
        unfold preStep
        simp only
        split
        · exact ⟨hi.m.cons_leaf _ rfl rfl, hi.fnj.cons_other _ (fun _ _ _ => by simp),
            fun f' r' hfr => (hi.kept f' r' hfr).mono (fun _ hx => List.mem_cons_of_mem _ hx)⟩
        · exact hi
    exact key _ _ (fun _ h => h) (markKeptPart_inv p cfg Mf f st hr h)

theorem preProcess_cached (p : Program) (cfg : Cfg) : ∀ (j f : Nat) (st : St), (preProcess p cfg j f st).1.crash = false →
    ∀ g, Path p f g → ∃ r, (g, r) ∈ (preProcess p cfg j f st).1.cache := by
  intro j
  induction j with
  | zero => intro f st hc; simp [preProcess] at hc
  | succ j ih =>
    intro f st
    unfold preProcess
    have hrec := preProcess_mono p cfg j
    have key : ∀ (l : List (Include × Nat)) (a : St × Bool), (l.foldl (preStep (preProcess p cfg j) f) a).1.crash = false →
        ∀ ii ∈ l, ∀ g, Path p ii.1.target g → ∃ r, (g, r) ∈ (l.foldl (preStep (preProcess p cfg j) f) a).1.cache := by
      intro l
      induction l with
      | nil => intro a _ ii hii; simp at hii
      | cons x l ihl =>
        intro a hc ii hii g hg
        simp only [List.foldl_cons] at hc ⊢
        rcases List.mem_cons.mp hii with hii | hii
        · subst hii
          have m2 := foldPre_mono hrec f l (preStep (preProcess p cfg j) f a ii)
          have hc1 : (preProcess p cfg j ii.1.target a.1).1.crash = false := by
            cases hcr : (preProcess p cfg j ii.1.target a.1).1.crash with
            | false => rfl
            | true =>
              have : (preStep (preProcess p cfg j) f a ii).1.crash = true := by
                unfold preStep
                simp only
                split <;> exact hcr
              rw [m2.2.2 this] at hc
              cases hc
          obtain ⟨r, hr⟩ := ih ii.1.target a.1 hc1 g hg
          refine ⟨r, m2.2.1 ?_⟩
          unfold preStep
          simp only
          split <;> exact hr
        · exact ihl _ hc ii hii g hg
    intro hc g hg
    cases hg with
    | refl =>
      obtain ⟨r, hr⟩ := markKeptPart_cached p cfg f st
      exact ⟨r, (foldPre_mono hrec f _ _).2.1 hr⟩
    | @step _ i g1 _ hi hp =>
      have hlt := incTarget_lt p hi
      have hmem : ((p.file f).includes[i], i) ∈ (p.file f).includes.zipIdx := by
        apply List.mem_zipIdx_iff_getElem?.mpr
        simp [List.getElem?_eq_getElem hlt]
      have ht : ((p.file f).includes[i]).target = g1 := by
        simp [Program.incTarget, List.getElem?_eq_getElem hlt] at hi
        exact hi
      exact key _ _ hc _ hmem g (by simpa [ht] using hp)


/-! ### markAST -/

theorem foldSvc_ext (p : Program) (cfg : Cfg) (ms : List Bytes) (j f : Nat) : ∀ (l : List Service) (st : St),
    Ext st (l.foldl (fun st svc => markService p cfg ms j f svc st) st) := by
  intro l
  induction l with
  | nil => intro st; exact Ext.refl _
  | cons a l ih => intro st; exact (markService_ext p cfg ms j f a st).trans (ih _)

theorem foldSvc_inv (p : Program) (cfg : Cfg) (Mf : Marks) (ms : List Bytes) (j f : Nat) : ∀ (l : List Service) (st : St),
    (∀ svc ∈ l, svc ∈ (p.file f).services) → Inv p cfg Mf st →
    (l.foldl (fun st svc => markService p cfg ms j f svc st) st).marks ⊆ Mf →
    Inv p cfg Mf (l.foldl (fun st svc => markService p cfg ms j f svc st) st) := by
  intro l
  induction l with
  | nil => intro st _ h _; exact h
  | cons a l ih =>
    intro st hall h hMf
    simp only [List.foldl_cons] at hMf ⊢
    have e := foldSvc_ext p cfg ms j f l (markService p cfg ms j f a st)
    exact ih _ (fun x hx => hall x (List.mem_cons_of_mem _ hx))
      (markService_inv p cfg Mf ms j f a st (hall a (List.mem_cons_self)) h (fun _ hx => hMf (e.1 hx))) hMf

theorem inv_init (p : Program) (cfg : Cfg) (Mf : Marks) : Inv p cfg Mf St.init :=
  ⟨⟨fun m hm => by simp [St.init] at hm, fun m hm => by simp [St.init] at hm⟩,
   fun f s n hn => by simp [St.init] at hn, fun f r h => by simp [St.init] at h⟩

/-- the three stages of markAST -/
def stage1 (p : Program) (cfg : Cfg) : St := (preProcess p cfg (p.files.length + 1) 0 St.init).1
def stage2 (p : Program) (cfg : Cfg) : St :=
  (p.file 0).services.foldl (fun st svc => markService p cfg (effMethods p cfg) (svcCount p + 1) 0 svc st) (stage1 p cfg)

theorem markAST_eq (p : Program) (cfg : Cfg) : markAST p cfg = (markKeptPart p cfg 0 (stage2 p cfg)).1 := rfl

theorem stage1_mono_final (p : Program) (cfg : Cfg) : Mono (stage1 p cfg) (markAST p cfg) := by
  rw [markAST_eq]
  exact (foldSvc_ext p cfg _ _ 0 _ (stage1 p cfg)).mono.trans (markKeptPart_mono p cfg 0 _)

theorem markAST_inv (p : Program) (cfg : Cfg) : Inv p cfg (markAST p cfg).marks (markAST p cfg) := by
  have h1 : Inv p cfg (markAST p cfg).marks (stage1 p cfg) :=
    preProcess_inv p cfg _ _ 0 St.init InclReach.root (inv_init p cfg _)
  have h2 : Inv p cfg (markAST p cfg).marks (stage2 p cfg) :=
    foldSvc_inv p cfg _ _ _ 0 _ (stage1 p cfg) (fun _ h => h) h1
      (by rw [markAST_eq]; exact (markKeptPart_mono p cfg 0 _).1)
  rw [markAST_eq] at *
  exact markKeptPart_inv p cfg _ 0 _ InclReach.root h2

theorem nodup_map_inj {α β : Type} (g : α → β) : ∀ (l : List α), (l.map g).Nodup → ∀ a ∈ l, ∀ b ∈ l, g a = g b → a = b := by
  intro l
  induction l with
  | nil => intro _ a ha; simp at ha
  | cons x l ih =>
    intro hn a ha b hb hab
    simp only [List.map_cons, List.nodup_cons, List.mem_map, not_exists, not_and] at hn
    rcases List.mem_cons.mp ha with ha1 | ha1 <;> rcases List.mem_cons.mp hb with hb1 | hb1
    · rw [ha1, hb1]
    · rw [ha1] at hab; exact absurd hab.symm (hn.1 b hb1)
    · rw [hb1] at hab; exact absurd hab (hn.1 a ha1)
    · exact ih hn.2 a ha1 b hb1 hab

theorem kept_of_inclReach (p : Program) (cfg : Cfg) (hc : (markAST p cfg).crash = false) {f : Nat} (hr : InclReach p f) :
    KeptOK p cfg f (markAST p cfg).marks := by
  have m := stage1_mono_final p cfg
  have hc1 : (stage1 p cfg).crash = false := by
    cases h : (stage1 p cfg).crash with
    | false => rfl
    | true => rw [m.2.2 h] at hc; cases hc
  obtain ⟨r, hr'⟩ := preProcess_cached p cfg _ 0 St.init hc1 f (path_of_inclReach hr)
  exact (markAST_inv p cfg).kept f r (m.2.1 hr')

theorem root_marked (p : Program) (cfg : Cfg) (hc : (markAST p cfg).crash = false) (hu : UniqueSvcFn p) {n : Node}
    (h : Root p cfg (markAST p cfg).marks n) : n ∈ (markAST p cfg).marks := by
  cases h with
  | fn hs hf hm hty href =>
    obtain ⟨svc', hs', e1, fn', hf', e2, ht⟩ := (markAST_inv p cfg).fnj _ _ _ hm
    have es := nodup_map_inj (·.name) _ (hu _).1 svc' hs' _ hs e1
    subst es
    have ef := nodup_map_inj (·.name) _ ((hu _).2 svc' hs) fn' hf' _ hf e2
    subst ef
    exact ht _ hty _ (mem_of_tyRef p _ href)
  | const hr hcm href => exact (kept_of_inclReach p cfg hc hr).1 _ hcm _ (mem_of_tyRef p _ href)
  | typedef hr ht href => exact (kept_of_inclReach p cfg hc hr).2.1 _ ht _ (mem_of_tyRef p _ href)
  | @preserved f k s hr hs hp => exact (kept_of_inclReach p cfg hc hr).2.2 (k, s) ((mem_sls_iff _ (k, s)).mpr hs) hp

theorem reach_marked (p : Program) (cfg : Cfg) (hc : (markAST p cfg).crash = false) (hu : UniqueSvcFn p) {n : Node}
    (h : Reach p cfg (markAST p cfg).marks n) : n ∈ (markAST p cfg).marks := by
  induction h with
  | root hr => exact root_marked p cfg hc hu hr
  | step _ he ih => exact (markAST_inv p cfg).m.closed _ ih _ ((edge_iff p _ _).mp he)




/-! ### which kinds of marks a step can add -/

theorem visitList_grows (p : Program) (k : Nat) (ns : List Node) (M : Marks) (hall : ∀ n ∈ ns, n ∈ allNodes p) :
    Grows p M (ns.foldl (visit p k) M) :=
  ⟨fold_sub_of _ (visit_sub p k) ns M, fun m hm => fold_new p k ns M m hall hm⟩

theorem markType_grows (p : Program) (f : Nat) (M : Marks) (ty : Ty) : Grows p M (markType p f M ty) :=
  visitList_grows p _ _ M (fun _ hn => tyTargets_sub p f ty hn)

theorem markTypes_grows (p : Program) (f : Nat) : ∀ (tys : List Ty) (M : Marks), Grows p M (markTypes p f M tys) := by
  intro tys
  induction tys with
  | nil => intro M; exact Grows.refl p M
  | cons t ts ih => intro M; exact (markType_grows p f M t).trans (ih _)

theorem keptFold_grows (p : Program) (cfg : Cfg) (f : Nat) : ∀ (l : List (SLKind × StructLike)) (a : Marks × Bool),
    (∀ ks ∈ l, ks ∈ (p.file f).sls) → Grows p a.1 (l.foldl (keptStep p cfg f) a).1 := by
  intro l
  induction l with
  | nil => intro a _; exact Grows.refl p _
  | cons ks l ih =>
    intro a hall
    simp only [List.foldl_cons]
    refine Grows.trans ?_ (ih _ (fun x hx => hall x (List.mem_cons_of_mem _ hx)))
    unfold keptStep
    split
    · have := visitList_grows p (fuelN p) [Node.sl f ks.1 ks.2.name] a.1
        (fun n hn => by rw [List.mem_singleton.mp hn]; exact sls_node_mem p (hall ks (List.mem_cons_self)))
      simpa using this
    · exact Grows.refl p _

theorem markKeptPart_grows (p : Program) (cfg : Cfg) (f : Nat) (st : St) : Grows p st.marks (markKeptPart p cfg f st).1.marks := by
  unfold markKeptPart
  split
  · exact Grows.refl p _
  · simp only
    have g := (markTypes_grows p f ((p.file f).consts.map (·.ty)) st.marks).trans
      (markTypes_grows p f ((p.file f).typedefs.map (·.ty)) _)
    split
    · exact g
    · exact g.trans (keptFold_grows p cfg f _ (_, _) (fun _ h => h))

/-- marks that are not service or function marks -/
def OnlyTargets (M : Marks) : Prop := ∀ m ∈ M, m.isTarget = true

theorem OnlyTargets.grows {p : Program} {M R : Marks} (h : OnlyTargets M) (g : Grows p M R) : OnlyTargets R := by
  intro m hm
  rcases g.new m hm with hm | hm
  · exact h m hm
  · exact allNodes_isTarget p hm

theorem preProcess_targets (p : Program) (cfg : Cfg) : ∀ (j f : Nat) (st : St), OnlyTargets st.marks →
    OnlyTargets (preProcess p cfg j f st).1.marks := by
  intro j
  induction j with
  | zero => intro f st h; exact h
  | succ j ih =>
    intro f st h
    unfold preProcess
    have key : ∀ (l : List (Include × Nat)) (a : St × Bool), OnlyTargets a.1.marks →
        OnlyTargets (l.foldl (preStep (preProcess p cfg j) f) a).1.marks := by
      intro l
      induction l with
      | nil => intro a ha; exact ha
      | cons ii l ihl =>
        intro a ha
        simp only [List.foldl_cons]
        apply ihl
        have hi := ih ii.1.target a.1 ha
        unfold preStep
        simp only
        split
        · intro m hm
          rcases List.mem_cons.mp hm with hm | hm
          · subst hm; rfl
          · exact hi m hm
        · exact hi
    exact key _ _ (h.grows (markKeptPart_grows p cfg f st))

/-! ### without a method filter every marked service is complete -/

theorem SvcOK.mono {p : Program} {M R : Marks} {f : Nat} {svc : Service} (h : SvcOK p M f svc) (hs : M ⊆ R) : SvcOK p R f svc :=
  ⟨fun fn hfn => hs (h.1 fn hfn), fun he rn i g hr hg =>
    ⟨hs (h.2.1 he rn i g hr hg).1, fun b hb => hs ((h.2.1 he rn i g hr hg).2 b hb)⟩,
    fun he hr b hb => hs (h.2.2 he hr b hb)⟩

/-- every marked service is complete, except the pending ones in `P` -/
def SvcInv (p : Program) (M : Marks) (P : List (Nat × Bytes)) : Prop :=
  ∀ f svc, svc ∈ (p.file f).services → Node.svc f svc.name ∈ M → (f, svc.name) ∈ P ∨ SvcOK p M f svc

/-- service marks of `R` are those of `M` plus possibly the one of `(f, s)` -/
def SvcNew (M R : Marks) (f : Nat) (s : Bytes) : Prop :=
  ∀ g n, Node.svc g n ∈ R → Node.svc g n ∈ M ∨ (g = f ∧ n = s)

theorem markFunction_svcNew (p : Program) (f : Nat) (s : Bytes) (M : Marks) (fn : Function) (g : Nat) (n : Bytes)
    (h : Node.svc g n ∈ markFunction p f s M fn) : Node.svc g n ∈ M := by
  unfold markFunction at h
  rcases (markTypes_grows p f fn.types _).new _ h with h | h
  · rcases List.mem_cons.mp h with h | h
    · cases h
    · exact h
  · have := allNodes_isTarget p h
    simp [Node.isTarget] at this

theorem foldSvcStep_nofilter (p : Program) (cfg : Cfg) (f : Nat) (svc : Service) : ∀ (fns : List Function) (st : St),
    (∀ fn ∈ fns, Node.fn f svc.name fn.name ∈ (fns.foldl (svcStep p cfg [] f svc) st).marks) ∧
    (∀ g n, Node.svc g n ∈ (fns.foldl (svcStep p cfg [] f svc) st).marks → Node.svc g n ∈ st.marks) ∧
    (fns.foldl (svcStep p cfg [] f svc) st).crash = st.crash ∧
    (fns.foldl (svcStep p cfg [] f svc) st).ext = st.ext := by
  intro fns
  induction fns with
  | nil => intro st; exact ⟨by simp, fun _ _ h => h, rfl, rfl⟩
  | cons a l ih =>
    intro st
    simp only [List.foldl_cons]
    obtain ⟨i1, i2, i3, i4⟩ := ih (svcStep p cfg [] f svc st a)
    have hstep : svcStep p cfg [] f svc st a = { st with marks := markFunction p f svc.name st.marks a } := by
      simp [svcStep]
    refine ⟨?_, ?_, ?_, ?_⟩
    · intro fn hfn
      rcases List.mem_cons.mp hfn with hfn | hfn
      · subst hfn
        apply (foldFns_ext (svcStep_ext p cfg [] f svc) l _).1
        rw [hstep]
        exact markFunction_mem p f svc.name st.marks fn
      · exact i1 fn hfn
    · intro g n h
      have := i2 g n h
      rw [hstep] at this
      exact markFunction_svcNew p f svc.name st.marks a g n this
    · rw [i3, hstep]
    · rw [i4, hstep]

theorem markService_ext_nil (p : Program) (cfg : Cfg) : ∀ (j f : Nat) (svc : Service) (st : St),
    (markService p cfg [] j f svc st).ext = st.ext := by
  intro j
  induction j with
  | zero => intro f svc st; rfl
  | succ j ih =>
    intro f svc st
    unfold markService
    split
    · rfl
    · simp only [List.isEmpty_nil, if_true, Bool.not_true, Bool.false_and, Bool.false_eq_true, if_false]
      have f4 := (foldSvcStep_nofilter p cfg f svc svc.fns { st with marks := Node.svc f svc.name :: st.marks }).2.2.2
      generalize svc.fns.foldl (svcStep p cfg [] f svc) { st with marks := Node.svc f svc.name :: st.marks } = st1 at f4 ⊢
      split
      · split
        · split
          · exact f4
          · rw [ih]; exact f4
        · split
          · exact f4
          · split
            · exact f4
            · rw [ih]; exact f4
      · exact f4

theorem markService_nofilter (p : Program) (cfg : Cfg) (hu : UniqueSvcFn p) : ∀ (j f : Nat) (svc : Service) (st : St) (P : List (Nat × Bytes)),
    svc ∈ (p.file f).services → st.ext = [] → (markService p cfg [] j f svc st).crash = false → SvcInv p st.marks P →
    SvcInv p (markService p cfg [] j f svc st).marks P ∧ Node.svc f svc.name ∈ (markService p cfg [] j f svc st).marks := by
  intro j
  induction j with
  | zero => intro f svc st P _ _ hc; simp [markService] at hc
  | succ j ih =>
    intro f svc st P hs hE
    unfold markService
    split
    · rename_i hm
      intro _ hi
      exact ⟨hi, hm⟩
    · simp only [List.isEmpty_nil, if_true, Bool.not_true, Bool.false_and, Bool.false_eq_true, if_false]
      obtain ⟨f1, f2, f3, f4⟩ := foldSvcStep_nofilter p cfg f svc svc.fns { st with marks := Node.svc f svc.name :: st.marks }
      have e1 := foldFns_ext (svcStep_ext p cfg [] f svc) svc.fns { st with marks := Node.svc f svc.name :: st.marks }
      generalize svc.fns.foldl (svcStep p cfg [] f svc) { st with marks := Node.svc f svc.name :: st.marks } = st1 at f1 f2 f3 f4 e1 ⊢
      have hE1 : st1.ext = [] := by rw [f4]; exact hE
      have hcut : (cfg.fix.incl && isCut cfg st1 (f, svc.name)) = false := by simp [isCut, hE1]
      have hsvc1 : Node.svc f svc.name ∈ st1.marks := e1.1 (List.mem_cons_self)
      have hsub : st.marks ⊆ st1.marks := fun _ hx => e1.1 (List.mem_cons_of_mem _ hx)
      -- the state after the function loop: everything but `svc` itself is as before
      have inv1 : ∀ {M : Marks}, st1.marks ⊆ M → (∀ g n, Node.svc g n ∈ M → Node.svc g n ∈ st1.marks) →
          SvcInv p st.marks P → SvcInv p M ((f, svc.name) :: P) := by
        intro M hM hnew hi g s hsg hmark
        have h1 := f2 g s.name (hnew g s.name hmark)
        rcases List.mem_cons.mp h1 with h1 | h1
        · injection h1 with hg hn
          rw [hg, hn]
          exact Or.inl (List.mem_cons_self)
        · rcases hi g s hsg h1 with h2 | h2
          · exact Or.inl (List.mem_cons_of_mem _ h2)
          · exact Or.inr (h2.mono (fun _ hx => hM (hsub hx)))
      -- once `svc` is complete the pending entry can be dropped
      have fin : ∀ {M : Marks}, SvcOK p M f svc → SvcInv p M ((f, svc.name) :: P) → SvcInv p M P := by
        intro M hok hi g s hsg hmark
        rcases hi g s hsg hmark with h | h
        · rcases List.mem_cons.mp h with h | h
          · injection h with hg hn
            subst hg
            have : s = svc := nodup_map_inj (·.name) _ (hu g).1 s hsg svc hs hn
            subst this
            exact Or.inr hok
          · exact Or.inl h
        · exact Or.inr h
      split
      · rename_i hext
        split
        · rename_i href
          split
          · rename_i hb
            intro _ hi
            exact ⟨fin ⟨f1, fun _ rn i g hr => (by rw [href] at hr; cases hr),
              fun _ _ b hb' => (by rw [hb] at hb'; cases hb')⟩ (inv1 (fun _ h => h) (fun _ _ h => h) hi), hsvc1⟩
          · rename_i b hb
            intro hc hi
            obtain ⟨r1, r2⟩ := ih f b st1 ((f, svc.name) :: P) (findSvc_mem p hb) hE1 hc
              (inv1 (fun _ h => h) (fun _ _ h => h) hi)
            have e4 := (markService_ext p cfg [] j f b st1).1
            exact ⟨fin ⟨fun fn hfn => e4 (f1 fn hfn), fun _ rn i g hr => (by rw [href] at hr; cases hr),
              fun _ _ b' hb' => (by rw [hb] at hb'; cases hb'; exact r2)⟩ r1, e4 hsvc1⟩
        · rename_i rn i href
          split
          · intro hc; simp at hc
          · rename_i g hg
            have e3 : st1.marks ⊆ insInc f i st1.marks := insInc_sub _ _ _
            have hnew3 : ∀ g' n, Node.svc g' n ∈ insInc f i st1.marks → Node.svc g' n ∈ st1.marks := by
              intro g' n h
              unfold insInc at h
              split at h
              · exact h
              · rcases List.mem_cons.mp h with h | h
                · cases h
                · exact h
            split
            · rename_i hb
              intro _ hi
              refine ⟨fin ⟨fun fn hfn => e3 (f1 fn hfn), fun _ rn' i' g' hr hg' => ?_,
                fun _ hr => (by rw [href] at hr; cases hr)⟩ (inv1 e3 hnew3 hi), e3 hsvc1⟩
              rw [href] at hr
              cases hr
              rw [hg] at hg'
              cases hg'
              exact ⟨insInc_mem _ _ _, fun b hb' => by rw [hb] at hb'; cases hb'⟩
            · rename_i b hb
              intro hc hi
              obtain ⟨r1, r2⟩ := ih g b { st1 with marks := insInc f i st1.marks } ((f, svc.name) :: P)
                (findSvc_mem p hb) hE1 hc (inv1 e3 hnew3 hi)
              have e4 := (markService_ext p cfg [] j g b { st1 with marks := insInc f i st1.marks }).1
              refine ⟨fin ⟨fun fn hfn => e4 (e3 (f1 fn hfn)), fun _ rn' i' g' hr hg' => ?_,
                fun _ hr => (by rw [href] at hr; cases hr)⟩ r1, e4 (e3 hsvc1)⟩
              rw [href] at hr
              cases hr
              rw [hg] at hg'
              cases hg'
              exact ⟨e4 (insInc_mem _ _ _), fun b' hb' => by rw [hb] at hb'; cases hb'; exact r2⟩
      · rename_i hext
        intro _ hi
        refine ⟨fin ⟨f1, fun he => ?_, fun he => ?_⟩ (inv1 (fun _ h => h) (fun _ _ h => h) hi), hsvc1⟩
        · exact absurd ⟨he, hsvc1, hcut⟩ hext
        · exact absurd ⟨he, hsvc1, hcut⟩ hext

theorem effMethods_nil (p : Program) (cfg : Cfg) (h : cfg.methods = []) : effMethods p cfg = [] := by
  simp [effMethods, h]

theorem crash_false_of_mono {a b : St} (m : a.crash = true → b.crash = true) (h : b.crash = false) : a.crash = false := by
  cases ha : a.crash with
  | false => rfl
  | true => rw [m ha] at h; cases h

theorem foldSvc_nofilter (p : Program) (cfg : Cfg) (hu : UniqueSvcFn p) (j f : Nat) : ∀ (l : List Service) (st : St),
    (∀ svc ∈ l, svc ∈ (p.file f).services) → st.ext = [] →
    (l.foldl (fun st svc => markService p cfg [] j f svc st) st).crash = false → SvcInv p st.marks [] →
    SvcInv p (l.foldl (fun st svc => markService p cfg [] j f svc st) st).marks [] ∧
      ∀ svc ∈ l, Node.svc f svc.name ∈ (l.foldl (fun st svc => markService p cfg [] j f svc st) st).marks := by
  intro l
  induction l with
  | nil => intro st _ _ _ h; exact ⟨h, by simp⟩
  | cons a l ih =>
    intro st hall hE hc hi
    simp only [List.foldl_cons] at hc ⊢
    have e := foldSvc_ext p cfg [] j f l (markService p cfg [] j f a st)
    obtain ⟨r1, r2⟩ := markService_nofilter p cfg hu j f a st [] (hall a (List.mem_cons_self)) hE
      (crash_false_of_mono e.2.2 hc) hi
    obtain ⟨t1, t2⟩ := ih _ (fun x hx => hall x (List.mem_cons_of_mem _ hx))
      (by rw [markService_ext_nil]; exact hE) hc r1
    refine ⟨t1, ?_⟩
    intro svc hsvc
    rcases List.mem_cons.mp hsvc with hsvc | hsvc
    · subst hsvc; exact e.1 r2
    · exact t2 svc hsvc

theorem markKeptPart_extEq (p : Program) (cfg : Cfg) (f : Nat) (st : St) : (markKeptPart p cfg f st).1.ext = st.ext := by
  unfold markKeptPart
  split <;> rfl

theorem preProcess_extEq (p : Program) (cfg : Cfg) : ∀ (j f : Nat) (st : St), (preProcess p cfg j f st).1.ext = st.ext := by
  intro j
  induction j with
  | zero => intro f st; rfl
  | succ j ih =>
    intro f st
    unfold preProcess
    have key : ∀ (l : List (Include × Nat)) (a : St × Bool), (l.foldl (preStep (preProcess p cfg j) f) a).1.ext = a.1.ext := by
      intro l
      induction l with
      | nil => intro a; rfl
      | cons ii l ihl =>
        intro a
        simp only [List.foldl_cons]
        rw [ihl]
        unfold preStep
        simp only
        split <;> exact ih _ _
    rw [key, markKeptPart_extEq]

theorem stage1_targets (p : Program) (cfg : Cfg) : OnlyTargets (stage1 p cfg).marks :=
  preProcess_targets p cfg _ 0 St.init (fun m hm => by simp [St.init] at hm)

theorem nofilter_final (p : Program) (cfg : Cfg) (hm : cfg.methods = []) (hu : UniqueSvcFn p)
    (hc : (markAST p cfg).crash = false) :
    SvcInv p (markAST p cfg).marks [] ∧ ∀ svc ∈ (p.file 0).services, Node.svc 0 svc.name ∈ (markAST p cfg).marks := by
  have hc2 : (stage2 p cfg).crash = false := by
    rw [markAST_eq] at hc
    exact crash_false_of_mono (markKeptPart_mono p cfg 0 _).2.2 hc
  have h1 : SvcInv p (stage1 p cfg).marks [] := by
    intro f svc _ hmark
    have := stage1_targets p cfg _ hmark
    simp [Node.isTarget] at this
  unfold stage2 at hc2
  rw [effMethods_nil p cfg hm] at hc2
  obtain ⟨r1, r2⟩ := foldSvc_nofilter p cfg hu _ 0 (p.file 0).services (stage1 p cfg) (fun _ h => h)
    (by unfold stage1; rw [preProcess_extEq]; rfl) hc2 h1
  have g := markKeptPart_grows p cfg 0 (stage2 p cfg)
  rw [markAST_eq]
  unfold stage2
  rw [effMethods_nil p cfg hm]
  unfold stage2 at g
  rw [effMethods_nil p cfg hm] at g
  refine ⟨?_, fun svc hsvc => g.sub (r2 svc hsvc)⟩
  intro f svc hs hmark
  rcases g.new _ hmark with hmark | hmark
  · rcases r1 f svc hs hmark with h | h
    · simp at h
    · exact Or.inr (h.mono g.sub)
  · have := allNodes_isTarget p hmark
    simp [Node.isTarget] at this

/-! ### the sweep -/

theorem findSL_self (p : Program) (hu : UniqueSL p) {f : Nat} {k : SLKind} {s : StructLike} (hs : s ∈ (p.file f).sl k) :
    findSL p f k s.name = some s := by
  unfold findSL
  cases h : ((p.file f).sl k).find? (fun x => x.name == s.name) with
  | none =>
    have := List.find?_eq_none.mp h s hs
    simp at this
  | some s0 =>
    have h0 := List.mem_of_find?_eq_some h
    have hn := List.find?_some h
    simp only [beq_iff_eq] at hn
    rw [nodup_map_inj (·.name) _ (hu f k) s0 h0 s hs hn]

/-- a marked struct-like has every target of every field type marked -/
theorem sl_fields_marked (p : Program) {M : Marks} (hc : Closed p M) (hu : UniqueSL p) {f : Nat} {k : SLKind} {s : StructLike}
    (hs : s ∈ (p.file f).sl k) (hm : Node.sl f k s.name ∈ M) :
    ∀ fd ∈ s.fields, ∀ x ∈ tyTargets p f fd.ty, x ∈ M := by
  intro fd hfd x hx
  apply hc _ hm
  simp only [succs, findSL_self p hu hs, List.mem_flatMap]
  exact ⟨fd, hfd, hx⟩

theorem fn_types_marked (p : Program) (cfg : Cfg) (hu : UniqueSvcFn p) {f : Nat} {svc : Service} {fn : Function}
    (hs : svc ∈ (p.file f).services) (hf : fn ∈ svc.fns) (hm : Node.fn f svc.name fn.name ∈ (markAST p cfg).marks) :
    ∀ ty ∈ fn.types, ∀ x ∈ tyTargets p f ty, x ∈ (markAST p cfg).marks := by
  obtain ⟨svc', hs', e1, fn', hf', e2, ht⟩ := (markAST_inv p cfg).fnj _ _ _ hm
  have es := nodup_map_inj (·.name) _ (hu _).1 svc' hs' _ hs e1
  subst es
  have ef := nodup_map_inj (·.name) _ ((hu _).2 svc' hs) fn' hf' _ hf e2
  subst ef
  exact ht

theorem mem_sweep_sl (p : Program) (cfg : Cfg) (ms : List Bytes) (st : St) (f : Nat) (k : SLKind) (s : StructLike) :
    s ∈ (sweepFile p cfg ms st f (p.file f)).sl k ↔ s ∈ (p.file f).sl k ∧ keepSL cfg st.marks f k s = true := by
  cases k <;> simp [sweepFile, File.sl, List.mem_filter]

theorem kept_sl_marked (p : Program) (cfg : Cfg) (hc : (markAST p cfg).crash = false) {f : Nat} (hr : InclReach p f)
    {k : SLKind} {s : StructLike} (hs : s ∈ (p.file f).sl k) (hk : keepSL cfg (markAST p cfg).marks f k s = true) :
    Node.sl f k s.name ∈ (markAST p cfg).marks := by
  unfold keepSL at hk
  rcases Bool.or_eq_true_iff.mp hk with h | h
  · exact List.contains_iff_mem.mp h
  · exact (kept_of_inclReach p cfg hc hr).2.2 (k, s) ((mem_sls_iff _ (k, s)).mpr hs) h


theorem mem_sweep_services (p : Program) (cfg : Cfg) (ms : List Bytes) (st : St) (f : Nat) (svc' : Service) :
    svc' ∈ (sweepFile p cfg ms st f (p.file f)).services ↔
      ∃ svc ∈ (p.file f).services, Node.svc f svc.name ∈ st.marks ∧ svc' = sweepSvc cfg ms st f svc := by
  simp only [sweepFile, List.mem_map, List.mem_filter, List.contains_iff_mem]
  constructor
  · rintro ⟨svc, ⟨h1, h2⟩, rfl⟩; exact ⟨svc, h1, h2, rfl⟩
  · rintro ⟨svc, h1, h2, rfl⟩; exact ⟨svc, ⟨h1, h2⟩, rfl⟩

theorem sweepSvc_fns (cfg : Cfg) (ms : List Bytes) (st : St) (f : Nat) (s : Service) :
    (sweepSvc cfg ms st f s).fns = (if ms.isEmpty then s.fns else s.fns.filter (fun fn => st.marks.contains (Node.fn f s.name fn.name))) ∧
    (sweepSvc cfg ms st f s).name = s.name := by
  unfold sweepSvc
  simp only
  split <;> exact ⟨rfl, rfl⟩

theorem kept_fn_marked (p : Program) (cfg : Cfg) (hc : (markAST p cfg).crash = false) (hu : UniqueSvcFn p)
    {f : Nat} {svc : Service} (hs : svc ∈ (p.file f).services) (hm : Node.svc f svc.name ∈ (markAST p cfg).marks)
    {fn : Function} (hf : fn ∈ (sweepSvc cfg (effMethods p cfg) (markAST p cfg) f svc).fns) :
    fn ∈ svc.fns ∧ Node.fn f svc.name fn.name ∈ (markAST p cfg).marks := by
  rw [(sweepSvc_fns _ _ _ _ _).1] at hf
  split at hf
  · rename_i he
    have hm0 : cfg.methods = [] := by
      have : effMethods p cfg = [] := List.isEmpty_iff.mp he
      simpa [effMethods] using this
    rcases (nofilter_final p cfg hm0 hu hc).1 f svc hs hm with h | h
    · simp at h
    · exact ⟨hf, h.1 fn hf⟩
  · obtain ⟨h1, h2⟩ := List.mem_filter.mp hf
    exact ⟨h1, List.contains_iff_mem.mp h2⟩

/-- everything that survives the sweep of an included file refers only to marked nodes -/
theorem kept_refs (p : Program) (cfg : Cfg) (hc : (markAST p cfg).crash = false) (hu : UniqueSvcFn p) (hl : UniqueSL p)
    (f : Nat) (hr : InclReach p f) :
    (∀ c ∈ (sweepFile p cfg (effMethods p cfg) (markAST p cfg) f (p.file f)).consts, ∀ x ∈ tyTargets p f c.ty, x ∈ (markAST p cfg).marks) ∧
    (∀ t ∈ (sweepFile p cfg (effMethods p cfg) (markAST p cfg) f (p.file f)).typedefs, ∀ x ∈ tyTargets p f t.ty, x ∈ (markAST p cfg).marks) ∧
    (∀ k, ∀ s ∈ (sweepFile p cfg (effMethods p cfg) (markAST p cfg) f (p.file f)).sl k, ∀ fd ∈ s.fields,
      ∀ x ∈ tyTargets p f fd.ty, x ∈ (markAST p cfg).marks) ∧
    (∀ svc ∈ (sweepFile p cfg (effMethods p cfg) (markAST p cfg) f (p.file f)).services, ∀ fn ∈ svc.fns, ∀ ty ∈ fn.types,
      ∀ x ∈ tyTargets p f ty, x ∈ (markAST p cfg).marks) := by
  have hk := kept_of_inclReach p cfg hc hr
  refine ⟨hk.1, hk.2.1, ?_, ?_⟩
  · intro k s hs
    obtain ⟨h1, h2⟩ := (mem_sweep_sl p cfg _ _ f k s).mp hs
    exact sl_fields_marked p (markAST_inv p cfg).m.closed hl h1 (kept_sl_marked p cfg hc hr h1 h2)
  · intro svc' hsvc' fn hfn
    obtain ⟨svc, h1, h2, rfl⟩ := (mem_sweep_services p cfg _ _ f svc').mp hsvc'
    obtain ⟨h3, h4⟩ := kept_fn_marked p cfg hc hu h1 h2 hfn
    exact fn_types_marked p cfg hu h1 h3 h4

/-- a marked include / struct-like survives the sweep; enums, typedefs and constants are never touched -/
theorem marked_survives (p : Program) (cfg : Cfg) (ms : List Bytes) (st : St) (f : Nat) :
    (∀ i inc, (p.file f).includes[i]? = some inc → Node.inc f i ∈ st.marks →
      inc ∈ (sweepFile p cfg ms st f (p.file f)).includes) ∧
    (∀ k s, s ∈ (p.file f).sl k → Node.sl f k s.name ∈ st.marks → s ∈ (sweepFile p cfg ms st f (p.file f)).sl k) ∧
    (sweepFile p cfg ms st f (p.file f)).enums = (p.file f).enums ∧
    (sweepFile p cfg ms st f (p.file f)).typedefs = (p.file f).typedefs ∧
    (sweepFile p cfg ms st f (p.file f)).consts = (p.file f).consts := by
  refine ⟨?_, ?_, rfl, rfl, rfl⟩
  · intro i inc hi hm
    simp only [sweepFile, List.mem_map, List.mem_filter]
    refine ⟨(inc, i), ⟨List.mem_zipIdx_iff_getElem?.mpr hi, ?_⟩, rfl⟩
    simp [keepInc, hm]
  · intro k s hs hm
    exact (mem_sweep_sl p cfg ms st f k s).mpr ⟨hs, by simp [keepSL, hm]⟩

/-- sweep never alters the body of what it keeps -/
theorem sweep_bodies (p : Program) (cfg : Cfg) (ms : List Bytes) (st : St) (f : Nat) :
    (∀ k s, s ∈ (sweepFile p cfg ms st f (p.file f)).sl k → s ∈ (p.file f).sl k) ∧
    (∀ svc' ∈ (sweepFile p cfg ms st f (p.file f)).services, ∃ svc ∈ (p.file f).services,
      svc'.name = svc.name ∧ ∀ fn ∈ svc'.fns, fn ∈ svc.fns) := by
  refine ⟨fun k s hs => ((mem_sweep_sl p cfg ms st f k s).mp hs).1, ?_⟩
  intro svc' hsvc'
  obtain ⟨svc, h1, _, rfl⟩ := (mem_sweep_services p cfg ms st f svc').mp hsvc'
  refine ⟨svc, h1, (sweepSvc_fns _ _ _ _ _).2, ?_⟩
  intro fn hfn
  rw [(sweepSvc_fns _ _ _ _ _).1] at hfn
  split at hfn
  · exact hfn
  · exact (List.mem_filter.mp hfn).1




/-! ### with -m only matching methods are marked -/

/-- every function mark belongs to a function whose name, prefixed with the name of some service
("father"), is matched by one of the patterns -/
def FnHit (cfg : Cfg) (ms : List Bytes) (M : Marks) : Prop :=
  ∀ f s n, Node.fn f s n ∈ M → ∃ fa, hitLoose cfg ms (dot fa n) = true

theorem markFunction_fnNew (p : Program) (f : Nat) (s : Bytes) (M : Marks) (fn : Function) (g : Nat) (s' n : Bytes)
    (h : Node.fn g s' n ∈ markFunction p f s M fn) : Node.fn g s' n ∈ M ∨ n = fn.name := by
  unfold markFunction at h
  rcases (markTypes_grows p f fn.types _).new _ h with h | h
  · rcases List.mem_cons.mp h with h | h
    · injection h with _ _ h3
      exact Or.inr h3
    · exact Or.inl h
  · have := allNodes_isTarget p h
    simp [Node.isTarget] at this

theorem hitStrict_loose (cfg : Cfg) (ms : List Bytes) (s : Bytes) (h : hitStrict cfg ms s = true) : hitLoose cfg ms s = true := by
  unfold hitStrict at h
  unfold hitLoose
  obtain ⟨m, hm, hc⟩ := List.any_eq_true.mp h
  exact List.any_eq_true.mpr ⟨m, hm, (Bool.and_eq_true_iff.mp hc).1⟩

theorem FnHit.cons_other {cfg : Cfg} {ms : List Bytes} {M : Marks} (h : FnHit cfg ms M) (n : Node)
    (hn : ∀ f s x, n ≠ Node.fn f s x) : FnHit cfg ms (n :: M) := by
  intro f s x hx
  rcases List.mem_cons.mp hx with hx | hx
  · exact absurd hx.symm (hn f s x)
  · exact h f s x hx

theorem FnHit.insInc {cfg : Cfg} {ms : List Bytes} {M : Marks} (h : FnHit cfg ms M) (f i : Nat) : FnHit cfg ms (insInc f i M) := by
  unfold Trim.insInc
  split
  · exact h
  · exact h.cons_other _ (fun _ _ _ => by simp)

theorem FnHit.grows {p : Program} {cfg : Cfg} {ms : List Bytes} {M R : Marks} (h : FnHit cfg ms M) (g : Grows p M R) : FnHit cfg ms R := by
  intro f s n hn
  rcases g.new _ hn with hn | hn
  · exact h f s n hn
  · have := allNodes_isTarget p hn
    simp [Node.isTarget] at this

theorem markSvcFn_hit (p : Program) (cfg : Cfg) (ms : List Bytes) (f : Nat) (svc : Service) (st : St) (fn : Function)
    (fa : Bytes) (hfa : hitLoose cfg ms (dot fa fn.name) = true) (h : FnHit cfg ms st.marks) :
    FnHit cfg ms (markSvcFn p f svc st fn).marks := by
  intro g s n hn
  rcases markFunction_fnNew p f svc.name _ fn g s n hn with hn | hn
  · exact (h.cons_other _ (fun _ _ _ => by simp)) g s n hn
  · rw [hn]; exact ⟨fa, hfa⟩

theorem traceStep_hit (p : Program) (cfg : Cfg) (ms fathers : List Bytes) (f : Nat) (svc : Service) (st : St) (fn : Function)
    (h : FnHit cfg ms st.marks) : FnHit cfg ms (traceStep p cfg ms fathers f svc st fn).marks := by
  unfold traceStep
  split
  · rename_i hh
    unfold hitFathers at hh
    obtain ⟨fa, _, hfa⟩ := List.any_eq_true.mp hh
    have hfa' : hitLoose cfg ms (dot fa fn.name) = true := by
      split at hfa
      · exact hitStrict_loose cfg ms _ hfa
      · exact hfa
    exact markSvcFn_hit p cfg ms f svc st fn fa hfa' h
  · exact h

theorem svcStep_hit (p : Program) (cfg : Cfg) (ms : List Bytes) (hne : ms.isEmpty = false) (f : Nat) (svc : Service) (st : St) (fn : Function)
    (h : FnHit cfg ms st.marks) : FnHit cfg ms (svcStep p cfg ms f svc st fn).marks := by
  unfold svcStep
  simp only [hne, Bool.false_eq_true, if_false]
  split
  · rename_i hh
    exact markSvcFn_hit p cfg ms f svc st fn svc.name (hitStrict_loose cfg ms _ hh) h
  · exact h

theorem foldFns_hit {cfg : Cfg} {ms : List Bytes} {g : St → Function → St}
    (hg : ∀ st fn, FnHit cfg ms st.marks → FnHit cfg ms (g st fn).marks) :
    ∀ (fns : List Function) (st : St), FnHit cfg ms st.marks → FnHit cfg ms (fns.foldl g st).marks := by
  intro fns
  induction fns with
  | nil => intro st h; exact h
  | cons a l ih => intro st h; exact ih _ (hg st a h)

theorem traceFinish_hit (cfg : Cfg) (ms : List Bytes) (f : Nat) (svc : Service) (back : Bool) (s : St) (b : Bool)
    (h : FnHit cfg ms s.marks) : FnHit cfg ms (traceFinish cfg f svc back (s, b)).1.marks := by
  unfold traceFinish
  simp only
  split
  · simp only
    have h1 := h.cons_other (Node.svc f svc.name) (fun _ _ _ => by simp)
    unfold finMarks
    split
    · split
      · exact h1
      · exact h1.insInc _ _
    · exact h1
  · exact h

theorem trace_hit (p : Program) (cfg : Cfg) (ms : List Bytes) : ∀ (j : Nat) (fathers : List Bytes) (f : Nat) (svc : Service) (st : St),
    FnHit cfg ms st.marks → FnHit cfg ms (trace p cfg ms j fathers f svc st).1.marks := by
  intro j
  induction j with
  | zero => intro fathers f svc st h; exact h
  | succ j ih =>
    intro fathers f svc st h
    have h1 := foldFns_hit (traceStep_hit p cfg ms fathers f svc) svc.fns st h
    unfold trace
    simp only
    generalize svc.fns.foldl (traceStep p cfg ms fathers f svc) st = st1 at h1 ⊢
    split
    · split
      · exact traceFinish_hit cfg ms f svc _ _ _ h1
      · rename_i g b _
        have i := ih (fathers ++ [b.name]) g b st1 h1
        generalize trace p cfg ms j (fathers ++ [b.name]) g b st1 = r at i ⊢
        exact traceFinish_hit cfg ms f svc _ _ _ (by rw [(afterBack_same cfg f svc r).1]; exact i)
    · exact traceFinish_hit cfg ms f svc _ _ _ h1

theorem markService_hit (p : Program) (cfg : Cfg) (ms : List Bytes) (hne : ms.isEmpty = false) : ∀ (j f : Nat) (svc : Service) (st : St),
    FnHit cfg ms st.marks → FnHit cfg ms (markService p cfg ms j f svc st).marks := by
  intro j
  induction j with
  | zero => intro f svc st h; exact h
  | succ j ih =>
    intro f svc st h
    unfold markService
    split
    · exact h
    · simp only [hne, Bool.false_eq_true, if_false, Bool.not_false, Bool.true_and]
      have h1 := foldFns_hit (svcStep_hit p cfg ms hne f svc) svc.fns st h
      generalize svc.fns.foldl (svcStep p cfg ms f svc) st = st1 at h1 ⊢
      have h2 : FnHit cfg ms (if (decide (svc.ext ≠ []) || svc.ref.isSome) = true then
          (trace p cfg ms (svcCount p + 1) [svc.name] f svc st1).1 else st1).marks := by
        split
        · exact trace_hit p cfg ms _ _ f svc st1 h1
        · exact h1
      generalize (if (decide (svc.ext ≠ []) || svc.ref.isSome) = true then
          (trace p cfg ms (svcCount p + 1) [svc.name] f svc st1).1 else st1) = st2 at h2 ⊢
      split
      · split
        · split
          · exact h2
          · exact ih _ _ _ h2
        · split
          · exact h2
          · split
            · exact h2.insInc _ _
            · exact ih _ _ _ (h2.insInc _ _)
      · exact h2

theorem method_filter_sound (p : Program) (cfg : Cfg) (hne : cfg.methods ≠ []) :
    FnHit cfg (effMethods p cfg) (markAST p cfg).marks := by
  have hne' : (effMethods p cfg).isEmpty = false := by
    cases hm : cfg.methods with
    | nil => exact absurd hm hne
    | cons a l => simp [effMethods, hm]
  have h1 : FnHit cfg (effMethods p cfg) (stage1 p cfg).marks := by
    intro f s n hn
    have := stage1_targets p cfg _ hn
    simp [Node.isTarget] at this
  have h2 : FnHit cfg (effMethods p cfg) (stage2 p cfg).marks := by
    unfold stage2
    generalize stage1 p cfg = st at h1
    generalize (p.file 0).services = l
    induction l generalizing st with
    | nil => exact h1
    | cons a l ih => exact ih _ (markService_hit p cfg _ hne' _ 0 a st h1)
  rw [markAST_eq]
  exact h2.grows (markKeptPart_grows p cfg 0 _)

/-! ### machine-checked witnesses (regression items and counterexamples) -/

def fixOff : Fix := ⟨false, false, false⟩
def fixOn : Fix := ⟨true, true, true⟩

def cfg0 : Cfg := ⟨fixOff, [], false, false, [], fun _ _ => false⟩

/-- `f0: include "f1.thrift"  service V0 extends f1.V2 {}` ; `f1: service V1 {}  service V2 extends V1 {}` -/
def progA : Program := ⟨[
  ⟨[102, 48], [⟨[102, 49], 1⟩], [], [], [], [], [], [], [⟨[86, 48], [102, 49, 46, 86, 50], some ([86, 50], 0), []⟩]⟩,
  ⟨[102, 49], [], [], [], [], [], [], [], [⟨[86, 49], [], none, []⟩, ⟨[86, 50], [86, 49], none, []⟩]⟩]⟩

/-- -m V1.put ; regexp2 finds "V1.put" in "V1.putAll" -/
def cfgB (fx : Fix) : Cfg := ⟨fx, [[86, 49, 46, 112, 117, 116]], false, false, [],
  fun pat s => pat == [86, 49, 46, 112, 117, 116] && s == [86, 49, 46, 112, 117, 116, 65, 108, 108]⟩

/-- `service V0 {}  service V1 extends V0 { void putAll() }` -/
def progB : Program := ⟨[
  ⟨[102, 48], [], [], [], [], [], [], [],
    [⟨[86, 48], [], none, []⟩, ⟨[86, 49], [86, 48], none, [⟨[112, 117, 116, 65, 108, 108], [], [], none⟩]⟩]⟩]⟩

/-- -m "^V1\.m0$" ; it matches exactly "V1.m0" -/
def cfgC (fx : Fix) : Cfg := ⟨fx, [[94, 86, 49, 92, 46, 109, 48, 36]], false, false, [],
  fun pat s => pat == [94, 86, 49, 92, 46, 109, 48, 36] && s == [86, 49, 46, 109, 48]⟩

/-- `f0: include "f1.thrift"  service V0 extends f1.V2 {}  service V1 extends V0 {}` ; `f1: service V2 { void m0() }` -/
def progC : Program := ⟨[
  ⟨[102, 48], [⟨[102, 49], 1⟩], [], [], [], [], [], [],
    [⟨[86, 48], [102, 49, 46, 86, 50], some ([86, 50], 0), []⟩, ⟨[86, 49], [86, 48], none, []⟩]⟩,
  ⟨[102, 49], [], [], [], [], [], [], [], [⟨[86, 50], [], none, [⟨[109, 48], [], [], none⟩]⟩]⟩]⟩

/-- -m V0.m0 -/
def cfgD (fx : Fix) : Cfg := ⟨fx, [[86, 48, 46, 109, 48]], false, false, [],
  fun pat s => pat == [86, 48, 46, 109, 48] && s == [86, 48, 46, 109, 48]⟩

/-- `f0: include "f1.thrift"  service V0 extends f1.V1 { void m0() }` ; `f1: service V1 {}` -/
def progD : Program := ⟨[
  ⟨[102, 48], [⟨[102, 49], 1⟩], [], [], [], [], [], [],
    [⟨[86, 48], [102, 49, 46, 86, 49], some ([86, 49], 0), [⟨[109, 48], [], [], none⟩]⟩]⟩,
  ⟨[102, 49], [], [], [], [], [], [], [], [⟨[86, 49], [], none, []⟩]⟩]⟩

/-- regression of the repaired defect 1: the same-file base of a kept service of an included file survives -/
theorem progA_facts :
    (markAST progA cfg0).crash = false ∧
    ((trimProg progA cfg0).file 1).services = [⟨[86, 49], [], none, []⟩, ⟨[86, 50], [86, 49], none, []⟩] ∧
    findSvc (trimProg progA cfg0) 1 [86, 49] ≠ none ∧
    trimProg (trimProg progA cfg0) cfg0 = trimProg progA cfg0 := by decide

/-- before the repairs trimming with -m is not idempotent -/
theorem progB_facts :
    (markAST progB (cfgB fixOff)).crash = false ∧
    ((trimProg progB (cfgB fixOff)).file 0).services = [⟨[86, 49], [], none, [⟨[112, 117, 116, 65, 108, 108], [], [], none⟩]⟩] ∧
    ((trimProg (trimProg progB (cfgB fixOff)) (cfgB fixOff)).file 0).services = [] := by decide

theorem progC_facts_off :
    ((trimProg progC (cfgC fixOff)).file 0).services = [⟨[86, 48], [], none, []⟩, ⟨[86, 49], [86, 48], none, []⟩] ∧
    trimProg (trimProg progC (cfgC fixOff)) (cfgC fixOff) ≠ trimProg progC (cfgC fixOff) := by decide

theorem progD_facts_off :
    ((trimProg progD (cfgD fixOff)).file 0).includes.length = 1 ∧
    ((trimProg (trimProg progD (cfgD fixOff)) (cfgD fixOff)).file 0).includes.length = 0 := by decide

/-- with the three repairs the witnesses of defects 2–4 are trimmed once and for all -/
theorem repaired_facts :
    trimProg (trimProg progB (cfgB fixOn)) (cfgB fixOn) = trimProg progB (cfgB fixOn) ∧
    ((trimProg progB (cfgB fixOn)).file 0).services = [] ∧
    trimProg (trimProg progC (cfgC fixOn)) (cfgC fixOn) = trimProg progC (cfgC fixOn) ∧
    ((trimProg progC (cfgC fixOn)).file 0).services =
      [⟨[86, 48], [102, 49, 46, 86, 50], some ([86, 50], 0), []⟩, ⟨[86, 49], [86, 48], none, []⟩] ∧
    trimProg (trimProg progD (cfgD fixOn)) (cfgD fixOn) = trimProg progD (cfgD fixOn) ∧
    ((trimProg progD (cfgD fixOn)).file 0).includes = [] := by decide

/-! ### files with constants or typedefs stay reachable -/

/-- the file declares a constant or a typedef (`ret = true` in markKeptPart) -/
def hasCT (p : Program) (f : Nat) : Bool := !(p.file f).consts.isEmpty || !(p.file f).typedefs.isEmpty

/-- a cached `markKeptPart` answer is `true` for files with constants or typedefs -/
def CacheCT (p : Program) (st : St) : Prop := ∀ f r, (f, r) ∈ st.cache → hasCT p f = true → r = true

theorem keptFold_snd (p : Program) (cfg : Cfg) (f : Nat) : ∀ (l : List (SLKind × StructLike)) (a : Marks × Bool),
    a.2 = true → (l.foldl (keptStep p cfg f) a).2 = true := by
  intro l
  induction l with
  | nil => intro a h; exact h
  | cons ks l ih =>
    intro a h
    apply ih
    unfold keptStep
    split
    · rfl
    · exact h

theorem markKeptPart_ct (p : Program) (cfg : Cfg) (f : Nat) (st : St) (h : CacheCT p st) :
    CacheCT p (markKeptPart p cfg f st).1 ∧ (hasCT p f = true → (markKeptPart p cfg f st).2 = true) := by
  unfold markKeptPart
  split
  · rename_i r hr
    exact ⟨h, fun hct => h f r (cacheGet_mem _ _ _ hr) hct⟩
  · simp only
    have key : hasCT p f = true → (if cfg.force = true then
        (markTypes p f (markTypes p f st.marks ((p.file f).consts.map (·.ty))) ((p.file f).typedefs.map (·.ty)),
          !(p.file f).consts.isEmpty || !(p.file f).typedefs.isEmpty)
        else (p.file f).sls.foldl (keptStep p cfg f)
          (markTypes p f (markTypes p f st.marks ((p.file f).consts.map (·.ty))) ((p.file f).typedefs.map (·.ty)),
          !(p.file f).consts.isEmpty || !(p.file f).typedefs.isEmpty)).2 = true := by
      intro hct
      split
      · exact hct
      · exact keptFold_snd p cfg f _ (_, _) hct
    refine ⟨?_, key⟩
    intro g r hgr hct
    rcases List.mem_cons.mp hgr with hgr | hgr
    · injection hgr with e1 e2
      subst e1
      rw [e2]
      exact key hct
    · exact h g r hgr hct

/-- `g` can reach (through includes) a file with constants or typedefs -/
def LeadsCT (p : Program) (g : Nat) : Prop := ∃ h, Path p g h ∧ hasCT p h = true

theorem foldPre_snd {rec : Nat → St → St × Bool} (f : Nat) : ∀ (l : List (Include × Nat)) (a : St × Bool),
    a.2 = true → (l.foldl (preStep rec f) a).2 = true := by
  intro l
  induction l with
  | nil => intro a h; exact h
  | cons x l ih =>
    intro a h
    apply ih
    unfold preStep
    simp only
    split
    · rfl
    · exact h

theorem preProcess_ct (p : Program) (cfg : Cfg) : ∀ (j f : Nat) (st : St), CacheCT p st →
    CacheCT p (preProcess p cfg j f st).1 ∧
    ((preProcess p cfg j f st).1.crash = false →
      (LeadsCT p f → (preProcess p cfg j f st).2 = true) ∧
      (∀ g, Path p f g → ∀ ii ∈ (p.file g).includes.zipIdx, LeadsCT p ii.1.target →
        Node.inc g ii.2 ∈ (preProcess p cfg j f st).1.marks)) := by
  intro j
  induction j with
  | zero =>
    intro f st h
    exact ⟨h, fun hc => by simp [preProcess] at hc⟩
  | succ j ih =>
    intro f st h
    unfold preProcess
    obtain ⟨k1, k2⟩ := markKeptPart_ct p cfg f st h
    have hrec := preProcess_mono p cfg j
    -- the include loop
    have key : ∀ (l : List (Include × Nat)) (a : St × Bool), CacheCT p a.1 →
        CacheCT p (l.foldl (preStep (preProcess p cfg j) f) a).1 ∧
        ((l.foldl (preStep (preProcess p cfg j) f) a).1.crash = false →
          (∀ ii ∈ l, LeadsCT p ii.1.target →
            (l.foldl (preStep (preProcess p cfg j) f) a).2 = true ∧
            Node.inc f ii.2 ∈ (l.foldl (preStep (preProcess p cfg j) f) a).1.marks) ∧
          (∀ ii ∈ l, ∀ g, Path p ii.1.target g → ∀ jj ∈ (p.file g).includes.zipIdx, LeadsCT p jj.1.target →
            Node.inc g jj.2 ∈ (l.foldl (preStep (preProcess p cfg j) f) a).1.marks)) := by
      intro l
      induction l with
      | nil => intro a ha; exact ⟨ha, fun _ => ⟨by simp, by simp⟩⟩
      | cons x l ihl =>
        intro a ha
        simp only [List.foldl_cons]
        obtain ⟨r1, r2⟩ := ih x.1.target a.1 ha
        have hstep_ct : CacheCT p (preStep (preProcess p cfg j) f a x).1 := by
          unfold preStep
          simp only
          split
          · exact r1
          · exact r1
        obtain ⟨t1, t2⟩ := ihl (preStep (preProcess p cfg j) f a x) hstep_ct
        refine ⟨t1, fun hc => ?_⟩
        have m2 := foldPre_mono hrec f l (preStep (preProcess p cfg j) f a x)
        have hc1 : (preProcess p cfg j x.1.target a.1).1.crash = false := by
          cases hcr : (preProcess p cfg j x.1.target a.1).1.crash with
          | false => rfl
          | true =>
            have : (preStep (preProcess p cfg j) f a x).1.crash = true := by
              unfold preStep
              simp only
              split <;> exact hcr
            rw [m2.2.2 this] at hc
            cases hc
        obtain ⟨u1, u2⟩ := r2 hc1
        obtain ⟨v1, v2⟩ := t2 hc
        refine ⟨?_, ?_⟩
        · intro ii hii hl
          rcases List.mem_cons.mp hii with hii | hii
          · subst hii
            have hret := u1 hl
            have hs : (preStep (preProcess p cfg j) f a ii).2 = true ∧
                Node.inc f ii.2 ∈ (preStep (preProcess p cfg j) f a ii).1.marks := by
              unfold preStep
              simp [hret]
            exact ⟨foldPre_snd f l _ hs.1, m2.1 hs.2⟩
          · exact v1 ii hii hl
        · intro ii hii g hg jj hjj hl
          rcases List.mem_cons.mp hii with hii | hii
          · subst hii
            have := u2 g hg jj hjj hl
            apply m2.1
            unfold preStep
            simp only
            split
            · exact List.mem_cons_of_mem _ this
            · exact this
          · exact v2 ii hii g hg jj hjj hl
    obtain ⟨c1, c2⟩ := key (p.file f).includes.zipIdx (markKeptPart p cfg f st) k1
    refine ⟨c1, fun hc => ?_⟩
    obtain ⟨d1, d2⟩ := c2 hc
    refine ⟨?_, ?_⟩
    · rintro ⟨h', hp, hct⟩
      cases hp with
      | refl => exact foldPre_snd f _ _ (k2 hct)
      | @step _ i g1 _ hi hp' =>
        have hlt := incTarget_lt p hi
        have hmem : ((p.file f).includes[i], i) ∈ (p.file f).includes.zipIdx := by
          apply List.mem_zipIdx_iff_getElem?.mpr
          simp [List.getElem?_eq_getElem hlt]
        have ht : ((p.file f).includes[i]).target = g1 := by
          simp [Program.incTarget, List.getElem?_eq_getElem hlt] at hi
          exact hi
        exact (d1 _ hmem ⟨h', by simpa [ht] using hp', hct⟩).1
    · intro g hg jj hjj hl
      cases hg with
      | refl => exact (d1 jj hjj hl).2
      | @step _ i g1 _ hi hp' =>
        have hlt := incTarget_lt p hi
        have hmem : ((p.file f).includes[i], i) ∈ (p.file f).includes.zipIdx := by
          apply List.mem_zipIdx_iff_getElem?.mpr
          simp [List.getElem?_eq_getElem hlt]
        have ht : ((p.file f).includes[i]).target = g1 := by
          simp [Program.incTarget, List.getElem?_eq_getElem hlt] at hi
          exact hi
        exact d2 _ hmem g (by simpa [ht] using hp') jj hjj hl

/-- files still reachable from the root through the includes `traversal` keeps -/
inductive KeptReach (p : Program) (M : Marks) : Nat → Prop
  | root : KeptReach p M 0
  | step {f : Nat} {ii : Include × Nat} : KeptReach p M f → ii ∈ (p.file f).includes.zipIdx →
      keepInc p M f ii = true → KeptReach p M ii.1.target

theorem ct_kept_reach (p : Program) (cfg : Cfg) (hc : (markAST p cfg).crash = false) {f : Nat}
    (hr : InclReach p f) (hct : hasCT p f = true) : KeptReach p (markAST p cfg).marks f := by
  have m := stage1_mono_final p cfg
  have hc1 : (stage1 p cfg).crash = false := crash_false_of_mono m.2.2 hc
  have hmarks := ((preProcess_ct p cfg _ 0 St.init (fun _ _ h => by simp [St.init] at h)).2 hc1).2
  -- every edge on a path from the root towards a file with constants/typedefs is marked
  have key : ∀ {g c : Nat}, Path p g c → hasCT p c = true → Path p 0 g →
      KeptReach p (markAST p cfg).marks g → KeptReach p (markAST p cfg).marks c := by
    intro g c hgc
    induction hgc with
    | refl => intro _ _ h; exact h
    | @step a i b c hi hbc ih =>
      intro hct' h0 hk
      have hlt := incTarget_lt p hi
      have hmem : ((p.file a).includes[i], i) ∈ (p.file a).includes.zipIdx := by
        apply List.mem_zipIdx_iff_getElem?.mpr
        simp [List.getElem?_eq_getElem hlt]
      have ht : ((p.file a).includes[i]).target = b := by
        simp [Program.incTarget, List.getElem?_eq_getElem hlt] at hi
        exact hi
      have hmk : Node.inc a i ∈ (markAST p cfg).marks :=
        m.1 (hmarks a h0 _ hmem ⟨c, by simpa [ht] using hbc, hct'⟩)
      have := KeptReach.step hk hmem (by simp [keepInc, hmk])
      rw [ht] at this
      exact ih hct' (h0.snoc hi) this
  exact key (path_of_inclReach hr) hct (Path.refl 0) KeptReach.root




/-- more fuel than unmarked nodes changes nothing: the fuel is not a semantic restriction -/
theorem visit_fuel_succ (p : Program) : ∀ (k : Nat) (M : Marks) (n : Node), unmarked p M < k → n ∈ allNodes p →
    visit p (k + 1) M n = visit p k M n := by
  intro k
  induction k with
  | zero => intro M n h; omega
  | succ k ih =>
    intro M n hk hn
    rw [visit, visit]
    by_cases hm : n ∈ M
    · simp [hm]
    · simp only [hm, if_false]
      have hk0 : unmarked p (n :: M) < k := by
        have := unmarked_cons_lt p hn hm
        omega
      have key : ∀ (ns : List Node) (M0 : Marks), unmarked p M0 < k → (∀ x ∈ ns, x ∈ allNodes p) →
          ns.foldl (visit p (k + 1)) M0 = ns.foldl (visit p k) M0 := by
        intro ns
        induction ns with
        | nil => intro M0 _ _; rfl
        | cons a as iha =>
          intro M0 h0 hall
          simp only [List.foldl_cons]
          rw [ih M0 a h0 (hall a (List.mem_cons_self))]
          exact iha _ (Nat.lt_of_le_of_lt (unmarked_mono p (visit_sub p k M0 a)) h0)
            (fun x hx => hall x (List.mem_cons_of_mem _ hx))
      exact key (succs p n) (n :: M) hk0 (fun x hx => succs_sub p hx)

theorem visit_fuel_ge (p : Program) (M : Marks) (n : Node) (hn : n ∈ allNodes p) :
    ∀ d, visit p (fuelN p + d) M n = visit p (fuelN p) M n := by
  intro d
  induction d with
  | zero => rfl
  | succ d ih =>
    rw [← ih]
    exact visit_fuel_succ p (fuelN p + d) M n (Nat.lt_of_lt_of_le (unmarked_lt_fuel p M) (Nat.le_add_right _ _)) hn




/-! ### the trimmed program binds every kept type to the same definitions -/

/-- include marks are renumbered like `Reference.Index`; all other nodes keep their address -/
def renNode (p : Program) (M : Marks) : Node → Node
  | .inc f i => .inc f (newIdx (keepFlags p M f) i)
  | n => n

theorem filter_zipIdx_get {α : Type} (keep : α × Nat → Bool) : ∀ (l : List α) (k i : Nat),
    ((l.zipIdx k).map keep).getD i false = true →
    (((l.zipIdx k).filter keep).map (·.1))[(((l.zipIdx k).map keep).take i).count true]? = l[i]? := by
  intro l
  induction l with
  | nil => intro k i h; simp at h
  | cons x xs ih =>
    intro k i h
    simp only [List.zipIdx_cons, List.map_cons] at h ⊢
    cases i with
    | zero =>
      simp only [List.getD_cons_zero] at h
      simp [h]
    | succ j =>
      simp only [List.getD_cons_succ] at h
      have := ih (k + 1) j h
      by_cases hk : keep (x, k) = true
      · simp only [List.filter_cons, hk, if_true, List.map_cons, List.take_succ_cons, List.count_cons_self,
          List.getElem?_cons_succ]
        exact this
      · have hk' : keep (x, k) = false := by simpa using hk
        simp only [List.filter_cons, hk', Bool.false_eq_true, if_false, List.take_succ_cons, List.getElem?_cons_succ]
        rw [List.count_cons_of_ne (by simp)]
        exact this

theorem zipIdx_map_getD {α : Type} (g : α × Nat → Bool) (l : List α) (i : Nat) (h : i < l.length) :
    (l.zipIdx.map g).getD i false = g (l[i], i) := by
  simp [List.getD, List.getElem?_map, List.getElem?_zipIdx, List.getElem?_eq_getElem h]

theorem file_trimProg (p : Program) (cfg : Cfg) (f : Nat) :
    (trimProg p cfg).file f = trimFile p cfg (effMethods p cfg) (markAST p cfg) f (p.file f) := by
  by_cases hf : f < p.files.length
  · simp [Program.file, trimProg, List.getD, List.getElem?_map, List.getElem?_zipIdx, List.getElem?_eq_getElem hf]
  · have hf' : p.files.length ≤ f := Nat.le_of_not_lt hf
    rw [file_of_ge p hf']
    have : (trimProg p cfg).files.length ≤ f := by simpa [trimProg] using hf'
    rw [file_of_ge _ this]
    simp [trimFile, sweepFile, renFile, emptyFile]

theorem incTarget_trim (p : Program) (cfg : Cfg) (f i g : Nat) (hg : p.incTarget f i = some g)
    (hm : Node.inc f i ∈ (markAST p cfg).marks) :
    (trimProg p cfg).incTarget f (newIdx (keepFlags p (markAST p cfg).marks f) i) = some g := by
  have hlt := incTarget_lt p hg
  have hk : (keepFlags p (markAST p cfg).marks f).getD i false = true := by
    unfold keepFlags
    rw [zipIdx_map_getD _ _ _ hlt]
    simp [keepInc, hm]
  unfold Program.incTarget at hg ⊢
  rw [file_trimProg]
  simp only [trimFile, renFile, sweepFile]
  unfold newIdx
  simp only [hk, if_true]
  unfold keepFlags at hk ⊢
  rw [filter_zipIdx_get (keepInc p (markAST p cfg).marks f) (p.file f).includes 0 i hk]
  exact hg

theorem find_filter_map {α : Type} (pred keep : α → Bool) (g : α → α) (hg : ∀ x, pred (g x) = pred x) :
    ∀ (l : List α) (s : α), l.find? pred = some s → keep s = true → ((l.filter keep).map g).find? pred = some (g s) := by
  intro l
  induction l with
  | nil => intro s h; simp at h
  | cons x xs ih =>
    intro s h hk
    by_cases hp : pred x = true
    · simp only [List.find?_cons, hp] at h
      cases h
      simp [hk, hg, hp]
    · have hp' : pred x = false := by simpa using hp
      simp only [List.find?_cons, hp'] at h
      by_cases hkx : keep x = true
      · simp only [List.filter_cons, hkx, if_true, List.map_cons, List.find?_cons, hg, hp']
        exact ih s h hk
      · have : keep x = false := by simpa using hkx
        simp only [List.filter_cons, this, Bool.false_eq_true, if_false]
        exact ih s h hk

theorem find_map_pres {α : Type} (pred : α → Bool) (g : α → α) (hg : ∀ x, pred (g x) = pred x) :
    ∀ (l : List α), (l.map g).find? pred = (l.find? pred).map g := by
  intro l
  induction l with
  | nil => rfl
  | cons x xs ih =>
    by_cases hp : pred x = true
    · simp [hg, hp]
    · have hp' : pred x = false := by simpa using hp
      simp [hg, hp', ih]

theorem nameHit_ren (ks : List Bool) (h : TyHdr) (n : Bytes) : nameHit (renHdr ks h) n = nameHit h n := by
  unfold nameHit renHdr renRef
  cases h.ref with
  | none => rfl
  | some r => rfl

theorem sl_trim (p : Program) (cfg : Cfg) (g : Nat) (k : SLKind) :
    ((trimProg p cfg).file g).sl k =
      (((p.file g).sl k).filter (keepSL cfg (markAST p cfg).marks g k)).map
        (renSL (keepFlags p (markAST p cfg).marks g)) := by
  rw [file_trimProg]
  cases k <;> simp [trimFile, renFile, sweepFile, File.sl]

/-- the struct-like branch of declTargets, for one kind -/
theorem find_sl_trim (p : Program) (cfg : Cfg) (g : Nat) (k : SLKind) (ks : List Bool) (h : TyHdr) (s : StructLike)
    (hf : ((p.file g).sl k).find? (fun s => nameHit h s.name) = some s)
    (hm : Node.sl g k s.name ∈ (markAST p cfg).marks) :
    ∃ s', (((trimProg p cfg).file g).sl k).find? (fun s => nameHit (renHdr ks h) s.name) = some s' ∧ s'.name = s.name := by
  rw [sl_trim]
  refine ⟨renSL (keepFlags p (markAST p cfg).marks g) s, ?_, rfl⟩
  have := find_filter_map (fun s => nameHit h s.name) (keepSL cfg (markAST p cfg).marks g k)
    (renSL (keepFlags p (markAST p cfg).marks g)) (fun _ => rfl) _ s hf (by simp [keepSL, hm])
  simpa [nameHit_ren] using this

theorem find_sl_trim_none (p : Program) (cfg : Cfg) (g : Nat) (k : SLKind) (ks : List Bool) (h : TyHdr)
    (hf : ((p.file g).sl k).find? (fun s => nameHit h s.name) = none) :
    (((trimProg p cfg).file g).sl k).find? (fun s => nameHit (renHdr ks h) s.name) = none := by
  rw [sl_trim, List.find?_eq_none]
  intro s' hs'
  obtain ⟨s0, h0, rfl⟩ := List.mem_map.mp hs'
  have := List.find?_eq_none.mp hf s0 (List.mem_filter.mp h0).1
  simpa [nameHit_ren, renSL] using this

/-- one struct-like kind of declTargets -/
theorem slBranch_trim (p : Program) (cfg : Cfg) (base : Nat) (k : SLKind) (ks : List Bool) (h : TyHdr)
    (hm : ∀ x ∈ (match ((p.file base).sl k).find? (fun s => nameHit h s.name) with
      | some s => [Node.sl base k s.name] | none => []), x ∈ (markAST p cfg).marks) :
    (match (((trimProg p cfg).file base).sl k).find? (fun s => nameHit (renHdr ks h) s.name) with
      | some s => [Node.sl base k s.name] | none => []) =
    (match ((p.file base).sl k).find? (fun s => nameHit h s.name) with
      | some s => [Node.sl base k s.name] | none => []) := by
  cases hf : ((p.file base).sl k).find? (fun s => nameHit h s.name) with
  | none => simp [find_sl_trim_none p cfg base k ks h hf]
  | some s =>
    simp only [hf] at hm
    obtain ⟨s', h1, h2⟩ := find_sl_trim p cfg base k ks h s hf (hm _ (List.mem_singleton.mpr rfl))
    simp [h1, h2]

theorem declTargets_trim (p : Program) (cfg : Cfg) (base : Nat) (ks : List Bool) (h : TyHdr)
    (hm : ∀ x ∈ declTargets p base h, x ∈ (markAST p cfg).marks) :
    declTargets (trimProg p cfg) base (renHdr ks h) = declTargets p base h := by
  unfold declTargets at hm ⊢
  have e1 : (renHdr ks h).isTd = h.isTd := rfl
  have e2 : (renHdr ks h).cat = h.cat := rfl
  have e3 : (renHdr ks h).name = h.name := rfl
  rw [e1, e2, e3]
  by_cases c0 : h.isTd = true
  · simp only [c0, if_true]
    have : ((trimProg p cfg).file base).typedefs =
        (p.file base).typedefs.map (fun t => { t with ty := renTy (keepFlags p (markAST p cfg).marks base) t.ty }) := by
      rw [file_trimProg]; simp [trimFile, renFile, sweepFile]
    rw [this, find_map_pres (fun t : Typedef => t.alias == h.name)
      (fun t => { t with ty := renTy (keepFlags p (markAST p cfg).marks base) t.ty }) (fun _ => rfl)]
    cases (p.file base).typedefs.find? (fun t => t.alias == h.name) with
    | none => rfl
    | some t => rfl
  · simp only [c0, Bool.false_eq_true, if_false] at hm ⊢
    by_cases c1 : h.cat = 13
    · simp only [c1, if_true] at hm ⊢
      exact slBranch_trim p cfg base .struct ks h hm
    · simp only [c1, if_false] at hm ⊢
      by_cases c2 : h.cat = 15
      · simp only [c2, if_true] at hm ⊢
        exact slBranch_trim p cfg base .exception ks h hm
      · simp only [c2, if_false] at hm ⊢
        by_cases c3 : h.cat = 14
        · simp only [c3, if_true] at hm ⊢
          exact slBranch_trim p cfg base .union ks h hm
        · simp only [c3, if_false] at hm ⊢
          by_cases c4 : h.cat = 12
          · simp only [c4, if_true]
            have : ((trimProg p cfg).file base).enums = (p.file base).enums := by
              rw [file_trimProg]; simp [trimFile, renFile, sweepFile]
            rw [this]
            simp only [nameHit_ren]
          · simp only [c4, if_false]


theorem declTargets_not_inc (p : Program) (base : Nat) (h : TyHdr) : ∀ x ∈ declTargets p base h, ∀ M, renNode p M x = x := by
  intro x hx M
  unfold declTargets at hx
  split at hx
  · split at hx
    · rw [List.mem_singleton.mp hx]; rfl
    · simp at hx
  · split at hx
    · split at hx
      · rw [List.mem_singleton.mp hx]; rfl
      · simp at hx
    · split at hx
      · split at hx
        · rw [List.mem_singleton.mp hx]; rfl
        · simp at hx
      · split at hx
        · split at hx
          · rw [List.mem_singleton.mp hx]; rfl
          · simp at hx
        · split at hx
          · split at hx
            · rw [List.mem_singleton.mp hx]; rfl
            · simp at hx
          · simp at hx

theorem map_id_of {α : Type} (g : α → α) : ∀ (l : List α), (∀ x ∈ l, g x = x) → l.map g = l := by
  intro l
  induction l with
  | nil => intro _; rfl
  | cons a as ih =>
    intro h
    simp only [List.map_cons]
    rw [h a (List.mem_cons_self), ih (fun x hx => h x (List.mem_cons_of_mem _ hx))]

theorem incTarget_trim_none (p : Program) (cfg : Cfg) (f i : Nat) (hg : p.incTarget f i = none) :
    (trimProg p cfg).incTarget f (newIdx (keepFlags p (markAST p cfg).marks f) i) = none := by
  have hge : (p.file f).includes.length ≤ i := by
    unfold Program.incTarget at hg
    cases hi : (p.file f).includes[i]? with
    | none => exact List.getElem?_eq_none_iff.mp hi
    | some x => simp [hi] at hg
  have hk : (keepFlags p (markAST p cfg).marks f).getD i false = false := by
    unfold keepFlags
    simp [List.getD, List.getElem?_eq_none (by simpa using hge : ((p.file f).includes.zipIdx.map (keepInc p (markAST p cfg).marks f)).length ≤ i)]
  unfold newIdx
  simp only [hk, Bool.false_eq_true, if_false]
  unfold Program.incTarget
  rw [file_trimProg]
  simp only [trimFile, renFile, sweepFile]
  have : ((List.filter (keepInc p (markAST p cfg).marks f) (p.file f).includes.zipIdx).map (·.1)).length ≤ i := by
    simp only [List.length_map]
    exact Nat.le_trans (List.length_filter_le _ _) (by simpa using hge)
  simp [List.getElem?_eq_none this]

theorem selfTargets_trim (p : Program) (cfg : Cfg) (f : Nat) (h : TyHdr)
    (hm : ∀ x ∈ selfTargets p f h, x ∈ (markAST p cfg).marks) :
    selfTargets (trimProg p cfg) f (renHdr (keepFlags p (markAST p cfg).marks f) h) =
      (selfTargets p f h).map (renNode p (markAST p cfg).marks) := by
  unfold selfTargets at hm ⊢
  cases hr : h.ref with
  | none =>
    have e : (renHdr (keepFlags p (markAST p cfg).marks f) h).ref = none := by simp [renHdr, renRef, hr]
    simp only [hr] at hm
    simp only [e]
    rw [declTargets_trim p cfg f _ h hm, map_id_of _ _ (fun x hx => declTargets_not_inc p f h x hx _)]
  | some r =>
    obtain ⟨rn, i⟩ := r
    have e : (renHdr (keepFlags p (markAST p cfg).marks f) h).ref = some (rn, newIdx (keepFlags p (markAST p cfg).marks f) i) := by
      simp [renHdr, renRef, hr]
    simp only [hr] at hm
    simp only [e]
    cases hg : p.incTarget f i with
    | none => simp [incTarget_trim_none p cfg f i hg]
    | some g =>
      simp only [hg] at hm
      rw [incTarget_trim p cfg f i g hg (hm _ (List.mem_cons_self))]
      simp only [List.map_cons, renNode]
      rw [declTargets_trim p cfg g _ h (fun x hx => hm x (List.mem_cons_of_mem _ hx)),
        map_id_of _ _ (fun x hx => declTargets_not_inc p g h x hx _)]

theorem plain_ren (ks : List Bool) (h : TyHdr) : (renHdr ks h).plain = h.plain := rfl

theorem tyTargets_trim (p : Program) (cfg : Cfg) (f : Nat) : ∀ (ty : Ty),
    (∀ x ∈ tyTargets p f ty, x ∈ (markAST p cfg).marks) →
    tyTargets (trimProg p cfg) f (renTy (keepFlags p (markAST p cfg).marks f) ty) =
      (tyTargets p f ty).map (renNode p (markAST p cfg).marks) := by
  intro ty
  induction ty with
  | named h =>
    intro hm
    simp only [renTy, tyTargets, plain_ren] at hm ⊢
    by_cases hp : h.plain = true
    · simp [hp]
    · simp only [hp, Bool.false_eq_true, if_false] at hm ⊢
      exact selfTargets_trim p cfg f h hm
  | unary h v ih =>
    intro hm
    simp only [renTy, tyTargets, plain_ren] at hm ⊢
    by_cases hp : h.plain = true
    · simp [hp]
    · simp only [hp, Bool.false_eq_true, if_false] at hm ⊢
      rw [List.map_append, ih (fun x hx => hm x (List.mem_append_left _ hx)),
        selfTargets_trim p cfg f h (fun x hx => hm x (List.mem_append_right _ hx))]
  | binary h k v ihk ihv =>
    intro hm
    simp only [renTy, tyTargets, plain_ren] at hm ⊢
    by_cases hp : h.plain = true
    · simp [hp]
    · simp only [hp, Bool.false_eq_true, if_false] at hm ⊢
      rw [List.map_append, List.map_append, ihk (fun x hx => hm x (List.mem_append_left _ hx)),
        ihv (fun x hx => hm x (List.mem_append_right _ (List.mem_append_left _ hx))),
        selfTargets_trim p cfg f h (fun x hx => hm x (List.mem_append_right _ (List.mem_append_right _ hx)))]


/-- every type of every node that survives in an included file names, in the trimmed program, exactly
the (renumbered) nodes it named before -/
theorem bindings (p : Program) (cfg : Cfg) (hc : (markAST p cfg).crash = false) (hu : UniqueSvcFn p) (hl : UniqueSL p)
    (f : Nat) (hr : InclReach p f) :
    (∀ c ∈ (sweepFile p cfg (effMethods p cfg) (markAST p cfg) f (p.file f)).consts,
      tyTargets (trimProg p cfg) f (renTy (keepFlags p (markAST p cfg).marks f) c.ty) =
        (tyTargets p f c.ty).map (renNode p (markAST p cfg).marks)) ∧
    (∀ t ∈ (sweepFile p cfg (effMethods p cfg) (markAST p cfg) f (p.file f)).typedefs,
      tyTargets (trimProg p cfg) f (renTy (keepFlags p (markAST p cfg).marks f) t.ty) =
        (tyTargets p f t.ty).map (renNode p (markAST p cfg).marks)) ∧
    (∀ k, ∀ s ∈ (sweepFile p cfg (effMethods p cfg) (markAST p cfg) f (p.file f)).sl k, ∀ fd ∈ s.fields,
      tyTargets (trimProg p cfg) f (renTy (keepFlags p (markAST p cfg).marks f) fd.ty) =
        (tyTargets p f fd.ty).map (renNode p (markAST p cfg).marks)) ∧
    (∀ svc ∈ (sweepFile p cfg (effMethods p cfg) (markAST p cfg) f (p.file f)).services, ∀ fn ∈ svc.fns, ∀ ty ∈ fn.types,
      tyTargets (trimProg p cfg) f (renTy (keepFlags p (markAST p cfg).marks f) ty) =
        (tyTargets p f ty).map (renNode p (markAST p cfg).marks)) := by
  obtain ⟨k1, k2, k3, k4⟩ := kept_refs p cfg hc hu hl f hr
  exact ⟨fun c hcm => tyTargets_trim p cfg f _ (k1 c hcm), fun t ht => tyTargets_trim p cfg f _ (k2 t ht),
    fun k s hs fd hfd => tyTargets_trim p cfg f _ (k3 k s hs fd hfd),
    fun svc hs fn hfn ty hty => tyTargets_trim p cfg f _ (k4 svc hs fn hfn ty hty)⟩


end Trim
