/-
  Names — model of how thriftgo's Go backend chooses Go identifiers and import aliases (property C01).

  Follows, statement by statement:
    pkg/namespace/namespace.go            Namespace: Add / Reserve / MustReserve / Get / ID, UnderscoreSuffix
    generator/golang/scope_internal.go    installNames, identify, buildService, buildFunction, buildTypedef,
                                          buildEnum, buildConstant, buildStructLike
    generator/golang/imports.go           importManager: init / Add (idHijack) / UseStdLibrary / ResolveImports
    generator/golang/templates/*.go       ONLY the identifiers the default templates declare (`minted…`): which text
                                          the templates emit around them is outside Lean (the Go toolchain is the oracle)

  Go strings are `Bytes`; Go maps are association lists in insertion order (`lk` / `put`); a Go panic is an error
  outcome (`Err`); the `for exist && cur != id` loop of `Add` runs on fuel whose exhaustion is `Err.crash`.
  The naming style (`CodeUtils.Identify`) is a PARAMETER `ident : Bytes → Bytes` everywhere.
  Core Lean only.
-/
import ThriftVerif.Core.VL

namespace Names

/-! ## byte-string helpers -/

def isPrefix : Bytes → Bytes → Bool
  | [], _ => true
  | _ :: _, [] => false
  | a :: p, b :: s => a == b && isPrefix p s

def isSuffix (p s : Bytes) : Bool := isPrefix p.reverse s.reverse

/-- `strings.TrimPrefix(s, "$")` -/
def trimDollar : Bytes → Bytes
  | 36 :: r => r
  | s => s

def hasDollar : Bytes → Bool
  | 36 :: _ => true
  | _ => false

/-- `prefix + id` -/
def dollar (id : Bytes) : Bytes := 36 :: id

/-- `common.LowerFirstRune` on ASCII (thrift identifiers are ASCII) -/
def lowerFirst : Bytes → Bytes
  | [] => []
  | c :: r => (if 65 ≤ c ∧ c ≤ 90 then c + 32 else c) :: r

/-- `common.Unexport` = lower the first rune (ASCII) -/
def unexport (s : Bytes) : Bytes := lowerFirst s

def natDec (n : Nat) : Bytes := (Nat.toDigits 10 n).map Char.toNat

/-- `id2str` of buildStructLike: negative ids are written `_<abs>` -/
def id2str (i : Int) : Bytes :=
  if i < 0 then 95 :: natDec i.natAbs else natDec i.natAbs

/-- `namespace.UnderscoreSuffix` -/
def underscore (name : Bytes) (cnt : Nat) : Bytes := name ++ List.replicate cnt 95

/-- the import manager's rename: `fmt.Sprintf("%s%d", name, cnt-1)` -/
def numbered (name : Bytes) (cnt : Nat) : Bytes := name ++ natDec (cnt - 1)

/-! ## literals (explicit byte lists: `decide`/`simp` can compare them) -/

def sNew : Bytes := [78, 101, 119]  -- "New"
def sArgs : Bytes := [65, 114, 103, 115]  -- "Args"
def sResult : Bytes := [82, 101, 115, 117, 108, 116]  -- "Result"
def sClient : Bytes := [67, 108, 105, 101, 110, 116]  -- "Client"
def sProcessor : Bytes := [80, 114, 111, 99, 101, 115, 115, 111, 114]  -- "Processor"
def sFieldIDToName : Bytes := [102, 105, 101, 108, 100, 73, 68, 84, 111, 78, 97, 109, 101, 95]  -- "fieldIDToName_"
def sRead : Bytes := [82, 101, 97, 100]  -- "Read"
def sWrite : Bytes := [87, 114, 105, 116, 101]  -- "Write"
def sString : Bytes := [83, 116, 114, 105, 110, 103]  -- "String"
def sCountSetFields : Bytes := [67, 111, 117, 110, 116, 83, 101, 116, 70, 105, 101, 108, 100, 115]  -- "CountSetFields"
def sError : Bytes := [69, 114, 114, 111, 114]  -- "Error"
def sCarrying : Bytes := [67, 97, 114, 114, 121, 105, 110, 103, 85, 110, 107, 110, 111, 119, 110, 70, 105, 101, 108, 100, 115]  -- "CarryingUnknownFields"
def sDeepEqual : Bytes := [68, 101, 101, 112, 69, 113, 117, 97, 108]  -- "DeepEqual"
def sGet : Bytes := [71, 101, 116]  -- "Get"
def sSet : Bytes := [83, 101, 116]  -- "Set"
def sIsSet : Bytes := [73, 115, 83, 101, 116]  -- "IsSet"
def sReadField : Bytes := [82, 101, 97, 100, 70, 105, 101, 108, 100]  -- "ReadField"
def sWriteField : Bytes := [119, 114, 105, 116, 101, 70, 105, 101, 108, 100]  -- "writeField"
def sField : Bytes := [70, 105, 101, 108, 100]  -- "Field"
def sInitDefault : Bytes := [73, 110, 105, 116, 68, 101, 102, 97, 117, 108, 116]  -- "InitDefault"
def sP : Bytes := [112]  -- "p"
def sErr : Bytes := [101, 114, 114]  -- "err"
def sCtx : Bytes := [99, 116, 120]  -- "ctx"
def sR : Bytes := [114]  -- "r"
def sNil : Bytes := [110, 105, 108]  -- "nil"
def sUResult : Bytes := [95, 114, 101, 115, 117, 108, 116]  -- "_result"
def sSuccess : Bytes := [115, 117, 99, 99, 101, 115, 115]  -- "success"
def tNew : Bytes := [110, 101, 119, 58]  -- "new:"
def tIds : Bytes := [105, 100, 115, 58]  -- "ids:"
def tClient : Bytes := [99, 108, 105, 101, 110, 116, 58]  -- "client:"
def tProcessor : Bytes := [112, 114, 111, 99, 101, 115, 115, 111, 114, 58]  -- "processor:"
def tGet : Bytes := [103, 101, 116, 58]  -- "get:"
def tSet : Bytes := [115, 101, 116, 58]  -- "set:"
def tIsset : Bytes := [105, 115, 115, 101, 116, 58]  -- "isset:"
def tRead : Bytes := [114, 101, 97, 100, 58]  -- "read:"
def tWrite : Bytes := [119, 114, 105, 116, 101, 58]  -- "write:"
def tDeepequal : Bytes := [100, 101, 101, 112, 101, 113, 117, 97, 108, 58]  -- "deepequal:"
def sUArgs : Bytes := [95, 97, 114, 103, 115]  -- "_args"
def sDEFAULT : Bytes := [68, 69, 70, 65, 85, 76, 84]  -- "DEFAULT"
def sFromString : Bytes := [70, 114, 111, 109, 83, 116, 114, 105, 110, 103]  -- "FromString"
def sPtr : Bytes := [80, 116, 114]  -- "Ptr"
def sAnnotations : Bytes := [97, 110, 110, 111, 116, 97, 116, 105, 111, 110, 115, 95]  -- "annotations_"
def sFactory : Bytes := [70, 97, 99, 116, 111, 114, 121]  -- "Factory"
def sProtocol : Bytes := [80, 114, 111, 116, 111, 99, 111, 108]  -- "Protocol"
def sGetFM : Bytes := [71, 101, 116, 95, 70, 105, 101, 108, 100, 77, 97, 115, 107]  -- "Get_FieldMask"
def sSetFM : Bytes := [83, 101, 116, 95, 70, 105, 101, 108, 100, 77, 97, 115, 107]  -- "Set_FieldMask"
def sPassFM : Bytes := [80, 97, 115, 115, 95, 70, 105, 101, 108, 100, 77, 97, 115, 107]  -- "Pass_FieldMask"
def sUnknownFields : Bytes := [95, 117, 110, 107, 110, 111, 119, 110, 70, 105, 101, 108, 100, 115]  -- "_unknownFields"
def sFieldmask : Bytes := [95, 102, 105, 101, 108, 100, 109, 97, 115, 107]  -- "_fieldmask"
def sBLength : Bytes := [66, 76, 101, 110, 103, 116, 104]  -- "BLength"
def sFastWrite : Bytes := [70, 97, 115, 116, 87, 114, 105, 116, 101]  -- "FastWrite"
def sFastWriteNocopy : Bytes := [70, 97, 115, 116, 87, 114, 105, 116, 101, 78, 111, 99, 111, 112, 121]  -- "FastWriteNocopy"
def sFastAppend : Bytes := [70, 97, 115, 116, 65, 112, 112, 101, 110, 100]  -- "FastAppend"
def sFastRead : Bytes := [70, 97, 115, 116, 82, 101, 97, 100]  -- "FastRead"
def sUnusedProt : Bytes := [84, 104, 114, 105, 102, 116, 71, 111, 85, 110, 117, 115, 101, 100, 80, 114, 111, 116, 101, 99, 116, 105, 111, 110]  -- "ThriftGoUnusedProtection"
def sClientU : Bytes := [67, 108, 105, 101, 110, 116, 95]  -- "Client_"
def sClientL : Bytes := [99, 108, 105, 101, 110, 116, 95]  -- "client_"
def sC : Bytes := [99]  -- "c"
def sProcessorMap : Bytes := [112, 114, 111, 99, 101, 115, 115, 111, 114, 77, 97, 112]  -- "processorMap"
def sHandler : Bytes := [104, 97, 110, 100, 108, 101, 114]  -- "handler"
def sAddToProcessorMap : Bytes := [65, 100, 100, 84, 111, 80, 114, 111, 99, 101, 115, 115, 111, 114, 77, 97, 112]  -- "AddToProcessorMap"
def sGetProcessorFunction : Bytes := [71, 101, 116, 80, 114, 111, 99, 101, 115, 115, 111, 114, 70, 117, 110, 99, 116, 105, 111, 110]  -- "GetProcessorFunction"
def sProcessorMapM : Bytes := [80, 114, 111, 99, 101, 115, 115, 111, 114, 77, 97, 112]  -- "ProcessorMap"
def sProcess : Bytes := [80, 114, 111, 99, 101, 115, 115]  -- "Process"

/-! ## pkg/namespace/namespace.go -/

abbrev Table := List (Bytes × Bytes)

/-- Go map read; `none` = absent -/
def lk (k : Bytes) : Table → Option Bytes
  | [] => none
  | (a, b) :: r => if a = k then some b else lk k r

/-- Go map assignment `m[k] = v` (insertion order kept: it is only used for printing) -/
def put (k v : Bytes) : Table → Table
  | [] => [(k, v)]
  | (a, b) :: r => if a = k then (a, v) :: r else (a, b) :: put k v r

/-- `namespace{name2id, id2name}`; `rename` is a parameter of the operations -/
structure NS where
  n2i : Table := []
  i2n : Table := []
  deriving Repr

def NS.empty : NS := {}

/-- `Get(id)`: absent = "" -/
def NS.get (ns : NS) (id : Bytes) : Bytes := (lk id ns.i2n).getD []

/-- `ID(name)`: absent = "" -/
def NS.idOf (ns : NS) (name : Bytes) : Bytes := (lk name ns.n2i).getD []

/-- total length of the bound names + their number + 2: more candidates than the table can hold -/
def fuelOf (t : Table) : Nat := t.length + (t.map (fun e => e.1.length)).sum + 2

inductive Err where
  | reserve (name id owner : Bytes)   -- MustReserve panicked: "failed to reserve name for id: owner"
  | crash                             -- fuel of the Add loop exhausted (never observed)
  deriving Repr, DecidableEq

/-- the loop of `Add`: `cnt` renames done so far; the candidate is `name` for cnt = 0, else `rename name cnt` -/
def addLoop (rename : Bytes → Nat → Bytes) (n2i : Table) (name id : Bytes) : Nat → Nat → Option Bytes
  | 0, _ => none
  | fuel + 1, cnt =>
    let res := if cnt = 0 then name else rename name cnt
    match lk res n2i with
    | none => some res
    | some cur => if cur = id then some res else addLoop rename n2i name id fuel (cnt + 1)

/-- `Add(name, id)` -/
def NS.add (rename : Bytes → Nat → Bytes) (ns : NS) (name id : Bytes) : Except Err (Bytes × NS) :=
  match addLoop rename ns.n2i name id (fuelOf ns.n2i) 0 with
  | none => .error .crash
  | some res => .ok (res, { n2i := put res id ns.n2i, i2n := put id res ns.i2n })

/-- `Reserve(name, id)` -/
def NS.reserve (ns : NS) (name id : Bytes) : Option NS :=
  match lk name ns.n2i with
  | some _ => none
  | none => some { n2i := put name id ns.n2i, i2n := put id name ns.i2n }

/-- `MustReserve(name, id)`: the panic is the error outcome -/
def NS.mustReserve (ns : NS) (name id : Bytes) : Except Err NS :=
  match ns.reserve name id with
  | some ns' => .ok ns'
  | none => .error (.reserve name id (ns.idOf name))

/-- one namespace operation, for statements about arbitrary histories -/
inductive Op where
  | add (name id : Bytes)
  | reserve (name id : Bytes)
  deriving Repr

def Op.id : Op → Bytes
  | .add _ i => i
  | .reserve _ i => i

/-- run a history; the trace holds (name given, id) per successful operation, a failed Reserve leaves the state
    alone and is not traced (that is `Reserve`; `MustReserve` stops instead) -/
def runOps (rename : Bytes → Nat → Bytes) : NS → List Op → Except Err (NS × List (Bytes × Bytes))
  | ns, [] => .ok (ns, [])
  | ns, .add n i :: r =>
    match ns.add rename n i with
    | .error e => .error e
    | .ok (res, ns1) =>
      match runOps rename ns1 r with
      | .error e => .error e
      | .ok (ns2, tr) => .ok (ns2, (res, i) :: tr)
  | ns, .reserve n i :: r =>
    match ns.reserve n i with
    | none => runOps rename ns r
    | some ns1 =>
      match runOps rename ns1 r with
      | .error e => .error e
      | .ok (ns2, tr) => .ok (ns2, (n, i) :: tr)

/-! ## the IDL file, as far as names are concerned -/

structure Fld where
  name : Bytes
  id : Int
  isset : Bool          -- golang.SupportIsSet(f): struct-like type or optional
  deriving Repr

structure Fn where
  name : Bytes
  oneway : Bool
  void : Bool
  args : List Fld
  throws : List Fld
  deriving Repr

structure Svc where
  name : Bytes
  fns : List Fn
  deriving Repr

inductive Cat where | struct | union | exception
  deriving Repr, DecidableEq

structure SL where
  name : Bytes
  cat : Cat
  fields : List Fld
  deriving Repr

structure Enm where
  name : Bytes
  values : List Bytes
  deriving Repr

structure Tdef where
  alias : Bytes
  structTarget : Bool   -- t.Type.Category.IsStructLike()
  deriving Repr

/-- `ast.Services, ast.GetStructLikes() (structs, unions, exceptions), ast.Enums, ast.Typedefs, ast.Constants` -/
structure File where
  services : List Svc := []
  structs : List SL := []
  enums : List Enm := []
  typedefs : List Tdef := []
  consts : List Bytes := []
  deriving Repr

/-- the features that influence names -/
structure Feat where
  compat : Bool := false        -- compatible_names
  kuf : Bool := false           -- keep_unknown_fields
  deq : Bool := false           -- gen_deep_equal
  setter : Bool := false        -- gen_setter
  noProcessor : Bool := false   -- no_processor           (minted only)
  enumAnn : Bool := false       -- get_enum_annotation    (minted only)
  fieldMask : Bool := false     -- with_field_mask        (minted only)
  halfway : Bool := false       -- field_mask_halfway     (minted only)
  fastgo : Bool := false        -- backend fastgo         (minted only)
  adaptor : Bool := false       -- apache_adaptor: Read/Write delegate to the adaptor, no ReadField<id>/writeField<id> (declared only)
  fnV2 : Bool := false          -- buildFunction reserves `nil` (the generated bodies compare with and return nil)
  svcV2 : Bool := false         -- buildService reserves `Client_` (the accessor of the client template) among the function names
  resV2 : Bool := false         -- buildStructLike reserves EVERY method the templates declare (InitDefault, CountSetFields<T>,
                                -- field-mask accessors, the methods of a backend on top: fastgo); regenerated from the source
  deriving Repr

/-- `Scope.identify`: `cu.Identify` (trim "$", naming style) + the compatible_names suffix -/
def scopeIdentify (ft : Feat) (ident : Bytes → Bytes) (raw : Bytes) : Bytes :=
  let name := ident (trimDollar raw)
  if !hasDollar raw && ft.compat && (isPrefix sNew name || isSuffix sArgs name || isSuffix sResult name)
  then name ++ [95] else name

/-! ## buildStructLike -/

/-- Go names of one field -/
structure FieldNames where
  raw : Bytes
  name : Bytes
  getter : Bytes
  setter : Bytes     -- "" when gen_setter is off
  isset : Bytes      -- "" when !SupportIsSet
  reader : Bytes
  writer : Bytes
  deepEq : Bytes     -- "" when gen_deep_equal is off
  deriving Repr

structure StructNames where
  raw : Bytes         -- v.Name
  cat : Cat
  goName : Bytes
  fields : List FieldNames
  scope : NS
  deriving Repr

/-- the methods fastgo declares for every struct-like (`GoBackend.ExtraStructMethods`) -/
def fastMethods : List Bytes := [sBLength, sFastWrite, sFastWriteNocopy, sFastAppend, sFastRead]

/-- built-in methods reserved in the struct scope (`funcs`); `goName` is the Go name of the struct-like (`sn`) -/
def reservedFuncs (ft : Feat) (cat : Cat) (rawName goName : Bytes) : List Bytes :=
  [sRead, sWrite, sString] ++
  (if ft.resV2 then [sInitDefault] ++ (if ft.fastgo then fastMethods else []) else []) ++
  (if hasDollar rawName then [] else
    (if cat = .union then [sCountSetFields] ++ (if ft.resV2 then [sCountSetFields ++ goName] else []) else []) ++
    (if cat = .exception then [sError] else []) ++
    (if ft.kuf then [sCarrying] else []) ++
    (if ft.deq then [sDeepEqual] else []) ++
    (if ft.resV2 && ft.fieldMask then [sGetFM, sSetFM] ++ (if ft.halfway then [sPassFM] else []) else []))

def reserveAll : NS → List Bytes → Except Err NS
  | ns, [] => .ok ns
  | ns, fn :: r => do
    let ns1 ← ns.mustReserve fn (dollar fn)
    reserveAll ns1 r

/-- the operations of the "reserve method names" loop for one field -/
def methodOps (ft : Feat) (ident : Bytes → Bytes) (f : Fld) : List Op :=
  let fn := scopeIdentify ft ident f.name
  let id := id2str f.id
  [Op.add (sGet ++ fn) (dollar (tGet ++ f.name))] ++
  (if ft.setter then [Op.add (sSet ++ fn) (dollar (tSet ++ f.name))] else []) ++
  (if f.isset then [Op.add (sIsSet ++ fn) (dollar (tIsset ++ f.name))] else []) ++
  [Op.add (sReadField ++ id) (dollar (tRead ++ id)), Op.add (sWriteField ++ id) (dollar (tWrite ++ id))] ++
  (if ft.deq then [Op.add (sField ++ id ++ sDeepEqual) (dollar (tDeepequal ++ id))] else [])

def addAll (rename : Bytes → Nat → Bytes) : NS → List Op → Except Err NS
  | ns, [] => .ok ns
  | ns, .add n i :: r => do
    let (_, ns1) ← ns.add rename n i
    addAll rename ns1 r
  | ns, .reserve n i :: r => do
    let ns1 ← ns.mustReserve n i
    addAll rename ns1 r

/-- the "field names" loop -/
def fieldLoop (ft : Feat) (ident : Bytes → Bytes) : NS → List Fld → Except Err (NS × List FieldNames)
  | ns, [] => .ok (ns, [])
  | ns, f :: r => do
    let fn := scopeIdentify ft ident f.name
    let (fn', ns1) ← ns.add underscore fn f.name
    let id := id2str f.id
    let one : FieldNames := {
      raw := f.name, name := fn',
      reader := ns1.get (dollar (tRead ++ id)), writer := ns1.get (dollar (tWrite ++ id)),
      getter := ns1.get (dollar (tGet ++ f.name)), setter := ns1.get (dollar (tSet ++ f.name)),
      isset := ns1.get (dollar (tIsset ++ f.name)), deepEq := ns1.get (dollar (tDeepequal ++ id)) }
    let (ns2, rest) ← fieldLoop ft ident ns1 r
    pure (ns2, one :: rest)

/-- the struct-local part of buildStructLike (its own namespace) -/
def buildMembers (ft : Feat) (ident : Bytes → Bytes) (rawName goName : Bytes) (cat : Cat) (fields : List Fld) :
    Except Err (NS × List FieldNames) := do
  let ns0 ← reserveAll NS.empty (reservedFuncs ft cat rawName goName)
  let ns1 ← addAll underscore ns0 (fields.flatMap (methodOps ft ident))
  fieldLoop ft ident ns1 fields

/-- `buildStructLike(cu, v, usedName...)`: `nn` is `usedName[0]` or `v.Name` -/
def buildStructLike (ft : Feat) (ident : Bytes → Bytes) (globals : NS) (v : SL) (nn : Bytes) :
    Except Err (NS × StructNames) := do
  let sn := scopeIdentify ft ident nn
  let (sn', g1) ← globals.add underscore sn v.name
  let g2 ← g1.mustReserve (sNew ++ sn') (dollar (tNew ++ nn))
  let g3 ← g2.mustReserve (sFieldIDToName ++ sn') (dollar (tIds ++ nn))
  let (scope, fs) ← buildMembers ft ident v.name sn' v.cat v.fields
  pure (g3, { raw := v.name, cat := v.cat, goName := sn', fields := fs, scope := scope })

/-! ## buildFunction / buildService -/

def keywordFix (keywords : List Bytes) (name : Bytes) : Bytes :=
  if keywords.contains name then 95 :: name else name

def paramOps (ft : Feat) (ident : Bytes → Bytes) (keywords : List Bytes) (fs : List Fld) : List Op :=
  fs.map fun a => Op.add (keywordFix keywords (lowerFirst (scopeIdentify ft ident a.name))) a.name

/-- names reserved in a function scope before the parameters -/
def fnReserved (ft : Feat) (void : Bool) : List Bytes :=
  [sP, sErr, sCtx] ++ (if ft.fnV2 then [sNil] else []) ++ (if void then [] else [sR, sUResult])

/-- `buildFunction`: the function's namespace -/
def buildFunction (ft : Feat) (ident : Bytes → Bytes) (keywords : List Bytes) (f : Fn) : Except Err NS := do
  let ns0 ← reserveAll NS.empty (fnReserved ft f.void)
  let ns1 ← addAll underscore ns0 (paramOps ft ident keywords f.args)
  addAll underscore ns1 (paramOps ft ident keywords f.throws)

structure FnNames where
  raw : Bytes
  goName : Bytes
  oneway : Bool
  void : Bool
  scope : NS
  params : List Bytes             -- `fun.scope.Get(f.Name)` for each argument, in order
  argType : StructNames
  resType : Option StructNames
  deriving Repr

structure SvcNames where
  raw : Bytes
  goName : Bytes
  fns : List FnNames
  deriving Repr

/-- `buildSynthesized`: the `_args` / `_result` struct-likes of a function -/
def synthArgs (f : Fn) : SL := { name := f.name ++ sUArgs, cat := .struct, fields := f.args }
def synthResult (f : Fn) : SL :=
  { name := f.name ++ sUResult, cat := .struct,
    fields := (if f.void then [] else [{ name := sSuccess, id := 0, isset := true }]) ++ f.throws }

/-- first loop of buildService: function names in the service's namespace -/
def fnNameLoop (ft : Feat) (ident : Bytes → Bytes) : NS → List Fn → Except Err (List Bytes)
  | _, [] => .ok []
  | ns, f :: r => do
    let (fn, ns1) ← ns.add underscore (scopeIdentify ft ident f.name) f.name
    let rest ← fnNameLoop ft ident ns1 r
    pure (fn :: rest)

/-- second loop of buildService: synthesized types and the function scopes -/
def fnTypeLoop (ft : Feat) (ident : Bytes → Bytes) (keywords : List Bytes) (svcRaw : Bytes) :
    NS → List (Fn × Bytes) → Except Err (NS × List FnNames)
  | g, [] => .ok (g, [])
  | g, (f, goName) :: r => do
    let an := svcRaw ++ scopeIdentify ft ident (dollar (f.name ++ sUArgs))
    let rn := svcRaw ++ scopeIdentify ft ident (dollar (f.name ++ sUResult))
    let (g1, aty) ← buildStructLike ft ident g (synthArgs f) (dollar an)
    let (g2, rt) ← if f.oneway then pure (g1, none) else do
      let (g2, rt) ← buildStructLike ft ident g1 (synthResult f) (dollar rn)
      pure (g2, some rt)
    let scope ← buildFunction ft ident keywords f
    let one : FnNames := { raw := f.name, goName := goName, oneway := f.oneway, void := f.void, scope := scope,
                           params := f.args.map (fun a => scope.get a.name), argType := aty, resType := rt }
    let (g3, rest) ← fnTypeLoop ft ident keywords svcRaw g2 r
    pure (g3, one :: rest)

/-- the service's namespace before the function names: empty, or (svcV2) with `Client_` reserved under `$client_`
    (`MustReserve` on an empty namespace cannot fail) -/
def svcScope0 (ft : Feat) : NS :=
  if ft.svcV2 then { n2i := [(sClientU, dollar sClientL)], i2n := [(dollar sClientL, sClientU)] } else NS.empty

example : NS.empty.mustReserve sClientU (dollar sClientL) = .ok (svcScope0 { svcV2 := true }) := rfl

def buildService (ft : Feat) (ident : Bytes → Bytes) (keywords : List Bytes) (g : NS) (v : Svc) :
    Except Err (NS × SvcNames) := do
  let sn := scopeIdentify ft ident v.name
  let (sn', g1) ← g.add underscore sn v.name
  let fnNames ← fnNameLoop ft ident (svcScope0 ft) v.fns
  let (g2, fns) ← fnTypeLoop ft ident keywords v.name g1 (v.fns.zip fnNames)
  let g3 ← g2.mustReserve (sn' ++ sClient) (dollar (tClient ++ v.name))
  let g4 ← g3.mustReserve (sn' ++ sProcessor) (dollar (tProcessor ++ v.name))
  pure (g4, { raw := v.name, goName := sn', fns := fns })

/-! ## buildEnum / buildTypedef / buildConstant / installNames -/

structure EnumNames where
  raw : Bytes
  goName : Bytes
  values : List Bytes
  deriving Repr

def enumValueLoop (en : Bytes) : NS → List Bytes → Except Err (List Bytes)
  | _, [] => .ok []
  | ns, v :: r => do
    let (vn, ns1) ← ns.add underscore (en ++ [95] ++ v) v
    let rest ← enumValueLoop en ns1 r
    pure (vn :: rest)

def buildEnum (ft : Feat) (ident : Bytes → Bytes) (g : NS) (e : Enm) : Except Err (NS × EnumNames) := do
  let (en, g1) ← g.add underscore (scopeIdentify ft ident e.name) e.name
  let vs ← enumValueLoop en NS.empty e.values
  pure (g1, { raw := e.name, goName := en, values := vs })

structure TdefNames where
  raw : Bytes
  goName : Bytes
  structTarget : Bool
  deriving Repr

def buildTypedef (ft : Feat) (ident : Bytes → Bytes) (g : NS) (t : Tdef) : Except Err (NS × TdefNames) := do
  let (tn, g1) ← g.add underscore (scopeIdentify ft ident t.alias) t.alias
  let g2 ← if t.structTarget then g1.mustReserve (sNew ++ tn) (dollar (tNew ++ t.alias)) else pure g1
  pure (g2, { raw := t.alias, goName := tn, structTarget := t.structTarget })

def buildConstant (ft : Feat) (ident : Bytes → Bytes) (g : NS) (c : Bytes) : Except Err (NS × Bytes) := do
  let (cn, g1) ← g.add underscore (scopeIdentify ft ident c) c
  pure (g1, cn)

def mapM' {α β : Type} (f : NS → α → Except Err (NS × β)) : NS → List α → Except Err (NS × List β)
  | g, [] => .ok (g, [])
  | g, a :: r => do
    let (g1, b) ← f g a
    let (g2, bs) ← mapM' f g1 r
    pure (g2, b :: bs)

structure ScopeNames where
  globals : NS
  services : List SvcNames
  structs : List StructNames
  enums : List EnumNames
  typedefs : List TdefNames
  consts : List Bytes
  deriving Repr

/-- `installNames` (the name part of `Scope.init`): services, struct-likes, enums, typedefs, constants -/
def buildScope (ft : Feat) (keywords : List Bytes) (f : File) (ident : Bytes → Bytes) : Except Err ScopeNames := do
  let (g1, svcs) ← mapM' (buildService ft ident keywords) NS.empty f.services
  let (g2, sts) ← mapM' (fun g v => buildStructLike ft ident g v v.name) g1 f.structs
  let (g3, ens) ← mapM' (buildEnum ft ident) g2 f.enums
  let (g4, tds) ← mapM' (buildTypedef ft ident) g3 f.typedefs
  let (g5, cs) ← mapM' (buildConstant ft ident) g4 f.consts
  pure { globals := g5, services := svcs, structs := sts, enums := ens, typedefs := tds, consts := cs }

/-! ## the identifiers the namespace manages, as operations (for the theorems) -/

/-- ids of the global operations of one struct-like built under the name `nn` -/
def slGlobalIds (v : SL) (nn : Bytes) : List Bytes := [v.name, dollar (tNew ++ nn), dollar (tIds ++ nn)]

def fnGlobalIds (ft : Feat) (ident : Bytes → Bytes) (svcRaw : Bytes) (f : Fn) : List Bytes :=
  let an := svcRaw ++ scopeIdentify ft ident (dollar (f.name ++ sUArgs))
  let rn := svcRaw ++ scopeIdentify ft ident (dollar (f.name ++ sUResult))
  slGlobalIds (synthArgs f) (dollar an) ++ (if f.oneway then [] else slGlobalIds (synthResult f) (dollar rn))

def svcGlobalIds (ft : Feat) (ident : Bytes → Bytes) (v : Svc) : List Bytes :=
  [v.name] ++ v.fns.flatMap (fnGlobalIds ft ident v.name) ++
  [dollar (tClient ++ v.name), dollar (tProcessor ++ v.name)]

/-- the ids under which `installNames` binds global names, in order -/
def globalIds (ft : Feat) (ident : Bytes → Bytes) (f : File) : List Bytes :=
  f.services.flatMap (svcGlobalIds ft ident) ++
  f.structs.flatMap (fun v => slGlobalIds v v.name) ++
  f.enums.map (·.name) ++
  f.typedefs.flatMap (fun t => [t.alias] ++ (if t.structTarget then [dollar (tNew ++ t.alias)] else [])) ++
  f.consts

/-- the names bound in the global namespace by `buildScope`, in order of binding -/
def slGlobals (s : StructNames) : List Bytes := [s.goName, sNew ++ s.goName, sFieldIDToName ++ s.goName]

def svcGlobals (s : SvcNames) : List Bytes :=
  [s.goName] ++ s.fns.flatMap (fun f => slGlobals f.argType ++ (match f.resType with | some r => slGlobals r | none => [])) ++
  [s.goName ++ sClient, s.goName ++ sProcessor]

def declaredGlobals (s : ScopeNames) : List Bytes :=
  s.services.flatMap svcGlobals ++ s.structs.flatMap slGlobals ++ s.enums.map (·.goName) ++
  s.typedefs.flatMap (fun t => [t.goName] ++ (if t.structTarget then [sNew ++ t.goName] else [])) ++ s.consts

/-- ids of the member operations of one struct-like, in order -/
def memberIds (ft : Feat) (ident : Bytes → Bytes) (rawName goName : Bytes) (cat : Cat) (fields : List Fld) : List Bytes :=
  (reservedFuncs ft cat rawName goName).map dollar ++ (fields.flatMap (methodOps ft ident)).map Op.id ++ fields.map (·.name)

/-- the member names the namespace of a struct hands out: reserved methods, accessors, field names -/
def fieldMethodNames (f : FieldNames) : List Bytes :=
  [f.getter] ++ (if f.setter = [] then [] else [f.setter]) ++ (if f.isset = [] then [] else [f.isset]) ++
  [f.reader, f.writer] ++ (if f.deepEq = [] then [] else [f.deepEq])

def managedMembers (ft : Feat) (s : StructNames) : List Bytes :=
  reservedFuncs ft s.cat s.raw s.goName ++ s.fields.flatMap fieldMethodNames ++ s.fields.map (·.name)

/-! ## identifiers the TEMPLATES declare (templates/*.go, fastgo) — outside every namespace -/

/-- methods and fields the StructLike template declares for one struct-like -/
def declaredMembers (ft : Feat) (synth : Bool) (s : StructNames) : List Bytes :=
  [sRead, sWrite, sString, sInitDefault] ++
  (if s.cat = .union then [sCountSetFields ++ s.goName] else []) ++
  (if s.cat = .exception then [sError] else []) ++
  (if ft.kuf then [sCarrying, sUnknownFields] else []) ++
  (if ft.deq then [sDeepEqual] else []) ++
  (if ft.fieldMask && !synth then [sGetFM, sSetFM, sFieldmask] ++ (if ft.halfway then [sPassFM] else []) else []) ++
  (if ft.fastgo then fastMethods else []) ++
  s.fields.flatMap (fun f => (fieldMethodNames f).filter (fun n => !(ft.adaptor && (n = f.reader || n = f.writer)))) ++
  s.fields.map (·.name)

/-- member names minted by the templates, i.e. not handed out by the struct's namespace -/
def mintedMembers (ft : Feat) (synth : Bool) (s : StructNames) : List Bytes :=
  (if ft.resV2 then [] else [sInitDefault]) ++
  (if s.cat = .union && !ft.resV2 then [sCountSetFields ++ s.goName] else []) ++
  (if ft.kuf then [sUnknownFields] else []) ++
  (if ft.fieldMask && !synth then
    (if ft.resV2 then [] else [sGetFM, sSetFM]) ++ [sFieldmask] ++ (if ft.halfway && !ft.resV2 then [sPassFM] else [])
   else []) ++
  (if ft.fastgo && !ft.resV2 then fastMethods else [])

/-- `<T>_<F>_DEFAULT` for every field with SupportIsSet (FieldGetOrSet) -/
def slMinted (s : StructNames) : List Bytes :=
  s.fields.filterMap fun f => if f.isset = [] then none else some (s.goName ++ [95] ++ f.name ++ [95] ++ sDEFAULT)

def enumMinted (ft : Feat) (e : EnumNames) : List Bytes :=
  e.values ++ [e.goName ++ sFromString, e.goName ++ sPtr] ++ (if ft.enumAnn then [sAnnotations ++ e.goName] else [])

def svcMinted (ft : Feat) (s : SvcNames) : List Bytes :=
  (if ft.noProcessor then [] else
    [sNew ++ s.goName ++ sClient ++ sFactory, sNew ++ s.goName ++ sClient ++ sProtocol, sNew ++ s.goName ++ sClient,
     sNew ++ s.goName ++ sProcessor] ++ s.fns.map (fun f => unexport (s.goName ++ sProcessor) ++ f.goName)) ++
  s.fns.flatMap (fun f => slMinted f.argType ++ (match f.resType with | some r => slMinted r | none => []))

/-- package-level identifiers minted by the templates for one file -/
def templateMinted (ft : Feat) (s : ScopeNames) : List Bytes :=
  s.enums.flatMap (enumMinted ft) ++ s.structs.flatMap slMinted ++ s.services.flatMap (svcMinted ft) ++
  (if ft.fastgo then [sUnusedProt] else [])

/-- namespace names that the templates do NOT declare under `no_processor` -/
def undeclared (ft : Feat) (s : ScopeNames) : List Bytes :=
  if ft.noProcessor then s.services.flatMap (fun v => [v.goName ++ sClient, v.goName ++ sProcessor]) else []

/-- all package-level identifiers one generated file declares -/
def fileGlobals (ft : Feat) (s : ScopeNames) : List Bytes :=
  (declaredGlobals s).filter (fun n => !(undeclared ft s).contains n) ++ templateMinted ft s

/-- the decidable side condition of `scope_globals_complete_partial` -/
def noMintClash (ft : Feat) (s : ScopeNames) : Bool :=
  (templateMinted ft s).all (fun n => !(declaredGlobals s).contains n) && decide (templateMinted ft s).Nodup

def noMemberMintClash (ft : Feat) (synth : Bool) (s : StructNames) : Bool :=
  (mintedMembers ft synth s).all (fun n => !(managedMembers ft s).contains n) && decide (mintedMembers ft synth s).Nodup

/-! ## imports.go -/

structure ImportMgr where
  ns : NS := {}
  notUsed : List Bytes := []      -- libNotUsed (keys)
  repl : Table := []              -- cu.importReplace (idHijack)
  deriving Repr

/-- `idHijack.get` -/
def ImportMgr.hijack (im : ImportMgr) (id : Bytes) : Bytes := (lk id im.repl).getD id

/-- `importManager.Add` through idHijack -/
def ImportMgr.add (im : ImportMgr) (name path : Bytes) : Except Err (Bytes × ImportMgr) := do
  let (res, ns1) ← im.ns.add numbered name (im.hijack path)
  pure (res, { im with ns := ns1 })

def initLoop : ImportMgr → Table → Except Err ImportMgr
  | im, [] => .ok im
  | im, (pkg, path) :: r => do
    let (_, im1) ← im.add pkg path
    initLoop { im1 with notUsed := im1.notUsed ++ [pkg] } r

/-- `importManager.init`: the `std` table (regenerated from imports.go) -/
def ImportMgr.init (std repl : Table) : Except Err ImportMgr := initLoop { repl := repl } std

/-- `UseStdLibrary(libs...)` -/
def ImportMgr.useStd (im : ImportMgr) (libs : List Bytes) : ImportMgr :=
  { im with notUsed := im.notUsed.filter (fun l => !libs.contains l) }

/-- `ResolveImports`: (path, alias) per entry of name2id that is not an unused library; "" = no alias needed -/
def ImportMgr.resolve (im : ImportMgr) : Table :=
  im.ns.n2i.filterMap fun (alias, path) =>
    if im.notUsed.contains alias then none
    else if alias = path || isSuffix (47 :: alias) path then some (path, []) else some (path, alias)

/-- `mentionsPackage` filter of renderByTemplate: an import survives iff the rendered code mentions its local name
    (`quals`: the package qualifiers that occur in the code). -/
def filterMentioned (quals : List Bytes) (imports : Table) : Table :=
  imports.filter fun (path, alias) =>
    let name := if alias = [] then ((path.reverse.takeWhile (· ≠ 47)).reverse) else alias
    quals.contains name

/-- `Scope.include` for the includes of a file: (package, path, same go namespace as the root) -/
def includeLoop : ImportMgr → List (Bytes × Bytes × Bool) → Except Err (ImportMgr × List Bytes)
  | im, [] => .ok (im, [])
  | im, (pkg, path, same) :: r => do
    let (pkg', im1) ← if same then pure (pkg, im) else im.add pkg path
    let (im2, rest) ← includeLoop im1 r
    pure (im2, pkg' :: rest)

end Names
