import ThriftVerif.Core.VL
/-
  Sem — abstract syntax of multi-file Thrift IDL programs, as the parser hands
  them to `semantic/` (parser.Thrift with `Include.Reference` filled in).

  Shared by C05 (symbol resolution) and C04 (checker / diagnostics).  Core Lean
  only.  Go strings are `Bytes = List Nat`.  The shape follows parser/AST.thrift:
  a file keeps one list per definition kind (the AST does not record how kinds
  were interleaved in the text); `GetStructLikes` is structs ++ unions ++
  exceptions.  An include names the included file by its *index in the program*
  (the parser's `Include.Reference` pointer); an index outside the program
  stands for `Reference == nil`.
-/
namespace Sem

/-- parser.Category, in the numeric order of parser/AST.thrift (0 … 17).
The order matters: ResolveType tests `Enum ≤ c ∧ c ≤ Typedef`.  The numbering is
re-checked against the working tree on every run (Generated/C05.lean). -/
inductive Cat
  | constant | bool | byte | i16 | i32 | i64 | double | string | binary
  | map | list | set | enum | struct | union | exception | typedef | service
  deriving DecidableEq, Repr, Inhabited

def Cat.toNat : Cat → Nat
  | .constant => 0 | .bool => 1 | .byte => 2 | .i16 => 3 | .i32 => 4 | .i64 => 5
  | .double => 6 | .string => 7 | .binary => 8 | .map => 9 | .list => 10 | .set => 11
  | .enum => 12 | .struct => 13 | .union => 14 | .exception => 15 | .typedef => 16
  | .service => 17

def Cat.all : List Cat :=
  [.constant, .bool, .byte, .i16, .i32, .i64, .double, .string, .binary,
   .map, .list, .set, .enum, .struct, .union, .exception, .typedef, .service]

def Cat.ofNat? (n : Nat) : Option Cat := Cat.all[n]?

/-- A type expression as written (parser.Type before resolution).  `name n` is a
base type keyword or an identifier, possibly dotted; containers carry their
element types (`Type.KeyType`, `Type.ValueType`). -/
inductive TypeExpr
  | name (n : Bytes)
  | list (v : TypeExpr)
  | set (v : TypeExpr)
  | map (k v : TypeExpr)
  deriving DecidableEq, Repr, Inhabited

def kwMap : Bytes := [109, 97, 112]
def kwList : Bytes := [108, 105, 115, 116]
def kwSet : Bytes := [115, 101, 116]

/-- `Type.Name` of the root node. -/
def TypeExpr.rootName : TypeExpr → Bytes
  | .name n => n
  | .list _ => kwList
  | .set _ => kwSet
  | .map _ _ => kwMap

/-- All nodes of a type expression in pre-order (node, key subtree, value subtree):
the order in which ResolveType visits them and in which the harness dumps them. -/
def TypeExpr.nodes : TypeExpr → List TypeExpr
  | .name n => [.name n]
  | .list v => .list v :: v.nodes
  | .set v => .set v :: v.nodes
  | .map k v => .map k v :: (k.nodes ++ v.nodes)

/-- A constant value as written (parser.ConstValue before resolution). -/
inductive ConstVal
  | int (v : Int)
  | dbl (text : Bytes)
  | str (s : Bytes)
  | ident (id : Bytes)
  | list (xs : List ConstVal)
  | map (kvs : List (ConstVal × ConstVal))
  deriving Repr, Inhabited

mutual
/-- The identifiers of a constant value in the order ResolveConstValue visits
them (list elements in order; map key before value). -/
def ConstVal.idents : ConstVal → List Bytes
  | .int _ => []
  | .dbl _ => []
  | .str _ => []
  | .ident id => [id]
  | .list xs => ConstVal.identsL xs
  | .map kvs => ConstVal.identsM kvs
def ConstVal.identsL : List ConstVal → List Bytes
  | [] => []
  | x :: r => x.idents ++ ConstVal.identsL r
def ConstVal.identsM : List (ConstVal × ConstVal) → List Bytes
  | [] => []
  | (k, v) :: r => k.idents ++ v.idents ++ ConstVal.identsM r
end

structure Field where
  id : Int
  name : Bytes
  type : TypeExpr
  dflt : Option ConstVal
  deriving Repr, Inhabited

structure Typedef where
  alias : Bytes
  type : TypeExpr
  deriving Repr, Inhabited

structure Constant where
  name : Bytes
  type : TypeExpr
  value : ConstVal
  deriving Repr, Inhabited

structure EnumValue where
  name : Bytes
  value : Int
  deriving Repr, Inhabited, DecidableEq

structure Enum where
  name : Bytes
  values : List EnumValue
  deriving Repr, Inhabited

/-- `StructLike.Category` is one of the strings "struct", "union", "exception". -/
inductive SLKind
  | struct | union | exception
  deriving DecidableEq, Repr, Inhabited

def SLKind.cat : SLKind → Cat
  | .struct => .struct
  | .union => .union
  | .exception => .exception

structure StructLike where
  kind : SLKind
  name : Bytes
  fields : List Field
  deriving Repr, Inhabited

structure Function where
  name : Bytes
  oneway : Bool
  /-- `none` = void (`Function.Void`); the FunctionType of a void function is not resolved. -/
  ret : Option TypeExpr
  args : List Field
  throws : List Field
  deriving Repr, Inhabited

structure Service where
  name : Bytes
  /-- `Service.Extends`, empty when there is no base service. -/
  «extends» : Bytes
  functions : List Function
  deriving Repr, Inhabited

structure Include where
  /-- the path as written in the `include` header -/
  path : Bytes
  /-- index of the included file in the program (`Include.Reference`) -/
  target : Nat
  deriving Repr, Inhabited, DecidableEq

structure File where
  filename : Bytes
  includes : List Include
  typedefs : List Typedef
  constants : List Constant
  enums : List Enum
  structs : List StructLike
  unions : List StructLike
  exceptions : List StructLike
  services : List Service
  deriving Repr, Inhabited

/-- `Thrift.GetStructLikes`. -/
def File.structLikes (f : File) : List StructLike :=
  f.structs ++ f.unions ++ f.exceptions

/-- A program: the files the parser produced, addressed by index. -/
abbrev Program := List File

end Sem
