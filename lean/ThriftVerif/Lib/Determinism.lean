import ThriftVerif.Core.VL
/-
  C07 — model of the consumers of Go map iteration on thriftgo's generation path.

  Go leaves the order of `for k, v := range m` (and of reflect's MapRange) unspecified and
  randomises it per loop.  Every consumer below therefore takes the entries *in the order the
  runtime picked*: a list that is some permutation of the map's entries (keys pairwise distinct).
  Determinism of a consumer is invariance of its result under `List.Perm` of that list
  (theorems in Lib/DeterminismLemmas.lean and Props/C07.lean).

  One definition per class of consumer found in the regenerated site inventory
  (Generated/C07Sites.lean):

  * `intoMap`      – the loop stores into another map            (fastgo bitset inverse, ResolveImports, loadConfig)
  * `NS.add`       – the loop calls (*namespace).Add             (importManager.init)
  * `sortedBy`     – the loop collects, then sorts by a key      (ServiceThrows; go/format over an import block)
  * `keepOnly`     – the loop deletes the entries failing a test (renderByTemplate: imports the file never mentions)
  * `anyFails`     – the loop returns the first error            (CheckOptionGrammar and what it calls)
  * `sumOver`      – the loop adds up sizes                      ((*Thrift).BLength)
  * `replace`      – the loop builds strings.NewReplacer's args  (insertionPointReplacer.Replace)
  * `emit`         – the loop writes each entry to the output    (no site any more: meta.write, (*Thrift).FastAppend and
                     fastgo Imports did so until they were repaired; they now collect, sort, then write — `sortedBy`)

  Go strings are `Bytes`.
-/
namespace Determinism

/-! ## Go maps as association lists -/

/-- `m[k] = v` -/
def aInsert {κ ν} [DecidableEq κ] (k : κ) (v : ν) : List (κ × ν) → List (κ × ν)
  | [] => [(k, v)]
  | (k', v') :: r => if k' = k then (k, v) :: r else (k', v') :: aInsert k v r

/-- `v, ok := m[k]` -/
def aLookup {κ ν} [DecidableEq κ] (k : κ) : List (κ × ν) → Option ν
  | [] => none
  | (k', v') :: r => if k' = k then some v' else aLookup k r

/-- `for k, v := range src { dst[k] = v }` with `es` the entries in iteration order. -/
def intoMap {κ ν} [DecidableEq κ] (dst : List (κ × ν)) (es : List (κ × ν)) : List (κ × ν) :=
  es.foldl (fun m e => aInsert e.1 e.2 m) dst

/-! ## pkg/namespace: (*namespace).Add, as used by importManager.init -/

structure NS where
  name2id : List (Bytes × Bytes)
  id2name : List (Bytes × Bytes)
  deriving DecidableEq, Repr

def NS.empty : NS := ⟨[], []⟩

def decimal (n : Nat) : Bytes := (Nat.repr n).toList.map Char.toNat

/-- rename function of importManager.init: `fmt.Sprintf("%s%d", name, cnt-1)` -/
def renameNum (name : Bytes) (cnt : Nat) : Bytes := name ++ decimal (cnt - 1)

/-- namespace.UnderscoreSuffix: `name + strings.Repeat("_", cnt)` -/
def renameUnderscore (name : Bytes) (cnt : Nat) : Bytes := name ++ List.replicate cnt 95

/-- the loop of Add:
`cur, exist := name2id[res]; for exist && cur != id { cnt++; res = rename(name, cnt); cur, exist = name2id[res] }`.
Fuel is the number of probes; `none` = fuel exhausted (does not happen with fuel > |name2id| and an
injective rename; the driver prints it as `crash`). -/
def addLoop (rename : Bytes → Nat → Bytes) (n2i : List (Bytes × Bytes)) (name id : Bytes) :
    Nat → Nat → Bytes → Option Bytes
  | 0, _, _ => none
  | fuel + 1, cnt, res =>
    match aLookup res n2i with
    | some cur => if cur = id then some res else addLoop rename n2i name id fuel (cnt + 1) (rename name (cnt + 1))
    | none => some res

/-- `(*namespace).Add(name, id)`; returns the new namespace and the name handed out. -/
def NS.add (rename : Bytes → Nat → Bytes) (ns : NS) (name id : Bytes) : Option (NS × Bytes) :=
  match addLoop rename ns.name2id name id (ns.name2id.length + 1) 0 name with
  | some res => some (⟨aInsert res id ns.name2id, aInsert id res ns.id2name⟩, res)
  | none => none

/-- `for pkg, path := range std { ns.Add(pkg, path) }` -/
def NS.addAll (rename : Bytes → Nat → Bytes) : NS → List (Bytes × Bytes) → Option NS
  | ns, [] => some ns
  | ns, (name, id) :: r =>
    match ns.add rename name id with
    | some (ns', _) => NS.addAll rename ns' r
    | none => none

/-! ## collect, then sort -/

def insertBy {α} (le : α → α → Bool) (x : α) : List α → List α
  | [] => [x]
  | y :: r => if le x y then x :: y :: r else y :: insertBy le x r

/-- result of `sort.Slice(xs, less)` when `less` is a strict total order on the elements present
(then the sorted arrangement is unique, whatever algorithm computes it). -/
def sortedBy {α} (le : α → α → Bool) (xs : List α) : List α := xs.foldr (insertBy le) []

/-- lexicographic `<=` on byte strings (Go's `<` / `<=` on strings) -/
def bytesLe : Bytes → Bytes → Bool
  | [], _ => true
  | _ :: _, [] => false
  | a :: r, b :: s => if a < b then true else if b < a then false else bytesLe r s

/-! ## delete while ranging -/

/-- `for k, v := range m { if !keep(k, v) { delete(m, k) } }` with a `keep` that looks at the entry
alone: the entries that survive (Go allows deleting during the range; every entry present at the
start is visited at most once and decided on its own). -/
def keepOnly {α} (keep : α → Bool) (es : List α) : List α := es.filter keep

/-! ## the order in which the IDLs of a `-r` run are rendered

`FileManager.Feed` gives an output name to the first file that claims it and renames later ones
(`x.go`, `x_1.go`, `x_2.go`, …): a consumer that is NOT invariant under permutation. The loop that feeds
it must therefore run over a sequence (it ranges over the DepthFirstSearch channel), never over a map. -/

/-- names given to files of different contents that all ask for `name`: the i-th gets suffix i (0 = none) -/
def feedRename (name : Bytes) (contents : List Bytes) : List (Bytes × Bytes) :=
  (List.range contents.length).zip contents |>.map fun (i, c) =>
    (if i = 0 then name else name ++ [95] ++ decimal i, c)

/-! ## first error wins -/

/-- `for k := range m { if err := check(k); err != nil { return err } }`: does it return an error? -/
def anyFails {α} (bad : α → Bool) (es : List α) : Bool := es.any bad

/-! ## adding up -/

/-- `for k := range m { off += f(k) }` -/
def sumOver {α} (f : α → Nat) (es : List α) : Nat := es.foldl (fun off e => off + f e) 0

/-! ## strings.NewReplacer(oldnew...).Replace, generic algorithm, non-empty old strings -/

/-- the pair used at a position: the first pair *in argument order* whose old string is a prefix of
the rest of the input (the generic replacer gives earlier pairs the higher priority). -/
def findMatch (pairs : List (Bytes × Bytes)) (s : Bytes) : Option (Bytes × Bytes) :=
  pairs.find? (fun p => p.1.isPrefixOf s)

/-- `skip` = bytes of a matched old string still to be dropped. -/
def replaceAux (pairs : List (Bytes × Bytes)) : Nat → Bytes → Bytes
  | _, [] => []
  | skip + 1, _ :: r => replaceAux pairs skip r
  | 0, c :: r =>
    match findMatch pairs (c :: r) with
    | some (old, new) => new ++ replaceAux pairs (old.length - 1) r
    | none => c :: replaceAux pairs 0 r

def replace (pairs : List (Bytes × Bytes)) (s : Bytes) : Bytes := replaceAux pairs 0 s

/-! ### insertion points (generator/file_manager.go) -/

/-- "@@thriftgo_insertion_point(" -/
def ipPrefix : Bytes :=
  [64, 64, 116, 104, 114, 105, 102, 116, 103, 111, 95, 105, 110, 115, 101, 114, 116, 105, 111, 110, 95,
   112, 111, 105, 110, 116, 40]

def closeParen : Nat := 41

/-- `[$.0-9a-zA-Z_]` -/
def isKeyChar (c : Nat) : Bool :=
  c = 36 || c = 46 || (48 ≤ c && c ≤ 57) || (97 ≤ c && c ≤ 122) || (65 ≤ c && c ≤ 90) || c = 95

/-- plugin.InsertionPoint(name) -/
def insertionPoint (name : Bytes) : Bytes := ipPrefix ++ name ++ [closeParen]

/-- a string of the shape matched by `insertReg` -/
def IsInsertionKey (k : Bytes) : Prop := ∃ name : Bytes, (∀ c ∈ name, isKeyChar c = true) ∧ k = insertionPoint name

/-- one attempt of `insertReg` at the start of `s`: prefix, the maximal run of key characters
(`)` is not a key character, so no shorter run can be followed by `)`), then `)`. -/
def matchKeyAt (s : Bytes) : Option Bytes :=
  if ipPrefix.isPrefixOf s then
    let rest := s.drop ipPrefix.length
    let name := rest.takeWhile isKeyChar
    match rest.drop name.length with
    | c :: _ => if c = closeParen then some (insertionPoint name) else none
    | [] => none
  else none

/-- `insertReg.FindAllString(content, -1)`: leftmost, non-overlapping. -/
def scanKeysAux : Nat → Bytes → List Bytes
  | _, [] => []
  | skip + 1, _ :: r => scanKeysAux skip r
  | 0, c :: r =>
    match matchKeyAt (c :: r) with
    | some k => k :: scanKeysAux (k.length - 1) r
    | none => scanKeysAux 0 r

def scanKeys (content : Bytes) : List Bytes := scanKeysAux 0 content

/-- `(*insertionPointReplacer).Add(x, content)`: an absent or empty value is replaced, otherwise appended to -/
def ipAdd (m : List (Bytes × Bytes)) (x content : Bytes) : List (Bytes × Bytes) :=
  match aLookup x m with
  | some v => if v = [] then aInsert x content m else aInsert x (v ++ content) m
  | none => aInsert x content m

/-- newInsertionPointReplacer(content) followed by Add for each patch (point name, text), in Feed order -/
def ipTable (content : Bytes) (patches : List (Bytes × Bytes)) : List (Bytes × Bytes) :=
  patches.foldl (fun m p => ipAdd m (insertionPoint p.1) p.2)
    ((scanKeys content).foldl (fun m k => aInsert k [] m) [])

/-- what BuildResponse puts into the file, given the order `order` in which `range p.m` ran -/
def ipReplace (order : List (Bytes × Bytes)) (content : Bytes) : Bytes := replace order content

/-! ## writing entries in iteration order -/

/-- `for k, v := range m { out = append(out, enc(k, v)...) }` -/
def emit {α} (enc : α → Bytes) (es : List α) : Bytes := es.flatMap enc

/-- big-endian i32 as the binary protocol writes it (value taken mod 2^32) -/
def be32 (n : Nat) : Bytes := [n / 16777216 % 256, n / 65536 % 256, n / 256 % 256, n % 256]

def encStr (s : Bytes) : Bytes := be32 s.length ++ s

/-- one entry of a `map<string,string>` in Thrift binary protocol -/
def encEntry (e : Bytes × Bytes) : Bytes := encStr e.1 ++ encStr e.2

/-- field header + map header of a `map<string,string>` field with id `fid`, then the entries in
the order given: `WriteFieldBegin(MAP, fid); WriteMapBegin(STRING, STRING, n); for … MapRange …` -/
def encMapField (fid : Nat) (es : List (Bytes × Bytes)) : Bytes :=
  [13, fid / 256 % 256, fid % 256, 11, 11] ++ be32 es.length ++ emit encEntry es

def encEmptyStructList (fid : Nat) : Bytes := [15, fid / 256 % 256, fid % 256, 12, 0, 0, 0, 0]

/-- `meta.Marshal(fd)` for a `thrift_reflection.FileDescriptor` whose services, structs, exceptions,
enums, typedefs, unions and consts are empty and whose `Extra` is nil:
field 1 filepath, field 2 includes, field 3 namespaces, fields 4..10 empty lists of structs, stop. -/
def encFileDescriptor (filepath : Bytes) (includes namespaces : List (Bytes × Bytes)) : Bytes :=
  [11, 0, 1] ++ encStr filepath ++ encMapField 2 includes ++ encMapField 3 namespaces ++
  encEmptyStructList 4 ++ encEmptyStructList 5 ++ encEmptyStructList 6 ++ encEmptyStructList 7 ++
  encEmptyStructList 8 ++ encEmptyStructList 9 ++ encEmptyStructList 10 ++ [0]

/-- lexicographic order on (encoded key, encoded value): `bytes.Compare` of the key encodings,
and of the value encodings when those are equal -/
def lexLe (a b : Bytes × Bytes) : Bool := if a.1 = b.1 then bytesLe a.2 b.2 else bytesLe a.1 b.1

/-- order in which meta.write writes the entries of a map: by the encoded key bytes, then by the
encoded value bytes. The tie-break matters: the const-value maps of the reflection descriptor are
keyed by *pointers*, so two entries can have keys of equal content. -/
def byEncodedKey (a b : Bytes × Bytes) : Bool := lexLe (encStr a.1, encStr a.2) (encStr b.1, encStr b.2)

/-- the order WITHOUT the tie-break (a regression seen in review: "keys of a map are distinct") -/
def byEncodedKeyOnly (a b : Bytes × Bytes) : Bool := bytesLe (encStr a.1) (encStr b.1)

/-- `write` for a map field as the code does it: collect the entries in iteration order, sort
them by their encoding, then write -/
def encMapFieldSorted (fid : Nat) (es : List (Bytes × Bytes)) : Bytes :=
  encMapField fid (sortedBy byEncodedKey es)

/-- `meta.Marshal(fd)` (same FileDescriptor shape as `encFileDescriptor`) with `es` in iteration order -/
def encFileDescriptorSorted (filepath : Bytes) (includes namespaces : List (Bytes × Bytes)) : Bytes :=
  encFileDescriptor filepath (sortedBy byEncodedKey includes) (sortedBy byEncodedKey namespaces)

/-! ### ConstValueDescriptor maps (`map<ConstValueDescriptor, ConstValueDescriptor>`, keyed by pointer) -/

/-- `meta.Marshal` of a `ConstValueDescriptor{Type: STRING, ValueString: s}`: type (i32 2), value_double,
value_int, value_string, value_bool, value_identifier — every required field is written, the optional
list / map / extra are nil and skipped. -/
def encCVStr (s : Bytes) : Bytes :=
  [8, 0, 1, 0, 0, 0, 2] ++ [4, 0, 2, 0, 0, 0, 0, 0, 0, 0, 0] ++ [10, 0, 3, 0, 0, 0, 0, 0, 0, 0, 0] ++
  ([11, 0, 4] ++ encStr s) ++ [2, 0, 5, 0] ++ [11, 0, 8, 0, 0, 0, 0] ++ [0]

def encCVEntry (e : Bytes × Bytes) : Bytes := encCVStr e.1 ++ encCVStr e.2

def byEncodedCV (a b : Bytes × Bytes) : Bool := lexLe (encCVStr a.1, encCVStr a.2) (encCVStr b.1, encCVStr b.2)

/-- `meta.Marshal` of a `ConstValueDescriptor{Type: MAP, ValueMap: m}` whose keys and values are string
constants; `es` = the entries in iteration order (keys may have equal content). -/
def encCVMap (es : List (Bytes × Bytes)) : Bytes :=
  [8, 0, 1, 0, 0, 0, 5] ++ [4, 0, 2, 0, 0, 0, 0, 0, 0, 0, 0] ++ [10, 0, 3, 0, 0, 0, 0, 0, 0, 0, 0] ++
  [11, 0, 4, 0, 0, 0, 0] ++ [2, 0, 5, 0] ++
  ([13, 0, 7, 12, 12] ++ be32 es.length ++ emit encCVEntry (sortedBy byEncodedCV es)) ++
  [11, 0, 8, 0, 0, 0, 0] ++ [0]

/-- one line of fastgo's `import ( … )` block: `fmt.Fprintf(s, "%s %q\n", alias, path)`
(paths here contain no byte that %q escapes) -/
def importLine (e : Bytes × Bytes) : Bytes := e.2 ++ [32, 34] ++ e.1 ++ [34, 10]

/-- "github.com/cloudwego/" (fastgo's cloudwegoRepoPrefix) -/
def cloudwegoPrefix : Bytes :=
  [103, 105, 116, 104, 117, 98, 46, 99, 111, 109, 47, 99, 108, 111, 117, 100, 119, 101, 103, 111, 47]

def isCloudwego (e : Bytes × Bytes) : Bool := cloudwegoPrefix.isPrefixOf e.1

def byPath (a b : Bytes × Bytes) : Bool := bytesLe a.1 b.1

/-- fastgo's import block: `(*codewriter).Imports` puts the non-cloudwego paths in a first group
and the cloudwego ones in a second, separated by an empty line, each collected in iteration order
and then sorted by import path (`sort.Strings`; go/format would sort each group the same way). -/
def importsFormatted (es : List (Bytes × Bytes)) : Bytes :=
  emit importLine (sortedBy byPath (es.filter fun e => !isCloudwego e)) ++ [10] ++
  emit importLine (sortedBy byPath (es.filter isCloudwego))

/-- the same block without the two `sort.Strings` and without go/format (the code before the repair, under `no_fmt`) -/
def importsUnformatted (es : List (Bytes × Bytes)) : Bytes :=
  emit importLine (es.filter fun e => !isCloudwego e) ++ [10] ++ emit importLine (es.filter isCloudwego)

/-- one entry of `Name2Category` (map<string, i32>) as (*Thrift).FastAppend writes it -/
def encNameCategory (e : Bytes × Nat) : Bytes := encStr e.1 ++ be32 e.2

/-- the entries of `Name2Category` as (*Thrift).FastAppend writes them: keys collected in iteration
order, `sort.Strings(keys)`, then written -/
def encName2Category (es : List (Bytes × Nat)) : Bytes :=
  emit encNameCategory (sortedBy (fun a b => bytesLe a.1 b.1) es)

end Determinism
