import ThriftVerif.Lib.Options
import ThriftVerif.Lib.OptionsLemmas
/- helper lemmas for the command-line path of C20 (ParseCompactArguments → checkOptions → Pack → HandleOptions) -/
namespace Options

/-- strings.Join(as, ",") -/
def joinComma : List Bytes → Bytes
  | [] => []
  | [a] => a
  | a :: b :: r => a ++ 44 :: joinComma (b :: r)

theorem splitComma_noComma (a : Bytes) (h : (44 : Nat) ∉ a) : splitComma a = [a] := by
  induction a with
  | nil => rfl
  | cons x r ih =>
    have hx : x ≠ 44 := fun e => h (by simp [e])
    have hr : (44 : Nat) ∉ r := fun e => h (by simp [e])
    simp [splitComma, hx, ih hr]

theorem splitComma_append (a : Bytes) (h : (44 : Nat) ∉ a) (rest : Bytes) :
    splitComma (a ++ 44 :: rest) = a :: splitComma rest := by
  induction a with
  | nil => simp [splitComma]
  | cons x r ih =>
    have hx : x ≠ 44 := fun e => h (by simp [e])
    have hr : (44 : Nat) ∉ r := fun e => h (by simp [e])
    simp [splitComma, hx, ih hr]

theorem splitComma_joinComma : ∀ (as : List Bytes), as ≠ [] → (∀ a ∈ as, (44 : Nat) ∉ a) →
    splitComma (joinComma as) = as
  | [], h, _ => absurd rfl h
  | [a], _, h => by simpa [joinComma] using splitComma_noComma a (h a (by simp))
  | a :: b :: r, _, h => by
    have ha := h a (by simp)
    have ih := splitComma_joinComma (b :: r) (by simp) (fun x hx => h x (by simp [hx]))
    simp [joinComma, splitComma_append a ha, ih]

/-- what Pack makes of one parsed option: `name=value`, `name=` for a bare name -/
def repack (a : Bytes) : Bytes := (splitEq a).1 ++ 61 :: (splitEq a).2.getD []

theorem splitEq_fst_noEq : ∀ a : Bytes, (61 : Nat) ∉ (splitEq a).1
  | [] => by simp [splitEq]
  | x :: r => by
    by_cases hx : x = 61
    · simp [splitEq, hx]
    · have ih := splitEq_fst_noEq r
      simp only [splitEq, hx, if_false]
      intro hm
      rcases List.mem_cons.mp hm with e | e
      · exact hx e.symm
      · exact ih e

theorem splitEq_repack (a : Bytes) :
    splitEq (repack a) = ((splitEq a).1, some ((splitEq a).2.getD [])) := by
  have := splitEq_joinEq (splitEq a).1 (some ((splitEq a).2.getD [])) (splitEq_fst_noEq a)
  simpa [joinEq, repack] using this

theorem resolve_repack (env : Env) (a : Bytes) : resolve env (repack a) = resolve env a := by
  simp [resolve, splitEq_repack]

theorem step_repack (env : Env) (c : Cfg) (a : Bytes) : step env c (repack a) = step env c a := by
  simp [step, resolve_repack]

theorem run_repack (env : Env) : ∀ (as : List Bytes) (c : Cfg), run env c (as.map repack) = run env c as
  | [], _ => rfl
  | a :: r, c => by
    simp only [List.map, run, step_repack]
    cases step env c a with
    | none => rfl
    | some c' => exact run_repack env r c'

theorem runP_repack (env : Env) : ∀ (as : List Bytes) (c : Cfg), runP env c (as.map repack) = runP env c as
  | [], _ => rfl
  | a :: r, c => by
    simp only [List.map, runP, step_repack]
    cases step env c a with
    | none => rfl
    | some c' => exact runP_repack env r c'

theorem pack_parseOpts (s : Bytes) : pack (parseOpts s) = (splitComma s).map repack := by
  simp [pack, parseOpts, repack, List.map_map, Function.comp_def]

theorem probe_repack (env : Env) (as : List Bytes) : probe env (as.map repack) = probe env as := by
  simp [probe, runP_repack]

theorem handleFrom_repack (env : Env) (c : Cfg) (as : List Bytes) :
    handleFrom env c (as.map repack) = handleFrom env c as := by
  simp [handleFrom, run_repack]

theorem run_append (env : Env) : ∀ (as bs : List Bytes) (c : Cfg),
    run env c (as ++ bs) = (run env c as).bind (fun c' => run env c' bs)
  | [], _, _ => rfl
  | a :: r, bs, c => by
    simp only [List.cons_append, run]
    cases step env c a with
    | none => rfl
    | some c' => exact run_append env r bs c'

/-- `handle_feat` for a CodeUtils that starts with the default features (whatever its style flags) -/
theorem handleFrom_feat (env : Env) (c0 : Cfg) (hc0 : c0.features = env.defaults) (args : List Bytes) (c : Cfg)
    (h : handleFrom env c0 args = some c) (i : Nat) (hi : i < env.defaults.length) :
    feat c i =
      if c.template = env.slimName ∧ i = env.iDeepEqual then false
      else (lastSetting env i args).getD (env.defaults.getD i false) := by
  unfold handleFrom at h
  cases hr : run env c0 args with
  | none => simp [hr] at h
  | some c1 =>
    simp only [hr] at h
    split at h
    · simp at h
    · simp only [Option.some.injEq] at h
      obtain ⟨hl, hf⟩ := run_feat env args c0 c1 hr i (by rw [hc0]; exact hi)
      have hfi : feat c0 i = env.defaults.getD i false := by simp [feat, hc0]
      rw [hfi] at hf
      subst h
      unfold slimRule
      by_cases ht : c1.template = env.slimName
      · simp only [ht, if_true, true_and]
        simp only [feat] at hf ⊢
        rw [getD_setAt c1.features env.iDeepEqual i false (by rw [hl, hc0]; exact hi)]
        by_cases hd : env.iDeepEqual = i
        · simp [hd]
        · have : ¬ i = env.iDeepEqual := fun e => hd e.symm
          simp only [hd, this, if_false]; exact hf
      · simp [ht, hf]

/-- the names of the options as HandleOptions sees them -/
def optName (a : Bytes) : Bytes := (splitEq a).1

theorem parseOpts_names (s : Bytes) (t : Bytes) :
    (parseOpts s).any (fun p => p.1 == t) = (splitComma s).any (fun a => optName a == t) := by
  simp [parseOpts, List.any_map, Function.comp_def, optName]

end Options

namespace Options

/-- everything HandleOptions leaves in the CodeUtils except the process-wide naming-style flags -/
def Cfg.core (c : Cfg) : List Bool × Bytes × Bool × Bytes × Bytes × List (Bytes × Bytes) :=
  (c.features, c.style, c.doInit, c.pkgPrefix, c.template, c.repl)

theorem act_core (env : Env) (c d : Cfg) (h : c.core = d.core) (k : Kind) (v : Bytes) :
    (act env c k v).map Cfg.core = (act env d k v).map Cfg.core := by
  simp only [Cfg.core, Prod.mk.injEq] at h
  obtain ⟨h1, h2, h3, h4, h5, h6⟩ := h
  cases k <;> simp only [act]
  · simp [Cfg.core, h1, h2, h3, h4, h5, h6]
  · split <;> simp [Cfg.core, h1, h2, h3, h4, h5, h6]
  · split <;> simp [Cfg.core, h1, h2, h3, h4, h5, h6]
  · split <;> simp [Cfg.core, h1, h2, h3, h4, h5, h6]
  · simp [Cfg.core, h1, h2, h3, h4, h5, h6]
  · split <;> simp [Cfg.core, h1, h2, h3, h4, h5, h6]
  · split <;> simp [Cfg.core, h1, h2, h3, h4, h5, h6]

theorem step_core (env : Env) (c d : Cfg) (h : c.core = d.core) (a : Bytes) :
    (step env c a).map Cfg.core = (step env d a).map Cfg.core := by
  unfold step
  cases resolve env a with
  | none => simp [h]
  | some kv => exact act_core env c d h kv.1 kv.2

theorem run_core (env : Env) : ∀ (as : List Bytes) (c d : Cfg), c.core = d.core →
    (run env c as).map Cfg.core = (run env d as).map Cfg.core
  | [], c, d, h => by simp [run, h]
  | a :: r, c, d, h => by
    have hs := step_core env c d h a
    simp only [run]
    cases hc : step env c a with
    | none =>
      cases hd : step env d a with
      | none => rfl
      | some d' => simp [hc, hd] at hs
    | some c' =>
      cases hd : step env d a with
      | none => simp [hc, hd] at hs
      | some d' =>
        simp only [hc, hd, Option.map_some, Option.some.injEq] at hs
        exact run_core env r c' d' hs

theorem slimRule_core (env : Env) (c d : Cfg) (h : c.core = d.core) :
    (slimRule env c).core = (slimRule env d).core := by
  simp only [Cfg.core, Prod.mk.injEq] at h
  obtain ⟨h1, h2, h3, h4, h5, h6⟩ := h
  unfold slimRule
  rw [h5]
  split <;> simp [Cfg.core, h1, h2, h3, h4, h5, h6]

theorem invalid_core (env : Env) (c d : Cfg) (h : c.core = d.core) : invalid env c = invalid env d := by
  simp only [Cfg.core, Prod.mk.injEq] at h
  simp [invalid, feat, h.1]

/-- HandleOptions' visible outcome does not depend on the naming-style flags the process starts with -/
theorem handleFrom_core (env : Env) (c d : Cfg) (h : c.core = d.core) (as : List Bytes) :
    (handleFrom env c as).map Cfg.core = (handleFrom env d as).map Cfg.core := by
  have hr := run_core env as c d h
  unfold handleFrom
  cases hc : run env c as with
  | none =>
    cases hd : run env d as with
    | none => rfl
    | some d' => simp [hc, hd] at hr
  | some c' =>
    cases hd : run env d as with
    | none => simp [hc, hd] at hr
    | some d' =>
      simp only [hc, hd, Option.map_some, Option.some.injEq] at hr
      have hs := slimRule_core env c' d' hr
      have hi := invalid_core env _ _ hs
      simp only [hi]
      split <;> simp [hs]

end Options
