import ThriftVerif.Lib.Options
/- helper definitions and lemmas for Props/C20.lean -/
namespace Options

def PrefixSafe (t : List Entry) : Prop :=
  t.Pairwise (fun a b => isPrefix a.name b.name = false)

instance (t : List Entry) : Decidable (PrefixSafe t) := by unfold PrefixSafe; infer_instance

def TableWF (env : Env) : Bool :=
  env.table.all (fun e => match e.kind with | .feature i => i < env.defaults.length | _ => true) &&
  (env.iDeepEqual < env.defaults.length)

theorem isPrefix_refl : ∀ a : Bytes, isPrefix a a = true
  | [] => rfl
  | x :: r => by simp [isPrefix, isPrefix_refl r]

theorem lookup_of_prefixSafe (t : List Entry) (h : PrefixSafe t) (e : Entry) (he : e ∈ t) :
    lookup t e.name = some e := by
  induction t with
  | nil => cases he
  | cons a t ih =>
    unfold PrefixSafe at h
    rw [List.pairwise_cons] at h
    rcases List.mem_cons.mp he with rfl | hm
    · simp [lookup, List.find?, isPrefix_refl]
    · have h1 := h.1 e hm
      have := ih h.2 hm
      simp only [lookup, List.find?, h1] at this ⊢
      exact this

def joinEq (name : Bytes) (v : Option Bytes) : Bytes :=
  match v with
  | none => name
  | some x => name ++ 61 :: x

theorem splitEq_joinEq (name : Bytes) (v : Option Bytes) (h : (61 : Nat) ∉ name) :
    splitEq (joinEq name v) = (name, v) := by
  induction name with
  | nil => cases v <;> simp [joinEq, splitEq]
  | cons x r ih =>
    have hx : x ≠ 61 := fun e => h (by simp [e])
    have hr : (61 : Nat) ∉ r := fun e => h (by simp [e])
    have := ih hr
    cases v with
    | none => simp [joinEq] at this ⊢; simp [splitEq, hx, this]
    | some y => simp [joinEq] at this ⊢; simp [splitEq, hx, this]

theorem resolve_joinEq (env : Env) (e : Entry) (v : Option Bytes)
    (hl : lookup env.table e.name = some e) (h : (61 : Nat) ∉ e.name) :
    resolve env (joinEq e.name v) = some (e.kind, v.getD []) := by
  simp [resolve, splitEq_joinEq e.name v h, hl]

def settingOf (env : Env) (i : Nat) (a : Bytes) : Option Bool :=
  match resolve env a with
  | some (.feature j, v) => if j = i then checkBool v else none
  | _ => none

def lastSetting (env : Env) (i : Nat) : List Bytes → Option Bool
  | [] => none
  | a :: r => match lastSetting env i r with
      | some b => some b
      | none => settingOf env i a

theorem getD_setAt (l : List Bool) (j i : Nat) (b : Bool) (hi : i < l.length) :
    (setAt l j b).getD i false = if j = i then b else l.getD i false := by
  simp only [setAt, List.getD_eq_getElem?_getD, List.getElem?_set]
  by_cases hji : j = i
  · subst hji; simp [hi]
  · simp [hji]

theorem feat_set (c : Cfg) (j i : Nat) (b : Bool) (hi : i < c.features.length) :
    feat { c with features := setAt c.features j b } i = if j = i then b else feat c i := by
  simp only [feat]; exact getD_setAt c.features j i b hi

theorem step_feat (env : Env) (c c1 : Cfg) (a : Bytes) (h : step env c a = some c1) (i : Nat)
    (hi : i < c.features.length) :
    c1.features.length = c.features.length ∧
    feat c1 i = (settingOf env i a).getD (feat c i) := by
  unfold step at h
  unfold settingOf
  cases hr : resolve env a with
  | none => simp [hr] at h; subst h; simp
  | some kv =>
    obtain ⟨k, v⟩ := kv
    simp only [hr] at h
    cases k with
    | feature j =>
      simp only [act] at h
      cases hb : checkBool v with
      | none => simp [hb] at h
      | some b =>
        simp only [hb, Option.some.injEq] at h
        subst h
        refine ⟨by simp [setAt], ?_⟩
        rw [feat_set c j i b hi]
        by_cases hji : j = i <;> simp [hji, hb]
    | thriftImportPath => simp [act] at h; subst h; simp [feat]
    | packagePrefix => simp [act] at h; subst h; simp [feat]
    | usePackage =>
      simp only [act] at h
      split at h
      · simp at h; subst h; simp [feat]
      · simp at h
    | namingStyle =>
      simp only [act] at h
      split at h
      · simp at h; subst h; simp [feat]
      · simp at h
    | ignoreInitialisms =>
      simp only [act] at h
      split at h
      · simp at h; subst h; simp [feat]
      · simp at h
    | template =>
      simp only [act] at h
      split at h
      · simp at h; subst h; simp [feat]
      · simp at h

theorem run_feat (env : Env) (args : List Bytes) : ∀ (c c' : Cfg), run env c args = some c' → ∀ i,
    i < c.features.length →
    c'.features.length = c.features.length ∧
    feat c' i = (lastSetting env i args).getD (feat c i) := by
  induction args with
  | nil => intro c c' h i _; simp [run] at h; subst h; simp [lastSetting]
  | cons a r ih =>
    intro c c' h i hi
    simp only [run] at h
    cases hs : step env c a with
    | none => simp [hs] at h
    | some c1 =>
      simp only [hs] at h
      obtain ⟨hl, hf⟩ := step_feat env c c1 a hs i hi
      obtain ⟨hl', hf'⟩ := ih c1 c' h i (by omega)
      refine ⟨by omega, ?_⟩
      rw [hf', hf]
      simp only [lastSetting]
      cases lastSetting env i r <;> simp

theorem init_len (env : Env) : (init env).features.length = env.defaults.length := rfl

theorem handle_feat (env : Env) (args : List Bytes) (c : Cfg) (h : handle env args = some c) (i : Nat)
    (hi : i < env.defaults.length) :
    feat c i =
      if c.template = env.slimName ∧ i = env.iDeepEqual then false
      else (lastSetting env i args).getD (env.defaults.getD i false) := by
  unfold handle handleFrom at h
  cases hr : run env (init env) args with
  | none => simp [hr] at h
  | some c0 =>
    simp only [hr] at h
    split at h
    · simp at h
    · simp only [Option.some.injEq] at h
      obtain ⟨hl, hf⟩ := run_feat env args (init env) c0 hr i (by rw [init_len]; exact hi)
      have hfi : feat (init env) i = env.defaults.getD i false := rfl
      rw [hfi] at hf
      subst h
      unfold slimRule
      by_cases ht : c0.template = env.slimName
      · simp only [ht, if_true, true_and]
        simp only [feat] at hf ⊢
        rw [getD_setAt c0.features env.iDeepEqual i false (by rw [hl, init_len]; exact hi)]
        by_cases hd : env.iDeepEqual = i
        · simp [hd]
        · have : ¬ i = env.iDeepEqual := fun e => hd e.symm
          simp only [hd, this, if_false]; exact hf
      · simp [ht, hf]

theorem handle_slim (env : Env) (args : List Bytes) (c : Cfg) (h : handle env args = some c)
    (hs : c.template = env.slimName) (hd : env.iDeepEqual < env.defaults.length) :
    feat c env.iDeepEqual = false := by
  rw [handle_feat env args c h env.iDeepEqual hd]
  simp [hs]

theorem handle_none_iff (env : Env) (args : List Bytes) :
    handle env args = none ↔
      (run env (init env) args = none ∨
       ∃ c, run env (init env) args = some c ∧ invalid env (slimRule env c) = true) := by
  unfold handle handleFrom
  cases hr : run env (init env) args with
  | none => simp
  | some c =>
    simp only [Option.some.injEq, exists_eq_left', reduceCtorEq, false_or]
    constructor
    · intro h; split at h
      · assumption
      · simp at h
    · intro h; simp [h]

theorem act_none_local (env : Env) (c c' : Cfg) (k : Kind) (v : Bytes) :
    (act env c k v = none) ↔ (act env c' k v = none) := by
  cases k <;> simp only [act] <;> (try simp) <;> (split <;> simp)

theorem step_none_local (env : Env) (c c' : Cfg) (a : Bytes) :
    (step env c a = none) ↔ (step env c' a = none) := by
  unfold step
  cases resolve env a with
  | none => simp
  | some kv => exact act_none_local env c c' kv.1 kv.2

end Options
