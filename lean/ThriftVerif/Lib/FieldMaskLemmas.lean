import ThriftVerif.Lib.FieldMaskSpec
/-
  Helper lemmas for C14 (Props/C14.lean holds the property theorems).
  Part 1: queries on a trie satisfying `Rep` answer as `Sel` prescribes (`walk_rep`).
  Part 2: `addLoop` establishes `Rep` for the meaning `shadow` gives to the path (`addLoop_rep`).
-/
namespace FieldMask

theorem walk_none (cfg : Sites) (q : List QStep) : walk cfg .none q = .ok true := by
  induction q with
  | nil => rfl
  | cons s qs ih =>
    simp only [walk, query, bind, ih]
    rfl

/-- node-level selection: `P` is the non-empty set of suffixes at the node -/
def SelN (black : Bool) (P : List APath) (q : List QStep) : Bool :=
  if black then !(P.any (covers · q)) else P.any (compat · q)

theorem Rep.typ_ne {sch black d m P} (h : Rep sch black d m P) : m.typ ≠ .invalid := by
  cases h <;> assumption

theorem Rep.ne_nil {sch black d m P} (h : Rep sch black d m P) : P ≠ [] := by
  cases h <;> assumption

theorem Rep.isBlack_eq {sch black d m P} (h : Rep sch black d m P) : m.isBlack = black := by
  cases h <;> assumption

theorem Mask.hasChild_def (m : Mask) : m.hasChild =
    (m.typ != .invalid && (m.all matches .some _ || m.fdA || m.intA || m.strA)) := rfl

theorem Rep.hasChild_iff {sch black d m P} (h : Rep sch black d m P) :
    m.hasChild = !(P.any List.isEmpty) := by
  cases h with
  | leaf ht hb hne hall hia hal hnk =>
    obtain ⟨_, _, _, h4, h5, h6⟩ := hnk
    have : P.any List.isEmpty = true := by
      cases P with
      | nil => exact absurd rfl hne
      | cons p P' => simp [hall p (by simp)]
    simp [Mask.hasChild_def, hal, h4, h5, h6, this]
  | star s a cu ht hb hne hs hall hia hal hnk hcu hat hr =>
    have : P.any List.isEmpty = false := by
      rw [List.any_eq_false]
      intro p hp
      obtain ⟨t, rfl⟩ := hall p hp
      simp
    simp [Mask.hasChild_def, hal, this, ht]
  | spec ht hb hne hall hia hhc hfd hkind hnd hno hyes hrec =>
    have : P.any List.isEmpty = false := by
      rw [List.any_eq_false]
      intro p hp
      obtain ⟨k, t, rfl, _⟩ := hall p hp
      simp
    simp [hhc, this]

theorem any_leaf {P : List APath} (f : APath → Bool) (hne : P ≠ []) (hall : ∀ p ∈ P, p = []) :
    P.any f = f [] := by
  cases P with
  | nil => exact absurd rfl hne
  | cons p P' =>
    have h0 : p = [] := hall p (by simp)
    subst h0
    simp only [List.any_cons]
    cases hf : f [] with
    | true => simp
    | false =>
      simp only [Bool.false_or]
      rw [List.any_eq_false]
      intro q hq
      have : q = [] := hall q (by simp [hq])
      subst this; simp [hf]

theorem SelN_leaf {black} {P : List APath} (hne : P ≠ []) (hall : ∀ p ∈ P, p = []) (s : QStep) (qs : List QStep) :
    SelN black P (s :: qs) = !black := by
  unfold SelN
  rw [any_leaf _ hne hall, any_leaf _ hne hall]
  cases black <;> simp [covers, compat]

theorem any_star {P : List APath} {st : PStep} (hs : st.isStar = true) (hall : ∀ p ∈ P, ∃ t, p = st :: t)
    (f : APath → Bool) (g : APath → Bool) (hfg : ∀ t, f (st :: t) = g t) :
    P.any f = (P.map List.tail).any g := by
  induction P with
  | nil => rfl
  | cons p P' ih =>
    obtain ⟨t, rfl⟩ := hall p (by simp)
    simp only [List.any_cons, List.map_cons, List.tail_cons, hfg]
    rw [ih (fun q hq => hall q (by simp [hq]))]

theorem SelN_star {black} {P : List APath} {st : PStep} (hs : st.isStar = true) (hall : ∀ p ∈ P, ∃ t, p = st :: t)
    (s : QStep) (qs : List QStep) : SelN black P (s :: qs) = SelN black (P.map List.tail) qs := by
  unfold SelN
  rw [any_star hs hall (covers · (s :: qs)) (covers · qs) (by intro t; simp [covers, PStep.matchQ, hs])]
  rw [any_star hs hall (compat · (s :: qs)) (compat · qs) (by intro t; simp [compat, PStep.matchQ, hs])]

theorem any_spec {P : List APath} (hall : ∀ p ∈ P, ∃ k t, p = k :: t ∧ k.isStar = false) (k0 : PStep)
    (f : APath → Bool) (g : APath → Bool) (hfg : ∀ k t, k.isStar = false → f (k :: t) = (k == k0 && g t)) :
    P.any f = (tailsOf k0 P).any g := by
  induction P with
  | nil => rfl
  | cons p P' ih =>
    obtain ⟨k, t, rfl, hk⟩ := hall p (by simp)
    have ih' := ih (fun q hq => hall q (by simp [hq]))
    simp only [List.any_cons, hfg k t hk, ih']
    unfold tailsOf
    simp only [List.filterMap_cons]
    by_cases hkk : k = k0
    · subst hkk; simp
    · simp [hkk]

theorem SelN_spec {black} {P : List APath} (hall : ∀ p ∈ P, ∃ k t, p = k :: t ∧ k.isStar = false)
    (s : QStep) (qs : List QStep) : SelN black P (s :: qs) = SelN black (tailsOf s.toP P) qs := by
  unfold SelN
  rw [any_spec hall s.toP (covers · (s :: qs)) (covers · qs) (by intro k t hk; simp [covers, PStep.matchQ, hk])]
  rw [any_spec hall s.toP (compat · (s :: qs)) (compat · qs) (by intro k t hk; simp [compat, PStep.matchQ, hk])]


theorem SelN_nil_white (P : List APath) (hne : P ≠ []) : SelN false P [] = true := by
  unfold SelN
  cases P with
  | nil => exact absurd rfl hne
  | cons p P' => cases p <;> simp [compat]

theorem covers_nil (p : APath) : covers p [] = p.isEmpty := by
  cases p <;> simp [covers]

theorem SelN_nil_black (P : List APath) : SelN true P [] = !(P.any List.isEmpty) := by
  unfold SelN
  simp only [if_true]
  congr 1
  induction P with
  | nil => rfl
  | cons p P' ih => simp [List.any_cons, covers_nil, ih]

theorem NoTerminalStar_tails_star {P : List APath} {st : PStep} (hs : st.isStar = true)
    (hall : ∀ p ∈ P, ∃ t, p = st :: t) (h : NoTerminalStar P = true) :
    NoTerminalStar (P.map List.tail) = true ∧ (P.map List.tail).any List.isEmpty = false := by
  unfold NoTerminalStar at *
  rw [List.all_eq_true] at h
  constructor
  · rw [List.all_eq_true]
    intro t ht
    rw [List.mem_map] at ht
    obtain ⟨p, hp, rfl⟩ := ht
    obtain ⟨t, rfl⟩ := hall p hp
    have := h _ hp
    cases t with
    | nil => simp [hs] at this
    | cons a t' => simpa [List.getLast?_cons_cons] using this
  · rw [List.any_eq_false]
    intro t ht
    rw [List.mem_map] at ht
    obtain ⟨p, hp, rfl⟩ := ht
    obtain ⟨t, rfl⟩ := hall p hp
    have := h _ hp
    cases t with
    | nil => simp [hs] at this
    | cons a t' => simp

theorem mem_tailsOf {k : PStep} {P : List APath} {t : APath} : t ∈ tailsOf k P ↔ (k :: t) ∈ P := by
  unfold tailsOf
  rw [List.mem_filterMap]
  constructor
  · rintro ⟨p, hp, h⟩
    cases p with
    | nil => simp at h
    | cons k' t' =>
      by_cases hk : k' = k
      · subst hk; simp at h; subst h; exact hp
      · simp [hk] at h
  · intro h
    exact ⟨k :: t, h, by simp⟩

theorem NoTerminalStar_tailsOf {P : List APath} {k : PStep} (hk : k.isStar = false)
    (h : NoTerminalStar P = true) : NoTerminalStar (tailsOf k P) = true := by
  unfold NoTerminalStar at *
  rw [List.all_eq_true] at *
  intro t ht
  have := h _ (mem_tailsOf.mp ht)
  cases t with
  | nil => simp
  | cons a t' => simpa [List.getLast?_cons_cons] using this

theorem QStep.toP_not_star (s : QStep) : s.toP.isStar = false := by cases s <;> rfl

@[simp] theorem Res.ok_bind {α β} (a : α) (f : α → Res β) : (Res.ok a >>= f) = f a := rfl
@[simp] theorem Res.err_bind {α β} (e : Err) (f : α → Res β) : (Res.err e >>= f) = .err e := rfl
@[simp] theorem Res.panic_bind {α β} (s : Site) (f : α → Res β) : (Res.panic s >>= f) = .panic s := rfl
@[simp] theorem Res.crash_bind {α β} (f : α → Res β) : ((Res.crash : Res α) >>= f) = .crash := rfl
@[simp] theorem Res.pure_eq {α} (a : α) : (pure a : Res α) = .ok a := rfl

theorem Res.bind_eq_ok {α β} {x : Res α} {f : α → Res β} {b : β} :
    (x >>= f) = .ok b ↔ ∃ a, x = .ok a ∧ f a = .ok b := by
  cases x <;> simp

theorem siteHead_ok {cfg : Sites} {f : Int} {u : Unit} (h : siteHead cfg f = .ok u) : True := trivial

/-- what `query` answers at a node with one child per specific step -/
theorem query_spec {cfg : Sites} {m : Mask} (ht : m.typ ≠ .invalid) (hia : m.isAll = false)
    (hfd : m.fdA = true ∨ m.fd = .nil) (s : QStep) (r : MaskOpt × Bool)
    (h : query cfg (.some m) s = .ok r) :
    r = m.ret (match m.kid s.toP with | .some c => if c.typ != .invalid then .some c else .none | .none => .none) := by
  unfold query at h
  simp only [ht, hia, Bool.false_eq_true, ↓reduceIte] at h
  cases s with
  | field id =>
    rw [Res.bind_eq_ok] at h
    obtain ⟨fm, hfm, h⟩ := h
    simp only [Res.ok.injEq] at h
    subst h
    unfold fdGet at hfm
    congr 1
    split at hfm
    · rename_i hfa
      split at hfm
      · rw [Res.bind_eq_ok] at hfm
        obtain ⟨_, _, hfm⟩ := hfm
        simp at hfm
      · have hnil : m.fd = .nil := by
          cases hfd with
          | inl h1 => simp [h1] at hfa
          | inr h2 => exact h2
        simp only [Res.ok.injEq] at hfm
        subst hfm
        simp [QStep.toP, Mask.kid, hnil, Kids.get]
    · rw [Res.bind_eq_ok] at hfm
      obtain ⟨_, _, hfm⟩ := hfm
      simp only [Res.ok.injEq] at hfm
      subst hfm
      simp only [QStep.toP, Mask.kid, Kids.getExist]
      cases m.fd.get (.i id) <;> rfl
  | int i =>
    simp only [Res.ok.injEq] at h
    subst h
    simp only [QStep.toP, Mask.kid, Kids.getExist]
    cases m.ints.get (.i i) <;> rfl
  | str k =>
    simp only [Res.ok.injEq] at h
    subst h
    simp only [QStep.toP, Mask.kid, Kids.getExist]
    cases m.strs.get (.s k) <;> rfl


theorem walk_cons {cfg : Sites} {cur : MaskOpt} {s : QStep} {qs : List QStep} {b : Bool}
    (h : walk cfg cur (s :: qs) = .ok b) :
    ∃ nxt ok, query cfg cur s = .ok (nxt, ok) ∧ (if ok then walk cfg nxt qs else .ok false) = .ok b := by
  simp only [walk] at h
  rw [Res.bind_eq_ok] at h
  obtain ⟨⟨nxt, ok⟩, h1, h2⟩ := h
  exact ⟨nxt, ok, h1, h2⟩

/-- **queries answer as the path set prescribes**, at any node of a trie satisfying `Rep` -/
theorem walk_rep {cfg : Sites} {sch : Schema} {black : Bool} :
    ∀ (q : List QStep) (d : Ty) (m : Mask) (P : List APath) (b : Bool),
      Rep sch black d m P → (black = true → cfg.blackStar = true → NoTerminalStar P = true) →
      (q ≠ [] ∨ m.hasChild = true ∨ black = false) →
      walk cfg (.some m) q = .ok b → b = SelN black P q := by
  intro q
  induction q with
  | nil =>
    intro d m P b hrep hnts hq hw
    simp only [walk, Res.ok.injEq] at hw
    subst hw
    cases black with
    | false => exact (SelN_nil_white P hrep.ne_nil).symm
    | true =>
      rw [SelN_nil_black, ← hrep.hasChild_iff]
      rcases hq with h | h | h
      · exact absurd rfl h
      · exact h.symm
      · simp at h
  | cons s qs ih =>
    intro d m P b hrep hnts _ hw
    obtain ⟨nxt, ok, hq, hw⟩ := walk_cons hw
    cases hrep with
    | leaf ht hb hne hall hia hal hnk =>
      rw [SelN_leaf hne hall]
      unfold query at hq
      simp only [ht, hia, ↓reduceIte, Res.ok.injEq, Prod.mk.injEq] at hq
      obtain ⟨rfl, rfl⟩ := hq
      obtain ⟨_, _, _, h4, h5, h6⟩ := hnk
      have hp : m.passAll cfg = false := by
        unfold Mask.passAll
        cases cfg.blackStar <;> simp [Mask.hasChild_def, hal, h4, h5, h6]
      simp only [hp, hal, hb] at hw
      cases black with
      | false => simp [walk_none] at hw; simp [hw]
      | true => simp at hw; simp [hw]
    | star st a cu ht hb hne hs hall hia hal hnk hcu hat hr =>
      rw [SelN_star hs hall]
      unfold query at hq
      simp only [ht, hia, ↓reduceIte, Res.ok.injEq, Prod.mk.injEq] at hq
      obtain ⟨rfl, rfl⟩ := hq
      have hhc : m.hasChild = true := by simp [Mask.hasChild_def, hal, ht]
      have hnts' : ∀ hbk : black = true, cfg.blackStar = true → NoTerminalStar (P.map List.tail) = true :=
        fun hbk hbs => (NoTerminalStar_tails_star hs hall (hnts hbk hbs)).1
      cases black with
      | false =>
        simp only [hb, Bool.not_false, Bool.true_or, ↓reduceIte, hal] at hw
        exact ih cu.2 a (P.map List.tail) b hr hnts' (by right; right; rfl) hw
      | true =>
        cases hbs : cfg.blackStar with
        | true =>
          simp only [Mask.passAll, hbs, hhc, Bool.or_true, ↓reduceIte, hal] at hw
          apply ih cu.2 a (P.map List.tail) b hr hnts' _ hw
          right; left
          rw [hr.hasChild_iff, (NoTerminalStar_tails_star hs hall (hnts rfl hbs)).2]
          rfl
        | false =>
          simp only [Mask.passAll, hbs, Bool.false_eq_true, ↓reduceIte, hal, hb, Bool.not_true, Bool.false_or] at hw
          cases hch : a.hasChild with
          | true =>
            simp only [hch, ↓reduceIte] at hw
            exact ih cu.2 a (P.map List.tail) b hr hnts' (by right; left; exact hch) hw
          | false =>
            simp only [hch, Bool.false_eq_true, ↓reduceIte, Res.ok.injEq] at hw
            subst hw
            have hany : (P.map List.tail).any List.isEmpty = true := by
              have := hr.hasChild_iff
              rw [hch] at this
              simpa using this.symm
            unfold SelN
            simp only [↓reduceIte]
            rw [List.any_eq_true] at hany
            obtain ⟨t, ht1, ht2⟩ := hany
            have : t = [] := by simpa using ht2
            subst this
            have : (P.map List.tail).any (covers · qs) = true := by
              rw [List.any_eq_true]; exact ⟨[], ht1, by simp [covers]⟩
            simp [this]
    | spec ht hb hne hall hia hhc hfd hkind hnd hno hyes hrec =>
      rw [SelN_spec hall]
      have hr := query_spec ht hia hfd s _ hq
      have hks := QStep.toP_not_star s
      by_cases htl : tailsOf s.toP P = []
      · rw [hno _ hks htl] at hr
        simp only [Mask.ret, hb] at hr
        rw [htl]
        cases black with
        | false =>
          simp only [Bool.false_eq_true, ↓reduceIte, Prod.mk.injEq] at hr
          obtain ⟨rfl, rfl⟩ := hr
          simp at hw
          simp [SelN, hw]
        | true =>
          simp only [↓reduceIte, Prod.mk.injEq] at hr
          obtain ⟨rfl, rfl⟩ := hr
          simp [walk_none] at hw
          simp [SelN, hw]
      · obtain ⟨c, cu, hkid, hcu, hct⟩ := hyes _ hks htl
        have hrc := hrec _ c cu hkid hcu htl
        have hcne : (c.typ != .invalid) = true := by simp [hrc.typ_ne]
        rw [hkid] at hr
        simp only [hcne, ↓reduceIte, Mask.ret, hb] at hr
        cases black with
        | false =>
          simp only [Bool.false_eq_true, ↓reduceIte, Prod.mk.injEq] at hr
          obtain ⟨rfl, rfl⟩ := hr
          simp only [↓reduceIte] at hw
          exact ih cu.2 c _ b hrc (by intro h; simp at h) (by right; right; rfl) hw
        | true =>
          simp only [↓reduceIte, Prod.mk.injEq] at hr
          obtain ⟨rfl, rfl⟩ := hr
          cases hch : c.hasChild with
          | false =>
            simp only [hch, Bool.false_eq_true, ↓reduceIte, Res.ok.injEq] at hw
            subst hw
            -- c is a leaf: every tail is [] and covers [] qs
            have hany : (tailsOf s.toP P).any List.isEmpty = true := by
              have := hrc.hasChild_iff
              rw [hch] at this
              simpa using this.symm
            unfold SelN
            simp only [↓reduceIte]
            rw [List.any_eq_true] at hany
            obtain ⟨t, ht1, ht2⟩ := hany
            have : t = [] := by simpa using ht2
            subst this
            have : (tailsOf s.toP P).any (covers · qs) = true := by
              rw [List.any_eq_true]; exact ⟨[], ht1, by simp [covers]⟩
            simp [this]
          | true =>
            simp only [hch, ↓reduceIte] at hw
            exact ih cu.2 c _ b hrc (fun _ hbs => NoTerminalStar_tailsOf hks (hnts rfl hbs)) (by right; left; exact hch) hw


/-! ## Part 2a: the conflict relation -/

/-- `noConf` as a relation -/
def NC (a b : APath) : Prop := noConf a b = true

theorem noConf_symm : ∀ (a b : APath), noConf a b = noConf b a
  | [], [] => rfl
  | [], _ :: _ => rfl
  | _ :: _, [] => rfl
  | a :: p, b :: q => by
    simp only [noConf]
    rw [noConf_symm p q]
    by_cases hab : a = b
    · subst hab; rfl
    · have hba : ¬ b = a := fun h => hab h.symm
      cases a <;> cases b <;> simp_all [PStep.isStar] <;> ac_rfl

theorem NoStarConflict_iff (L : List APath) : NoStarConflict L = true ↔ L.Pairwise NC := by
  induction L with
  | nil => simp [NoStarConflict]
  | cons p l ih =>
    simp only [NoStarConflict, Bool.and_eq_true, List.pairwise_cons, ih, noConfAll, List.all_eq_true, NC]

theorem NC_nil_right {p : APath} (h : NC p []) : p = [] := by
  cases p with
  | nil => rfl
  | cons a t => simp [NC, noConf] at h

theorem NC_spec_right {p x : APath} {k : PStep} (hk : k.isStar = false) (h : NC p (k :: x)) :
    ∃ k' t, p = k' :: t ∧ k'.isStar = false := by
  cases p with
  | nil => simp [NC, noConf] at h
  | cons a t =>
    refine ⟨a, t, rfl, ?_⟩
    cases ha : a.isStar with
    | false => rfl
    | true => simp [NC, noConf, ha, hk] at h; cases a <;> simp_all [PStep.isStar]

theorem NC_any_right {p x : APath} (h : NC p (.any :: x)) : ∃ t, p = .any :: t := by
  cases p with
  | nil => simp [NC, noConf] at h
  | cons a t =>
    simp [NC, noConf, PStep.isStar] at h
    exact ⟨t, by rw [h.1]⟩

theorem NC_anyField_right {p x : APath} (h : NC p (.anyField :: x)) : False := by
  cases p with
  | nil => simp [NC, noConf] at h
  | cons a t => simp [NC, noConf, PStep.isStar] at h

theorem NC_cons_spec {k : PStep} (hk : k.isStar = false) (a b : APath) : NC (k :: a) (k :: b) ↔ NC a b := by
  simp [NC, noConf, hk]

theorem NC_cons_any (a b : APath) : NC (.any :: a) (.any :: b) ↔ NC a b := by
  simp [NC, noConf, PStep.isStar]

theorem tailsOf_append (k : PStep) (P Q : List APath) : tailsOf k (P ++ Q) = tailsOf k P ++ tailsOf k Q := by
  simp [tailsOf, List.filterMap_append]

theorem tailsOf_map_same (k : PStep) (X : List APath) : tailsOf k (X.map (k :: ·)) = X := by
  induction X with
  | nil => rfl
  | cons x X ih =>
    simp only [List.map_cons, tailsOf, List.filterMap_cons] at *
    simp [ih]

theorem tailsOf_map_other {k k' : PStep} (h : k' ≠ k) (X : List APath) : tailsOf k (X.map (k' :: ·)) = [] := by
  induction X with
  | nil => rfl
  | cons x X ih =>
    simp only [List.map_cons, tailsOf, List.filterMap_cons] at *
    simp [ih, h]

theorem pairwise_tailsOf {k : PStep} (hk : k.isStar = false) {L : List APath} (h : L.Pairwise NC) :
    (tailsOf k L).Pairwise NC := by
  unfold tailsOf
  apply List.Pairwise.filterMap _ _ h
  intro a a' haa b hb b' hb'
  cases a with
  | nil => simp at hb
  | cons ka ta =>
    cases a' with
    | nil => simp at hb'
    | cons kb tb =>
      by_cases h1 : ka = k
      · by_cases h2 : kb = k
        · subst h1; subst h2
          simp at hb hb'
          subst hb; subst hb'
          exact (NC_cons_spec hk _ _).mp haa
        · simp [h2] at hb'
      · simp [h1] at hb

theorem pairwise_map_tail_any {L : List APath} (hall : ∀ p ∈ L, ∃ t, p = PStep.any :: t) (h : L.Pairwise NC) :
    (L.map List.tail).Pairwise NC := by
  rw [List.pairwise_map]
  apply h.imp_of_mem
  intro a b ha hb hab
  obtain ⟨ta, rfl⟩ := hall a ha
  obtain ⟨tb, rfl⟩ := hall b hb
  exact (NC_cons_any _ _).mp hab



/-! ## Part 2b: trie updates preserve `Rep` -/

theorem Kids.get_put_same (k : Key) (v : Mask) : ∀ ks : Kids, (ks.put k v).get k = .some v
  | .nil => by simp [Kids.put, Kids.get]
  | .cons k' m r => by
    by_cases h : k' = k
    · simp [Kids.put, Kids.get, h]
    · simp [Kids.put, Kids.get, h, Kids.get_put_same k v r]

theorem Kids.get_put_other {k k' : Key} (v : Mask) (h : k' ≠ k) : ∀ ks : Kids, (ks.put k v).get k' = ks.get k'
  | .nil => by simp [Kids.put, Kids.get, Ne.symm h]
  | .cons k'' m r => by
    by_cases h1 : k'' = k
    · subst h1
      simp [Kids.put, Kids.get, Ne.symm h]
    · by_cases h2 : k'' = k'
      · subst h2; simp [Kids.put, Kids.get, h1]
      · simp [Kids.put, Kids.get, h1, h2, Kids.get_put_other v h r]

/-- store the child reached by a specific step -/
def Mask.putKid (m : Mask) (k : PStep) (c : Mask) : Mask :=
  match k with
  | .field id => m.setFd (m.fd.put (.i id) c)
  | .idx i => m.setInts (m.ints.put (.i i) c)
  | .key s => m.setStrs (m.strs.put (.s s) c)
  | _ => m

/-- `SetIfNotExist` seen through `Mask.kid` -/
def Mask.kidChild (m : Mask) (k : PStep) (ft : Ft) (black : Bool) : Mask :=
  match m.kid k with
  | .none => Mask.new ft black
  | .some c => if c.typ = .invalid then c.assign ft black else c

theorem Mask.kid_putKid {m : Mask} {k k' : PStep} (c : Mask) (hk : k.isStar = false) (hk' : k'.isStar = false) :
    (m.putKid k c).kid k' = if k' = k then .some c else m.kid k' := by
  obtain ⟨typ, isAll, isBlack, all, fdA, fd, intA, ints, strA, strs⟩ := m
  cases k <;> cases k' <;> simp_all [PStep.isStar, Mask.putKid, Mask.kid, Mask.setFd, Mask.setInts, Mask.setStrs,
    Mask.fd, Mask.ints, Mask.strs]
  all_goals
    rename_i a b
    by_cases h : b = a
    · subst h; simp [Kids.get_put_same]
    · simp [h]
      apply Kids.get_put_other
      simp [h]

def RepF (sch : Schema) (black : Bool) (d : Ty) (m : Mask) (P : List APath) : Prop :=
  (P = [] ∧ m.Fresh black) ∨ Rep sch black d m P

theorem RepF.rep {sch black d m P} (h : RepF sch black d m P) (hne : P ≠ []) : Rep sch black d m P := by
  cases h with
  | inl h => exact absurd h.1 hne
  | inr h => exact h

theorem RepF.isBlack_eq {sch black d m P} (h : RepF sch black d m P) : m.isBlack = black := by
  cases h with
  | inl h => exact h.2.2.2.1
  | inr h => exact h.isBlack_eq


def AllSpec (P : List APath) : Prop := ∀ p ∈ P, ∃ k t, p = k :: t ∧ k.isStar = false

/-- a `Rep` node all of whose paths start with a specific step is a `spec` node -/
theorem Rep.spec_inv {sch black d m P} (h : Rep sch black d m P) (hP : AllSpec P) :
    m.isAll = false ∧ m.hasChild = true ∧ (m.fdA = true ∨ m.fd = .nil) ∧
    (∀ k, k.isStar = false → tailsOf k P = [] → m.kid k = .none) ∧
    (∀ k, k.isStar = false → tailsOf k P ≠ [] →
         ∃ c cu, m.kid k = .some c ∧ stepCur sch m.typ d k = some cu ∧ c.typ = cu.1) ∧
    (∀ k c cu, m.kid k = .some c → stepCur sch m.typ d k = some cu → tailsOf k P ≠ [] →
         Rep sch black cu.2 c (tailsOf k P)) ∧
    (∀ k, k.isStar = false → tailsOf k P ≠ [] → kindOK m.typ k = true) ∧
    (m.fd.wfI ∧ m.ints.wfI ∧ m.strs.wfS) := by
  cases h with
  | leaf ht hb hne hall hia hal hnk =>
    cases P with
    | nil => exact absurd rfl hne
    | cons p P' =>
      obtain ⟨k, t, h1, _⟩ := hP p (by simp)
      have := hall p (by simp)
      simp [h1] at this
  | star s a cu ht hb hne hs hall hia hal hnk hcu hat hr =>
    cases P with
    | nil => exact absurd rfl hne
    | cons p P' =>
      obtain ⟨k, t, h1, hk⟩ := hP p (by simp)
      obtain ⟨t', h2⟩ := hall p (by simp)
      rw [h1] at h2
      simp at h2
      rw [h2.1, hs] at hk
      simp at hk
  | spec ht hb hne hall hia hhc hfd hkind hnd hno hyes hrec => exact ⟨hia, hhc, hfd, hno, hyes, hrec, hkind, hnd⟩

theorem Mask.kid_none_of_NoKids {m : Mask} (h : m.NoKids) (k : PStep) : m.kid k = .none := by
  obtain ⟨h1, h2, h3, _⟩ := h
  cases k <;> simp [Mask.kid, h1, h2, h3, Kids.get]

theorem tailsOf_nil (k : PStep) : tailsOf k [] = [] := rfl

/-- the node `SetIfNotExist` hands back for a specific step represents the suffixes behind that step -/
theorem child_RepF {sch black d m P} {k : PStep} {cu : Ft × Ty} (hm : RepF sch black d m P) (hP : AllSpec P)
    (hk : k.isStar = false) (hcu : stepCur sch m.typ d k = some cu) :
    RepF sch black cu.2 (m.kidChild k cu.1 black) (tailsOf k P) ∧ (m.kidChild k cu.1 black).typ = cu.1 := by
  cases hm with
  | inl hf =>
    obtain ⟨rfl, _, _, _, hnk⟩ := hf
    simp only [Mask.kidChild, Mask.kid_none_of_NoKids hnk, tailsOf_nil]
    exact ⟨Or.inl ⟨rfl, rfl, rfl, rfl, rfl, rfl, rfl, rfl, rfl, rfl⟩, rfl⟩
  | inr hr =>
    obtain ⟨_, _, _, hno, hyes, hrec, _, _⟩ := hr.spec_inv hP
    by_cases ht : tailsOf k P = []
    · simp only [Mask.kidChild, hno k hk ht, ht]
      exact ⟨Or.inl ⟨rfl, rfl, rfl, rfl, rfl, rfl, rfl, rfl, rfl, rfl⟩, rfl⟩
    · obtain ⟨c, cu', hkid, hcu', hct⟩ := hyes k hk ht
      rw [hcu] at hcu'
      cases hcu'
      have hrc := hrec k c cu hkid hcu ht
      have : ¬ c.typ = .invalid := hrc.typ_ne
      simp only [Mask.kidChild, hkid, this, ↓reduceIte]
      exact ⟨Or.inr hrc, hct⟩

theorem Mask.putKid_typ (m : Mask) (k : PStep) (c : Mask) : (m.putKid k c).typ = m.typ := by
  obtain ⟨typ, isAll, isBlack, all, fdA, fd, intA, ints, strA, strs⟩ := m
  cases k <;> rfl
theorem Mask.putKid_isBlack (m : Mask) (k : PStep) (c : Mask) : (m.putKid k c).isBlack = m.isBlack := by
  obtain ⟨typ, isAll, isBlack, all, fdA, fd, intA, ints, strA, strs⟩ := m
  cases k <;> rfl
theorem Mask.putKid_isAll (m : Mask) (k : PStep) (c : Mask) : (m.putKid k c).isAll = m.isAll := by
  obtain ⟨typ, isAll, isBlack, all, fdA, fd, intA, ints, strA, strs⟩ := m
  cases k <;> rfl
theorem Mask.putKid_hasChild (m : Mask) (k : PStep) (c : Mask) (hk : k.isStar = false) (ht : m.typ ≠ .invalid) :
    (m.putKid k c).hasChild = true := by
  obtain ⟨typ, isAll, isBlack, all, fdA, fd, intA, ints, strA, strs⟩ := m
  cases k <;> simp_all [PStep.isStar, Mask.putKid, Mask.hasChild, Mask.setFd, Mask.setInts, Mask.setStrs, Mask.typ,
    Mask.fdA, Mask.intA, Mask.strA]
theorem Mask.putKid_fd (m : Mask) (k : PStep) (c : Mask) (h : m.fdA = true ∨ m.fd = .nil) :
    (m.putKid k c).fdA = true ∨ (m.putKid k c).fd = .nil := by
  obtain ⟨typ, isAll, isBlack, all, fdA, fd, intA, ints, strA, strs⟩ := m
  cases k <;> simp_all [Mask.putKid, Mask.setFd, Mask.setInts, Mask.setStrs, Mask.fdA, Mask.fd]

theorem Kids.keys_put (k : Key) (v : Mask) : ∀ ks : Kids,
    (ks.put k v).keys = if k ∈ ks.keys then ks.keys else ks.keys ++ [k]
  | .nil => by simp [Kids.put, Kids.keys]
  | .cons k' m r => by
    by_cases h : k' = k
    · subst h; simp [Kids.put, Kids.keys]
    · have h' : ¬ k = k' := fun e => h e.symm
      simp only [Kids.put, h, ↓reduceIte, Kids.keys, List.mem_cons, h', false_or, Kids.keys_put k v r]
      split <;> simp

theorem Kids.nodup_put (k : Key) (v : Mask) (ks : Kids) (h : ks.keys.Nodup) : (ks.put k v).keys.Nodup := by
  rw [Kids.keys_put]
  split
  · exact h
  · rename_i hk
    rw [List.nodup_append]
    refine ⟨h, by simp, ?_⟩
    intro a ha b hb
    simp only [List.mem_singleton] at hb
    subst hb
    intro e; subst e; exact hk ha

theorem Kids.mem_keys_put {k : Key} {v : Mask} {ks : Kids} {x : Key} (h : x ∈ (ks.put k v).keys) : x ∈ ks.keys ∨ x = k := by
  rw [Kids.keys_put] at h
  split at h
  · exact Or.inl h
  · rw [List.mem_append] at h
    rcases h with h | h
    · exact Or.inl h
    · exact Or.inr (by simpa using h)

theorem Kids.wfI_put (n : Int) (v : Mask) (ks : Kids) (h : ks.wfI) : (ks.put (.i n) v).wfI :=
  ⟨Kids.nodup_put _ _ _ h.1, fun x hx => by
    rcases Kids.mem_keys_put hx with hx | hx
    · exact h.2 x hx
    · exact ⟨n, hx⟩⟩

theorem Kids.wfS_put (b : Bytes) (v : Mask) (ks : Kids) (h : ks.wfS) : (ks.put (.s b) v).wfS :=
  ⟨Kids.nodup_put _ _ _ h.1, fun x hx => by
    rcases Kids.mem_keys_put hx with hx | hx
    · exact h.2 x hx
    · exact ⟨b, hx⟩⟩

theorem Mask.putKid_nodup (m : Mask) (k : PStep) (c : Mask)
    (h : m.fd.wfI ∧ m.ints.wfI ∧ m.strs.wfS) :
    (m.putKid k c).fd.wfI ∧ (m.putKid k c).ints.wfI ∧ (m.putKid k c).strs.wfS := by
  obtain ⟨typ, isAll, isBlack, all, fdA, fd, intA, ints, strA, strs⟩ := m
  obtain ⟨h1, h2, h3⟩ := h
  cases k
  · exact ⟨Kids.wfI_put _ _ _ h1, h2, h3⟩
  · exact ⟨h1, Kids.wfI_put _ _ _ h2, h3⟩
  · exact ⟨h1, h2, Kids.wfS_put _ _ _ h3⟩
  · exact ⟨h1, h2, h3⟩
  · exact ⟨h1, h2, h3⟩

/-- putting back a child that represents `tailsOf k P ++ X` makes the node represent `P ++ k::X` -/
theorem Rep_putKid {sch black d m P} {k : PStep} {c' : Mask} {cu : Ft × Ty} {X : List APath}
    (hm : RepF sch black d m P) (hP : AllSpec P) (hk : k.isStar = false) (ht : m.typ ≠ .invalid)
    (hkk : kindOK m.typ k = true)
    (hcu : stepCur sch m.typ d k = some cu) (hct : c'.typ = cu.1)
    (hrc : Rep sch black cu.2 c' (tailsOf k P ++ X)) (hX : X ≠ []) :
    Rep sch black d (m.putKid k c') (P ++ X.map (k :: ·)) := by
  have hb := hm.isBlack_eq
  have hold : m.isAll = false ∧ (m.fdA = true ∨ m.fd = .nil) ∧
      (∀ k, k.isStar = false → tailsOf k P ≠ [] → kindOK m.typ k = true) ∧
      (m.fd.wfI ∧ m.ints.wfI ∧ m.strs.wfS) ∧
      (∀ k, k.isStar = false → tailsOf k P = [] → m.kid k = .none) ∧
      (∀ k, k.isStar = false → tailsOf k P ≠ [] →
         ∃ c cu, m.kid k = .some c ∧ stepCur sch m.typ d k = some cu ∧ c.typ = cu.1) ∧
      (∀ k c cu, m.kid k = .some c → stepCur sch m.typ d k = some cu → tailsOf k P ≠ [] →
         Rep sch black cu.2 c (tailsOf k P)) := by
    cases hm with
    | inl hf =>
      obtain ⟨rfl, h1, _, _, hnk⟩ := hf
      refine ⟨h1, Or.inr hnk.1, ?_, ?_, fun k _ _ => Mask.kid_none_of_NoKids hnk k, ?_, ?_⟩
      · intro k _ h; exact absurd (tailsOf_nil k) h
      · rw [hnk.1, hnk.2.1, hnk.2.2.1]; simp [Kids.keys, Kids.wfI, Kids.wfS]
      · intro k _ h; exact absurd (tailsOf_nil k) h
      · intro k c cu _ _ h; exact absurd (tailsOf_nil k) h
    | inr hr =>
      obtain ⟨h1, _, h3, h4, h5, h6, h7, h8⟩ := hr.spec_inv hP
      exact ⟨h1, h3, h7, h8, h4, h5, h6⟩
  obtain ⟨hia, hfd, hkind, hnd, hno, hyes, hrec⟩ := hold
  have htl : ∀ k', tailsOf k' (P ++ X.map (k :: ·)) = if k' = k then tailsOf k P ++ X else tailsOf k' P := by
    intro k'
    rw [tailsOf_append]
    by_cases h : k' = k
    · subst h; simp [tailsOf_map_same]
    · have : k ≠ k' := fun e => h e.symm
      simp [h, tailsOf_map_other this]
  apply Rep.spec
  · rw [Mask.putKid_typ]; exact ht
  · rw [Mask.putKid_isBlack]; exact hb
  · cases X with
    | nil => exact absurd rfl hX
    | cons x X' => simp
  · intro p hp
    rw [List.mem_append] at hp
    cases hp with
    | inl h => exact hP p h
    | inr h =>
      rw [List.mem_map] at h
      obtain ⟨x, _, rfl⟩ := h
      exact ⟨k, x, rfl, hk⟩
  · rw [Mask.putKid_isAll]; exact hia
  · exact Mask.putKid_hasChild m k c' hk ht
  · exact Mask.putKid_fd m k c' hfd
  · intro k' hk' htk
    rw [htl] at htk
    rw [Mask.putKid_typ]
    by_cases h : k' = k
    · rw [h]; exact hkk
    · simp only [h, ↓reduceIte] at htk
      exact hkind k' hk' htk
  · exact Mask.putKid_nodup m k c' hnd
  · intro k' hk' htk
    rw [htl] at htk
    rw [Mask.kid_putKid c' hk hk']
    by_cases h : k' = k
    · simp only [h, ↓reduceIte] at htk
      cases X with
      | nil => exact absurd rfl hX
      | cons x X' => simp at htk
    · simp only [h, ↓reduceIte] at htk ⊢
      exact hno k' hk' htk
  · intro k' hk' htk
    rw [htl] at htk
    rw [Mask.kid_putKid c' hk hk', Mask.putKid_typ]
    by_cases h : k' = k
    · subst h
      simp only [↓reduceIte]
      exact ⟨c', cu, rfl, hcu, hct⟩
    · simp only [h, ↓reduceIte] at htk ⊢
      exact hyes k' hk' htk
  · intro k' c cu' hkid hcu' htk
    rw [htl] at htk ⊢
    rw [Mask.putKid_typ] at hcu'
    by_cases h : k' = k
    · subst h
      rw [Mask.kid_putKid c' hk hk] at hkid
      simp only [↓reduceIte, MaskOpt.some.injEq] at hkid ⊢
      subst hkid
      rw [hcu] at hcu'
      cases hcu'
      exact hrc
    · have hk' : k'.isStar = false := by
        cases hs : k'.isStar with
        | false => rfl
        | true =>
          exfalso
          obtain ⟨typ, isAll, isBlack, all, fdA, fd, intA, ints, strA, strs⟩ := m
          cases k' <;> simp_all [PStep.isStar, Mask.kid]
      rw [Mask.kid_putKid c' hk hk'] at hkid
      simp only [h, ↓reduceIte] at hkid htk ⊢
      exact hrec k' c cu' hkid hcu' htk


def AllStar (s : PStep) (P : List APath) : Prop := ∀ p ∈ P, ∃ t, p = s :: t

/-- `cur.isAll = true` (the kid maps are `Reset()` too, a no-op on a node without kids) -/
def Mask.markAll (m : Mask) : Mask :=
  Mask.mk m.typ true m.isBlack m.all m.fdA m.fd m.intA m.ints m.strA m.strs

/-- a `Rep` node all of whose paths start with the star `s` is a `star` node -/
theorem Rep.star_inv {sch black d m P} {s : PStep} (h : Rep sch black d m P) (hs : s.isStar = true) (hP : AllStar s P) :
    m.isAll = true ∧ m.NoKids ∧ ∃ a cu, m.all = .some a ∧ stepCur sch m.typ d s = some cu ∧ a.typ = cu.1 ∧
      Rep sch black cu.2 a (P.map List.tail) := by
  cases h with
  | leaf ht hb hne hall hia hal hnk =>
    cases P with
    | nil => exact absurd rfl hne
    | cons p P' =>
      obtain ⟨t, h1⟩ := hP p (by simp)
      have := hall p (by simp)
      simp [h1] at this
  | star s' a cu ht hb hne hs' hall hia hal hnk hcu hat hr =>
    cases P with
    | nil => exact absurd rfl hne
    | cons p P' =>
      obtain ⟨t, h1⟩ := hP p (by simp)
      obtain ⟨t', h2⟩ := hall p (by simp)
      rw [h1] at h2
      simp at h2
      have : s' = s := h2.1.symm
      subst this
      exact ⟨hia, hnk, a, cu, hal, hcu, hat, hr⟩
  | spec ht hb hne hall hia hhc hfd hkind hnd hno hyes hrec =>
    cases P with
    | nil => exact absurd rfl hne
    | cons p P' =>
      obtain ⟨t, h1⟩ := hP p (by simp)
      obtain ⟨k, t', h2, hk⟩ := hall p (by simp)
      rw [h1] at h2
      simp at h2
      rw [← h2.1, hs] at hk
      simp at hk

theorem RepF.noKids_of_allStar {sch black d m P} {s : PStep} (hm : RepF sch black d m P) (hs : s.isStar = true)
    (hP : AllStar s P) : m.NoKids := by
  cases hm with
  | inl hf => exact hf.2.2.2.2
  | inr hr => exact (hr.star_inv hs hP).2.1

/-- the node `setAll` hands back represents the suffixes behind the star -/
theorem allChild_RepF {sch black d m P} {s : PStep} {cu : Ft × Ty} (hm : RepF sch black d m P)
    (hs : s.isStar = true) (hP : AllStar s P) (hcu : stepCur sch m.typ d s = some cu) :
    RepF sch black cu.2 (m.markAll.allChild cu.1) (P.map List.tail) ∧ (m.markAll.allChild cu.1).typ = cu.1 := by
  have hb := hm.isBlack_eq
  cases hm with
  | inl hf =>
    obtain ⟨rfl, _, hal, _, hnk⟩ := hf
    have : m.markAll.all = .none := by
      obtain ⟨typ, isAll, isBlack, all, fdA, fd, intA, ints, strA, strs⟩ := m
      exact hal
    simp only [Mask.allChild, this, List.map_nil]
    refine ⟨Or.inl ⟨rfl, rfl, rfl, ?_, rfl, rfl, rfl, rfl, rfl, rfl⟩, rfl⟩
    obtain ⟨typ, isAll, isBlack, all, fdA, fd, intA, ints, strA, strs⟩ := m
    exact hb
  | inr hr =>
    obtain ⟨_, _, a, cu', hal, hcu', hat, hra⟩ := hr.star_inv hs hP
    rw [hcu] at hcu'
    cases hcu'
    have : m.markAll.all = .some a := by
      obtain ⟨typ, isAll, isBlack, all, fdA, fd, intA, ints, strA, strs⟩ := m
      exact hal
    have hne : ¬ a.typ = .invalid := hra.typ_ne
    simp only [Mask.allChild, this, hne, ↓reduceIte]
    exact ⟨Or.inr hra, hat⟩

theorem map_tail_map_cons (s : PStep) (X : List APath) : (X.map (s :: ·)).map List.tail = X := by
  induction X with
  | nil => rfl
  | cons x X ih => simp only [List.map_cons, List.tail_cons, ih]

/-- putting back an `all` child that represents `tails P ++ X` makes the node represent `P ++ s::X` -/
theorem Rep_setAll {sch black d m P} {s : PStep} {c' : Mask} {cu : Ft × Ty} {X : List APath}
    (hm : RepF sch black d m P) (hs : s.isStar = true) (hP : AllStar s P) (ht : m.typ ≠ .invalid)
    (hcu : stepCur sch m.typ d s = some cu) (hct : c'.typ = cu.1)
    (hrc : Rep sch black cu.2 c' (P.map List.tail ++ X)) (hX : X ≠ []) :
    Rep sch black d (m.markAll.setAllM (.some c')) (P ++ X.map (s :: ·)) := by
  have hb := hm.isBlack_eq
  have hnk := hm.noKids_of_allStar hs hP
  obtain ⟨typ, isAll, isBlack, all, fdA, fd, intA, ints, strA, strs⟩ := m
  apply Rep.star s c' cu
  · exact ht
  · exact hb
  · cases X with
    | nil => exact absurd rfl hX
    | cons x X' => simp
  · exact hs
  · intro p hp
    rw [List.mem_append] at hp
    cases hp with
    | inl h => exact hP p h
    | inr h =>
      rw [List.mem_map] at h
      obtain ⟨x, _, rfl⟩ := h
      exact ⟨x, rfl⟩
  · rfl
  · rfl
  · exact hnk
  · exact hcu
  · exact hct
  · rw [List.map_append, map_tail_map_cons]; exact hrc

theorem Kids.reset_nil : Kids.reset .nil = .nil := by simp [Kids.reset]



/-! ## Part 2c: the `.` case -/

/-- what the branch lemmas assume about the recursive calls (the induction hypothesis) -/
structure RecOK (cfg : Sites) (sch : Schema) (black : Bool)
    (rec : Mask → Bytes → Ty → Res Mask) (srec : Ft → Ty → Bytes → Res ATree) : Prop where
  ne : ∀ ft d p A, srec ft d p = .ok A → A.expand ≠ []
  ins : ∀ m p d P A, RepF sch black d m P → srec m.typ d p = .ok A → (P ++ A.expand).Pairwise NC →
        ∃ m', rec m p d = .ok m' ∧ Rep sch black d m' (P ++ A.expand) ∧ m'.typ = ftAfter sch d m.typ

theorem liftO_eq_ok {α} {o : Option α} {a : α} : liftO o = .ok a ↔ o = some a := by
  cases o <;> simp [liftO]

theorem ftAfter_of_ne {sch : Schema} {d : Ty} {ft : Ft} (h : ft ≠ .invalid) : ftAfter sch d ft = ft := by
  simp [ftAfter, h]

theorem assoc_mem {α} {k : Bytes} {v : α} : ∀ {l : List (Bytes × α)}, assoc k l = some v → (k, v) ∈ l
  | [], h => by simp [assoc] at h
  | (k', v') :: r, h => by
    simp only [assoc] at h
    by_cases hk : k' = k
    · simp [hk] at h; subst h; subst hk; simp
    · simp [hk] at h; exact List.mem_cons_of_mem _ (assoc_mem h)

theorem fieldById_self {sch : Schema} (huniq : sch.uniqueIds = true) {d : Ty} {fs : List FieldD}
    (hso : sch.structOf d = some fs) {f : FieldD} (hf : f ∈ fs) : fieldById fs f.id = some f := by
  cases d with
  | named n =>
    simp only [Schema.structOf] at hso
    split at hso
    · simp at hso
    · have hmem := assoc_mem hso
      simp only [Schema.uniqueIds, List.all_eq_true] at huniq
      have := huniq _ hmem f hf
      simpa using this
  | list e => simp [Schema.structOf] at hso
  | map k v => simp [Schema.structOf] at hso

theorem allSpec_of_NC {P X : List APath} {k : PStep} (hk : k.isStar = false) (hX : X ≠ [])
    (h : (P ++ X.map (k :: ·)).Pairwise NC) : AllSpec P := by
  intro p hp
  cases X with
  | nil => exact absurd rfl hX
  | cons x X' =>
    rw [List.pairwise_append] at h
    exact NC_spec_right hk (h.2.2 p hp (k :: x) (by simp))

theorem RepF.isAll_false {sch black d m P} (hm : RepF sch black d m P) (hP : AllSpec P) : m.isAll = false := by
  cases hm with
  | inl hf => exact hf.2.1
  | inr hr => exact (hr.spec_inv hP).1

theorem pairwise_tails_new {P X : List APath} {k : PStep} (hk : k.isStar = false)
    (h : (P ++ X.map (k :: ·)).Pairwise NC) : (tailsOf k P ++ X).Pairwise NC := by
  have := pairwise_tailsOf hk h
  rwa [tailsOf_append, tailsOf_map_same] at this

theorem addViaField_ok {cfg : Sites} {sch : Schema} {black : Bool} {rec srec} (huniq : sch.uniqueIds = true)
    (hrec : RecOK cfg sch black rec srec) {m : Mask} {rest2 : Bytes} {d : Ty} {P : List APath} {A : ATree}
    {fs : List FieldD} {f : FieldD} (hm : RepF sch black d m P) (hso : sch.structOf d = some fs) (hf : f ∈ fs)
    (htyp : m.typ = .struct) (hsh : shViaField cfg sch srec rest2 f = .ok A) (hnc : (P ++ A.expand).Pairwise NC) :
    m.isAll = false ∧
    ∃ m', addViaField cfg sch rec m rest2 f = .ok m' ∧ Rep sch black d m' (P ++ A.expand) ∧ m'.typ = m.typ := by
  unfold shViaField at hsh
  rw [Res.bind_eq_ok] at hsh
  obtain ⟨d', hd', hsh⟩ := hsh
  rw [Res.bind_eq_ok] at hsh
  obtain ⟨ft', hft', hsh⟩ := hsh
  rw [Res.bind_eq_ok] at hsh
  obtain ⟨u, hsite, hsh⟩ := hsh
  split at hsh
  · simp at hsh
  · rename_i hinv
    rw [Res.bind_eq_ok] at hsh
    obtain ⟨t, ht, hA⟩ := hsh
    simp only [Res.ok.injEq] at hA
    subst hA
    have hX := hrec.ne _ _ _ _ ht
    have hk : (PStep.field f.id).isStar = false := rfl
    simp only [ATree.expand] at hnc ⊢
    have hP := allSpec_of_NC hk hX hnc
    have hb := hm.isBlack_eq
    have hcu : stepCur sch m.typ d (.field f.id) = some (ft', d') := by
      simp [stepCur, hso, fieldById_self huniq hso hf, liftO_eq_ok.mp hd', liftO_eq_ok.mp hft']
    obtain ⟨hcr, hct⟩ := child_RepF hm hP hk hcu
    have hchild : m.fd.child (.i f.id) ft' m.isBlack = m.kidChild (.field f.id) ft' black := by
      rw [hb]; rfl
    obtain ⟨c', hc', hrc', htc'⟩ := hrec.ins _ rest2 d' _ t hcr (by rw [hct]; exact ht) (pairwise_tails_new hk hnc)
    rw [hct, ftAfter_of_ne hinv] at htc'
    refine ⟨hm.isAll_false hP, m.putKid (.field f.id) c', ?_, ?_, Mask.putKid_typ _ _ _⟩
    · unfold addViaField
      simp only [hd', hft', hsite, Res.ok_bind, hchild, hc']
      rfl
    · exact Rep_putKid hm hP hk (by simp [htyp]) (by simp [kindOK, htyp]) hcu htc' hrc' hX


theorem nil_of_NC_anyField {P X : List APath} (hX : X ≠ [])
    (h : (P ++ X.map (PStep.anyField :: ·)).Pairwise NC) : P = [] := by
  cases P with
  | nil => rfl
  | cons p P' =>
    cases X with
    | nil => exact absurd rfl hX
    | cons x X' =>
      rw [List.pairwise_append] at h
      exact (NC_anyField_right (h.2.2 p (by simp) (.anyField :: x) (by simp))).elim

theorem pairwise_of_map_anyField {X : List APath} (h : (X.map (PStep.anyField :: ·)).Pairwise NC) :
    X.Pairwise NC := by
  cases X with
  | nil => exact List.Pairwise.nil
  | cons x X' =>
    cases X' with
    | nil => simp
    | cons y Y =>
      simp only [List.map_cons, List.pairwise_cons] at h
      exact (NC_anyField_right (h.1 (.anyField :: y) (by simp))).elim

theorem RepF.fresh_of_nil {sch black d m} (hm : RepF sch black d m []) : m.Fresh black := by
  cases hm with
  | inl hf => exact hf.2
  | inr hr => exact absurd rfl hr.ne_nil

theorem addFieldStar_ok {cfg : Sites} {sch : Schema} {black : Bool} {rec srec}
    (hrec : RecOK cfg sch black rec srec) {m : Mask} {rest2 : Bytes} {d : Ty} {P : List APath} {A : ATree}
    {fs : List FieldD} (hm : RepF sch black d m P) (hso : sch.structOf d = some fs)
    (htyp : m.typ = .struct) (hsh : shFieldStar sch srec rest2 d fs = .ok A) (hnc : (P ++ A.expand).Pairwise NC) :
    m.isAll = false ∧
    ∃ m', addFieldStar sch rec m rest2 d fs = .ok m' ∧ Rep sch black d m' (P ++ A.expand) ∧ m'.typ = m.typ := by
  unfold shFieldStar at hsh
  cases fs with
  | nil => simp at hsh
  | cons f0 fs' =>
    simp only at hsh
    rw [Res.bind_eq_ok] at hsh
    obtain ⟨ft', hft', hsh⟩ := hsh
    split at hsh
    · simp at hsh
    · rename_i hinv
      rw [Res.bind_eq_ok] at hsh
      obtain ⟨t, ht, hA⟩ := hsh
      simp only [Res.ok.injEq] at hA
      subst hA
      have hX := hrec.ne _ _ _ _ ht
      simp only [ATree.expand] at hnc ⊢
      have hPnil := nil_of_NC_anyField hX hnc
      subst hPnil
      have hfresh := hm.fresh_of_nil
      have hs : (PStep.anyField).isStar = true := rfl
      have hP : AllStar .anyField ([] : List APath) := by intro p hp; simp at hp
      have hcu : stepCur sch m.typ d .anyField = some (ft', d) := by
        simp [stepCur, hso, liftO_eq_ok.mp hft']
      obtain ⟨hcr, hct⟩ := allChild_RepF hm hs hP hcu
      have hcur1 : Mask.mk m.typ true m.isBlack m.all m.fdA m.fd.reset m.intA m.ints m.strA m.strs = m.markAll := by
        have := hfresh.2.2.2.1
        simp [Mask.markAll, this, Kids.reset]
      obtain ⟨c', hc', hrc', htc'⟩ := hrec.ins _ rest2 d _ t hcr (by rw [hct]; exact ht)
        (by simpa using pairwise_of_map_anyField (by simpa using hnc))
      rw [hct, ftAfter_of_ne hinv] at htc'
      refine ⟨hfresh.1, m.markAll.setAllM (.some c'), ?_, ?_, ?_⟩
      · unfold addFieldStar
        simp only [hcur1, hft', Res.ok_bind, hc']
      · exact Rep_setAll hm hs hP (by simp [htyp]) hcu htc' hrc' hX
      · obtain ⟨typ, isAll, isBlack, all, fdA, fd, intA, ints, strA, strs⟩ := m
        rfl


theorem Mask.allQ_struct {m : Mask} (h : m.typ = .struct) : m.allQ = m.isAll := by simp [Mask.allQ, h]
theorem Mask.allQ_list {m : Mask} (h : m.typ = .list) : m.allQ = m.isAll := by simp [Mask.allQ, h]

theorem addField_ok {cfg : Sites} {sch : Schema} {black : Bool} {rec srec} (huniq : sch.uniqueIds = true)
    (hrec : RecOK cfg sch black rec srec) {m : Mask} {rest : Bytes} {d : Ty} {P : List APath} {A : ATree}
    (hm : RepF sch black d m P) (hsh : shField cfg sch srec m.typ rest d = .ok A)
    (hnc : (P ++ A.expand).Pairwise NC) :
    ∃ m', addField cfg sch rec m rest d = .ok m' ∧ Rep sch black d m' (P ++ A.expand) ∧ m'.typ = m.typ := by
  unfold shField at hsh
  unfold addField
  cases hso : sch.structOf d with
  | none => simp [hso] at hsh
  | some fs =>
    simp only [hso] at hsh ⊢
    by_cases htyp : (m.typ != .struct) = true
    · simp [htyp] at hsh
    · simp only [htyp, Bool.false_eq_true, ↓reduceIte] at hsh ⊢
      have htyp' : m.typ = .struct := by simpa using htyp
      rw [Res.bind_eq_ok] at hsh
      obtain ⟨⟨tok, rest2⟩, hnext, hsh⟩ := hsh
      simp only [hnext, Res.ok_bind]
      simp only at hsh
      by_cases heof : tok = .eof
      · simp [heof] at hsh
      · simp only [heof, ↓reduceIte] at hsh ⊢
        rw [Mask.allQ_struct htyp']
        cases tok with
        | litInt n =>
          simp only at hsh ⊢
          rw [Res.bind_eq_ok] at hsh
          obtain ⟨id, hid, hsh⟩ := hsh
          cases hfb : fieldById fs id with
          | none => simp [hfb] at hsh
          | some f =>
            simp only [hfb] at hsh
            have hf : f ∈ fs := List.mem_of_find?_eq_some hfb
            obtain ⟨hia, m', h1, h2, h3⟩ := addViaField_ok huniq hrec hm hso hf htyp' hsh hnc
            simp only [hia, Bool.false_eq_true, ↓reduceIte, hid, Res.ok_bind, hfb]
            exact ⟨m', h1, h2, h3⟩
        | litStr name =>
          simp only at hsh ⊢
          cases hfb : fieldByName fs name with
          | none => simp [hfb] at hsh
          | some f =>
            simp only [hfb] at hsh
            have hf : f ∈ fs := List.mem_of_find?_eq_some hfb
            obtain ⟨hia, m', h1, h2, h3⟩ := addViaField_ok huniq hrec hm hso hf htyp' hsh hnc
            simp only [hia, Bool.false_eq_true, ↓reduceIte, hfb]
            exact ⟨m', h1, h2, h3⟩
        | any =>
          simp only at hsh ⊢
          obtain ⟨hia, m', h1, h2, h3⟩ := addFieldStar_ok hrec hm hso htyp' hsh hnc
          simp only [hia, Bool.false_eq_true, ↓reduceIte]
          exact ⟨m', h1, h2, h3⟩
        | eof => exact absurd rfl heof
        | _ => simp at hsh


/-! ## Part 2d: the scan loops -/

/-! scan loops -/

theorem scanIndex_props {cfg : Sites} : ∀ (fuel : Nat) (rest : Bytes) (all star empty : Bool) (ids : List Nat) (sc : SetScan),
    scanIndex cfg fuel rest all star empty ids = .ok sc →
    (∃ more, sc.ids = ids ++ more) ∧ (all = true → sc.all = true) ∧ (all = star → sc.all = sc.star) ∧ sc.strs = [] := by
  intro fuel
  induction fuel with
  | zero => intro rest all star empty ids sc h; simp [scanIndex] at h
  | succ f ih =>
    intro rest all star empty ids sc h
    rw [scanIndex] at h
    split at h
    · simp only [Res.ok.injEq] at h
      subst h
      exact ⟨⟨[], by simp⟩, fun h => h, fun h => h, rfl⟩
    · rw [Res.bind_eq_ok] at h
      obtain ⟨⟨tok, rest'⟩, hn, h⟩ := h
      simp only at h
      split at h
      · split at h
        · simp at h
        · simp only [Res.ok.injEq] at h
          subst h
          exact ⟨⟨[], by simp⟩, fun h => h, fun h => h, rfl⟩
      · exact ih _ _ _ _ _ _ h
      · obtain ⟨h1, h2, h3, h4⟩ := ih _ _ _ _ _ _ h
        exact ⟨h1, fun _ => h2 rfl, fun _ => h3 rfl, h4⟩
      · split at h
        · simp at h
        · rename_i hall
          obtain ⟨⟨more, h1⟩, h2, h3, h4⟩ := ih _ _ _ _ _ _ h
          exact ⟨⟨_, by rw [h1, List.append_assoc]⟩, h2, h3, h4⟩
      · simp at h
      · split at h <;> simp at h

/-- starting the index loop with `all = true` (the node already is "all") changes nothing when the
brackets hold no literal -/
theorem scanIndex_all {cfg : Sites} : ∀ (fuel : Nat) (rest : Bytes) (all star empty : Bool) (ids : List Nat) (sc : SetScan),
    scanIndex cfg fuel rest all star empty ids = .ok sc → sc.ids = [] →
    scanIndex cfg fuel rest true star empty ids = .ok { sc with all := true } := by
  intro fuel
  induction fuel with
  | zero => intro rest all star empty ids sc h; simp [scanIndex] at h
  | succ f ih =>
    intro rest all star empty ids sc h hids
    rw [scanIndex] at h ⊢
    split at h
    · rename_i hr
      simp only [Res.ok.injEq] at h
      subst h
      simp [hr]
    · rename_i hr
      simp only [hr, Bool.false_eq_true, ↓reduceIte]
      rw [Res.bind_eq_ok] at h
      obtain ⟨⟨tok, rest'⟩, hn, h⟩ := h
      simp only [hn, Res.ok_bind]
      simp only at h
      split at h
      · split at h
        · simp at h
        · rename_i he
          simp only [Res.ok.injEq] at h
          subst h
          simp [he]
      · exact ih _ _ _ _ _ _ h hids
      · have := (scanIndex_props _ _ _ _ _ _ _ h).2.1 rfl
        rw [h]
        cases sc
        simp_all
      · split at h
        · simp at h
        · obtain ⟨⟨more, h1⟩, _⟩ := scanIndex_props _ _ _ _ _ _ _ h
          rw [hids] at h1
          simp at h1
      · simp at h
      · split at h <;> simp at h


theorem scanKeys_props {cfg : Sites} {isInt isStr : Bool} : ∀ (fuel : Nat) (rest : Bytes) (all star empty : Bool)
    (ids : List Nat) (strs : List Bytes) (sc : SetScan),
    scanKeys cfg isInt isStr fuel rest all star empty ids strs = .ok sc →
    (∃ more, sc.ids = ids ++ more) ∧ (∃ more, sc.strs = strs ++ more) ∧ (all = true → sc.all = true) ∧
    (all = star → sc.all = sc.star) := by
  intro fuel
  induction fuel with
  | zero => intro rest all star empty ids strs sc h; simp [scanKeys] at h
  | succ f ih =>
    intro rest all star empty ids strs sc h
    rw [scanKeys] at h
    split at h
    · simp only [Res.ok.injEq] at h
      subst h
      exact ⟨⟨[], by simp⟩, ⟨[], by simp⟩, fun h => h, fun h => h⟩
    · rw [Res.bind_eq_ok] at h
      obtain ⟨⟨tok, rest'⟩, hn, h⟩ := h
      simp only at h
      split at h
      · split at h
        · simp at h
        · simp only [Res.ok.injEq] at h
          subst h
          exact ⟨⟨[], by simp⟩, ⟨[], by simp⟩, fun h => h, fun h => h⟩
      · exact ih _ _ _ _ _ _ _ h
      · obtain ⟨h1, h2, h3, h4⟩ := ih _ _ _ _ _ _ _ h
        exact ⟨h1, h2, fun _ => h3 rfl, fun _ => h4 rfl⟩
      · simp at h
      · split at h
        · simp at h
        · split at h
          · simp at h
          · obtain ⟨⟨more, h1⟩, h2, h3, h4⟩ := ih _ _ _ _ _ _ _ h
            exact ⟨⟨_, by rw [h1, List.append_assoc]⟩, h2, h3, h4⟩
      · split at h
        · simp at h
        · split at h
          · simp at h
          · obtain ⟨h1, ⟨more, h2⟩, h3, h4⟩ := ih _ _ _ _ _ _ _ h
            exact ⟨h1, ⟨_, by rw [h2, List.append_assoc]⟩, h3, h4⟩
      · split at h <;> simp at h

theorem scanKeys_all {cfg : Sites} {isInt isStr : Bool} : ∀ (fuel : Nat) (rest : Bytes) (all star empty : Bool)
    (ids : List Nat) (strs : List Bytes) (sc : SetScan),
    scanKeys cfg isInt isStr fuel rest all star empty ids strs = .ok sc → sc.ids = [] → sc.strs = [] →
    scanKeys cfg isInt isStr fuel rest true star empty ids strs = .ok { sc with all := true } := by
  intro fuel
  induction fuel with
  | zero => intro rest all star empty ids strs sc h; simp [scanKeys] at h
  | succ f ih =>
    intro rest all star empty ids strs sc h hids hstrs
    rw [scanKeys] at h ⊢
    split at h
    · rename_i hr
      simp only [Res.ok.injEq] at h
      subst h
      simp [hr]
    · rename_i hr
      simp only [hr, Bool.false_eq_true, ↓reduceIte]
      rw [Res.bind_eq_ok] at h
      obtain ⟨⟨tok, rest'⟩, hn, h⟩ := h
      simp only [hn, Res.ok_bind]
      simp only at h
      split at h
      · split at h
        · simp at h
        · rename_i he
          simp only [Res.ok.injEq] at h
          subst h
          simp [he]
      · exact ih _ _ _ _ _ _ _ h hids hstrs
      · have := (scanKeys_props _ _ _ _ _ _ _ _ h).2.2.1 rfl
        rw [h]
        cases sc
        simp_all
      · simp at h
      · split at h
        · simp at h
        · split at h
          · simp at h
          · obtain ⟨⟨more, h1⟩, _⟩ := scanKeys_props _ _ _ _ _ _ _ _ h
            rw [hids] at h1
            simp at h1
      · split at h
        · simp at h
        · split at h
          · simp at h
          · obtain ⟨_, ⟨more, h1⟩, _⟩ := scanKeys_props _ _ _ _ _ _ _ _ h
            rw [hstrs] at h1
            simp at h1
      · split at h <;> simp at h



/-! ## Part 2e: the `[` and `{` cases -/

/-- `forKeys` seen through `PStep`s -/
def forSteps (add : Mask → Res Mask) (ft : Ft) : List PStep → Mask → Res Mask
  | [], cur => .ok cur
  | k :: ks, cur => do
    let child := cur.kidChild k ft cur.isBlack
    let child' ← add child
    forSteps add ft ks (cur.putKid k child')

theorem forKeys_ints (add : Mask → Res Mask) (ft : Ft) : ∀ (ids : List Int) (cur : Mask),
    forKeys add ft (ids.map Key.i) cur Mask.ints Mask.setInts = forSteps add ft (ids.map PStep.idx) cur
  | [], cur => rfl
  | i :: ids, cur => by
    simp only [List.map_cons, forKeys, forSteps]
    congr 1
    funext c'
    exact forKeys_ints add ft ids _

theorem forKeys_strs (add : Mask → Res Mask) (ft : Ft) : ∀ (ks : List Bytes) (cur : Mask),
    forKeys add ft (ks.map Key.s) cur Mask.strs Mask.setStrs = forSteps add ft (ks.map PStep.key) cur
  | [], cur => rfl
  | i :: ids, cur => by
    simp only [List.map_cons, forKeys, forSteps]
    congr 1
    funext c'
    exact forKeys_strs add ft ids _

theorem RepF.of_rep {sch black d m P} (h : Rep sch black d m P) : RepF sch black d m P := Or.inr h

/-- one child per key, each receiving the same continuation `X` -/
theorem forSteps_ok {sch : Schema} {black : Bool} {d : Ty} {cu : Ft × Ty} {X : List APath} {add : Mask → Res Mask}
    (hX : X ≠ [])
    (hadd : ∀ c T, RepF sch black cu.2 c T → c.typ = cu.1 → (T ++ X).Pairwise NC →
        ∃ c', add c = .ok c' ∧ Rep sch black cu.2 c' (T ++ X) ∧ c'.typ = cu.1) :
    ∀ (ks : List PStep) (m : Mask) (P0 : List APath),
      (∀ k ∈ ks, k.isStar = false ∧ stepCur sch m.typ d k = some cu ∧ kindOK m.typ k = true) →
      RepF sch black d m P0 → AllSpec P0 → m.typ ≠ .invalid →
      (P0 ++ ks.flatMap (fun k => X.map (k :: ·))).Pairwise NC →
      ∃ m', forSteps add cu.1 ks m = .ok m' ∧ RepF sch black d m' (P0 ++ ks.flatMap (fun k => X.map (k :: ·))) ∧
        m'.typ = m.typ := by
  intro ks
  induction ks with
  | nil =>
    intro m P0 _ hm _ _ _
    exact ⟨m, rfl, by simpa using hm, rfl⟩
  | cons k ks ih =>
    intro m P0 hks hm hP0 ht hnc
    obtain ⟨hk, hcu, hkk⟩ := hks k (by simp)
    have hb := hm.isBlack_eq
    simp only [List.flatMap_cons] at hnc ⊢
    rw [← List.append_assoc] at hnc ⊢
    have hnc1 : (P0 ++ X.map (k :: ·)).Pairwise NC := (List.pairwise_append.mp hnc).1
    obtain ⟨hcr, hct⟩ := child_RepF hm hP0 hk hcu
    obtain ⟨c', hc', hrc', htc'⟩ := hadd _ _ hcr hct (pairwise_tails_new hk hnc1)
    have hr1 := Rep_putKid hm hP0 hk ht hkk hcu htc' hrc' hX
    have hP1 : AllSpec (P0 ++ X.map (k :: ·)) := by
      intro p hp
      rw [List.mem_append] at hp
      cases hp with
      | inl h => exact hP0 p h
      | inr h =>
        rw [List.mem_map] at h
        obtain ⟨x, _, rfl⟩ := h
        exact ⟨k, x, rfl, hk⟩
    obtain ⟨m', hm', hr', ht'⟩ := ih (m.putKid k c') _ (by
        intro k' hk'
        rw [Mask.putKid_typ]
        exact hks k' (by simp [hk'])) (RepF.of_rep hr1) hP1 (by rw [Mask.putKid_typ]; exact ht) hnc
    refine ⟨m', ?_, hr', by rw [ht', Mask.putKid_typ]⟩
    simp only [forSteps, hb, hc', Res.ok_bind]
    exact hm'


theorem allStar_of_NC {P X : List APath} (hX : X ≠ [])
    (h : (P ++ X.map (PStep.any :: ·)).Pairwise NC) : AllStar .any P := by
  intro p hp
  cases X with
  | nil => exact absurd rfl hX
  | cons x X' =>
    rw [List.pairwise_append] at h
    exact NC_any_right (h.2.2 p hp (.any :: x) (by simp))

theorem pairwise_tails_any {P X : List APath} (hP : AllStar .any P)
    (h : (P ++ X.map (PStep.any :: ·)).Pairwise NC) : (P.map List.tail ++ X).Pairwise NC := by
  have hall : ∀ p ∈ P ++ X.map (PStep.any :: ·), ∃ t, p = PStep.any :: t := by
    intro p hp
    rw [List.mem_append] at hp
    cases hp with
    | inl h => exact hP p h
    | inr h =>
      rw [List.mem_map] at h
      obtain ⟨x, _, rfl⟩ := h
      exact ⟨x, rfl⟩
  have := pairwise_map_tail_any hall h
  rwa [List.map_append, map_tail_map_cons] at this

theorem flatMap_ne_nil {α β} {l : List α} {f : α → List β} (hl : l ≠ []) (hf : ∀ a, f a ≠ []) : l.flatMap f ≠ [] := by
  cases l with
  | nil => exact absurd rfl hl
  | cons a l' =>
    simp only [List.flatMap_cons]
    intro h
    exact hf a (List.append_eq_nil_iff.mp h).1

/-- the `*` sub-case shared by `[*]` and `{*}`: mark the node, descend into `all` -/
theorem star_ok {cfg : Sites} {sch : Schema} {black : Bool} {rec srec}
    (hrec : RecOK cfg sch black rec srec) {m : Mask} {rest' : Bytes} {d et : Ty} {nextFt : Ft} {P : List APath} {t : ATree}
    (hm : RepF sch black d m P) (ht : m.typ ≠ .invalid) (hinv : nextFt ≠ .invalid)
    (hcu : stepCur sch m.typ d .any = some (nextFt, et))
    (hsr : srec nextFt et rest' = .ok t) (hnc : (P ++ t.expand.map (PStep.any :: ·)).Pairwise NC) :
    AllStar .any P ∧
    ∃ m', (do let child' ← rec (m.markAll.allChild nextFt) rest' et
              Res.ok (m.markAll.setAllM (.some child'))) = .ok m' ∧
      Rep sch black d m' (P ++ t.expand.map (PStep.any :: ·)) ∧ m'.typ = m.typ := by
  have hX := hrec.ne _ _ _ _ hsr
  have hP := allStar_of_NC hX hnc
  have hs : (PStep.any).isStar = true := rfl
  obtain ⟨hcr, hct⟩ := allChild_RepF hm hs hP hcu
  obtain ⟨c', hc', hrc', htc'⟩ := hrec.ins _ rest' et _ t hcr (by rw [hct]; exact hsr) (pairwise_tails_any hP hnc)
  rw [hct, ftAfter_of_ne hinv] at htc'
  refine ⟨hP, m.markAll.setAllM (.some c'), ?_, Rep_setAll hm hs hP ht hcu htc' hrc' hX, ?_⟩
  · simp only [hc', Res.ok_bind]
  · obtain ⟨typ, isAll, isBlack, all, fdA, fd, intA, ints, strA, strs⟩ := m
    rfl

theorem addIndex_ok {cfg : Sites} {sch : Schema} {black : Bool} {rec srec}
    (hrec : RecOK cfg sch black rec srec) {fuel : Nat} {m : Mask} {rest : Bytes} {d : Ty} {P : List APath} {A : ATree}
    (hm : RepF sch black d m P) (hsh : shIndex cfg sch fuel srec m.typ rest d = .ok A)
    (hnc : (P ++ A.expand).Pairwise NC) :
    ∃ m', addIndex cfg sch fuel rec m rest d = .ok m' ∧ Rep sch black d m' (P ++ A.expand) ∧ m'.typ = m.typ := by
  unfold shIndex at hsh
  unfold addIndex
  cases d with
  | named n => simp at hsh
  | map k v => simp at hsh
  | list e =>
    simp only at hsh ⊢
    by_cases htyp : (m.typ != .list) = true
    · simp [htyp] at hsh
    · simp only [htyp, Bool.false_eq_true, ↓reduceIte] at hsh ⊢
      have htyp' : m.typ = .list := by simpa using htyp
      have htne : m.typ ≠ .invalid := by simp [htyp']
      rw [Res.bind_eq_ok] at hsh
      obtain ⟨et, het, hsh⟩ := hsh
      rw [Res.bind_eq_ok] at hsh
      obtain ⟨nextFt, hnft, hsh⟩ := hsh
      simp only [het, hnft, Res.ok_bind]
      by_cases hinv : nextFt = .invalid
      · simp [hinv] at hsh
      · simp only [hinv, ↓reduceIte] at hsh ⊢
        rw [Res.bind_eq_ok] at hsh
        obtain ⟨sc, hsc, hsh⟩ := hsh
        obtain ⟨_, _, hallstar, _⟩ := scanIndex_props _ _ _ _ _ _ _ hsc
        have hallstar := hallstar rfl
        rw [Mask.allQ_list htyp']
        cases hstar : sc.star with
        | true =>
          simp only [hstar, ↓reduceIte] at hsh
          by_cases hids : sc.ids.isEmpty = true
          · simp only [hids, Bool.not_true, Bool.false_eq_true, ↓reduceIte] at hsh
            rw [Res.bind_eq_ok] at hsh
            obtain ⟨t, ht, hA⟩ := hsh
            simp only [Res.ok.injEq] at hA
            subst hA
            simp only [ATree.expand] at hnc ⊢
            have hcu : stepCur sch m.typ (.list e) .any = some (nextFt, et) := by
              simp [stepCur, liftO_eq_ok.mp het, liftO_eq_ok.mp hnft]
            obtain ⟨hP, m', hm', hr', ht'⟩ := star_ok hrec hm htne hinv hcu ht hnc
            have hnk := hm.noKids_of_allStar rfl hP
            -- the scan the code runs (it starts from `cur.All()`)
            have hscan : ∃ sc', scanIndex cfg fuel rest m.isAll false true [] = .ok sc' ∧
                sc'.star = true ∧ sc'.all = true ∧ sc'.rest = sc.rest := by
              cases hia : m.isAll with
              | false => exact ⟨sc, hsc, hstar, by rw [hallstar, hstar], rfl⟩
              | true => exact ⟨_, scanIndex_all _ _ _ _ _ _ _ hsc (by simpa using hids), hstar, rfl, rfl⟩
            obtain ⟨sc', hsc', hs1, hs2, hs3⟩ := hscan
            have hcur1 : Mask.mk m.typ true m.isBlack m.all m.fdA m.fd m.intA m.ints.reset m.strA m.strs = m.markAll := by
              simp [Mask.markAll, hnk.2.1, Kids.reset]
            simp only [hsc', Res.ok_bind, hs1, hs2, ↓reduceIte, hcur1, hs3]
            exact ⟨m', hm', hr', ht'⟩
          · simp [hids] at hsh
        | false =>
          simp only [hstar, Bool.false_eq_true, ↓reduceIte] at hsh
          by_cases hids : sc.ids.isEmpty = true
          · simp [hids] at hsh
          · simp only [hids, Bool.false_eq_true, ↓reduceIte] at hsh
            rw [Res.bind_eq_ok] at hsh
            obtain ⟨et', het', hsh⟩ := hsh
            rw [Res.bind_eq_ok] at hsh
            obtain ⟨t, ht, hA⟩ := hsh
            simp only [Res.ok.injEq] at hA
            subst hA
            have hX := hrec.ne _ _ _ _ ht
            have hidsne : sc.ids.map Int.ofNat ≠ [] := by
              intro h
              apply hids
              simpa using h
            have hexp : (ATree.ints (sc.ids.map Int.ofNat) t).expand =
                ((sc.ids.map Int.ofNat).map PStep.idx).flatMap (fun k => t.expand.map (k :: ·)) := by
              simp [ATree.expand, List.flatMap_map]
            rw [hexp] at hnc ⊢
            have hP : AllSpec P := by
              cases hl : sc.ids.map Int.ofNat with
              | nil => exact absurd hl hidsne
              | cons i is =>
                rw [hl] at hnc
                simp only [List.map_cons, List.flatMap_cons] at hnc
                rw [← List.append_assoc] at hnc
                exact allSpec_of_NC (k := .idx i) rfl hX (List.pairwise_append.mp hnc).1
            have hia := hm.isAll_false hP
            have hscall : sc.all = false := by rw [hallstar, hstar]
            have hcu : ∀ k ∈ (sc.ids.map Int.ofNat).map PStep.idx,
                k.isStar = false ∧ stepCur sch m.typ (.list e) k = some (nextFt, et') ∧ kindOK m.typ k = true := by
              intro k hk
              rw [List.mem_map] at hk
              obtain ⟨i, _, rfl⟩ := hk
              exact ⟨rfl, by simp [stepCur, liftO_eq_ok.mp het, liftO_eq_ok.mp hnft, liftO_eq_ok.mp het'], by simp [kindOK, htyp']⟩
            have hadd : ∀ c T, RepF sch black et' c T → c.typ = nextFt → (T ++ t.expand).Pairwise NC →
                ∃ c', (fun c => do let et' ← liftO (sch.unwrap et); rec c sc.rest et') c = .ok c' ∧
                  Rep sch black et' c' (T ++ t.expand) ∧ c'.typ = nextFt := by
              intro c T hc hct hpw
              obtain ⟨c', hc', hr', ht'⟩ := hrec.ins c sc.rest et' T t hc (by rw [hct]; exact ht) hpw
              rw [hct, ftAfter_of_ne hinv] at ht'
              exact ⟨c', by simp only [het', Res.ok_bind, hc'], hr', ht'⟩
            obtain ⟨m', hm', hr', ht'⟩ := forSteps_ok (cu := (nextFt, et')) hX hadd _ m P hcu hm hP htne hnc
            have hne : P ++ ((sc.ids.map Int.ofNat).map PStep.idx).flatMap (fun k => t.expand.map (k :: ·)) ≠ [] := by
              intro h
              have := (List.append_eq_nil_iff.mp h).2
              exact flatMap_ne_nil (by simpa using hidsne) (fun k => by simpa using hX) this
            simp only [hia, hsc, Res.ok_bind, hstar, hscall, Bool.false_eq_true, ↓reduceIte]
            have hkeys : sc.ids.map (fun n => Key.i (Int.ofNat n)) = (sc.ids.map Int.ofNat).map Key.i := by
              simp [List.map_map]
            rw [hkeys, forKeys_ints]
            exact ⟨m', hm', hr'.rep hne, ht'⟩


theorem Mask.allQ_intMap {m : Mask} (h : m.typ = .intMap) : m.allQ = m.isAll := by simp [Mask.allQ, h]
theorem Mask.allQ_strMap {m : Mask} (h : m.typ = .strMap) : m.allQ = m.isAll := by simp [Mask.allQ, h]
theorem Mask.allQ_scalar {m : Mask} (h : m.typ = .scalar) : m.allQ = true := by simp [Mask.allQ, h]

theorem addMap_ok {cfg : Sites} {sch : Schema} {black : Bool} {rec srec}
    (hrec : RecOK cfg sch black rec srec) {fuel : Nat} {m : Mask} {rest : Bytes} {d : Ty} {P : List APath} {A : ATree}
    (hm : RepF sch black d m P) (hsh : shMap cfg sch fuel srec m.typ rest d = .ok A)
    (hnc : (P ++ A.expand).Pairwise NC) :
    ∃ m', addMap cfg sch fuel rec m rest d = .ok m' ∧ Rep sch black d m' (P ++ A.expand) ∧ m'.typ = m.typ := by
  unfold shMap at hsh
  unfold addMap
  cases d with
  | named n => simp at hsh
  | list e => simp at hsh
  | map kt v =>
    simp only at hsh ⊢
    by_cases htyp : (m.typ != .intMap && m.typ != .strMap && m.typ != .scalar) = true
    · simp [htyp] at hsh
    · simp only [htyp, Bool.false_eq_true, ↓reduceIte] at hsh ⊢
      have htne : m.typ ≠ .invalid := by
        intro h; simp [h] at htyp
      rw [Res.bind_eq_ok] at hsh
      obtain ⟨et, het, hsh⟩ := hsh
      rw [Res.bind_eq_ok] at hsh
      obtain ⟨nextFt, hnft, hsh⟩ := hsh
      simp only [het, hnft, Res.ok_bind]
      by_cases hinv : nextFt = .invalid
      · simp [hinv] at hsh
      · simp only [hinv, ↓reduceIte] at hsh ⊢
        rw [Res.bind_eq_ok] at hsh
        obtain ⟨sc, hsc, hsh⟩ := hsh
        obtain ⟨_, _, hall1, hallstar⟩ := scanKeys_props _ _ _ _ _ _ _ _ hsc
        have hcuAny : stepCur sch m.typ (.map kt v) .any = some (nextFt, et) := by
          simp [stepCur, liftO_eq_ok.mp het, liftO_eq_ok.mp hnft]
        have hcur1 : m.NoKids → Mask.mk m.typ true m.isBlack m.all m.fdA m.fd m.intA m.ints.reset m.strA m.strs.reset = m.markAll := by
          intro hnk
          simp [Mask.markAll, hnk.2.1, hnk.2.2.1, Kids.reset]
        cases hstar : sc.star with
        | true =>
          simp only [hstar, ↓reduceIte] at hsh
          by_cases hids : (!sc.ids.isEmpty || !sc.strs.isEmpty) = true
          · simp [hids] at hsh
          · simp only [hids, Bool.false_eq_true, ↓reduceIte] at hsh
            have hids1 : sc.ids = [] := by
              cases h : sc.ids with
              | nil => rfl
              | cons a l => simp [h] at hids
            have hids2 : sc.strs = [] := by
              cases h : sc.strs with
              | nil => rfl
              | cons a l => simp [h] at hids
            rw [Res.bind_eq_ok] at hsh
            obtain ⟨t, ht, hA⟩ := hsh
            simp only [Res.ok.injEq] at hA
            subst hA
            simp only [ATree.expand] at hnc ⊢
            obtain ⟨hP, m', hm', hr', ht'⟩ := star_ok hrec hm htne hinv hcuAny ht hnc
            have hnk := hm.noKids_of_allStar rfl hP
            have hscan : ∃ sc', scanKeys cfg (m.typ == .intMap) (m.typ == .strMap) fuel rest m.allQ false true [] [] = .ok sc' ∧
                sc'.star = true ∧ sc'.all = true ∧ sc'.rest = sc.rest := by
              by_cases hsca : m.typ = .scalar
              · rw [Mask.allQ_scalar hsca]
                simp only [hsca] at hsc
                exact ⟨sc, by simpa [hsca] using hsc, hstar, hall1 (by simp [hsca]), rfl⟩
              · have hne : (m.typ == .scalar) = false := by simpa using hsca
                rw [hne] at hsc
                have hq : m.allQ = m.isAll := by
                  have : m.typ = .intMap ∨ m.typ = .strMap := by
                    cases hm' : m.typ <;> simp_all
                  cases this with
                  | inl h => exact Mask.allQ_intMap h
                  | inr h => exact Mask.allQ_strMap h
                rw [hq]
                cases hia : m.isAll with
                | false => exact ⟨sc, hsc, hstar, by rw [hallstar (by simp [hne]), hstar], rfl⟩
                | true => exact ⟨_, scanKeys_all _ _ _ _ _ _ _ _ hsc hids1 hids2, hstar, rfl, rfl⟩
            obtain ⟨sc', hsc', hs1, hs2, hs3⟩ := hscan
            simp only [hsc', Res.ok_bind, hs1, hs2, ↓reduceIte, hcur1 hnk, hs3]
            exact ⟨m', hm', hr', ht'⟩
        | false =>
          simp only [hstar, Bool.false_eq_true, ↓reduceIte] at hsh
          by_cases hsca : (m.typ == .scalar) = true
          · simp [hsca] at hsh
          · simp only [hsca, Bool.false_eq_true, ↓reduceIte] at hsh
            have hne : (m.typ == .scalar) = false := by simpa using hsca
            rw [hne] at hsc
            have hscall : sc.all = false := by rw [hallstar (by simp [hne]), hstar]
            rw [Res.bind_eq_ok] at hsh
            obtain ⟨et', het', hsh⟩ := hsh
            rw [Res.bind_eq_ok] at hsh
            obtain ⟨t, ht, hsh⟩ := hsh
            have hX := hrec.ne _ _ _ _ ht
            have hadd : ∀ c T, RepF sch black et' c T → c.typ = nextFt → (T ++ t.expand).Pairwise NC →
                ∃ c', (fun c => do let et' ← liftO (sch.unwrap et); rec c sc.rest et') c = .ok c' ∧
                  Rep sch black et' c' (T ++ t.expand) ∧ c'.typ = nextFt := by
              intro c T hc hct hpw
              obtain ⟨c', hc', hr', ht'⟩ := hrec.ins c sc.rest et' T t hc (by rw [hct]; exact ht) hpw
              rw [hct, ftAfter_of_ne hinv] at ht'
              exact ⟨c', by simp only [het', Res.ok_bind, hc'], hr', ht'⟩
            have hq : m.allQ = m.isAll := by
              have : m.typ = .intMap ∨ m.typ = .strMap := by
                cases hm' : m.typ <;> simp_all
              cases this with
              | inl h => exact Mask.allQ_intMap h
              | inr h => exact Mask.allQ_strMap h
            rw [hq]
            by_cases hint : (m.typ == .intMap) = true
            · simp only [hint, ↓reduceIte] at hsh ⊢
              by_cases hids : sc.ids.isEmpty = true
              · simp [hids] at hsh
              · simp only [hids, Bool.false_eq_true, ↓reduceIte, Res.ok.injEq] at hsh
                subst hsh
                have hidsne : sc.ids.map Int.ofNat ≠ [] := by
                  intro h; apply hids; simpa using h
                have hexp : (ATree.ints (sc.ids.map Int.ofNat) t).expand =
                    ((sc.ids.map Int.ofNat).map PStep.idx).flatMap (fun k => t.expand.map (k :: ·)) := by
                  simp [ATree.expand, List.flatMap_map]
                rw [hexp] at hnc ⊢
                have hP : AllSpec P := by
                  cases hl : sc.ids.map Int.ofNat with
                  | nil => exact absurd hl hidsne
                  | cons i is =>
                    rw [hl] at hnc
                    simp only [List.map_cons, List.flatMap_cons] at hnc
                    rw [← List.append_assoc] at hnc
                    exact allSpec_of_NC (k := .idx i) rfl hX (List.pairwise_append.mp hnc).1
                have hia := hm.isAll_false hP
                have hcu : ∀ k ∈ (sc.ids.map Int.ofNat).map PStep.idx,
                    k.isStar = false ∧ stepCur sch m.typ (.map kt v) k = some (nextFt, et') ∧ kindOK m.typ k = true := by
                  intro k hk
                  rw [List.mem_map] at hk
                  obtain ⟨i, _, rfl⟩ := hk
                  exact ⟨rfl, by simp [stepCur, liftO_eq_ok.mp het, liftO_eq_ok.mp hnft, liftO_eq_ok.mp het'], by have h9 := hint; simp at h9; simp [kindOK, h9]⟩
                obtain ⟨m', hm', hr', ht'⟩ := forSteps_ok (cu := (nextFt, et')) hX hadd _ m P hcu hm hP htne hnc
                have hne' : P ++ ((sc.ids.map Int.ofNat).map PStep.idx).flatMap (fun k => t.expand.map (k :: ·)) ≠ [] := by
                  intro h
                  have := (List.append_eq_nil_iff.mp h).2
                  exact flatMap_ne_nil (by simpa using hidsne) (fun k => by simpa using hX) this
                rw [hint] at hsc
                simp only [hia, hsc, Res.ok_bind, hstar, hscall, Bool.false_eq_true, ↓reduceIte]
                have hkeys : sc.ids.map (fun n => Key.i (Int.ofNat n)) = (sc.ids.map Int.ofNat).map Key.i := by
                  simp [List.map_map]
                rw [hkeys, forKeys_ints]
                exact ⟨m', hm', hr'.rep hne', ht'⟩
            · simp only [hint, Bool.false_eq_true, ↓reduceIte] at hsh ⊢
              have hstr : (m.typ == .strMap) = true := by
                cases hm' : m.typ <;> simp_all
              by_cases hids : sc.strs.isEmpty = true
              · simp [hids] at hsh
              · simp only [hids, Bool.false_eq_true, ↓reduceIte, Res.ok.injEq] at hsh
                subst hsh
                have hidsne : sc.strs ≠ [] := by
                  intro h; apply hids; simp [h]
                have hexp : (ATree.strs sc.strs t).expand =
                    (sc.strs.map PStep.key).flatMap (fun k => t.expand.map (k :: ·)) := by
                  simp [ATree.expand, List.flatMap_map]
                rw [hexp] at hnc ⊢
                have hP : AllSpec P := by
                  cases hl : sc.strs with
                  | nil => exact absurd hl hidsne
                  | cons i is =>
                    rw [hl] at hnc
                    simp only [List.map_cons, List.flatMap_cons] at hnc
                    rw [← List.append_assoc] at hnc
                    exact allSpec_of_NC (k := .key i) rfl hX (List.pairwise_append.mp hnc).1
                have hia := hm.isAll_false hP
                have hcu : ∀ k ∈ sc.strs.map PStep.key,
                    k.isStar = false ∧ stepCur sch m.typ (.map kt v) k = some (nextFt, et') ∧ kindOK m.typ k = true := by
                  intro k hk
                  rw [List.mem_map] at hk
                  obtain ⟨i, _, rfl⟩ := hk
                  exact ⟨rfl, by simp [stepCur, liftO_eq_ok.mp het, liftO_eq_ok.mp hnft, liftO_eq_ok.mp het'], by have h9 := hstr; simp at h9; simp [kindOK, h9]⟩
                obtain ⟨m', hm', hr', ht'⟩ := forSteps_ok (cu := (nextFt, et')) hX hadd _ m P hcu hm hP htne hnc
                have hne' : P ++ (sc.strs.map PStep.key).flatMap (fun k => t.expand.map (k :: ·)) ≠ [] := by
                  intro h
                  have := (List.append_eq_nil_iff.mp h).2
                  exact flatMap_ne_nil (by simpa using hidsne) (fun k => by simpa using hX) this
                have hint' : (m.typ == .intMap) = false := by simpa using hint
                rw [hint', hstr] at hsc
                simp only [hia, hsc, Res.ok_bind, hstar, hscall, Bool.false_eq_true, ↓reduceIte, hstr]
                rw [forKeys_strs]
                exact ⟨m', hm', hr'.rep hne', ht'⟩



/-! ## Part 2f: the token loop -/

theorem map_cons_ne_nil {X : List APath} (k : PStep) (h : X ≠ []) : X.map (k :: ·) ≠ [] := by
  cases X with
  | nil => exact absurd rfl h
  | cons x X' => simp

theorem shField_ne {cfg : Sites} {sch : Schema} {srec : Ft → Ty → Bytes → Res ATree}
    (hne : ∀ ft d p A, srec ft d p = .ok A → A.expand ≠ []) {ft rest d A}
    (h : shField cfg sch srec ft rest d = .ok A) : A.expand ≠ [] := by
  have via : ∀ rest2 f A, shViaField cfg sch srec rest2 f = .ok A → A.expand ≠ [] := by
    intro rest2 f A h
    unfold shViaField at h
    rw [Res.bind_eq_ok] at h; obtain ⟨_, _, h⟩ := h
    rw [Res.bind_eq_ok] at h; obtain ⟨_, _, h⟩ := h
    rw [Res.bind_eq_ok] at h; obtain ⟨_, _, h⟩ := h
    split at h
    · simp at h
    · rw [Res.bind_eq_ok] at h; obtain ⟨t, ht, h⟩ := h
      simp only [Res.ok.injEq] at h; subst h
      exact map_cons_ne_nil _ (hne _ _ _ _ ht)
  unfold shField at h
  split at h
  · simp at h
  · split at h
    · simp at h
    · rw [Res.bind_eq_ok] at h
      obtain ⟨⟨tok, rest2⟩, _, h⟩ := h
      simp only at h
      split at h
      · simp at h
      · split at h
        · rw [Res.bind_eq_ok] at h; obtain ⟨_, _, h⟩ := h
          split at h
          · simp at h
          · exact via _ _ _ h
        · split at h
          · simp at h
          · exact via _ _ _ h
        · unfold shFieldStar at h
          split at h
          · simp at h
          · rw [Res.bind_eq_ok] at h; obtain ⟨_, _, h⟩ := h
            split at h
            · simp at h
            · rw [Res.bind_eq_ok] at h; obtain ⟨t, ht, h⟩ := h
              simp only [Res.ok.injEq] at h; subst h
              exact map_cons_ne_nil _ (hne _ _ _ _ ht)
        · simp at h

theorem expand_ints_ne {ids : List Int} {t : ATree} (hi : ids ≠ []) (ht : t.expand ≠ []) :
    (ATree.ints ids t).expand ≠ [] := by
  simp only [ATree.expand]
  exact flatMap_ne_nil hi (fun i => map_cons_ne_nil _ ht)

theorem expand_strs_ne {ks : List Bytes} {t : ATree} (hi : ks ≠ []) (ht : t.expand ≠ []) :
    (ATree.strs ks t).expand ≠ [] := by
  simp only [ATree.expand]
  exact flatMap_ne_nil hi (fun i => map_cons_ne_nil _ ht)

theorem shIndex_ne {cfg : Sites} {sch : Schema} {fuel : Nat} {srec : Ft → Ty → Bytes → Res ATree}
    (hne : ∀ ft d p A, srec ft d p = .ok A → A.expand ≠ []) {ft rest d A}
    (h : shIndex cfg sch fuel srec ft rest d = .ok A) : A.expand ≠ [] := by
  unfold shIndex at h
  split at h
  · split at h
    · simp at h
    · rw [Res.bind_eq_ok] at h; obtain ⟨_, _, h⟩ := h
      rw [Res.bind_eq_ok] at h; obtain ⟨_, _, h⟩ := h
      split at h
      · simp at h
      · rw [Res.bind_eq_ok] at h; obtain ⟨sc, _, h⟩ := h
        split at h
        · split at h
          · simp at h
          · rw [Res.bind_eq_ok] at h; obtain ⟨t, ht, h⟩ := h
            simp only [Res.ok.injEq] at h; subst h
            exact map_cons_ne_nil _ (hne _ _ _ _ ht)
        · split at h
          · simp at h
          · rename_i hids
            rw [Res.bind_eq_ok] at h; obtain ⟨_, _, h⟩ := h
            rw [Res.bind_eq_ok] at h; obtain ⟨t, ht, h⟩ := h
            simp only [Res.ok.injEq] at h; subst h
            exact expand_ints_ne (by intro h; apply hids; simpa using h) (hne _ _ _ _ ht)
  · simp at h

theorem shMap_ne {cfg : Sites} {sch : Schema} {fuel : Nat} {srec : Ft → Ty → Bytes → Res ATree}
    (hne : ∀ ft d p A, srec ft d p = .ok A → A.expand ≠ []) {ft rest d A}
    (h : shMap cfg sch fuel srec ft rest d = .ok A) : A.expand ≠ [] := by
  unfold shMap at h
  split at h
  · split at h
    · simp at h
    · rw [Res.bind_eq_ok] at h; obtain ⟨_, _, h⟩ := h
      rw [Res.bind_eq_ok] at h; obtain ⟨_, _, h⟩ := h
      split at h
      · simp at h
      · simp only at h
        rw [Res.bind_eq_ok] at h; obtain ⟨sc, _, h⟩ := h
        split at h
        · split at h
          · simp at h
          · rw [Res.bind_eq_ok] at h; obtain ⟨t, ht, h⟩ := h
            simp only [Res.ok.injEq] at h; subst h
            exact map_cons_ne_nil _ (hne _ _ _ _ ht)
        · split at h
          · simp at h
          · rw [Res.bind_eq_ok] at h; obtain ⟨_, _, h⟩ := h
            rw [Res.bind_eq_ok] at h; obtain ⟨t, ht, h⟩ := h
            split at h
            · split at h
              · simp at h
              · rename_i hids
                simp only [Res.ok.injEq] at h; subst h
                exact expand_ints_ne (by intro h; apply hids; simpa using h) (hne _ _ _ _ ht)
            · split at h
              · simp at h
              · rename_i hids
                simp only [Res.ok.injEq] at h; subst h
                exact expand_strs_ne (by intro h; apply hids; simp [h]) (hne _ _ _ _ ht)
  · simp at h


theorem Mask.setIsAll_of_isAll {m : Mask} (h : m.isAll = true) : m.setIsAll true = m := by
  obtain ⟨typ, isAll, isBlack, all, fdA, fd, intA, ints, strA, strs⟩ := m
  simp only [Mask.isAll] at h
  subst h
  rfl

theorem Mask.setTyp_self (m : Mask) : m.setTyp m.typ = m := by
  obtain ⟨typ, isAll, isBlack, all, fdA, fd, intA, ints, strA, strs⟩ := m
  rfl

/-- end of path: `cur.isAll = true` -/
theorem leaf_ok {sch : Schema} {black : Bool} {m : Mask} {d : Ty} {P : List APath}
    (hm : RepF sch black d m P) (ht : m.typ ≠ .invalid) (hnc : (P ++ [[]]).Pairwise NC) :
    Rep sch black d (m.setIsAll true) (P ++ [[]]) := by
  have hall : ∀ p ∈ P, p = [] := by
    intro p hp
    rw [List.pairwise_append] at hnc
    exact NC_nil_right (hnc.2.2 p hp [] (by simp))
  have hall' : ∀ p ∈ P ++ [[]], p = [] := by
    intro p hp
    rw [List.mem_append] at hp
    cases hp with
    | inl h => exact hall p h
    | inr h => simpa using h
  cases hm with
  | inl hf =>
    obtain ⟨rfl, _, hal, hb, hnk⟩ := hf
    obtain ⟨typ, isAll, isBlack, all, fdA, fd, intA, ints, strA, strs⟩ := m
    exact Rep.leaf ht hb (by simp) hall' rfl hal hnk
  | inr hr =>
    cases hr with
    | leaf ht hb hne _ hia hal hnk =>
      rw [Mask.setIsAll_of_isAll hia]
      exact Rep.leaf ht hb (by simp) hall' hia hal hnk
    | star s a cu ht hb hne hs hall2 hia hal hnk hcu hat hr =>
      cases P with
      | nil => exact absurd rfl hne
      | cons p P' =>
        obtain ⟨t, h1⟩ := hall2 p (by simp)
        have := hall p (by simp)
        simp [h1] at this
    | spec ht hb hne hall2 hia hhc hfd hkind hnd hno hyes hrec =>
      cases P with
      | nil => exact absurd rfl hne
      | cons p P' =>
        obtain ⟨k, t, h1, _⟩ := hall2 p (by simp)
        have := hall p (by simp)
        simp [h1] at this

/-- a node at which a complete path may end without conflict has nothing below it -/
theorem leaf_shape {sch : Schema} {black : Bool} {m : Mask} {d : Ty} {P : List APath}
    (hm : RepF sch black d m P) (hnc : (P ++ [[]]).Pairwise NC) :
    m.all = .none ∧ m.NoKids := by
  have hall : ∀ p ∈ P, p = [] := by
    intro p hp
    rw [List.pairwise_append] at hnc
    exact NC_nil_right (hnc.2.2 p hp [] (by simp))
  have hall' : ∀ p ∈ P ++ [[]], p = [] := by
    intro p hp
    rw [List.mem_append] at hp
    cases hp with
    | inl h => exact hall p h
    | inr h => simpa using h
  cases hm with
  | inl hf =>
    obtain ⟨rfl, _, hal, hb, hnk⟩ := hf
    obtain ⟨typ, isAll, isBlack, all, fdA, fd, intA, ints, strA, strs⟩ := m
    exact ⟨hal, hnk⟩
  | inr hr =>
    cases hr with
    | leaf ht hb hne _ hia hal hnk =>
      exact ⟨hal, hnk⟩
    | star s a cu ht hb hne hs hall2 hia hal hnk hcu hat hr =>
      cases P with
      | nil => exact absurd rfl hne
      | cons p P' =>
        obtain ⟨t, h1⟩ := hall2 p (by simp)
        have := hall p (by simp)
        simp [h1] at this
    | spec ht hb hne hall2 hia hhc hfd hkind hnd hno hyes hrec =>
      cases P with
      | nil => exact absurd rfl hne
      | cons p P' =>
        obtain ⟨k, t, h1, _⟩ := hall2 p (by simp)
        have := hall p (by simp)
        simp [h1] at this


theorem Mask.endPath_eq {m : Mask} (cfg : Sites) (hal : m.all = .none) (hnk : m.NoKids) :
    m.endPath cfg = m.setIsAll true := by
  obtain ⟨typ, isAll, isBlack, all, fdA, fd, intA, ints, strA, strs⟩ := m
  obtain ⟨h1, h2, h3, h4, h5, h6⟩ := hnk
  simp only [Mask.all, Mask.fd, Mask.ints, Mask.strs, Mask.fdA, Mask.intA, Mask.strA] at hal h1 h2 h3 h4 h5 h6
  subst hal h1 h2 h3 h4 h5 h6
  unfold Mask.endPath
  split <;> rfl

/-- end of path, for either behaviour of `prefixKeeps`: without conflict there is nothing to drop -/
theorem leaf_ok' {sch : Schema} {black : Bool} {m : Mask} {d : Ty} {P : List APath} (cfg : Sites)
    (hm : RepF sch black d m P) (ht : m.typ ≠ .invalid) (hnc : (P ++ [[]]).Pairwise NC) :
    Rep sch black d (m.endPath cfg) (P ++ [[]]) := by
  obtain ⟨hal, hnk⟩ := leaf_shape hm hnc
  rw [Mask.endPath_eq cfg hal hnk]
  exact leaf_ok hm ht hnc

/-- **the token loop establishes the representation invariant** for the meaning `shadow` gives to the path -/
theorem addLoop_recOK {cfg : Sites} {sch : Schema} {black : Bool} (huniq : sch.uniqueIds = true) :
    ∀ fuel, RecOK cfg sch black (addLoop cfg sch fuel) (shadow cfg sch fuel) := by
  intro fuel
  induction fuel with
  | zero =>
    constructor
    · intro ft d p A h; simp [shadow] at h
    · intro m p d P A _ h; simp [shadow] at h
  | succ f ih =>
    constructor
    · intro ft d p A h
      rw [shadow] at h
      split at h
      · split at h
        · simp at h
        · simp only [Res.ok.injEq] at h; subst h; simp [ATree.expand]
      · rw [Res.bind_eq_ok] at h
        obtain ⟨⟨stok, rest⟩, _, h⟩ := h
        simp only at h
        split at h
        · simp at h
        · rw [Res.bind_eq_ok] at h; obtain ⟨_, _, h⟩ := h
          split at h
          · simp at h
          · exact ih.ne _ _ _ _ h
        · exact shField_ne ih.ne h
        · exact shIndex_ne ih.ne h
        · exact shMap_ne ih.ne h
        · simp at h
    · intro m p d P A hm hsh hnc
      rw [shadow] at hsh
      rw [addLoop]
      by_cases hp : p.isEmpty = true
      · simp only [hp, ↓reduceIte] at hsh ⊢
        split at hsh
        · simp at hsh
        · rename_i ht
          simp only [Res.ok.injEq] at hsh; subst hsh
          refine ⟨_, rfl, leaf_ok' cfg hm ht (by simpa [ATree.expand] using hnc), ?_⟩
          rw [ftAfter_of_ne ht]
          obtain ⟨typ, isAll, isBlack, all, fdA, fd, intA, ints, strA, strs⟩ := m
          unfold Mask.endPath
          split <;> rfl
      · simp only [hp, Bool.false_eq_true, ↓reduceIte] at hsh ⊢
        rw [Res.bind_eq_ok] at hsh
        obtain ⟨⟨stok, rest⟩, hnext, hsh⟩ := hsh
        simp only [hnext, Res.ok_bind]
        simp only at hsh
        cases stok with
        | root =>
          simp only at hsh ⊢
          rw [Res.bind_eq_ok] at hsh
          obtain ⟨ft', hft', hsh⟩ := hsh
          simp only [hft', Res.ok_bind]
          split at hsh
          · simp at hsh
          · rename_i hcond
            have hm' : RepF sch black d (m.setTyp ft') P := by
              cases hm with
              | inl hf =>
                left
                obtain ⟨typ, isAll, isBlack, all, fdA, fd, intA, ints, strA, strs⟩ := m
                exact hf
              | inr hr =>
                right
                have h1 := hr.typ_ne
                have : m.typ = ft' := by
                  by_cases h : m.typ = ft'
                  · exact h
                  · exact absurd ⟨h1, h⟩ hcond
                rw [← this, Mask.setTyp_self]
                exact hr
            have htyp : (m.setTyp ft').typ = ft' := by
              obtain ⟨typ, isAll, isBlack, all, fdA, fd, intA, ints, strA, strs⟩ := m
              rfl
            obtain ⟨m', h1, h2, h3⟩ := ih.ins _ rest d P A hm' (by rw [htyp]; exact hsh) hnc
            refine ⟨m', h1, h2, ?_⟩
            rw [h3, htyp]
            have hsw : sch.switchFt d = some ft' := liftO_eq_ok.mp hft'
            by_cases hinv : m.typ = .invalid
            · simp [ftAfter, hinv, hsw]
            · have : m.typ = ft' := by
                by_cases h : m.typ = ft'
                · exact h
                · exact absurd ⟨hinv, h⟩ hcond
              rw [this]
        | field =>
          simp only at hsh ⊢
          obtain ⟨m', h1, h2, h3⟩ := addField_ok huniq ih hm hsh hnc
          refine ⟨m', h1, h2, ?_⟩
          rw [h3, ftAfter_of_ne (by rw [← h3]; exact h2.typ_ne)]
        | indexL =>
          simp only at hsh ⊢
          obtain ⟨m', h1, h2, h3⟩ := addIndex_ok ih hm hsh hnc
          refine ⟨m', h1, h2, ?_⟩
          rw [h3, ftAfter_of_ne (by rw [← h3]; exact h2.typ_ne)]
        | mapL =>
          simp only at hsh ⊢
          obtain ⟨m', h1, h2, h3⟩ := addMap_ok ih hm hsh hnc
          refine ⟨m', h1, h2, ?_⟩
          rw [h3, ftAfter_of_ne (by rw [← h3]; exact h2.typ_ne)]
        | _ => simp at hsh



/-! ## Part 2g: NewFieldMask -/

theorem expandAll_cons (t : ATree) (ts : List ATree) : expandAll (t :: ts) = t.expand ++ expandAll ts := by
  simp [expandAll]

/-- NewFieldMask's loop over the path strings -/
theorem newMask_rep {cfg : Sites} {sch : Schema} {black : Bool} (huniq : sch.uniqueIds = true)
    {desc d : Ty} (hd : sch.unwrap desc = some d) :
    ∀ (paths : List Bytes) (m : Mask) (P : List APath) (ts : List ATree),
      RepF sch black d m P → pathsMeaning cfg sch d m.typ paths = .ok ts →
      (P ++ expandAll ts).Pairwise NC →
      ∃ m', newMask cfg sch desc black paths m = .ok m' ∧ RepF sch black d m' (P ++ expandAll ts) := by
  intro paths
  induction paths with
  | nil =>
    intro m P ts hm hmean _
    simp only [pathsMeaning, Res.ok.injEq] at hmean
    subst hmean
    exact ⟨m, rfl, by simpa [expandAll] using hm⟩
  | cons p ps ih =>
    intro m P ts hm hmean hnc
    simp only [pathsMeaning] at hmean
    rw [Res.bind_eq_ok] at hmean
    obtain ⟨t, ht, hmean⟩ := hmean
    rw [Res.bind_eq_ok] at hmean
    obtain ⟨ts', hts', hmean⟩ := hmean
    simp only [Res.ok.injEq] at hmean
    subst hmean
    rw [expandAll_cons, ← List.append_assoc] at hnc ⊢
    obtain ⟨m1, h1, h2, h3⟩ := (addLoop_recOK (cfg := cfg) (black := black) huniq (p.length + 1)).ins m p d P t hm ht
      (List.pairwise_append.mp hnc).1
    obtain ⟨m', h4, h5⟩ := ih m1 _ ts' (Or.inr h2) (by rw [h3]; exact hts') hnc
    refine ⟨m', ?_, h5⟩
    simp only [newMask, addPath, hd, liftO, Res.ok_bind, h1]
    exact h4

theorem Mask.zero_fresh (black : Bool) : (Mask.zero.setIsBlack black).Fresh black :=
  ⟨rfl, rfl, rfl, rfl, rfl, rfl, rfl, rfl, rfl⟩

theorem Sel_eq_SelN {black : Bool} {P : List APath} (h : P ≠ []) (q : List QStep) : Sel black P q = SelN black P q := by
  unfold Sel SelN
  cases black with
  | true => rfl
  | false =>
    cases P with
    | nil => exact absurd rfl h
    | cons p P' => simp

theorem walk_untyped {cfg : Sites} {m : Mask} (h : m.typ = .invalid) (q : List QStep) :
    walk cfg (.some m) q = .ok true := by
  cases q with
  | nil => rfl
  | cons s qs =>
    simp only [walk, query, h, ↓reduceIte, Res.ok_bind, walk_none]



/-! ## Part 3: every panic has a concrete cause in the input -/

theorem litSpan_suffix : ∀ (l : Bytes), (litSpan l).2 <:+ l
  | [] => by simp [litSpan]
  | c :: r => by
    simp only [litSpan]
    split
    · exact List.suffix_refl _
    · exact (litSpan_suffix r).trans (List.suffix_cons c r)

theorem Res.bind_eq_panic {α β} {x : Res α} {f : α → Res β} {s : Site} :
    (x >>= f) = .panic s ↔ x = .panic s ∨ ∃ a, x = .ok a ∧ f a = .panic s := by
  cases x <;> simp

/-- the unread suffix only shrinks -/
theorem next_suffix {cfg : Sites} {p r : Bytes} {t : Tok} (h : next cfg p = .ok (t, r)) : r <:+ p := by
  cases p with
  | nil =>
    simp only [next, Res.ok.injEq, Prod.mk.injEq] at h
    rw [← h.2]
    exact List.suffix_refl _
  | cons c r0 =>
    have hc : r0 <:+ c :: r0 := List.suffix_cons c r0
    rw [next] at h
    split at h
    · simp only [Res.ok.injEq, Prod.mk.injEq] at h; rw [← h.2]; exact hc
    split at h
    · simp only [Res.ok.injEq, Prod.mk.injEq] at h; rw [← h.2]; exact hc
    split at h
    · simp only [Res.ok.injEq, Prod.mk.injEq] at h; rw [← h.2]; exact hc
    split at h
    · simp only [Res.ok.injEq, Prod.mk.injEq] at h; rw [← h.2]; exact hc
    split at h
    · simp only [Res.ok.injEq, Prod.mk.injEq] at h; rw [← h.2]; exact hc
    split at h
    · simp only [Res.ok.injEq, Prod.mk.injEq] at h; rw [← h.2]; exact hc
    split at h
    · simp only [Res.ok.injEq, Prod.mk.injEq] at h; rw [← h.2]; exact hc
    split at h
    · simp only [Res.ok.injEq, Prod.mk.injEq] at h; rw [← h.2]; exact hc
    split at h
    · unfold nextStr at h
      simp only at h
      split at h
      · unfold siteStrSlice siteErrTok at h
        split at h
        · simp at h
        · split at h <;> simp at h
      · split at h
        · unfold siteErrTok at h
          split at h <;> simp at h
        · simp only [Res.ok.injEq, Prod.mk.injEq] at h; rw [← h.2]; exact List.drop_suffix _ _
    · have hl := litSpan_suffix (c :: r0)
      unfold nextLit at h
      split at h
      rename_i v rest hls
      rw [hls] at hl
      split at h
      · simp only [Res.ok.injEq, Prod.mk.injEq] at h; rw [← h.2]; exact hc
      split at h
      · rw [Res.bind_eq_ok] at h
        obtain ⟨n, _, h⟩ := h
        simp only [Res.ok.injEq, Prod.mk.injEq] at h
        rw [← h.2]; exact hl
      · simp only [Res.ok.injEq, Prod.mk.injEq] at h
        rw [← h.2]; exact hl


/-- the tokenizer panics at some suffix of the path -/
def TokCause (cfg : Sites) (path : Bytes) (s : Site) : Prop := ∃ r, r <:+ path ∧ next cfg r = .panic s
/-- an integer literal beyond int32 is read at some suffix (and `Int32()` still panics) -/
def Int32Cause (cfg : Sites) (path : Bytes) : Prop :=
  cfg.int32 = true ∧ ∃ r n r', r <:+ path ∧ next cfg r = .ok (.litInt n, r') ∧ n > 2147483647
/-- the schema has a negative field id (and `head[f]` is still unguarded) -/
def HeadCause (cfg : Sites) (sch : Schema) : Prop :=
  cfg.headNeg = true ∧ ∃ st ∈ sch.structs, ∃ f ∈ st.2, f.id < 0

/-- the three ways `NewFieldMask` can panic -/
def Cause (cfg : Sites) (sch : Schema) (path : Bytes) (s : Site) : Prop :=
  TokCause cfg path s ∨ (s = .int32 ∧ Int32Cause cfg path) ∨ (s = .headNeg ∧ HeadCause cfg sch)

theorem Cause.mono {cfg sch s} {p q : Bytes} (hpq : p <:+ q) (h : Cause cfg sch p s) : Cause cfg sch q s := by
  rcases h with ⟨r, hr, h⟩ | ⟨hs, hc, r, n, r', hr, h⟩ | h
  · exact Or.inl ⟨r, hr.trans hpq, h⟩
  · exact Or.inr (Or.inl ⟨hs, hc, r, n, r', hr.trans hpq, h⟩)
  · exact Or.inr (Or.inr h)

theorem liftO_ne_panic {α} (o : Option α) (s : Site) : liftO o ≠ .panic s := by
  cases o <;> simp [liftO]

theorem siteHead_panic {cfg : Sites} {f : Int} {s : Site} (h : siteHead cfg f = .panic s) :
    s = .headNeg ∧ cfg.headNeg = true ∧ f < 0 := by
  unfold siteHead at h
  split at h
  · rename_i hc
    simp only [Res.panic.injEq] at h
    simp only [Bool.and_eq_true, decide_eq_true_eq] at hc
    exact ⟨h.symm, hc.1, hc.2⟩
  · simp at h

theorem siteInt32_panic {cfg : Sites} {n : Nat} {s : Site} (h : siteInt32 cfg n = .panic s) :
    s = .int32 ∧ cfg.int32 = true ∧ n > 2147483647 := by
  unfold siteInt32 at h
  split at h
  · rename_i hn
    split at h
    · rename_i hc
      simp only [Res.panic.injEq] at h
      exact ⟨h.symm, hc, hn⟩
    · simp at h
  · simp at h

theorem structOf_mem {sch : Schema} {d : Ty} {fs : List FieldD} (h : sch.structOf d = some fs) :
    ∃ n, (n, fs) ∈ sch.structs := by
  cases d with
  | named n =>
    simp only [Schema.structOf] at h
    split at h
    · simp at h
    · exact ⟨n, assoc_mem h⟩
  | list e => simp [Schema.structOf] at h
  | map k v => simp [Schema.structOf] at h

theorem addViaField_panic {cfg : Sites} {sch : Schema} {rec} {m : Mask} {rest2 : Bytes} {d : Ty} {fs : List FieldD}
    {f : FieldD} {s : Site} (hso : sch.structOf d = some fs) (hf : f ∈ fs)
    (hrec : ∀ m d, rec m rest2 d = .panic s → Cause cfg sch rest2 s)
    (h : addViaField cfg sch rec m rest2 f = .panic s) : Cause cfg sch rest2 s := by
  unfold addViaField at h
  rw [Res.bind_eq_panic] at h
  rcases h with h | ⟨d', _, h⟩
  · exact absurd h (liftO_ne_panic _ _)
  rw [Res.bind_eq_panic] at h
  rcases h with h | ⟨ft, _, h⟩
  · exact absurd h (liftO_ne_panic _ _)
  rw [Res.bind_eq_panic] at h
  rcases h with h | ⟨_, _, h⟩
  · obtain ⟨h1, h2, h3⟩ := siteHead_panic h
    obtain ⟨n, hn⟩ := structOf_mem hso
    exact Or.inr (Or.inr ⟨h1, h2, (n, fs), hn, f, hf, h3⟩)
  rw [Res.bind_eq_panic] at h
  rcases h with h | ⟨_, _, h⟩
  · exact hrec _ _ h
  · simp at h

theorem addField_panic {cfg : Sites} {sch : Schema} {rec} {m : Mask} {rest : Bytes} {d : Ty} {s : Site}
    (hrec : ∀ m p d, p <:+ rest → rec m p d = .panic s → Cause cfg sch p s)
    (h : addField cfg sch rec m rest d = .panic s) : Cause cfg sch rest s := by
  unfold addField at h
  split at h
  · simp at h
  · rename_i fs hso
    split at h
    · simp at h
    · rw [Res.bind_eq_panic] at h
      rcases h with h | ⟨⟨tok, rest2⟩, hnext, h⟩
      · exact Or.inl ⟨rest, List.suffix_refl _, h⟩
      have hsuf := next_suffix hnext
      simp only at h
      split at h
      · simp at h
      split at h
      · simp at h
      split at h
      · rw [Res.bind_eq_panic] at h
        rcases h with h | ⟨id, _, h⟩
        · obtain ⟨h1, h2, h3⟩ := siteInt32_panic h
          exact Or.inr (Or.inl ⟨h1, h2, rest, _, rest2, List.suffix_refl _, hnext, h3⟩)
        split at h
        · simp at h
        · rename_i f hfb
          exact (addViaField_panic hso (List.mem_of_find?_eq_some hfb) (fun m d => hrec m rest2 d hsuf) h).mono hsuf
      · split at h
        · simp at h
        · rename_i f hfb
          exact (addViaField_panic hso (List.mem_of_find?_eq_some hfb) (fun m d => hrec m rest2 d hsuf) h).mono hsuf
      · unfold addFieldStar at h
        split at h
        · simp at h
        · rw [Res.bind_eq_panic] at h
          rcases h with h | ⟨ft, _, h⟩
          · exact absurd h (liftO_ne_panic _ _)
          rw [Res.bind_eq_panic] at h
          rcases h with h | ⟨_, _, h⟩
          · exact (hrec _ _ _ hsuf h).mono hsuf
          · simp at h
      · simp at h


theorem scanIndex_panic {cfg : Sites} {s : Site} : ∀ (fuel : Nat) (rest : Bytes) (all star empty : Bool) (ids : List Nat),
    (scanIndex cfg fuel rest all star empty ids = .panic s → TokCause cfg rest s) ∧
    (∀ sc, scanIndex cfg fuel rest all star empty ids = .ok sc → sc.rest <:+ rest) := by
  intro fuel
  induction fuel with
  | zero => intro rest all star empty ids; simp [scanIndex]
  | succ f ih =>
    intro rest all star empty ids
    rw [scanIndex]
    split
    · exact ⟨by simp, by intro sc h; simp only [Res.ok.injEq] at h; subst h; exact List.suffix_refl _⟩
    · constructor
      · intro h
        rw [Res.bind_eq_panic] at h
        rcases h with h | ⟨⟨tok, rest'⟩, hn, h⟩
        · exact ⟨rest, List.suffix_refl _, h⟩
        have hsuf := next_suffix hn
        have lift : ∀ {a b c d}, scanIndex cfg f rest' a b c d = .panic s → TokCause cfg rest s := by
          intro a b c d h
          obtain ⟨r, hr, h⟩ := (ih rest' a b c d).1 h
          exact ⟨r, hr.trans hsuf, h⟩
        simp only at h
        split at h
        · split at h <;> simp at h
        · exact lift h
        · exact lift h
        · split at h
          · simp at h
          · exact lift h
        · simp at h
        · split at h <;> simp at h
      · intro sc h
        rw [Res.bind_eq_ok] at h
        obtain ⟨⟨tok, rest'⟩, hn, h⟩ := h
        have hsuf := next_suffix hn
        simp only at h
        split at h
        · split at h
          · simp at h
          · simp only [Res.ok.injEq] at h; subst h; exact hsuf
        · exact ((ih _ _ _ _ _).2 sc h).trans hsuf
        · exact ((ih _ _ _ _ _).2 sc h).trans hsuf
        · split at h
          · simp at h
          · exact ((ih _ _ _ _ _).2 sc h).trans hsuf
        · simp at h
        · split at h <;> simp at h

theorem scanKeys_panic {cfg : Sites} {isInt isStr : Bool} {s : Site} : ∀ (fuel : Nat) (rest : Bytes) (all star empty : Bool)
    (ids : List Nat) (strs : List Bytes),
    (scanKeys cfg isInt isStr fuel rest all star empty ids strs = .panic s → TokCause cfg rest s) ∧
    (∀ sc, scanKeys cfg isInt isStr fuel rest all star empty ids strs = .ok sc → sc.rest <:+ rest) := by
  intro fuel
  induction fuel with
  | zero => intro rest all star empty ids strs; simp [scanKeys]
  | succ f ih =>
    intro rest all star empty ids strs
    rw [scanKeys]
    split
    · exact ⟨by simp, by intro sc h; simp only [Res.ok.injEq] at h; subst h; exact List.suffix_refl _⟩
    · constructor
      · intro h
        rw [Res.bind_eq_panic] at h
        rcases h with h | ⟨⟨tok, rest'⟩, hn, h⟩
        · exact ⟨rest, List.suffix_refl _, h⟩
        have hsuf := next_suffix hn
        have lift : ∀ {a b c d e}, scanKeys cfg isInt isStr f rest' a b c d e = .panic s → TokCause cfg rest s := by
          intro a b c d e h
          obtain ⟨r, hr, h⟩ := (ih rest' a b c d e).1 h
          exact ⟨r, hr.trans hsuf, h⟩
        simp only at h
        split at h
        · split at h <;> simp at h
        · exact lift h
        · exact lift h
        · simp at h
        · split at h
          · simp at h
          · split at h
            · simp at h
            · exact lift h
        · split at h
          · simp at h
          · split at h
            · simp at h
            · exact lift h
        · split at h <;> simp at h
      · intro sc h
        rw [Res.bind_eq_ok] at h
        obtain ⟨⟨tok, rest'⟩, hn, h⟩ := h
        have hsuf := next_suffix hn
        simp only at h
        split at h
        · split at h
          · simp at h
          · simp only [Res.ok.injEq] at h; subst h; exact hsuf
        · exact ((ih _ _ _ _ _ _).2 sc h).trans hsuf
        · exact ((ih _ _ _ _ _ _).2 sc h).trans hsuf
        · simp at h
        · split at h
          · simp at h
          · split at h
            · simp at h
            · exact ((ih _ _ _ _ _ _).2 sc h).trans hsuf
        · split at h
          · simp at h
          · split at h
            · simp at h
            · exact ((ih _ _ _ _ _ _).2 sc h).trans hsuf
        · split at h <;> simp at h

theorem forKeys_panic {add : Mask → Res Mask} {ft : Ft} {getK setK} {s : Site} :
    ∀ (ks : List Key) (cur : Mask), forKeys add ft ks cur getK setK = .panic s → ∃ c, add c = .panic s
  | [], cur, h => by simp [forKeys] at h
  | k :: ks, cur, h => by
    simp only [forKeys] at h
    rw [Res.bind_eq_panic] at h
    rcases h with h | ⟨c', _, h⟩
    · exact ⟨_, h⟩
    · exact forKeys_panic ks _ h

theorem addIndex_panic {cfg : Sites} {sch : Schema} {fuel : Nat} {rec} {m : Mask} {rest : Bytes} {d : Ty} {s : Site}
    (hrec : ∀ m p d, p <:+ rest → rec m p d = .panic s → Cause cfg sch p s)
    (h : addIndex cfg sch fuel rec m rest d = .panic s) : Cause cfg sch rest s := by
  unfold addIndex at h
  split at h
  · split at h
    · simp at h
    rw [Res.bind_eq_panic] at h
    rcases h with h | ⟨et, _, h⟩
    · exact absurd h (liftO_ne_panic _ _)
    rw [Res.bind_eq_panic] at h
    rcases h with h | ⟨nextFt, _, h⟩
    · exact absurd h (liftO_ne_panic _ _)
    split at h
    · simp at h
    rw [Res.bind_eq_panic] at h
    rcases h with h | ⟨sc, hsc, h⟩
    · exact Or.inl ((scanIndex_panic _ _ _ _ _ _).1 h)
    have hsuf := (scanIndex_panic (s := s) _ _ _ _ _ _).2 sc hsc
    simp only at h
    split at h
    · rw [Res.bind_eq_panic] at h
      rcases h with h | ⟨_, _, h⟩
      · exact (hrec _ _ _ hsuf h).mono hsuf
      · simp at h
    · obtain ⟨c, h⟩ := forKeys_panic _ _ h
      rw [Res.bind_eq_panic] at h
      rcases h with h | ⟨_, _, h⟩
      · exact absurd h (liftO_ne_panic _ _)
      · exact (hrec _ _ _ hsuf h).mono hsuf
  · simp at h

theorem addMap_panic {cfg : Sites} {sch : Schema} {fuel : Nat} {rec} {m : Mask} {rest : Bytes} {d : Ty} {s : Site}
    (hrec : ∀ m p d, p <:+ rest → rec m p d = .panic s → Cause cfg sch p s)
    (h : addMap cfg sch fuel rec m rest d = .panic s) : Cause cfg sch rest s := by
  unfold addMap at h
  split at h
  · split at h
    · simp at h
    rw [Res.bind_eq_panic] at h
    rcases h with h | ⟨et, _, h⟩
    · exact absurd h (liftO_ne_panic _ _)
    rw [Res.bind_eq_panic] at h
    rcases h with h | ⟨nextFt, _, h⟩
    · exact absurd h (liftO_ne_panic _ _)
    split at h
    · simp at h
    simp only at h
    rw [Res.bind_eq_panic] at h
    rcases h with h | ⟨sc, hsc, h⟩
    · exact Or.inl ((scanKeys_panic _ _ _ _ _ _ _).1 h)
    have hsuf := (scanKeys_panic (s := s) _ _ _ _ _ _ _).2 sc hsc
    have hadd : ∀ c, (do let et' ← liftO (sch.unwrap et); rec c sc.rest et') = .panic s → Cause cfg sch rest s := by
      intro c h
      rw [Res.bind_eq_panic] at h
      rcases h with h | ⟨_, _, h⟩
      · exact absurd h (liftO_ne_panic _ _)
      · exact (hrec _ _ _ hsuf h).mono hsuf
    split at h
    · rw [Res.bind_eq_panic] at h
      rcases h with h | ⟨_, _, h⟩
      · exact (hrec _ _ _ hsuf h).mono hsuf
      · simp at h
    · split at h
      · obtain ⟨c, h⟩ := forKeys_panic _ _ h
        exact hadd c h
      · split at h
        · obtain ⟨c, h⟩ := forKeys_panic _ _ h
          exact hadd c h
        · simp at h
  · simp at h

/-- **every panic of the token loop has a cause in its input** -/
theorem addLoop_panic {cfg : Sites} {sch : Schema} {s : Site} :
    ∀ (fuel : Nat) (m : Mask) (path : Bytes) (d : Ty), addLoop cfg sch fuel m path d = .panic s → Cause cfg sch path s := by
  intro fuel
  induction fuel with
  | zero => intro m path d h; simp [addLoop] at h
  | succ f ih =>
    intro m path d h
    rw [addLoop] at h
    split at h
    · simp at h
    rw [Res.bind_eq_panic] at h
    rcases h with h | ⟨⟨stok, rest⟩, hnext, h⟩
    · exact Or.inl ⟨path, List.suffix_refl _, h⟩
    have hsuf := next_suffix hnext
    simp only at h
    split at h
    · simp at h
    · rw [Res.bind_eq_panic] at h
      rcases h with h | ⟨_, _, h⟩
      · exact absurd h (liftO_ne_panic _ _)
      · exact (ih _ _ _ h).mono hsuf
    · exact (addField_panic (fun m p d _ h => ih m p d h) h).mono hsuf
    · exact (addIndex_panic (fun m p d _ h => ih m p d h) h).mono hsuf
    · exact (addMap_panic (fun m p d _ h => ih m p d h) h).mono hsuf
    · simp at h

theorem newMask_panic {cfg : Sites} {sch : Schema} {desc : Ty} {black : Bool} {s : Site} :
    ∀ (paths : List Bytes) (m : Mask), newMask cfg sch desc black paths m = .panic s → ∃ p ∈ paths, Cause cfg sch p s
  | [], m, h => by simp [newMask] at h
  | p :: ps, m, h => by
    simp only [newMask] at h
    rw [Res.bind_eq_panic] at h
    rcases h with h | ⟨m', _, h⟩
    · unfold addPath at h
      rw [Res.bind_eq_panic] at h
      rcases h with h | ⟨d, _, h⟩
      · exact absurd h (liftO_ne_panic _ _)
      · exact ⟨p, by simp, addLoop_panic _ _ _ _ h⟩
    · obtain ⟨q, hq, hc⟩ := newMask_panic ps m' h
      exact ⟨q, by simp [hq], hc⟩


/-- which switch of `Sites` a panic site hangs on (`marshalNilFd` has none: only MarshalJSON can reach it,
and only on a struct node that is neither "all" nor has a field map — see `Mask.structAlloc`) -/
def Sites.enabled (cfg : Sites) : Site → Bool
  | .headNeg => cfg.headNeg | .atoi => cfg.atoi | .int32 => cfg.int32 | .errTok => cfg.errTok
  | .strSlice => cfg.strSlice | .getPathStar => cfg.getPathStar | .fieldNilFd => cfg.fieldNilFd
  | .foreachNilFd => cfg.foreachNilFd | .foreachInvalid => cfg.foreachInvalid | .marshalNilFd => false

theorem siteErrTok_panic {cfg : Sites} {α} {s : Site} (h : (siteErrTok cfg : Res α) = .panic s) :
    s = .errTok ∧ cfg.errTok = true := by
  unfold siteErrTok at h
  split at h
  · rename_i hc; simp only [Res.panic.injEq] at h; exact ⟨h.symm, hc⟩
  · simp at h

theorem siteStrSlice_panic {cfg : Sites} {α} {s : Site} (h : (siteStrSlice cfg : Res α) = .panic s) :
    cfg.enabled s = true := by
  unfold siteStrSlice at h
  split at h
  · rename_i hc; simp only [Res.panic.injEq] at h; subst h; exact hc
  · obtain ⟨rfl, hc⟩ := siteErrTok_panic h; exact hc

theorem next_panic {cfg : Sites} {r : Bytes} {s : Site} (h : next cfg r = .panic s) : cfg.enabled s = true := by
  cases r with
  | nil => simp [next] at h
  | cons c r0 =>
    rw [next] at h
    split at h
    · simp at h
    split at h
    · simp at h
    split at h
    · simp at h
    split at h
    · simp at h
    split at h
    · simp at h
    split at h
    · simp at h
    split at h
    · simp at h
    split at h
    · simp at h
    split at h
    · unfold nextStr at h
      simp only at h
      split at h
      · exact siteStrSlice_panic h
      · split at h
        · obtain ⟨rfl, hc⟩ := siteErrTok_panic h; exact hc
        · simp at h
    · unfold nextLit at h
      split at h
      split at h
      · simp at h
      split at h
      · rw [Res.bind_eq_panic] at h
        rcases h with h | ⟨_, _, h⟩
        · unfold siteAtoi at h
          split at h
          · split at h
            · rename_i hc; simp only [Res.panic.injEq] at h; subst h; exact hc
            · simp at h
          · simp at h
        · simp at h
      · simp at h

theorem Cause.enabled {cfg sch p s} (h : Cause cfg sch p s) : cfg.enabled s = true := by
  rcases h with ⟨r, _, h⟩ | ⟨rfl, hc, _⟩ | ⟨rfl, hc, _⟩
  · exact next_panic h
  · exact hc
  · exact hc

/-- queries: a panic needs a negative field id or a `Field()` call on a node without field map -/
theorem query_panic {cfg : Sites} {cur : MaskOpt} {q : QStep} {s : Site} (h : query cfg cur q = .panic s) :
    ∃ id, q = .field id ∧ ((s = .headNeg ∧ cfg.headNeg = true ∧ id < 0) ∨
      (s = .fieldNilFd ∧ cfg.fieldNilFd = true ∧ ∃ m, cur = .some m ∧ m.fdA = false)) := by
  unfold query at h
  split at h
  · simp at h
  · rename_i m
    split at h
    · simp at h
    split at h
    · simp at h
    split at h
    · rename_i id
      rw [Res.bind_eq_panic] at h
      rcases h with h | ⟨_, _, h⟩
      · unfold fdGet at h
        split at h
        · rename_i hfa
          split at h
          · rename_i hc
            rw [Res.bind_eq_panic] at h
            rcases h with h | ⟨_, _, h⟩
            · obtain ⟨h1, h2, h3⟩ := siteHead_panic h
              exact ⟨id, rfl, Or.inl ⟨h1, h2, h3⟩⟩
            · simp only [Res.panic.injEq] at h
              exact ⟨id, rfl, Or.inr ⟨h.symm, hc, m, rfl, by simpa using hfa⟩⟩
          · simp at h
        · rw [Res.bind_eq_panic] at h
          rcases h with h | ⟨_, _, h⟩
          · obtain ⟨h1, h2, h3⟩ := siteHead_panic h
            exact ⟨id, rfl, Or.inl ⟨h1, h2, h3⟩⟩
          · simp at h
      · simp at h
    · simp at h
    · simp at h

theorem walk_panic {cfg : Sites} {s : Site} : ∀ (q : List QStep) (cur : MaskOpt), walk cfg cur q = .panic s →
    (s = .headNeg ∧ cfg.headNeg = true ∧ ∃ id, QStep.field id ∈ q ∧ id < 0) ∨ (s = .fieldNilFd ∧ cfg.fieldNilFd = true)
  | [], cur, h => by simp [walk] at h
  | st :: qs, cur, h => by
    simp only [walk] at h
    rw [Res.bind_eq_panic] at h
    rcases h with h | ⟨⟨nxt, ok⟩, _, h⟩
    · obtain ⟨id, hq, h'⟩ := query_panic h
      rcases h' with ⟨h1, h2, h3⟩ | ⟨h1, h2, _⟩
      · exact Or.inl ⟨h1, h2, id, by simp [hq], h3⟩
      · exact Or.inr ⟨h1, h2⟩
    · simp only at h
      split at h
      · rcases walk_panic qs nxt h with ⟨h1, h2, id, h3, h4⟩ | h
        · exact Or.inl ⟨h1, h2, id, by simp [h3], h4⟩
        · exact Or.inr h
      · simp at h

theorem forEachChild_panic {cfg : Sites} {cur : MaskOpt} {s : Site} (h : forEachChild cfg cur = .panic s) :
    cfg.enabled s = true ∧ (s = .foreachNilFd ∨ s = .foreachInvalid) := by
  unfold forEachChild at h
  split at h
  · simp at h
  · split at h
    · simp at h
    · split at h
      · split at h
        · rename_i hc; simp only [Res.panic.injEq] at h; subst h; exact ⟨hc, Or.inl rfl⟩
        · simp at h
      · simp at h
    · simp at h
    · simp at h
    · simp at h
    · split at h
      · rename_i hc; simp only [Res.panic.injEq] at h; subst h; exact ⟨hc, Or.inr rfl⟩
      · simp at h


mutual
/-- some child path of the document decodes to a negative int32 -/
def JIn.negId : JIn → Bool
  | .mk p _ _ ks => (match p.i32 with | some id => decide (id < 0) | none => false) || JIns.negId ks
def JIns.negId : JIns → Bool
  | .nil => false
  | .cons j r => j.negId || JIns.negId r
end

mutual
theorem transferFrom_panic {cfg : Sites} {s : Site} : ∀ (j : JIn) (m : Mask), transferFrom cfg m j = .panic s →
    s = .headNeg ∧ cfg.headNeg = true ∧ j.negId = true
  | .mk p typ black kids, m, h => by
    have key : ∀ k m', transferKids cfg k m' kids = .panic s →
        s = .headNeg ∧ cfg.headNeg = true ∧ (JIn.mk p typ black kids).negId = true := by
      intro k m' hh
      obtain ⟨h1, h2, h3⟩ := transferKids_panic kids k m' hh
      exact ⟨h1, h2, by simp [JIn.negId, h3]⟩
    unfold transferFrom at h
    split at h
    · simp at h
    simp only at h
    split at h
    · simp at h
    · split at h
      · exact key _ _ h
      · exact key _ _ h
      · exact key _ _ h
      · exact key _ _ h
      · exact key _ _ h
      · simp at h
theorem transferKids_panic {cfg : Sites} {s : Site} : ∀ (js : JIns) (kind : Nat) (m : Mask), transferKids cfg kind m js = .panic s →
    s = .headNeg ∧ cfg.headNeg = true ∧ js.negId = true
  | .nil, kind, m, h => by simp [transferKids] at h
  | .cons n r, kind, m, h => by
    have kn : ∀ m', transferFrom cfg m' n = .panic s → s = .headNeg ∧ cfg.headNeg = true ∧ (JIns.cons n r).negId = true := by
      intro m' hh
      obtain ⟨h1, h2, h3⟩ := transferFrom_panic n m' hh
      exact ⟨h1, h2, by simp [JIns.negId, h3]⟩
    have kr : ∀ k m', transferKids cfg k m' r = .panic s → s = .headNeg ∧ cfg.headNeg = true ∧ (JIns.cons n r).negId = true := by
      intro k m' hh
      obtain ⟨h1, h2, h3⟩ := transferKids_panic r k m' hh
      exact ⟨h1, h2, by simp [JIns.negId, h3]⟩
    unfold transferKids at h
    split at h
    · rw [Res.bind_eq_panic] at h
      rcases h with h | ⟨_, _, h⟩
      · exact kn _ h
      · simp at h
    · split at h
      · split at h
        · simp at h
        · rename_i id hid
          rw [Res.bind_eq_panic] at h
          rcases h with h | ⟨_, _, h⟩
          · obtain ⟨h1, h2, h3⟩ := siteHead_panic h
            refine ⟨h1, h2, ?_⟩
            cases n with
            | mk p t b ks =>
              simp only [JIn.path] at hid
              simp [JIns.negId, JIn.negId, hid, h3]
          · rw [Res.bind_eq_panic] at h
            rcases h with h | ⟨_, _, h⟩
            · exact kn _ h
            · exact kr _ _ h
      · split at h
        · simp at h
        · rw [Res.bind_eq_panic] at h
          rcases h with h | ⟨_, _, h⟩
          · exact kn _ h
          · exact kr _ _ h
      · split at h
        · simp at h
        · rw [Res.bind_eq_panic] at h
          rcases h with h | ⟨_, _, h⟩
          · exact kn _ h
          · exact kr _ _ h
      · simp at h
end

theorem unmarshal_panic {cfg : Sites} {s : Site} {doc : Option JIn} (h : unmarshal cfg doc = .panic s) :
    s = .headNeg ∧ cfg.headNeg = true ∧ ∃ j, doc = some j ∧ j.negId = true := by
  unfold unmarshal at h
  split at h
  · simp at h
  · rename_i j
    split at h
    · simp at h
    · obtain ⟨h1, h2, h3⟩ := transferFrom_panic j _ h
      exact ⟨h1, h2, j, rfl, h3⟩


theorem query_panic_enabled {cfg : Sites} {cur : MaskOpt} {q : QStep} {s : Site} (h : query cfg cur q = .panic s) :
    cfg.enabled s = true := by
  obtain ⟨id, _, h⟩ := query_panic h
  rcases h with ⟨rfl, h, _⟩ | ⟨rfl, h, _⟩ <;> exact h

theorem gpIndex_panic {cfg : Sites} {cur : Mask} {s : Site} : ∀ (f : Nat) (rest : Bytes) (nxt : MaskOpt),
    gpIndex cfg cur f rest nxt = .panic s → cfg.enabled s = true := by
  intro f
  induction f with
  | zero => intro rest nxt h; simp [gpIndex] at h
  | succ f ih =>
    intro rest nxt h
    rw [gpIndex] at h
    split at h
    · simp at h
    split at h
    · simp at h
    · rename_i s' hn
      simp only [Res.panic.injEq] at h
      subst h
      exact next_panic hn
    · simp at h
    · split at h
      · simp at h
      split at h
      · simp at h
      split at h
      · exact ih _ _ h
      split at h
      · rw [Res.bind_eq_panic] at h
        rcases h with h | ⟨⟨fm, ex⟩, _, h⟩
        · exact query_panic_enabled h
        · simp only at h
          split at h
          · simp at h
          · exact ih _ _ h
      · simp at h

theorem gpKeys_panic {cfg : Sites} {cur : Mask} {s : Site} : ∀ (f : Nat) (rest : Bytes) (nxt : MaskOpt),
    gpKeys cfg cur f rest nxt = .panic s → cfg.enabled s = true := by
  intro f
  induction f with
  | zero => intro rest nxt h; simp [gpKeys] at h
  | succ f ih =>
    intro rest nxt h
    rw [gpKeys] at h
    split at h
    · simp at h
    split at h
    · simp at h
    · rename_i s' hn
      simp only [Res.panic.injEq] at h
      subst h
      exact next_panic hn
    · simp at h
    · split at h
      · simp at h
      split at h
      · simp at h
      split at h
      · exact ih _ _ h
      split at h
      · split at h
        · simp at h
        rw [Res.bind_eq_panic] at h
        rcases h with h | ⟨⟨fm, ex⟩, _, h⟩
        · exact query_panic_enabled h
        · simp only at h
          split at h
          · simp at h
          · exact ih _ _ h
      · split at h
        · simp at h
        rw [Res.bind_eq_panic] at h
        rcases h with h | ⟨⟨fm, ex⟩, _, h⟩
        · exact query_panic_enabled h
        · simp only at h
          split at h
          · simp at h
          · exact ih _ _ h
      · simp at h


theorem gpLoop_panic {cfg : Sites} {sch : Schema} {s : Site} : ∀ (f : Nat) (last cur : MaskOpt) (path : Bytes) (desc : Ty),
    gpLoop cfg sch f last cur path desc = .panic s → cfg.enabled s = true := by
  intro f
  induction f with
  | zero => intro last cur path desc h; simp [gpLoop] at h
  | succ f ih =>
    intro last cur path desc h
    unfold gpLoop at h
    split at h
    · simp at h
    cases cur with
    | none => simp at h
    | some c =>
    have hcur : ∃ cur, cur = MaskOpt.some c := ⟨_, rfl⟩
    obtain ⟨cur, hcur⟩ := hcur
    rw [← hcur] at h
    simp only [hcur] at h
    rw [← hcur] at h
    split at h
    · simp at h
    · rename_i s' hn
      simp only [Res.panic.injEq] at h; subst h; exact next_panic hn
    · simp at h
    split at h
    · simp at h
    · exact ih _ _ _ _ h
    · split at h
      · simp at h
      split at h
      · simp at h
      split at h
      · simp at h
      · rename_i s' hn
        simp only [Res.panic.injEq] at h; subst h; exact next_panic hn
      · simp at h
      · have via : ∀ (fd : FieldD) (rest2 : Bytes), (do
              let __x ← query cfg cur (QStep.field (int16wrap fd.id))
              match __x with
                | (fm, ex) => if (!ex) = true then Res.ok (MaskOpt.none, false) else gpLoop cfg sch f cur fm rest2 (sch.gpDesc cfg fd.ty)) = .panic s →
            cfg.enabled s = true := by
          intro fd rest2 h
          rw [Res.bind_eq_panic] at h
          rcases h with h | ⟨⟨fm, ex⟩, _, h⟩
          · exact query_panic_enabled h
          · simp only at h
            split at h
            · simp at h
            · exact ih _ _ _ _ h
        split at h
        · split at h
          · simp at h
          · rename_i s' hn
            simp only [Res.panic.injEq] at h; subst h
            obtain ⟨rfl, hc, _⟩ := siteInt32_panic hn
            exact hc
          · simp at h
          · split at h
            · simp at h
            · exact via _ _ h
        · split at h
          · simp at h
          · exact via _ _ h
        · split at h
          · simp at h
          split at h
          · rename_i hc
            simp only [Res.panic.injEq] at h; subst h; exact hc
          · exact ih _ _ _ _ h
        · simp at h
    · split at h
      · split at h
        · simp at h
        rw [Res.bind_eq_panic] at h
        rcases h with h | ⟨r, _, h⟩
        · exact gpIndex_panic _ _ _ h
        · split at h
          · simp at h
          · exact ih _ _ _ _ h
      · simp at h
    · split at h
      · split at h
        · simp at h
        rw [Res.bind_eq_panic] at h
        rcases h with h | ⟨r, _, h⟩
        · exact gpKeys_panic _ _ _ h
        · split at h
          · simp at h
          · exact ih _ _ _ _ h
      · simp at h
    · simp at h

theorem getPath_panic {cfg : Sites} {sch : Schema} {m : MaskOpt} {desc : Ty} {path : Bytes} {s : Site}
    (h : getPath cfg sch m desc path = .panic s) : cfg.enabled s = true :=
  gpLoop_panic _ _ _ _ _ h



/-! ## Part 4: GetPath terminates when every token consumes input -/

/-- every token read at a non-empty suffix of the path consumes at least one byte
(false exactly when a suffix starts with a backslash: `lit()` stops there without advancing) -/
def Progress (cfg : Sites) (p0 : Bytes) : Prop :=
  ∀ r, r <:+ p0 → ∀ t r', next cfg r = .ok (t, r') → r ≠ [] → r'.length < r.length

theorem Res.bind_eq_crash {α β} {x : Res α} {f : α → Res β} :
    (x >>= f) = .crash ↔ x = .crash ∨ ∃ a, x = .ok a ∧ f a = .crash := by
  cases x <;> simp

theorem query_ne_crash {cfg : Sites} {cur : MaskOpt} {q : QStep} : query cfg cur q ≠ .crash := by
  have hsite : ∀ id, siteHead cfg id ≠ .crash := by
    intro id; unfold siteHead; split <;> simp
  unfold query
  split
  · simp
  · split
    · simp
    split
    · simp
    split
    · unfold fdGet
      intro h
      rw [Res.bind_eq_crash] at h
      rcases h with h | ⟨_, _, h⟩
      · split at h
        · split at h
          · rw [Res.bind_eq_crash] at h
            rcases h with h | ⟨_, _, h⟩
            · exact hsite _ h
            · simp at h
          · simp at h
        · rw [Res.bind_eq_crash] at h
          rcases h with h | ⟨_, _, h⟩
          · exact hsite _ h
          · simp at h
      · simp at h
    · simp
    · simp

theorem siteErrTok_ne_crash {cfg : Sites} {α} : (siteErrTok cfg : Res α) ≠ .crash := by
  unfold siteErrTok; split <;> simp

theorem next_ne_crash {cfg : Sites} {r : Bytes} : next cfg r ≠ .crash := by
  cases r with
  | nil => simp [next]
  | cons c r0 =>
    rw [next]
    split
    · simp
    split
    · simp
    split
    · simp
    split
    · simp
    split
    · simp
    split
    · simp
    split
    · simp
    split
    · simp
    split
    · unfold nextStr
      simp only
      split
      · unfold siteStrSlice
        split
        · simp
        · exact siteErrTok_ne_crash
      · split
        · exact siteErrTok_ne_crash
        · simp
    · unfold nextLit
      split
      split
      · simp
      split
      · intro h
        rw [Res.bind_eq_crash] at h
        rcases h with h | ⟨_, _, h⟩
        · unfold siteAtoi at h
          repeat' split at h
          all_goals simp at h
        · simp at h
      · simp

theorem gpIndex_total {cfg : Sites} {cur : Mask} {p0 : Bytes} (hp : Progress cfg p0) : ∀ (f : Nat) (rest : Bytes) (nxt : MaskOpt),
    rest <:+ p0 → rest.length < f →
    gpIndex cfg cur f rest nxt ≠ .crash ∧
    ∀ n r', gpIndex cfg cur f rest nxt = .ok (some (n, r')) → r' <:+ rest := by
  intro f
  induction f with
  | zero => intro rest nxt _ h; omega
  | succ f ih =>
    intro rest nxt hsuf hlen
    rw [gpIndex]
    split
    · exact ⟨by simp, by intro n r' h; simp only [Res.ok.injEq, Option.some.injEq, Prod.mk.injEq] at h; rw [← h.2]; exact List.suffix_refl _⟩
    rename_i hne
    have hne' : rest ≠ [] := by intro h; simp [h] at hne
    split
    · exact ⟨by simp, by simp⟩
    · exact ⟨by simp, by simp⟩
    · rename_i hn; exact absurd hn next_ne_crash
    · rename_i tok rest' hn
      have hs := next_suffix hn
      have hl := hp rest hsuf tok rest' hn hne'
      have ih' := fun nxt => ih rest' nxt (hs.trans hsuf) (by omega)
      split
      · exact ⟨by simp, by simp⟩
      split
      · exact ⟨by simp, by intro n r' h; simp only [Res.ok.injEq, Option.some.injEq, Prod.mk.injEq] at h; rw [← h.2]; exact hs⟩
      split
      · exact ⟨(ih' nxt).1, fun n r' h => ((ih' nxt).2 n r' h).trans hs⟩
      split
      · constructor
        · intro h
          rw [Res.bind_eq_crash] at h
          rcases h with h | ⟨⟨fm, ex⟩, _, h⟩
          · exact query_ne_crash h
          · simp only at h
            split at h
            · simp at h
            · exact (ih' fm).1 h
        · intro n r' h
          rw [Res.bind_eq_ok] at h
          obtain ⟨⟨fm, ex⟩, _, h⟩ := h
          simp only at h
          split at h
          · simp at h
          · exact ((ih' fm).2 n r' h).trans hs
      · exact ⟨by simp, by simp⟩


theorem gpKeys_total {cfg : Sites} {cur : Mask} {p0 : Bytes} (hp : Progress cfg p0) : ∀ (f : Nat) (rest : Bytes) (nxt : MaskOpt),
    rest <:+ p0 → rest.length < f →
    gpKeys cfg cur f rest nxt ≠ .crash ∧
    ∀ n r', gpKeys cfg cur f rest nxt = .ok (some (n, r')) → r' <:+ rest := by
  intro f
  induction f with
  | zero => intro rest nxt _ h; omega
  | succ f ih =>
    intro rest nxt hsuf hlen
    rw [gpKeys]
    split
    · exact ⟨by simp, by intro n r' h; simp only [Res.ok.injEq, Option.some.injEq, Prod.mk.injEq] at h; rw [← h.2]; exact List.suffix_refl _⟩
    rename_i hne
    have hne' : rest ≠ [] := by intro h; simp [h] at hne
    split
    · exact ⟨by simp, by simp⟩
    · exact ⟨by simp, by simp⟩
    · rename_i hn; exact absurd hn next_ne_crash
    · rename_i tok rest' hn
      have hs := next_suffix hn
      have hl := hp rest hsuf tok rest' hn hne'
      have ih' := fun nxt => ih rest' nxt (hs.trans hsuf) (by omega)
      have step : ∀ q : QStep,
          (do let __x ← query cfg (.some cur) q
              match __x with
                | (fm, ex) => if (!ex) = true then Res.ok none else gpKeys cfg cur f rest' fm) ≠ .crash ∧
          ∀ n r', (do let __x ← query cfg (.some cur) q
                      match __x with
                        | (fm, ex) => if (!ex) = true then Res.ok none else gpKeys cfg cur f rest' fm) = .ok (some (n, r')) →
            r' <:+ rest := by
        intro q
        constructor
        · intro h
          rw [Res.bind_eq_crash] at h
          rcases h with h | ⟨⟨fm, ex⟩, _, h⟩
          · exact query_ne_crash h
          · simp only at h
            split at h
            · simp at h
            · exact (ih' fm).1 h
        · intro n r' h
          rw [Res.bind_eq_ok] at h
          obtain ⟨⟨fm, ex⟩, _, h⟩ := h
          simp only at h
          split at h
          · simp at h
          · exact ((ih' fm).2 n r' h).trans hs
      split
      · exact ⟨by simp, by simp⟩
      split
      · exact ⟨by simp, by intro n r' h; simp only [Res.ok.injEq, Option.some.injEq, Prod.mk.injEq] at h; rw [← h.2]; exact hs⟩
      split
      · exact ⟨(ih' nxt).1, fun n r' h => ((ih' nxt).2 n r' h).trans hs⟩
      split
      · split
        · exact ⟨by simp, by simp⟩
        · exact step _
      · split
        · exact ⟨by simp, by simp⟩
        · exact step _
      · exact ⟨by simp, by simp⟩

theorem gpLoop_total {cfg : Sites} {sch : Schema} {p0 : Bytes} (hp : Progress cfg p0) :
    ∀ (f : Nat) (last cur : MaskOpt) (path : Bytes) (desc : Ty),
      path <:+ p0 → path.length < f → gpLoop cfg sch f last cur path desc ≠ .crash := by
  intro f
  induction f with
  | zero => intro last cur path desc _ h; omega
  | succ f ih =>
    intro last cur path desc hsuf hlen
    unfold gpLoop
    split
    · simp
    rename_i hne
    have hne' : path ≠ [] := by intro h; simp [h] at hne
    cases cur with
    | none => simp
    | some c =>
    have hcur : ∃ cur, cur = MaskOpt.some c := ⟨_, rfl⟩
    obtain ⟨cur, hcur⟩ := hcur
    rw [← hcur]
    simp only [hcur]
    rw [← hcur]
    split
    · simp
    · simp
    · rename_i hn; exact absurd hn next_ne_crash
    rename_i stok rest hn
    have hs := next_suffix hn
    have hl := hp path hsuf stok rest hn hne'
    have hs0 := hs.trans hsuf
    split
    · simp
    · exact ih _ _ _ _ hs0 (by omega)
    · split
      · simp
      split
      · simp
      split
      · simp
      · simp
      · rename_i hn2; exact absurd hn2 next_ne_crash
      · rename_i tok rest2 hn2
        have hs2 := next_suffix hn2
        have hs20 := hs2.trans hs0
        have hl2 : rest2.length ≤ rest.length := hs2.length_le
        have via : ∀ (fd : FieldD), (do
              let __x ← query cfg cur (QStep.field (int16wrap fd.id))
              match __x with
                | (fm, ex) => if (!ex) = true then Res.ok (MaskOpt.none, false) else gpLoop cfg sch f cur fm rest2 (sch.gpDesc cfg fd.ty)) ≠ .crash := by
          intro fd h
          rw [Res.bind_eq_crash] at h
          rcases h with h | ⟨⟨fm, ex⟩, _, h⟩
          · exact query_ne_crash h
          · simp only at h
            split at h
            · simp at h
            · exact ih _ _ _ _ hs20 (by omega) h
        split
        · split
          · simp
          · simp
          · rename_i hn3
            unfold siteInt32 at hn3
            repeat' split at hn3
            all_goals simp at hn3
          · split
            · simp
            · exact via _
        · split
          · simp
          · exact via _
        · split
          · simp
          split
          · simp
          · exact ih _ _ _ _ hs20 (by omega)
        · simp
    · split
      · split
        · simp
        · intro h
          rw [Res.bind_eq_crash] at h
          obtain ⟨h1, h2⟩ := gpIndex_total (cur := c) hp f rest c.all hs0 (by omega)
          rcases h with h | ⟨r, hr, h⟩
          · exact h1 h
          · split at h
            · simp at h
            · rename_i nxt rest'
              have := h2 nxt rest' hr
              exact ih _ _ _ _ (this.trans hs0) (by have := this.length_le; omega) h
      · simp
    · split
      · split
        · simp
        · intro h
          rw [Res.bind_eq_crash] at h
          obtain ⟨h1, h2⟩ := gpKeys_total (cur := c) hp f rest c.all hs0 (by omega)
          rcases h with h | ⟨r, hr, h⟩
          · exact h1 h
          · split at h
            · simp at h
            · rename_i nxt rest'
              have := h2 nxt rest' hr
              exact ih _ _ _ _ (this.trans hs0) (by have := this.length_le; omega) h
      · simp
    · simp

/-- GetPath returns when every token of the path consumes input -/
theorem getPath_total {cfg : Sites} {sch : Schema} {m : MaskOpt} {desc : Ty} {path : Bytes} (hp : Progress cfg path) :
    getPath cfg sch m desc path ≠ .crash :=
  gpLoop_total hp _ _ _ _ _ (List.suffix_refl _) (by omega)



theorem mem_suffixes {r : Bytes} : ∀ {l : Bytes}, r <:+ l → r ∈ suffixes l
  | [], h => by
    have : r = [] := List.eq_nil_of_suffix_nil h
    simp [suffixes, this]
  | a :: l, h => by
    rw [List.suffix_cons_iff] at h
    rcases h with h | h
    · simp [suffixes, h]
    · simp [suffixes, mem_suffixes h]

theorem cause_absurd {cfg : Sites} {sch : Schema} {p : Bytes} {s : Site}
    (hids : cfg.headNeg = true → idsNonneg sch = true) (htok : tokSafe cfg p = true) (h : Cause cfg sch p s) : False := by
  unfold tokSafe at htok
  rw [List.all_eq_true] at htok
  rcases h with ⟨r, hr, h⟩ | ⟨_, hc, r, n, r', hr, h, hn⟩ | ⟨_, hc, st, hst, f, hf, hneg⟩
  · have := htok r (mem_suffixes hr)
    simp [h] at this
  · have := htok r (mem_suffixes hr)
    simp [h, hc] at this
    omega
  · have := hids hc
    unfold idsNonneg at this
    rw [List.all_eq_true] at this
    have := this st hst
    rw [List.all_eq_true] at this
    have := this f hf
    simp at this
    omega



theorem progress_of_progressB {cfg : Sites} {p : Bytes} (h : progressB cfg p = true) : Progress cfg p := by
  intro r hr t r' hn hne
  unfold progressB at h
  rw [List.all_eq_true] at h
  have := h r (mem_suffixes hr)
  cases r with
  | nil => exact absurd rfl hne
  | cons a l => simpa [hn] using this


/-! ## Part 5: JSON round trip -/

def JOuts.toList : JOuts → List JOut
  | .nil => []
  | .cons j r => j :: r.toList

def JIns.toList : JIns → List JIn
  | .nil => []
  | .cons j r => j :: r.toList

theorem JOuts.toList_insert (j : JOut) : ∀ l : JOuts, (JOuts.insert j l).toList.Perm (j :: l.toList)
  | .nil => by simp [JOuts.insert, JOuts.toList]
  | .cons j' r => by
    simp only [JOuts.insert]
    split
    · simp [JOuts.toList]
    · simp only [JOuts.toList]
      exact ((JOuts.toList_insert j r).cons j').trans (List.Perm.swap j j' r.toList)

theorem JOuts.toList_sort : ∀ l : JOuts, l.sort.toList.Perm l.toList
  | .nil => by simp [JOuts.sort, JOuts.toList]
  | .cons j r => by
    simp only [JOuts.sort, JOuts.toList]
    exact (JOuts.toList_insert j r.sort).trans ((JOuts.toList_sort r).cons j)

theorem JOuts.toList_sortedKids : ∀ l : JOuts, (JOuts.sortedKids l).toList = l.toList.map JOut.sorted
  | .nil => by simp [JOuts.sortedKids, JOuts.toList]
  | .cons j r => by simp [JOuts.sortedKids, JOuts.toList, JOuts.toList_sortedKids r]

theorem JOuts.toList_toIns : ∀ l : JOuts, (JOuts.toIns l).toList = l.toList.map JOut.toIn
  | .nil => by simp [JOuts.toIns, JOuts.toList, JIns.toList]
  | .cons j r => by simp [JOuts.toIns, JOuts.toList, JIns.toList, JOuts.toList_toIns r]

/-- the JSON children of one node, as the unmarshaller receives them -/
theorem toList_wire (J : JOuts) : (JOuts.toIns (JOuts.sortedKids J).sort).toList.Perm (J.toList.map fun j => j.sorted.toIn) := by
  rw [JOuts.toList_toIns]
  have := (JOuts.toList_sort (JOuts.sortedKids J)).map JOut.toIn
  rw [JOuts.toList_sortedKids, List.map_map] at this
  exact this


/-- the step a child path decodes to, by the parent's loop (`kind` 0 = Struct, 1 = List/IntMap, 2 = StrMap) -/
def stepOfKind (kind : Nat) (raw : JRaw) : Option PStep :=
  match kind with
  | 0 => raw.i32.map PStep.field
  | 1 => raw.int.map PStep.idx
  | 2 => raw.str.map PStep.key
  | _ => none

/-- the `head[f]` guard, which only the Struct loop passes through -/
def preOfKind (cfg : Sites) (kind : Nat) (k : PStep) : Res Unit :=
  match kind, k with
  | 0, .field id => siteHead cfg id
  | _, _ => .ok ()

theorem transferKids_cons {cfg : Sites} {kind : Nat} {self : Mask} {n : JIn} {r : JIns} {k : PStep}
    (hany : n.path.isAny = false) (hk : stepOfKind kind n.path = some k) :
    transferKids cfg kind self (.cons n r) = (do
      preOfKind cfg kind k
      let child' ← transferFrom cfg (self.kidChild k n.typ self.isBlack) n
      transferKids cfg kind (self.putKid k child') r) := by
  match kind, hk with
  | 0, hk =>
    simp only [stepOfKind, Option.map_eq_some_iff] at hk
    obtain ⟨id, hid, rfl⟩ := hk
    rw [transferKids]
    simp only [hany, Bool.false_eq_true, ↓reduceIte, hid, preOfKind]
    rfl
  | 1, hk =>
    simp only [stepOfKind, Option.map_eq_some_iff] at hk
    obtain ⟨id, hid, rfl⟩ := hk
    rw [transferKids]
    simp only [hany, Bool.false_eq_true, ↓reduceIte, hid, preOfKind, Res.ok_bind]
    rfl
  | 2, hk =>
    simp only [stepOfKind, Option.map_eq_some_iff] at hk
    obtain ⟨id, hid, rfl⟩ := hk
    rw [transferKids]
    simp only [hany, Bool.false_eq_true, ↓reduceIte, hid, preOfKind, Res.ok_bind]
    rfl
  | k + 3, hk => simp [stepOfKind] at hk


/-- receiver of `TransferFrom`: nothing hangs below it yet -/
def Mask.Recv (m : Mask) : Prop := m.isAll = false ∧ m.all = .none ∧ m.NoKids

/-- what the round-trip proof knows about one JSON child `n` of a node of type `ft`: it decodes to the
specific step `k`, and transferring it onto an empty receiver yields a node representing `T` -/
structure NodeOK (cfg : Sites) (sch : Schema) (black : Bool) (d : Ty) (ft : Ft) (kind : Nat)
    (n : JIn) (k : PStep) (T : List APath) : Prop where
  notAny : n.path.isAny = false
  step : stepOfKind kind n.path = some k
  spec : k.isStar = false
  kindok : kindOK ft k = true
  pre : preOfKind cfg kind k = .ok ()
  cu : ∃ cu, stepCur sch ft d k = some cu ∧ n.typ = cu.1 ∧ T ≠ [] ∧
        ∀ recv : Mask, recv.Recv → ∃ c', transferFrom cfg recv n = .ok c' ∧ Rep sch black cu.2 c' T ∧ c'.typ = n.typ

theorem Fresh.recv {black : Bool} {m : Mask} (h : m.Fresh black) : m.Recv := ⟨h.1, h.2.1, h.2.2.2⟩

theorem transferKids_rep {cfg : Sites} {sch : Schema} {black : Bool} {d : Ty} {kind : Nat} (info : JIn → PStep × List APath) :
    ∀ (js : JIns) (self : Mask) (Pacc : List APath),
      RepF sch black d self Pacc → AllSpec Pacc → self.typ ≠ .invalid →
      (∀ n ∈ js.toList, NodeOK cfg sch black d self.typ kind n (info n).1 (info n).2) →
      (∀ n ∈ js.toList, tailsOf (info n).1 Pacc = []) →
      js.toList.Pairwise (fun a b => (info a).1 ≠ (info b).1) →
      ∃ m', transferKids cfg kind self js = .ok m' ∧
        RepF sch black d m' (Pacc ++ js.toList.flatMap (fun n => (info n).2.map ((info n).1 :: ·))) ∧
        m'.typ = self.typ
  | .nil, self, Pacc, hm, _, _, _, _, _ => ⟨self, by simp [transferKids], by simpa [JIns.toList] using hm, rfl⟩
  | .cons n r, self, Pacc, hm, hP, ht, hok, hfresh, hpw => by
    have hn := hok n (by simp [JIns.toList])
    obtain ⟨cu, hcu, hnt, hT, htr⟩ := hn.cu
    have hb := hm.isBlack_eq
    rw [transferKids_cons hn.notAny hn.step, hn.pre, Res.ok_bind]
    obtain ⟨hcr, hct⟩ := child_RepF hm hP hn.spec hcu
    rw [hfresh n (by simp [JIns.toList])] at hcr
    obtain ⟨c', hc', hrc', htc'⟩ := htr _ (Fresh.recv hcr.fresh_of_nil)
    rw [hnt, hb, hc', Res.ok_bind]
    have hr1 := Rep_putKid (X := (info n).2) hm hP hn.spec ht hn.kindok hcu (by rw [htc', hnt])
      (by rw [hfresh n (by simp [JIns.toList])]; simpa using hrc') hT
    have hP1 : AllSpec (Pacc ++ (info n).2.map ((info n).1 :: ·)) := by
      intro p hp
      rw [List.mem_append] at hp
      cases hp with
      | inl h => exact hP p h
      | inr h =>
        rw [List.mem_map] at h
        obtain ⟨x, _, rfl⟩ := h
        exact ⟨_, x, rfl, hn.spec⟩
    simp only [JIns.toList, List.pairwise_cons] at hpw
    obtain ⟨m', hm', hr', ht'⟩ := transferKids_rep info r (self.putKid (info n).1 c') _ (Or.inr hr1) hP1
      (by rw [Mask.putKid_typ]; exact ht)
      (by intro n' hn'; rw [Mask.putKid_typ]; exact hok n' (by simp [JIns.toList, hn']))
      (by
        intro n' hn'
        rw [tailsOf_append, hfresh n' (by simp [JIns.toList, hn'])]
        have hne : (info n).1 ≠ (info n').1 := hpw.1 n' hn'
        simp [tailsOf_map_other hne])
      hpw.2
    refine ⟨m', hm', ?_, by rw [ht', Mask.putKid_typ]⟩
    simp only [JIns.toList, List.flatMap_cons]
    rw [← List.append_assoc]
    exact hr'


theorem Kids.keys_eq_map : ∀ K : Kids, K.keys = K.toList.map (·.1)
  | .nil => rfl
  | .cons k m r => by simp [Kids.keys, Kids.toList, Kids.keys_eq_map r]

theorem Kids.get_of_mem : ∀ {K : Kids} {k : Key} {c : Mask}, K.keys.Nodup → (k, c) ∈ K.toList → K.get k = .some c
  | .nil, k, c, _, h => by simp [Kids.toList] at h
  | .cons k' m r, k, c, hnd, h => by
    simp only [Kids.keys, List.nodup_cons] at hnd
    simp only [Kids.toList, List.mem_cons, Prod.mk.injEq] at h
    rcases h with ⟨rfl, rfl⟩ | h
    · simp [Kids.get]
    · have hk : k' ≠ k := by
        intro e; subst e
        apply hnd.1
        rw [Kids.keys_eq_map]
        exact List.mem_map.mpr ⟨(k', c), h, rfl⟩
      simp [Kids.get, hk, Kids.get_of_mem hnd.2 h]

theorem Kids.mem_of_get : ∀ {K : Kids} {k : Key} {c : Mask}, K.get k = .some c → (k, c) ∈ K.toList
  | .nil, k, c, h => by simp [Kids.get] at h
  | .cons k' m r, k, c, h => by
    simp only [Kids.get] at h
    by_cases hk : k' = k
    · simp [hk] at h; subst h; subst hk; simp [Kids.toList]
    · simp [hk] at h
      simp [Kids.toList, Kids.mem_of_get h]

/-- `marshalRec` of a child, made total for use in statements -/
def mkOf (c : Mask) : Bool × JOuts :=
  match marshalKids c with
  | .ok r => r
  | _ => (false, .nil)

def nodeOf (kc : Key × Mask) : JOut := .mk kc.1.toJPath kc.2.typ kc.2.isBlack (mkOf kc.2).1 (mkOf kc.2).2

theorem marshalList_ok : ∀ (K : Kids), (∀ kc ∈ K.toList, kc.2.typ ≠ .invalid ∧ ∃ r, marshalKids kc.2 = .ok r) →
    ∃ J, marshalList K = .ok J ∧ J.toList = K.toList.map nodeOf
  | .nil, _ => ⟨.nil, by simp [marshalList], by simp [JOuts.toList, Kids.toList]⟩
  | .cons k c r, h => by
    obtain ⟨hc, rc, hrc⟩ := h (k, c) (by simp [Kids.toList])
    obtain ⟨J, hJ, hJl⟩ := marshalList_ok r (fun kc hkc => h kc (by simp [Kids.toList, hkc]))
    refine ⟨.cons (nodeOf (k, c)) J, ?_, by simp [JOuts.toList, Kids.toList, hJl]⟩
    rw [marshalList]
    have : (c.typ != .invalid) = true := by simpa using hc
    simp only [this, ↓reduceIte, hrc, Res.ok_bind, hJ, nodeOf, mkOf]

theorem tailsOf_flatMap_same {α} (kk : α → PStep) (T : α → List APath) :
    ∀ (l : List α) (n : α), n ∈ l → l.Pairwise (fun a b => kk a ≠ kk b) →
      tailsOf (kk n) (l.flatMap fun a => (T a).map (kk a :: ·)) = T n
  | [], n, h, _ => by simp at h
  | a :: l, n, h, hpw => by
    simp only [List.pairwise_cons] at hpw
    simp only [List.flatMap_cons, tailsOf_append]
    rcases List.mem_cons.mp h with rfl | h
    · rw [tailsOf_map_same]
      have : tailsOf (kk n) (l.flatMap fun a => (T a).map (kk a :: ·)) = [] := by
        clear h
        induction l with
        | nil => rfl
        | cons b l ih =>
          simp only [List.flatMap_cons, tailsOf_append]
          rw [tailsOf_map_other (Ne.symm (hpw.1 b (by simp))), ih]
          · rfl
          · exact ⟨fun x hx => hpw.1 x (by simp [hx]), (List.pairwise_cons.mp hpw.2).2⟩
      rw [this, List.append_nil]
    · rw [tailsOf_map_other (hpw.1 n h), tailsOf_flatMap_same kk T l n h hpw.2, List.nil_append]

theorem tailsOf_flatMap_other {α} (kk : α → PStep) (T : α → List APath) (k : PStep) :
    ∀ (l : List α), (∀ a ∈ l, kk a ≠ k) → tailsOf k (l.flatMap fun a => (T a).map (kk a :: ·)) = []
  | [], _ => rfl
  | a :: l, h => by
    simp only [List.flatMap_cons, tailsOf_append]
    rw [tailsOf_map_other (h a (by simp)), tailsOf_flatMap_other kk T k l (fun b hb => h b (by simp [hb]))]
    rfl

/-- `Rep` only looks at the path list through `tailsOf` -/
theorem Rep.congr_spec {sch black d m L P} (h : Rep sch black d m L) (hL : AllSpec L) (hP : AllSpec P) (hne : P ≠ [])
    (ht : ∀ k, k.isStar = false → tailsOf k L = tailsOf k P) : Rep sch black d m P := by
  obtain ⟨hia, hhc, hfd, hno, hyes, hrec, hkind, hnd⟩ := h.spec_inv hL
  refine Rep.spec h.typ_ne h.isBlack_eq hne hP hia hhc hfd ?_ hnd ?_ ?_ ?_
  · intro k hk htl; rw [← ht k hk] at htl; exact hkind k hk htl
  · intro k hk htl; rw [← ht k hk] at htl; exact hno k hk htl
  · intro k hk htl; rw [← ht k hk] at htl; exact hyes k hk htl
  · intro k c cu hkid hcu htl
    have hk : k.isStar = false := by
      cases hs : k.isStar with
      | false => rfl
      | true =>
        exfalso
        obtain ⟨typ, isAll, isBlack, all, fdA, fd, intA, ints, strA, strs⟩ := m
        cases k <;> simp_all [PStep.isStar, Mask.kid]
    rw [← ht k hk] at htl ⊢
    exact hrec k c cu hkid hcu htl


theorem JsonSafe_tailsOf {cfg : Sites} {P : List APath} (k : PStep) (h : JsonSafe cfg P = true) :
    JsonSafe cfg (tailsOf k P) = true := by
  unfold JsonSafe at *
  rw [List.all_eq_true] at *
  intro t ht
  have := h _ (mem_tailsOf.mp ht)
  simp only [List.all_cons, Bool.and_eq_true] at this
  exact this.2

theorem JsonSafe_head {cfg : Sites} {P : List APath} {k : PStep} (h : JsonSafe cfg P = true) (hne : tailsOf k P ≠ []) :
    jsonSafeStep cfg k = true := by
  cases hl : tailsOf k P with
  | nil => exact absurd hl hne
  | cons t l =>
    have hm : t ∈ tailsOf k P := by rw [hl]; simp
    unfold JsonSafe at h
    rw [List.all_eq_true] at h
    have := h _ (mem_tailsOf.mp hm)
    simp only [List.all_cons, Bool.and_eq_true] at this
    exact this.1

theorem JsonSafe_map_tail {cfg : Sites} {P : List APath} (h : JsonSafe cfg P = true) :
    JsonSafe cfg (P.map List.tail) = true := by
  unfold JsonSafe at *
  rw [List.all_eq_true] at *
  intro t ht
  rw [List.mem_map] at ht
  obtain ⟨p, hp, rfl⟩ := ht
  have := h p hp
  cases p with
  | nil => simp
  | cons a l => simp only [List.all_cons, Bool.and_eq_true] at this; simpa using this.2

/-- the statement proved by induction on `Rep`: marshalling the node succeeds and transferring the result
onto any empty receiver gives a node that represents the same path set -/
def RT (cfg : Sites) (sch : Schema) (black : Bool) (d : Ty) (m : Mask) (P : List APath) : Prop :=
  JsonSafe cfg P = true →
  ∃ r, marshalKids m = .ok r ∧ ∀ (self : Mask) (raw : JRaw), self.Recv →
    ∃ m', transferFrom cfg self (.mk raw m.typ m.isBlack (JOuts.toIns (JOuts.sortedKids r.2).sort)) = .ok m' ∧
      Rep sch black d m' P ∧ m'.typ = m.typ

theorem allq_of_isAll {typ : Ft} {isAll : Bool} (h : isAll = true) :
    (match typ with
      | .struct | .list | .intMap | .strMap => isAll
      | _ => true) = true := by
  cases typ <;> simp [h]

theorem RT_leaf {cfg sch black d m P} (ht : m.typ ≠ .invalid) (hb : m.isBlack = black) (hne : P ≠ [])
    (hall : ∀ p ∈ P, p = []) (hia : m.isAll = true) (hal : m.all = .none) : RT cfg sch black d m P := by
  intro _
  obtain ⟨typ, isAll, isBlack, all, fdA, fd, intA, ints, strA, strs⟩ := m
  simp only [Mask.typ, Mask.isAll, Mask.all, Mask.isBlack] at ht hb hia hal
  subst hia; subst hal
  refine ⟨(false, .nil), ?_, ?_⟩
  · unfold marshalKids
    cases typ <;> simp
  · intro self raw hrecv
    obtain ⟨styp, sisAll, sisBlack, sall, sfdA, sfd, sintA, sints, sstrA, sstrs⟩ := self
    obtain ⟨h1, h2, h3⟩ := hrecv
    refine ⟨Mask.mk typ true isBlack sall sfdA sfd sintA sints sstrA sstrs, ?_, ?_, ?_⟩
    · simp only [JOuts.sortedKids, JOuts.sort, JOuts.toIns, Mask.typ, Mask.isBlack]
      rw [transferFrom]
      simp only [ht, ↓reduceIte]
      rfl
    · exact Rep.leaf ht hb hne hall rfl h2 h3
    · rfl


theorem Mask.zero_recv : Mask.zero.Recv := ⟨rfl, rfl, rfl, rfl, rfl, rfl, rfl, rfl⟩

theorem transferKids_any {cfg : Sites} {kind : Nat} {self : Mask} {n : JIn} {r : JIns} (h : n.path.isAny = true) :
    transferKids cfg kind self (.cons n r) = (do
      let a ← transferFrom cfg Mask.zero n
      .ok ((self.setIsAll true).setAllM (.some a))) := by
  unfold transferKids
  simp only [h, ↓reduceIte]

theorem RT_star {cfg sch black d m P} (s : PStep) (a : Mask) (cu : Ft × Ty)
    (ht : m.typ ≠ .invalid) (hb : m.isBlack = black) (hne : P ≠ []) (hs : s.isStar = true)
    (hall : ∀ p ∈ P, ∃ t, p = s :: t) (hia : m.isAll = true) (hal : m.all = .some a) (_hnk : m.NoKids)
    (hcu : stepCur sch m.typ d s = some cu) (hat : a.typ = cu.1)
    (hr : Rep sch black cu.2 a (P.map List.tail)) (ih : RT cfg sch black cu.2 a (P.map List.tail)) :
    RT cfg sch black d m P := by
  intro hsafe
  obtain ⟨ra, hma, htr⟩ := ih (JsonSafe_map_tail hsafe)
  obtain ⟨typ, isAll, isBlack, all, fdA, fd, intA, ints, strA, strs⟩ := m
  simp only [Mask.typ, Mask.isAll, Mask.all, Mask.isBlack] at ht hb hia hal hcu
  subst hia; subst hal
  have hane : (a.typ != .invalid) = true := by simpa using hr.typ_ne
  refine ⟨(true, .cons (.mk .any a.typ a.isBlack ra.1 ra.2) .nil), ?_, ?_⟩
  · unfold marshalKids
    cases typ <;> simp [hane, hma]
  · intro self raw hrecv
    obtain ⟨a', ha', hra', hta'⟩ := htr Mask.zero JPath.any.toRaw Mask.zero_recv
    obtain ⟨styp, sisAll, sisBlack, sall, sfdA, sfd, sintA, sints, sstrA, sstrs⟩ := self
    obtain ⟨h1, h2, h3⟩ := hrecv
    refine ⟨Mask.mk typ true isBlack (.some a') sfdA sfd sintA sints sstrA sstrs, ?_, ?_, rfl⟩
    · simp only [JOuts.sortedKids, JOuts.sort, JOuts.insert, JOuts.toIns, JOut.sorted, JOut.toIn]
      change transferFrom cfg _ (JIn.mk raw typ isBlack _) = _
      rw [transferFrom]
      simp only [ht, ↓reduceIte]
      have hk : ∀ kind self, transferKids cfg kind self
          (JIns.cons (JIn.mk JPath.any.toRaw a.typ a.isBlack (JOuts.toIns (JOuts.sortedKids ra.2).sort)) JIns.nil) =
          .ok ((self.setIsAll true).setAllM (.some a')) := by
        intro kind self
        rw [transferKids_any (by rfl), ha', Res.ok_bind]
      cases typ
      · exact absurd rfl ht
      all_goals (simp only [hk]; rfl)
    · exact Rep.star s a' cu ht hb hne hs hall rfl rfl h3 hcu (by rw [hta', hat]) hra'


/-- a child as it arrives at the unmarshaller -/
def wireOf (kc : Key × Mask) : JIn :=
  .mk kc.1.toJPath.toRaw kc.2.typ kc.2.isBlack (JOuts.toIns (JOuts.sortedKids (mkOf kc.2).2).sort)

theorem wireOf_eq (kc : Key × Mask) : (nodeOf kc).sorted.toIn = wireOf kc := rfl

theorem RT_spec_core {cfg : Sites} {sch : Schema} {black : Bool} {d : Ty} {m : Mask} {P : List APath}
    (K : Kids) (kind : Nat) (stp : Key → PStep)
    (ht : m.typ ≠ .invalid) (hb : m.isBlack = black) (hne : P ≠ []) (hall : AllSpec P)
    (hkind : ∀ k, k.isStar = false → tailsOf k P ≠ [] → kindOK m.typ k = true)
    (hKnd : K.keys.Nodup)
    (hno : ∀ k, k.isStar = false → tailsOf k P = [] → m.kid k = .none)
    (hyes : ∀ k, k.isStar = false → tailsOf k P ≠ [] →
         ∃ c cu, m.kid k = .some c ∧ stepCur sch m.typ d k = some cu ∧ c.typ = cu.1)
    (hrec : ∀ k c cu, m.kid k = .some c → stepCur sch m.typ d k = some cu → tailsOf k P ≠ [] →
         Rep sch black cu.2 c (tailsOf k P))
    (ih : ∀ k c cu, m.kid k = .some c → stepCur sch m.typ d k = some cu → tailsOf k P ≠ [] →
         RT cfg sch black cu.2 c (tailsOf k P))
    (hcell : ∀ key c, (key, c) ∈ K.toList → (stp key).isStar = false ∧ m.kid (stp key) = .some c ∧
        (jsonSafeStep cfg (stp key) = true → stepOfKind kind key.toJPath.toRaw = some (stp key) ∧
          key.toJPath.toRaw.isAny = false ∧ preOfKind cfg kind (stp key) = .ok ()))
    (hinj : ∀ key key', key ∈ K.keys → key' ∈ K.keys → stp key = stp key' → key = key')
    (hsurj : ∀ k, k.isStar = false → tailsOf k P ≠ [] → ∃ key c, (key, c) ∈ K.toList ∧ stp key = k)
    (hmar : ∀ J, marshalList K = .ok J → marshalKids m = .ok (true, J))
    (htf : ∀ (self : Mask) (raw : JRaw) (n : JIn) (r : JIns),
        transferFrom cfg self (.mk raw m.typ m.isBlack (.cons n r)) =
          transferKids cfg kind ((self.setTyp m.typ).setIsBlack m.isBlack) (.cons n r)) :
    RT cfg sch black d m P := by
  intro hsafe
  -- every cell of the child map is a represented child
  have hcells : ∀ kc ∈ K.toList, tailsOf (stp kc.1) P ≠ [] ∧ ∃ cu, stepCur sch m.typ d (stp kc.1) = some cu ∧
      kc.2.typ = cu.1 ∧ Rep sch black cu.2 kc.2 (tailsOf (stp kc.1) P) ∧ RT cfg sch black cu.2 kc.2 (tailsOf (stp kc.1) P) := by
    intro kc hkc
    obtain ⟨hst, hkid, _⟩ := hcell kc.1 kc.2 hkc
    have htl : tailsOf (stp kc.1) P ≠ [] := by
      intro h
      rw [hno _ hst h] at hkid
      cases hkid
    obtain ⟨c, cu, hkid', hcu, hct⟩ := hyes _ hst htl
    rw [hkid] at hkid'
    cases hkid'
    exact ⟨htl, cu, hcu, hct, hrec _ _ _ hkid hcu htl, ih _ _ _ hkid hcu htl⟩
  have hmk : ∀ kc ∈ K.toList, kc.2.typ ≠ .invalid ∧ ∃ r, marshalKids kc.2 = .ok r := by
    intro kc hkc
    obtain ⟨htl, cu, _, _, hr, hrt⟩ := hcells kc hkc
    obtain ⟨r, hr', _⟩ := hrt (JsonSafe_tailsOf _ hsafe)
    exact ⟨hr.typ_ne, r, hr'⟩
  obtain ⟨J, hJ, hJl⟩ := marshalList_ok K hmk
  refine ⟨(true, J), hmar J hJ, ?_⟩
  intro self raw hrecv
  -- the children on the wire
  have hperm : (JOuts.toIns (JOuts.sortedKids J).sort).toList.Perm (K.toList.map wireOf) := by
    have := toList_wire J
    rw [hJl, List.map_map] at this
    exact this
  -- K is not empty
  obtain ⟨k0, t0, hp0, hk0⟩ : ∃ k t, (k :: t) ∈ P ∧ k.isStar = false := by
    cases P with
    | nil => exact absurd rfl hne
    | cons p P' =>
      obtain ⟨k, t, rfl, hk⟩ := hall p (by simp)
      exact ⟨k, t, by simp, hk⟩
  have htl0 : tailsOf k0 P ≠ [] := by
    intro h
    have := mem_tailsOf.mpr hp0
    rw [h] at this
    cases this
  obtain ⟨key0, c0, hmem0, _⟩ := hsurj k0 hk0 htl0
  obtain ⟨n0, r0, hjs⟩ : ∃ n0 r0, JOuts.toIns (JOuts.sortedKids J).sort = .cons n0 r0 := by
    cases hjs : JOuts.toIns (JOuts.sortedKids J).sort with
    | nil =>
      rw [hjs] at hperm
      have := hperm.length_eq
      simp only [JIns.toList, List.length_nil, List.length_map] at this
      have hl : K.toList.length ≠ 0 := by
        intro h
        rw [List.length_eq_zero_iff] at h
        rw [h] at hmem0
        cases hmem0
      exact absurd this.symm hl
    | cons n0 r0 => exact ⟨n0, r0, rfl⟩
  · rw [hjs, htf, ← hjs]
    let info : JIn → PStep × List APath := fun n =>
      ((stepOfKind kind n.path).getD .any, tailsOf ((stepOfKind kind n.path).getD .any) P)
    have hinfo : ∀ kc ∈ K.toList, info (wireOf kc) = (stp kc.1, tailsOf (stp kc.1) P) := by
      intro kc hkc
      obtain ⟨htl, _⟩ := hcells kc hkc
      obtain ⟨hst, _, hsafe'⟩ := hcell kc.1 kc.2 hkc
      obtain ⟨h1, _, _⟩ := hsafe' (JsonSafe_head hsafe htl)
      simp only [info, wireOf, JIn.path, h1, Option.getD_some]
    have hself : ((self.setTyp m.typ).setIsBlack m.isBlack).Fresh black := by
      obtain ⟨styp, sisAll, sisBlack, sall, sfdA, sfd, sintA, sints, sstrA, sstrs⟩ := self
      obtain ⟨h1, h2, h3⟩ := hrecv
      exact ⟨h1, h2, hb, h3⟩
    have htyp' : ((self.setTyp m.typ).setIsBlack m.isBlack).typ = m.typ := by
      obtain ⟨styp, sisAll, sisBlack, sall, sfdA, sfd, sintA, sints, sstrA, sstrs⟩ := self
      rfl
    have hmemw : ∀ n ∈ (JOuts.toIns (JOuts.sortedKids J).sort).toList, ∃ kc ∈ K.toList, n = wireOf kc := by
      intro n hn
      have := hperm.mem_iff.mp hn
      rw [List.mem_map] at this
      obtain ⟨kc, hkc, rfl⟩ := this
      exact ⟨kc, hkc, rfl⟩
    obtain ⟨m', hm', hr', ht'⟩ := transferKids_rep (cfg := cfg) (sch := sch) (black := black) (d := d) (kind := kind) info
      (JOuts.toIns (JOuts.sortedKids J).sort) ((self.setTyp m.typ).setIsBlack m.isBlack) []
      (Or.inl ⟨rfl, hself⟩) (by intro p hp; cases hp) (by rw [htyp']; exact ht)
      (by
        intro n hn
        obtain ⟨kc, hkc, rfl⟩ := hmemw n hn
        obtain ⟨htl, cu, hcu, hct, hr, hrt⟩ := hcells kc hkc
        obtain ⟨hst, hkid, hsafe'⟩ := hcell kc.1 kc.2 hkc
        obtain ⟨h1, h2, h3⟩ := hsafe' (JsonSafe_head hsafe htl)
        rw [hinfo kc hkc, htyp']
        obtain ⟨rc, hrc, htrc⟩ := hrt (JsonSafe_tailsOf _ hsafe)
        refine ⟨h2, h1, hst, hkind _ hst htl, h3, cu, hcu, hct, htl, ?_⟩
        intro recv hrv
        have hmo : mkOf kc.2 = rc := by simp [mkOf, hrc]
        obtain ⟨c', hc', hrc', htc'⟩ := htrc recv kc.1.toJPath.toRaw hrv
        exact ⟨c', by simpa [wireOf, hmo] using hc', hrc', htc'⟩)
      (by intro n _; rfl)
      (by
        have hE : (K.toList.map wireOf).Pairwise (fun a b => (info a).1 ≠ (info b).1) := by
          rw [List.pairwise_map]
          have hnd : K.toList.Pairwise (fun a b => a.1 ≠ b.1) := by
            have := hKnd
            rw [Kids.keys_eq_map, List.nodup_iff_pairwise_ne, List.pairwise_map] at this
            exact this
          apply hnd.imp_of_mem
          intro a b ha hb hab
          rw [hinfo a ha, hinfo b hb]
          intro e
          apply hab
          apply hinj
          · rw [Kids.keys_eq_map]; exact List.mem_map.mpr ⟨a, ha, rfl⟩
          · rw [Kids.keys_eq_map]; exact List.mem_map.mpr ⟨b, hb, rfl⟩
          · exact e
        exact (hperm.pairwise_iff (fun {a b} h e => h e.symm)).mpr hE)
    simp only [List.nil_append] at hr'
    have hLne : (JOuts.toIns (JOuts.sortedKids J).sort).toList.flatMap (fun n => (info n).2.map ((info n).1 :: ·)) ≠ [] := by
      rw [hjs]
      simp only [JIns.toList, List.flatMap_cons]
      intro h
      have hn0 : n0 ∈ (JOuts.toIns (JOuts.sortedKids J).sort).toList := by rw [hjs]; simp [JIns.toList]
      obtain ⟨kc, hkc, rfl⟩ := hmemw n0 hn0
      obtain ⟨htl, _⟩ := hcells kc hkc
      rw [hinfo kc hkc] at h
      have := (List.append_eq_nil_iff.mp h).1
      simp only [List.map_eq_nil_iff] at this
      exact htl this
    refine ⟨m', hm', ?_, by rw [ht', htyp']⟩
    have hL : AllSpec ((JOuts.toIns (JOuts.sortedKids J).sort).toList.flatMap (fun n => (info n).2.map ((info n).1 :: ·))) := by
      intro p hp
      rw [List.mem_flatMap] at hp
      obtain ⟨n, hn, hp⟩ := hp
      rw [List.mem_map] at hp
      obtain ⟨t, _, rfl⟩ := hp
      obtain ⟨kc, hkc, rfl⟩ := hmemw n hn
      rw [hinfo kc hkc]
      exact ⟨_, t, rfl, (hcell kc.1 kc.2 hkc).1⟩
    apply (hr'.rep hLne).congr_spec hL hall hne
    intro k hk
    by_cases hex : ∃ n ∈ (JOuts.toIns (JOuts.sortedKids J).sort).toList, (info n).1 = k
    · obtain ⟨n, hn, rfl⟩ := hex
      have hpw : (JOuts.toIns (JOuts.sortedKids J).sort).toList.Pairwise (fun a b => (info a).1 ≠ (info b).1) := by
        have hE : (K.toList.map wireOf).Pairwise (fun a b => (info a).1 ≠ (info b).1) := by
          rw [List.pairwise_map]
          have hnd : K.toList.Pairwise (fun a b => a.1 ≠ b.1) := by
            have := hKnd
            rw [Kids.keys_eq_map, List.nodup_iff_pairwise_ne, List.pairwise_map] at this
            exact this
          apply hnd.imp_of_mem
          intro a b ha hb hab
          rw [hinfo a ha, hinfo b hb]
          intro e
          apply hab
          apply hinj
          · rw [Kids.keys_eq_map]; exact List.mem_map.mpr ⟨a, ha, rfl⟩
          · rw [Kids.keys_eq_map]; exact List.mem_map.mpr ⟨b, hb, rfl⟩
          · exact e
        exact (hperm.pairwise_iff (fun {a b} h e => h e.symm)).mpr hE
      rw [tailsOf_flatMap_same (fun n => (info n).1) (fun n => (info n).2) _ n hn hpw]
    · have hno' : ∀ n ∈ (JOuts.toIns (JOuts.sortedKids J).sort).toList, (info n).1 ≠ k := by
        intro n hn e; exact hex ⟨n, hn, e⟩
      rw [tailsOf_flatMap_other (fun n => (info n).1) (fun n => (info n).2) k _ hno']
      cases hcon : tailsOf k P with
      | nil => rfl
      | cons t0' l0' =>
      exfalso
      have htl : tailsOf k P ≠ [] := by rw [hcon]; simp
      obtain ⟨key, c, hmem, hstp⟩ := hsurj k hk htl
      have hw : wireOf (key, c) ∈ (JOuts.toIns (JOuts.sortedKids J).sort).toList :=
        hperm.mem_iff.mpr (List.mem_map.mpr ⟨(key, c), hmem, rfl⟩)
      apply hno' _ hw
      rw [hinfo (key, c) hmem]
      exact hstp


theorem transferFrom_cons {cfg : Sites} {self : Mask} {raw : JRaw} {typ : Ft} {black : Bool} {n : JIn} {r : JIns}
    (ht : typ ≠ .invalid) :
    transferFrom cfg self (.mk raw typ black (.cons n r)) =
      transferKids cfg (match typ with | .struct => 0 | .list | .intMap => 1 | .strMap => 2 | _ => 3)
        ((self.setTyp typ).setIsBlack black) (.cons n r) := by
  rw [transferFrom]
  simp only [ht, ↓reduceIte]
  cases typ <;> first | rfl | exact absurd rfl ht

theorem RT_spec {cfg : Sites} {sch : Schema} {black : Bool} {d : Ty} {m : Mask} {P : List APath}
    (ht : m.typ ≠ .invalid) (hb : m.isBlack = black) (hne : P ≠ []) (hall : AllSpec P)
    (hia : m.isAll = false) (hfd : m.fdA = true ∨ m.fd = .nil)
    (hkind : ∀ k, k.isStar = false → tailsOf k P ≠ [] → kindOK m.typ k = true)
    (hnd : m.fd.wfI ∧ m.ints.wfI ∧ m.strs.wfS)
    (hno : ∀ k, k.isStar = false → tailsOf k P = [] → m.kid k = .none)
    (hyes : ∀ k, k.isStar = false → tailsOf k P ≠ [] →
         ∃ c cu, m.kid k = .some c ∧ stepCur sch m.typ d k = some cu ∧ c.typ = cu.1)
    (hrec : ∀ k c cu, m.kid k = .some c → stepCur sch m.typ d k = some cu → tailsOf k P ≠ [] →
         Rep sch black cu.2 c (tailsOf k P))
    (ih : ∀ k c cu, m.kid k = .some c → stepCur sch m.typ d k = some cu → tailsOf k P ≠ [] →
         RT cfg sch black cu.2 c (tailsOf k P)) :
    RT cfg sch black d m P := by
  -- some path starts with a specific step, which fixes the kind of the node
  obtain ⟨k0, t0, hp0, hk0⟩ : ∃ k t, (k :: t) ∈ P ∧ k.isStar = false := by
    cases P with
    | nil => exact absurd rfl hne
    | cons p P' =>
      obtain ⟨k, t, rfl, hk⟩ := hall p (by simp)
      exact ⟨k, t, by simp, hk⟩
  have htl0 : tailsOf k0 P ≠ [] := by
    intro h
    have := mem_tailsOf.mpr hp0
    rw [h] at this
    cases this
  have hk0k := hkind k0 hk0 htl0
  obtain ⟨c0, cu0, hkid0, _, _⟩ := hyes k0 hk0 htl0
  obtain ⟨typ, isAll, isBlack, all, fdA, fd, intA, ints, strA, strs⟩ := m
  simp only [Mask.typ, Mask.isAll, Mask.isBlack, Mask.fdA, Mask.fd, Mask.ints, Mask.strs] at ht hb hia hfd hkind hnd hk0k
  subst hia
  cases typ with
  | invalid => exact absurd rfl ht
  | scalar => cases k0 <;> simp_all [kindOK, PStep.isStar]
  | struct =>
    have hk0f : ∃ id, k0 = .field id := by cases k0 <;> simp_all [kindOK, PStep.isStar]
    obtain ⟨id0, rfl⟩ := hk0f
    have hfdA : fdA = true := by
      cases hfd with
      | inl h => exact h
      | inr h => simp [Mask.kid, Mask.fd, h, Kids.get] at hkid0
    subst hfdA
    apply RT_spec_core (m := Mask.mk .struct false isBlack all true fd intA ints strA strs) fd 0 (fun key => match key with | .i n => .field n | .s _ => .any) ht hb hne hall hkind hnd.1.1 hno hyes hrec ih
    · intro key c hmem
      have hkey : key ∈ fd.keys := by rw [Kids.keys_eq_map]; exact List.mem_map.mpr ⟨(key, c), hmem, rfl⟩
      obtain ⟨n, rfl⟩ := hnd.1.2 key hkey
      refine ⟨rfl, Kids.get_of_mem hnd.1.1 hmem, ?_⟩
      intro hs
      simp only [jsonSafeStep, Bool.and_eq_true, Bool.or_eq_true, Bool.not_eq_true', decide_eq_true_eq] at hs
      refine ⟨by simp [stepOfKind, Key.toJPath, JPath.toRaw, hs.1], rfl, ?_⟩
      simp only [preOfKind, siteHead]
      rcases hs.2 with h | h
      · simp [h]
      · have : ¬ n < 0 := by omega
        simp [this]
    · intro key key' hk hk' he
      obtain ⟨n, rfl⟩ := hnd.1.2 key hk
      obtain ⟨n', rfl⟩ := hnd.1.2 key' hk'
      simp only [PStep.field.injEq] at he
      rw [he]
    · intro k hk htl
      have hkk := hkind k hk htl
      have : ∃ id, k = .field id := by cases k <;> simp_all [kindOK, PStep.isStar]
      obtain ⟨id, rfl⟩ := this
      obtain ⟨c, cu, hkid, _, _⟩ := hyes _ hk htl
      exact ⟨.i id, c, Kids.mem_of_get hkid, rfl⟩
    · intro J hJ
      unfold marshalKids
      simp [hJ]
    · intro self raw n r
      exact transferFrom_cons ht
  | list =>
    have hk0f : ∃ id, k0 = .idx id := by cases k0 <;> simp_all [kindOK, PStep.isStar]
    obtain ⟨id0, rfl⟩ := hk0f
    apply RT_spec_core (m := Mask.mk .list false isBlack all fdA fd intA ints strA strs) ints 1 (fun key => match key with | .i n => .idx n | .s _ => .any) ht hb hne hall hkind hnd.2.1.1 hno hyes hrec ih
    · intro key c hmem
      have hkey : key ∈ ints.keys := by rw [Kids.keys_eq_map]; exact List.mem_map.mpr ⟨(key, c), hmem, rfl⟩
      obtain ⟨n, rfl⟩ := hnd.2.1.2 key hkey
      refine ⟨rfl, Kids.get_of_mem hnd.2.1.1 hmem, ?_⟩
      intro hs
      simp only [jsonSafeStep] at hs
      exact ⟨by simp [stepOfKind, Key.toJPath, JPath.toRaw, hs], rfl, rfl⟩
    · intro key key' hk hk' he
      obtain ⟨n, rfl⟩ := hnd.2.1.2 key hk
      obtain ⟨n', rfl⟩ := hnd.2.1.2 key' hk'
      simp only [PStep.idx.injEq] at he
      rw [he]
    · intro k hk htl
      have hkk := hkind k hk htl
      have : ∃ id, k = .idx id := by cases k <;> simp_all [kindOK, PStep.isStar]
      obtain ⟨id, rfl⟩ := this
      obtain ⟨c, cu, hkid, _, _⟩ := hyes _ hk htl
      exact ⟨.i id, c, Kids.mem_of_get hkid, rfl⟩
    · intro J hJ
      unfold marshalKids
      simp [hJ]
    · intro self raw n r
      exact transferFrom_cons ht
  | intMap =>
    have hk0f : ∃ id, k0 = .idx id := by cases k0 <;> simp_all [kindOK, PStep.isStar]
    obtain ⟨id0, rfl⟩ := hk0f
    apply RT_spec_core (m := Mask.mk .intMap false isBlack all fdA fd intA ints strA strs) ints 1 (fun key => match key with | .i n => .idx n | .s _ => .any) ht hb hne hall hkind hnd.2.1.1 hno hyes hrec ih
    · intro key c hmem
      have hkey : key ∈ ints.keys := by rw [Kids.keys_eq_map]; exact List.mem_map.mpr ⟨(key, c), hmem, rfl⟩
      obtain ⟨n, rfl⟩ := hnd.2.1.2 key hkey
      refine ⟨rfl, Kids.get_of_mem hnd.2.1.1 hmem, ?_⟩
      intro hs
      simp only [jsonSafeStep] at hs
      exact ⟨by simp [stepOfKind, Key.toJPath, JPath.toRaw, hs], rfl, rfl⟩
    · intro key key' hk hk' he
      obtain ⟨n, rfl⟩ := hnd.2.1.2 key hk
      obtain ⟨n', rfl⟩ := hnd.2.1.2 key' hk'
      simp only [PStep.idx.injEq] at he
      rw [he]
    · intro k hk htl
      have hkk := hkind k hk htl
      have : ∃ id, k = .idx id := by cases k <;> simp_all [kindOK, PStep.isStar]
      obtain ⟨id, rfl⟩ := this
      obtain ⟨c, cu, hkid, _, _⟩ := hyes _ hk htl
      exact ⟨.i id, c, Kids.mem_of_get hkid, rfl⟩
    · intro J hJ
      unfold marshalKids
      simp [hJ]
    · intro self raw n r
      exact transferFrom_cons ht
  | strMap =>
    have hk0f : ∃ id, k0 = .key id := by cases k0 <;> simp_all [kindOK, PStep.isStar]
    obtain ⟨id0, rfl⟩ := hk0f
    apply RT_spec_core (m := Mask.mk .strMap false isBlack all fdA fd intA ints strA strs) strs 2 (fun key => match key with | .s b => .key b | .i _ => .any) ht hb hne hall hkind hnd.2.2.1 hno hyes hrec ih
    · intro key c hmem
      have hkey : key ∈ strs.keys := by rw [Kids.keys_eq_map]; exact List.mem_map.mpr ⟨(key, c), hmem, rfl⟩
      obtain ⟨n, rfl⟩ := hnd.2.2.2 key hkey
      refine ⟨rfl, Kids.get_of_mem hnd.2.2.1 hmem, ?_⟩
      intro hs
      simp only [jsonSafeStep, Bool.and_eq_true, bne_iff_ne, ne_eq] at hs
      exact ⟨by simp [stepOfKind, Key.toJPath, JPath.toRaw], by simp [Key.toJPath, JPath.toRaw, hs.1], rfl⟩
    · intro key key' hk hk' he
      obtain ⟨n, rfl⟩ := hnd.2.2.2 key hk
      obtain ⟨n', rfl⟩ := hnd.2.2.2 key' hk'
      simp only [PStep.key.injEq] at he
      rw [he]
    · intro k hk htl
      have hkk := hkind k hk htl
      have : ∃ id, k = .key id := by cases k <;> simp_all [kindOK, PStep.isStar]
      obtain ⟨id, rfl⟩ := this
      obtain ⟨c, cu, hkid, _, _⟩ := hyes _ hk htl
      exact ⟨.s id, c, Kids.mem_of_get hkid, rfl⟩
    · intro J hJ
      unfold marshalKids
      simp [hJ]
    · intro self raw n r
      exact transferFrom_cons ht

/-- every node of a trie satisfying `Rep` survives MarshalJSON / UnmarshalJSON -/
theorem roundtrip_rep {cfg : Sites} {sch : Schema} {black : Bool} {d : Ty} {m : Mask} {P : List APath}
    (h : Rep sch black d m P) : RT cfg sch black d m P := by
  induction h with
  | leaf ht hb hne hall hia hal hnk => exact RT_leaf ht hb hne hall hia hal
  | star s a cu ht hb hne hs hall hia hal hnk hcu hat hr ih => exact RT_star s a cu ht hb hne hs hall hia hal hnk hcu hat hr ih
  | spec ht hb hne hall hia hhc hfd hkind hnd hno hyes hrec ih =>
    exact RT_spec ht hb hne hall hia hfd hkind hnd hno hyes hrec ih

/-- MarshalJSON then UnmarshalJSON of a represented mask gives a mask representing the same path set -/
theorem json_roundtrip_rep {cfg : Sites} {sch : Schema} {black : Bool} {d : Ty} {m : Mask} {P : List APath}
    (h : Rep sch black d m P) (hsafe : JsonSafe cfg P = true) :
    ∃ j, marshal m = .ok j ∧ ∃ m', unmarshal cfg (some j.toIn) = .ok m' ∧ Rep sch black d m' P := by
  obtain ⟨r, hr, htr⟩ := roundtrip_rep (cfg := cfg) h hsafe
  obtain ⟨m', hm', hrm', _⟩ := htr Mask.zero JPath.root.toRaw Mask.zero_recv
  refine ⟨(JOut.mk .root m.typ m.isBlack r.1 r.2).sorted, ?_, m', ?_, hrm'⟩
  · simp only [marshal, hr, Res.ok_bind]
  · simp only [unmarshal, JOut.sorted, JOut.toIn, JIn.path]
    exact hm'



theorem strEnd_ge : ∀ (l : Bytes) (o : Bool) (i : Nat), i ≤ strEnd l o i
  | [], o, i => by simp [strEnd]
  | c :: r, o, i => by
    unfold strEnd
    split
    · split
      · omega
      · next r' => have := strEnd_ge r' o (i + 2); omega
    · split
      · split
        · omega
        · have := strEnd_ge r true (i + 1); omega
      · have := strEnd_ge r o (i + 1); omega

theorem litSpan_length : ∀ (l : Bytes), (litSpan l).1.length + (litSpan l).2.length = l.length
  | [] => by simp [litSpan]
  | c :: r => by
    simp only [litSpan]
    split
    · simp
    · have := litSpan_length r
      simp only [List.length_cons]
      omega

/-- with the repaired `lit()` every token read at a non-empty suffix consumes input -/
theorem progress_of_repaired {cfg : Sites} (h : cfg.litStall = false) (p : Bytes) : Progress cfg p := by
  intro r _ t r' hn hne
  cases r with
  | nil => exact absurd rfl hne
  | cons c r0 =>
    rw [next] at hn
    have one : ∀ {t' : Tok}, (Res.ok (t', r0) : Res (Tok × Bytes)) = .ok (t, r') → r'.length < (c :: r0).length := by
      intro t' h
      simp only [Res.ok.injEq, Prod.mk.injEq] at h
      rw [← h.2]; simp
    split at hn
    · exact one hn
    split at hn
    · exact one hn
    split at hn
    · exact one hn
    split at hn
    · exact one hn
    split at hn
    · exact one hn
    split at hn
    · exact one hn
    split at hn
    · exact one hn
    split at hn
    · exact one hn
    split at hn
    · rename_i hq
      unfold nextStr at hn
      simp only at hn
      split at hn
      · unfold siteStrSlice siteErrTok at hn
        split at hn
        · simp at hn
        · split at hn <;> simp at hn
      · rename_i hle
        split at hn
        · unfold siteErrTok at hn
          split at hn <;> simp at hn
        · simp only [Res.ok.injEq, Prod.mk.injEq] at hn
          rw [← hn.2]
          have h1 : 1 ≤ strEnd (c :: r0) false 0 := by
            unfold strEnd
            have hc92 : ¬ c = 92 := by omega
            simp only [hc92, ↓reduceIte, hq, Bool.false_eq_true]
            exact strEnd_ge r0 true 1
          simp only [List.length_drop, List.length_cons] at *
          omega
    · unfold nextLit at hn
      have hl := litSpan_length (c :: r0)
      split at hn
      rename_i v rest hls
      rw [hls] at hl
      split at hn
      · exact one hn
      · rename_i hv
        have hvne : v.length ≥ 1 := by
          cases v with
          | nil => simp [h] at hv
          | cons a l => simp
        split at hn
        · rw [Res.bind_eq_ok] at hn
          obtain ⟨n, _, hn⟩ := hn
          simp only [Res.ok.injEq, Prod.mk.injEq] at hn
          rw [← hn.2]
          simp only at hl
          omega
        · simp only [Res.ok.injEq, Prod.mk.injEq] at hn
          rw [← hn.2]
          simp only at hl
          omega


end FieldMask
