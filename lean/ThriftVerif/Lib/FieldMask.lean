import ThriftVerif.Core.VL
/-
  Model of /repo/fieldmask : mask.go (addPath, queries, ForEachChild), path.go (tokenizer,
  GetPath/PathInMask), storage.go (the three child maps), serdes.go (MarshalJSON /
  UnmarshalJSON as trees), utils.go (switchFt / unwrapDesc).

  Conventions
  * Go strings are `Bytes`.  A `*thrift_reflection.TypeDescriptor` is a `Ty`; the global
    descriptor it resolves names in is a `Schema` (sent by the harness, read off the
    `FileDescriptor` that `thrift_reflection.RegisterAST` produced).
  * A Go panic is the outcome `Res.panic site`; every panic site of the library is ONE
    definition in the section "panic sites" below, switched by a `Sites` record
    (`true` = the site panics, as on the tree this model was written against; `false` = the
    site behaves as after the minimal repair proposed in docs/C14.md).  The record in use
    is regenerated on every run by probing the real code (`Generated.C14.sites`); all
    theorems are stated for every `Sites` value.
  * Unbounded loops (typedef chains, the token loop) take fuel; exhaustion is `Res.crash`.
  * The pointer trie is a tree (nodes are never shared), so in-place mutation along the
    current path is modelled by rebuilding the spine.
  * Errors carry a class (never compared with Go's message texts).
-/
namespace FieldMask

/-! ## outcomes -/

inductive Site
  | headNeg          -- storage.go: head[f] with f < 0 (SetIfNotExist / Get)
  | atoi             -- path.go newPathToken: strconv.Atoi error -> panic(err)
  | int32            -- path.go pathValue.Int32: "integer overflow"
  | errTok           -- path.go newPathToken(pathTypeERR, ..): "unspported pathType"
  | strSlice         -- path.go str(): src[pos:i] with i = len+1 (backslash is the last byte)
  | getPathStar      -- path.go GetPath: f.GetID() with f == nil after a '*' field step
  | fieldNilFd       -- storage.go (*fieldMap).Get on a nil *fieldMap (Field() on a non-struct node)
  | foreachNilFd     -- mask.go ForEachChild: fm.tail with fm == nil
  | foreachInvalid   -- mask.go ForEachChild: explicit panic for typ == 0
  | marshalNilFd     -- serdes.go marshalRec: len(self.fdMask.tail) with fdMask == nil
  deriving DecidableEq, Repr

def Site.key : Site → String
  | .headNeg => "head-negative-index"
  | .atoi => "atoi-overflow"
  | .int32 => "int32-overflow"
  | .errTok => "err-token"
  | .strSlice => "str-slice-oob"
  | .getPathStar => "getpath-star-nil-field"
  | .fieldNilFd => "field-nil-fdmask"
  | .foreachNilFd => "foreach-nil-fdmask"
  | .foreachInvalid => "foreach-invalid-type"
  | .marshalNilFd => "marshal-nil-fdmask"

inductive Err
  | eof | unexpected | wrongKind | unknownField | conflict | emptySet | notLiteral
  | keyKind | unsupported | noChildren | badToken | intRange | json
  deriving DecidableEq, Repr

inductive Res (α : Type) where
  | ok (a : α)
  | err (e : Err)
  | panic (s : Site)
  | crash
  deriving Repr

instance : Monad Res where
  pure := .ok
  bind x f := match x with
    | .ok a => f a
    | .err e => .err e
    | .panic s => .panic s
    | .crash => .crash

/-- which sites panic (`true`) and which behave as repaired (`false`) -/
structure Sites where
  headNeg : Bool
  atoi : Bool
  int32 : Bool
  errTok : Bool
  strSlice : Bool
  getPathStar : Bool
  fieldNilFd : Bool
  foreachNilFd : Bool
  foreachInvalid : Bool
  /-- path.go lit(): at a backslash the literal is empty and the iterator does not advance
  (GetPath then loops forever under an "all" node); repaired: the backslash is consumed as a one-byte literal -/
  litStall : Bool
  /-- path.go GetPath does not unwrapDesc typedef'd descriptors (addPath does); repaired: it does -/
  gpNoUnwrap : Bool
  /-- mask.go Field/Int/Str, isAll branch, black list: answers `self.hasChild()`, so a final '*' rejects nothing;
  repaired: answers `self.all != nil && self.all.hasChild()` -/
  blackStar : Bool
  /-- path.go GetPath checks `cur.typ` against the step kind even on an isAll node (whose type tag, after a struct
  '*', is the FIRST field's): `$.*` then PathInMask("$.s.a") is false; repaired: the checks apply to non-all nodes only -/
  gpTypAll : Bool
  /-- mask.go addPath, end of path: `cur.isAll = true` keeps the children that earlier, deeper paths settled below the
  node (`$.s.a` then `$.s`: black list leaves `s` hollowed out, white `$.l[*].z` then `$.l` still filters);
  repaired: `cur.all, cur.fdMask, cur.intMask, cur.strMask = nil, nil, nil, nil` as well -/
  prefixKeeps : Bool
  deriving DecidableEq, Repr

/-- the tree this model was written against -/
def Sites.asFound : Sites := ⟨true, true, true, true, true, true, true, true, true, true, true, true, true, true⟩
/-- every proposed repair applied -/
def Sites.repaired : Sites := ⟨false, false, false, false, false, false, false, false, false, false, false, false, false, false⟩

/-! ## panic sites (one definition each) -/

/-- storage.go:55/78 `if f <= 63 { .. self.head[f] .. }`; repaired: `f >= 0 && f <= 63`, a
negative id then lives in `tail`, which the model does not distinguish from `head`. -/
def siteHead (cfg : Sites) (f : Int) : Res Unit :=
  if cfg.headNeg && decide (f < 0) then .panic .headNeg else .ok ()

/-- path.go:166 `strconv.Atoi(val)` on a digit string: fails iff the value exceeds MaxInt64.
repaired: an error token (every caller returns an error / `nil,false`). -/
def siteAtoi (cfg : Sites) (n : Nat) : Res Nat :=
  if n > 9223372036854775807 then (if cfg.atoi then .panic .atoi else .err .badToken) else .ok n

/-- path.go:94 `Int32()`; repaired: a path error. -/
def siteInt32 (cfg : Sites) (n : Nat) : Res Int :=
  if n > 2147483647 then (if cfg.int32 then .panic .int32 else .err .intRange) else .ok (Int.ofNat n)

/-- path.go:227 `newPathToken(pathTypeERR, ..)` reaches the `default: panic` of newPathToken;
repaired: an error token. -/
def siteErrTok (cfg : Sites) {α} : Res α :=
  if cfg.errTok then .panic .errTok else .err .badToken

/-- path.go:289 `p.src[p.pos:i]` with `i = len(src)+1`; repaired: clamp, the literal is then
unterminated, i.e. an error token. -/
def siteStrSlice (cfg : Sites) {α} : Res α :=
  if cfg.strSlice then .panic .strSlice else siteErrTok cfg

/-! ## descriptors -/

inductive Ty
  | named (n : Bytes)
  | list (e : Ty)          -- list<e> and set<e>
  | map (k v : Ty)
  deriving DecidableEq, Repr

structure FieldD where
  id : Int
  name : Bytes
  ty : Ty
  deriving DecidableEq, Repr

structure Schema where
  structs : List (Bytes × List FieldD)
  typedefs : List (Bytes × Ty)
  enums : List Bytes
  deriving Repr

def assoc {α} (k : Bytes) : List (Bytes × α) → Option α
  | [] => none
  | (k', v) :: r => if k' = k then some v else assoc k r

/-- utils.IsBasic -/
def isBasicName (n : Bytes) : Bool :=
  n = [105, 56] /-i8-/ || n = [105, 49, 54] /-i16-/ || n = [105, 51, 50] /-i32-/ || n = [105, 54, 52] /-i64-/ ||
  n = [100, 111, 117, 98, 108, 101] /-double-/ || n = [115, 116, 114, 105, 110, 103] /-string-/ || n = [98, 121, 116, 101] /-byte-/ ||
  n = [98, 105, 110, 97, 114, 121] /-binary-/ || n = [98, 111, 111, 108] /-bool-/

/-- a name with a '.' is looked up through `Includes`; the harness registers single files, so
such a name resolves to nothing -/
def dotted (n : Bytes) : Bool := n.contains 46

def Schema.typedefOf (s : Schema) : Ty → Option Ty
  | .named n => if isBasicName n || dotted n then none else assoc n s.typedefs
  | _ => none

def Schema.structOf (s : Schema) : Ty → Option (List FieldD)
  | .named n => if isBasicName n || dotted n then none else assoc n s.structs
  | _ => none

def Schema.isEnum (s : Schema) : Ty → Bool
  | .named n => !(isBasicName n || dotted n) && s.enums.contains n
  | _ => false

def Ty.isBasic : Ty → Bool
  | .named n => isBasicName n
  | _ => false
def Ty.isList : Ty → Bool
  | .list _ => true
  | _ => false
def Ty.isMap : Ty → Bool
  | .map _ _ => true
  | _ => false

/-- utils.go unwrapDesc: `for desc.IsTypedef() { desc = td.GetType() }` -/
def Schema.unwrapF (s : Schema) : Nat → Ty → Option Ty
  | 0, _ => none
  | f + 1, t => match s.typedefOf t with
    | none => some t
    | some t' => s.unwrapF f t'

def Schema.fuel (s : Schema) : Nat := s.typedefs.length + 1

def Schema.unwrap (s : Schema) (t : Ty) : Option Ty := s.unwrapF s.fuel t

/-- FieldMaskType -/
inductive Ft | invalid | scalar | list | struct | strMap | intMap
  deriving DecidableEq, Repr

def Ft.toNat : Ft → Nat
  | .invalid => 0 | .scalar => 1 | .list => 2 | .struct => 3 | .strMap => 4 | .intMap => 5
def Ft.ofCode : Nat → Ft
  | 1 => .scalar | 2 => .list | 3 => .struct | 4 => .strMap | 5 => .intMap | _ => .invalid

def isIntKeyName (n : Bytes) : Bool :=
  n = [105, 56] /-i8-/ || n = [105, 49, 54] /-i16-/ || n = [105, 51, 50] /-i32-/ || n = [105, 54, 52] /-i64-/ || n = [98, 121, 116, 101] /-byte-/
def isStrKeyName (n : Bytes) : Bool := n = [115, 116, 114, 105, 110, 103] /-string-/ || n = [98, 105, 110, 97, 114, 121] /-binary-/

/-- utils.go switchFt; `none` = typedef cycle (the Go code would not return) -/
def Schema.switchFt (s : Schema) (t : Ty) : Option Ft :=
  match s.unwrap t with
  | none => none
  | some d =>
    if d.isBasic then some .scalar
    else if d.isList then some .list
    else match d with
      | .map k _ =>
        (match s.unwrap k with
         | none => none
         | some kt =>
           if s.isEnum kt then some .intMap
           else match kt with
             | .named n => if isIntKeyName n then some .intMap else if isStrKeyName n then some .strMap else some .scalar
             | .list _ => some .scalar
             | .map _ _ => some .scalar)
      | _ =>
        if (s.structOf d).isSome then some .struct
        else if s.isEnum d then some .scalar
        else some .invalid

def liftO {α} : Option α → Res α
  | some a => .ok a
  | none => .crash

def fieldById (fs : List FieldD) (id : Int) : Option FieldD := fs.find? (fun f => f.id == id)
def fieldByName (fs : List FieldD) (n : Bytes) : Option FieldD := fs.find? (fun f => f.name == n)

/-! ## tokenizer (path.go) -/

inductive Tok
  | litStr (s : Bytes) | litInt (n : Nat) | str (s : Bytes)
  | root | field | indexL | indexR | mapL | mapR | elem | any | eof
  deriving DecidableEq, Repr

/-- bytes at which `lit()` stops: , * $ . [ ] { } " \ -/
def isSep (c : Nat) : Bool :=
  c = 44 || c = 42 || c = 36 || c = 46 || c = 91 || c = 93 || c = 123 || c = 125 || c = 34 || c = 92

def isDigit (c : Nat) : Bool := 48 ≤ c && c ≤ 57

/-- `lit()`: the longest prefix without separator bytes -/
def litSpan : Bytes → Bytes × Bytes
  | [] => ([], [])
  | c :: r => if isSep c then ([], c :: r) else
      let (a, b) := litSpan r
      (c :: a, b)

def decVal (acc : Nat) : Bytes → Nat
  | [] => acc
  | c :: r => decVal (acc * 10 + (c - 48)) r

/-- `str()`: the value of `i` at label `ret`, counted from `p.pos`; may be `len+1` -/
def strEnd : Bytes → Bool → Nat → Nat
  | [], _, i => i
  | c :: r, opn, i =>
    if c = 92 then
      match r with
      | [] => i + 2
      | _ :: r' => strEnd r' opn (i + 2)
    else if c = 34 then
      if opn then i + 1 else strEnd r true (i + 1)
    else strEnd r opn (i + 1)

/-! ### strconv.Unquote of a double-quoted literal (Go 1.2x strconv/quote.go) -/

def unhex (c : Nat) : Option Nat :=
  if 48 ≤ c && c ≤ 57 then some (c - 48)
  else if 97 ≤ c && c ≤ 102 then some (c - 97 + 10)
  else if 65 ≤ c && c ≤ 70 then some (c - 65 + 10)
  else none

def hexN : Nat → Nat → Bytes → Option (Nat × Bytes)
  | 0, acc, s => some (acc, s)
  | _ + 1, _, [] => none
  | n + 1, acc, c :: r => match unhex c with
    | none => none
    | some x => hexN n (acc * 16 + x) r

/-- utf8.AppendRune for a valid rune -/
def encodeRune (v : Nat) : Bytes :=
  if v < 128 then [v]
  else if v < 2048 then [192 + v / 64, 128 + v % 64]
  else if v < 65536 then [224 + v / 4096, 128 + (v / 64) % 64, 128 + v % 64]
  else [240 + v / 262144, 128 + (v / 4096) % 64, 128 + (v / 64) % 64, 128 + v % 64]

def validRune (v : Nat) : Bool := v < 55296 || (57343 < v && v ≤ 1114111)

def cont (c : Nat) : Bool := 128 ≤ c && c ≤ 191

/-- utf8.DecodeRuneInString on a string whose first byte is ≥ 0x80, followed by AppendRune:
a well-formed sequence is copied, anything else consumes one byte and yields U+FFFD -/
def decodeRune (c : Nat) (r : Bytes) : Bytes × Bytes :=
  let bad := ([239, 191, 189], r)
  if 194 ≤ c && c ≤ 223 then
    match r with
    | c1 :: r1 => if cont c1 then ([c, c1], r1) else bad
    | _ => bad
  else if 224 ≤ c && c ≤ 239 then
    match r with
    | c1 :: c2 :: r2 =>
      let lo := if c = 224 then 160 else 128
      let hi := if c = 237 then 159 else 191
      if lo ≤ c1 && c1 ≤ hi && cont c2 then ([c, c1, c2], r2) else bad
    | _ => bad
  else if 240 ≤ c && c ≤ 244 then
    match r with
    | c1 :: c2 :: c3 :: r3 =>
      let lo := if c = 240 then 144 else 128
      let hi := if c = 244 then 143 else 191
      if lo ≤ c1 && c1 ≤ hi && cont c2 && cont c3 then ([c, c1, c2, c3], r3) else bad
    | _ => bad
  else bad

/-- strings.ToValidUTF8(s, "\uFFFD") byte-wise as encoding/json does it: every byte that does not start a
well-formed sequence becomes U+FFFD -/
def sanitizeUtf8 : Nat → Bytes → Bytes
  | 0, l => l
  | _ + 1, [] => []
  | f + 1, c :: r =>
    if c < 128 then c :: sanitizeUtf8 f r
    else
      let (o, r') := decodeRune c r
      o ++ sanitizeUtf8 f r'

def validUtf8 (s : Bytes) : Bool := sanitizeUtf8 (s.length + 1) s == s

def isOct (c : Nat) : Bool := 48 ≤ c && c ≤ 55

/-- the loop of `unquote` after the opening quote; succeeds only if the terminating quote is
the last byte (`Unquote` rejects a non-empty remainder) -/
def unquoteLoop : Nat → Bytes → Option Bytes
  | 0, _ => none
  | _ + 1, [] => none
  | f + 1, c :: r =>
    if c = 34 then (if r = [] then some [] else none)
    else if c = 10 then none
    else if c ≥ 128 then
      let (o, r') := decodeRune c r
      (unquoteLoop f r').map (o ++ ·)
    else if c ≠ 92 then (unquoteLoop f r).map (c :: ·)
    else match r with
      | [] => none
      | e :: s =>
        let one (b : Nat) := (unquoteLoop f s).map (b :: ·)
        if e = 97 then one 7 else if e = 98 then one 8 else if e = 102 then one 12
        else if e = 110 then one 10 else if e = 114 then one 13 else if e = 116 then one 9
        else if e = 118 then one 11 else if e = 92 then one 92 else if e = 34 then one 34
        else if e = 120 then
          match hexN 2 0 s with
          | none => none
          | some (v, s') => (unquoteLoop f s').map (v :: ·)
        else if e = 117 || e = 85 then
          match hexN (if e = 117 then 4 else 8) 0 s with
          | none => none
          | some (v, s') => if validRune v then (unquoteLoop f s').map (encodeRune v ++ ·) else none
        else if isOct e then
          match s with
          | a :: b :: s' =>
            if isOct a && isOct b then
              let v := (e - 48) * 64 + (a - 48) * 8 + (b - 48)
              if v > 255 then none else (unquoteLoop f s').map (v :: ·)
            else none
          | _ => none
        else none

/-- strconv.Unquote(val) where val starts with '"' -/
def unquote (val : Bytes) : Option Bytes :=
  match val with
  | _ :: r => if val.length < 2 then none else unquoteLoop (r.length + 1) r
  | [] => none

/-- `Next()` at a '"': `str()` then the token constructor; `l` is the unread suffix, starting with the quote -/
def nextStr (cfg : Sites) (l : Bytes) : Res (Tok × Bytes) :=
  let n := strEnd l false 0
  if n > l.length then siteStrSlice cfg
  else match unquote (l.take n) with
    | none => siteErrTok cfg
    | some v => .ok (.str v, l.drop n)

/-- `Next()` at any other byte `c` (`l = c :: r`): `lit()` then the token constructor -/
def nextLit (cfg : Sites) (c : Nat) (r : Bytes) : Res (Tok × Bytes) :=
  let (v, rest) := litSpan (c :: r)
  if v.isEmpty && !cfg.litStall then .ok (.litStr [c], r)     -- repaired lit(): always makes progress
  else if !v.isEmpty && v.all isDigit then do
    let n ← siteAtoi cfg (decVal 0 v)
    .ok (.litInt n, rest)
  else .ok (.litStr v, rest)

/-- `pathIterator.Next` on the unread suffix (`p.src[p.pos:]`); returns the token and the new suffix -/
def next (cfg : Sites) : Bytes → Res (Tok × Bytes)
  | [] => .ok (.eof, [])
  | c :: r =>
    if c = 36 then .ok (.root, r)
    else if c = 46 then .ok (.field, r)
    else if c = 91 then .ok (.indexL, r)
    else if c = 93 then .ok (.indexR, r)
    else if c = 123 then .ok (.mapL, r)
    else if c = 125 then .ok (.mapR, r)
    else if c = 44 then .ok (.elem, r)
    else if c = 42 then .ok (.any, r)
    else if c = 34 then nextStr cfg (c :: r)
    else nextLit cfg c r

/-! ## the trie (mask.go FieldMask, storage.go) -/

inductive Key
  | i (n : Int)
  | s (b : Bytes)
  deriving DecidableEq, Repr

mutual
/-- `fd`/`ints`/`strs` are the three child maps; `fdA`/`intA`/`strA` say whether the Go
map (pointer) is non-nil — `hasChild` looks at that, not at the contents -/
inductive Mask where
  | mk (typ : Ft) (isAll isBlack : Bool) (all : MaskOpt)
       (fdA : Bool) (fd : Kids) (intA : Bool) (ints : Kids) (strA : Bool) (strs : Kids)
inductive MaskOpt where
  | none
  | some (m : Mask)
inductive Kids where
  | nil
  | cons (k : Key) (m : Mask) (rest : Kids)
end

namespace Mask
def typ : Mask → Ft | mk t _ _ _ _ _ _ _ _ _ => t
def isAll : Mask → Bool | mk _ a _ _ _ _ _ _ _ _ => a
def isBlack : Mask → Bool | mk _ _ b _ _ _ _ _ _ _ => b
def all : Mask → MaskOpt | mk _ _ _ a _ _ _ _ _ _ => a
def fdA : Mask → Bool | mk _ _ _ _ x _ _ _ _ _ => x
def fd : Mask → Kids | mk _ _ _ _ _ x _ _ _ _ => x
def intA : Mask → Bool | mk _ _ _ _ _ _ x _ _ _ => x
def ints : Mask → Kids | mk _ _ _ _ _ _ _ x _ _ => x
def strA : Mask → Bool | mk _ _ _ _ _ _ _ _ x _ => x
def strs : Mask → Kids | mk _ _ _ _ _ _ _ _ _ x => x

def setTyp (t : Ft) : Mask → Mask | mk _ a b al fa f ia i sa s => mk t a b al fa f ia i sa s
def setIsAll (v : Bool) : Mask → Mask | mk t _ b al fa f ia i sa s => mk t v b al fa f ia i sa s
def setIsBlack (v : Bool) : Mask → Mask | mk t a _ al fa f ia i sa s => mk t a v al fa f ia i sa s
def setAllM (v : MaskOpt) : Mask → Mask | mk t a b _ fa f ia i sa s => mk t a b v fa f ia i sa s
def setFd (v : Kids) : Mask → Mask | mk t a b al _ _ ia i sa s => mk t a b al true v ia i sa s
def setInts (v : Kids) : Mask → Mask | mk t a b al fa f _ _ sa s => mk t a b al fa f true v sa s
def setStrs (v : Kids) : Mask → Mask | mk t a b al fa f ia i _ _ => mk t a b al fa f ia i true v

/-- the zero value `FieldMask{}` -/
def zero : Mask := mk .invalid false false .none false .nil false .nil false .nil
/-- storage.go newFieldMask -/
def new (ft : Ft) (black : Bool) : Mask := mk ft false black .none false .nil false .nil false .nil
/-- storage.go assign -/
def assign (ft : Ft) (black : Bool) (m : Mask) : Mask := ((m.setTyp ft).setIsAll false).setIsBlack black
end Mask

def Kids.get (k : Key) : Kids → MaskOpt
  | .nil => .none
  | .cons k' m r => if k' = k then .some m else r.get k

def Kids.put (k : Key) (v : Mask) : Kids → Kids
  | .nil => .cons k v .nil
  | .cons k' m r => if k' = k then .cons k v r else .cons k' m (r.put k v)

mutual
/-- mask.go reset(): `all` is left alone, the maps stay allocated, children are reset recursively -/
def Mask.reset : Mask → Mask
  | .mk _ _ b al fa f ia i sa s => .mk .invalid false b al fa f.reset ia i.reset sa s.reset
def Kids.reset : Kids → Kids
  | .nil => .nil
  | .cons k m r => .cons k m.reset r.reset
end

/-- Exist() on a possibly-nil pointer -/
def MaskOpt.exist : MaskOpt → Bool
  | .none => false
  | .some m => m.typ != .invalid

/-- `xxxMap.Get`: the child if it is set (`Exist()`), else nil -/
def Kids.getExist (k : Key) (ks : Kids) : MaskOpt :=
  match ks.get k with
  | .some m => if m.typ != .invalid then .some m else .none
  | .none => .none

/-- `SetIfNotExist`: the child to descend into (fresh, re-assigned after a reset, or existing) -/
def Kids.child (k : Key) (ft : Ft) (black : Bool) (ks : Kids) : Mask :=
  match ks.get k with
  | .none => Mask.new ft black
  | .some m => if m.typ = .invalid then m.assign ft black else m

/-- setAll: the `all` child to descend into -/
def Mask.allChild (cur : Mask) (ft : Ft) : Mask :=
  match cur.all with
  | .none => Mask.new ft cur.isBlack
  | .some m => if m.typ = .invalid then m.assign ft cur.isBlack else m

/-- mask.go All() on a non-nil mask -/
def Mask.allQ (m : Mask) : Bool :=
  match m.typ with
  | .struct | .list | .intMap | .strMap => m.isAll
  | _ => true

def Mask.hasChild (m : Mask) : Bool :=
  m.typ != .invalid && (m.all matches .some _ || m.fdA || m.intA || m.strA)

/-! ## addPath (mask.go:149-452) -/

/-- result of the `for it.HasNext()` loops inside `[` … `]` and `{` … `}` -/
structure SetScan where
  all : Bool
  star : Bool            -- a '*' was seen (children reset, isAll set)
  ids : List Nat
  strs : List Bytes
  rest : Bytes

/-- the index loop, mask.go:264-301.  `all` starts as `cur.All()` -/
def scanIndex (cfg : Sites) : Nat → Bytes → Bool → Bool → Bool → List Nat → Res SetScan
  | 0, _, _, _, _, _ => .crash
  | f + 1, rest, all, star, empty, ids =>
    if rest.isEmpty then .ok ⟨all, star, ids, [], rest⟩
    else do
      let (tok, rest') ← next cfg rest
      match tok with
      | .indexR => if empty then .err .emptySet else .ok ⟨all, star, ids, [], rest'⟩
      | .elem => scanIndex cfg f rest' all star false ids
      | .any => scanIndex cfg f rest' true true false ids
      | .litInt n => if all then .err .conflict else scanIndex cfg f rest' all star false (ids ++ [n])
      | .eof => .err .eof
      | _ => if all then .err .conflict else .err .notLiteral

/-- the key loop, mask.go:353-401 -/
def scanKeys (cfg : Sites) (isInt isStr : Bool) : Nat → Bytes → Bool → Bool → Bool → List Nat → List Bytes → Res SetScan
  | 0, _, _, _, _, _, _ => .crash
  | f + 1, rest, all, star, empty, ids, strs =>
    if rest.isEmpty then .ok ⟨all, star, ids, strs, rest⟩
    else do
      let (tok, rest') ← next cfg rest
      match tok with
      | .mapR => if empty then .err .emptySet else .ok ⟨all, star, ids, strs, rest'⟩
      | .elem => scanKeys cfg isInt isStr f rest' all star false ids strs
      | .any => scanKeys cfg isInt isStr f rest' true true false ids strs
      | .eof => .err .eof
      | .litInt n =>
        if all then .err .conflict
        else if !isInt then .err .keyKind
        else scanKeys cfg isInt isStr f rest' all star false (ids ++ [n]) strs
      | .str s =>
        if all then .err .conflict
        else if !isStr then .err .keyKind
        else scanKeys cfg isInt isStr f rest' all star false ids (strs ++ [s])
      | _ => if all then .err .conflict else .err .unexpected

/-- `for _, id := range ids { next := cur.setInt(id,..); next.addPath(nextPath, et) }` -/
def forKeys (add : Mask → Res Mask) (ft : Ft) : List Key → Mask → (Mask → Kids) → (Kids → Mask → Mask) → Res Mask
  | [], cur, _, _ => .ok cur
  | k :: ks, cur, getK, setK => do
    let child := (getK cur).child k ft cur.isBlack
    let child' ← add child
    forKeys add ft ks (setK ((getK cur).put k child') cur) getK setK

/-- descend into the child of field `f` (mask.go:228-236) -/
def addViaField (cfg : Sites) (sch : Schema) (rec : Mask → Bytes → Ty → Res Mask)
    (cur : Mask) (rest2 : Bytes) (f : FieldD) : Res Mask := do
  let d' ← liftO (sch.unwrap f.ty)
  let ft ← liftO (sch.switchFt f.ty)
  siteHead cfg f.id
  let child := cur.fd.child (.i f.id) ft cur.isBlack
  let child' ← rec child rest2 d'
  .ok (cur.setFd (cur.fd.put (.i f.id) child'))

/-- `.*` (mask.go:210-226): `cur.fdMask.Reset(); cur.isAll = true`, descend into `all` typed by the FIRST field;
NOTICE: curDesc is NOT advanced -/
def addFieldStar (sch : Schema) (rec : Mask → Bytes → Ty → Res Mask)
    (cur : Mask) (rest2 : Bytes) (d : Ty) (fs : List FieldD) : Res Mask :=
  let cur1 := (Mask.mk cur.typ true cur.isBlack cur.all cur.fdA cur.fd.reset cur.intA cur.ints cur.strA cur.strs)
  match fs with
  | [] => .err .noChildren
  | f0 :: _ => do
    let ft ← liftO (sch.switchFt f0.ty)
    let child := cur1.allChild ft
    let child' ← rec child rest2 d
    .ok (cur1.setAllM (.some child'))

/-- end of a path (mask.go:449-451): the node is complete -/
def Mask.endPath (cur : Mask) (cfg : Sites) : Mask :=
  if cfg.prefixKeeps then cur.setIsAll true
  else Mask.mk cur.typ true cur.isBlack .none false .nil false .nil false .nil

/-- the `.` case of the token loop (mask.go:173-238); `rec` is the rest of the loop -/
def addField (cfg : Sites) (sch : Schema) (rec : Mask → Bytes → Ty → Res Mask)
    (cur : Mask) (rest : Bytes) (d : Ty) : Res Mask :=
  match sch.structOf d with
  | none => .err .wrongKind
  | some fs =>
    if cur.typ != .struct then .err .wrongKind else do
    let (tok, rest2) ← next cfg rest
    if tok = .eof then .err .eof
    else if cur.allQ then .err .conflict
    else
      match tok with
      | .litInt n => do
        let id ← siteInt32 cfg n
        match fieldById fs id with
        | none => .err .unknownField
        | some f => addViaField cfg sch rec cur rest2 f
      | .litStr name =>
        match fieldByName fs name with
        | none => .err .unknownField
        | some f => addViaField cfg sch rec cur rest2 f
      | .any => addFieldStar sch rec cur rest2 d fs
      | _ => .err .unexpected

/-- the `[` case (mask.go:240-321) -/
def addIndex (cfg : Sites) (sch : Schema) (fuel : Nat) (rec : Mask → Bytes → Ty → Res Mask)
    (cur : Mask) (rest : Bytes) (d : Ty) : Res Mask :=
  match d with
  | .list e =>
    if cur.typ != .list then .err .wrongKind else do
    let et ← liftO (sch.unwrap e)
    let nextFt ← liftO (sch.switchFt et)
    if nextFt = .invalid then .err .unsupported else do
    let sc ← scanIndex cfg fuel rest cur.allQ false true []
    let cur1 := if sc.star then (Mask.mk cur.typ true cur.isBlack cur.all cur.fdA cur.fd cur.intA cur.ints.reset cur.strA cur.strs) else cur
    if sc.all then do
      let child := cur1.allChild nextFt
      let child' ← rec child sc.rest et
      .ok (cur1.setAllM (.some child'))
    else
      forKeys (fun c => do
          let et' ← liftO (sch.unwrap et)
          rec c sc.rest et') nextFt (sc.ids.map (fun n => Key.i (Int.ofNat n))) cur1 Mask.ints Mask.setInts
  | _ => .err .wrongKind

/-- the `{` case (mask.go:323-442) -/
def addMap (cfg : Sites) (sch : Schema) (fuel : Nat) (rec : Mask → Bytes → Ty → Res Mask)
    (cur : Mask) (rest : Bytes) (d : Ty) : Res Mask :=
  match d with
  | .map _ v =>
    if cur.typ != .intMap && cur.typ != .strMap && cur.typ != .scalar then .err .wrongKind else do
    let et ← liftO (sch.unwrap v)
    let nextFt ← liftO (sch.switchFt et)
    if nextFt = .invalid then .err .unsupported else do
    let isInt := cur.typ == .intMap
    let isStr := cur.typ == .strMap
    let sc ← scanKeys cfg isInt isStr fuel rest cur.allQ false true [] []
    let cur1 := if sc.star then (Mask.mk cur.typ true cur.isBlack cur.all cur.fdA cur.fd cur.intA cur.ints.reset cur.strA cur.strs.reset) else cur
    if sc.all then do
      let child := cur1.allChild nextFt
      let child' ← rec child sc.rest et
      .ok (cur1.setAllM (.some child'))
    else
      let add := fun c => do
          let et' ← liftO (sch.unwrap et)
          rec c sc.rest et'
      if isInt then forKeys add nextFt (sc.ids.map (fun n => Key.i (Int.ofNat n))) cur1 Mask.ints Mask.setInts
      else if isStr then forKeys add nextFt (sc.strs.map Key.s) cur1 Mask.strs Mask.setStrs
      else .err .unexpected
  | _ => .err .wrongKind

/-- `addPath` = unwrapDesc, then the token loop.  `fuel` bounds the number of tokens read
along one root-to-leaf descent (`path.length + 1` suffices). -/
def addLoop (cfg : Sites) (sch : Schema) : Nat → Mask → Bytes → Ty → Res Mask
  | 0, _, _, _ => .crash
  | fuel + 1, cur, path, d =>
    if path.isEmpty then .ok (cur.endPath cfg)        -- mask.go:450
    else do
      let (stok, rest) ← next cfg path
      match stok with
      | .eof => .err .eof
      | .root => do
        let ft ← liftO (sch.switchFt d)
        addLoop cfg sch fuel (cur.setTyp ft) rest d
      | .field => addField cfg sch (addLoop cfg sch fuel) cur rest d
      | .indexL => addIndex cfg sch fuel (addLoop cfg sch fuel) cur rest d
      | .mapL => addMap cfg sch fuel (addLoop cfg sch fuel) cur rest d
      | _ => .err .unexpected

def addPath (cfg : Sites) (sch : Schema) (cur : Mask) (path : Bytes) (desc : Ty) : Res Mask := do
  let d ← liftO (sch.unwrap desc)
  addLoop cfg sch (path.length + 1) cur path d

/-- NewFieldMask / Options.NewFieldMask -/
def newMask (cfg : Sites) (sch : Schema) (desc : Ty) (black : Bool) : List Bytes → Mask → Res Mask
  | [], m => .ok m
  | p :: ps, m => do
    let m' ← addPath cfg sch m p desc
    newMask cfg sch desc black ps m'

def newFieldMask (cfg : Sites) (sch : Schema) (desc : Ty) (black : Bool) (paths : List Bytes) : Res Mask :=
  newMask cfg sch desc black paths (Mask.zero.setIsBlack black)

/-! ## queries (mask.go:455-571) -/

/-- `self.ret(fm)` -/
def Mask.ret (self : Mask) (fm : MaskOpt) : MaskOpt × Bool :=
  if self.isBlack then
    (fm, match fm with | .none => true | .some c => c.hasChild)
  else (fm, fm matches .some _)

inductive QStep
  | field (id : Int)      -- Field(int16)
  | int (i : Int)         -- Int(int)
  | str (s : Bytes)       -- Str(string)
  deriving DecidableEq, Repr

/-- `(*fieldMap).Get` through `self.fdMask`, which may be nil -/
def fdGet (cfg : Sites) (self : Mask) (id : Int) : Res MaskOpt :=
  if !self.fdA then
    -- as found: the bounds check of head[f] comes before the load through the nil pointer;
    -- repaired: `if self == nil { return nil }` comes first
    (if cfg.fieldNilFd then do siteHead cfg id; .panic .fieldNilFd else .ok .none)
  else do
    siteHead cfg id
    .ok (self.fd.getExist (.i id))

/-- black list, isAll branch of Field/Int/Str -/
def Mask.passAll (m : Mask) (cfg : Sites) : Bool :=
  if cfg.blackStar then m.hasChild
  else match m.all with
    | .some a => a.hasChild
    | .none => false

/-- Field / Int / Str on a possibly-nil receiver -/
def query (cfg : Sites) (self : MaskOpt) (q : QStep) : Res (MaskOpt × Bool) :=
  match self with
  | .none => .ok (.none, true)
  | .some m =>
    if m.typ = .invalid then .ok (.none, true)
    else if m.isAll then .ok (m.all, !m.isBlack || m.passAll cfg)
    else match q with
      | .field id => do
        let fm ← fdGet cfg m id
        .ok (m.ret fm)
      | .int i => .ok (m.ret (m.ints.getExist (.i i)))
      | .str s => .ok (m.ret (m.strs.getExist (.s s)))

/-- All() on a possibly-nil receiver -/
def MaskOpt.allQ : MaskOpt → Bool
  | .none => true
  | .some m => m.allQ

/-- follow a query sequence; `true` iff every step answered `true` (stops at the first `false`) -/
def walk (cfg : Sites) : MaskOpt → List QStep → Res Bool
  | _, [] => .ok true
  | cur, q :: qs => do
    let (nxt, ok) ← query cfg cur q
    if ok then walk cfg nxt qs else .ok false

def Kids.toList : Kids → List (Key × Mask)
  | .nil => []
  | .cons k m r => (k, m) :: r.toList

/-- ForEachChild: the non-nil children handed to the scanner (the 64 `head` slots that are nil
are not listed), unordered -/
def forEachChild (cfg : Sites) : MaskOpt → Res (List (Key × Mask))
  | .none => .ok []
  | .some m =>
    match m.typ with
    | .scalar => .ok []
    | .struct =>
      if !m.fdA then (if cfg.foreachNilFd then .panic .foreachNilFd else .ok [])
      else .ok m.fd.toList
    | .list | .intMap => .ok m.ints.toList
    | .strMap => .ok m.strs.toList
    | .invalid => if cfg.foreachInvalid then .panic .foreachInvalid else .ok []

/-! ## GetPath / PathInMask (path.go:298-513); note: no unwrapDesc here -/

def int16wrap (n : Int) : Int := (n + 32768) % 65536 - 32768

/-- the inner loop of the `[`…`]` case; `none` = `return nil,false` -/
def gpIndex (cfg : Sites) (cur : Mask) : Nat → Bytes → MaskOpt → Res (Option (MaskOpt × Bytes))
  | 0, _, _ => .crash
  | f + 1, rest, nxt =>
    if rest.isEmpty then .ok (some (nxt, rest))
    else
      match next cfg rest with
      | .err _ => .ok none
      | .panic s => .panic s
      | .crash => .crash
      | .ok (tok, rest') =>
        if tok = .eof then .ok none
        else if tok = .indexR then .ok (some (nxt, rest'))
        else if cur.allQ || tok = .elem then gpIndex cfg cur f rest' nxt
        else match tok with
          | .litInt n => do
            let (fm, ex) ← query cfg (.some cur) (.int (Int.ofNat n))
            if !ex then .ok none else gpIndex cfg cur f rest' fm
          | _ => .ok none

def gpKeys (cfg : Sites) (cur : Mask) : Nat → Bytes → MaskOpt → Res (Option (MaskOpt × Bytes))
  | 0, _, _ => .crash
  | f + 1, rest, nxt =>
    if rest.isEmpty then .ok (some (nxt, rest))
    else
      match next cfg rest with
      | .err _ => .ok none
      | .panic s => .panic s
      | .crash => .crash
      | .ok (tok, rest') =>
        if tok = .eof then .ok none
        else if tok = .mapR then .ok (some (nxt, rest'))
        else if cur.allQ || tok = .elem then gpKeys cfg cur f rest' nxt
        else match tok with
          | .litInt n =>
            if cur.typ != .intMap then .ok none else do
            let (fm, ex) ← query cfg (.some cur) (.int (Int.ofNat n))
            if !ex then .ok none else gpKeys cfg cur f rest' fm
          | .str s =>
            if cur.typ != .strMap then .ok none else do
            let (fm, ex) ← query cfg (.some cur) (.str s)
            if !ex then .ok none else gpKeys cfg cur f rest' fm
          | _ => .ok none

/-- the descriptor GetPath continues with: as found the raw one, repaired `unwrapDesc` of it
(a typedef cycle, on which Go would not return, is not modelled here: the raw descriptor is kept) -/
def Schema.gpDesc (sch : Schema) (cfg : Sites) (t : Ty) : Ty :=
  if cfg.gpNoUnwrap then t else (sch.unwrap t).getD t

/-- GetPath: returns (mask, exist) -/
def gpLoop (cfg : Sites) (sch : Schema) : Nat → MaskOpt → MaskOpt → Bytes → Ty → Res (MaskOpt × Bool)
  | 0, _, _, _, _ => .crash
  | fuel + 1, last, cur, path, desc =>
    if path.isEmpty then .ok (cur, true)
    else match cur with
      | .none => .ok (last, true)
      | .some c =>
        let no : Res (MaskOpt × Bool) := .ok (.none, false)
        match next cfg path with
        | .err _ => no
        | .panic s => .panic s
        | .crash => .crash
        | .ok (stok, rest) =>
          match stok with
          | .eof => no
          | .root => gpLoop cfg sch fuel cur cur rest desc
          | .field =>
            match sch.structOf desc with
            | none => no
            | some fs =>
              if (cfg.gpTypAll || !c.isAll) && c.typ != .struct then no else
              match next cfg rest with
              | .err _ => no
              | .panic s => .panic s
              | .crash => .crash
              | .ok (tok, rest2) =>
                let viaField (f : FieldD) : Res (MaskOpt × Bool) := do
                  let (fm, ex) ← query cfg cur (.field (int16wrap f.id))
                  if !ex then no else gpLoop cfg sch fuel cur fm rest2 (sch.gpDesc cfg f.ty)
                match tok with
                | .litInt n =>
                  (match siteInt32 cfg n with
                   | .err _ => no
                   | .panic s => .panic s
                   | .crash => .crash
                   | .ok id =>
                     match fieldById fs id with
                     | none => no
                     | some f => viaField f)
                | .litStr name =>
                  (match fieldByName fs name with
                   | none => no
                   | some f => viaField f)
                | .any =>
                  if !c.allQ then no
                  else if cfg.getPathStar then .panic .getPathStar
                  else gpLoop cfg sch fuel cur c.all rest2 desc
                | _ => no
          | .indexL =>
            match desc with
            | .list e =>
              if (cfg.gpTypAll || !c.isAll) && c.typ != .list then no else do
              match ← gpIndex cfg c fuel rest c.all with
              | none => no
              | some (nxt, rest') => gpLoop cfg sch fuel cur nxt rest' (sch.gpDesc cfg e)
            | _ => no
          | .mapL =>
            match desc with
            | .map _ v =>
              if (cfg.gpTypAll || !c.isAll) && (c.typ != .intMap && c.typ != .strMap && c.typ != .scalar) then no else do
              match ← gpKeys cfg c fuel rest c.all with
              | none => no
              | some (nxt, rest') => gpLoop cfg sch fuel cur nxt rest' (sch.gpDesc cfg v)
            | _ => no
          | _ => no

def getPath (cfg : Sites) (sch : Schema) (m : MaskOpt) (desc : Ty) (path : Bytes) : Res (MaskOpt × Bool) :=
  gpLoop cfg sch (path.length + 1) m m path (sch.gpDesc cfg desc)

/-! ## JSON transport (serdes.go), as trees

`MarshalJSON` writes text with `strconv.Itoa` / `strconv.Quote`; `UnmarshalJSON` reads through
`encoding/json` into `fieldMaskTransfer`.  The model stops at the tree on both sides:
`JOut` is what marshal emits (before rendering), `JIn` is `fieldMaskTransfer` (after
`encoding/json`), whose `path` is the raw message *together with* the three decodings the
code asks `encoding/json` for.  `JOut.toIn` states what rendering followed by `encoding/json`
is assumed to do on JSON-safe keys; the harness checks it on every generated mask. -/

inductive JPath
  | root | any | int (n : Int) | str (s : Bytes)
  deriving DecidableEq, Repr

mutual
inductive JOut where
  | mk (path : JPath) (typ : Ft) (black : Bool) (hasKids : Bool) (kids : JOuts)
inductive JOuts where
  | nil
  | cons (j : JOut) (r : JOuts)
end

def Key.toJPath : Key → JPath
  | .i n => .int n
  | .s b => .str b

mutual
/-- marshalRec: `(false, _)` = no "children" key; structural recursion on the trie -/
def marshalKids : Mask → Res (Bool × JOuts)
  | .mk typ isAll _ all fdA fd _ ints _ strs =>
    let allq := match typ with
      | .struct | .list | .intMap | .strMap => isAll
      | _ => true
    if allq then
      match all with
      | .none => .ok (false, .nil)
      | .some a =>
        if a.typ != .invalid then do
          let (hk, ks) ← marshalKids a
          .ok (true, .cons (.mk .any a.typ a.isBlack hk ks) .nil)
        else .ok (true, .nil)
    else
      match typ with
      | .struct => if !fdA then .panic .marshalNilFd else do
          let ks ← marshalList fd
          .ok (true, ks)
      | .list | .intMap => do
          let ks ← marshalList ints
          .ok (true, ks)
      | .strMap => do
          let ks ← marshalList strs
          .ok (true, ks)
      | _ => .err .json
/-- children in map order (sorted afterwards by `JOut.sorted`), `!Exist()` ones skipped -/
def marshalList : Kids → Res JOuts
  | .nil => .ok .nil
  | .cons k c r =>
    if c.typ != .invalid then do
      let (hk, ks) ← marshalKids c
      let rest ← marshalList r
      .ok (.cons (.mk k.toJPath c.typ c.isBlack hk ks) rest)
    else marshalList r
end

def JOut.path : JOut → JPath | .mk p _ _ _ _ => p

def jpLt : JPath → JPath → Bool
  | .int a, .int b => a < b
  | .str a, .str b => a < b
  | _, _ => false

def JOuts.insert (j : JOut) : JOuts → JOuts
  | .nil => .cons j .nil
  | .cons j' r => if jpLt j.path j'.path then .cons j (.cons j' r) else .cons j' (JOuts.insert j r)

def JOuts.sort : JOuts → JOuts
  | .nil => .nil
  | .cons j r => JOuts.insert j r.sort

mutual
/-- sort every child list (sort.Stable by id; ids within one map are unique) -/
def JOut.sorted : JOut → JOut
  | .mk p t b hk ks => .mk p t b hk (JOuts.sortedKids ks).sort
def JOuts.sortedKids : JOuts → JOuts
  | .nil => .nil
  | .cons j r => .cons j.sorted (JOuts.sortedKids r)
end

/-- MarshalJSON on a non-nil mask (marshalBegin) -/
def marshal (m : Mask) : Res JOut := do
  let (hk, ks) ← marshalKids m
  .ok (JOut.mk .root m.typ m.isBlack hk ks).sorted

/-- `fieldMaskTransfer.Path` with what `encoding/json` makes of it -/
structure JRaw where
  isRoot : Bool               -- bytes.Equal(path, `"$"`)
  isAny : Bool                -- bytes.Equal(path, `"*"`)
  i32 : Option Int            -- json.Unmarshal(path, &fieldID) succeeded (null -> 0)
  int : Option Int            -- json.Unmarshal(path, &int)
  str : Option Bytes          -- json.Unmarshal(path, &string)
  deriving DecidableEq, Repr

mutual
inductive JIn where
  | mk (path : JRaw) (typ : Ft) (black : Bool) (kids : JIns)
inductive JIns where
  | nil
  | cons (j : JIn) (r : JIns)
end

def JIn.path : JIn → JRaw | .mk p _ _ _ => p
def JIn.typ : JIn → Ft | .mk _ t _ _ => t

mutual
/-- TransferFrom (serdes.go:277-349) -/
def transferFrom (cfg : Sites) : Mask → JIn → Res Mask
  | self, .mk _ typ black kids =>
    if typ = .invalid then .err .json else
    let self := (self.setTyp typ).setIsBlack black
    match kids with
    | .nil => .ok (self.setIsAll true)
    | .cons _ _ =>
      match typ with
      | .scalar => transferKids cfg 3 self kids
      | .struct => transferKids cfg 0 self kids
      | .list | .intMap => transferKids cfg 1 self kids
      | .strMap => transferKids cfg 2 self kids
      | .invalid => .ok self
/-- the `for _, n := range s.Children` loops; `kind` 0 = Struct, 1 = List/IntMap, 2 = StrMap,
3 = Scalar (only `Children[0]` is looked at and it must be "*") -/
def transferKids (cfg : Sites) (kind : Nat) : Mask → JIns → Res Mask
  | self, .nil => .ok self
  | self, .cons n r =>
    if n.path.isAny then do
      -- checkAll: isAll = true; all = &FieldMask{}; all.TransferFrom(n); then `return nil`
      let a ← transferFrom cfg Mask.zero n
      .ok ((self.setIsAll true).setAllM (.some a))
    else
      match kind with
      | 0 =>
        match n.path.i32 with
        | none => .err .json
        | some id => do
          siteHead cfg id
          let child := self.fd.child (.i id) n.typ self.isBlack
          let child' ← transferFrom cfg child n
          transferKids cfg kind (self.setFd (self.fd.put (.i id) child')) r
      | 1 =>
        match n.path.int with
        | none => .err .json
        | some id => do
          let child := self.ints.child (.i id) n.typ self.isBlack
          let child' ← transferFrom cfg child n
          transferKids cfg kind (self.setInts (self.ints.put (.i id) child')) r
      | 2 =>
        match n.path.str with
        | none => .err .json
        | some id => do
          let child := self.strs.child (.s id) n.typ self.isBlack
          let child' ← transferFrom cfg child n
          transferKids cfg kind (self.setStrs (self.strs.put (.s id) child')) r
      | _ => .err .json
end

/-- UnmarshalJSON on a fresh `FieldMask{}`; `none` = the document is `null` -/
def unmarshal (cfg : Sites) (doc : Option JIn) : Res Mask :=
  match doc with
  | none => .ok Mask.zero
  | some j => if !j.path.isRoot then .err .json else transferFrom cfg Mask.zero j

def fitsInt32 (n : Int) : Bool := -2147483648 ≤ n && n ≤ 2147483647
def fitsInt64 (n : Int) : Bool := -9223372036854775808 ≤ n && n ≤ 9223372036854775807

/-- ASSUMPTION (encoding/json after strconv.Itoa/Quote): what UnmarshalJSON sees of a path that
MarshalJSON wrote, for keys whose `strconv.Quote` form is valid JSON for the same string -/
def JPath.toRaw : JPath → JRaw
  | .root => ⟨true, false, none, none, some [36]⟩
  | .any => ⟨false, true, none, none, some [42]⟩
  | .int n => ⟨false, false, if fitsInt32 n then some n else none, if fitsInt64 n then some n else none, none⟩
  | .str s => ⟨s = [36], s = [42], none, none, some s⟩

mutual
def JOut.toIn : JOut → JIn
  | .mk p t b _ ks => .mk p.toRaw t b (JOuts.toIns ks)
def JOuts.toIns : JOuts → JIns
  | .nil => .nil
  | .cons j r => .cons j.toIn (JOuts.toIns r)
end

end FieldMask
