import ThriftVerif.Lib.Reflect
import ThriftVerif.Gen.StdLemmas
/- helper lemmas about Lib/Reflect for Props/C15 -/
namespace Reflect
open Gen

/-! ### Go maps built by repeated assignment -/

theorem mapSet_append_new {β : Type} (m : List (Str × β)) (k : Str) (v : β) (h : k ∉ m.map Prod.fst) :
    mapSet m k v = m ++ [(k, v)] := by
  induction m with
  | nil => rfl
  | cons x r ih =>
    obtain ⟨k', v'⟩ := x
    simp only [List.map_cons, List.mem_cons, not_or] at h
    have hne : ¬ k' = k := fun e => h.1 e.symm
    simp [mapSet, hne, ih h.2]

theorem foldl_mapSet_nodup {α β : Type} (key : α → Str) (val : α → β) (xs : List α) :
    ∀ (m : List (Str × β)), (m.map Prod.fst ++ xs.map key).Nodup →
      xs.foldl (fun m x => mapSet m (key x) (val x)) m = m ++ xs.map (fun x => (key x, val x)) := by
  induction xs with
  | nil => intro m _; simp
  | cons x r ih =>
    intro m h
    have hx : key x ∉ m.map Prod.fst := by
      intro hm
      rw [List.nodup_append] at h
      exact h.2.2 _ hm _ (by simp) rfl
    rw [List.foldl_cons, mapSet_append_new m _ _ hx, ih]
    · simp
    · simp only [List.map_append, List.map_cons, List.map_nil, List.append_assoc, List.singleton_append]
      simpa using h

/-- with pairwise distinct keys the map is the list of entries itself -/
theorem mapOfList_nodup {α β : Type} (key : α → Str) (val : α → β) (xs : List α) (h : (xs.map key).Nodup) :
    mapOfList key val xs = xs.map (fun x => (key x, val x)) := by
  have := foldl_mapSet_nodup key val xs [] (by simpa using h)
  simpa [mapOfList] using this

theorem mapGet_map {α β : Type} (key : α → Str) (val : α → β) (xs : List α) (k : Str) :
    mapGet (xs.map (fun x => (key x, val x))) k = (xs.find? (fun x => key x = k)).map val := by
  induction xs with
  | nil => rfl
  | cons x r ih =>
    by_cases hk : key x = k
    · simp [mapGet, List.find?, hk]
    · simp [mapGet, List.find?, hk, ih]

theorem mapGet_mapOfList {α β : Type} (key : α → Str) (val : α → β) (xs : List α) (h : (xs.map key).Nodup) (k : Str) :
    mapGet (mapOfList key val xs) k = (xs.find? (fun x => key x = k)).map val := by
  rw [mapOfList_nodup key val xs h, mapGet_map]

theorem mapGet_mapSet_eq {β : Type} (m : List (Str × β)) (k : Str) (v : β) : mapGet (mapSet m k v) k = some v := by
  induction m with
  | nil => simp [mapSet, mapGet]
  | cons x r ih =>
    obtain ⟨k', v'⟩ := x
    by_cases hk : k' = k
    · simp [mapSet, mapGet, hk]
    · simp [mapSet, mapGet, hk, ih]

theorem mapGet_mapSet_ne {β : Type} (m : List (Str × β)) (k k2 : Str) (v : β) (h : k ≠ k2) :
    mapGet (mapSet m k v) k2 = mapGet m k2 := by
  induction m with
  | nil => simp [mapSet, mapGet, h]
  | cons x r ih =>
    obtain ⟨k', v'⟩ := x
    by_cases hk : k' = k
    · subst hk; simp [mapSet, mapGet, h]
    · by_cases hk2 : k' = k2
      · subst hk2; simp [mapSet, mapGet, hk]
      · simp [mapSet, mapGet, hk, hk2, ih]

/-- a first-wins map answers with the first entry of the list, whatever keys repeat -/
theorem mapGet_foldl_first {α β : Type} (key : α → Str) (val : α → β) (k : Str) (xs : List α) :
    ∀ (m : List (Str × β)), mapGet (xs.foldl (fun m x => mapSetNew m (key x) (val x)) m) k =
      match mapGet m k with
      | some v => some v
      | none => (xs.find? (fun x => key x = k)).map val := by
  induction xs with
  | nil => intro m; simp only [List.foldl_nil, List.find?_nil, Option.map_none]; cases mapGet m k <;> rfl
  | cons x r ih =>
    intro m
    rw [List.foldl_cons, ih]
    by_cases hk : key x = k
    · cases hm : mapGet m (key x) with
      | some v => simp [mapSetNew, hm, ← hk]
      | none =>
        have : mapGet m k = none := hk ▸ hm
        simp [mapSetNew, hm, ← hk, mapGet_mapSet_eq]
    · cases hm : mapGet m (key x) with
      | some v => simp [mapSetNew, hm, hk]
      | none => simp [mapSetNew, hm, mapGet_mapSet_ne _ _ _ _ hk, hk]

theorem mapGet_mapOfListFirst {α β : Type} (key : α → Str) (val : α → β) (xs : List α) (k : Str) :
    mapGet (mapOfListFirst key val xs) k = (xs.find? (fun x => key x = k)).map val := by
  have := mapGet_foldl_first key val k xs []
  simpa [mapOfListFirst, mapGet] using this

theorem mapGet_none_of_not_mem {β : Type} (m : List (Str × β)) (k : Str) (h : k ∉ m.map Prod.fst) : mapGet m k = none := by
  induction m with
  | nil => rfl
  | cons x r ih =>
    obtain ⟨k', v'⟩ := x
    simp only [List.map_cons, List.mem_cons, not_or] at h
    have : ¬ k' = k := fun e => h.1 e.symm
    simp [mapGet, this, ih h.2]

theorem mapGet_some_mem {β : Type} (m : List (Str × β)) (k : Str) (v : β) (h : mapGet m k = some v) : (k, v) ∈ m := by
  induction m with
  | nil => simp [mapGet] at h
  | cons x r ih =>
    obtain ⟨k', v'⟩ := x
    by_cases hk : k' = k
    · simp [mapGet, hk] at h; subst h; subst hk; simp
    · simp [mapGet, hk] at h; exact List.mem_cons_of_mem _ (ih h)

/-! ### describe is invertible on types and constant values -/

mutual
theorem tyOfDesc_descTy (p : Str) (t : TyE) : tyOfDesc (descTy p t) = t := by
  cases t with
  | mk n k v => simp [descTy, tyOfDesc, tyOfDescO_descTyO p k, tyOfDescO_descTyO p v]
theorem tyOfDescO_descTyO (p : Str) (t : TyO) : tyOfDescO (descTyO p t) = t := by
  cases t with
  | none => rfl
  | some t => simp [descTyO, tyOfDescO, tyOfDesc_descTy p t]
end

mutual
theorem cvOfDesc_descCV (c : CV) : cvOfDesc (descCV c) = c := by
  cases c with
  | int v => simp [descCV, cvOfDesc, cvtINT]
  | dbl v => simp [descCV, cvOfDesc, cvtINT, cvtDOUBLE]
  | lit v => simp [descCV, cvOfDesc, cvtINT, cvtDOUBLE, cvtSTRING]
  | ident s =>
    by_cases h1 : s = strFalse
    · simp [descCV, cvOfDesc, h1, cvtINT, cvtDOUBLE, cvtSTRING, cvtBOOL]
    · by_cases h2 : s = strTrue
      · simp [descCV, cvOfDesc, h2, cvtINT, cvtDOUBLE, cvtSTRING, cvtBOOL, strTrue, strFalse]
      · simp [descCV, cvOfDesc, h1, h2, cvtINT, cvtDOUBLE, cvtSTRING, cvtBOOL, cvtLIST, cvtMAP, cvtIDENTIFIER]
  | list xs => simp [descCV, cvOfDesc, cvtINT, cvtDOUBLE, cvtSTRING, cvtBOOL, cvtLIST, cvOfDescs_descCVs xs]
  | map xs => simp [descCV, cvOfDesc, cvtINT, cvtDOUBLE, cvtSTRING, cvtBOOL, cvtLIST, cvtMAP, cvOfDescp_descCVp xs]
theorem cvOfDescs_descCVs (c : List CV) : cvOfDescs (descCVs c) = c := by
  cases c with
  | nil => rfl
  | cons x r => simp [descCVs, cvOfDescs, cvOfDesc_descCV x, cvOfDescs_descCVs r]
theorem cvOfDescp_descCVp (c : List (CV × CV)) : cvOfDescp (descCVp c) = c := by
  cases c with
  | nil => rfl
  | cons x r => obtain ⟨k, v⟩ := x; simp [descCVp, cvOfDescp, cvOfDesc_descCV k, cvOfDesc_descCV v, cvOfDescp_descCVp r]
end

/-! ### annotations -/

/-- annotation keys pairwise distinct (what the parser's `Annotations.Append` guarantees) -/
def AnnosOK (as : List Anno) : Prop := (as.map Anno.key).Nodup

theorem annoFacts_annoMap (as : List Anno) (h : AnnosOK as) : mapGet (annoMap as) = annoFacts as := by
  funext k
  simp only [annoMap, annoFacts]
  exact mapGet_mapOfList Anno.key Anno.values as h k

def Field.ok (f : Field) : Prop := AnnosOK f.annos
def StructLike.ok (s : StructLike) : Prop := AnnosOK s.annos ∧ ∀ f ∈ s.fields, f.ok
def EnumValue.ok (v : EnumValue) : Prop := AnnosOK v.annos
def Enum.ok (e : Enum) : Prop := AnnosOK e.annos ∧ ∀ v ∈ e.values, v.ok
def Typedef.ok (t : Typedef) : Prop := AnnosOK t.annos
def Const.ok (c : Const) : Prop := AnnosOK c.annos
def Function.ok (m : Function) : Prop := AnnosOK m.annos ∧ (∀ f ∈ m.args, f.ok) ∧ ∀ f ∈ m.throws, f.ok
def Service.ok (s : Service) : Prop := AnnosOK s.annos ∧ ∀ m ∈ s.functions, m.ok

/-- the shapes `describe_faithful` covers: pairwise distinct include base names and annotation keys -/
structure File.Canonical (f : File) : Prop where
  incl : (f.includes.map baseName).Nodup
  typedefs : ∀ t ∈ f.typedefs, t.ok
  consts : ∀ c ∈ f.consts, c.ok
  enums : ∀ e ∈ f.enums, e.ok
  structs : ∀ s ∈ f.structs, s.ok
  unions : ∀ s ∈ f.unions, s.ok
  exceptions : ∀ s ∈ f.exceptions, s.ok
  services : ∀ s ∈ f.services, s.ok

theorem map_map_congr {α β γ : Type} (f : α → β) (g : β → γ) (h : α → γ) (xs : List α) (hh : ∀ x ∈ xs, g (f x) = h x) :
    (xs.map f).map g = xs.map h := by
  rw [List.map_map]
  exact List.map_congr_left (by intro x hx; exact hh x hx)

theorem facts_field (p : Str) (f : Field) (h : f.ok) : factsField (descField p f) = forgetField f := by
  simp only [factsField, descField, forgetField, tyOfDesc_descTy, annoFacts_annoMap f.annos h, Option.map_map]
  congr 1
  cases f.dflt with
  | none => rfl
  | some c => simp [cvOfDesc_descCV]

theorem facts_struct (p : Str) (s : StructLike) (h : s.ok) : factsStruct (descStruct p s) = forgetStruct s := by
  simp only [factsStruct, descStruct, forgetStruct, annoFacts_annoMap s.annos h.1]
  rw [map_map_congr _ _ forgetField s.fields (fun f hf => facts_field p f (h.2 f hf))]

theorem facts_enumValue (p : Str) (v : EnumValue) (h : v.ok) : factsEnumValue (descEnumValue p v) = forgetEnumValue v := by
  simp only [factsEnumValue, descEnumValue, forgetEnumValue, annoFacts_annoMap v.annos h]

theorem facts_enum (p : Str) (e : Enum) (h : e.ok) : factsEnum (descEnum p e) = forgetEnum e := by
  simp only [factsEnum, descEnum, forgetEnum, annoFacts_annoMap e.annos h.1]
  rw [map_map_congr _ _ forgetEnumValue e.values (fun v hv => facts_enumValue p v (h.2 v hv))]

theorem facts_typedef (p : Str) (t : Typedef) (h : t.ok) : factsTypedef (descTypedef p t) = forgetTypedef t := by
  simp only [factsTypedef, descTypedef, forgetTypedef, annoFacts_annoMap t.annos h, tyOfDesc_descTy]

theorem facts_const (p : Str) (c : Const) (h : c.ok) : factsConst (descConst p c) = forgetConst c := by
  simp only [factsConst, descConst, forgetConst, annoFacts_annoMap c.annos h, tyOfDesc_descTy, cvOfDesc_descCV]

theorem facts_method (p : Str) (m : Function) (h : m.ok) : factsMethod (descMethod p m) = forgetMethod m := by
  simp only [factsMethod, descMethod, forgetMethod, annoFacts_annoMap m.annos h.1, tyOfDescO_descTyO]
  rw [map_map_congr _ _ forgetField m.args (fun f hf => facts_field p f (h.2.1 f hf)),
      map_map_congr _ _ forgetField m.throws (fun f hf => facts_field p f (h.2.2 f hf))]

theorem facts_service (p : Str) (s : Service) (h : s.ok) : factsService (descService p s) = forgetService s := by
  simp only [factsService, descService, forgetService, annoFacts_annoMap s.annos h.1]
  rw [map_map_congr _ _ forgetMethod s.functions (fun m hm => facts_method p m (h.2 m hm))]

theorem any_snd_map (xs : List Str) (p : Str) :
    (xs.map (fun x => (baseName x, id x))).any (·.2 == p) = xs.contains p := by
  induction xs with
  | nil => rfl
  | cons x r ih =>
    rw [List.map_cons, List.any_cons, ih, List.contains_cons]
    simp only [id]
    rw [BEq.comm]

theorem facts_file (f : File) (h : f.Canonical) : factsOf (describe f) = forget f := by
  simp only [factsOf, describe, forget]
  rw [map_map_congr _ _ forgetTypedef f.typedefs (fun t ht => facts_typedef _ t (h.typedefs t ht)),
      map_map_congr _ _ forgetConst f.consts (fun t ht => facts_const _ t (h.consts t ht)),
      map_map_congr _ _ forgetEnum f.enums (fun t ht => facts_enum _ t (h.enums t ht)),
      map_map_congr _ _ forgetStruct f.structs (fun t ht => facts_struct _ t (h.structs t ht)),
      map_map_congr _ _ forgetStruct f.unions (fun t ht => facts_struct _ t (h.unions t ht)),
      map_map_congr _ _ forgetStruct f.exceptions (fun t ht => facts_struct _ t (h.exceptions t ht)),
      map_map_congr _ _ forgetService f.services (fun t ht => facts_service _ t (h.services t ht))]
  have hinc := mapOfList_nodup baseName id f.includes h.incl
  congr 1
  · funext p
    rw [hinc]
    exact any_snd_map f.includes p
  · funext a
    rw [mapGet_mapOfList baseName id f.includes h.incl a]
    cases f.includes.find? (fun x => baseName x = a) <;> simp
  · funext l
    rw [mapGet_mapOfListFirst Namespace.lang Namespace.name f.namespaces l]

/-! ### the include structure -/

mutual
/-- all ASTs reachable through `inc.Reference`, the AST itself included -/
def Ast.subs : Ast → List Ast
  | .mk f refs => .mk f refs :: subsL refs
def subsL : List Ast → List Ast
  | [] => []
  | a :: r => a.subs ++ subsL r
end

mutual
def Ast.size : Ast → Nat
  | .mk _ refs => 1 + sizeL refs
def sizeL : List Ast → Nat
  | [] => 0
  | a :: r => a.size + sizeL r
end

theorem Ast.self_mem_subs (a : Ast) : a ∈ a.subs := by
  cases a with
  | mk f refs => simp [Ast.subs]

theorem mem_subsL_of_mem (rs : List Ast) (r : Ast) (h : r ∈ rs) : ∀ d ∈ r.subs, d ∈ subsL rs := by
  induction rs with
  | nil => cases h
  | cons x xs ih =>
    intro d hd
    rcases List.mem_cons.mp h with h | h
    · subst h; simp [subsL, hd]
    · simp [subsL, ih h d hd]

mutual
theorem subs_size (a : Ast) : ∀ d ∈ a.subs, d.size ≤ a.size := by
  cases a with
  | mk f refs =>
    intro d hd
    simp only [Ast.subs, List.mem_cons] at hd
    rcases hd with hd | hd
    · subst hd; exact Nat.le_refl _
    · have := subsL_size refs d hd
      simp only [Ast.size]; omega
theorem subsL_size (rs : List Ast) : ∀ d ∈ subsL rs, d.size ≤ sizeL rs := by
  cases rs with
  | nil => intro d hd; simp [subsL] at hd
  | cons x xs =>
    intro d hd
    simp only [subsL, List.mem_append] at hd
    simp only [sizeL]
    rcases hd with hd | hd
    · have := subs_size x d hd; omega
    · have := subsL_size xs d hd; omega
end

theorem proper_ne (f : File) (refs : List Ast) (d : Ast) (hd : d ∈ subsL refs) : d ≠ .mk f refs := by
  intro e
  have := subsL_size refs d hd
  rw [e] at this
  simp only [Ast.size] at this
  omega

mutual
theorem subs_trans (a : Ast) : ∀ d ∈ a.subs, ∀ e ∈ d.subs, e ∈ a.subs := by
  cases a with
  | mk f refs =>
    intro d hd e he
    simp only [Ast.subs, List.mem_cons] at hd
    rcases hd with hd | hd
    · subst hd; exact he
    · simp only [Ast.subs, List.mem_cons]
      exact Or.inr (subsL_trans refs d hd e he)
theorem subsL_trans (rs : List Ast) : ∀ d ∈ subsL rs, ∀ e ∈ d.subs, e ∈ subsL rs := by
  cases rs with
  | nil => intro d hd; simp [subsL] at hd
  | cons x xs =>
    intro d hd e he
    simp only [subsL, List.mem_append] at hd ⊢
    rcases hd with hd | hd
    · exact Or.inl (subs_trans x d hd e he)
    · exact Or.inr (subsL_trans xs d hd e he)
end

/-- files are identified by their name: equal Filename, equal AST (the parser caches by path) -/
def Coh (S : List Ast) : Prop := ∀ b ∈ S, ∀ c ∈ S, b.file.filename = c.file.filename → b = c

/-- `includes` of every file are the filenames of the ASTs its includes point to -/
def WFIncl (S : List Ast) : Prop := ∀ b ∈ S, b.file.includes = b.refs.map (·.file.filename)

def reg (g : GFD) (d : Ast) : Prop := (mapGet g d.file.filename).isSome = true

/-- every registered member of `S` has all its descendants registered -/
def HS (S : List Ast) (g : GFD) : Prop := ∀ d ∈ S, reg g d → ∀ e ∈ d.subs, reg g e

theorem mapGet_mapSet_keep {β : Type} (m : List (Str × β)) (k k2 : Str) (v w : β) (hk : mapGet m k = none)
    (h : mapGet m k2 = some w) : mapGet (mapSet m k v) k2 = some w := by
  by_cases e : k = k2
  · subst e; rw [hk] at h; cases h
  · rw [mapGet_mapSet_ne m k k2 v e]; exact h

mutual
/-- registration only adds entries -/
theorem regAST_mono (uuid : Str) (a : Ast) : ∀ (g : GFD) (k : Str) (v : FileDesc), mapGet g k = some v →
    mapGet (regAST uuid a g) k = some v := by
  cases a with
  | mk f refs =>
    intro g k v h
    simp only [regAST]
    split
    · exact h
    · rename_i hn
      exact regASTs_mono uuid refs _ k v (mapGet_mapSet_keep g _ k _ v hn h)
theorem regASTs_mono (uuid : Str) (rs : List Ast) : ∀ (g : GFD) (k : Str) (v : FileDesc), mapGet g k = some v →
    mapGet (regASTs uuid rs g) k = some v := by
  cases rs with
  | nil => intro g k v h; simpa [regASTs] using h
  | cons x xs =>
    intro g k v h
    simp only [regASTs]
    exact regASTs_mono uuid xs _ k v (regAST_mono uuid x g k v h)
end

theorem reg_mono (uuid : Str) (a : Ast) (g : GFD) (d : Ast) (h : reg g d) : reg (regAST uuid a g) d := by
  unfold reg at *
  cases hv : mapGet g d.file.filename with
  | none => rw [hv] at h; cases h
  | some v => rw [regAST_mono uuid a g _ v hv]; rfl

theorem regs_mono (uuid : Str) (rs : List Ast) (g : GFD) (d : Ast) (h : reg g d) : reg (regASTs uuid rs g) d := by
  unfold reg at *
  cases hv : mapGet g d.file.filename with
  | none => rw [hv] at h; cases h
  | some v => rw [regASTs_mono uuid rs g _ v hv]; rfl

mutual
/-- every entry is either old or the stamped descriptor of a reachable AST with that filename -/
theorem regAST_sound (uuid : Str) (a : Ast) : ∀ (g : GFD) (k : Str) (v : FileDesc), mapGet (regAST uuid a g) k = some v →
    mapGet g k = some v ∨ ∃ d ∈ a.subs, d.file.filename = k ∧ v = registerUUID uuid (describe d.file) := by
  cases a with
  | mk f refs =>
    intro g k v h
    simp only [regAST] at h
    split at h
    · exact Or.inl h
    · rcases regASTs_sound uuid refs _ k v h with h1 | ⟨d, hd, hk, hv⟩
      · by_cases e : f.filename = k
        · subst e
          rw [mapGet_mapSet_eq] at h1
          cases h1
          exact Or.inr ⟨.mk f refs, Ast.self_mem_subs _, rfl, rfl⟩
        · rw [mapGet_mapSet_ne _ _ _ _ e] at h1
          exact Or.inl h1
      · exact Or.inr ⟨d, by simp [Ast.subs, hd], hk, hv⟩
theorem regASTs_sound (uuid : Str) (rs : List Ast) : ∀ (g : GFD) (k : Str) (v : FileDesc), mapGet (regASTs uuid rs g) k = some v →
    mapGet g k = some v ∨ ∃ d ∈ subsL rs, d.file.filename = k ∧ v = registerUUID uuid (describe d.file) := by
  cases rs with
  | nil => intro g k v h; exact Or.inl (by simpa [regASTs] using h)
  | cons x xs =>
    intro g k v h
    simp only [regASTs] at h
    rcases regASTs_sound uuid xs _ k v h with h1 | ⟨d, hd, hk, hv⟩
    · rcases regAST_sound uuid x g k v h1 with h2 | ⟨d, hd, hk, hv⟩
      · exact Or.inl h2
      · exact Or.inr ⟨d, by simp [subsL, hd], hk, hv⟩
    · exact Or.inr ⟨d, by simp [subsL, hd], hk, hv⟩
end

theorem reg_new (uuid : Str) (a : Ast) (g : GFD) (d : Ast) (h : reg (regAST uuid a g) d) :
    reg g d ∨ ∃ e ∈ a.subs, e.file.filename = d.file.filename := by
  unfold reg at h
  cases hv : mapGet (regAST uuid a g) d.file.filename with
  | none => rw [hv] at h; cases h
  | some v =>
    rcases regAST_sound uuid a g _ v hv with h1 | ⟨e, he, hk, _⟩
    · exact Or.inl (by unfold reg; rw [h1]; rfl)
    · exact Or.inr ⟨e, he, hk⟩

theorem Coh_sub {S T : List Ast} (h : ∀ x ∈ T, x ∈ S) (hc : Coh S) : Coh T :=
  fun b hb c hc' e => hc b (h b hb) c (h c hc') e

mutual
/-- the DFS registers every reachable AST -/
theorem regAST_closed (uuid : Str) (a : Ast) : ∀ (g : GFD), Coh a.subs → HS a.subs g →
    ∀ d ∈ a.subs, reg (regAST uuid a g) d := by
  cases a with
  | mk f refs =>
    intro g hc hh d hd
    simp only [regAST]
    split
    · rename_i v hv
      exact hh (.mk f refs) (Ast.self_mem_subs _) (by unfold reg; simp [Ast.file, hv]) d hd
    · rename_i hn
      have hsub : ∀ x ∈ subsL refs, x ∈ (Ast.mk f refs).subs := fun x hx => by simp [Ast.subs, hx]
      -- the invariant for the children, after registering this node
      have hh1 : HS (subsL refs) (mapSet g f.filename (registerUUID uuid (describe f))) := by
        intro x hx hr e he
        have hxf : x.file.filename ≠ f.filename := by
          intro e1
          exact proper_ne f refs x hx (hc x (hsub x hx) (.mk f refs) (Ast.self_mem_subs _) (by simpa [Ast.file] using e1))
        have hrx : reg g x := by
          unfold reg at hr ⊢
          rwa [mapGet_mapSet_ne _ _ _ _ (Ne.symm hxf)] at hr
        have := hh x (hsub x hx) hrx e he
        unfold reg at this ⊢
        cases hv : mapGet g e.file.filename with
        | none => rw [hv] at this; cases this
        | some v => rw [mapGet_mapSet_keep g _ _ _ v hn hv]; rfl
      simp only [Ast.subs, List.mem_cons] at hd
      rcases hd with hd | hd
      · subst hd
        apply regs_mono
        unfold reg
        simp [Ast.file, mapGet_mapSet_eq]
      · exact regASTs_closed uuid refs _ (Coh_sub hsub hc) hh1 d hd
theorem regASTs_closed (uuid : Str) (rs : List Ast) : ∀ (g : GFD), Coh (subsL rs) → HS (subsL rs) g →
    ∀ d ∈ subsL rs, reg (regASTs uuid rs g) d := by
  cases rs with
  | nil => intro g _ _ d hd; simp [subsL] at hd
  | cons x xs =>
    intro g hc hh d hd
    simp only [regASTs]
    have hx : ∀ y ∈ x.subs, y ∈ subsL (x :: xs) := fun y hy => by simp [subsL, hy]
    have hxs : ∀ y ∈ subsL xs, y ∈ subsL (x :: xs) := fun y hy => by simp [subsL, hy]
    have h1 := regAST_closed uuid x g (Coh_sub hx hc) (fun y hy => hh y (hx y hy))
    have hh2 : HS (subsL xs) (regAST uuid x g) := by
      intro y hy hr e he
      rcases reg_new uuid x g y hr with h0 | ⟨z, hz, hk⟩
      · exact reg_mono uuid x g e (hh y (hxs y hy) h0 e he)
      · have : z = y := hc z (hx z hz) y (hxs y hy) hk
        subst this
        exact h1 e (subs_trans x z hz e he)
    simp only [subsL, List.mem_append] at hd
    rcases hd with hd | hd
    · exact regs_mono uuid xs _ d (h1 d hd)
    · exact regASTs_closed uuid xs _ (Coh_sub hxs hc) hh2 d hd
end

/-- RegisterAST registers, under its filename, the stamped descriptor of every reachable file -/
theorem regAST_registers (uuid : Str) (root : Ast) (hc : Coh root.subs) (b : Ast) (hb : b ∈ root.subs) :
    mapGet (regAST uuid root []) b.file.filename = some (registerUUID uuid (describe b.file)) := by
  have h := regAST_closed uuid root [] hc (fun d _ hr => by simp [reg, mapGet] at hr) b hb
  unfold reg at h
  cases hv : mapGet (regAST uuid root []) b.file.filename with
  | none => rw [hv] at h; cases h
  | some v =>
    rcases regAST_sound uuid root [] _ v hv with h1 | ⟨d, hd, hk, hv'⟩
    · simp [mapGet] at h1
    · have : d = b := hc d hd b hb hk
      subst this
      rw [hv']

/-! ### lookups against what names denote -/

theorem Ast.refs_mem_subs (b r : Ast) (h : r ∈ b.refs) : r ∈ b.subs := by
  cases b with
  | mk f refs =>
    simp only [Ast.refs] at h
    simp only [Ast.subs, List.mem_cons]
    exact Or.inr (mem_subsL_of_mem refs r h r (Ast.self_mem_subs r))

theorem find?_map' {α β : Type} (g : α → β) (p : β → Bool) (l : List α) :
    (l.map g).find? p = (l.find? (fun x => p (g x))).map g := by
  induction l with
  | nil => rfl
  | cons x r ih =>
    simp only [List.map_cons, List.find?_cons]
    cases p (g x) <;> simp [ih]

theorem globalOf_stamped (W : World) (uuid : Str) (huuid : uuid ≠ []) :
    W.globalOf (addExtra uuid none) = mapGet W.regs uuid := by
  simp [World.globalOf, addExtra, mapGet, huuid]

theorem parseAlias_snd_nil_of_nil : (parseAlias []).2 = [] := by decide

/-- the generic statement behind `lookup_finds`: a by-name lookup from a registered file returns the
(stamped) descriptor of the definition the name denotes -/
theorem lookup_generic {α δ : Type} (W : World) (uuid : Str) (root b : Ast) (name : Str)
    (look : FileDesc → Str → Option δ) (defs : File → List α) (nameOf : α → Str) (mk : Str → α → δ)
    (hlook : ∀ (f : File) (n : Str), look (registerUUID uuid (describe f)) n =
      ((defs f).find? (fun d => nameOf d = n)).map (mk f.filename))
    (huuid : uuid ≠ []) (hreg : mapGet W.regs uuid = some (regAST uuid root []))
    (hc : Coh root.subs) (hwf : WFIncl root.subs) (hne : ∀ d ∈ root.subs, d.file.filename ≠ [])
    (hb : b ∈ root.subs) (hnd : (b.file.includes.map baseName).Nodup) (hname : (parseAlias name).2 ≠ []) :
    lookupIn W (mapGet W.regs uuid) b.file.filename name look =
      (denote b name defs nameOf).map (fun pd => mk pd.1 pd.2) := by
  have hn0 : name ≠ [] := by
    intro e; subst e; exact hname parseAlias_snd_nil_of_nil
  have hfd := regAST_registers uuid root hc b hb
  simp only [lookupIn, lookupFD, hreg, Option.bind_some, hfd, getDescriptor, hn0, if_false, denote]
  cases hpa : parseAlias name with
  | mk pre nm =>
    rw [hpa] at hname
    simp only at hname ⊢
    by_cases hp : pre = []
    · subst hp
      simp only [if_true, denoteFile, Option.bind_some, hlook, Option.map_map]
      cases (defs b.file).find? (fun d => nameOf d = nm) <;> rfl
    · simp only [hp, if_false, getIncludeFD, denoteFile]
      have hinc : (registerUUID uuid (describe b.file)).includes = mapOfList baseName id b.file.includes := rfl
      have hext : (registerUUID uuid (describe b.file)).extra = addExtra uuid none := rfl
      rw [hinc, mapGet_mapOfList baseName id b.file.includes hnd pre, hwf b hb, find?_map', hext,
        globalOf_stamped W uuid huuid, hreg]
      cases hr : b.refs.find? (fun r => decide (baseName r.file.filename = pre)) with
      | none => simp
      | some r =>
        have hrm : r ∈ root.subs := subs_trans root b hb r (Ast.refs_mem_subs b r (List.mem_of_find?_eq_some hr))
        have hrn := hne r hrm
        simp only [Option.map_some, id, Option.getD_some, bne_iff_ne, ne_eq, hrn, not_false_eq_true, if_true, lookupFD,
          Option.bind_some, regAST_registers uuid root hc r hrm, hname, if_false, hlook, Option.map_map]
        cases (defs r.file).find? (fun d => nameOf d = nm) <;> rfl

theorem look_struct (uuid : Str) (f : File) (n : Str) : lookStruct (registerUUID uuid (describe f)) n =
    (f.structs.find? (fun d => d.name = n)).map (fun s => uuidStruct uuid (descStruct f.filename s)) := by
  simp only [lookStruct, registerUUID, describe, find?_map', Option.map_map]; rfl
theorem look_union (uuid : Str) (f : File) (n : Str) : lookUnion (registerUUID uuid (describe f)) n =
    (f.unions.find? (fun d => d.name = n)).map (fun s => uuidStruct uuid (descStruct f.filename s)) := by
  simp only [lookUnion, registerUUID, describe, find?_map', Option.map_map]; rfl
theorem look_exception (uuid : Str) (f : File) (n : Str) : lookException (registerUUID uuid (describe f)) n =
    (f.exceptions.find? (fun d => d.name = n)).map (fun s => uuidStruct uuid (descStruct f.filename s)) := by
  simp only [lookException, registerUUID, describe, find?_map', Option.map_map]; rfl
theorem look_enum (uuid : Str) (f : File) (n : Str) : lookEnum (registerUUID uuid (describe f)) n =
    (f.enums.find? (fun d => d.name = n)).map (fun s => uuidEnum uuid (descEnum f.filename s)) := by
  simp only [lookEnum, registerUUID, describe, find?_map', Option.map_map]; rfl
theorem look_typedef (uuid : Str) (f : File) (n : Str) : lookTypedef (registerUUID uuid (describe f)) n =
    (f.typedefs.find? (fun d => d.alias = n)).map (fun s => uuidTypedef uuid (descTypedef f.filename s)) := by
  simp only [lookTypedef, registerUUID, describe, find?_map', Option.map_map]; rfl
theorem look_const (uuid : Str) (f : File) (n : Str) : lookConst (registerUUID uuid (describe f)) n =
    (f.consts.find? (fun d => d.name = n)).map (fun s => uuidConst uuid (descConst f.filename s)) := by
  simp only [lookConst, registerUUID, describe, find?_map', Option.map_map]; rfl
theorem look_service (uuid : Str) (f : File) (n : Str) : lookService (registerUUID uuid (describe f)) n =
    (f.services.find? (fun d => d.name = n)).map (fun s => uuidService uuid (descService f.filename s)) := by
  simp only [lookService, registerUUID, describe, find?_map', Option.map_map]; rfl

/-! ### fields, methods, type descriptors of constants -/

/-- a stamped type descriptor resolves through the registry it is stamped with -/
theorem typedesc_stamped {α : Type} (W : World) (uuid : Str) (huuid : uuid ≠ []) (p n : Str) (k v : TyO)
    (look : FileDesc → Str → Option α) :
    (uuidTy uuid (descTy p (.mk n k v))).getVia W look =
      if isContainer n || isBasic n then none else lookupIn W (mapGet W.regs uuid) p n look := by
  simp only [TypeDesc.getVia, uuidTy, descTy, TypeDesc.name, TypeDesc.extra, TypeDesc.filepath, globalOf_stamped W uuid huuid]

theorem method_of_stamped (uuid p : Str) (s : Service) (m : Str) :
    (uuidService uuid (descService p s)).methodByName m =
      (s.functions.find? (fun f => f.name = m)).map (fun f => uuidMethod uuid (descMethod p f)) := by
  simp only [ServiceDesc.methodByName, uuidService, descService, find?_map', Option.map_map]; rfl

/-- registerGlobalUUID stamps the type descriptor of a constant like every other type descriptor -/
theorem const_type_stamped (uuid p : Str) (c : Const) : (uuidConst uuid (descConst p c)).ty = uuidTy uuid (descTy p c.ty) := rfl

theorem lookupMethod_eq (W : World) (g : Option GFD) (path svc m : Str) (h : svc ≠ []) :
    lookupMethod W g path svc m = (lookupIn W g path svc lookService).bind (·.methodByName m) := by
  simp only [lookupMethod, lookupIn, getMethodDescriptor, h, if_false]
  cases lookupFD g path <;> rfl


theorem field_by_name (p : Str) (s : StructLike) (n : Str) :
    (descStruct p s).fieldByName n = (s.fields.find? (fun f => f.name = n)).map (descField p) := by
  simp only [StructDesc.fieldByName, descStruct, find?_map']; rfl

theorem field_by_id (p : Str) (s : StructLike) (i : Int) :
    (descStruct p s).fieldById i = (s.fields.find? (fun f => f.id = i)).map (descField p) := by
  simp only [StructDesc.fieldById, descStruct, find?_map']; rfl

theorem method_by_name (p : Str) (s : Service) (n : Str) :
    (descService p s).methodByName n = (s.functions.find? (fun f => f.name = n)).map (descMethod p) := by
  simp only [ServiceDesc.methodByName, descService, find?_map']; rfl

theorem globalOf_none (W : World) : W.globalOf none = some W.dflt := by simp [World.globalOf]

/-! ### Go-type registry -/

theorem byGoType_zip {τ β : Type} [DecidableEq τ] : ∀ (ks : List τ) (vs : List β) (i : Nat) (hk : i < ks.length) (hv : i < vs.length),
    ks.Nodup → byGoType (ks.zip vs) ks[i] = some vs[i] := by
  intro ks
  induction ks with
  | nil => intro vs i hk; cases hk
  | cons k r ih =>
    intro vs i hk hv hn
    cases vs with
    | nil => cases hv
    | cons v vr =>
      have hn' := List.nodup_cons.mp hn
      simp only [byGoType, List.zip_cons_cons, List.reverse_cons, List.find?_append] at *
      cases i with
      | zero =>
        have : (r.zip vr).reverse.find? (fun x => decide (x.1 = k)) = none := by
          rw [List.find?_eq_none]
          intro x hx
          have hx' := List.mem_reverse.mp hx
          have := (List.of_mem_zip hx').1
          simp only [decide_eq_true_eq]
          intro e; rw [e] at this; exact hn'.1 this
        simp [this]
      | succ j =>
        have hj : j < r.length := by simpa using hk
        have hjv : j < vr.length := by simpa using hv
        have := ih vr j hj hjv hn'.2
        simp only [List.getElem_cons_succ]
        cases hf : (r.zip vr).reverse.find? (fun x => decide (x.1 = r[j])) with
        | none => rw [hf] at this; cases this
        | some x => rw [hf] at this; simpa using this

/-! ### annotations: from source-level pairs to the descriptor map -/

theorem annoAppend_keys (as : List Anno) (k v : Str) :
    (annoAppend as k v).map Anno.key = if k ∈ as.map Anno.key then as.map Anno.key else as.map Anno.key ++ [k] := by
  induction as with
  | nil => simp [annoAppend]
  | cons a r ih =>
    by_cases h : a.key = k
    · simp [annoAppend, h]
    · have h' : ¬ k = a.key := fun e => h e.symm
      simp only [annoAppend, h, if_false, List.map_cons, ih, List.mem_cons, h', false_or]
      split <;> simp

theorem annoAppend_nodup (as : List Anno) (k v : Str) (h : AnnosOK as) : AnnosOK (annoAppend as k v) := by
  unfold AnnosOK at *
  rw [annoAppend_keys]
  split
  · exact h
  · rename_i hk
    rw [List.nodup_append]
    refine ⟨h, by simp, ?_⟩
    intro a ha b hb
    simp only [List.mem_singleton] at hb
    subst hb
    intro e; subst e; exact hk ha

theorem annosOfPairs_ok (ps : List (Str × Str)) : AnnosOK (annosOfPairs ps) := by
  unfold annosOfPairs
  suffices ∀ as, AnnosOK as → AnnosOK (ps.foldl (fun as p => annoAppend as p.1 p.2) as) from this [] (by simp [AnnosOK])
  induction ps with
  | nil => intro as h; exact h
  | cons p r ih => intro as h; exact ih _ (annoAppend_nodup as p.1 p.2 h)

/-- what the IDL states for key `k`: all its values, in source order -/
def valuesOf (ps : List (Str × Str)) (k : Str) : List Str := (ps.filter (fun p => p.1 = k)).map (·.2)

def extend (o : Option (List Str)) (vs : List Str) : Option (List Str) :=
  if vs = [] then o else some (o.getD [] ++ vs)

theorem annoFacts_append (as : List Anno) (k v k2 : Str) :
    annoFacts (annoAppend as k v) k2 = if k = k2 then some ((annoFacts as k2).getD [] ++ [v]) else annoFacts as k2 := by
  induction as with
  | nil =>
    by_cases h : k = k2
    · simp [annoAppend, annoFacts, h]
    · simp [annoAppend, annoFacts, h]
  | cons a r ih =>
    by_cases ha : a.key = k
    · by_cases h : k = k2
      · subst h; simp [annoAppend, annoFacts, ha]
      · have : ¬ a.key = k2 := fun e => h (ha.symm.trans e)
        simp [annoAppend, annoFacts, ha, h]
    · simp only [annoAppend, ha, if_false]
      by_cases h2 : a.key = k2
      · have : ¬ k = k2 := fun e => ha (h2.trans e.symm)
        simp [annoFacts, h2, this]
      · have ih' := ih
        simp only [annoFacts] at ih' ⊢
        simp only [List.find?_cons, h2, decide_false]
        exact ih'

theorem annoFacts_fold (ps : List (Str × Str)) (k : Str) : ∀ as : List Anno,
    annoFacts (ps.foldl (fun as p => annoAppend as p.1 p.2) as) k = extend (annoFacts as k) (valuesOf ps k) := by
  induction ps with
  | nil => intro as; simp [valuesOf, extend]
  | cons p r ih =>
    intro as
    rw [List.foldl_cons, ih, annoFacts_append]
    by_cases h : p.1 = k
    · simp only [h, if_true, valuesOf, List.filter_cons, decide_true, List.map_cons]
      simp only [extend]
      by_cases hr : List.map (fun x => x.2) (List.filter (fun p => decide (p.1 = k)) r) = []
      · simp [hr]
      · simp [hr]
    · simp only [h, if_false, valuesOf, List.filter_cons, decide_false]
      rfl

/-! ### a Bool checker for `Gen.Gen.Std.WT` (the hypothesis of the round trip is evaluated at run time) -/

theorem isNilB_eq (v : GoVal) (h : isNilB v = true) : v = .nil := by cases v <;> simp [isNilB] at h ⊢

theorem keysOkB_sound (k : Ty) : ∀ (l : List GoVal), keysOkB k l = true → Gen.Std.KeysOK k l
  | [], _ => by simp [Gen.Std.KeysOK]
  | a :: r, h => by
    simp only [keysOkB, Bool.and_eq_true, Bool.not_eq_true', List.all_eq_true] at h
    refine ⟨?_, ?_, keysOkB_sound k r h.2⟩
    · intro e; subst e; simp [isNilB] at h
    · intro p hp; exact h.1.2 p hp

theorem inRange_iff (lo hi x : Int) : inRange lo hi x = true ↔ lo ≤ x ∧ x < hi := by simp [inRange]

mutual
theorem wtB_sound (S : List StructDef) (v : GoVal) : ∀ (ty : Ty), wtB S ty v = true → Gen.Std.WT S ty v := by
  intro ty h
  cases v with
  | nil => cases ty <;> simp [wtB, Gen.Std.WT] at h ⊢
  | bool b => cases ty <;> simp [wtB, Gen.Std.WT] at h ⊢
  | int x => cases ty <;> simp [wtB, Gen.Std.WT, inRange_iff] at h ⊢ <;> exact h
  | dbl b => cases ty <;> simp [wtB, Gen.Std.WT] at h ⊢ <;> exact h
  | bytes bs => cases ty <;> simp [wtB, Gen.Std.WT, Gen.Std.fitsLen] at h ⊢ <;> exact h
  | list xs =>
    cases ty with
    | list e =>
      simp only [wtB, Bool.and_eq_true, decide_eq_true_eq] at h
      simp only [Gen.Std.WT]
      exact ⟨h.1, wtListB_sound S xs e h.2⟩
    | set e =>
      simp only [wtB, Bool.and_eq_true, decide_eq_true_eq] at h
      simp only [Gen.Std.WT]
      exact ⟨h.1, wtListB_sound S xs e h.2⟩
    | _ => simp [wtB] at h
  | map kvs =>
    cases ty with
    | map k w =>
      simp only [wtB, Bool.and_eq_true, Bool.or_eq_true, decide_eq_true_eq] at h
      simp only [Gen.Std.WT]
      exact ⟨h.1.1.1, wtPairsB_sound S kvs k w h.1.1.2, keysOkB_sound _ _ h.1.2, h.2⟩
    | _ => simp [wtB] at h
  | strct fs =>
    cases ty with
    | struct i =>
      simp only [wtB] at h
      simp only [Gen.Std.WT]
      cases hs : S[i]? with
      | none => rw [hs] at h; cases h
      | some sd => rw [hs] at h; exact ⟨sd, rfl, wtFieldsB_sound S fs sd.fields h⟩
    | _ => simp [wtB] at h
theorem wtListB_sound (S : List StructDef) (xs : List GoVal) : ∀ (e : Ty), wtListB S e xs = true → Gen.Std.WTList S e xs := by
  intro e h
  cases xs with
  | nil => simp [Gen.Std.WTList]
  | cons x r =>
    simp only [wtListB, Bool.and_eq_true] at h
    exact ⟨wtB_sound S x e h.1, wtListB_sound S r e h.2⟩
theorem wtPairsB_sound (S : List StructDef) (kvs : List (GoVal × GoVal)) : ∀ (k v : Ty), wtPairsB S k v kvs = true →
    Gen.Std.WTPairs S k v kvs := by
  intro k v h
  cases kvs with
  | nil => simp [Gen.Std.WTPairs]
  | cons x r =>
    obtain ⟨a, b⟩ := x
    simp only [wtPairsB, Bool.and_eq_true] at h
    exact ⟨wtB_sound S a k h.1.1, wtB_sound S b v h.1.2, wtPairsB_sound S r k v h.2⟩
theorem wtFieldsB_sound (S : List StructDef) (vs : List GoVal) : ∀ (defs : List FieldDef), wtFieldsB S defs vs = true →
    Gen.Std.WTFields S defs vs := by
  intro defs h
  cases vs with
  | nil => cases defs <;> simp [wtFieldsB, Gen.Std.WTFields] at h ⊢
  | cons v r =>
    cases defs with
    | nil => simp [wtFieldsB] at h
    | cons f fs =>
      simp only [wtFieldsB, Bool.and_eq_true, inRange_iff] at h
      refine ⟨?_, ?_, h.1.2, wtFieldsB_sound S r fs h.2⟩
      · intro ho
        have h1 := h.1.1
        simp only [ho, if_true, Bool.or_eq_true, Bool.and_eq_true, Bool.not_eq_true'] at h1
        rcases h1 with h1 | h1
        · exact Or.inl ⟨isNilB_eq v h1.1, h1.2⟩
        · exact Or.inr (wtB_sound S v f.ty h1)
      · intro ho
        have h1 := h.1.1
        simp only [ho, if_false] at h1
        exact wtB_sound S v f.ty h1
end

end Reflect
