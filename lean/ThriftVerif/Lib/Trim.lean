import ThriftVerif.Core.VL
/-
  Model of tool/trimmer/trim (mark.go, pre-process.go, traversal.go, trimmer.go:doTrimAST).

  A program is the list of parsed files (`*parser.Thrift`, shared between includers exactly as
  `parser.ParseFile` shares them through its `thriftMap`); file 0 is the root AST handed to
  `TrimAST`.  Types carry what `semantic.ResolveSymbols` left in the AST and what `markType`
  reads: `Name`, `Category`, `IsTypedef`, `Reference{Name,Index}`, `KeyType`, `ValueType`.
  `Trimmer.marks[filename]` is a set of AST node pointers; nodes are addressed here by
  (file, kind, name) — `semantic.Checker.CheckGlobals/CheckFunctions` and
  `resolver.RegisterNames` (run by every caller before `TrimAST`) make names unique per file.

  Control flow: `markType` first recurses into key and value type, then marks the include and
  then the typedef / struct-like / enum it names.  `tyTargets` lists these marking actions of
  one type in exactly that order; `visit` is `markStructLike` / `markTypeDef` / `markEnum` /
  `markInclude` (mark, then `markType` every field / the typedef's target), so
  `markType ty = foldl visit (tyTargets ty)` threads the mark set through the same sequence of
  effects as the Go code.  Go's recursion is bounded by the visited set only; here it is
  structural on a fuel value, `fuelN p = number of nodes + 1`, and `TrimLemmas.visit_spec`
  shows that this fuel is never exhausted.  Recursions over the include tree / extends chain
  (`preProcess`, `markService`, `traceExtendMethod`) terminate in Go because
  `parser.CircleDetect` rejected include cycles and because extends chains are finite; their
  fuel exhaustion (only possible with cyclic `extends`, on which the Go code does not
  terminate) and Go's nil dereferences are the explicit outcome `crash`.
-/
namespace Trim

structure TyHdr where
  name : Bytes                    -- Type.Name as written ("a.T" when qualified)
  cat : Nat                       -- parser.Category (Bool=1 … Binary=8, Map=9, List=10, Set=11, Enum=12, Struct=13, Union=14, Exception=15, Typedef=16)
  isTd : Bool                     -- Type.IsTypedef != nil
  ref : Option (Bytes × Nat)      -- Type.Reference {Name, Index}
  deriving DecidableEq, Repr, Inhabited

inductive Ty where
  | named (h : TyHdr)                       -- KeyType = ValueType = nil
  | unary (h : TyHdr) (v : Ty)              -- list / set: ValueType
  | binary (h : TyHdr) (k v : Ty)           -- map: KeyType, ValueType
  deriving DecidableEq, Repr, Inhabited

def Ty.hdr : Ty → TyHdr
  | .named h => h
  | .unary h _ => h
  | .binary h _ _ => h

structure Field where
  name : Bytes
  id : Int
  ty : Ty
  deriving DecidableEq, Repr, Inhabited

structure StructLike where
  name : Bytes
  fields : List Field
  pcomment : Bool                 -- preserveRegex matches ToLower(ReservedComments)
  deriving DecidableEq, Repr, Inhabited

structure Function where
  name : Bytes
  args : List Field
  throws : List Field
  ret : Option Ty                 -- none = Void
  deriving DecidableEq, Repr, Inhabited

structure Service where
  name : Bytes
  ext : Bytes                     -- Service.Extends ("" = none)
  ref : Option (Bytes × Nat)      -- Service.Reference
  fns : List Function
  deriving DecidableEq, Repr, Inhabited

structure Include where
  path : Bytes
  target : Nat                    -- Include.Reference, as index into Program.files
  deriving DecidableEq, Repr, Inhabited

structure Typedef where
  alias : Bytes
  ty : Ty
  deriving DecidableEq, Repr, Inhabited

structure Const where
  name : Bytes
  ty : Ty
  deriving DecidableEq, Repr, Inhabited

structure File where
  name : Bytes
  includes : List Include
  typedefs : List Typedef
  consts : List Const
  enums : List Bytes
  structs : List StructLike
  unions : List StructLike
  exceptions : List StructLike
  services : List Service
  deriving DecidableEq, Repr, Inhabited

structure Program where
  files : List File
  deriving DecidableEq, Repr, Inhabited

inductive SLKind
  | struct | union | exception
  deriving DecidableEq, Repr, Inhabited

inductive Node
  | inc (f i : Nat)                          -- Includes[i] of file f
  | sl (f : Nat) (k : SLKind) (n : Bytes)
  | enum (f : Nat) (n : Bytes)
  | td (f : Nat) (n : Bytes)
  | svc (f : Nat) (n : Bytes)
  | fn (f : Nat) (s n : Bytes)
  deriving DecidableEq, Repr, Inhabited

abbrev Marks := List Node

/-- VARIANT SECTION.  Three small repairs of the -m code paths were proposed for
tool/trimmer/trim/mark.go (prefix rule in traceExtendMethod; an `extends` needed by a later trace is
not cut; the include of a cut base is not marked).  Each flag selects the repaired code; all flags
`false` is the code before the repairs.  `checks/c16.py` probes the implementation for the variant
it has and passes it to both sides; every theorem is proved for all values of the flags. -/
structure Fix where
  prefixRule : Bool               -- traceExtendMethod applies `funcName == pat || !HasPrefix(funcName, pat)`
  retract : Bool                  -- keepServiceExtends / extKeep
  incl : Bool                     -- extendsCut in markService; markInclude in traceExtendMethod only `if back`
  deriving DecidableEq, Repr, Inhabited

/-- -m patterns are `regexp2` expressions; `rx pat s` is `regexp2.MatchString` (a parameter). -/
structure Cfg where
  fix : Fix
  methods : List Bytes            -- TrimASTArg.TrimMethods as given
  force : Bool                    -- forceTrimming = !Preserve
  noComment : Bool                -- DisablePreserveComment
  preserved : List Bytes          -- PreserveStructs
  rx : Bytes → Bytes → Bool

def emptyFile : File := ⟨[], [], [], [], [], [], [], [], []⟩

def Program.file (p : Program) (f : Nat) : File := p.files.getD f emptyFile

def File.sl (file : File) : SLKind → List StructLike
  | .struct => file.structs
  | .union => file.unions
  | .exception => file.exceptions

/-- structs ++ unions ++ exceptions, as `markKeptPart` concatenates them -/
def File.sls (file : File) : List (SLKind × StructLike) :=
  file.structs.map (SLKind.struct, ·) ++ file.unions.map (SLKind.union, ·) ++ file.exceptions.map (SLKind.exception, ·)

def Program.incTarget (p : Program) (f i : Nat) : Option Nat :=
  ((p.file f).includes[i]?).map (·.target)

def findSL (p : Program) (f : Nat) (k : SLKind) (n : Bytes) : Option StructLike :=
  ((p.file f).sl k).find? (fun s => s.name == n)

def findTd (p : Program) (f : Nat) (a : Bytes) : Option Typedef :=
  (p.file f).typedefs.find? (fun t => t.alias == a)

def findSvc (p : Program) (f : Nat) (n : Bytes) : Option Service :=
  (p.file f).services.find? (fun s => s.name == n)

/-! ### markType -/

/-- `theType.Category <= 8 && theType.IsTypedef == nil` -/
def TyHdr.plain (h : TyHdr) : Bool := decide (h.cat ≤ 8) && !h.isTd

/-- `str.Name == theType.Name || (theType.Reference != nil && str.Name == theType.Reference.Name)` -/
def nameHit (h : TyHdr) (n : Bytes) : Bool :=
  n == h.name || (match h.ref with | some (rn, _) => n == rn | none => false)

/-- the definition a type header names inside `base` (typedef first, then by category) -/
def declTargets (p : Program) (base : Nat) (h : TyHdr) : List Node :=
  if h.isTd then
    match (p.file base).typedefs.find? (fun t => t.alias == h.name) with
    | some t => [Node.td base t.alias]
    | none => []
  else if h.cat = 13 then
    match (p.file base).structs.find? (fun s => nameHit h s.name) with
    | some s => [Node.sl base .struct s.name]
    | none => []
  else if h.cat = 15 then
    match (p.file base).exceptions.find? (fun s => nameHit h s.name) with
    | some s => [Node.sl base .exception s.name]
    | none => []
  else if h.cat = 14 then
    match (p.file base).unions.find? (fun s => nameHit h s.name) with
    | some s => [Node.sl base .union s.name]
    | none => []
  else if h.cat = 12 then
    match (p.file base).enums.find? (fun e => nameHit h e) with
    | some e => [Node.enum base e]
    | none => []
  else []

/-- the part of `markType` after the recursion into key/value: redirect through the include,
mark it, mark the named definition.  An out-of-range `Reference.Index` (a Go panic) cannot come
out of `ResolveSymbols`; the model then marks nothing. -/
def selfTargets (p : Program) (f : Nat) (h : TyHdr) : List Node :=
  match h.ref with
  | none => declTargets p f h
  | some (_, i) =>
    match p.incTarget f i with
    | some g => Node.inc f i :: declTargets p g h
    | none => []

def tyTargets (p : Program) (f : Nat) : Ty → List Node
  | .named h => if h.plain then [] else selfTargets p f h
  | .unary h v => if h.plain then [] else tyTargets p f v ++ selfTargets p f h
  | .binary h k v => if h.plain then [] else tyTargets p f k ++ (tyTargets p f v ++ selfTargets p f h)

/-- what `markStructLike` / `markTypeDef` go on to mark after marking the node itself -/
def succs (p : Program) : Node → List Node
  | .sl f k n =>
    match findSL p f k n with
    | some s => s.fields.flatMap (fun fd => tyTargets p f fd.ty)
    | none => []
  | .td f a =>
    match findTd p f a with
    | some t => tyTargets p f t.ty
    | none => []
  | _ => []

/-- markStructLike / markTypeDef / markEnum / markInclude on the node `n` -/
def visit (p : Program) : Nat → Marks → Node → Marks
  | 0, M, _ => M
  | k+1, M, n => if n ∈ M then M else (succs p n).foldl (visit p k) (n :: M)

def fileNodes (f : Nat) (file : File) : List Node :=
  (List.range file.includes.length).map (Node.inc f) ++
  file.structs.map (fun s => Node.sl f .struct s.name) ++
  file.unions.map (fun s => Node.sl f .union s.name) ++
  file.exceptions.map (fun s => Node.sl f .exception s.name) ++
  file.enums.map (Node.enum f) ++
  file.typedefs.map (fun t => Node.td f t.alias)

def allNodes (p : Program) : List Node :=
  (List.range p.files.length).flatMap (fun f => fileNodes f (p.file f))

def fuelN (p : Program) : Nat := (allNodes p).length + 1

def markType (p : Program) (f : Nat) (M : Marks) (ty : Ty) : Marks :=
  (tyTargets p f ty).foldl (visit p (fuelN p)) M

def markTypes (p : Program) (f : Nat) (M : Marks) (tys : List Ty) : Marks :=
  tys.foldl (markType p f) M

/-- arguments, then throws, then the result unless void (markFunction) -/
def Function.types (fn : Function) : List Ty :=
  fn.args.map (·.ty) ++ (fn.throws.map (·.ty) ++ fn.ret.toList)

def markFunction (p : Program) (f : Nat) (sname : Bytes) (M : Marks) (fn : Function) : Marks :=
  markTypes p f (Node.fn f sname fn.name :: M) fn.types

/-! ### services and the -m filter -/

def dot (a b : Bytes) : Bytes := a ++ 46 :: b

/-- doTrimAST: a method without "." gets the name of the last (or only) root service in front;
nothing is compiled when the root has no service -/
def qualify (svcs : List Service) (m : Bytes) : Bytes :=
  if m.contains 46 then m else
  match svcs.getLast? with
  | some s => dot s.name m
  | none => m

def effMethods (p : Program) (cfg : Cfg) : List Bytes :=
  cfg.methods.map (qualify (p.file 0).services)

def isPrefix : Bytes → Bytes → Bool
  | [], _ => true
  | _ :: _, [] => false
  | a :: p, b :: s => a == b && isPrefix p s

/-- markService: `MatchString(funcName) && (funcName == method.String() || !HasPrefix(funcName, method.String()))` -/
def hitStrict (cfg : Cfg) (ms : List Bytes) (s : Bytes) : Bool :=
  ms.any (fun m => cfg.rx m s && (s == m || !isPrefix m s))

/-- traceExtendMethod: `MatchString(father.Name + "." + function.Name)` -/
def hitLoose (cfg : Cfg) (ms : List Bytes) (s : Bytes) : Bool :=
  ms.any (fun m => cfg.rx m s)

structure St where
  marks : Marks
  ext : List (Nat × Bytes)        -- extServices (markServiceExtends)
  keep : List (Nat × Bytes)       -- extKeep (keepServiceExtends), variant `retract`
  cache : List (Nat × Bool)       -- keptPartCache
  crash : Bool
  deriving Repr

def insInc (f i : Nat) (M : Marks) : Marks := if Node.inc f i ∈ M then M else Node.inc f i :: M

def nextSvc (p : Program) (f : Nat) (svc : Service) : Option (Nat × Service) :=
  match svc.ref with
  | none => (findSvc p f svc.ext).map (f, ·)
  | some (rn, i) =>
    match p.incTarget f i with
    | none => none
    | some g => (findSvc p g rn).map (g, ·)

def svcCount (p : Program) : Nat := (p.files.map (·.services.length)).sum

def hitFathers (cfg : Cfg) (ms : List Bytes) (fathers : List Bytes) (fn : Function) : Bool :=
  fathers.any (fun fa => if cfg.fix.prefixRule then hitStrict cfg ms (dot fa fn.name) else hitLoose cfg ms (dot fa fn.name))

/-- extendsCut: cleanServiceExtends is going to cut the `extends` of this service -/
def isCut (cfg : Cfg) (st : St) (x : Nat × Bytes) : Bool :=
  st.ext.contains x && !(cfg.fix.retract && st.keep.contains x)

/-- `currentMap[svc] = struct{}{}; t.markFunction(function, ast, filename)` -/
def markSvcFn (p : Program) (f : Nat) (svc : Service) (st : St) (fn : Function) : St :=
  { st with marks := markFunction p f svc.name (Node.svc f svc.name :: st.marks) fn }

/-- body of the function loop of traceExtendMethod.  The loops over fathers × methods are collapsed
to `any`: repeating `currentMap[svc] = …; markFunction(function)` adds nothing to the set. -/
def traceStep (p : Program) (cfg : Cfg) (ms : List Bytes) (fathers : List Bytes) (f : Nat) (svc : Service)
    (st : St) (fn : Function) : St :=
  if hitFathers cfg ms fathers fn then markSvcFn p f svc st fn else st

/-- the end of traceExtendMethod: `if ret { currentMap[svc] = …; if svc.Reference != nil { markInclude } }`
(variant `incl`: `&& back`) -/
def finMarks (cfg : Cfg) (f : Nat) (svc : Service) (back : Bool) (M : Marks) : Marks :=
  match svc.ref with
  | some (_, i) =>
    if cfg.fix.incl && !back then Node.svc f svc.name :: M
    else insInc f i (Node.svc f svc.name :: M)
  | none => Node.svc f svc.name :: M

def traceFinish (cfg : Cfg) (f : Nat) (svc : Service) (back : Bool) (r : St × Bool) : St × Bool :=
  if r.2 then ({ r.1 with marks := finMarks cfg f svc back r.1.marks }, true) else (r.1, false)

/-- `if !back { markServiceExtends(svc) }` (variant `retract`: `else { keepServiceExtends(svc) }`) -/
def afterBack (cfg : Cfg) (f : Nat) (svc : Service) (r : St × Bool) : St :=
  if r.2 then (if cfg.fix.retract then { r.1 with keep := (f, svc.name) :: r.1.keep } else r.1)
  else { r.1 with ext := (f, svc.name) :: r.1.ext }

/-- traceExtendMethod -/
def trace (p : Program) (cfg : Cfg) (ms : List Bytes) : Nat → List Bytes → Nat → Service → St → St × Bool
  | 0, _, _, _, st => ({ st with crash := true }, false)
  | j+1, fathers, f, svc, st =>
    let st1 := svc.fns.foldl (traceStep p cfg ms fathers f svc) st
    let ret1 := svc.fns.any (hitFathers cfg ms fathers)
    if svc.ext ≠ [] then
      match nextSvc p f svc with
      | none => traceFinish cfg f svc false ({ st1 with crash := true }, ret1)          -- nextSvc == nil is dereferenced
      | some (g, b) =>
        let r := trace p cfg ms j (fathers ++ [b.name]) g b st1
        traceFinish cfg f svc r.2 (afterBack cfg f svc r, r.2 || ret1)
    else traceFinish cfg f svc false (st1, ret1)

/-- body of the function loop of markService -/
def svcStep (p : Program) (cfg : Cfg) (ms : List Bytes) (f : Nat) (svc : Service) (st : St) (fn : Function) : St :=
  if ms.isEmpty then { st with marks := markFunction p f svc.name st.marks fn }
  else if hitStrict cfg ms (dot svc.name fn.name) then markSvcFn p f svc st fn
  else st

def markService (p : Program) (cfg : Cfg) (ms : List Bytes) : Nat → Nat → Service → St → St
  | 0, _, _, st => { st with crash := true }
  | j+1, f, svc, st =>
    if Node.svc f svc.name ∈ st.marks then st else
    let st0 := if ms.isEmpty then { st with marks := Node.svc f svc.name :: st.marks } else st
    let st1 := svc.fns.foldl (svcStep p cfg ms f svc) st0
    let st2 := if !ms.isEmpty && (svc.ext ≠ [] || svc.ref.isSome) then
        (trace p cfg ms (svcCount p + 1) [svc.name] f svc st1).1 else st1
    if svc.ext ≠ [] ∧ Node.svc f svc.name ∈ st2.marks ∧ (cfg.fix.incl && isCut cfg st2 (f, svc.name)) = false then
      match svc.ref with
      | none =>
        -- the base service lives in the same file
        match findSvc p f svc.ext with
        | none => st2
        | some b => markService p cfg ms j f b st2
      | some (rn, i) =>
        match p.incTarget f i with
        | none => { st2 with crash := true }
        | some g =>
          match findSvc p g rn with
          | none => { st2 with marks := insInc f i st2.marks }
          | some b => markService p cfg ms j g b { st2 with marks := insInc f i st2.marks }
    else st2

/-! ### always-kept parts -/

def checkPreserve (cfg : Cfg) (s : StructLike) : Bool :=
  !cfg.force && (cfg.preserved.contains s.name || (!cfg.noComment && s.pcomment))

def cacheGet : List (Nat × Bool) → Nat → Option Bool
  | [], _ => none
  | (g, r) :: c, f => if g = f then some r else cacheGet c f

/-- body of the struct-like loop of markKeptPart -/
def keptStep (p : Program) (cfg : Cfg) (f : Nat) (a : Marks × Bool) (ks : SLKind × StructLike) : Marks × Bool :=
  if !a.1.contains (Node.sl f ks.1 ks.2.name) && checkPreserve cfg ks.2
  then (visit p (fuelN p) a.1 (Node.sl f ks.1 ks.2.name), true) else a

def markKeptPart (p : Program) (cfg : Cfg) (f : Nat) (st : St) : St × Bool :=
  match cacheGet st.cache f with
  | some r => (st, r)
  | none =>
    let M := markTypes p f (markTypes p f st.marks ((p.file f).consts.map (·.ty))) ((p.file f).typedefs.map (·.ty))
    let ret := !(p.file f).consts.isEmpty || !(p.file f).typedefs.isEmpty
    let r : Marks × Bool := if cfg.force then (M, ret) else (p.file f).sls.foldl (keptStep p cfg f) (M, ret)
    ({ st with marks := r.1, cache := (f, r.2) :: st.cache }, r.2)

/-- body of the include loop of preProcess; `rec` is preProcess on the included file -/
def preStep (rec : Nat → St → St × Bool) (f : Nat) (a : St × Bool) (ii : Include × Nat) : St × Bool :=
  let r := rec ii.1.target a.1
  if r.2 then ({ r.1 with marks := Node.inc f ii.2 :: r.1.marks }, true) else (r.1, a.2)

def preProcess (p : Program) (cfg : Cfg) : Nat → Nat → St → St × Bool
  | 0, _, st => ({ st with crash := true }, false)
  | j+1, f, st => (p.file f).includes.zipIdx.foldl (preStep (preProcess p cfg j) f) (markKeptPart p cfg f st)

def St.init : St := ⟨[], [], [], [], false⟩

def markAST (p : Program) (cfg : Cfg) : St :=
  let ms := effMethods p cfg
  let st := (preProcess p cfg (p.files.length + 1) 0 St.init).1
  let st := (p.file 0).services.foldl (fun st svc => markService p cfg ms (svcCount p + 1) 0 svc st) st
  (markKeptPart p cfg 0 st).1

/-! ### traversal -/

def keepInc (p : Program) (M : Marks) (f : Nat) (ii : Include × Nat) : Bool :=
  M.contains (Node.inc f ii.2) ||
    decide ((p.file ii.1.target).consts.length + (p.file ii.1.target).enums.length + (p.file ii.1.target).typedefs.length > 0)

def keepSL (cfg : Cfg) (M : Marks) (f : Nat) (k : SLKind) (s : StructLike) : Bool :=
  M.contains (Node.sl f k s.name) || checkPreserve cfg s

/-- traversal's rewrite of a kept service plus cleanServiceExtends -/
def sweepSvc (cfg : Cfg) (ms : List Bytes) (st : St) (f : Nat) (s : Service) : Service :=
  let fns := if ms.isEmpty then s.fns else s.fns.filter (fun fn => st.marks.contains (Node.fn f s.name fn.name))
  if isCut cfg st (f, s.name) then { s with fns := fns, ext := [], ref := none } else { s with fns := fns }

def sweepFile (p : Program) (cfg : Cfg) (ms : List Bytes) (st : St) (f : Nat) (file : File) : File :=
  { file with
    includes := (file.includes.zipIdx.filter (keepInc p st.marks f)).map (·.1)
    structs := file.structs.filter (keepSL cfg st.marks f .struct)
    unions := file.unions.filter (keepSL cfg st.marks f .union)
    exceptions := file.exceptions.filter (keepSL cfg st.marks f .exception)
    services := (file.services.filter (fun s => st.marks.contains (Node.svc f s.name))).map (sweepSvc cfg ms st f) }

/-- `traversal` applied to every file.  The Go code only walks files still reachable from the root
through kept includes; the others are unreachable afterwards, so their content is unobservable. -/
def sweep (p : Program) (cfg : Cfg) (ms : List Bytes) (st : St) : Program :=
  ⟨p.files.zipIdx.map (fun fi => sweepFile p cfg ms st fi.2 fi.1)⟩

/-! ### re-resolution (`semantic.ResolveSymbols` after the deletion): include indices are recomputed.
`ResolveType` rebinds a qualified name to the first include with the right prefix that defines
it — the same include as before when it survived; a reference through a deleted include keeps its
stale index (`t.Reference` is only overwritten on success). -/

def newIdx (ks : List Bool) (i : Nat) : Nat :=
  if ks.getD i false then (ks.take i).count true else i

def renRef (ks : List Bool) : Option (Bytes × Nat) → Option (Bytes × Nat)
  | some (n, i) => some (n, newIdx ks i)
  | none => none

def renHdr (ks : List Bool) (h : TyHdr) : TyHdr := { h with ref := renRef ks h.ref }

def renTy (ks : List Bool) : Ty → Ty
  | .named h => .named (renHdr ks h)
  | .unary h v => .unary (renHdr ks h) (renTy ks v)
  | .binary h k v => .binary (renHdr ks h) (renTy ks k) (renTy ks v)

def renField (ks : List Bool) (fd : Field) : Field := { fd with ty := renTy ks fd.ty }
def renSL (ks : List Bool) (s : StructLike) : StructLike := { s with fields := s.fields.map (renField ks) }
def renFn (ks : List Bool) (fn : Function) : Function :=
  { fn with args := fn.args.map (renField ks), throws := fn.throws.map (renField ks), ret := fn.ret.map (renTy ks) }
def renSvc (ks : List Bool) (s : Service) : Service := { s with ref := renRef ks s.ref, fns := s.fns.map (renFn ks) }

def renFile (ks : List Bool) (file : File) : File :=
  { file with
    typedefs := file.typedefs.map (fun t => { t with ty := renTy ks t.ty })
    consts := file.consts.map (fun c => { c with ty := renTy ks c.ty })
    structs := file.structs.map (renSL ks)
    unions := file.unions.map (renSL ks)
    exceptions := file.exceptions.map (renSL ks)
    services := file.services.map (renSvc ks) }

def keepFlags (p : Program) (M : Marks) (f : Nat) : List Bool :=
  (p.file f).includes.zipIdx.map (keepInc p M f)

def trimFile (p : Program) (cfg : Cfg) (ms : List Bytes) (st : St) (f : Nat) (file : File) : File :=
  renFile (keepFlags p st.marks f) (sweepFile p cfg ms st f file)

inductive Outcome
  | crash
  | ok (q : Program)

/-- doTrimAST up to (not including) the re-check: markAST, traversal, index re-resolution -/
def trimProg (p : Program) (cfg : Cfg) : Program :=
  let st := markAST p cfg
  ⟨p.files.zipIdx.map (fun fi => trimFile p cfg (effMethods p cfg) st fi.2 fi.1)⟩

def trim (p : Program) (cfg : Cfg) : Outcome :=
  if (markAST p cfg).crash then .crash else .ok (trimProg p cfg)


/-! ## Specification: reachability as a least set, independent of the DFS -/

/-- the nodes a type written in file `f` names: through its key and value types, and by its own
header unless it is a plain base type -/
inductive TyRef (p : Program) (f : Nat) : Ty → Node → Prop
  | self {ty : Ty} {n : Node} : ty.hdr.plain = false → n ∈ selfTargets p f ty.hdr → TyRef p f ty n
  | val1 {h : TyHdr} {v : Ty} {n : Node} : h.plain = false → TyRef p f v n → TyRef p f (.unary h v) n
  | key {h : TyHdr} {k v : Ty} {n : Node} : h.plain = false → TyRef p f k n → TyRef p f (.binary h k v) n
  | val2 {h : TyHdr} {k v : Ty} {n : Node} : h.plain = false → TyRef p f v n → TyRef p f (.binary h k v) n

/-- a struct-like needs what its field types name; a typedef needs what its target names -/
inductive Edge (p : Program) : Node → Node → Prop
  | field {f : Nat} {k : SLKind} {n : Bytes} {s : StructLike} {fd : Field} {x : Node} :
      findSL p f k n = some s → fd ∈ s.fields → TyRef p f fd.ty x → Edge p (.sl f k n) x
  | typedef {f : Nat} {a : Bytes} {t : Typedef} {x : Node} :
      findTd p f a = some t → TyRef p f t.ty x → Edge p (.td f a) x

/-- files reachable from the root through the (original) include lists -/
inductive InclReach (p : Program) : Nat → Prop
  | root : InclReach p 0
  | step {f i g : Nat} : InclReach p f → p.incTarget f i = some g → InclReach p g

/-- Roots: what the kept functions (those with a function mark in `M`), every constant, every
typedef and (unless preserve=false) every preserved struct-like of every included file name. -/
inductive Root (p : Program) (cfg : Cfg) (M : Marks) : Node → Prop
  | fn {f : Nat} {svc : Service} {fn : Function} {ty : Ty} {x : Node} :
      svc ∈ (p.file f).services → fn ∈ svc.fns → Node.fn f svc.name fn.name ∈ M → ty ∈ fn.types →
      TyRef p f ty x → Root p cfg M x
  | const {f : Nat} {c : Const} {x : Node} :
      InclReach p f → c ∈ (p.file f).consts → TyRef p f c.ty x → Root p cfg M x
  | typedef {f : Nat} {t : Typedef} {x : Node} :
      InclReach p f → t ∈ (p.file f).typedefs → TyRef p f t.ty x → Root p cfg M x
  | preserved {f : Nat} {k : SLKind} {s : StructLike} :
      InclReach p f → s ∈ (p.file f).sl k → checkPreserve cfg s = true → Root p cfg M (.sl f k s.name)

inductive Reach (p : Program) (cfg : Cfg) (M : Marks) : Node → Prop
  | root {n : Node} : Root p cfg M n → Reach p cfg M n
  | step {m n : Node} : Reach p cfg M m → Edge p m n → Reach p cfg M n

/-- struct-likes, enums and typedefs: the nodes whose marks mean "needed by a type" -/
def Node.isDecl : Node → Bool
  | .sl _ _ _ => true
  | .enum _ _ => true
  | .td _ _ => true
  | _ => false

/-- names are unique among the services of a file and among the functions of a service
(CheckGlobals, CheckFunctions) -/
def UniqueSvcFn (p : Program) : Prop :=
  ∀ f, ((p.file f).services.map (·.name)).Nodup ∧ ∀ svc ∈ (p.file f).services, (svc.fns.map (·.name)).Nodup

/-- struct-like names are unique per kind and file (CheckGlobals) -/
def UniqueSL (p : Program) : Prop := ∀ f k, (((p.file f).sl k).map (·.name)).Nodup

/-- a marked service is complete: every function is marked and, if it extends a service of an
included file, that include and that base service are marked -/
def SvcOK (p : Program) (M : Marks) (f : Nat) (svc : Service) : Prop :=
  (∀ fn ∈ svc.fns, Node.fn f svc.name fn.name ∈ M) ∧
  (svc.ext ≠ [] → ∀ rn i g, svc.ref = some (rn, i) → p.incTarget f i = some g →
    Node.inc f i ∈ M ∧ ∀ b, findSvc p g rn = some b → Node.svc g b.name ∈ M) ∧
  (svc.ext ≠ [] → svc.ref = none → ∀ b, findSvc p f svc.ext = some b → Node.svc f b.name ∈ M)

end Trim
