import ThriftVerif.Lib.FileManager
/- helper definitions and lemmas for Props/C12.lean -/
namespace FileManager

/-! ### Feed: what only grows -/

theorem feedLoop_files_prefix (items : List Item) : ∀ (st : St) (last : Bytes) (skip : Bool),
    ∃ ex, (feedLoop st last skip items).1.files = st.files ++ ex := by
  induction items with
  | nil => intro st last skip; exact ⟨[], by simp [feedLoop]⟩
  | cons f rest ih =>
    intro st last skip
    unfold feedLoop
    split
    · split
      · exact ih st last true
      · split
        · exact ⟨[], by simp⟩
        · obtain ⟨ex, h⟩ := ih (addPatch st last f) last false
          exact ⟨ex, by rw [h]; rfl⟩
    · rename_i name _
      split
      · obtain ⟨ex, h⟩ := ih (addFile st name f.content) name false
        exact ⟨(name, f.content) :: ex, by rw [h]; simp [addFile]⟩
      · split
        · obtain ⟨ex, h⟩ := ih (addPatch st name f) name false
          exact ⟨ex, by rw [h]; rfl⟩
        · split
          · exact ih st last true
          · exact ⟨[], by simp⟩
          · exact ⟨[], by simp⟩
          · rename_i renamed _
            obtain ⟨ex, h⟩ := ih { addFile st renamed f.content with count := upd st.count name (st.count name + 1) } renamed false
            exact ⟨(renamed, f.content) :: ex, by rw [h]; simp [addFile]⟩

theorem feedAll_files_prefix (calls : List (List Item)) : ∀ st : St,
    ∃ ex, (feedAll st calls).files = st.files ++ ex := by
  induction calls with
  | nil => intro st; exact ⟨[], by simp [feedAll]⟩
  | cons c cs ih =>
    intro st
    obtain ⟨e1, h1⟩ := feedLoop_files_prefix c st [] false
    obtain ⟨e2, h2⟩ := ih (feed st c).1
    exact ⟨e1 ++ e2, by simp only [feedAll]; rw [h2]; unfold feed; rw [h1]; simp⟩

theorem feedAll_append (a b : List (List Item)) : ∀ st : St,
    feedAll st (a ++ b) = feedAll (feedAll st a) b := by
  induction a with
  | nil => intro st; rfl
  | cons c cs ih => intro st; simp [feedAll, ih]

theorem upd_patch_prefix (st : St) (t : Bytes) (f : Item) (n : Bytes) :
    ∃ ex, (addPatch st t f).patch n = st.patch n ++ ex := by
  unfold addPatch upd
  by_cases h : n = t
  · subst h; exact ⟨[⟨f.ip, f.content⟩], by simp⟩
  · exact ⟨[], by simp [h]⟩

theorem feedLoop_patch_prefix (items : List Item) : ∀ (st : St) (last : Bytes) (skip : Bool) (n : Bytes),
    ∃ ex, (feedLoop st last skip items).1.patch n = st.patch n ++ ex := by
  induction items with
  | nil => intro st last skip n; exact ⟨[], by simp [feedLoop]⟩
  | cons f rest ih =>
    intro st last skip n
    unfold feedLoop
    split
    · split
      · exact ih st last true n
      · split
        · exact ⟨[], by simp⟩
        · obtain ⟨ex, h⟩ := ih (addPatch st last f) last false n
          obtain ⟨e0, h0⟩ := upd_patch_prefix st last f n
          exact ⟨e0 ++ ex, by rw [h, h0]; simp⟩
    · rename_i name _
      split
      · obtain ⟨ex, h⟩ := ih (addFile st name f.content) name false n
        exact ⟨ex, by rw [h]; rfl⟩
      · split
        · obtain ⟨ex, h⟩ := ih (addPatch st name f) name false n
          obtain ⟨e0, h0⟩ := upd_patch_prefix st name f n
          exact ⟨e0 ++ ex, by rw [h, h0]; simp⟩
        · split
          · exact ih st last true n
          · exact ⟨[], by simp⟩
          · exact ⟨[], by simp⟩
          · rename_i renamed _
            obtain ⟨ex, h⟩ := ih { addFile st renamed f.content with count := upd st.count name (st.count name + 1) } renamed false n
            exact ⟨ex, by rw [h]; rfl⟩

/-! ### a generic invariant principle for FileLoop: every way the loop changes the state is one hypothesis -/

def renameSt (st : St) (name renamed content : Bytes) : St :=
  { addFile st renamed content with count := upd st.count name (st.count name + 1) }

theorem feedLoop_inv (Q : St → Prop)
    (hpatch : ∀ st t f, Q st → Q (addPatch st t f))
    (hnew : ∀ st name c, Q st → st.index name = none → Q (addFile st name c))
    (hren : ∀ st name idx c renamed, Q st → st.index name = some idx →
      probe st name c (st.files.length + 1) idx 1 = .fresh renamed → Q (renameSt st name renamed c))
    (items : List Item) : ∀ (st : St) (last : Bytes) (skip : Bool),
    Q st → Q (feedLoop st last skip items).1 := by
  induction items with
  | nil => intro st last skip h; simpa [feedLoop] using h
  | cons f rest ih =>
    intro st last skip h
    unfold feedLoop
    split
    · split
      · exact ih st last true h
      · split
        · exact h
        · exact ih _ last false (hpatch _ _ _ h)
    · rename_i name hname
      split
      · rename_i hidx
        exact ih _ name false (hnew _ _ _ h hidx)
      · rename_i idx hidx
        split
        · exact ih _ name false (hpatch _ _ _ h)
        · split
          · exact ih st last true h
          · exact h
          · exact h
          · rename_i renamed hp
            exact ih _ renamed false (hren _ _ _ _ _ h hidx hp)

/-! ### the probe loop -/

/-- positions in `files` that the probe loop visits: `idx`, then the position the index records for
`name_cnt` if that name is taken, then for `name_{cnt+1}`, … up to the first free name -/
def chain (st : St) (name : Bytes) : Nat → Nat → Nat → List Nat
  | 0, _, _ => []
  | fuel + 1, idx, cnt =>
    idx :: match st.index (sib name cnt) with
      | none => []
      | some next => chain st name fuel next (cnt + 1)

/-- the chain of a Feed item: `idx = index[name]`, then `index[name_1]`, `index[name_2]`, … while taken -/
def siblings (st : St) (name : Bytes) (idx : Nat) : List Nat := chain st name (st.files.length + 1) idx 1

def contentAt (st : St) (i : Nat) : Option Bytes := (st.files[i]?).map (·.2)

theorem probe_fresh_spec (st : St) (name content : Bytes) : ∀ (fuel idx cnt : Nat) (r : Bytes),
    probe st name content fuel idx cnt = .fresh r →
    ∃ k, cnt ≤ k ∧ r = sib name k ∧ st.index r = none ∧ ∀ j, cnt ≤ j → j < k → st.index (sib name j) ≠ none := by
  intro fuel
  induction fuel with
  | zero => intro idx cnt r h; simp [probe] at h
  | succ fuel ih =>
    intro idx cnt r h
    unfold probe at h
    split at h
    · cases h
    · split at h
      · cases h
      · split at h
        · rename_i hnone
          injection h with h
          subst h
          exact ⟨cnt, Nat.le_refl _, rfl, hnone, fun j h1 h2 => by omega⟩
        · rename_i next hsome
          obtain ⟨k, hk, hr, hn, hall⟩ := ih _ _ _ h
          refine ⟨k, by omega, hr, hn, ?_⟩
          intro j h1 h2
          by_cases e : j = cnt
          · subst e; rw [hsome]; simp
          · exact hall j (by omega) h2

theorem probe_dup_iff (st : St) (name content : Bytes) : ∀ (fuel idx cnt : Nat),
    (∀ i ∈ chain st name fuel idx cnt, i < st.files.length) →
    (probe st name content fuel idx cnt = .dup ↔ ∃ i ∈ chain st name fuel idx cnt, contentAt st i = some content) := by
  intro fuel
  induction fuel with
  | zero => intro idx cnt _; simp [probe, chain]
  | succ fuel ih =>
    intro idx cnt hv
    have hlt : idx < st.files.length := hv idx (by simp [chain])
    unfold probe
    rw [List.getElem?_eq_getElem hlt]
    simp only
    by_cases hc : (st.files[idx]).2 = content
    · simp only [hc, if_true, true_iff]
      exact ⟨idx, by simp [chain], by simp [contentAt, List.getElem?_eq_getElem hlt, hc]⟩
    · simp only [hc, if_false]
      have hidx : ¬ contentAt st idx = some content := by
        simp [contentAt, List.getElem?_eq_getElem hlt, hc]
      cases hs : st.index (sib name cnt) with
      | none =>
        simp only [chain, hs, List.mem_singleton, exists_eq_left]
        constructor
        · intro h; cases h
        · intro h; exact absurd h hidx
      | some next =>
        have hv' : ∀ i ∈ chain st name fuel next (cnt + 1), i < st.files.length := by
          intro i hi; exact hv i (by simp only [chain, hs, List.mem_cons]; exact Or.inr hi)
        simp only [chain, hs, List.mem_cons, exists_eq_or_imp]
        rw [ih next (cnt + 1) hv']
        constructor
        · intro h; exact Or.inr h
        · rintro (h | h)
          · exact absurd h hidx
          · exact h

theorem probe_no_panic (st : St) (name content : Bytes) : ∀ (fuel idx cnt : Nat),
    (∀ i ∈ chain st name fuel idx cnt, i < st.files.length) →
    probe st name content fuel idx cnt ≠ .panic := by
  intro fuel
  induction fuel with
  | zero => intro idx cnt _; simp [probe]
  | succ fuel ih =>
    intro idx cnt hv
    have hlt : idx < st.files.length := hv idx (by simp [chain])
    unfold probe
    rw [List.getElem?_eq_getElem hlt]
    simp only
    split
    · simp
    · cases hs : st.index (sib name cnt) with
      | none => simp
      | some next =>
        simp only
        exact ih next (cnt + 1) (fun i hi => hv i (by simp only [chain, hs, List.mem_cons]; exact Or.inr hi))

/-- the loop can only run out of fuel if all the candidate names it looked at were taken -/
theorem probe_hang (st : St) (name content : Bytes) : ∀ (fuel idx cnt : Nat),
    probe st name content fuel idx cnt = .hang → ∀ j, j < fuel → st.index (sib name (cnt + j)) ≠ none := by
  intro fuel
  induction fuel with
  | zero => intro idx cnt _ j hj; omega
  | succ fuel ih =>
    intro idx cnt h j hj
    unfold probe at h
    split at h
    · cases h
    · split at h
      · cases h
      · split at h
        · cases h
        · rename_i next hsome
          cases j with
          | zero => rw [Nat.add_zero, hsome]; simp
          | succ j =>
            have := ih _ _ h j (by omega)
            have e : cnt + (j + 1) = cnt + 1 + j := by omega
            rw [e]; exact this

/-! ### renamed names are injective in (name, k) -/

theorem decF_fuel : ∀ (f g n : Nat), n < f → n < g → decF f n = decF g n := by
  intro f
  induction f with
  | zero => intro g n h; omega
  | succ f ih =>
    intro g n h1 h2
    cases g with
    | zero => omega
    | succ g =>
      unfold decF
      by_cases h : n < 10
      · simp [h]
      · simp only [h, if_false]
        rw [ih g (n / 10) (by omega) (by omega)]

theorem dec_rec (n : Nat) : dec n = if n < 10 then [48 + n] else dec (n / 10) ++ [48 + n % 10] := by
  unfold dec
  rw [decF]
  by_cases h : n < 10
  · simp [h]
  · simp only [h, if_false]
    rw [decF_fuel n (n / 10 + 1) (n / 10) (by omega) (by omega)]

theorem dec_digits (n : Nat) : ∀ c ∈ dec n, 48 ≤ c ∧ c ≤ 57 := by
  induction n using Nat.strongRecOn with
  | _ n ih =>
    intro c hc
    rw [dec_rec] at hc
    by_cases h : n < 10
    · simp [h] at hc; omega
    · simp only [h, if_false, List.mem_append, List.mem_singleton] at hc
      rcases hc with hc | hc
      · exact ih (n / 10) (by omega) c hc
      · omega

theorem dec_ne_nil (n : Nat) : dec n ≠ [] := by
  rw [dec_rec]; split <;> simp

theorem dec_inj : ∀ (n m : Nat), dec n = dec m → n = m := by
  intro n
  induction n using Nat.strongRecOn with
  | _ n ih =>
    intro m h
    rw [dec_rec n, dec_rec m] at h
    by_cases hn : n < 10 <;> by_cases hm : m < 10
    · simp [hn, hm] at h; omega
    · simp only [hn, hm, if_true, if_false] at h
      have := congrArg List.length h
      have h0 := dec_ne_nil (m / 10)
      cases hd : dec (m / 10) with
      | nil => exact absurd hd h0
      | cons x r => rw [hd] at this; simp at this
    · simp only [hn, hm, if_true, if_false] at h
      have := congrArg List.length h
      have h0 := dec_ne_nil (n / 10)
      cases hd : dec (n / 10) with
      | nil => exact absurd hd h0
      | cons x r => rw [hd] at this; simp at this
    · simp only [hn, hm, if_false] at h
      have h' := List.append_inj' h (by simp)
      have e1 := ih (n / 10) (by omega) (m / 10) h'.1
      have e2 : 48 + n % 10 = 48 + m % 10 := by simpa using h'.2
      omega

theorem split_unique (P : Nat → Prop) : ∀ (l1 l2 r1 r2 : List Nat) (a b : Nat),
    (∀ x ∈ l1, ¬ P x) → (∀ x ∈ l2, ¬ P x) → P a → P b →
    l1 ++ a :: r1 = l2 ++ b :: r2 → l1 = l2 ∧ a = b ∧ r1 = r2 := by
  intro l1
  induction l1 with
  | nil =>
    intro l2 r1 r2 a b _ h2 pa _ h
    cases l2 with
    | nil => simp at h; exact ⟨rfl, h.1, h.2⟩
    | cons y l2 =>
      simp at h
      exact absurd (h.1 ▸ pa) (h2 y List.mem_cons_self)
  | cons x l1 ih =>
    intro l2 r1 r2 a b h1 h2 pa pb h
    cases l2 with
    | nil =>
      simp at h
      exact absurd (h.1 ▸ pb) (h1 x List.mem_cons_self)
    | cons y l2 =>
      simp at h
      obtain ⟨e1, e2, e3⟩ := ih l2 r1 r2 a b (fun z hz => h1 z (List.mem_cons_of_mem _ hz))
        (fun z hz => h2 z (List.mem_cons_of_mem _ hz)) pa pb h.2
      exact ⟨by rw [h.1, e1], e2, e3⟩

def IsSep (x : Nat) : Prop := x = 46 ∨ x = 47

theorem extRev_some : ∀ (rn e p : Bytes), extRev rn = some (e, p) →
    ∃ t, e = t ++ [46] ∧ rn = e ++ p ∧ ∀ x ∈ t, ¬ IsSep x := by
  intro rn
  induction rn with
  | nil => intro e p h; simp [extRev] at h
  | cons c r ih =>
    intro e p h
    unfold extRev at h
    by_cases h1 : c = 46
    · simp [h1] at h
      exact ⟨[], by simp [h.1.symm, h.2.symm, h1]⟩
    · by_cases h2 : c = 47
      · simp [h2] at h
      · simp only [h1, h2, if_false] at h
        cases hr : extRev r with
        | none => rw [hr] at h; cases h
        | some ep =>
          obtain ⟨e', p'⟩ := ep
          rw [hr] at h
          simp at h
          obtain ⟨t, ht1, ht2, ht3⟩ := ih e' p' hr
          refine ⟨c :: t, ?_, ?_, ?_⟩
          · rw [← h.1, ht1]; rfl
          · rw [← h.1, ← h.2, ht2]; rfl
          · intro x hx
            rcases List.mem_cons.mp hx with rfl | hx
            · intro hs; rcases hs with hs | hs <;> contradiction
            · exact ht3 x hx

theorem extRev_none : ∀ (rn : Bytes), extRev rn = none →
    ∃ t rest, rn = t ++ rest ∧ (∀ x ∈ t, ¬ IsSep x) ∧ (rest = [] ∨ ∃ r', rest = 47 :: r') := by
  intro rn
  induction rn with
  | nil => intro _; exact ⟨[], [], rfl, by simp, Or.inl rfl⟩
  | cons c r ih =>
    intro h
    unfold extRev at h
    by_cases h1 : c = 46
    · simp [h1] at h
    · by_cases h2 : c = 47
      · exact ⟨[], c :: r, rfl, by simp, Or.inr ⟨r, by rw [h2]⟩⟩
      · simp only [h1, h2, if_false] at h
        cases hr : extRev r with
        | some ep => rw [hr] at h; cases h
        | none =>
          obtain ⟨t, rest, e, ht, hrest⟩ := ih hr
          refine ⟨c :: t, rest, by rw [e]; rfl, ?_, hrest⟩
          intro x hx
          rcases List.mem_cons.mp hx with rfl | hx
          · intro hs; rcases hs with hs | hs <;> contradiction
          · exact ht x hx

theorem revdec_not_sep (k : Nat) : ∀ x ∈ (dec k).reverse, ¬ IsSep x := by
  intro x hx hs
  have := dec_digits k x (List.mem_reverse.mp hx)
  rcases hs with hs | hs <;> omega

theorem revdec_not_us (k : Nat) : ∀ x ∈ (dec k).reverse, ¬ (x = 95) := by
  intro x hx hs
  have := dec_digits k x (List.mem_reverse.mp hx)
  omega

theorem tail_unique (k j : Nat) (p q : Bytes) (h : (dec k).reverse ++ 95 :: p = (dec j).reverse ++ 95 :: q) :
    k = j ∧ p = q := by
  obtain ⟨e1, _, e3⟩ := split_unique (· = 95) _ _ _ _ 95 95 (revdec_not_us k) (revdec_not_us j) rfl rfl h
  exact ⟨dec_inj _ _ (List.reverse_inj.mp e1), e3⟩

theorem sibRev_inj (a b : Bytes) (k j : Nat) (h : sibRev a k = sibRev b j) : a = b ∧ k = j := by
  unfold sibRev at h
  cases ha : extRev a with
  | some ep =>
    obtain ⟨e1, p1⟩ := ep
    obtain ⟨t1, he1, hra, ht1⟩ := extRev_some a e1 p1 ha
    cases hb : extRev b with
    | some eq =>
      obtain ⟨e2, p2⟩ := eq
      obtain ⟨t2, he2, hrb, ht2⟩ := extRev_some b e2 p2 hb
      rw [ha, hb] at h
      simp only [he1, he2, List.append_assoc, List.singleton_append] at h
      obtain ⟨et, _, er⟩ := split_unique IsSep _ _ _ _ 46 46 ht1 ht2 (Or.inl rfl) (Or.inl rfl) h
      obtain ⟨ek, ep⟩ := tail_unique k j p1 p2 er
      exact ⟨by rw [hra, hrb, he1, he2, et, ep], ek⟩
    | none =>
      obtain ⟨t2, rest, hrb, ht2, hrest⟩ := extRev_none b hb
      rw [ha, hb] at h
      simp only [he1, List.append_assoc, List.singleton_append] at h
      exfalso
      have hl : ∀ x ∈ (dec j).reverse ++ 95 :: t2, ¬ IsSep x := by
        intro x hx
        rcases List.mem_append.mp hx with hx | hx
        · exact revdec_not_sep j x hx
        · rcases List.mem_cons.mp hx with rfl | hx
          · intro hs; rcases hs with hs | hs <;> omega
          · exact ht2 x hx
      rcases hrest with rfl | ⟨r', rfl⟩
      · have : (46 : Nat) ∈ (dec j).reverse ++ 95 :: b := by rw [← h]; simp
        rw [hrb] at this
        simp only [List.append_nil] at this
        exact hl 46 this (Or.inl rfl)
      · rw [hrb] at h
        have h' : t1 ++ 46 :: ((dec k).reverse ++ 95 :: p1) = ((dec j).reverse ++ 95 :: t2) ++ 47 :: r' := by
          simpa using h
        obtain ⟨_, e, _⟩ := split_unique IsSep _ _ _ _ 46 47 ht1 hl (Or.inl rfl) (Or.inr rfl) h'
        omega
  | none =>
    obtain ⟨t1, rest, hra, ht1, hrest⟩ := extRev_none a ha
    cases hb : extRev b with
    | some eq =>
      obtain ⟨e2, p2⟩ := eq
      obtain ⟨t2, he2, hrb, ht2⟩ := extRev_some b e2 p2 hb
      rw [ha, hb] at h
      simp only [he2, List.append_assoc, List.singleton_append] at h
      exfalso
      have hl : ∀ x ∈ (dec k).reverse ++ 95 :: t1, ¬ IsSep x := by
        intro x hx
        rcases List.mem_append.mp hx with hx | hx
        · exact revdec_not_sep k x hx
        · rcases List.mem_cons.mp hx with rfl | hx
          · intro hs; rcases hs with hs | hs <;> omega
          · exact ht1 x hx
      rcases hrest with rfl | ⟨r', rfl⟩
      · have : (46 : Nat) ∈ (dec k).reverse ++ 95 :: a := by rw [h]; simp
        rw [hra] at this
        simp only [List.append_nil] at this
        exact hl 46 this (Or.inl rfl)
      · rw [hra] at h
        have h' : ((dec k).reverse ++ 95 :: t1) ++ 47 :: r' = t2 ++ 46 :: ((dec j).reverse ++ 95 :: p2) := by
          simpa using h
        obtain ⟨_, e, _⟩ := split_unique IsSep _ _ _ _ 47 46 hl ht2 (Or.inr rfl) (Or.inl rfl) h'
        omega
    | none =>
      rw [ha, hb] at h
      obtain ⟨ek, ep⟩ := tail_unique k j a b h
      exact ⟨ep, ek⟩

theorem sib_inj (a b : Bytes) (k j : Nat) (h : sib a k = sib b j) : a = b ∧ k = j := by
  unfold sib at h
  obtain ⟨e1, e2⟩ := sibRev_inj _ _ _ _ (List.reverse_inj.mp h)
  exact ⟨List.reverse_inj.mp e1, e2⟩

/-! ### the invariant that holds after every history -/

/-- `m` is `name` or one of the names Feed derives from it -/
def Fam (name m : Bytes) : Prop := m = name ∨ ∃ j, 1 ≤ j ∧ m = sib name j

structure Inv (st : St) : Prop where
  idx : ∀ n i, st.index n = some i → ∃ c, st.files[i]? = some (n, c)

theorem Inv.init : Inv St.init := ⟨by simp [St.init]⟩

theorem Inv.addPatch {st : St} (h : Inv st) (t : Bytes) (f : Item) : Inv (addPatch st t f) := ⟨h.idx⟩

theorem Inv.lt {st : St} (h : Inv st) {n : Bytes} {i : Nat} (hi : st.index n = some i) : i < st.files.length := by
  obtain ⟨c, hc⟩ := h.idx n i hi
  rcases Nat.lt_or_ge i st.files.length with h' | h'
  · exact h'
  · rw [List.getElem?_eq_none h'] at hc; cases hc

theorem addFile_idx {st : St} (h : Inv st) (name c : Bytes) :
    ∀ n i, (addFile st name c).index n = some i → ∃ c', (addFile st name c).files[i]? = some (n, c') := by
  intro n i hi
  simp only [addFile, upd] at hi ⊢
  by_cases hn : n = name
  · subst hn
    simp at hi; subst hi
    exact ⟨c, by simp⟩
  · simp only [hn, if_false] at hi
    obtain ⟨c', hc⟩ := h.idx n i hi
    exact ⟨c', by rw [List.getElem?_append_left (h.lt hi)]; exact hc⟩

theorem Inv.addFile {st : St} (h : Inv st) (name c : Bytes) : Inv (addFile st name c) := ⟨addFile_idx h name c⟩

theorem Inv.renameSt {st : St} (h : Inv st) (name renamed c : Bytes) : Inv (renameSt st name renamed c) :=
  ⟨addFile_idx h renamed c⟩

/-- under the invariant every position the probe loop visits exists and holds a file of the family -/
theorem chain_fam {st : St} (h : Inv st) (name : Bytes) : ∀ (fuel idx cnt : Nat),
    1 ≤ cnt → (∃ m c, st.files[idx]? = some (m, c) ∧ Fam name m) →
    ∀ i ∈ chain st name fuel idx cnt, ∃ m c, st.files[i]? = some (m, c) ∧ Fam name m := by
  intro fuel
  induction fuel with
  | zero => intro idx cnt _ _ i hi; simp [chain] at hi
  | succ fuel ih =>
    intro idx cnt h1 h0 i hi
    simp only [chain, List.mem_cons] at hi
    rcases hi with rfl | hi
    · exact h0
    · cases hs : st.index (sib name cnt) with
      | none => rw [hs] at hi; simp at hi
      | some next =>
        rw [hs] at hi
        obtain ⟨c, hc⟩ := h.idx _ _ hs
        exact ih next (cnt + 1) (by omega) ⟨_, c, hc, Or.inr ⟨cnt, h1, rfl⟩⟩ i hi

theorem siblings_fam {st : St} (h : Inv st) (name : Bytes) (idx : Nat) (hi : st.index name = some idx) :
    ∀ i ∈ siblings st name idx, ∃ m c, st.files[i]? = some (m, c) ∧ Fam name m := by
  obtain ⟨c, hc⟩ := h.idx _ _ hi
  exact chain_fam h name _ idx 1 (by omega) ⟨name, c, hc, Or.inl rfl⟩

theorem siblings_valid {st : St} (h : Inv st) (name : Bytes) (idx : Nat) (hi : st.index name = some idx) :
    ∀ i ∈ siblings st name idx, i < st.files.length := by
  intro i hm
  obtain ⟨m, c, hc, _⟩ := siblings_fam h name idx hi i hm
  rcases Nat.lt_or_ge i st.files.length with h' | h'
  · exact h'
  · rw [List.getElem?_eq_none h'] at hc; cases hc

/-- termination of the probe loop: `len(files) + 1` rounds would need `len(files) + 1` different taken
names `name_1 … name_{len+1}` (injectivity of `sib`), each recorded at its own position of `files`. -/
theorem probe_no_hang {st : St} (h : Inv st) (name content : Bytes) (idx : Nat) :
    probe st name content (st.files.length + 1) idx 1 ≠ .hang := by
  intro hh
  have hall := probe_hang st name content _ _ _ hh
  let g : Nat → Nat := fun j => (st.index (sib name (1 + j))).getD 0
  have hg : ∀ j, j < st.files.length + 1 → st.index (sib name (1 + j)) = some (g j) := by
    intro j hj
    cases hs : st.index (sib name (1 + j)) with
    | none => exact absurd hs (hall j hj)
    | some i => simp [g, hs]
  have hsub : (List.range (st.files.length + 1)).map g ⊆ List.range st.files.length := by
    intro x hx
    obtain ⟨j, hj, rfl⟩ := List.mem_map.mp hx
    exact List.mem_range.mpr (h.lt (hg j (List.mem_range.mp hj)))
  have hnd : ((List.range (st.files.length + 1)).map g).Nodup := by
    rw [List.nodup_iff_pairwise_ne, List.pairwise_map]
    refine List.Pairwise.imp_of_mem ?_ (List.nodup_range (n := st.files.length + 1))
    intro a b ha hb hab e
    obtain ⟨c1, h1⟩ := h.idx _ _ (hg a (List.mem_range.mp ha))
    obtain ⟨c2, h2⟩ := h.idx _ _ (hg b (List.mem_range.mp hb))
    rw [e, h2] at h1
    injection h1 with h1
    injection h1 with h1 _
    have := (sib_inj _ _ _ _ h1).2
    omega
  have := hnd.length_le_of_subset hsub
  simp at this
  omega

theorem Inv.feedLoop {st : St} (h : Inv st) (items : List Item) (last : Bytes) (skip : Bool) :
    Inv (feedLoop st last skip items).1 :=
  feedLoop_inv Inv (fun _ t f h => h.addPatch t f) (fun _ name c h _ => h.addFile name c)
    (fun _ name _ c renamed h _ _ => h.renameSt name renamed c) items st last skip h

theorem Inv.feedAll (calls : List (List Item)) : ∀ {st : St}, Inv st → Inv (feedAll st calls) := by
  induction calls with
  | nil => intro st h; exact h
  | cons c cs ih => intro st h; exact ih (h.feedLoop c [] false)

theorem feedLoop_no_panic (items : List Item) : ∀ (st : St) (last : Bytes) (skip : Bool), Inv st →
    (feedLoop st last skip items).2 ≠ .panic ∧ (feedLoop st last skip items).2 ≠ .hang := by
  induction items with
  | nil => intro st last skip _; simp [feedLoop]
  | cons f rest ih =>
    intro st last skip h
    unfold feedLoop
    split
    · split
      · exact ih st last true h
      · split
        · simp
        · exact ih _ last false (h.addPatch _ _)
    · rename_i name _
      split
      · exact ih _ name false (h.addFile _ _)
      · rename_i idx hidx
        split
        · exact ih _ name false (h.addPatch _ _)
        · split
          · exact ih st last true h
          · rename_i hp
            exact absurd hp (probe_no_panic st name f.content _ _ _ (siblings_valid h name idx hidx))
          · rename_i hp
            exact absurd hp (probe_no_hang h name f.content idx)
          · rename_i renamed hp
            exact ih _ _ false (h.renameSt name renamed f.content)

theorem outcomes_no_panic (calls : List (List Item)) : ∀ (st : St), Inv st →
    Outcome.panic ∉ outcomes st calls ∧ Outcome.hang ∉ outcomes st calls := by
  induction calls with
  | nil => intro st _; simp [outcomes]
  | cons c cs ih =>
    intro st h
    have h1 := feedLoop_no_panic c st [] false h
    have h2 := ih _ (h.feedLoop c [] false)
    simp only [outcomes, List.mem_cons, not_or]
    exact ⟨⟨fun e => h1.1 e.symm, h2.1⟩, ⟨fun e => h1.2 e.symm, h2.2⟩⟩

/-! ### the cases of FileLoop as equations -/

theorem feedLoop_skip_unnamed (ups rest : List Item) (hu : ∀ u ∈ ups, u.name = none) (st : St) (last : Bytes) :
    feedLoop st last true (ups ++ rest) = feedLoop st last true rest := by
  induction ups with
  | nil => rfl
  | cons u us ih =>
    have h1 : u.name = none := hu u List.mem_cons_self
    have := ih (fun x hx => hu x (List.mem_cons_of_mem _ hx))
    simp only [List.cons_append]
    rw [feedLoop]
    simp only [h1, if_true]
    exact this

theorem feedLoop_unnamed_skip (st : St) (last : Bytes) (f : Item) (rest : List Item) (hn : f.name = none) :
    feedLoop st last true (f :: rest) = feedLoop st last true rest := by
  rw [feedLoop]; simp [hn]

theorem feedLoop_unnamed_patch (st : St) (last : Bytes) (f : Item) (rest : List Item)
    (hn : f.name = none) (hl : last ≠ []) :
    feedLoop st last false (f :: rest) = feedLoop (addPatch st last f) last false rest := by
  rw [feedLoop]; simp [hn, hl]

theorem feedLoop_unnamed_err (st : St) (f : Item) (rest : List Item) (hn : f.name = none) :
    feedLoop st [] false (f :: rest) = (st, .err) := by
  rw [feedLoop]; simp [hn]

theorem feedLoop_new (st : St) (last : Bytes) (skip : Bool) (f : Item) (rest : List Item) (name : Bytes)
    (hn : f.name = some name) (hi : st.index name = none) :
    feedLoop st last skip (f :: rest) = feedLoop (addFile st name f.content) name false rest := by
  rw [feedLoop]; simp [hn, hi]

theorem feedLoop_named_patch (st : St) (last : Bytes) (skip : Bool) (f : Item) (rest : List Item) (name : Bytes) (idx : Nat)
    (hn : f.name = some name) (hi : st.index name = some idx) (hip : f.ip ≠ []) :
    feedLoop st last skip (f :: rest) = feedLoop (addPatch st name f) name false rest := by
  rw [feedLoop]; simp [hn, hi, hip]

theorem feedLoop_probe (st : St) (last : Bytes) (skip : Bool) (f : Item) (rest : List Item) (name : Bytes) (idx : Nat)
    (hn : f.name = some name) (hi : st.index name = some idx) (hip : f.ip = []) :
    feedLoop st last skip (f :: rest) =
      match probe st name f.content (st.files.length + 1) idx 1 with
      | .dup => feedLoop st last true rest
      | .panic => (st, .panic)
      | .hang => (st, .hang)
      | .fresh renamed => feedLoop (renameSt st name renamed f.content) renamed false rest := by
  rw [feedLoop]; simp only [hn, hi, hip]; rfl

theorem feedLoop_dup (st : St) (last : Bytes) (skip : Bool) (f : Item) (name : Bytes) (idx : Nat) (ups rest : List Item)
    (hn : f.name = some name) (hi : st.index name = some idx) (hip : f.ip = [])
    (hv : ∀ i ∈ siblings st name idx, i < st.files.length)
    (hd : ∃ i ∈ siblings st name idx, contentAt st i = some f.content)
    (hu : ∀ u ∈ ups, u.name = none) :
    feedLoop st last skip (f :: (ups ++ rest)) = feedLoop st last true rest := by
  have hp : probe st name f.content (st.files.length + 1) idx 1 = .dup := (probe_dup_iff st name f.content _ _ _ hv).2 hd
  rw [feedLoop_probe st last skip f _ name idx hn hi hip, hp]
  exact feedLoop_skip_unnamed ups rest hu st last

theorem feedLoop_conflict (st : St) (hI : Inv st) (last : Bytes) (skip : Bool) (f : Item) (name : Bytes) (idx : Nat) (rest : List Item)
    (hn : f.name = some name) (hi : st.index name = some idx) (hip : f.ip = [])
    (hd : ¬ ∃ i ∈ siblings st name idx, contentAt st i = some f.content) :
    ∃ k, 1 ≤ k ∧ st.index (sib name k) = none ∧ (∀ j, 1 ≤ j → j < k → st.index (sib name j) ≠ none) ∧
      feedLoop st last skip (f :: rest) =
        feedLoop (renameSt st name (sib name k) f.content) (sib name k) false rest := by
  have hv := siblings_valid hI name idx hi
  have h1 : probe st name f.content (st.files.length + 1) idx 1 ≠ .dup := fun h => hd ((probe_dup_iff st name f.content _ _ _ hv).1 h)
  have h2 := probe_no_panic st name f.content _ _ _ hv
  have h3 := probe_no_hang hI name f.content idx
  cases hp : probe st name f.content (st.files.length + 1) idx 1 with
  | dup => exact absurd hp h1
  | panic => exact absurd hp h2
  | hang => exact absurd hp h3
  | fresh r =>
    obtain ⟨k, hk, hr, hnone, hall⟩ := probe_fresh_spec st name f.content _ _ _ _ hp
    subst hr
    refine ⟨k, hk, hnone, hall, ?_⟩
    rw [feedLoop_probe st last skip f rest name idx hn hi hip, hp]

/-! ### errors -/

theorem sib_ne_nil (name : Bytes) (k : Nat) : sib name k ≠ [] := by
  unfold sib sibRev
  split <;> simp

theorem fresh_ne_nil {st : St} {name content : Bytes} {fuel idx cnt : Nat} {r : Bytes}
    (hp : probe st name content fuel idx cnt = .fresh r) : r ≠ [] := by
  obtain ⟨k, _, hr, _, _⟩ := probe_fresh_spec st name content _ _ _ _ hp
  rw [hr]; exact sib_ne_nil _ _

/-- once the loop has a target (`last ≠ ""`) or is skipping, it never reports the missing-target error -/
theorem feedLoop_no_err (items : List Item) : ∀ (st : St) (last : Bytes) (skip : Bool),
    (∀ f ∈ items, f.name ≠ some []) → (skip = true ∨ last ≠ []) →
    (feedLoop st last skip items).2 ≠ .err := by
  induction items with
  | nil => intro st last skip _ _; simp [feedLoop]
  | cons f rest ih =>
    intro st last skip hne hs
    have hne' : ∀ g ∈ rest, g.name ≠ some [] := fun g hg => hne g (List.mem_cons_of_mem _ hg)
    unfold feedLoop
    split
    · split
      · exact ih st last true hne' (Or.inl rfl)
      · rename_i hsk
        have hl : last ≠ [] := by
          rcases hs with h | h
          · exact absurd h hsk
          · exact h
        simp only [hl, if_false]
        exact ih _ last false hne' (Or.inr hl)
    · rename_i name hname
      have hnn : name ≠ [] := fun e => hne f List.mem_cons_self (by rw [hname, e])
      split
      · exact ih _ name false hne' (Or.inr hnn)
      · split
        · exact ih _ name false hne' (Or.inr hnn)
        · split
          · exact ih st last true hne' (Or.inl rfl)
          · simp
          · simp
          · rename_i renamed hp
            exact ih _ renamed false hne' (Or.inr (fresh_ne_nil hp))

theorem feed_err_iff (st : St) (items : List Item) (hne : ∀ f ∈ items, f.name ≠ some []) :
    (feed st items).2 = .err ↔ ∃ f rest, items = f :: rest ∧ f.name = none := by
  cases items with
  | nil => simp [feed, feedLoop]
  | cons f rest =>
    constructor
    · intro h
      refine ⟨f, rest, rfl, ?_⟩
      cases hn : f.name with
      | none => rfl
      | some name =>
        exfalso
        have hne' : ∀ g ∈ rest, g.name ≠ some [] := fun g hg => hne g (List.mem_cons_of_mem _ hg)
        have hnn : name ≠ [] := fun e => hne f List.mem_cons_self (by rw [hn, e])
        unfold feed feedLoop at h
        simp only [hn] at h
        split at h
        · exact feedLoop_no_err rest _ name false hne' (Or.inr hnn) h
        · split at h
          · exact feedLoop_no_err rest _ name false hne' (Or.inr hnn) h
          · split at h
            · exact feedLoop_no_err rest _ _ true hne' (Or.inl rfl) h
            · cases h
            · cases h
            · rename_i renamed hp
              exact feedLoop_no_err rest _ renamed false hne' (Or.inr (fresh_ne_nil hp)) h
    · rintro ⟨g, r, e, hn⟩
      cases e
      rw [feed, feedLoop_unnamed_err st f rest hn]

/-! ### nothing is lost -/

/-- a file with this content is stored under `name` or under a name derived from `name` -/
def Stored (st : St) (name content : Bytes) : Prop := ∃ m, (m, content) ∈ st.files ∧ Fam name m

theorem Stored.mono {st st' : St} {name content : Bytes} (h : Stored st name content)
    (hp : ∃ ex, st'.files = st.files ++ ex) : Stored st' name content := by
  obtain ⟨m, hm, hf⟩ := h
  obtain ⟨ex, he⟩ := hp
  exact ⟨m, by rw [he]; exact List.mem_append_left _ hm, hf⟩

theorem lost_aux (rest : List Item) (st1 : St) (l1 : Bytes) (s1 : Bool) (f : Item)
    (ih : ∀ g ∈ rest, ∀ n, g.name = some n → g.ip = [] → Stored (feedLoop st1 l1 s1 rest).1 n g.content)
    (hhead : ∀ n, f.name = some n → f.ip = [] → Stored st1 n f.content) :
    ∀ g ∈ f :: rest, ∀ n, g.name = some n → g.ip = [] → Stored (feedLoop st1 l1 s1 rest).1 n g.content := by
  intro g hg n hn hip
  rcases List.mem_cons.mp hg with rfl | hg'
  · exact (hhead n hn hip).mono (feedLoop_files_prefix rest st1 l1 s1)
  · exact ih g hg' n hn hip

theorem feedLoop_nothing_lost (items : List Item) : ∀ (st : St) (last : Bytes) (skip : Bool), Inv st →
    (feedLoop st last skip items).2 = .ok →
    ∀ f ∈ items, ∀ n, f.name = some n → f.ip = [] → Stored (feedLoop st last skip items).1 n f.content := by
  induction items with
  | nil => intro st last skip _ _ f hf; cases hf
  | cons f rest ih =>
    intro st last skip h hok
    cases hn : f.name with
    | none =>
      have hhead : ∀ (s : St) n, f.name = some n → f.ip = [] → Stored s n f.content := by
        intro s n e; rw [hn] at e; cases e
      cases skip with
      | true =>
        rw [feedLoop_unnamed_skip st last f rest hn] at hok ⊢
        exact lost_aux rest st last true f (ih st last true h hok) (hhead st)
      | false =>
        by_cases hl : last = []
        · subst hl
          rw [feedLoop_unnamed_err st f rest hn] at hok; cases hok
        · rw [feedLoop_unnamed_patch st last f rest hn hl] at hok ⊢
          exact lost_aux rest _ last false f (ih _ last false (h.addPatch _ _) hok) (hhead _)
    | some name =>
      cases hi : st.index name with
      | none =>
        rw [feedLoop_new st last skip f rest name hn hi] at hok ⊢
        refine lost_aux rest _ name false f (ih _ name false (h.addFile _ _) hok) ?_
        intro n e _
        rw [hn] at e; cases e
        exact ⟨name, by simp [addFile], Or.inl rfl⟩
      | some idx =>
        by_cases hip : f.ip = []
        · rw [feedLoop_probe st last skip f rest name idx hn hi hip] at hok ⊢
          have hv := siblings_valid h name idx hi
          cases hp : probe st name f.content (st.files.length + 1) idx 1 with
          | dup =>
            rw [hp] at hok; simp only at hok ⊢
            refine lost_aux rest st last true f (ih st last true h hok) ?_
            intro n e _
            rw [hn] at e; cases e
            obtain ⟨i, him, hc⟩ := (probe_dup_iff st name f.content _ _ _ hv).1 hp
            obtain ⟨m, c, hmc, hfam⟩ := siblings_fam h name idx hi i him
            simp only [contentAt, hmc, Option.map_some, Option.some.injEq] at hc
            subst hc
            exact ⟨m, List.mem_of_getElem? hmc, hfam⟩
          | panic => rw [hp] at hok; simp only at hok; cases hok
          | hang => rw [hp] at hok; simp only at hok; cases hok
          | fresh renamed =>
            rw [hp] at hok; simp only at hok ⊢
            obtain ⟨k, hk, hr, _, _⟩ := probe_fresh_spec st name f.content _ _ _ _ hp
            refine lost_aux rest _ _ false f (ih _ _ false (h.renameSt name renamed f.content) hok) ?_
            intro n e _
            rw [hn] at e; cases e
            exact ⟨renamed, by simp [renameSt, addFile], Or.inr ⟨k, hk, hr⟩⟩
        · rw [feedLoop_named_patch st last skip f rest name idx hn hi hip] at hok ⊢
          exact lost_aux rest _ name false f (ih _ name false (h.addPatch _ _) hok) (fun n _ e => absurd e hip)

/-! ### unique names -/

structure InvU (st : St) : Prop where
  nodup : (st.files.map (·.1)).Nodup
  inIdx : ∀ n ∈ st.files.map (·.1), st.index n ≠ none

theorem InvU.init : InvU St.init := ⟨by simp [St.init], by simp [St.init]⟩

/-- storing a file under a name the index does not know keeps names distinct -/
theorem InvU.add {st : St} (h : InvU st) (m c : Bytes) (hfree : st.index m = none) :
    (((addFile st m c).files.map (·.1)).Nodup) ∧ (∀ n ∈ (addFile st m c).files.map (·.1), (addFile st m c).index n ≠ none) := by
  have hnot : m ∉ st.files.map (·.1) := fun hm => h.inIdx m hm hfree
  constructor
  · simp only [addFile, List.map_append, List.map_cons, List.map_nil]
    rw [List.nodup_append]
    exact ⟨h.nodup, by simp, by
      intro a ha b hb e
      simp at hb
      exact hnot (hb ▸ e ▸ ha)⟩
  · intro n hn
    simp only [addFile, List.map_append, List.map_cons, List.map_nil, List.mem_append, List.mem_singleton] at hn
    simp only [addFile, upd]
    by_cases e : n = m
    · simp [e]
    · simp only [e, if_false]
      rcases hn with hn | hn
      · exact h.inIdx n hn
      · exact absurd hn e

theorem InvU.feedLoop {st : St} (h : InvU st) (items : List Item) (last : Bytes) (skip : Bool) :
    InvU (feedLoop st last skip items).1 := by
  refine feedLoop_inv InvU (fun _ _ _ h => ⟨h.nodup, h.inIdx⟩) ?_ ?_ items st last skip h
  · intro st name c h hidx
    obtain ⟨h1, h2⟩ := h.add name c hidx
    exact ⟨h1, h2⟩
  · intro st name idx c renamed h _ hp
    obtain ⟨_, _, _, hfree, _⟩ := probe_fresh_spec st name c _ _ _ _ hp
    obtain ⟨h1, h2⟩ := h.add renamed c hfree
    exact ⟨h1, h2⟩

theorem InvU.feedAll (calls : List (List Item)) : ∀ {st : St}, InvU st → InvU (feedAll st calls) := by
  induction calls with
  | nil => intro st h; exact h
  | cons c cs ih => intro st h; exact ih (h.feedLoop c [] false)

theorem build_names (cfg : MarkerCfg) (st : St) : (build cfg st).map (·.1) = st.files.map (·.1) := by
  simp [build, List.map_map, Function.comp_def]

/-! ### insertion points: the replacer computes the rendering of the scan -/

/-- facts about the regenerated marker description that the theorems need (checked by `decide`) -/
def CfgOK (cfg : MarkerCfg) : Prop :=
  cfg.ptPre = cfg.pre ∧ cfg.ptSuf = [cfg.close] ∧ cfg.alpha.contains cfg.close = false

instance (cfg : MarkerCfg) : Decidable (CfgOK cfg) := by unfold CfgOK; infer_instance

def IsWord (cfg : MarkerCfg) (w : Bytes) : Prop := ∀ c ∈ w, isWordByte cfg c = true

/-- every patch point lies in the marker alphabet -/
def WordPoints (cfg : MarkerCfg) (ps : List Patch) : Prop := ∀ p ∈ ps, IsWord cfg p.ip

instance (cfg : MarkerCfg) (ps : List Patch) : Decidable (WordPoints cfg ps) := by
  unfold WordPoints IsWord; infer_instance

/-- the texts of the patches for the marker `k`, in submission order, concatenated -/
def patchText (cfg : MarkerCfg) (ps : List Patch) (k : Bytes) : Bytes :=
  (ps.filter fun p => pointKey cfg p.ip = k).flatMap (·.content)

/-- literal bytes are kept, each marker is replaced by its patch texts -/
def render (cfg : MarkerCfg) (ps : List Patch) : List Seg → Bytes
  | [] => []
  | .lit c :: r => c :: render cfg ps r
  | .chunk k :: r => patchText cfg ps k ++ render cfg ps r

def flatten : List Seg → Bytes
  | [] => []
  | .lit c :: r => c :: flatten r
  | .chunk k :: r => k ++ flatten r

def lits : List Seg → Bytes
  | [] => []
  | .lit c :: r => c :: lits r
  | .chunk _ :: r => lits r

theorem flatten_segment (m : Bytes → Option Nat) : ∀ (s : Bytes) (n : Nat), flatten (segment m n s) = s.drop n := by
  intro s
  induction s with
  | nil => intro n; simp [segment, flatten]
  | cons c r ih =>
    intro n
    cases n with
    | succ n => simp [segment, ih]
    | zero =>
      unfold segment
      split
      · rename_i k _
        simp only [flatten, ih, List.drop_zero]
        rw [List.take_succ_cons, List.cons_append, List.take_append_drop]
      · simp [flatten, ih]

theorem stripPrefix_some : ∀ (p s r : Bytes), stripPrefix p s = some r ↔ s = p ++ r := by
  intro p
  induction p with
  | nil => intro s r; simp [stripPrefix]
  | cons a p ih =>
    intro s r
    cases s with
    | nil => simp [stripPrefix]
    | cons b s =>
      unfold stripPrefix
      by_cases h : a = b
      · simp [h, ih]
      · simp [h]; intro e; exact absurd e.symm h

theorem takeWhile_word (P : Nat → Bool) : ∀ (w : Bytes) (x : Nat) (r : Bytes), (∀ c ∈ w, P c = true) → P x = false →
    (w ++ x :: r).takeWhile P = w ∧ (w ++ x :: r).dropWhile P = x :: r := by
  intro w
  induction w with
  | nil => intro x r _ hx; simp [hx]
  | cons c w ih =>
    intro x r hw hx
    have hc : P c = true := hw c List.mem_cons_self
    obtain ⟨h1, h2⟩ := ih x r (fun d hd => hw d (List.mem_cons_of_mem _ hd)) hx
    simp [hc, h1, h2]

theorem markerLen_some (cfg : MarkerCfg) (s : Bytes) (n : Nat) (h : markerLen cfg s = some n) :
    ∃ w r, s = cfg.pre ++ w ++ cfg.close :: r ∧ IsWord cfg w ∧ n = cfg.pre.length + w.length := by
  unfold markerLen at h
  split at h
  · cases h
  · rename_i r hs
    have hs' := (stripPrefix_some _ _ _).1 hs
    split at h
    · rename_i c r' hd
      split at h
      · rename_i hc
        injection h with h
        refine ⟨r.takeWhile (isWordByte cfg), r', ?_, ?_, h.symm⟩
        · rw [hs', List.append_assoc, ← hc, ← hd, List.takeWhile_append_dropWhile]
        · intro x hx; exact List.all_eq_true.mp List.all_takeWhile x hx
      · cases h
    · cases h

theorem markerLen_complete (cfg : MarkerCfg) (hclose : isWordByte cfg cfg.close = false) (w r : Bytes) (hw : IsWord cfg w) :
    markerLen cfg (cfg.pre ++ w ++ cfg.close :: r) = some (cfg.pre.length + w.length) := by
  unfold markerLen
  have : stripPrefix cfg.pre (cfg.pre ++ w ++ cfg.close :: r) = some (w ++ cfg.close :: r) :=
    (stripPrefix_some _ _ _).2 (by simp)
  rw [this]
  obtain ⟨h1, h2⟩ := takeWhile_word (isWordByte cfg) w cfg.close r hw hclose
  simp only [h1, h2, if_true]

theorem word_close_unique (cfg : MarkerCfg) (hclose : isWordByte cfg cfg.close = false) (w w' r r' : Bytes)
    (hw : IsWord cfg w) (hw' : IsWord cfg w') (h : w ++ cfg.close :: r = w' ++ cfg.close :: r') : w = w' ∧ r = r' := by
  have n1 : ∀ x ∈ w, ¬ (x = cfg.close) := fun x hx e => by have := hw x hx; rw [e, hclose] at this; cases this
  have n2 : ∀ x ∈ w', ¬ (x = cfg.close) := fun x hx e => by have := hw' x hx; rw [e, hclose] at this; cases this
  obtain ⟨e1, _, e3⟩ := split_unique (· = cfg.close) _ _ _ _ _ _ n1 n2 rfl rfl h
  exact ⟨e1, e3⟩

/-- value of key `k` in a Go map kept as an association list -/
def val : List (Bytes × Bytes) → Bytes → Option Bytes
  | [], _ => none
  | (k0, v0) :: m, k => if k0 = k then some v0 else val m k

theorem val_mapAdd (k v : Bytes) : ∀ (m : List (Bytes × Bytes)) (k' : Bytes),
    val (mapAdd k v m) k' = if k' = k then some ((val m k).getD [] ++ v) else val m k' := by
  intro m
  induction m with
  | nil =>
    intro k'
    by_cases e : k' = k
    · simp [mapAdd, val, e]
    · have : ¬ k = k' := fun h => e h.symm
      simp [mapAdd, val, e, this]
  | cons kv m ih =>
    intro k'
    obtain ⟨k0, v0⟩ := kv
    unfold mapAdd
    by_cases e0 : k0 = k
    · subst e0
      by_cases e : k' = k0
      · subst e; simp [val]
      · have : ¬ k0 = k' := fun h => e h.symm
        simp [val, e, this]
    · simp only [e0, if_false]
      by_cases e : k0 = k'
      · subst e
        simp [val, e0]
      · simp only [val, e, if_false, e0]
        exact ih k'

theorem lookupPrefix_some : ∀ (m : List (Bytes × Bytes)) (s k v : Bytes), lookupPrefix m s = some (k, v) →
    val m k = some v ∧ ∃ r, s = k ++ r := by
  intro m
  induction m with
  | nil => intro s k v h; simp [lookupPrefix] at h
  | cons kv m ih =>
    intro s k v h
    obtain ⟨k0, v0⟩ := kv
    unfold lookupPrefix at h
    cases hs : stripPrefix k0 s with
    | some r =>
      simp [hs] at h
      obtain ⟨e1, e2⟩ := h
      subst e1; subst e2
      exact ⟨by simp [val], r, (stripPrefix_some _ _ _).1 hs⟩
    | none =>
      simp [hs] at h
      obtain ⟨h1, r, h2⟩ := ih s k v h
      refine ⟨?_, r, h2⟩
      have : ¬ k0 = k := by
        intro e; subst e
        have := (stripPrefix_some k0 s r).2 h2
        rw [hs] at this; cases this
      simpa [val, this] using h1

theorem lookupPrefix_ne_none : ∀ (m : List (Bytes × Bytes)) (s k r : Bytes), val m k ≠ none → s = k ++ r →
    lookupPrefix m s ≠ none := by
  intro m
  induction m with
  | nil => intro s k r h; simp [val] at h
  | cons kv m ih =>
    intro s k r h hs
    obtain ⟨k0, v0⟩ := kv
    unfold lookupPrefix
    cases hp : stripPrefix k0 s with
    | some r => simp
    | none =>
      simp only [Option.isSome_none]
      have : ¬ k0 = k := by
        intro e; subst e
        have := (stripPrefix_some k0 s r).2 hs
        rw [hp] at this; cases this
      have h' : val m k ≠ none := by simpa [val, this] using h
      simpa using ih s k r h' hs

def WordKey (cfg : MarkerCfg) (k : Bytes) : Prop := ∃ w, IsWord cfg w ∧ k = cfg.pre ++ w ++ [cfg.close]

theorem replaceAux_eq_render (cfg : MarkerCfg) (hclose : isWordByte cfg cfg.close = false)
    (m : List (Bytes × Bytes)) (ps : List Patch)
    (hk : ∀ k, val m k ≠ none → WordKey cfg k)
    (hv : ∀ k v, val m k = some v → v = patchText cfg ps k) :
    ∀ (s : Bytes) (n : Nat), (∀ k ∈ chunks (segment (markerLen cfg) n s), val m k ≠ none) →
      replaceAux m n s = render cfg ps (segment (markerLen cfg) n s) := by
  intro s
  induction s with
  | nil => intro n _; simp [replaceAux, segment, render]
  | cons c r ih =>
    intro n hcov
    cases n with
    | succ n =>
      simp only [segment] at hcov ⊢
      simp only [replaceAux]
      exact ih n hcov
    | zero =>
      unfold segment at hcov ⊢
      unfold replaceAux
      cases hm : markerLen cfg (c :: r) with
      | some n' =>
        obtain ⟨w, r', hs, hw, hn'⟩ := markerLen_some cfg _ _ hm
        simp only [hm] at hcov ⊢
        have hkey : (c :: r).take (n' + 1) = cfg.pre ++ w ++ [cfg.close] := by
          rw [hs, hn']
          have : cfg.pre ++ w ++ cfg.close :: r' = (cfg.pre ++ w ++ [cfg.close]) ++ r' := by simp
          rw [this, List.take_left' (by simp [Nat.add_assoc])]
        rw [hkey] at hcov ⊢
        simp only [chunks, List.mem_cons, forall_eq_or_imp] at hcov
        have hne := lookupPrefix_ne_none m (c :: r) _ r' hcov.1 (by rw [hs]; simp)
        cases hl : lookupPrefix m (c :: r) with
        | none => exact absurd hl hne
        | some kv =>
          obtain ⟨k', v'⟩ := kv
          obtain ⟨hval, r'', hpre⟩ := lookupPrefix_some m _ _ _ hl
          obtain ⟨w', hw', hk'⟩ := hk k' (by rw [hval]; simp)
          have : w ++ cfg.close :: r' = w' ++ cfg.close :: r'' := by
            have := hs.symm.trans hpre
            rw [hk'] at this
            simpa using this
          obtain ⟨ew, _⟩ := word_close_unique cfg hclose _ _ _ _ hw hw' this
          subst ew
          have hlen : k'.length - 1 = n' := by rw [hk', hn']; simp
          simp only [render]
          rw [hlen, hv k' v' hval, hk', ih n' hcov.2]
      | none =>
        simp only [hm] at hcov ⊢
        cases hl : lookupPrefix m (c :: r) with
        | none =>
          simp only [render]
          rw [ih 0 (by simpa [chunks] using hcov)]
        | some kv =>
          exfalso
          obtain ⟨k', v'⟩ := kv
          obtain ⟨hval, r'', hpre⟩ := lookupPrefix_some m _ _ _ hl
          obtain ⟨w', hw', hk'⟩ := hk k' (by rw [hval]; simp)
          have := markerLen_complete cfg hclose w' r'' hw'
          rw [hpre, hk'] at hm
          simp at hm this
          rw [this] at hm; cases hm

theorem take_marker (cfg : MarkerCfg) (s : Bytes) (n : Nat) (h : markerLen cfg s = some n) :
    WordKey cfg (s.take (n + 1)) := by
  obtain ⟨w, r', hs, hw, hn'⟩ := markerLen_some cfg _ _ h
  refine ⟨w, hw, ?_⟩
  rw [hs, hn']
  have : cfg.pre ++ w ++ cfg.close :: r' = (cfg.pre ++ w ++ [cfg.close]) ++ r' := by simp
  rw [this, List.take_left' (by simp [Nat.add_assoc])]

theorem chunks_wordKey (cfg : MarkerCfg) : ∀ (s : Bytes) (n : Nat), ∀ k ∈ chunks (segment (markerLen cfg) n s), WordKey cfg k := by
  intro s
  induction s with
  | nil => intro n k hk; simp [segment, chunks] at hk
  | cons c r ih =>
    intro n k hk
    cases n with
    | succ n => simp only [segment] at hk; exact ih n k hk
    | zero =>
      unfold segment at hk
      cases hm : markerLen cfg (c :: r) with
      | some n' =>
        simp only [hm, chunks, List.mem_cons] at hk
        rcases hk with rfl | hk
        · exact take_marker cfg _ _ hm
        · exact ih n' k hk
      | none =>
        simp only [hm, chunks] at hk
        exact ih 0 k hk

theorem initFold_val : ∀ (ks : List Bytes) (m : List (Bytes × Bytes)),
    (∀ k, val m k = some [] ∨ val m k = none) →
    ∀ k, val (ks.foldl (fun m k => mapAdd k [] m) m) k = if k ∈ ks then some [] else val m k := by
  intro ks
  induction ks with
  | nil => intro m _ k; simp
  | cons k0 ks ih =>
    intro m hm k
    have hm' : ∀ k, val (mapAdd k0 [] m) k = some [] ∨ val (mapAdd k0 [] m) k = none := by
      intro k
      rw [val_mapAdd]
      by_cases e : k = k0
      · subst e
        rcases hm k with h | h <;> simp [h]
      · simp only [e, if_false]; exact hm k
    simp only [List.foldl_cons]
    rw [ih _ hm' k, val_mapAdd]
    by_cases e : k = k0
    · subst e
      rcases hm k with h | h <;> simp [h]
    · by_cases e2 : k ∈ ks <;> simp [e, e2]

/-- the map represents the patches `ps0`: each present key holds the concatenated texts for it, and a
key that is absent has no patch -/
def Rep (cfg : MarkerCfg) (m : List (Bytes × Bytes)) (ps0 : List Patch) : Prop :=
  ∀ k, val m k = some (patchText cfg ps0 k) ∨ (val m k = none ∧ patchText cfg ps0 k = [])

theorem patchText_snoc (cfg : MarkerCfg) (ps0 : List Patch) (p : Patch) (k : Bytes) :
    patchText cfg (ps0 ++ [p]) k = patchText cfg ps0 k ++ (if pointKey cfg p.ip = k then p.content else []) := by
  unfold patchText
  by_cases e : pointKey cfg p.ip = k <;> simp [List.filter_append, List.filter, e]

theorem patchFold_spec (cfg : MarkerCfg) : ∀ (ps : List Patch) (m : List (Bytes × Bytes)) (ps0 : List Patch),
    Rep cfg m ps0 →
    Rep cfg (ps.foldl (fun m p => mapAdd (pointKey cfg p.ip) p.content m) m) (ps0 ++ ps) ∧
    ∀ k, val (ps.foldl (fun m p => mapAdd (pointKey cfg p.ip) p.content m) m) k ≠ none ↔
      (val m k ≠ none ∨ ∃ p ∈ ps, pointKey cfg p.ip = k) := by
  intro ps
  induction ps with
  | nil => intro m ps0 h; simpa using h
  | cons p ps ih =>
    intro m ps0 h
    have h1 : Rep cfg (mapAdd (pointKey cfg p.ip) p.content m) (ps0 ++ [p]) := by
      intro k
      rw [val_mapAdd, patchText_snoc]
      by_cases e : k = pointKey cfg p.ip
      · subst e
        rcases h (pointKey cfg p.ip) with h' | ⟨h', h''⟩
        · left; simp [h']
        · left; simp [h', h'']
      · have e' : ¬ pointKey cfg p.ip = k := fun x => e x.symm
        simp only [e, e', if_false, List.append_nil]
        exact h k
    obtain ⟨r1, r2⟩ := ih _ _ h1
    simp only [List.foldl_cons]
    refine ⟨by simpa using r1, ?_⟩
    intro k
    rw [r2 k, val_mapAdd]
    by_cases e : k = pointKey cfg p.ip
    · subst e; simp
    · have e' : ¬ pointKey cfg p.ip = k := fun x => e x.symm
      simp [e, e']

theorem replacerOf_spec (cfg : MarkerCfg) (hc : CfgOK cfg) (content : Bytes) (ps : List Patch) (hw : WordPoints cfg ps) :
    (∀ k, val (replacerOf cfg content ps) k ≠ none → WordKey cfg k) ∧
    (∀ k v, val (replacerOf cfg content ps) k = some v → v = patchText cfg ps k) ∧
    (∀ k ∈ findAll cfg content, val (replacerOf cfg content ps) k ≠ none) := by
  have h0 := initFold_val (findAll cfg content) [] (fun k => Or.inr rfl)
  have hrep0 : Rep cfg ((findAll cfg content).foldl (fun m k => mapAdd k [] m) []) [] := by
    intro k
    rw [h0 k]
    by_cases e : k ∈ findAll cfg content <;> simp [e, patchText, val]
  obtain ⟨r1, r2⟩ := patchFold_spec cfg ps _ [] hrep0
  simp only [List.nil_append] at r1
  unfold replacerOf
  refine ⟨?_, ?_, ?_⟩
  · intro k hk
    rcases (r2 k).1 hk with h | ⟨p, hp, e⟩
    · rw [h0 k] at h
      by_cases e : k ∈ findAll cfg content
      · exact chunks_wordKey cfg content 0 k e
      · simp [e, val] at h
    · refine ⟨p.ip, hw p hp, ?_⟩
      rw [← e, pointKey, hc.1, hc.2.1]
  · intro k v hv
    rcases r1 k with h | ⟨h, _⟩
    · rw [h] at hv; injection hv with hv; exact hv.symm
    · rw [h] at hv; cases hv
  · intro k hk
    refine (r2 k).2 (Or.inl ?_)
    rw [h0 k]; simp [hk]

theorem isWordByte_close {cfg : MarkerCfg} (hc : CfgOK cfg) : isWordByte cfg cfg.close = false := hc.2.2

theorem replace_eq_render (cfg : MarkerCfg) (hc : CfgOK cfg) (content : Bytes) (ps : List Patch) (hw : WordPoints cfg ps) :
    replace (replacerOf cfg content ps) content = render cfg ps (scan cfg content) := by
  obtain ⟨h1, h2, h3⟩ := replacerOf_spec cfg hc content ps hw
  exact replaceAux_eq_render cfg (isWordByte_close hc) _ ps h1 h2 content 0 h3

/-! the order in which Go ranges over the replacer's map cannot matter (for points in the alphabet) -/

theorem mapAdd_keys_nodup (k v : Bytes) : ∀ (m : List (Bytes × Bytes)), (m.map (·.1)).Nodup → ((mapAdd k v m).map (·.1)).Nodup ∧
    ∀ k', k' ∈ (mapAdd k v m).map (·.1) → k' = k ∨ k' ∈ m.map (·.1) := by
  intro m
  induction m with
  | nil => intro _; simp [mapAdd]
  | cons kv m ih =>
    intro h
    obtain ⟨k0, v0⟩ := kv
    simp only [List.map_cons, List.nodup_cons] at h
    obtain ⟨i1, i2⟩ := ih h.2
    unfold mapAdd
    by_cases e : k0 = k
    · simp only [e, if_true, List.map_cons, List.nodup_cons]
      refine ⟨⟨e ▸ h.1, h.2⟩, ?_⟩
      intro k' hk'
      simp only [List.mem_cons] at hk' ⊢
      rcases hk' with h' | h'
      · exact Or.inl h'
      · exact Or.inr (Or.inr h')
    · simp only [e, if_false, List.map_cons, List.nodup_cons]
      refine ⟨⟨?_, i1⟩, ?_⟩
      · intro hin
        rcases i2 k0 hin with h' | h'
        · exact e h'
        · exact h.1 h'
      · intro k' hk'
        simp only [List.mem_cons] at hk' ⊢
        rcases hk' with h' | h'
        · exact Or.inr (Or.inl h')
        · rcases i2 k' h' with h'' | h''
          · exact Or.inl h''
          · exact Or.inr (Or.inr h'')

theorem replacerOf_keys_nodup (cfg : MarkerCfg) (content : Bytes) (ps : List Patch) :
    ((replacerOf cfg content ps).map (·.1)).Nodup := by
  unfold replacerOf
  have a : ∀ (ks : List Bytes) (m : List (Bytes × Bytes)), (m.map (·.1)).Nodup →
      ((ks.foldl (fun m k => mapAdd k [] m) m).map (·.1)).Nodup := by
    intro ks
    induction ks with
    | nil => intro m h; exact h
    | cons k ks ih => intro m h; exact ih _ (mapAdd_keys_nodup k [] m h).1
  have b : ∀ (ps : List Patch) (m : List (Bytes × Bytes)), (m.map (·.1)).Nodup →
      ((ps.foldl (fun m p => mapAdd (pointKey cfg p.ip) p.content m) m).map (·.1)).Nodup := by
    intro ps
    induction ps with
    | nil => intro m h; exact h
    | cons p ps ih => intro m h; exact ih _ (mapAdd_keys_nodup _ _ m h).1
  exact b ps _ (a _ [] (by simp))

theorem val_eq_some_iff : ∀ (m : List (Bytes × Bytes)), (m.map (·.1)).Nodup → ∀ k v, val m k = some v ↔ (k, v) ∈ m := by
  intro m
  induction m with
  | nil => intro _ k v; simp [val]
  | cons kv m ih =>
    intro h k v
    obtain ⟨k0, v0⟩ := kv
    simp only [List.map_cons, List.nodup_cons] at h
    unfold val
    by_cases e : k0 = k
    · subst e
      simp only [if_true, Option.some.injEq, List.mem_cons, Prod.mk.injEq, true_and]
      constructor
      · intro h'; exact Or.inl h'.symm
      · rintro (h' | h')
        · exact h'.symm
        · exact absurd (List.mem_map_of_mem (f := (·.1)) h') h.1
    · simp only [e, if_false, List.mem_cons, Prod.mk.injEq]
      rw [ih h.2 k v]
      constructor
      · intro h'; exact Or.inr h'
      · rintro (⟨h', _⟩ | h')
        · exact absurd h'.symm e
        · exact h'

theorem val_perm {m m' : List (Bytes × Bytes)} (hp : m'.Perm m) (hn : (m.map (·.1)).Nodup) : ∀ k, val m' k = val m k := by
  have hn' : (m'.map (·.1)).Nodup := (hp.map (·.1)).nodup_iff.2 hn
  intro k
  cases h : val m k with
  | some v =>
    exact (val_eq_some_iff m' hn' k v).2 (hp.mem_iff.2 ((val_eq_some_iff m hn k v).1 h))
  | none =>
    cases h' : val m' k with
    | none => rfl
    | some v =>
      have := (val_eq_some_iff m hn k v).2 (hp.mem_iff.1 ((val_eq_some_iff m' hn' k v).1 h'))
      rw [h] at this; cases this

theorem replace_perm (cfg : MarkerCfg) (hc : CfgOK cfg) (content : Bytes) (ps : List Patch) (hw : WordPoints cfg ps)
    (m' : List (Bytes × Bytes)) (hp : m'.Perm (replacerOf cfg content ps)) :
    replace m' content = replace (replacerOf cfg content ps) content := by
  rw [replace_eq_render cfg hc content ps hw]
  obtain ⟨h1, h2, h3⟩ := replacerOf_spec cfg hc content ps hw
  have hv := val_perm hp (replacerOf_keys_nodup cfg content ps)
  exact replaceAux_eq_render cfg (isWordByte_close hc) m' ps
    (fun k hk => h1 k (by rw [← hv k]; exact hk)) (fun k v hk => h2 k v (by rw [← hv k]; exact hk)) content 0
    (fun k hk => by rw [hv k]; exact h3 k hk)

/-! corollaries about `render` -/

theorem render_no_text (cfg : MarkerCfg) (ps : List Patch) (h : ∀ p ∈ ps, p.content = []) :
    ∀ segs, render cfg ps segs = lits segs := by
  have hz : ∀ k, patchText cfg ps k = [] := by
    intro k
    simp only [patchText, List.flatMap_eq_nil_iff, List.mem_filter]
    intro p hp; exact h p hp.1
  intro segs
  induction segs with
  | nil => rfl
  | cons sg r ih =>
    cases sg with
    | lit c => simp [render, lits, ih]
    | chunk k => simp [render, lits, ih, hz k]

theorem lits_sublist_render (cfg : MarkerCfg) (ps : List Patch) : ∀ segs, (lits segs).Sublist (render cfg ps segs) := by
  intro segs
  induction segs with
  | nil => exact List.Sublist.refl _
  | cons sg r ih =>
    cases sg with
    | lit c => simp only [render, lits]; exact ih.cons_cons c
    | chunk k => simp only [render, lits]; exact ih.trans (List.sublist_append_right _ _)

/-! ### the literal-key path: patch points with arbitrary characters

Whatever bytes a patch point has, `Add` puts the literal text `plugin.InsertionPoint(p)` into the
replacer's map, and `Replace` acts on every place where its left-to-right scan meets a key. -/

/-- what the replacer matches at the start of `s`: the first key (argument order) that is a prefix -/
def keyLen (m : List (Bytes × Bytes)) (s : Bytes) : Option Nat :=
  match lookupPrefix m s with
  | some (k, _) => some (k.length - 1)
  | none => none

/-- content cut by the replacer's own key set (regexp markers of the content and literal patch keys) -/
def keyScan (cfg : MarkerCfg) (content : Bytes) (ps : List Patch) : List Seg :=
  segment (keyLen (replacerOf cfg content ps)) 0 content

theorem replacerOf_vals (cfg : MarkerCfg) (content : Bytes) (ps : List Patch) :
    (∀ k v, val (replacerOf cfg content ps) k = some v → v = patchText cfg ps k) ∧
    (∀ k, val (replacerOf cfg content ps) k ≠ none ↔ (k ∈ findAll cfg content ∨ ∃ p ∈ ps, pointKey cfg p.ip = k)) := by
  have h0 := initFold_val (findAll cfg content) [] (fun k => Or.inr rfl)
  have hrep0 : Rep cfg ((findAll cfg content).foldl (fun m k => mapAdd k [] m) []) [] := by
    intro k
    rw [h0 k]
    by_cases e : k ∈ findAll cfg content <;> simp [e, patchText, val]
  obtain ⟨r1, r2⟩ := patchFold_spec cfg ps _ [] hrep0
  simp only [List.nil_append] at r1
  unfold replacerOf
  refine ⟨?_, ?_⟩
  · intro k v hv
    rcases r1 k with h | ⟨h, _⟩
    · rw [h] at hv; injection hv with hv; exact hv.symm
    · rw [h] at hv; cases hv
  · intro k
    rw [r2 k, h0 k]
    by_cases e : k ∈ findAll cfg content <;> simp [e, val]

theorem replacerOf_key_ne_nil (cfg : MarkerCfg) (hc : CfgOK cfg) (content : Bytes) (ps : List Patch) :
    ∀ k, val (replacerOf cfg content ps) k ≠ none → k ≠ [] := by
  intro k hk
  rcases ((replacerOf_vals cfg content ps).2 k).1 hk with h | ⟨p, _, e⟩
  · obtain ⟨w, _, hw⟩ := chunks_wordKey cfg content 0 k h
    rw [hw]; simp
  · rw [← e, pointKey, hc.2.1]; simp

theorem replaceAux_eq_renderKeys (cfg : MarkerCfg) (m : List (Bytes × Bytes)) (ps : List Patch)
    (hne : ∀ k, val m k ≠ none → k ≠ [])
    (hv : ∀ k v, val m k = some v → v = patchText cfg ps k) :
    ∀ (s : Bytes) (n : Nat), replaceAux m n s = render cfg ps (segment (keyLen m) n s) := by
  intro s
  induction s with
  | nil => intro n; simp [replaceAux, segment, render]
  | cons c r ih =>
    intro n
    cases n with
    | succ n => simp only [segment, replaceAux]; exact ih n
    | zero =>
      unfold segment replaceAux keyLen
      cases hl : lookupPrefix m (c :: r) with
      | none => simp only [render]; rw [ih 0]; rfl
      | some kv =>
        obtain ⟨k, v⟩ := kv
        obtain ⟨hval, r', hpre⟩ := lookupPrefix_some m _ _ _ hl
        have hk : k ≠ [] := hne k (by rw [hval]; simp)
        have hlen : k.length - 1 + 1 = k.length := by
          cases k with
          | nil => exact absurd rfl hk
          | cons _ _ => simp
        simp only [render]
        rw [hlen, hpre, List.take_left' rfl, ← hv k v hval, ih (k.length - 1)]
        rfl

theorem replace_eq_renderKeys (cfg : MarkerCfg) (hc : CfgOK cfg) (content : Bytes) (ps : List Patch) :
    replace (replacerOf cfg content ps) content = render cfg ps (keyScan cfg content ps) :=
  replaceAux_eq_renderKeys cfg _ ps (replacerOf_key_ne_nil cfg hc content ps) (replacerOf_vals cfg content ps).1 content 0

theorem segment_skip (m : Bytes → Option Nat) : ∀ (l b : Bytes), segment m l.length (l ++ b) = segment m 0 b := by
  intro l
  induction l with
  | nil => intro b; rfl
  | cons x l ih => intro b; simp only [List.length_cons, List.cons_append, segment]; exact ih b

/-- no key of the map is a proper prefix of another one -/
def PrefixFreeKeys (m : List (Bytes × Bytes)) : Prop :=
  ∀ k k', val m k ≠ none → val m k' ≠ none → (∃ r, k' = k ++ r) → k = k'

theorem prefix_of_both : ∀ (k k' r r' : Bytes), k ++ r = k' ++ r' → (∃ t, k' = k ++ t) ∨ (∃ t, k = k' ++ t) := by
  intro k
  induction k with
  | nil => intro k' r r' _; exact Or.inl ⟨k', rfl⟩
  | cons x k ih =>
    intro k' r r' h
    cases k' with
    | nil => exact Or.inr ⟨x :: k, rfl⟩
    | cons y k' =>
      simp at h
      rcases ih k' r r' h.2 with ⟨t, ht⟩ | ⟨t, ht⟩
      · exact Or.inl ⟨t, by rw [h.1, ht]; rfl⟩
      · exact Or.inr ⟨t, by rw [h.1, ht]; rfl⟩

theorem lookupPrefix_of_prefixFree (m : List (Bytes × Bytes)) (hpf : PrefixFreeKeys m) (k v r : Bytes)
    (hval : val m k = some v) : lookupPrefix m (k ++ r) = some (k, v) := by
  have hne := lookupPrefix_ne_none m (k ++ r) k r (by rw [hval]; simp) rfl
  cases hl : lookupPrefix m (k ++ r) with
  | none => exact absurd hl hne
  | some kv =>
    obtain ⟨k', v'⟩ := kv
    obtain ⟨hval', r', hpre⟩ := lookupPrefix_some m _ _ _ hl
    have e : k = k' := by
      rcases prefix_of_both k k' r r' hpre with h | h
      · exact hpf k k' (by rw [hval]; simp) (by rw [hval']; simp) h
      · exact (hpf k' k (by rw [hval']; simp) (by rw [hval]; simp) h).symm
    subst e
    rw [hval] at hval'
    injection hval' with hval'
    rw [hval']

/-- at a scan position where the text continues with the literal marker text of a patched point,
the replacer takes exactly that key (prefix-free key set) and resumes right after it -/
theorem keyScan_at_literal_marker (cfg : MarkerCfg) (hc : CfgOK cfg) (content : Bytes) (ps : List Patch)
    (hpf : PrefixFreeKeys (replacerOf cfg content ps)) (p : Patch) (hp : p ∈ ps) (b : Bytes) :
    segment (keyLen (replacerOf cfg content ps)) 0 (pointKey cfg p.ip ++ b) =
      .chunk (pointKey cfg p.ip) :: segment (keyLen (replacerOf cfg content ps)) 0 b := by
  have hpres : val (replacerOf cfg content ps) (pointKey cfg p.ip) ≠ none :=
    ((replacerOf_vals cfg content ps).2 _).2 (Or.inr ⟨p, hp, rfl⟩)
  have hk : pointKey cfg p.ip ≠ [] := replacerOf_key_ne_nil cfg hc content ps _ hpres
  cases hv : val (replacerOf cfg content ps) (pointKey cfg p.ip) with
  | none => exact absurd hv hpres
  | some v =>
    have hl := lookupPrefix_of_prefixFree _ hpf _ v b hv
    cases hk' : pointKey cfg p.ip with
    | nil => exact absurd hk' hk
    | cons x l =>
      rw [hk'] at hl
      simp only [List.cons_append] at hl ⊢
      rw [segment]
      simp only [keyLen, hl, List.length_cons, Nat.add_sub_cancel]
      have : (x :: (l ++ b)).take (l.length + 1) = x :: l := by
        rw [List.take_succ_cons, List.take_left' rfl]
      rw [this, segment_skip]

/-- with a prefix-free key set the order of the replacer's pairs (Go map range) cannot matter -/
theorem replaceAux_congr (m m' : List (Bytes × Bytes)) (h : ∀ s, lookupPrefix m' s = lookupPrefix m s) :
    ∀ (s : Bytes) (n : Nat), replaceAux m' n s = replaceAux m n s := by
  intro s
  induction s with
  | nil => intro n; simp [replaceAux]
  | cons c r ih =>
    intro n
    cases n with
    | succ n => simp only [replaceAux]; exact ih n
    | zero =>
      unfold replaceAux
      rw [h (c :: r)]
      cases lookupPrefix m (c :: r) with
      | none => simp only; rw [ih 0]
      | some kv => simp only; rw [ih]

theorem replace_perm_prefixFree (m m' : List (Bytes × Bytes)) (hp : m'.Perm m) (hn : (m.map (·.1)).Nodup)
    (hpf : PrefixFreeKeys m) (s : Bytes) : replace m' s = replace m s := by
  have hv := val_perm hp hn
  have hpf' : PrefixFreeKeys m' := by
    intro k k' h1 h2 h3
    exact hpf k k' (by rw [← hv k]; exact h1) (by rw [← hv k']; exact h2) h3
  refine replaceAux_congr m m' ?_ s 0
  intro t
  cases hl : lookupPrefix m t with
  | some kv =>
    obtain ⟨k, v⟩ := kv
    obtain ⟨hval, r, hpre⟩ := lookupPrefix_some m _ _ _ hl
    rw [hpre]
    exact lookupPrefix_of_prefixFree m' hpf' k v r (by rw [hv k]; exact hval)
  | none =>
    cases hl' : lookupPrefix m' t with
    | none => rfl
    | some kv =>
      obtain ⟨k, v⟩ := kv
      obtain ⟨hval, r, hpre⟩ := lookupPrefix_some m' _ _ _ hl'
      rw [hv k] at hval
      have := lookupPrefix_of_prefixFree m hpf k v r hval
      rw [← hpre, hl] at this
      cases this

/-! ### the backend's stream: a file followed by its nameless patch -/

theorem feedLoop_file_then_patch (st : St) (hI : Inv st) (last : Bytes) (skip : Bool) (f u : Item) (n : Bytes) (rest : List Item)
    (hn : f.name = some n) (hne : n ≠ []) (hip : f.ip = []) (hu : u.name = none) :
    feedLoop st last skip (f :: u :: rest) = feedLoop st last true rest ∨
    ∃ m st', Fam n m ∧ st'.files = st.files ++ [(m, f.content)] ∧ st'.patch = st.patch ∧
      feedLoop st last skip (f :: u :: rest) = feedLoop (addPatch st' m u) m false rest := by
  cases hi : st.index n with
  | none =>
    refine Or.inr ⟨n, addFile st n f.content, Or.inl rfl, rfl, rfl, ?_⟩
    rw [feedLoop_new st last skip f _ n hn hi, feedLoop_unnamed_patch _ n u rest hu hne]
  | some idx =>
    by_cases hd : ∃ i ∈ siblings st n idx, contentAt st i = some f.content
    · left
      have := feedLoop_dup st last skip f n idx [u] rest hn hi hip (siblings_valid hI n idx hi) hd
        (by intro x hx; simp at hx; rw [hx]; exact hu)
      simpa using this
    · right
      obtain ⟨k, hk, _, _, he⟩ := feedLoop_conflict st hI last skip f n idx (u :: rest) hn hi hip hd
      refine ⟨sib n k, renameSt st n (sib n k) f.content, Or.inr ⟨k, hk, rfl⟩, rfl, rfl, ?_⟩
      rw [he, feedLoop_unnamed_patch _ (sib n k) u rest hu (sib_ne_nil n k)]

/-- decidable form of `PrefixFreeKeys` on the list of keys -/
def prefixFreeList (ks : List Bytes) : Bool :=
  ks.all fun k => ks.all fun k' => !(stripPrefix k k').isSome || k == k'

theorem val_ne_none_mem : ∀ (m : List (Bytes × Bytes)) (k : Bytes), val m k ≠ none → k ∈ m.map (·.1) := by
  intro m
  induction m with
  | nil => intro k h; simp [val] at h
  | cons kv m ih =>
    intro k h
    obtain ⟨k0, v0⟩ := kv
    by_cases e : k0 = k
    · simp [e]
    · simp only [val, e, if_false] at h
      exact List.mem_cons_of_mem _ (ih k h)

theorem prefixFreeKeys_of_list (m : List (Bytes × Bytes)) (h : prefixFreeList (m.map (·.1)) = true) : PrefixFreeKeys m := by
  intro k k' h1 h2 ⟨r, hr⟩
  simp only [prefixFreeList, List.all_eq_true] at h
  have := h k (val_ne_none_mem m k h1) k' (val_ne_none_mem m k' h2)
  have hs : (stripPrefix k k').isSome = true := by rw [(stripPrefix_some k k' r).2 hr]; rfl
  simpa [hs] using this

end FileManager
