/-
  C19 — helper lemmas: the inductive invariant of the LTS `AsyncPP.step expected cfg`
  and what follows from it.  Property theorems are in Props/C19.lean.
-/
import ThriftVerif.Lib.AsyncPP

namespace AsyncPP

/-! ### sums over the worker list -/

def sumW (f : Worker → Nat) : List Worker → Nat
  | [] => 0
  | w :: r => f w + sumW f r

theorem sumW_append_single (f : Worker → Nat) (ws : List Worker) (w : Worker) :
    sumW f (ws ++ [w]) = sumW f ws + f w := by
  induction ws with
  | nil => simp [sumW]
  | cons a r ih => simp [sumW, ih]; omega

theorem sumW_set (f : Worker → Nat) : ∀ (ws : List Worker) (k : Nat) (w w' : Worker),
    ws[k]? = some w → sumW f (ws.set k w') + f w = sumW f ws + f w'
  | [], k, w, w', h => by simp at h
  | a :: r, 0, w, w', h => by
    simp at h; subst h; simp [sumW]; omega
  | a :: r, k + 1, w, w', h => by
    simp at h
    have := sumW_set f r k w w' h
    simp [sumW]; omega

theorem sumW_le (f : Worker → Nat) : ∀ (ws : List Worker) (k : Nat) (w : Worker),
    ws[k]? = some w → f w ≤ sumW f ws
  | [], k, w, h => by simp at h
  | a :: r, 0, w, h => by simp at h; subst h; simp [sumW]
  | a :: r, k + 1, w, h => by
    simp at h
    have := sumW_le f r k w h
    simp [sumW]; omega

/-! ### per-worker counters and the shape of a worker -/

def relC (w : Worker) : Nat := if w.ops.contains .release then 1 else 0
def doneC (w : Worker) : Nat := if w.ops.contains .done then 1 else 0
def sendC (w : Worker) : Nat := if w.ops.contains .send then 1 else 0
def wroteB (w : Worker) : Bool := !w.failed && !w.ops.contains .write && !w.ops.contains .pp

/-- the phases a worker of the unchanged code goes through -/
def WOk (cfg : Cfg) (k : Nat) (w : Worker) : Prop :=
  w.id = k ∧ ∃ c0, cfg.jobs[k]? = some (w.path, c0) ∧
    ( (w.ops = [.pp, .write, .send, .done, .release] ∧ w.failed = false ∧ w.content = c0)
    ∨ (w.ops = [.write, .send, .done, .release] ∧ w.failed = false ∧ cfg.failPP k = false ∧
         w.content = cfg.ppf w.path c0)
    ∨ (w.ops = [.send, .done, .release] ∧ w.failed = true ∧ cfg.jobFails k = true)
    ∨ ((w.ops = [.done, .release] ∨ w.ops = [.release] ∨ w.ops = []) ∧
         ((w.failed = true ∧ cfg.jobFails k = true) ∨
          (w.failed = false ∧ cfg.jobFails k = false ∧ w.content = cfg.ppf w.path c0))))

/-- the inductive invariant -/
structure Inv (cfg : Cfg) (s : State) : Prop where
  noPanic : s.panicked = false
  len : s.workers.length = s.idx
  idxLe : s.idx ≤ cfg.jobs.length
  idxLt : (s.dpc = .acquired ∨ s.dpc = .added) → s.idx < cfg.jobs.length
  idxEq : s.dpc = .finalRecv → s.idx = cfg.jobs.length
  wok : ∀ (k : Nat) (w : Worker), s.workers[k]? = some w → WOk cfg k w
  proc : s.processing = sumW relC s.workers + (if s.dpc = .acquired ∨ s.dpc = .added then 1 else 0)
  wgc : s.wg = sumW doneC s.workers + (if s.dpc = .added then 1 else 0)
  errsCnt : s.errs.length + sumW sendC s.workers ≤ s.idx
  errsGen : ∀ e ∈ s.errs, e < s.idx ∧ cfg.jobFails e = true
  errRecvGen : ∀ e, s.dpc = .errRecv e → e < s.idx ∧ cfg.jobFails e = true
  notLost : (s.dpc = .loop ∨ s.dpc = .acquired ∨ s.dpc = .added ∨ s.dpc = .finalRecv) →
    ∀ (k : Nat) (w : Worker), s.workers[k]? = some w → w.failed = true → sendC w = 0 → k ∈ s.errs
  wrNodup : (s.written.map (·.1)).Nodup
  wrOwn : ∀ x ∈ s.written, ∃ c0, cfg.jobs[x.1]? = some (x.2.1, c0) ∧ x.2.2 = cfg.ppf x.2.1 c0
  wrIff : ∀ (k : Nat) (w : Worker), s.workers[k]? = some w → (k ∈ s.written.map (·.1) ↔ wroteB w = true)
  wrLt : ∀ x ∈ s.written, x.1 < s.idx
  retNone : s.ret = none ↔ s.dpc ≠ .returned
  quiet : (s.dpc = .finalRecv ∨ s.dpc = .returned) → s.wg = 0
  retNil : s.ret = some none → s.idx = cfg.jobs.length ∧ ∀ (k : Nat) (w : Worker), s.workers[k]? = some w → w.failed = false
  retErr : ∀ e, s.ret = some (some e) → e < s.idx ∧ cfg.jobFails e = true

theorem inv_init (cfg : Cfg) : Inv cfg init := by
  constructor <;> simp [init, sumW]

theorem conc_pos (cfg : Cfg) : 1 ≤ conc expected cfg := by
  simp only [conc, expected]
  simp only [if_true]
  split <;> omega


/-! ### the expected skeleton, field by field -/

@[simp] theorem exp_clampConc : expected.clampConc = true := rfl
@[simp] theorem exp_errsCap : expected.errsCap = .lenJobs := rfl
@[simp] theorem exp_procCap : expected.procCap = .concurrency := rfl
@[simp] theorem exp_selAcquire : expected.selAcquire = true := rfl
@[simp] theorem exp_selRecvErr : expected.selRecvErr = true := rfl
@[simp] theorem exp_wait : expected.waitBeforeEarlyReturn = true := rfl
@[simp] theorem exp_add : expected.addBeforeGo = true := rfl
@[simp] theorem exp_addAfter : expected.addAfterGo = false := rfl
@[simp] theorem exp_ops : expected.workerOps = [.pp, .write, .send, .done, .release] := rfl
@[simp] theorem exp_wg : expected.writeGuarded = true := rfl
@[simp] theorem exp_fw : expected.finalWait = true := rfl
@[simp] theorem exp_fr : expected.finalRecv = .nonblocking := rfl

theorem forall_set {P Q : Nat → Worker → Prop} {ws : List Worker} {k : Nat} {w w' : Worker}
    (_hk : ws[k]? = some w) (hP : ∀ j x, ws[j]? = some x → P j x)
    (hne : ∀ j x, j ≠ k → P j x → Q j x) (hw : Q k w') :
    ∀ j x, (ws.set k w')[j]? = some x → Q j x := by
  intro j x hx
  rw [List.getElem?_set] at hx
  split at hx
  · rename_i hkj
    subst hkj
    split at hx
    · injection hx with hx; subst hx; exact hw
    · contradiction
  · rename_i hkj
    exact hne j x (fun e => hkj e.symm) (hP j x hx)

theorem wok_done_send {cfg : Cfg} {k : Nat} {w : Worker} (h : WOk cfg k w) (hd : doneC w = 0) : sendC w = 0 := by
  obtain ⟨_, c0, _, h⟩ := h
  rcases h with ⟨ho, _⟩ | ⟨ho, _⟩ | ⟨ho, _⟩ | ⟨ho | ho | ho, _⟩ <;> simp [doneC, sendC, ho] at hd ⊢

/-! ### dispatcher transitions preserve the invariant -/

theorem inv_acquire {cfg : Cfg} {s s' : State} (I : Inv cfg s)
    (h : stepAcquire expected cfg s = some s') : Inv cfg s' := by
  unfold stepAcquire at h
  repeat' split at h
  all_goals (try (simp at h))
  all_goals (try (simp at *; done))
  rename_i hc _ hp
  obtain ⟨hd, hi⟩ := hc
  subst h
  exact { I with
    idxLt := fun _ => hi
    idxEq := by simp
    proc := by have := I.proc; simp [hd] at this ⊢; omega
    wgc := by have := I.wgc; simp [hd] at this ⊢; omega
    errRecvGen := by simp
    notLost := by have := I.notLost; simp [hd] at this ⊢; exact this
    retNone := by have := I.retNone; simp [hd] at this ⊢; exact this
    quiet := by simp }

/-! ### inversion of the dispatcher transitions -/

theorem stepRecvErr_inv {cfg : Cfg} {s s' : State} (h : stepRecvErr expected cfg s = some s') :
    ∃ e es, s.dpc = .loop ∧ s.idx < cfg.jobs.length ∧ s.errs = e :: es ∧
      s' = { s with dpc := .errRecv e, errs := es } := by
  unfold stepRecvErr at h
  split at h
  · rename_i hc
    split at h
    · contradiction
    · rename_i e es he
      injection h with h
      exact ⟨e, es, hc.1, hc.2.1, he, h.symm⟩
  · contradiction

theorem stepAdd_inv {s s' : State} (h : stepAdd expected s = some s') :
    s.dpc = .acquired ∧ s' = { s with dpc := .added, wg := s.wg + 1 } := by
  unfold stepAdd at h
  simp only [exp_addAfter, Bool.false_eq_true, if_false] at h
  split at h
  · rename_i hd
    injection h with h
    exact ⟨hd, by simp at h; exact h.symm⟩
  · contradiction

/-- the worker record created by the `go` statement of the unchanged code -/
def mkW (i : Nat) (p c : Bytes) : Worker :=
  { id := i, path := p, content := c, failed := false, ops := [.pp, .write, .send, .done, .release] }

theorem stepSpawn_inv {cfg : Cfg} {s s' : State} (h : stepSpawn expected cfg s = some s') :
    ∃ p c, s.dpc = .added ∧ cfg.jobs[s.idx]? = some (p, c) ∧
      s' = { s with dpc := .loop, idx := s.idx + 1,
                    workers := s.workers ++ [mkW s.idx p c] } := by
  unfold stepSpawn at h
  simp only [exp_addAfter, Bool.false_eq_true, if_false] at h
  split at h
  · rename_i hd
    split at h
    · contradiction
    · rename_i p c hj
      injection h with h
      exact ⟨p, c, hd, hj, by simp at h; simp [mkW]; exact h.symm⟩
  · contradiction

theorem stepEarlyRet_inv {s s' : State} (h : stepEarlyRet expected s = some s') :
    ∃ e, s.dpc = .errRecv e ∧ s.wg = 0 ∧ s' = { s with dpc := .returned, ret := some (some e) } := by
  unfold stepEarlyRet at h
  split at h
  · rename_i e he
    split at h
    · rename_i hw
      injection h with h
      exact ⟨e, he, hw rfl, h.symm⟩
    · contradiction
  · contradiction

theorem stepFinalWait_inv {cfg : Cfg} {s s' : State} (h : stepFinalWait expected cfg s = some s') :
    s.dpc = .loop ∧ cfg.jobs.length ≤ s.idx ∧ s.wg = 0 ∧ s' = { s with dpc := .finalRecv } := by
  unfold stepFinalWait at h
  split at h
  · rename_i hc
    injection h with h
    exact ⟨hc.1, hc.2.1, hc.2.2 rfl, h.symm⟩
  · contradiction

theorem stepFinalRecv_inv {s s' : State} (h : stepFinalRecv expected s = some s') :
    s.dpc = .finalRecv ∧
      ((s.errs = [] ∧ s' = { s with dpc := .returned, ret := some none }) ∨
       (∃ e es, s.errs = e :: es ∧ s' = { s with dpc := .returned, ret := some (some e), errs := es })) := by
  unfold stepFinalRecv at h
  split at h
  · rename_i hd
    refine ⟨hd, ?_⟩
    split at h
    · rename_i he; injection h with h; exact Or.inl ⟨he, h.symm⟩
    · rename_i e es _ he; injection h with h; exact Or.inr ⟨e, es, he, h.symm⟩
    · contradiction
    · rename_i hb _; simp at hb
    · rename_i hb; simp at hb
  · contradiction


theorem inv_recvErr {cfg : Cfg} {s s' : State} (I : Inv cfg s)
    (h : stepRecvErr expected cfg s = some s') : Inv cfg s' := by
  obtain ⟨e, es, hd, hi, he, rfl⟩ := stepRecvErr_inv h
  have hg := I.errsGen
  rw [he] at hg
  exact { I with
    idxLt := by simp
    idxEq := by simp
    proc := by have := I.proc; simp [hd] at this ⊢; omega
    wgc := by have := I.wgc; simp [hd] at this ⊢; omega
    errsCnt := by have := I.errsCnt; simp [he] at this ⊢; omega
    errsGen := fun x hx => hg x (List.mem_cons_of_mem _ hx)
    errRecvGen := by
      intro x hx
      simp at hx; subst hx
      exact hg e (List.mem_cons_self ..)
    notLost := by simp
    retNone := by have := I.retNone; simp [hd] at this ⊢; exact this
    quiet := by simp }

theorem inv_add {cfg : Cfg} {s s' : State} (I : Inv cfg s)
    (h : stepAdd expected s = some s') : Inv cfg s' := by
  obtain ⟨hd, rfl⟩ := stepAdd_inv h
  exact { I with
    idxLt := fun _ => I.idxLt (Or.inl hd)
    idxEq := by simp
    proc := by have := I.proc; simp [hd] at this ⊢; omega
    wgc := by have := I.wgc; simp [hd] at this ⊢; omega
    errRecvGen := by simp
    notLost := by have := I.notLost; simp [hd] at this ⊢; exact this
    retNone := by have := I.retNone; simp [hd] at this ⊢; exact this
    quiet := by simp }

theorem inv_earlyRet {cfg : Cfg} {s s' : State} (I : Inv cfg s)
    (h : stepEarlyRet expected s = some s') : Inv cfg s' := by
  obtain ⟨e, hd, hw, rfl⟩ := stepEarlyRet_inv h
  exact { I with
    idxLt := by simp
    idxEq := by simp
    proc := by have := I.proc; simp [hd] at this ⊢; omega
    wgc := by have := I.wgc; simp [hd] at this ⊢; omega
    errRecvGen := by simp
    notLost := by simp
    retNone := by simp
    quiet := fun _ => hw
    retNil := by simp
    retErr := by
      intro x hx
      simp at hx; subst hx
      exact I.errRecvGen e hd }

theorem inv_finalWait {cfg : Cfg} {s s' : State} (I : Inv cfg s)
    (h : stepFinalWait expected cfg s = some s') : Inv cfg s' := by
  obtain ⟨hd, hi, hw, rfl⟩ := stepFinalWait_inv h
  exact { I with
    idxLt := by simp
    idxEq := fun _ => Nat.le_antisymm I.idxLe hi
    proc := by have := I.proc; simp [hd] at this ⊢; omega
    wgc := by have := I.wgc; simp [hd] at this ⊢; omega
    errRecvGen := by simp
    notLost := by have := I.notLost; simp [hd] at this ⊢; exact this
    retNone := by have := I.retNone; simp [hd] at this ⊢; exact this
    quiet := fun _ => hw }


theorem sumW_zero {f : Worker → Nat} {ws : List Worker} (h : sumW f ws = 0) {k : Nat} {w : Worker}
    (hk : ws[k]? = some w) : f w = 0 := by
  have := sumW_le f ws k w hk; omega

theorem inv_finalRecv {cfg : Cfg} {s s' : State} (I : Inv cfg s)
    (h : stepFinalRecv expected s = some s') : Inv cfg s' := by
  obtain ⟨hd, h⟩ := stepFinalRecv_inv h
  have hw := I.quiet (Or.inl hd)
  have hdone : sumW doneC s.workers = 0 := by have := I.wgc; simp [hd] at this; omega
  rcases h with ⟨he, rfl⟩ | ⟨e, es, he, rfl⟩
  · exact { I with
      idxLt := by simp
      idxEq := by simp
      proc := by have := I.proc; simp [hd] at this ⊢; omega
      wgc := by have := I.wgc; simp [hd] at this ⊢; omega
      errRecvGen := by simp
      notLost := by simp
      retNone := by simp
      quiet := fun _ => hw
      retNil := by
        intro _
        refine ⟨I.idxEq hd, ?_⟩
        intro k w hk
        cases hf : w.failed with
        | false => rfl
        | true =>
          have := I.notLost (Or.inr (Or.inr (Or.inr hd))) k w hk hf
            (wok_done_send (I.wok k w hk) (sumW_zero hdone hk))
          rw [he] at this; simp at this
      retErr := by simp }
  · have hg := I.errsGen
    rw [he] at hg
    exact { I with
      idxLt := by simp
      idxEq := by simp
      proc := by have := I.proc; simp [hd] at this ⊢; omega
      wgc := by have := I.wgc; simp [hd] at this ⊢; omega
      errsCnt := by have := I.errsCnt; simp [he] at this ⊢; omega
      errsGen := fun x hx => hg x (List.mem_cons_of_mem _ hx)
      errRecvGen := by simp
      notLost := by simp
      retNone := by simp
      quiet := fun _ => hw
      retNil := by simp
      retErr := by
        intro x hx
        simp at hx; subst hx
        exact hg e (List.mem_cons_self ..) }

theorem inv_spawn {cfg : Cfg} {s s' : State} (I : Inv cfg s)
    (h : stepSpawn expected cfg s = some s') : Inv cfg s' := by
  obtain ⟨p, c, hd, hj, rfl⟩ := stepSpawn_inv h
  have hlt := I.idxLt (Or.inr hd)
  have hret : s.ret = none := I.retNone.mpr (by simp [hd])
  have hlen := I.len
  have hget : ∀ (k : Nat) (w : Worker),
      (s.workers ++ [mkW s.idx p c])[k]? = some w →
      s.workers[k]? = some w ∨ (k = s.idx ∧ w = mkW s.idx p c) := by
    intro k w hk
    rw [List.getElem?_append] at hk
    split at hk
    · exact Or.inl hk
    · rename_i hge
      right
      have : k - s.workers.length = 0 := by
        cases hkk : k - s.workers.length with
        | zero => rfl
        | succ n => rw [hkk] at hk; simp at hk
      rw [this] at hk; simp at hk
      exact ⟨by omega, hk.symm⟩
  exact { I with
    len := by simp [hlen]
    idxLe := hlt
    idxLt := by simp
    idxEq := by simp
    wok := by
      intro k w hk
      rcases hget k w hk with hk | ⟨rfl, rfl⟩
      · exact I.wok k w hk
      · exact ⟨rfl, c, hj, Or.inl ⟨rfl, rfl, rfl⟩⟩
    proc := by have := I.proc; simp [hd, sumW_append_single, relC, mkW] at this ⊢; omega
    wgc := by have := I.wgc; simp [hd, sumW_append_single, doneC, mkW] at this ⊢; omega
    errsCnt := by have := I.errsCnt; simp [sumW_append_single, sendC, mkW] at this ⊢; omega
    errsGen := fun x hx => ⟨Nat.lt_succ_of_lt (I.errsGen x hx).1, (I.errsGen x hx).2⟩
    errRecvGen := by simp
    notLost := by
      intro _ k w hk hf hs
      rcases hget k w hk with hk | ⟨rfl, rfl⟩
      · exact I.notLost (Or.inr (Or.inr (Or.inl hd))) k w hk hf hs
      · simp [mkW] at hf
    wrIff := by
      intro k w hk
      rcases hget k w hk with hk | ⟨rfl, rfl⟩
      · exact I.wrIff k w hk
      · simp [wroteB, mkW]
        intro a b hab
        have := I.wrLt _ hab
        simp at this
    wrLt := fun x hx => Nat.lt_succ_of_lt (I.wrLt x hx)
    retNone := by have := I.retNone; simp [hd] at this ⊢; exact this
    quiet := by simp
    retNil := by simp [hret]
    retErr := by simp [hret] }


/-- what a worker transition of the unchanged skeleton does, phase by phase
    (`w` the worker before, the first index the worker after) -/
inductive WStep (cfg : Cfg) (s : State) (k : Nat) (w : Worker) : Worker → State → Prop
  | ppFail : w.ops = [.pp, .write, .send, .done, .release] → cfg.failPP k = true →
      WStep cfg s k w { w with failed := true, ops := [.send, .done, .release] } { s with workers := s.workers.set k { w with failed := true, ops := [.send, .done, .release] } }
  | ppOk : w.ops = [.pp, .write, .send, .done, .release] → cfg.failPP k = false →
      WStep cfg s k w { w with content := cfg.ppf w.path w.content, ops := [.write, .send, .done, .release] } { s with workers := s.workers.set k { w with content := cfg.ppf w.path w.content, ops := [.write, .send, .done, .release] } }
  | wrFail : w.ops = [.write, .send, .done, .release] → cfg.failWr k = true →
      WStep cfg s k w { w with failed := true, ops := [.send, .done, .release] } { s with workers := s.workers.set k { w with failed := true, ops := [.send, .done, .release] } }
  | wrOk : w.ops = [.write, .send, .done, .release] → cfg.failWr k = false →
      WStep cfg s k w { w with failed := false, ops := [.done, .release] } { s with written := s.written ++ [(k, w.path, w.content)], workers := s.workers.set k { w with failed := false, ops := [.done, .release] } }
  | send : w.ops = [.send, .done, .release] → w.failed = true → s.errs.length < cfg.jobs.length →
      WStep cfg s k w { w with ops := [.done, .release] } { s with errs := s.errs ++ [k], workers := s.workers.set k { w with ops := [.done, .release] } }
  | done : w.ops = [.done, .release] → 0 < s.wg →
      WStep cfg s k w { w with ops := [.release] } { s with wg := s.wg - 1, workers := s.workers.set k { w with ops := [.release] } }
  | release : w.ops = [.release] → 0 < s.processing →
      WStep cfg s k w { w with ops := [] } { s with processing := s.processing - 1, workers := s.workers.set k { w with ops := [] } }

theorem stepWorker_inv {cfg : Cfg} {s s' : State} {k : Nat} (I : Inv cfg s)
    (h : stepWorker expected cfg s k = some s') :
    ∃ w w', s.workers[k]? = some w ∧ WStep cfg s k w w' s' := by
  unfold stepWorker at h
  split at h
  · contradiction
  · rename_i w hk
    refine ⟨w, ?_⟩
    suffices h : ∃ w', WStep cfg s k w w' s' by exact h.elim fun w' h => ⟨w', hk, h⟩
    obtain ⟨hid, c0, hj, hph⟩ := I.wok k w hk
    subst hid
    have hwg := sumW_le doneC _ _ w hk
    have hwgc := I.wgc
    rcases hph with ⟨ho, hf, hc⟩ | ⟨ho, hf, hp, hc⟩ | ⟨ho, hf, hjf⟩ | ⟨ho | ho | ho, _⟩
    all_goals (simp only [ho] at h)
    · split at h
      · rename_i hp
        injection h with h; subst h
        exact ⟨_, by simpa using WStep.ppFail (s := s) ho hp⟩
      · rename_i hp
        injection h with h; subst h
        exact ⟨_, WStep.ppOk ho (by simpa using hp)⟩
    · split at h
      · rename_i hp
        injection h with h; subst h
        exact ⟨_, WStep.wrFail ho hp⟩
      · rename_i hp
        injection h with h; subst h
        exact ⟨_, by simpa using WStep.wrOk (s := s) ho (by simpa using hp)⟩
    · simp only [hf, if_true] at h
      split at h
      · rename_i hl
        injection h with h; subst h
        exact ⟨_, by simpa [hf] using WStep.send (s := s) ho hf (by simpa [capOf] using hl)⟩
      · contradiction
    · split at h
      · rename_i h0
        simp [doneC, ho] at hwg
        omega
      · rename_i h0
        injection h with h; subst h
        exact ⟨_, WStep.done ho (by omega)⟩
    · split at h
      · contradiction
      · rename_i h0
        injection h with h; subst h
        exact ⟨_, WStep.release ho (by omega)⟩
    · contradiction

/-! ### worker transitions preserve the invariant -/

theorem returned_doneC {cfg : Cfg} {s : State} (I : Inv cfg s) (hr : s.ret ≠ none) {k : Nat} {w : Worker}
    (hk : s.workers[k]? = some w) : doneC w = 0 := by
  have hd : s.dpc = .returned := by
    have := I.retNone
    cases hdp : s.dpc <;> simp [hdp] at this <;> first | exact absurd this hr | rfl
  have hw := I.quiet (Or.inr hd)
  have := I.wgc
  have := sumW_le doneC _ k w hk
  omega

theorem inv_worker {cfg : Cfg} {s s' : State} {k : Nat} (I : Inv cfg s)
    (h : stepWorker expected cfg s k = some s') : Inv cfg s' := by
  obtain ⟨w, w', hk, hs⟩ := stepWorker_inv I h
  obtain ⟨hid, c0, hj, hph⟩ := I.wok k w hk
  have hrel := sumW_set relC s.workers k w w' hk
  have hdone := sumW_set doneC s.workers k w w' hk
  have hsend := sumW_set sendC s.workers k w w' hk
  have hproc := I.proc
  have hwgc := I.wgc
  have hcnt := I.errsCnt
  have hklt : k < s.idx := by
    have := I.len
    have : k < s.workers.length := by
      rcases Nat.lt_or_ge k s.workers.length with h | h
      · exact h
      · rw [List.getElem?_eq_none h] at hk; contradiction
    omega
  cases hs with
  | ppFail ho hp =>
    have hjf : cfg.jobFails k = true := by simp [Cfg.jobFails, hp]
    have hrd : s.ret = none := by
      cases hr : s.ret with
      | none => rfl
      | some r => have := returned_doneC I (by simp [hr]) hk; simp [doneC, ho] at this
    exact { I with
      len := by simp [I.len]
      wok := forall_set hk I.wok (fun _ _ _ h => h) ⟨hid, c0, hj, Or.inr (Or.inr (Or.inl ⟨rfl, rfl, hjf⟩))⟩
      proc := by simp [relC, ho] at hrel ⊢; omega
      wgc := by simp [doneC, ho] at hdone ⊢; omega
      errsCnt := by simp [sendC, ho] at hsend ⊢; omega
      notLost := fun hd => forall_set hk (I.notLost hd) (fun _ _ _ h => h) (by simp [sendC])
      wrIff := forall_set hk I.wrIff (fun _ _ _ h => h) (by
        have := I.wrIff k w hk; simp [wroteB, ho] at this ⊢; exact this)
      retNil := by simp [hrd]
      retErr := by simp [hrd] }
  | ppOk ho hp =>
    obtain ⟨hf, hc⟩ : w.failed = false ∧ w.content = c0 := by
      rcases hph with ⟨_, hf, hc⟩ | ⟨ho', _⟩ | ⟨ho', _⟩ | ⟨ho' | ho' | ho', _⟩ <;> simp_all
    have hrd : s.ret = none := by
      cases hr : s.ret with
      | none => rfl
      | some r => have := returned_doneC I (by simp [hr]) hk; simp [doneC, ho] at this
    exact { I with
      len := by simp [I.len]
      wok := forall_set hk I.wok (fun _ _ _ h => h) ⟨hid, c0, hj, Or.inr (Or.inl ⟨rfl, hf, hp, by simp [hc]⟩)⟩
      proc := by simp [relC, ho] at hrel ⊢; omega
      wgc := by simp [doneC, ho] at hdone ⊢; omega
      errsCnt := by simp [sendC, ho] at hsend ⊢; omega
      notLost := fun hd => forall_set hk (I.notLost hd) (fun _ _ _ h => h) (by simp [hf])
      wrIff := forall_set hk I.wrIff (fun _ _ _ h => h) (by
        have := I.wrIff k w hk; simp [wroteB, ho] at this ⊢; exact this)
      retNil := by simp [hrd]
      retErr := by simp [hrd] }
  | wrFail ho hp =>
    have hjf : cfg.jobFails k = true := by simp [Cfg.jobFails, hp]
    have hrd : s.ret = none := by
      cases hr : s.ret with
      | none => rfl
      | some r => have := returned_doneC I (by simp [hr]) hk; simp [doneC, ho] at this
    exact { I with
      len := by simp [I.len]
      wok := forall_set hk I.wok (fun _ _ _ h => h) ⟨hid, c0, hj, Or.inr (Or.inr (Or.inl ⟨rfl, rfl, hjf⟩))⟩
      proc := by simp [relC, ho] at hrel ⊢; omega
      wgc := by simp [doneC, ho] at hdone ⊢; omega
      errsCnt := by simp [sendC, ho] at hsend ⊢; omega
      notLost := fun hd => forall_set hk (I.notLost hd) (fun _ _ _ h => h) (by simp [sendC])
      wrIff := forall_set hk I.wrIff (fun _ _ _ h => h) (by
        have := I.wrIff k w hk; simp [wroteB, ho] at this ⊢; exact this)
      retNil := by simp [hrd]
      retErr := by simp [hrd] }
  | wrOk ho hp =>
    obtain ⟨hf, hpp, hc⟩ : w.failed = false ∧ cfg.failPP k = false ∧ w.content = cfg.ppf w.path c0 := by
      rcases hph with ⟨ho', _⟩ | ⟨_, hf, hpp, hc⟩ | ⟨ho', _⟩ | ⟨ho' | ho' | ho', _⟩ <;> simp_all
    have hjf : cfg.jobFails k = false := by simp [Cfg.jobFails, hp, hpp]
    have hrd : s.ret = none := by
      cases hr : s.ret with
      | none => rfl
      | some r => have := returned_doneC I (by simp [hr]) hk; simp [doneC, ho] at this
    have hnot : k ∉ s.written.map (·.1) := by
      intro hm
      have := (I.wrIff k w hk).mp hm
      simp [wroteB, ho] at this
    exact { I with
      len := by simp [I.len]
      wok := forall_set hk I.wok (fun _ _ _ h => h) ⟨hid, c0, hj, Or.inr (Or.inr (Or.inr ⟨Or.inl rfl, Or.inr ⟨rfl, hjf, hc⟩⟩))⟩
      proc := by simp [relC, ho] at hrel ⊢; omega
      wgc := by simp [doneC, ho] at hdone ⊢; omega
      errsCnt := by simp [sendC, ho] at hsend ⊢; omega
      notLost := fun hd => forall_set hk (I.notLost hd) (fun _ _ _ h => h) (by simp)
      wrNodup := by
        simp only [List.map_append, List.map_cons, List.map_nil]
        exact List.nodup_append.mpr ⟨I.wrNodup, by simp, by
          intro a ha b hb
          simp at hb; subst hb
          intro hab; subst hab; exact hnot ha⟩
      wrOwn := by
        intro x hx
        rcases List.mem_append.mp hx with hx | hx
        · exact I.wrOwn x hx
        · simp at hx; subst hx
          exact ⟨c0, hj, hc⟩
      wrIff := forall_set hk I.wrIff (fun j x hjk h => by
          simp only [List.map_append, List.map_cons, List.map_nil, List.mem_append, List.mem_singleton]
          constructor
          · rintro (h' | h')
            · exact h.mp h'
            · exact absurd h' hjk
          · intro h'; exact Or.inl (h.mpr h')) (by simp [wroteB])
      wrLt := by
        intro x hx
        rcases List.mem_append.mp hx with hx | hx
        · exact I.wrLt x hx
        · simp at hx; subst hx; exact hklt
      retNil := by simp [hrd]
      retErr := by simp [hrd] }
  | send ho hf hl =>
    have hjf : cfg.jobFails k = true := by
      rcases hph with ⟨ho', _⟩ | ⟨ho', _⟩ | ⟨_, _, hjf⟩ | ⟨ho' | ho' | ho', _⟩ <;> simp_all
    have hrd : s.ret = none := by
      cases hr : s.ret with
      | none => rfl
      | some r => have := returned_doneC I (by simp [hr]) hk; simp [doneC, ho] at this
    exact { I with
      len := by simp [I.len]
      wok := forall_set hk I.wok (fun _ _ _ h => h) ⟨hid, c0, hj, Or.inr (Or.inr (Or.inr ⟨Or.inl rfl, Or.inl ⟨hf, hjf⟩⟩))⟩
      proc := by simp [relC, ho] at hrel ⊢; omega
      wgc := by simp [doneC, ho] at hdone ⊢; omega
      errsCnt := by simp [sendC, ho] at hsend ⊢; omega
      errsGen := by
        intro x hx
        rcases List.mem_append.mp hx with hx | hx
        · exact I.errsGen x hx
        · simp at hx; subst hx; exact ⟨hklt, hjf⟩
      notLost := fun hd => forall_set hk (I.notLost hd)
        (fun _ _ _ h hf' hs' => List.mem_append_left _ (h hf' hs')) (fun _ _ => by simp)
      wrIff := forall_set hk I.wrIff (fun _ _ _ h => h) (by
        have := I.wrIff k w hk; simp [wroteB, ho, hf] at this ⊢; exact this)
      retNil := by simp [hrd]
      retErr := by simp [hrd] }
  | done ho hpos =>
    obtain hst : (w.failed = true ∧ cfg.jobFails k = true) ∨
        (w.failed = false ∧ cfg.jobFails k = false ∧ w.content = cfg.ppf w.path c0) := by
      rcases hph with ⟨ho', _⟩ | ⟨ho', _⟩ | ⟨ho', _⟩ | ⟨_, hst⟩ <;> simp_all
    have hrd : s.ret = none := by
      cases hr : s.ret with
      | none => rfl
      | some r => have := returned_doneC I (by simp [hr]) hk; simp [doneC, ho] at this
    exact { I with
      len := by simp [I.len]
      wok := forall_set hk I.wok (fun _ _ _ h => h) ⟨hid, c0, hj, Or.inr (Or.inr (Or.inr ⟨Or.inr (Or.inl rfl), hst⟩))⟩
      proc := by simp [relC, ho] at hrel ⊢; omega
      wgc := by simp [doneC, ho] at hdone ⊢; omega
      errsCnt := by simp [sendC, ho] at hsend ⊢; omega
      notLost := fun hd => forall_set hk (I.notLost hd) (fun _ _ _ h => h) (fun hf' _ =>
        I.notLost hd k w hk hf' (by simp [sendC, ho]))
      wrIff := forall_set hk I.wrIff (fun _ _ _ h => h) (by
        have := I.wrIff k w hk; simp [wroteB, ho] at this ⊢; exact this)
      quiet := fun hd => by have := I.quiet hd; omega
      retNil := by simp [hrd]
      retErr := by simp [hrd] }
  | release ho hpos =>
    obtain hst : (w.failed = true ∧ cfg.jobFails k = true) ∨
        (w.failed = false ∧ cfg.jobFails k = false ∧ w.content = cfg.ppf w.path c0) := by
      rcases hph with ⟨ho', _⟩ | ⟨ho', _⟩ | ⟨ho', _⟩ | ⟨_, hst⟩ <;> simp_all
    exact { I with
      len := by simp [I.len]
      wok := forall_set hk I.wok (fun _ _ _ h => h) ⟨hid, c0, hj, Or.inr (Or.inr (Or.inr ⟨Or.inr (Or.inr rfl), hst⟩))⟩
      proc := by simp [relC, ho] at hrel ⊢; omega
      wgc := by simp [doneC, ho] at hdone ⊢; omega
      errsCnt := by simp [sendC, ho] at hsend ⊢; omega
      notLost := fun hd => forall_set hk (I.notLost hd) (fun _ _ _ h => h) (fun hf' _ =>
        I.notLost hd k w hk hf' (by simp [sendC, ho]))
      wrIff := forall_set hk I.wrIff (fun _ _ _ h => h) (by
        have := I.wrIff k w hk; simp [wroteB, ho] at this ⊢; exact this)
      retNil := fun hr => ⟨(I.retNil hr).1, forall_set hk (I.retNil hr).2 (fun _ _ _ h => h) ((I.retNil hr).2 k w hk)⟩ }


theorem inv_step {cfg : Cfg} {s s' : State} {l : Label} (I : Inv cfg s)
    (h : step expected cfg s l = some s') : Inv cfg s' := by
  unfold step at h
  simp only [I.noPanic] at h
  cases l <;> simp only [stepCore] at h
  · exact inv_acquire I h
  · exact inv_recvErr I h
  · exact inv_add I h
  · exact inv_spawn I h
  · exact inv_earlyRet I h
  · exact inv_finalWait I h
  · exact inv_finalRecv I h
  · exact inv_worker I h

theorem reach_inv {cfg : Cfg} {s : State} (h : Reach expected cfg s) : Inv cfg s := by
  induction h with
  | init => exact inv_init cfg
  | step _ hs ih => exact inv_step ih hs

/-! ### termination -/

def rank : DPc → Nat
  | .loop => 4 | .acquired => 3 | .added => 2 | .errRecv _ => 1 | .finalRecv => 1 | .returned => 0

def opsLen (w : Worker) : Nat := w.ops.length

/-- strictly decreases on every transition; `variant cfg init = 10 * N + 4` -/
def variant (cfg : Cfg) (s : State) : Nat :=
  (cfg.jobs.length - s.idx) * 10 + rank s.dpc + sumW opsLen s.workers

theorem variant_decreases {cfg : Cfg} {s s' : State} {l : Label} (I : Inv cfg s)
    (h : step expected cfg s l = some s') : variant cfg s' < variant cfg s := by
  unfold step at h
  simp only [I.noPanic] at h
  cases l <;> simp only [stepCore] at h
  · unfold stepAcquire at h
    repeat' split at h
    all_goals (try (simp at h))
    all_goals (try (simp at *; done))
    rename_i hc _ _
    subst h
    simp [variant, rank, hc.1]
  · obtain ⟨e, es, hd, hi, he, rfl⟩ := stepRecvErr_inv h
    simp [variant, rank, hd]
  · obtain ⟨hd, rfl⟩ := stepAdd_inv h
    simp [variant, rank, hd]
  · obtain ⟨p, c, hd, hj, rfl⟩ := stepSpawn_inv h
    have := I.idxLt (Or.inr hd)
    simp [variant, rank, hd, sumW_append_single, opsLen, mkW]
    omega
  · obtain ⟨e, hd, hw, rfl⟩ := stepEarlyRet_inv h
    simp [variant, rank, hd]
  · obtain ⟨hd, hi, hw, rfl⟩ := stepFinalWait_inv h
    simp [variant, rank, hd]
  · obtain ⟨hd, h⟩ := stepFinalRecv_inv h
    rcases h with ⟨he, rfl⟩ | ⟨e, es, he, rfl⟩ <;> simp [variant, rank, hd]
  · rename_i k
    obtain ⟨w, w', hk, hs⟩ := stepWorker_inv I h
    have hlen := sumW_set opsLen s.workers k w w' hk
    cases hs <;> simp [variant, opsLen, *] at hlen ⊢ <;> omega

/-! ### no deadlock -/

theorem sumW_eq_zero {f : Worker → Nat} : ∀ {ws : List Worker}, (∀ w ∈ ws, f w = 0) → sumW f ws = 0
  | [], _ => rfl
  | a :: r, h => by
    have h1 := h a (List.mem_cons_self ..)
    have h2 := sumW_eq_zero (f := f) (ws := r) (fun w hw => h w (List.mem_cons_of_mem _ hw))
    simp [sumW, h1, h2]

/-- a worker that still has operations can perform the next one -/
theorem worker_enabled {cfg : Cfg} {s : State} (I : Inv cfg s) {k : Nat} {w : Worker}
    (hk : s.workers[k]? = some w) (hne : w.ops ≠ []) : ∃ s', step expected cfg s (.work k) = some s' := by
  obtain ⟨hid, c0, hj, hph⟩ := I.wok k w hk
  have hs := sumW_le sendC _ k w hk
  have hr := sumW_le relC _ k w hk
  have hcnt := I.errsCnt
  have hle := I.idxLe
  have hproc := I.proc
  unfold step
  simp only [I.noPanic, stepCore, stepWorker, hk, Bool.false_eq_true, if_false]
  rcases hph with ⟨ho, hf, hc⟩ | ⟨ho, hf, hp, hc⟩ | ⟨ho, hf, hjf⟩ | ⟨ho | ho | ho, _⟩
  · simp only [ho]; split <;> exact ⟨_, rfl⟩
  · simp only [ho]; split <;> exact ⟨_, rfl⟩
  · simp only [ho, hf, if_true]
    have : s.errs.length < capOf expected cfg expected.errsCap := by
      simp [sendC, ho] at hs
      simp [capOf]; omega
    simp only [this, if_true]; exact ⟨_, rfl⟩
  · simp only [ho]; split <;> exact ⟨_, rfl⟩
  · simp only [ho]
    have : s.processing ≠ 0 := by simp [relC, ho] at hr; omega
    simp only [this, if_false]; exact ⟨_, rfl⟩
  · exact absurd ho hne

theorem no_deadlock_inv {cfg : Cfg} {s : State} (I : Inv cfg s) (hnf : s.final = false) :
    ∃ l s', step expected cfg s l = some s' := by
  by_cases hall : ∀ w ∈ s.workers, w.ops = []
  · -- every spawned worker has exited: the dispatcher can move
    have hrel : sumW relC s.workers = 0 := sumW_eq_zero (fun w hw => by simp [relC, hall w hw])
    have hdone : sumW doneC s.workers = 0 := sumW_eq_zero (fun w hw => by simp [doneC, hall w hw])
    have hproc := I.proc
    have hwgc := I.wgc
    have hK := conc_pos cfg
    have hnr : s.dpc ≠ .returned := by
      intro hd
      have : s.workers.all (fun w => w.ops.isEmpty) = true := by
        simp only [List.all_eq_true]; intro w hw; simp [hall w hw]
      simp [State.final, hd, this] at hnf
    unfold step
    simp only [I.noPanic]
    cases hd : s.dpc with
    | loop =>
      by_cases hi : s.idx < cfg.jobs.length
      · refine ⟨.acquire, ?_⟩
        have : s.processing < capOf expected cfg .concurrency := by
          simp [hd] at hproc; simp [capOf]; omega
        simp [stepCore, stepAcquire, hd, hi, this]
      · refine ⟨.finalWait, ?_⟩
        have : s.wg = 0 := by simp [hd] at hwgc; omega
        simp [stepCore, stepFinalWait, hd, this]; omega
    | acquired => exact ⟨.add, by simp [stepCore, stepAdd, hd]⟩
    | added =>
      have hi := I.idxLt (Or.inr hd)
      refine ⟨.spawn, ?_⟩
      have : cfg.jobs[s.idx]? = some cfg.jobs[s.idx] := List.getElem?_eq_getElem hi
      simp only [stepCore, stepSpawn, hd, this, exp_addAfter, Bool.false_eq_true, if_false, if_true]
      exact ⟨_, rfl⟩
    | errRecv e =>
      refine ⟨.earlyRet, ?_⟩
      have : s.wg = 0 := by simp [hd] at hwgc; omega
      simp [stepCore, stepEarlyRet, hd, this]
    | finalRecv =>
      refine ⟨.finalRecv, ?_⟩
      simp only [stepCore, stepFinalRecv, hd, exp_fr]
      cases s.errs <;> exact ⟨_, rfl⟩
    | returned => exact absurd hd hnr
  · -- some worker still has operations
    have : ∃ w ∈ s.workers, w.ops ≠ [] := by
      apply Classical.byContradiction
      intro hcon
      apply hall
      intro w hw
      apply Classical.byContradiction
      intro hne
      exact hcon ⟨w, hw, hne⟩
    obtain ⟨w, hw, hne⟩ := this
    obtain ⟨k, hk⟩ := List.mem_iff_getElem?.mp hw
    obtain ⟨s', hs'⟩ := worker_enabled I hk hne
    exact ⟨.work k, s', hs'⟩


/-! ### consequences of the invariant -/

theorem worker_of_lt {cfg : Cfg} {s : State} (I : Inv cfg s) {k : Nat} (hk : k < s.idx) :
    ∃ w, s.workers[k]? = some w := by
  have := I.len
  exact ⟨s.workers[k]'(by omega), List.getElem?_eq_getElem (by omega)⟩

theorem quiescent_of_returned {cfg : Cfg} {s : State} (I : Inv cfg s) (hr : s.ret ≠ none)
    {w : Worker} (hw : w ∈ s.workers) : w.quiescent = true := by
  obtain ⟨k, hk⟩ := List.mem_iff_getElem?.mp hw
  have hd := returned_doneC I hr hk
  obtain ⟨_, c0, _, hph⟩ := I.wok k w hk
  rcases hph with ⟨ho, _⟩ | ⟨ho, _⟩ | ⟨ho, _⟩ | ⟨ho | ho | ho, _⟩ <;>
    simp [doneC, ho] at hd <;> simp [Worker.quiescent, ho]

/-- after `nil`: worker `k` exists, did not fail, and wrote -/
theorem nil_worker {cfg : Cfg} {s : State} (I : Inv cfg s) (hr : s.ret = some none) {k : Nat}
    (hk : k < cfg.jobs.length) :
    cfg.jobFails k = false ∧ k ∈ s.written.map (·.1) := by
  obtain ⟨hi, hall⟩ := I.retNil hr
  obtain ⟨w, hw⟩ := worker_of_lt I (by omega : k < s.idx)
  have hf := hall k w hw
  have hd := returned_doneC I (by simp [hr]) hw
  obtain ⟨_, c0, _, hph⟩ := I.wok k w hw
  have : cfg.jobFails k = false ∧ wroteB w = true := by
    rcases hph with ⟨ho, _⟩ | ⟨ho, _⟩ | ⟨ho, _⟩ | ⟨ho | ho | ho, hst⟩ <;>
      simp [doneC, ho] at hd <;>
      (rcases hst with ⟨hf', _⟩ | ⟨_, hjf, _⟩
       · rw [hf] at hf'; contradiction
       · exact ⟨hjf, by simp [wroteB, hf, ho]⟩)
  exact ⟨this.1, (I.wrIff k w hw).mpr this.2⟩

/-- the content every job is expected to be written with -/
def target (cfg : Cfg) (k : Nat) : Bytes × Bytes :=
  match cfg.jobs[k]? with
  | some (p, c) => (p, cfg.ppf p c)
  | none => ([], [])

theorem written_eq_target {cfg : Cfg} {s : State} (I : Inv cfg s) :
    s.written.map (·.2) = (s.written.map (·.1)).map (target cfg) := by
  rw [List.map_map]
  apply List.map_congr_left
  intro x hx
  obtain ⟨c0, hj, hc⟩ := I.wrOwn x hx
  simp [target, hj, ← hc]

theorem range_map_target (cfg : Cfg) :
    (List.range cfg.jobs.length).map (target cfg) = cfg.jobs.map (fun j => (j.1, cfg.ppf j.1 j.2)) := by
  apply List.ext_getElem
  · simp
  · intro i h1 h2
    simp at h1
    simp [target, List.getElem?_eq_getElem h1]

theorem written_perm {cfg : Cfg} {s : State} (I : Inv cfg s) (hr : s.ret = some none) :
    (s.written.map (·.2)).Perm (cfg.jobs.map (fun j => (j.1, cfg.ppf j.1 j.2))) := by
  rw [written_eq_target I, ← range_map_target]
  apply List.Perm.map
  rw [List.perm_ext_iff_of_nodup I.wrNodup List.nodup_range]
  intro a
  rw [List.mem_range]
  constructor
  · intro ha
    obtain ⟨x, hx, rfl⟩ := List.mem_map.mp ha
    have := I.wrLt x hx
    have := (I.retNil hr).1
    omega
  · intro ha
    exact (nil_worker I hr ha).2

theorem nil_no_failure {cfg : Cfg} {s : State} (I : Inv cfg s) (hr : s.ret = some none) :
    s.idx = cfg.jobs.length ∧ ∀ k, k < cfg.jobs.length → cfg.jobFails k = false :=
  ⟨(I.retNil hr).1, fun _ hk => (nil_worker I hr hk).1⟩

/-- the semaphore never holds more than `concurrency` tokens -/
theorem reach_processing_le {cfg : Cfg} {s : State} (h : Reach expected cfg s) :
    s.processing ≤ conc expected cfg := by
  induction h with
  | init => simp [init]
  | @step s s' l hr hs ih =>
    have I := reach_inv hr
    unfold step at hs
    simp only [I.noPanic] at hs
    cases l <;> simp only [stepCore] at hs
    · unfold stepAcquire at hs
      repeat' split at hs
      all_goals (try (simp at hs))
      all_goals (try (simp at *; done))
      rename_i _ _ hp
      subst hs
      simp [capOf] at hp ⊢; omega
    · obtain ⟨e, es, hd, hi, he, rfl⟩ := stepRecvErr_inv hs; exact ih
    · obtain ⟨hd, rfl⟩ := stepAdd_inv hs; exact ih
    · obtain ⟨p, c, hd, hj, rfl⟩ := stepSpawn_inv hs; exact ih
    · obtain ⟨e, hd, hw, rfl⟩ := stepEarlyRet_inv hs; exact ih
    · obtain ⟨hd, hi, hw, rfl⟩ := stepFinalWait_inv hs; exact ih
    · obtain ⟨hd, h⟩ := stepFinalRecv_inv hs
      rcases h with ⟨he, rfl⟩ | ⟨e, es, he, rfl⟩ <;> exact ih
    · obtain ⟨w, w', hk, hw⟩ := stepWorker_inv I hs
      cases hw <;> simp <;> omega

/-- executions: a sequence of transitions -/
inductive Path (F : Facts) (cfg : Cfg) : State → List Label → State → Prop
  | nil (s : State) : Path F cfg s [] s
  | cons {s s' s'' : State} {l : Label} {ls : List Label} :
      step F cfg s l = some s' → Path F cfg s' ls s'' → Path F cfg s (l :: ls) s''

theorem path_reach {cfg : Cfg} {s s' : State} {ls : List Label} (hp : Path expected cfg s ls s')
    (hr : Reach expected cfg s) : Reach expected cfg s' := by
  induction hp with
  | nil => exact hr
  | cons hs _ ih => exact ih (Reach.step hr hs)

theorem path_length {cfg : Cfg} {s s' : State} {ls : List Label} (hp : Path expected cfg s ls s')
    (hr : Reach expected cfg s) : ls.length + variant cfg s' ≤ variant cfg s := by
  induction hp with
  | nil => simp
  | cons hs _ ih =>
    have := variant_decreases (reach_inv hr) hs
    have := ih (Reach.step hr hs)
    simp; omega


theorem nil_written {cfg : Cfg} {s : State} (I : Inv cfg s) (hr : s.ret = some none)
    {k : Nat} {p c : Bytes} (hj : cfg.jobs[k]? = some (p, c)) : (k, p, cfg.ppf p c) ∈ s.written := by
  have hk : k < cfg.jobs.length := by
    rcases Nat.lt_or_ge k cfg.jobs.length with h | h
    · exact h
    · rw [List.getElem?_eq_none h] at hj; contradiction
  obtain ⟨x, hx, hxk⟩ := List.mem_map.mp (nil_worker I hr hk).2
  obtain ⟨c0, hj', hc⟩ := I.wrOwn x hx
  obtain ⟨a, b, d⟩ := x
  simp at hxk hj' hc
  subst hxk
  rw [hj] at hj'
  simp at hj'
  obtain ⟨rfl, rfl⟩ := hj'
  rw [hc] at hx
  exact hx

/-- running a list of labels; used to exhibit reachable states -/
def runLabels (F : Facts) (cfg : Cfg) : State → List Label → Option State
  | s, [] => some s
  | s, l :: ls => match step F cfg s l with
    | none => none
    | some s' => runLabels F cfg s' ls

theorem runLabels_reach {F : Facts} {cfg : Cfg} : ∀ {ls : List Label} {s s' : State},
    Reach F cfg s → runLabels F cfg s ls = some s' → Reach F cfg s'
  | [], s, s', hr, h => by simp [runLabels] at h; subst h; exact hr
  | l :: ls, s, s', hr, h => by
    simp only [runLabels] at h
    split at h
    · contradiction
    · rename_i s1 hs
      exact runLabels_reach (Reach.step hr hs) h

end AsyncPP
