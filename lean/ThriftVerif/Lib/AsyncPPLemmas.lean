/-
  C19 — helper lemmas: the inductive invariant of the LTS `AsyncPP.step expected cfg`
  and what follows from it.  Property theorems are in Props/C19.lean.
-/
import ThriftVerif.Lib.AsyncPP

namespace AsyncPP

/-! ### sums over the worker list -/

def sumW (f : Worker → Nat) : List Worker → Nat
  | [] => 0
  | w :: r => f w + sumW f r

theorem sumW_append_single (f : Worker → Nat) (ws : List Worker) (w : Worker) :
    sumW f (ws ++ [w]) = sumW f ws + f w := by
  induction ws with
  | nil => simp [sumW]
  | cons a r ih => simp [sumW, ih]; omega

theorem sumW_set (f : Worker → Nat) : ∀ (ws : List Worker) (k : Nat) (w w' : Worker),
    ws[k]? = some w → sumW f (ws.set k w') + f w = sumW f ws + f w'
  | [], k, w, w', h => by simp at h
  | a :: r, 0, w, w', h => by
    simp at h; subst h; simp [sumW]; omega
  | a :: r, k + 1, w, w', h => by
    simp at h
    have := sumW_set f r k w w' h
    simp [sumW]; omega

theorem sumW_le (f : Worker → Nat) : ∀ (ws : List Worker) (k : Nat) (w : Worker),
    ws[k]? = some w → f w ≤ sumW f ws
  | [], k, w, h => by simp at h
  | a :: r, 0, w, h => by simp at h; subst h; simp [sumW]
  | a :: r, k + 1, w, h => by
    simp at h
    have := sumW_le f r k w h
    simp [sumW]; omega

/-! ### per-worker counters and the shape of a worker -/

def relC (w : Worker) : Nat := if w.ops.contains .release then 1 else 0
def doneC (w : Worker) : Nat := if w.ops.contains .done then 1 else 0
def sendC (w : Worker) : Nat := if w.ops.contains .send then 1 else 0
def wroteB (w : Worker) : Bool := !w.failed && !w.ops.contains .write && !w.ops.contains .pp

/-- the phases a worker of the unchanged code goes through -/
def WOk (cfg : Cfg) (k : Nat) (w : Worker) : Prop :=
  w.id = k ∧ ∃ c0, cfg.jobs[k]? = some (w.path, c0) ∧
    ( (w.ops = [.pp, .write, .send, .done, .release] ∧ w.failed = false ∧ w.content = c0)
    ∨ (w.ops = [.write, .send, .done, .release] ∧ w.failed = false ∧ cfg.failPP k = false ∧
         w.content = cfg.ppf w.path c0)
    ∨ (w.ops = [.send, .done, .release] ∧ w.failed = true ∧ cfg.jobFails k = true)
    ∨ ((w.ops = [.done, .release] ∨ w.ops = [.release] ∨ w.ops = []) ∧
         ((w.failed = true ∧ cfg.jobFails k = true) ∨
          (w.failed = false ∧ cfg.jobFails k = false ∧ w.content = cfg.ppf w.path c0))))

/-- the inductive invariant -/
structure Inv (cfg : Cfg) (s : State) : Prop where
  noPanic : s.panicked = false
  len : s.workers.length = s.idx
  idxLe : s.idx ≤ cfg.jobs.length
  idxLt : (s.dpc = .acquired ∨ s.dpc = .added) → s.idx < cfg.jobs.length
  idxEq : s.dpc = .finalRecv → s.idx = cfg.jobs.length
  wok : ∀ (k : Nat) (w : Worker), s.workers[k]? = some w → WOk cfg k w
  proc : s.processing = sumW relC s.workers + (if s.dpc = .acquired ∨ s.dpc = .added then 1 else 0)
  wgc : s.wg = sumW doneC s.workers + (if s.dpc = .added then 1 else 0)
  errsCnt : s.errs.length + sumW sendC s.workers ≤ s.idx
  errsGen : ∀ e ∈ s.errs, e < s.idx ∧ cfg.jobFails e = true
  errRecvGen : ∀ e, s.dpc = .errRecv e → e < s.idx ∧ cfg.jobFails e = true
  notLost : (s.dpc = .loop ∨ s.dpc = .acquired ∨ s.dpc = .added ∨ s.dpc = .finalRecv) →
    ∀ (k : Nat) (w : Worker), s.workers[k]? = some w → w.failed = true → sendC w = 0 → k ∈ s.errs
  wrNodup : (s.written.map (·.1)).Nodup
  wrOwn : ∀ x ∈ s.written, ∃ c0, cfg.jobs[x.1]? = some (x.2.1, c0) ∧ x.2.2 = cfg.ppf x.2.1 c0
  wrIff : ∀ (k : Nat) (w : Worker), s.workers[k]? = some w → (k ∈ s.written.map (·.1) ↔ wroteB w = true)
  wrLt : ∀ x ∈ s.written, x.1 < s.idx
  retNone : s.ret = none ↔ s.dpc ≠ .returned
  quiet : (s.dpc = .finalRecv ∨ s.dpc = .returned) → s.wg = 0
  retNil : s.ret = some none → s.idx = cfg.jobs.length ∧ ∀ (k : Nat) (w : Worker), s.workers[k]? = some w → w.failed = false
  retErr : ∀ e, s.ret = some (some e) → e < s.idx ∧ cfg.jobFails e = true

theorem inv_init (cfg : Cfg) : Inv cfg init := by
  constructor <;> simp [init, sumW]

theorem conc_pos (cfg : Cfg) : 1 ≤ conc expected cfg := by
  simp only [conc, expected]
  simp only [if_true]
  split <;> omega


/-! ### the expected skeleton, field by field -/

@[simp] theorem exp_clampConc : expected.clampConc = true := rfl
@[simp] theorem exp_errsCap : expected.errsCap = .lenJobs := rfl
@[simp] theorem exp_procCap : expected.procCap = .concurrency := rfl
@[simp] theorem exp_selAcquire : expected.selAcquire = true := rfl
@[simp] theorem exp_selRecvErr : expected.selRecvErr = true := rfl
@[simp] theorem exp_wait : expected.waitBeforeEarlyReturn = true := rfl
@[simp] theorem exp_add : expected.addBeforeGo = true := rfl
@[simp] theorem exp_ops : expected.workerOps = [.pp, .write, .send, .done, .release] := rfl
@[simp] theorem exp_wg : expected.writeGuarded = true := rfl
@[simp] theorem exp_fw : expected.finalWait = true := rfl
@[simp] theorem exp_fr : expected.finalRecv = .nonblocking := rfl

theorem forall_set {P Q : Nat → Worker → Prop} {ws : List Worker} {k : Nat} {w w' : Worker}
    (_hk : ws[k]? = some w) (hP : ∀ j x, ws[j]? = some x → P j x)
    (hne : ∀ j x, j ≠ k → P j x → Q j x) (hw : Q k w') :
    ∀ j x, (ws.set k w')[j]? = some x → Q j x := by
  intro j x hx
  rw [List.getElem?_set] at hx
  split at hx
  · rename_i hkj
    subst hkj
    split at hx
    · injection hx with hx; subst hx; exact hw
    · contradiction
  · rename_i hkj
    exact hne j x (fun e => hkj e.symm) (hP j x hx)

theorem wok_done_send {cfg : Cfg} {k : Nat} {w : Worker} (h : WOk cfg k w) (hd : doneC w = 0) : sendC w = 0 := by
  obtain ⟨_, c0, _, h⟩ := h
  rcases h with ⟨ho, _⟩ | ⟨ho, _⟩ | ⟨ho, _⟩ | ⟨ho | ho | ho, _⟩ <;> simp [doneC, sendC, ho] at hd ⊢

/-! ### dispatcher transitions preserve the invariant -/

theorem inv_acquire {cfg : Cfg} {s s' : State} (I : Inv cfg s)
    (h : stepAcquire expected cfg s = some s') : Inv cfg s' := by
  unfold stepAcquire at h
  repeat' split at h
  all_goals (try (simp at h))
  all_goals (try (simp at *; done))
  rename_i hc _ hp
  obtain ⟨hd, hi⟩ := hc
  subst h
  exact { I with
    idxLt := fun _ => hi
    idxEq := by simp
    proc := by have := I.proc; simp [hd] at this ⊢; omega
    wgc := by have := I.wgc; simp [hd] at this ⊢; omega
    errRecvGen := by simp
    notLost := by have := I.notLost; simp [hd] at this ⊢; exact this
    retNone := by have := I.retNone; simp [hd] at this ⊢; exact this
    quiet := by simp }

/-! ### inversion of the dispatcher transitions -/

theorem stepRecvErr_inv {cfg : Cfg} {s s' : State} (h : stepRecvErr expected cfg s = some s') :
    ∃ e es, s.dpc = .loop ∧ s.idx < cfg.jobs.length ∧ s.errs = e :: es ∧
      s' = { s with dpc := .errRecv e, errs := es } := by
  unfold stepRecvErr at h
  split at h
  · rename_i hc
    split at h
    · contradiction
    · rename_i e es he
      injection h with h
      exact ⟨e, es, hc.1, hc.2.1, he, h.symm⟩
  · contradiction

theorem stepAdd_inv {s s' : State} (h : stepAdd expected s = some s') :
    s.dpc = .acquired ∧ s' = { s with dpc := .added, wg := s.wg + 1 } := by
  unfold stepAdd at h
  split at h
  · rename_i hd
    injection h with h
    exact ⟨hd, by simp at h; exact h.symm⟩
  · contradiction

theorem stepSpawn_inv {cfg : Cfg} {s s' : State} (h : stepSpawn expected cfg s = some s') :
    ∃ p c, s.dpc = .added ∧ cfg.jobs[s.idx]? = some (p, c) ∧
      s' = { s with dpc := .loop, idx := s.idx + 1,
                    workers := s.workers ++ [{ id := s.idx, path := p, content := c, failed := false,
                                               ops := [.pp, .write, .send, .done, .release] }] } := by
  unfold stepSpawn at h
  split at h
  · rename_i hd
    split at h
    · contradiction
    · rename_i p c hj
      injection h with h
      exact ⟨p, c, hd, hj, by simp at h; exact h.symm⟩
  · contradiction

theorem stepEarlyRet_inv {s s' : State} (h : stepEarlyRet expected s = some s') :
    ∃ e, s.dpc = .errRecv e ∧ s.wg = 0 ∧ s' = { s with dpc := .returned, ret := some (some e) } := by
  unfold stepEarlyRet at h
  split at h
  · rename_i e he
    split at h
    · rename_i hw
      injection h with h
      exact ⟨e, he, hw rfl, h.symm⟩
    · contradiction
  · contradiction

theorem stepFinalWait_inv {cfg : Cfg} {s s' : State} (h : stepFinalWait expected cfg s = some s') :
    s.dpc = .loop ∧ cfg.jobs.length ≤ s.idx ∧ s.wg = 0 ∧ s' = { s with dpc := .finalRecv } := by
  unfold stepFinalWait at h
  split at h
  · rename_i hc
    injection h with h
    exact ⟨hc.1, hc.2.1, hc.2.2 rfl, h.symm⟩
  · contradiction

theorem stepFinalRecv_inv {s s' : State} (h : stepFinalRecv expected s = some s') :
    s.dpc = .finalRecv ∧
      ((s.errs = [] ∧ s' = { s with dpc := .returned, ret := some none }) ∨
       (∃ e es, s.errs = e :: es ∧ s' = { s with dpc := .returned, ret := some (some e), errs := es })) := by
  unfold stepFinalRecv at h
  split at h
  · rename_i hd
    refine ⟨hd, ?_⟩
    split at h
    · rename_i he; injection h with h; exact Or.inl ⟨he, h.symm⟩
    · rename_i e es _ he; injection h with h; exact Or.inr ⟨e, es, he, h.symm⟩
    · contradiction
    · rename_i hb _; simp at hb
    · rename_i hb; simp at hb
  · contradiction

end AsyncPP
