/-
  C19 — helper lemmas: the inductive invariant of the LTS `AsyncPP.step expected cfg`
  and what follows from it.  Property theorems are in Props/C19.lean.
-/
import ThriftVerif.Lib.AsyncPP

namespace AsyncPP

/-! ### sums over the worker list -/

def sumW (f : Worker → Nat) : List Worker → Nat
  | [] => 0
  | w :: r => f w + sumW f r

theorem sumW_append_single (f : Worker → Nat) (ws : List Worker) (w : Worker) :
    sumW f (ws ++ [w]) = sumW f ws + f w := by
  induction ws with
  | nil => simp [sumW]
  | cons a r ih => simp [sumW, ih]; omega

theorem sumW_set (f : Worker → Nat) : ∀ (ws : List Worker) (k : Nat) (w w' : Worker),
    ws[k]? = some w → sumW f (ws.set k w') + f w = sumW f ws + f w'
  | [], k, w, w', h => by simp at h
  | a :: r, 0, w, w', h => by
    simp at h; subst h; simp [sumW]; omega
  | a :: r, k + 1, w, w', h => by
    simp at h
    have := sumW_set f r k w w' h
    simp [sumW]; omega

theorem sumW_le (f : Worker → Nat) : ∀ (ws : List Worker) (k : Nat) (w : Worker),
    ws[k]? = some w → f w ≤ sumW f ws
  | [], k, w, h => by simp at h
  | a :: r, 0, w, h => by simp at h; subst h; simp [sumW]
  | a :: r, k + 1, w, h => by
    simp at h
    have := sumW_le f r k w h
    simp [sumW]; omega

/-! ### per-worker counters and the shape of a worker -/

def relC (w : Worker) : Nat := if w.ops.contains .release then 1 else 0
def doneC (w : Worker) : Nat := if w.ops.contains .done then 1 else 0
def sendC (w : Worker) : Nat := if w.ops.contains .send then 1 else 0
def wroteB (w : Worker) : Bool := !w.failed && !w.ops.contains .write && !w.ops.contains .pp

/-- the phases a worker of the unchanged code goes through -/
def WOk (cfg : Cfg) (k : Nat) (w : Worker) : Prop :=
  w.id = k ∧ ∃ c0, cfg.jobs[k]? = some (w.path, c0) ∧
    ( (w.ops = [.pp, .write, .send, .done, .release] ∧ w.failed = false ∧ w.content = c0)
    ∨ (w.ops = [.write, .send, .done, .release] ∧ w.failed = false ∧ cfg.failPP k = false ∧
         w.content = cfg.ppf w.path c0)
    ∨ (w.ops = [.send, .done, .release] ∧ w.failed = true ∧ cfg.jobFails k = true)
    ∨ ((w.ops = [.done, .release] ∨ w.ops = [.release] ∨ w.ops = []) ∧
         ((w.failed = true ∧ cfg.jobFails k = true) ∨
          (w.failed = false ∧ cfg.jobFails k = false ∧ w.content = cfg.ppf w.path c0))))

/-- the inductive invariant -/
structure Inv (cfg : Cfg) (s : State) : Prop where
  noPanic : s.panicked = false
  len : s.workers.length = s.idx
  idxLe : s.idx ≤ cfg.jobs.length
  idxLt : (s.dpc = .acquired ∨ s.dpc = .added) → s.idx < cfg.jobs.length
  idxEq : s.dpc = .finalRecv → s.idx = cfg.jobs.length
  wok : ∀ (k : Nat) (w : Worker), s.workers[k]? = some w → WOk cfg k w
  proc : s.processing = sumW relC s.workers + (if s.dpc = .acquired ∨ s.dpc = .added then 1 else 0)
  wgc : s.wg = sumW doneC s.workers + (if s.dpc = .added then 1 else 0)
  errsCnt : s.errs.length + sumW sendC s.workers ≤ s.idx
  errsGen : ∀ e ∈ s.errs, e < s.idx ∧ cfg.jobFails e = true
  errRecvGen : ∀ e, s.dpc = .errRecv e → e < s.idx ∧ cfg.jobFails e = true
  notLost : (s.dpc = .loop ∨ s.dpc = .acquired ∨ s.dpc = .added ∨ s.dpc = .finalRecv) →
    ∀ (k : Nat) (w : Worker), s.workers[k]? = some w → w.failed = true → sendC w = 0 → k ∈ s.errs
  wrNodup : (s.written.map (·.1)).Nodup
  wrOwn : ∀ x ∈ s.written, ∃ c0, cfg.jobs[x.1]? = some (x.2.1, c0) ∧ x.2.2 = cfg.ppf x.2.1 c0
  wrIff : ∀ (k : Nat) (w : Worker), s.workers[k]? = some w → (k ∈ s.written.map (·.1) ↔ wroteB w = true)
  wrLt : ∀ x ∈ s.written, x.1 < s.idx
  retNone : s.ret = none ↔ s.dpc ≠ .returned
  quiet : (s.dpc = .finalRecv ∨ s.dpc = .returned) → s.wg = 0
  retNil : s.ret = some none → s.idx = cfg.jobs.length ∧ ∀ (k : Nat) (w : Worker), s.workers[k]? = some w → w.failed = false
  retErr : ∀ e, s.ret = some (some e) → e < s.idx ∧ cfg.jobFails e = true

theorem inv_init (cfg : Cfg) : Inv cfg init := by
  constructor <;> simp [init, sumW]

theorem conc_pos (cfg : Cfg) : 1 ≤ conc expected cfg := by
  simp only [conc, expected]
  simp only [if_true]
  split <;> omega

end AsyncPP
