import ThriftVerif.Lib.Diag
/-
  Helper lemmas for Props/C04.lean.  Core Lean only.
  Part 1: the loops of semantic/checker.go.
  Part 2: the include graph (dfs reaches every file, searchCircle finds every cycle, fuel suffices).
  Part 3: symbol resolution (RegisterNames, ResolveType, ResolveTypedefs, getEnum).
  Part 4: the pipeline.
-/
namespace Diag

/-! ## Part 1 — checker loops -/

theorem dupScan_of_mem {seen : List Name} {x : Name} (h : x ∈ seen) :
    ∀ (b c : List Name), dupScan seen (b ++ x :: c) = true
  | [], c => by simp [dupScan, h]
  | y :: b, c => by
    simp only [List.cons_append, dupScan]
    split
    · rfl
    · exact dupScan_of_mem (List.mem_cons_of_mem _ h) b c

theorem dupScan_dup (x : Name) : ∀ (seen a b c : List Name), dupScan seen (a ++ x :: (b ++ x :: c)) = true
  | seen, [], b, c => by
    simp only [List.nil_append, dupScan]
    split
    · rfl
    · exact dupScan_of_mem (List.mem_cons_self) b c
  | seen, y :: a, b, c => by
    simp only [List.cons_append, dupScan]
    split
    · rfl
    · exact dupScan_dup x _ a b c

/-- a loop that may only stop early keeps failing when a prefix is put in front of a failing suffix -/
theorem enumLoop_prefix {rest : List (Name × Int)} (h : ∀ ex v2n, enumLoop ex v2n rest ≠ none) :
    ∀ (a : List (Name × Int)) ex v2n, enumLoop ex v2n (a ++ rest) ≠ none
  | [], ex, v2n => h ex v2n
  | (n, v) :: a, ex, v2n => by
    simp only [List.cons_append, enumLoop]
    split
    · simp
    · split
      · simp
      · exact enumLoop_prefix h a _ _

theorem enumLoop_name_seen {n : Name} : ∀ (b : List (Name × Int)) (c : List (Name × Int)) (v : Int) ex v2n,
    n ∈ ex → enumLoop ex v2n (b ++ (n, v) :: c) ≠ none
  | [], c, v, ex, v2n, h => by
    simp only [List.nil_append, enumLoop, h, if_true]
    cases assocFind v v2n with
    | none => simp
    | some n' => by_cases hn : n' = n <;> simp [hn]
  | (m, w) :: b, c, v, ex, v2n, h => by
    simp only [List.cons_append, enumLoop]
    split
    · simp
    · split
      · simp
      · exact enumLoop_name_seen b c v _ _ (List.mem_cons_of_mem _ h)

theorem enumLoop_dup_name (n : Name) (v1 v2 : Int) (a b c : List (Name × Int)) :
    enumLoop [] [] (a ++ (n, v1) :: (b ++ (n, v2) :: c)) ≠ none := by
  apply enumLoop_prefix
  intro ex v2n
  simp only [enumLoop]
  split
  · simp
  · split
    · simp
    · exact enumLoop_name_seen b c v2 _ _ List.mem_cons_self

theorem enumLoop_number_seen {v : Int} : ∀ (b : List (Name × Int)) (c : List (Name × Int)) (n : Name) ex v2n,
    (∃ m, assocFind v v2n = some m ∧ m ∈ ex) → enumLoop ex v2n (b ++ (n, v) :: c) ≠ none
  | [], c, n, ex, v2n, ⟨m, hm, hmem⟩ => by
    simp only [List.nil_append, enumLoop, hm]
    by_cases hn : m = n
    · subst hn; simp [hmem]
    · simp [hn]
  | (m', w) :: b, c, n, ex, v2n, ⟨m, hm, hmem⟩ => by
    simp only [List.cons_append, enumLoop]
    split
    · simp
    · split
      · simp
      · apply enumLoop_number_seen b c n
        by_cases hw : w = v
        · exact ⟨m', by simp [assocFind, hw], List.mem_cons_self⟩
        · exact ⟨m, by simp [assocFind, hw, hm], List.mem_cons_of_mem _ hmem⟩

theorem enumLoop_dup_number (n1 n2 : Name) (v : Int) (a b c : List (Name × Int)) :
    enumLoop [] [] (a ++ (n1, v) :: (b ++ (n2, v) :: c)) ≠ none := by
  apply enumLoop_prefix
  intro ex v2n
  simp only [enumLoop]
  split
  · simp
  · split
    · simp
    · exact enumLoop_number_seen b c n2 _ _ ⟨n1, by simp [assocFind], List.mem_cons_self⟩

theorem enumLoop_range (n : Name) (v : Int) (hv : v < -2147483648 ∨ v > 2147483647) (a c : List (Name × Int)) :
    enumLoop [] [] (a ++ (n, v) :: c) ≠ none := by
  apply enumLoop_prefix
  intro ex v2n
  simp only [enumLoop]
  split
  · simp
  · simp [hv]

theorem fieldLoop_prefix {rest : List Field} (h : ∀ ids ns, fieldLoop ids ns rest ≠ none) :
    ∀ (a : List Field) ids ns, fieldLoop ids ns (a ++ rest) ≠ none
  | [], ids, ns => h ids ns
  | f :: a, ids, ns => by
    simp only [List.cons_append, fieldLoop]
    split
    · simp
    · split
      · simp
      · exact fieldLoop_prefix h a _ _

theorem fieldLoop_seen (g : Field) : ∀ (b c : List Field) ids ns,
    (g.id ∈ ids ∨ g.name ∈ ns) → fieldLoop ids ns (b ++ g :: c) ≠ none
  | [], c, ids, ns, h => by
    simp only [List.nil_append, fieldLoop]
    by_cases h1 : g.id ∈ ids
    · simp [h1]
    · have h2 : g.name ∈ ns := h.resolve_left h1
      simp [h1, h2]
  | f :: b, c, ids, ns, h => by
    simp only [List.cons_append, fieldLoop]
    split
    · simp
    · split
      · simp
      · apply fieldLoop_seen g b c
        cases h with
        | inl h => exact Or.inl (List.mem_cons_of_mem _ h)
        | inr h => exact Or.inr (List.mem_cons_of_mem _ h)

theorem fieldLoop_dup (f g : Field) (h : f.id = g.id ∨ f.name = g.name) (a b c : List Field) :
    fieldLoop [] [] (a ++ f :: (b ++ g :: c)) ≠ none := by
  apply fieldLoop_prefix
  intro ids ns
  simp only [fieldLoop]
  split
  · simp
  · split
    · simp
    · apply fieldLoop_seen g b c
      cases h with
      | inl h => exact Or.inl (h ▸ List.mem_cons_self)
      | inr h => exact Or.inr (h ▸ List.mem_cons_self)

theorem funcLoop_prefix {rest : List Func} (h : ∀ d, funcLoop d rest ≠ none) :
    ∀ (a : List Func) d, funcLoop d (a ++ rest) ≠ none
  | [], d => h d
  | f :: a, d => by
    simp only [List.cons_append, funcLoop]
    split
    · simp
    · split
      · simp
      · split
        · simp
        · exact funcLoop_prefix h a _

theorem funcLoop_seen (g : Func) : ∀ (b c : List Func) d, g.name ∈ d → funcLoop d (b ++ g :: c) ≠ none
  | [], c, d, h => by simp [funcLoop, h]
  | f :: b, c, d, h => by
    simp only [List.cons_append, funcLoop]
    split
    · simp
    · split
      · simp
      · split
        · simp
        · exact funcLoop_seen g b c _ (List.mem_cons_of_mem _ h)

theorem funcLoop_dup (f g : Func) (h : f.name = g.name) (a b c : List Func) :
    funcLoop [] (a ++ f :: (b ++ g :: c)) ≠ none := by
  apply funcLoop_prefix
  intro d
  simp only [funcLoop]
  split
  · simp
  · split
    · simp
    · split
      · simp
      · exact funcLoop_seen g b c _ (h ▸ List.mem_cons_self)

theorem funcLoop_oneway (g : Func) (h : g.oneway = true ∧ (g.void = false ∨ g.throws ≠ [])) (a c : List Func) :
    funcLoop [] (a ++ g :: c) ≠ none := by
  apply funcLoop_prefix
  intro d
  simp only [funcLoop]
  split
  · simp
  · rcases h with ⟨ho, hv | ht⟩
    · simp [ho, hv]
    · split
      · simp
      · have : g.throws.isEmpty = false := by
          cases hth : g.throws with
          | nil => exact absurd hth ht
          | cons _ _ => rfl
        simp [ho, this]

/-- with the assignment in place, a second defaulted member is refused -/
theorem unionLoop_sets_seen (g : Field) (hg : g.hasDefault = true) :
    ∀ (b c : List Field), unionLoop true true (b ++ g :: c) ≠ none
  | [], c => by simp [unionLoop, hg]
  | f :: b, c => by
    simp only [List.cons_append, unionLoop]
    split
    · simp
    · exact unionLoop_sets_seen g hg b c

theorem unionLoop_sets_dup (f g : Field) (hf : f.hasDefault = true) (hg : g.hasDefault = true) :
    ∀ (a b c : List Field) (hd : Bool), unionLoop true hd (a ++ f :: (b ++ g :: c)) ≠ none
  | [], b, c, hd => by
    simp only [List.nil_append, unionLoop, hf, if_true]
    split
    · simp
    · simpa using unionLoop_sets_seen g hg b c
  | x :: a, b, c, hd => by
    simp only [List.cons_append, unionLoop]
    split
    · split
      · simp
      · simpa using unionLoop_sets_dup f g hf hg a b c _
    · exact unionLoop_sets_dup f g hf hg a b c _

/-- without the assignment (`hasDefault` is declared and tested but never set) the test never fires -/
theorem unionLoop_never (fs : List Field) : unionLoop false false fs = none := by
  induction fs with
  | nil => rfl
  | cons f r ih => simp [unionLoop, ih]

theorem findSome?_ne_none {α β : Type} {f : α → Option β} {l : List α} {x : α} (hx : x ∈ l) (h : f x ≠ none) :
    l.findSome? f ≠ none := by
  intro hn
  rw [List.findSome?_eq_none_iff] at hn
  exact h (hn x hx)

/-! ## Part 2 — the include graph -/

/-- `i` includes `k` -/
def Edge (p : Program) (i k : Nat) : Prop :=
  ∃ f, p.files[i]? = some f ∧ ∃ inc ∈ f.includes, inc.ref = k

inductive Path (p : Program) : Nat → Nat → Prop
  | refl (i : Nat) : Path p i i
  | cons {i k j : Nat} : Edge p i k → Path p k j → Path p i j

/-- reachable from the main file through includes -/
def Reach (p : Program) (j : Nat) : Prop := Path p p.root j

def names (p : Program) : List Name := p.files.map (·.filename)

/-- what parseFileRecursively guarantees: every Reference is a parsed file, one AST per path -/
structure WF (p : Program) : Prop where
  root_lt : p.root < p.files.length
  refs_lt : ∀ f ∈ p.files, ∀ inc ∈ f.includes, inc.ref < p.files.length
  nodup : (names p).Nodup

theorem wfb_iff (p : Program) : wfb p = true ↔ WF p := by
  simp only [wfb, Bool.and_eq_true, decide_eq_true_eq, List.all_eq_true]
  constructor
  · rintro ⟨⟨h1, h2⟩, h3⟩
    exact ⟨h1, h2, h3⟩
  · rintro ⟨h1, h2, h3⟩
    exact ⟨⟨h1, h2⟩, h3⟩

theorem Path.trans {p : Program} {i j k : Nat} (h1 : Path p i j) (h2 : Path p j k) : Path p i k := by
  induction h1 with
  | refl _ => exact h2
  | cons e _ ih => exact .cons e (ih h2)

theorem nodup_getElem?_inj {α : Type} : ∀ {l : List α} {i j : Nat} {x : α}, l.Nodup → l[i]? = some x → l[j]? = some x → i = j
  | [], i, j, x, _, h, _ => by simp at h
  | a :: l, 0, 0, x, _, _, _ => rfl
  | a :: l, 0, j + 1, x, hn, h1, h2 => by
    simp only [List.getElem?_cons_zero, Option.some.injEq, List.getElem?_cons_succ] at h1 h2
    subst h1
    exact absurd (List.mem_of_getElem? h2) (List.nodup_cons.mp hn).1
  | a :: l, i + 1, 0, x, hn, h1, h2 => by
    simp only [List.getElem?_cons_zero, Option.some.injEq, List.getElem?_cons_succ] at h1 h2
    subst h2
    exact absurd (List.mem_of_getElem? h1) (List.nodup_cons.mp hn).1
  | a :: l, i + 1, j + 1, x, hn, h1, h2 => by
    simp only [List.getElem?_cons_succ] at h1 h2
    rw [nodup_getElem?_inj (List.nodup_cons.mp hn).2 h1 h2]

theorem WF.inj {p : Program} (w : WF p) {i j : Nat} {f g : File}
    (hi : p.files[i]? = some f) (hj : p.files[j]? = some g) (h : f.filename = g.filename) : i = j := by
  have h1 : (names p)[i]? = some f.filename := by simp [names, List.getElem?_map, hi]
  have h2 : (names p)[j]? = some f.filename := by simp [names, List.getElem?_map, hj, h]
  exact nodup_getElem?_inj w.nodup h1 h2

theorem mem_names {p : Program} {i : Nat} {f : File} (h : p.files[i]? = some f) : f.filename ∈ names p :=
  List.mem_map.mpr ⟨f, List.mem_of_getElem? h, rfl⟩

theorem WF.edge_lt {p : Program} (w : WF p) {i k : Nat} (e : Edge p i k) : k < p.files.length := by
  obtain ⟨f, hf, inc, hinc, rfl⟩ := e
  exact w.refs_lt f (List.mem_of_getElem? hf) inc hinc

theorem file_of_lt {p : Program} {i : Nat} (h : i < p.files.length) : ∃ f, p.files[i]? = some f :=
  ⟨p.files[i], List.getElem?_eq_getElem h⟩

/-- pigeonhole: a duplicate-free list of names drawn from `m` is no longer than `m` -/
theorem nodup_subset_length : ∀ {l m : List Name}, l.Nodup → (∀ x ∈ l, x ∈ m) → l.length ≤ m.length
  | [], _, _, _ => Nat.zero_le _
  | a :: l, m, hn, hs => by
    have ha : a ∈ m := hs a List.mem_cons_self
    have hn' := List.nodup_cons.mp hn
    have hs' : ∀ x ∈ l, x ∈ m.erase a := fun x hx =>
      (List.mem_erase_of_ne (fun (h : x = a) => hn'.1 (h ▸ hx))).mpr (hs x (List.mem_cons_of_mem _ hx))
    have ih := nodup_subset_length hn'.2 hs'
    rw [List.length_erase_of_mem ha] at ih
    have : 0 < m.length := List.length_pos_of_mem ha
    simp only [List.length_cons]
    omega

theorem names_length (p : Program) : (names p).length = p.files.length := by simp [names]

/-! ### CircleDetect -/

theorem anyM_ne_none {g : Nat → Option Bool} : ∀ {l : List Nat}, (∀ x ∈ l, g x ≠ none) → anyM g l ≠ none
  | [], _ => by simp [anyM]
  | x :: r, h => by
    have hx := h x List.mem_cons_self
    simp only [anyM]
    cases hg : g x with
    | none => exact absurd hg hx
    | some b =>
      cases b with
      | true => simp
      | false => exact anyM_ne_none fun y hy => h y (List.mem_cons_of_mem _ hy)

theorem anyM_false {g : Nat → Option Bool} : ∀ {l : List Nat}, anyM g l = some false → ∀ x ∈ l, g x = some false
  | [], _, x, hx => by simp at hx
  | y :: r, h, x, hx => by
    simp only [anyM] at h
    cases hg : g y with
    | none => simp [hg] at h
    | some b =>
      cases b with
      | true => simp [hg] at h
      | false =>
        simp only [hg] at h
        cases List.mem_cons.mp hx with
        | inl e => exact e ▸ hg
        | inr hr => exact anyM_false h x hr

theorem searchCircle_ne_none {p : Program} (w : WF p) : ∀ (fuel cur : Nat) (nodes : List Name),
    nodes.Nodup → (∀ x ∈ nodes, x ∈ names p) → p.files.length + 1 ≤ fuel + nodes.length →
    searchCircle fuel p cur nodes ≠ none
  | 0, _, nodes, hn, hs, hf => by
    have := nodup_subset_length hn hs
    rw [names_length] at this
    omega
  | fuel + 1, cur, nodes, hn, hs, hf => by
    simp only [searchCircle]
    cases hcur : p.files[cur]? with
    | none => simp
    | some f =>
      simp only
      split
      · simp
      · rename_i hmem
        apply anyM_ne_none
        intro c _
        apply searchCircle_ne_none w fuel c
        · exact List.nodup_append.mpr ⟨hn, by simp, fun a ha b hb => by
            simp only [List.mem_singleton] at hb
            exact fun e => hmem (hb ▸ e ▸ ha)⟩
        · intro x hx
          cases List.mem_append.mp hx with
          | inl h => exact hs x h
          | inr h => simp only [List.mem_singleton] at h; exact h ▸ mem_names hcur
        · simp only [List.length_append, List.length_singleton]; omega

theorem searchCircle_false_children {p : Program} {fuel cur : Nat} {nodes : List Name} {f : File}
    (h : searchCircle (fuel + 1) p cur nodes = some false) (hf : p.files[cur]? = some f) :
    f.filename ∉ nodes ∧ ∀ inc ∈ f.includes, searchCircle fuel p inc.ref (nodes ++ [f.filename]) = some false := by
  simp only [searchCircle, hf] at h
  split at h
  · simp at h
  · rename_i hmem
    refine ⟨hmem, fun inc hinc => ?_⟩
    exact anyM_false h inc.ref (List.mem_map.mpr ⟨inc, hinc, rfl⟩)

/-- a search that returns "no circle" has seen no file of the current path again, however far below -/
theorem searchCircle_false_path {p : Program} : ∀ (fuel cur : Nat) (nodes : List Name),
    searchCircle fuel p cur nodes = some false →
    ∀ j f, Path p cur j → p.files[j]? = some f → f.filename ∉ nodes
  | 0, _, _, h, _, _, _, _ => by simp [searchCircle] at h
  | fuel + 1, cur, nodes, h, j, f, hp, hf => by
    cases hp with
    | refl _ => exact (searchCircle_false_children h hf).1
    | cons e hp' =>
      obtain ⟨fc, hfc, inc, hinc, rfl⟩ := e
      have hc := (searchCircle_false_children h hfc).2 inc hinc
      have := searchCircle_false_path fuel inc.ref _ hc j f hp' hf
      exact fun hm => this (List.mem_append_left _ hm)

theorem searchCircle_false_descend {p : Program} {i : Nat} : ∀ {fuel cur : Nat} {nodes : List Name},
    searchCircle fuel p cur nodes = some false → Path p cur i →
    ∃ fuel' nodes', searchCircle fuel' p i nodes' = some false := by
  intro fuel cur nodes h hp
  induction hp generalizing fuel nodes with
  | refl _ => exact ⟨fuel, nodes, h⟩
  | cons e _ ih =>
    obtain ⟨fc, hfc, inc, hinc, rfl⟩ := e
    cases fuel with
    | zero => simp [searchCircle] at h
    | succ fuel => exact ih ((searchCircle_false_children h hfc).2 inc hinc)

/-- CircleDetect is complete: a cycle anywhere below the main file is reported -/
theorem circleDetect_complete {p : Program} (w : WF p) {i k : Nat}
    (hr : Reach p i) (e : Edge p i k) (hback : Path p k i) : circleDetect p = some true := by
  cases hc : circleDetect p with
  | none =>
    exact absurd hc (searchCircle_ne_none w _ _ [] List.nodup_nil (by simp) (by simp))
  | some b =>
    cases b with
    | true => rfl
    | false =>
      exfalso
      obtain ⟨fuel, nodes, hi⟩ := searchCircle_false_descend hc hr
      obtain ⟨fi, hfi, inc, hinc, rfl⟩ := e
      cases fuel with
      | zero => simp [searchCircle] at hi
      | succ fuel =>
        have hk := (searchCircle_false_children hi hfi).2 inc hinc
        exact searchCircle_false_path fuel inc.ref _ hk i fi hback hfi (by simp)

/-! ### DepthFirstSearch -/

/-- invariant of `dfs` with `S` the files currently being visited (entered, not yet emitted) -/
structure DInv (p : Program) (S : List Nat) (st : DfsSt) : Prop where
  nodup : st.set.Nodup
  sub : ∀ x ∈ st.set, x ∈ names p
  setOf : ∀ i f, p.files[i]? = some f → (f.filename ∈ st.set ↔ (i ∈ st.out ∨ i ∈ S))
  closed : ∀ i ∈ st.out, ∀ k, Edge p i k → ∀ fk, p.files[k]? = some fk → fk.filename ∈ st.set

/-- what one call of `dfs` guarantees -/
def DfsPost (p : Program) (S : List Nat) (t : Nat) (st : DfsSt) (r : Option DfsSt) : Prop :=
  ∃ st', r = some st' ∧ DInv p S st' ∧ (∀ x ∈ st.set, x ∈ st'.set) ∧
    (∀ f, p.files[t]? = some f → f.filename ∈ st'.set)

theorem dinv_length {p : Program} {S : List Nat} {st : DfsSt} (h : DInv p S st) : st.set.length ≤ p.files.length := by
  have := nodup_subset_length h.nodup h.sub
  rwa [names_length] at this

theorem subset_length_le {p : Program} {S : List Nat} {st st' : DfsSt} (h : DInv p S st)
    (hs : ∀ x ∈ st.set, x ∈ st'.set) : st.set.length ≤ st'.set.length :=
  nodup_subset_length h.nodup hs

theorem dfs_fold_spec {p : Program} {fuel : Nat} {S : List Nat}
    (ih : ∀ t st, DInv p S st → p.files.length + 1 ≤ fuel + st.set.length → DfsPost p S t st (dfs fuel p t st)) :
    ∀ (incs : List Include) (st : DfsSt), DInv p S st → p.files.length + 1 ≤ fuel + st.set.length →
    ∃ st', incs.foldlM (fun s inc => dfs fuel p inc.ref s) st = some st' ∧ DInv p S st' ∧
      (∀ x ∈ st.set, x ∈ st'.set) ∧
      (∀ inc ∈ incs, ∀ f, p.files[inc.ref]? = some f → f.filename ∈ st'.set)
  | [], st, hi, _ => ⟨st, by simp, hi, fun _ h => h, by simp⟩
  | inc :: r, st, hi, hf => by
    obtain ⟨st1, h1, hi1, hs1, ht1⟩ := ih inc.ref st hi hf
    have hl := subset_length_le hi hs1
    obtain ⟨st2, h2, hi2, hs2, ht2⟩ := dfs_fold_spec ih r st1 hi1 (by omega)
    refine ⟨st2, ?_, hi2, fun x hx => hs2 x (hs1 x hx), ?_⟩
    · simp only [List.foldlM_cons, h1]
      exact h2
    · intro inc' hinc' f hf'
      cases List.mem_cons.mp hinc' with
      | inl e => subst e; exact hs2 _ (ht1 f hf')
      | inr hr => exact ht2 inc' hr f hf'

theorem dfs_spec {p : Program} (w : WF p) : ∀ (fuel : Nat) (S : List Nat) (t : Nat) (st : DfsSt),
    DInv p S st → p.files.length + 1 ≤ fuel + st.set.length → DfsPost p S t st (dfs fuel p t st)
  | 0, S, t, st, hi, hf => by
    have := dinv_length hi
    omega
  | fuel + 1, S, t, st, hi, hf => by
    simp only [dfs]
    cases ht : p.files[t]? with
    | none => exact ⟨st, rfl, hi, fun _ h => h, fun g hg => by rw [ht] at hg; cases hg⟩
    | some f =>
      simp only
      split
      · rename_i hmem
        exact ⟨st, rfl, hi, fun _ h => h, fun g hg => by rw [ht] at hg; cases hg; exact hmem⟩
      · rename_i hmem
        -- enter t
        have hi1 : DInv p (t :: S) { st with set := f.filename :: st.set } := {
          nodup := List.nodup_cons.mpr ⟨hmem, hi.nodup⟩
          sub := fun x hx => by
            cases List.mem_cons.mp hx with
            | inl e => exact e ▸ mem_names ht
            | inr h => exact hi.sub x h
          setOf := fun i g hg => by
            constructor
            · intro h
              cases List.mem_cons.mp h with
              | inl e => exact Or.inr (by rw [w.inj hg ht e]; exact List.mem_cons_self)
              | inr h =>
                cases (hi.setOf i g hg).mp h with
                | inl h => exact Or.inl h
                | inr h => exact Or.inr (List.mem_cons_of_mem _ h)
            · intro h
              rcases h with h | h
              · exact List.mem_cons_of_mem _ ((hi.setOf i g hg).mpr (Or.inl h))
              · cases List.mem_cons.mp h with
                | inl e =>
                  subst e
                  rw [ht] at hg
                  cases hg
                  exact List.mem_cons_self
                | inr h => exact List.mem_cons_of_mem _ ((hi.setOf i g hg).mpr (Or.inr h))
          closed := fun i hiout k e fk hfk => List.mem_cons_of_mem _ (hi.closed i hiout k e fk hfk) }
        obtain ⟨st2, h2, hi2, hs2, hc2⟩ :=
          dfs_fold_spec (fun t' st' => dfs_spec w fuel (t :: S) t' st') f.includes _ hi1
            (by simp only [List.length_cons]; omega)
        simp only [h2]
        refine ⟨_, rfl, ?_, fun x hx => hs2 x (List.mem_cons_of_mem _ hx), fun g hg => ?_⟩
        · exact {
            nodup := hi2.nodup
            sub := hi2.sub
            setOf := fun i g hg => by
              rw [hi2.setOf i g hg]
              simp only [List.mem_append, List.mem_cons, List.not_mem_nil, or_false]
              constructor
              · rintro (h | h | h)
                · exact Or.inl (Or.inl h)
                · exact Or.inl (Or.inr h)
                · exact Or.inr h
              · rintro ((h | h) | h)
                · exact Or.inl h
                · exact Or.inr (Or.inl h)
                · exact Or.inr (Or.inr h)
            closed := fun i hiout k e fk hfk => by
              cases List.mem_append.mp hiout with
              | inl h => exact hi2.closed i h k e fk hfk
              | inr h =>
                simp only [List.mem_singleton] at h
                subst h
                obtain ⟨f', hf', inc, hinc, rfl⟩ := e
                rw [ht] at hf'
                cases hf'
                exact hc2 inc hinc fk hfk }
        · rw [ht] at hg
          cases hg
          exact hs2 _ List.mem_cons_self

/-- DepthFirstSearch never runs out of fuel and emits every file reachable through includes -/
theorem dfsOrder_complete {p : Program} (w : WF p) :
    ∃ order, dfsOrder p = some order ∧ ∀ i, Reach p i → i ∈ order := by
  have h0 : DInv p [] ⟨[], []⟩ := ⟨List.nodup_nil, by simp, by simp, by simp⟩
  obtain ⟨st, hst, hi, _, hroot⟩ := dfs_spec w (p.files.length + 1) [] p.root ⟨[], []⟩ h0 (by simp)
  refine ⟨st.out, by simp [dfsOrder, hst], ?_⟩
  have hstep : ∀ i j, Path p i j → i ∈ st.out → j ∈ st.out := by
    intro i j hp
    induction hp with
    | refl _ => exact id
    | cons e _ ih =>
      intro hiout
      obtain ⟨fk, hfk⟩ := file_of_lt (w.edge_lt e)
      have := hi.closed _ hiout _ e fk hfk
      have := (hi.setOf _ fk hfk).mp this
      simp only [List.not_mem_nil, or_false] at this
      exact ih this
  intro i hr
  obtain ⟨fr, hfr⟩ := file_of_lt w.root_lt
  have := (hi.setOf _ fr hfr).mp (hroot fr hfr)
  simp only [List.not_mem_nil, or_false] at this
  exact hstep _ _ hr this

end Diag
